import ChessVerif.Lemmas.GeomBridge5
/-
Pins and checks on the specification, part 1: the board after a plain (non-castle, non-en-passant)
move, the king square, and the decomposition of `attacks` into a slider part and a leaper part.
-/
namespace Chess
namespace PinCheck

set_option maxRecDepth 100000

/-! ### quantifiers over all squares -/

theorem allSq_mem (s : Sq) : s ∈ allSq := List.mem_finRange s

theorem allSq_any (f : Sq → Bool) : allSq.any f = true ↔ ∃ x, f x = true := by
  rw [List.any_eq_true]
  constructor
  · rintro ⟨x, _, h⟩; exact ⟨x, h⟩
  · rintro ⟨x, h⟩; exact ⟨x, allSq_mem x, h⟩

theorem allSq_all (f : Sq → Bool) : allSq.all f = true ↔ ∀ x, f x = true := by
  rw [List.all_eq_true]
  constructor
  · intro h x; exact h x (allSq_mem x)
  · intro h x _; exact h x

/-! ### board accessors -/

theorem empty_iff (p : Pos) (s : Sq) : p.empty s = true ↔ p.board s = none := by
  unfold Pos.empty; cases p.board s <;> simp

theorem empty_false_iff (p : Pos) (s : Sq) : p.empty s = false ↔ ∃ pc c, p.board s = some (pc, c) := by
  unfold Pos.empty
  rcases p.board s with _ | ⟨pc, c⟩
  · simp
  · simp

theorem colorAt_iff (p : Pos) (s : Sq) (c : Color) :
    p.colorAt s = some c ↔ ∃ pc, p.board s = some (pc, c) := by
  unfold Pos.colorAt
  rcases p.board s with _ | ⟨pc, c'⟩
  · simp
  · simp

theorem colorAt_of_board {p : Pos} {s : Sq} {pc : Piece} {c : Color} (h : p.board s = some (pc, c)) :
    p.colorAt s = some c := (colorAt_iff p s c).mpr ⟨pc, h⟩

theorem not_empty_of_colorAt {p : Pos} {s : Sq} {c : Color} (h : p.colorAt s = some c) :
    p.empty s = false := by
  obtain ⟨pc, h⟩ := (colorAt_iff p s c).mp h
  exact (empty_false_iff p s).mpr ⟨pc, c, h⟩

/-! ### the king square -/

/-- `k` is the one and only square holding the king of colour `c` -/
def KingAt (p : Pos) (c : Color) (k : Sq) : Prop := ∀ s, p.board s = some (.king, c) ↔ s = k

theorem kingSq?_of_KingAt {p : Pos} {c : Color} {k : Sq} (h : KingAt p c k) : kingSq? p c = some k := by
  unfold kingSq?
  cases hf : allSq.find? (fun s => p.has s .king c) with
  | none =>
    rw [List.find?_eq_none] at hf
    have := hf k (allSq_mem k)
    simp [Pos.has, (h k).mpr rfl] at this
  | some k' =>
    have hk := List.find?_some hf
    simp only [Pos.has, beq_iff_eq] at hk
    rw [(h k').mp hk]

theorem board_of_kingSq? {p : Pos} {c : Color} {k : Sq} (h : kingSq? p c = some k) :
    p.board k = some (.king, c) := by
  unfold kingSq? at h
  have hk := List.find?_some h
  simpa only [Pos.has, beq_iff_eq] using hk

/-- a list of length one with two members: they are equal -/
theorem eq_of_mem_length_one {α : Type} {l : List α} (hl : l.length = 1) {a b : α} (ha : a ∈ l) (hb : b ∈ l) :
    a = b := by
  match l, hl with
  | [x], _ =>
    rw [List.mem_singleton] at ha hb
    rw [ha, hb]

theorem KingAt_of_count {p : Pos} {c : Color} {k : Sq} (hk : kingSq? p c = some k)
    (h1 : count p (· == (.king, c)) = 1) : KingAt p c k := by
  have hbk := board_of_kingSq? hk
  intro s
  constructor
  · intro hs
    unfold count at h1
    refine eq_of_mem_length_one h1 ?_ ?_
    · rw [List.mem_filter]; exact ⟨allSq_mem s, by rw [hs]; simp⟩
    · rw [List.mem_filter]; exact ⟨allSq_mem k, by rw [hbk]; simp⟩
  · intro hs; rw [hs]; exact hbk

theorem filter_eq_length : ∀ k : Sq, (allSq.filter (fun s => s == k)).length = 1 := by decide

theorem count_of_KingAt {p : Pos} {c : Color} {k : Sq} (h : KingAt p c k) :
    kingSq? p c = some k ∧ count p (· == (.king, c)) = 1 := by
  refine ⟨kingSq?_of_KingAt h, ?_⟩
  unfold count
  have : (allSq.filter fun s => (p.board s).any (· == (.king, c))) = allSq.filter (fun s => s == k) := by
    apply List.filter_congr
    intro s _
    rw [Bool.eq_iff_iff, beq_iff_eq, ← h s]
    rcases p.board s with _ | ⟨pc, c'⟩
    · simp
    · simp
  rw [this]
  exact filter_eq_length k

/-! ### `attacks` = slider part ∨ leaper part -/

/-- the man `b` on `x` is a bishop, rook or queen and `k` lies on one of its lines (the test used in
`pinnedSq`) -/
def sliderAligned (b : Option (Piece × Color)) (x k : Sq) : Bool :=
  match b with
  | some (.bishop, _) => aligned bishopDirs x k
  | some (.rook, _) => aligned rookDirs x k
  | some (.queen, _) => aligned allDirs x k
  | _ => false

/-- the man `b` on `x` is a knight, king or pawn attacking `k` -/
def leaperAtt (b : Option (Piece × Color)) (x k : Sq) : Bool :=
  match b with
  | some (.knight, _) =>
      ((k.file - x.file).natAbs == 1 && (k.rank - x.rank).natAbs == 2) ||
      ((k.file - x.file).natAbs == 2 && (k.rank - x.rank).natAbs == 1)
  | some (.king, _) => allDirs.any fun u => onRay x u 1 k
  | some (.pawn, c) => k.rank - x.rank == c.fwd && (k.file - x.file).natAbs == 1
  | _ => false

theorem attacks_eq (p : Pos) (x k : Sq) :
    attacks p x k = ((sliderAligned (p.board x) x k && pathClear p x k) || leaperAtt (p.board x) x k) := by
  unfold attacks sliderAligned leaperAtt slides
  rcases p.board x with _ | ⟨pc, c⟩
  · simp
  · cases pc <;> simp

theorem slider_leaper_excl {b : Option (Piece × Color)} {x k : Sq} (h1 : sliderAligned b x k = true)
    (h2 : leaperAtt b x k = true) : False := by
  unfold sliderAligned at h1
  unfold leaperAtt at h2
  rcases b with _ | ⟨pc, c⟩
  · simp at h1
  · cases pc <;> simp at h1 h2

theorem sliderAligned_all {b : Option (Piece × Color)} {x k : Sq} (h : sliderAligned b x k = true) :
    aligned allDirs x k = true := by
  unfold sliderAligned at h
  rcases b with _ | ⟨pc, c⟩
  · simp at h
  · cases pc <;> simp at h
    · exact aligned_allDirs_of_bishop h
    · exact aligned_allDirs_of_rook h
    · exact h

theorem pathClear_iff (p : Pos) (a b : Sq) :
    pathClear p a b = true ↔ ∀ z, strictlyBetween a z b = true → p.empty z = true := by
  unfold pathClear
  rw [allSq_all]
  constructor
  · intro h z hz
    have := h z
    rw [hz] at this
    simpa using this
  · intro h z
    cases hz : strictlyBetween a z b with
    | false => simp
    | true => simp [h z hz]

/-- the pin test of `pinnedSq` is `sliderAligned` -/
theorem pinMatch_eq (b : Option (Piece × Color)) (x k : Sq) :
    (match b with
     | some (.bishop, _) => aligned bishopDirs x k
     | some (.rook, _) => aligned rookDirs x k
     | some (.queen, _) => aligned allDirs x k
     | _ => false) = sliderAligned b x k := rfl

/-! ### checkers and pinned men, as propositions -/

theorem checkerSq_iff {p : Pos} {k : Sq} (hk : kingSq? p p.stm = some k) (x : Sq) :
    checkerSq p x = true ↔
      p.colorAt x = some p.stm.other ∧
      ((sliderAligned (p.board x) x k = true ∧ ∀ z, strictlyBetween x z k = true → p.empty z = true) ∨
        leaperAtt (p.board x) x k = true) := by
  unfold checkerSq
  rw [hk]
  simp only [Bool.and_eq_true, beq_iff_eq, attacks_eq, Bool.or_eq_true, pathClear_iff]

theorem pinnedSq_iff {p : Pos} {k : Sq} (hk : kingSq? p p.stm = some k) (y : Sq) :
    pinnedSq p y = true ↔
      p.colorAt y = some p.stm ∧ y ≠ k ∧
      ∃ x, p.colorAt x = some p.stm.other ∧ strictlyBetween x y k = true ∧
        (∀ z, strictlyBetween x z k = true → z = y ∨ p.empty z = true) ∧
        sliderAligned (p.board x) x k = true := by
  unfold pinnedSq
  rw [hk]
  simp only [Bool.and_eq_true, beq_iff_eq, bne_iff_ne, ne_eq, allSq_any, allSq_all,
    Bool.or_eq_true, Bool.not_eq_true', and_assoc]
  constructor
  · rintro ⟨h1, h2, x, h3, h4, h5, h6⟩
    refine ⟨h1, h2, x, h3, h4, ?_, h6⟩
    intro z hz
    rcases h5 z with (h | h) | h
    · rw [hz] at h; exact absurd h (by simp)
    · exact Or.inl h
    · exact Or.inr h
  · rintro ⟨h1, h2, x, h3, h4, h5, h6⟩
    refine ⟨h1, h2, x, h3, h4, ?_, h6⟩
    intro z
    cases hz : strictlyBetween x z k with
    | false => exact Or.inl (Or.inl rfl)
    | true =>
      rcases h5 z hz with h | h
      · exact Or.inl (Or.inr h)
      · exact Or.inr h

end PinCheck
end Chess
