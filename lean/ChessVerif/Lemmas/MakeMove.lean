import ChessVerif.Lemmas.MoveSpec
/-!
`make_move_new` refines the specification's successor position (`apply`, with the recording policy
`norm` for the ep mark): placement, side to move, castling rights, ep mark; and keeps `Core`.
Side conditions: the ep mark (if any) is consistent (`Pos.EpSane`, a part of `epValid`) and castling
rights imply king and rook at home (`Pos.RightsSane`, the clause of `Valid`).  Both are needed:
see the counterexamples recorded in `Props/C02.lean`.
-/
namespace Chess

theorem pieceOn_of_content {b : Board} (h : Struct b) {s : Sq} {p : Piece} {c : Color}
    (hs : b.content s = some (p, c)) : b.pieceOn s = some p :=
  (pieceOn_some_iff h s p).mpr ((h.content_some_iff s p c).mp hs).1

theorem pieceOn_of_content_none {b : Board} (h : Struct b) {s : Sq} (hs : b.content s = none) :
    b.pieceOn s = none :=
  (pieceOn_none_iff b s).mpr ((h.content_none_iff s).mp hs)

theorem other_of_ne {c o : Color} (h : o ≠ c) : o = c.other := by
  cases c <;> cases o <;> first | rfl | exact absurd rfl h

/-- the mover/captured toggles of `make_move_new`: `Core` is kept, the mover stands on the destination -/
theorem moveBase_core {T : Tables} {b : Board} (hc : Core T b) {S D : Sq} {pc : Piece} {c : Color}
    (hS : b.content S = some (pc, c)) (hD : b.abs.colorAt D ≠ some c) :
    Core T (moveBase T b pc S D c (b.pieceOn D)) ∧
    ∀ t, (moveBase T b pc S D c (b.pieceOn D)).content t =
      if t = D then some (pc, c) else if t = S then none else b.content t := by
  cases hcont : b.content D with
  | none =>
    rw [pieceOn_of_content_none hc.toStruct hcont]
    exact hc.move_quiet hS hcont
  | some x =>
    obtain ⟨q, o⟩ := x
    rw [pieceOn_of_content hc.toStruct hcont]
    have ho : o ≠ c := by
      intro e
      apply hD
      rw [colorAt_eq_some]
      exact ⟨q, by rw [← e]; exact hcont⟩
    have hne : S ≠ D := by
      intro e; rw [e, hcont] at hS
      injection hS with hS; injection hS with _ hS; exact ho hS
    have := hc.move_capture hS hcont hne
    rw [other_of_ne ho] at this
    exact this

theorem applyMoved_eq {p : Pos} {m : Move} {pc : Piece} {c : Color} (hs : p.board m.src = some (pc, c)) :
    applyMoved p m = match m.promo with
      | some q => if pc = .pawn then some (q, c) else some (pc, c)
      | none => some (pc, c) := by
  unfold applyMoved
  rw [hs]
  cases m.promo with
  | none => rfl
  | some q => cases pc <;> rfl

/-- the plain case: nothing but the mover (and the captured man) changes -/
theorem plain_content {b : Board} {m : Move} {pc : Piece} (hS : b.content m.src = some (pc, b.stm))
    (hc : isCastle b.abs m = false) (he : isEnPassant b.abs m = false) (hnp : pc = .pawn → m.promo = none)
    {base : Board}
    (hbc : ∀ t, base.content t = if t = m.dst then some (pc, b.stm) else if t = m.src then none else b.content t)
    (t : Sq) : base.content t = (apply b.abs m).board t := by
  rw [apply_board_plain hc he, hbc, applyMoved_eq (show b.abs.board m.src = some (pc, b.stm) from hS)]
  cases hq : m.promo with
  | none => rfl
  | some q =>
    have : pc ≠ .pawn := fun e => by rw [hnp e] at hq; cases hq
    simp only [if_neg this]

end Chess
