import ChessVerif.Lemmas.MoveSpec
/-!
`make_move_new` refines the specification's successor position (`apply`, with the recording policy
`norm` for the ep mark): placement, side to move, castling rights, ep mark; and keeps `Core`.
Side conditions: the ep mark (if any) is consistent (`Pos.EpSane`, a part of `epValid`) and castling
rights imply king and rook at home (`Pos.RightsSane`, the clause of `Valid`).  Both are needed:
see the counterexamples recorded in `Props/C02.lean`.
-/
namespace Chess

theorem abs_stm (b : Board) : b.abs.stm = b.stm := rfl
theorem abs_ep (b : Board) : b.abs.ep = b.ep := rfl

theorem pieceOn_of_content {b : Board} (h : Struct b) {s : Sq} {p : Piece} {c : Color}
    (hs : b.content s = some (p, c)) : b.pieceOn s = some p :=
  (pieceOn_some_iff h s p).mpr ((h.content_some_iff s p c).mp hs).1

theorem pieceOn_of_content_none {b : Board} (h : Struct b) {s : Sq} (hs : b.content s = none) :
    b.pieceOn s = none :=
  (pieceOn_none_iff b s).mpr ((h.content_none_iff s).mp hs)

theorem other_of_ne {c o : Color} (h : o ≠ c) : o = c.other := by
  cases c <;> cases o <;> first | rfl | exact absurd rfl h

/-- the mover/captured toggles of `make_move_new`: `Core` is kept, the mover stands on the destination -/
theorem moveBase_core {T : Tables} {b : Board} (hc : Core T b) {S D : Sq} {pc : Piece} {c : Color}
    (hS : b.content S = some (pc, c)) (hD : b.abs.colorAt D ≠ some c) :
    Core T (moveBase T b pc S D c (b.pieceOn D)) ∧
    ∀ t, (moveBase T b pc S D c (b.pieceOn D)).content t =
      if t = D then some (pc, c) else if t = S then none else b.content t := by
  cases hcont : b.content D with
  | none =>
    rw [pieceOn_of_content_none hc.toStruct hcont]
    exact hc.move_quiet hS hcont
  | some x =>
    obtain ⟨q, o⟩ := x
    rw [pieceOn_of_content hc.toStruct hcont]
    have ho : o ≠ c := by
      intro e
      apply hD
      rw [colorAt_eq_some]
      exact ⟨q, by rw [← e]; exact hcont⟩
    have hne : S ≠ D := by
      intro e; rw [e, hcont] at hS
      injection hS with hS; injection hS with _ hS; exact ho hS
    have := hc.move_capture hS hcont hne
    rw [other_of_ne ho] at this
    exact this

theorem applyMoved_eq {p : Pos} {m : Move} {pc : Piece} {c : Color} (hs : p.board m.src = some (pc, c)) :
    applyMoved p m = match m.promo with
      | some q => if pc = .pawn then some (q, c) else some (pc, c)
      | none => some (pc, c) := by
  unfold applyMoved
  rw [hs]
  cases m.promo with
  | none => cases pc <;> rfl
  | some q => cases pc <;> rfl

/-- the plain case: nothing but the mover (and the captured man) changes -/
theorem plain_content {b : Board} {m : Move} {pc : Piece} (hS : b.content m.src = some (pc, b.stm))
    (hc : isCastle b.abs m = false) (he : isEnPassant b.abs m = false) (hnp : pc = .pawn → m.promo = none)
    {base : Board}
    (hbc : ∀ t, base.content t = if t = m.dst then some (pc, b.stm) else if t = m.src then none else b.content t)
    (t : Sq) : base.content t = (apply b.abs m).board t := by
  rw [apply_board_plain hc he, hbc, applyMoved_eq (show b.abs.board m.src = some (pc, b.stm) from hS)]
  cases hq : m.promo with
  | none => rfl
  | some q =>
    have : pc ≠ .pawn := fun e => by rw [hnp e] at hq; cases hq
    simp only [if_neg this]
    rfl

/-- what has to be shown about phase 2 of `make_move_new` applied to the mover/captured toggles `base` -/
def PlaceGoal (T : Tables) (b : Board) (m : Move) (pc : Piece) (base : Board) : Prop :=
  Core T (mmPlace T b.stm b.ep m pc base) ∧
  (∀ t, (mmPlace T b.stm b.ep m pc base).content t = (apply b.abs m).board t) ∧
  (if pc = .pawn ∧ m.promo = none ∧ mmDbl T m then
     (if T.adjFiles m.dst.getFile &&& T.ranks m.dst.getRank &&& base.pawns &&&
         base.colorCombined b.stm.other ≠ 0#64 then some m.dst else none)
   else none) = (norm (apply b.abs m)).ep

theorem mmCastles_not_king (T : Tables) (m : Move) {pc : Piece} (h : pc ≠ .king) : mmCastles T m pc = false := by
  unfold mmCastles
  cases pc <;> first | rfl | exact absurd rfl h

theorem place_plain {T : Tables} {b : Board} {m : Move} {pc : Piece} {base : Board}
    (hS : b.content m.src = some (pc, b.stm)) (hbase : Core T base)
    (hbc : ∀ t, base.content t = if t = m.dst then some (pc, b.stm) else if t = m.src then none else b.content t)
    (hm : mmPlace T b.stm b.ep m pc base = base)
    (hc : isCastle b.abs m = false) (he : isEnPassant b.abs m = false) (hd : isDoubleStep b.abs m = false)
    (hnp : pc = .pawn → m.promo = none) (hnd : ¬(pc = .pawn ∧ m.promo = none ∧ mmDbl T m)) :
    PlaceGoal T b m pc base := by
  unfold PlaceGoal
  rw [hm, if_neg hnd, norm_apply_ep_none hd]
  exact ⟨hbase, plain_content hS hc he hnp hbc, rfl⟩

/-- knight, bishop, rook, queen -/
theorem place_other {T : Tables} {b : Board} {m : Move} {pc : Piece} {base : Board}
    (hS : b.content m.src = some (pc, b.stm)) (hbase : Core T base)
    (hbc : ∀ t, base.content t = if t = m.dst then some (pc, b.stm) else if t = m.src then none else b.content t)
    (hp : pc ≠ .pawn) (hk : pc ≠ .king) : PlaceGoal T b m pc base := by
  apply place_plain hS hbase hbc
  · unfold mmPlace
    rw [if_neg hp, mmCastles_not_king T m hk]
    rfl
  · exact isCastle_not_king (show b.abs.board m.src = some (pc, b.stm) from hS) hk
  · exact isEnPassant_not_pawn (show b.abs.board m.src = some (pc, b.stm) from hS) hp
  · exact isDoubleStep_not_pawn (show b.abs.board m.src = some (pc, b.stm) from hS) hp
  · intro e; exact absurd e hp
  · intro h; exact hp h.1

/-- king moves, castling included -/
theorem place_king {T : Tables} (hT : TablesOK T) {b : Board} {m : Move} {base : Board}
    (hpl : pseudoLegal b.abs m = true)
    (hS : b.content m.src = some (.king, b.stm)) (hne : m.src ≠ m.dst) (hbase : Core T base)
    (hbc : ∀ t, base.content t = if t = m.dst then some (.king, b.stm) else if t = m.src then none else b.content t) :
    PlaceGoal T b m .king base := by
  have hS' : b.abs.board m.src = some (.king, b.abs.stm) := hS
  have he := isEnPassant_not_pawn hS' (by decide)
  have hd := isDoubleStep_not_pawn hS' (by decide)
  have kc := king_cases hT hpl hS' hne
  simp only [abs_stm, abs_board] at kc
  rcases kc with ⟨hc, hmc⟩ | ⟨hc, hmc, hD, hrs, hre, hrook, hempty, n1, n2, n3, n4, n5⟩
  · apply place_plain hS hbase hbc _ hc he hd
    · intro e; cases e
    · intro h; cases h.1
    · unfold mmPlace
      rw [if_neg (by decide), hmc]
      rfl
  · unfold PlaceGoal
    rw [if_neg (fun h => by cases h.1), norm_apply_ep_none hd]
    have hm : mmPlace T b.stm b.ep m .king base =
        (base.xor T .rook (BB.ofSq (mkSq b.stm.backrank (Board.castleRookStart m.dst.getFile))) b.stm).xor T .rook
          (BB.ofSq (mkSq b.stm.backrank (Board.castleRookEnd m.dst.getFile))) b.stm := by
      unfold mmPlace
      rw [if_neg (by decide), hmc]
      rfl
    rw [hm]
    have h1 : base.content (mkSq b.stm.backrank (Board.castleRookStart m.dst.getFile)) = some (.rook, b.stm) := by
      rw [hbc, if_neg n2, if_neg n1, hrook]
    obtain ⟨c1, k1⟩ := hbase.remove h1
    have h2 : (base.xor T .rook (BB.ofSq (mkSq b.stm.backrank (Board.castleRookStart m.dst.getFile))) b.stm).content
        (mkSq b.stm.backrank (Board.castleRookEnd m.dst.getFile)) = none := by
      rw [k1, if_neg n5, hbc, if_neg n4, if_neg n3, hempty]
    obtain ⟨c2, k2⟩ := c1.add .rook b.stm h2
    refine ⟨c2, ?_, rfl⟩
    intro t
    rw [apply_board_castle hc he hrs hre, k2, k1, hbc, applyMoved_eq hS']
    have hpromo : m.promo = none := by
      unfold pseudoLegal at hpl
      rw [hS'] at hpl
      simp only [Bool.and_eq_true] at hpl
      exact Option.isNone_iff_eq_none.mp hpl.2.1
    rw [hpromo]
    by_cases t1 : t = m.dst
    · rw [if_pos t1, if_neg (by rw [t1]; exact Ne.symm n4), if_neg (by rw [t1]; exact Ne.symm n2), if_pos t1]
      rfl
    · rw [if_neg t1, if_neg t1]
      by_cases t2 : t = m.src
      · rw [if_pos t2, if_neg (by rw [t2]; exact Ne.symm n3), if_neg (by rw [t2]; exact Ne.symm n1), if_pos t2]
      · rw [if_neg t2, if_neg t2]
        by_cases t3 : t = mkSq b.stm.backrank (Board.castleRookStart m.dst.getFile)
        · rw [if_pos t3, if_neg (by rw [t3]; exact Ne.symm n5), if_pos t3]
        · rw [if_neg t3, if_neg t3]
          by_cases t4 : t = mkSq b.stm.backrank (Board.castleRookEnd m.dst.getFile)
          · rw [if_pos t4, if_pos t4]; rfl
          · rw [if_neg t4, if_neg t4]; rfl

/-- pawn moves: push, double push (ep mark), capture, promotion, en passant -/
theorem place_pawn {T : Tables} (hT : TablesOK T) {b : Board} {m : Move} {base : Board}
    (hpl : pseudoLegal b.abs m = true) (hep : b.abs.EpSane)
    (hS : b.content m.src = some (.pawn, b.stm)) (hbase : Core T base)
    (hbc : ∀ t, base.content t = if t = m.dst then some (.pawn, b.stm) else if t = m.src then none else b.content t) :
    PlaceGoal T b m .pawn base := by
  have hS' : b.abs.board m.src = some (.pawn, b.abs.stm) := hS
  have hc := isCastle_not_king hS' (by decide)
  have pcs := pawn_cases hT hpl hS' hep
  simp only [abs_stm, abs_board, abs_ep] at pcs
  rcases pcs with ⟨he, hd, hnone⟩ | ⟨hq, hdbl, he, hd⟩ | ⟨hq, hndbl, hepm, he, hd, hv, hvict, hD⟩
  · cases hq : m.promo with
    | none =>
      obtain ⟨h1, h2⟩ := hnone hq
      apply place_plain hS hbase hbc _ hc he hd (fun _ => hq) (fun h => h1 h.2.2)
      unfold mmPlace
      rw [if_pos rfl, hq]
      dsimp only
      rw [if_neg h1, if_neg h2]
    | some q =>
      unfold PlaceGoal
      rw [if_neg (fun h => by rw [hq] at h; cases h.2.1), norm_apply_ep_none hd]
      have hm : mmPlace T b.stm b.ep m .pawn base =
          (base.xor T .pawn (BB.ofSq m.dst) b.stm).xor T q (BB.ofSq m.dst) b.stm := by
        unfold mmPlace
        rw [if_pos rfl, hq]
      rw [hm]
      have h1 : base.content m.dst = some (.pawn, b.stm) := by rw [hbc, if_pos rfl]
      obtain ⟨c1, k1⟩ := hbase.remove h1
      have h2 : (base.xor T .pawn (BB.ofSq m.dst) b.stm).content m.dst = none := by rw [k1, if_pos rfl]
      obtain ⟨c2, k2⟩ := c1.add q b.stm h2
      refine ⟨c2, ?_, rfl⟩
      intro t
      rw [apply_board_plain hc he, k2, k1, hbc, applyMoved_eq hS', hq]
      by_cases t1 : t = m.dst
      · rw [if_pos t1, if_pos t1]; rfl
      · rw [if_neg t1, if_neg t1, if_neg t1, if_neg t1]; rfl
  · -- double push
    have hm : mmPlace T b.stm b.ep m .pawn base = base := by
      unfold mmPlace
      rw [if_pos rfl, hq]
      dsimp only
      rw [if_pos hdbl]
    have hcont : ∀ t, base.content t = (apply b.abs m).board t :=
      plain_content hS hc he (fun _ => hq) hbc
    unfold PlaceGoal
    rw [hm, if_pos ⟨rfl, hq, hdbl⟩]
    refine ⟨hbase, hcont, ?_⟩
    obtain ⟨n1, n2⟩ := norm_apply_ep_double hd
    by_cases hex : ∃ s : Sq, s.rank = m.dst.rank ∧ (s.file - m.dst.file).natAbs = 1 ∧
        (apply b.abs m).board s = some (.pawn, b.abs.stm.other)
    · rw [n1 hex, if_pos]
      rw [adjTest_iff hT hbase.toStruct]
      obtain ⟨s, a1, a2, a3⟩ := hex
      exact ⟨s, a1, a2, by rw [hcont]; exact a3⟩
    · rw [n2 hex, if_neg]
      rw [adjTest_iff hT hbase.toStruct]
      rintro ⟨s, a1, a2, a3⟩
      exact hex ⟨s, a1, a2, by rw [← hcont]; exact a3⟩
  · -- en passant
    unfold PlaceGoal
    rw [if_neg (fun h => hndbl h.2.2), norm_apply_ep_none hd]
    have hm : mmPlace T b.stm b.ep m .pawn base =
        base.xor T .pawn (BB.ofSq (m.dst.ubackward b.stm)) b.stm.other := by
      unfold mmPlace
      rw [if_pos rfl, hq]
      dsimp only
      rw [if_neg hndbl, if_pos hepm]
    rw [hm]
    have hsf : m.src.file ≠ m.dst.file := ((isEnPassant_pawn hS').mp he).1
    rw [sq?_eq_some] at hv
    have n1 : m.dst.ubackward b.stm ≠ m.src := by
      intro e; rw [e] at hv; exact hsf hv.1
    have n2 : m.dst.ubackward b.stm ≠ m.dst := by
      intro e; rw [e, hD] at hvict; cases hvict
    have h1 : base.content (m.dst.ubackward b.stm) = some (.pawn, b.stm.other) := by
      rw [hbc, if_neg n2, if_neg n1, hvict]
    obtain ⟨c1, k1⟩ := hbase.remove h1
    refine ⟨c1, ?_, rfl⟩
    intro t
    rw [apply_board_ep hc he ((sq?_eq_some _ _ _).mpr hv), k1, hbc, applyMoved_eq hS', hq]
    by_cases t1 : t = m.dst
    · rw [if_pos t1, if_neg (by rw [t1]; exact Ne.symm n2), if_pos t1]; rfl
    · rw [if_neg t1, if_neg t1]
      by_cases t2 : t = m.src
      · rw [if_pos t2, if_neg (by rw [t2]; exact Ne.symm n1), if_pos t2]
      · rw [if_neg t2, if_neg t2]
        by_cases t3 : t = m.dst.ubackward b.stm
        · rw [if_pos t3, if_pos t3]
        · rw [if_neg t3, if_neg t3]; rfl

theorem place_refines {T : Tables} (hT : TablesOK T) {b : Board} {m : Move} {pc : Piece} {base : Board}
    (hpl : pseudoLegal b.abs m = true) (hep : b.abs.EpSane)
    (hS : b.content m.src = some (pc, b.stm)) (hne : m.src ≠ m.dst) (hbase : Core T base)
    (hbc : ∀ t, base.content t = if t = m.dst then some (pc, b.stm) else if t = m.src then none else b.content t) :
    PlaceGoal T b m pc base := by
  by_cases hp : pc = .pawn
  · subst hp; exact place_pawn hT hpl hep hS hbase hbc
  · by_cases hk : pc = .king
    · subst hk; exact place_king hT hpl hS hne hbase hbc
    · exact place_other hS hbase hbc hp hk

/-- **`make_move_new` refines `apply`** (C02), and keeps the invariant (C05 sanity part, C08) -/
theorem make_move_refines {T : Tables} (hT : TablesOK T) {b : Board} (hc : Core T b) {m : Move}
    (hpl : pseudoLegal b.abs m = true) (hep : b.abs.EpSane) (hrs : b.abs.RightsSane) :
    ∃ b', b.makeMoveNew T m = some b' ∧ Core T b' ∧ b'.content = (apply b.abs m).board ∧
      b'.stm = b.stm.other ∧
      (∀ c, (b'.castleRights c).ks = (apply b.abs m).castleK c ∧
            (b'.castleRights c).qs = (apply b.abs m).castleQ c) ∧
      b'.ep = (norm (apply b.abs m)).ep := by
  obtain ⟨pc, hsrc, hdc⟩ := pseudoLegal_src hpl
  have hS : b.content m.src = some (pc, b.stm) := hsrc
  have hne : m.src ≠ m.dst := by
    intro e
    apply hdc
    rw [colorAt_eq_some]
    exact ⟨pc, by rw [← e]; exact hsrc⟩
  obtain ⟨b', hmk, hpl', hstm, hcr, hepf⟩ := makeMoveNew_fields T b m pc (pieceOn_of_content hc.toStruct hS)
  obtain ⟨hbase, hbc⟩ := moveBase_core hc hS hdc
  obtain ⟨g1, g2, g3⟩ := place_refines hT hpl hep hS hne hbase hbc
  have hsame : SamePl b' (mmPlace T b.stm b.ep m pc (moveBase T b pc m.src m.dst b.stm (b.pieceOn m.dst))) := hpl'
  refine ⟨b', hmk, (hsame.core_iff T).mpr g1, ?_, hstm, ?_, ?_⟩
  · rw [hsame.content_eq]; funext t; exact g2 t
  · intro d
    rw [hcr d]
    exact rights_agree hrs hsrc hdc d
  · rw [hepf]; exact g3

theorem Pos.ext' {p q : Pos} (h1 : p.board = q.board) (h2 : p.stm = q.stm) (h3 : p.castleK = q.castleK)
    (h4 : p.castleQ = q.castleQ) (h5 : p.ep = q.ep) : p = q := by
  cases p; cases q
  simp only at h1 h2 h3 h4 h5
  subst h1 h2 h3 h4 h5
  rfl

theorem abs_eq_of_fields {b₁ b₂ : Board} (hcont : ∀ s, b₁.content s = b₂.content s) (hs : b₁.stm = b₂.stm)
    (hw : b₁.wcr = b₂.wcr) (hb : b₁.bcr = b₂.bcr) (he : b₁.ep = b₂.ep) : b₁.abs = b₂.abs := by
  have hcr : ∀ c, b₁.castleRights c = b₂.castleRights c := castleRights_of_fields hw hb
  exact Pos.ext' (funext hcont) hs (funext fun c => congrArg CastleRights.ks (hcr c))
    (funext fun c => congrArg CastleRights.qs (hcr c)) he

/-- the refinement as one equation between positions -/
theorem make_move_abs {T : Tables} (hT : TablesOK T) {b : Board} (hc : Core T b) {m : Move}
    (hpl : pseudoLegal b.abs m = true) (hep : b.abs.EpSane) (hrs : b.abs.RightsSane) :
    ∃ b', b.makeMoveNew T m = some b' ∧ Core T b' ∧ b'.abs = norm (apply b.abs m) := by
  obtain ⟨b', h1, h2, h3, h4, h5, h6⟩ := make_move_refines hT hc hpl hep hrs
  refine ⟨b', h1, h2, ?_⟩
  exact Pos.ext' h3 h4 (funext fun c => (h5 c).1) (funext fun c => (h5 c).2) h6

/-- `none` (the `unwrap()` panic) exactly on an empty source square -/
theorem makeMoveNew_none_iff (T : Tables) (b : Board) (m : Move) :
    b.makeMoveNew T m = none ↔ b.pieceOn m.src = none := by
  rw [makeMoveNew_eq]
  cases b.pieceOn m.src with
  | none => exact ⟨fun _ => rfl, fun _ => rfl⟩
  | some pc => exact ⟨fun h => (by cases h), fun h => (by cases h)⟩

end Chess
