import ChessVerif.Lemmas.PinCheck3
/-
Pins and checks on the specification, part 4: the characterisation of legality for moves of a man
other than the king that are not en passant — (C) double check, (B) single check, (A) no check.
-/
namespace Chess
namespace PinCheck

set_option maxRecDepth 100000

/-- the enemy man on `x` attacks the king on `k` after `m` (right-hand side of `Ctx.after_inCheck`) -/
def After (p : Pos) (m : Move) (k x : Sq) : Prop :=
  p.colorAt x = some p.stm.other ∧ x ≠ m.dst ∧
    ((sliderAligned (p.board x) x k = true ∧
        ∀ z, strictlyBetween x z k = true → z ≠ m.dst ∧ (z = m.src ∨ p.empty z = true)) ∨
      leaperAtt (p.board x) x k = true)

theorem legal_iff_no_After {p : Pos} {m : Move} {k : Sq} (h : Ctx p m k) (hpl : pseudoLegal p m = true) :
    legal p m = true ↔ ∀ x, ¬ After p m k x := by
  rw [legal_iff_after h hpl]
  exact not_exists

namespace Ctx
variable {p : Pos} {m : Move} {k : Sq}

theorem kingSq (h : Ctx p m k) : kingSq? p p.stm = some k := kingSq?_of_KingAt h.king

theorem checker_enemy (h : Ctx p m k) {x : Sq} (hx : checkerSq p x = true) :
    p.colorAt x = some p.stm.other := ((checkerSq_iff h.kingSq x).mp hx).1

/-- every square strictly between a checker and the king is empty -/
theorem checker_clear (h : Ctx p m k) {x z : Sq} (hx : checkerSq p x = true)
    (hz : strictlyBetween x z k = true) : p.empty z = true := by
  rcases ((checkerSq_iff h.kingSq x).mp hx).2 with ⟨_, hc⟩ | hl
  · exact hc z hz
  · exact (leaper_no_between hl hz).elim

/-- **answering an attacker**: an enemy slider aligned with the king whose path holds at most the
moving man does not attack afterwards only if it is captured or the destination interposes -/
theorem slider_answer (_h : Ctx p m k) {x : Sq} (ex : p.colorAt x = some p.stm.other)
    (hsa : sliderAligned (p.board x) x k = true)
    (hc : ∀ z, strictlyBetween x z k = true → z = m.src ∨ p.empty z = true)
    (hna : ¬ After p m k x) : m.dst = x ∨ strictlyBetween x m.dst k = true := by
  by_cases hd : x = m.dst
  · exact Or.inl hd.symm
  · cases hb : strictlyBetween x m.dst k with
    | true => exact Or.inr rfl
    | false =>
      exfalso
      apply hna
      refine ⟨ex, hd, Or.inl ⟨hsa, fun z hz => ⟨?_, hc z hz⟩⟩⟩
      intro he
      rw [he, hb] at hz
      exact Bool.noConfusion hz

/-- a checker does not attack afterwards only if it is captured or the destination interposes -/
theorem checker_answer (h : Ctx p m k) {x : Sq} (hx : checkerSq p x = true) (hna : ¬ After p m k x) :
    m.dst = x ∨ strictlyBetween x m.dst k = true := by
  obtain ⟨ex, hh⟩ := (checkerSq_iff h.kingSq x).mp hx
  rcases hh with ⟨hsa, hc⟩ | hl
  · exact h.slider_answer ex hsa (fun z hz => Or.inr (hc z hz)) hna
  · by_cases hd : x = m.dst
    · exact Or.inl hd.symm
    · exact absurd ⟨ex, hd, Or.inr hl⟩ hna

/-- conversely capturing or interposing stops the checker -/
theorem checker_answered (_h : Ctx p m k) {x : Sq} (_hx : checkerSq p x = true)
    (ha : m.dst = x ∨ strictlyBetween x m.dst k = true) : ¬ After p m k x := by
  rintro ⟨_, hd, hh⟩
  rcases ha with ha | ha
  · exact hd ha.symm
  · rcases hh with ⟨_, hall⟩ | hl
    · exact (hall m.dst ha).1 rfl
    · exact leaper_no_between hl ha

/-- **two lines, one move**: two different enemy men, each with a path to the king holding at most the
moving man, cannot both be answered (captured or interposed) by one destination square -/
theorem two_lines_false (h : Ctx p m k) {x y : Sq} (ex : p.colorAt x = some p.stm.other)
    (ey : p.colorAt y = some p.stm.other) (hne : x ≠ y)
    (cx : ∀ z, strictlyBetween x z k = true → z = m.src ∨ p.empty z = true)
    (cy : ∀ z, strictlyBetween y z k = true → z = m.src ∨ p.empty z = true)
    (ax : m.dst = x ∨ strictlyBetween x m.dst k = true)
    (ay : m.dst = y ∨ strictlyBetween y m.dst k = true) : False := by
  have nx : ¬ (x = m.src ∨ p.empty x = true) := by
    rintro (e | e)
    · exact h.enemy_ne_src ex e
    · rw [not_empty_of_colorAt ex] at e; exact Bool.noConfusion e
  have ny : ¬ (y = m.src ∨ p.empty y = true) := by
    rintro (e | e)
    · exact h.enemy_ne_src ey e
    · rw [not_empty_of_colorAt ey] at e; exact Bool.noConfusion e
  rcases ax with ax | ax
  · rcases ay with ay | ay
    · exact hne (ax.symm.trans ay)
    · rw [ax] at ay; exact nx (cy x ay)
  · rcases ay with ay | ay
    · rw [ay] at ax; exact ny (cx y ax)
    · rcases same_ray ax ay with e | e | e
      · exact hne e
      · exact nx (cy x e)
      · exact ny (cx y e)

theorem checker_path (h : Ctx p m k) {x : Sq} (hx : checkerSq p x = true) :
    ∀ z, strictlyBetween x z k = true → z = m.src ∨ p.empty z = true :=
  fun _ hz => Or.inr (h.checker_clear hx hz)

/-- a pinner of the moving man is not a checker -/
theorem pinner_ne_checker (h : Ctx p m k) {x y : Sq} (hx : checkerSq p x = true)
    (hy : strictlyBetween y m.src k = true) : x ≠ y := by
  intro e
  rw [← e] at hy
  have := h.checker_clear hx hy
  rw [h.src_not_empty] at this
  exact Bool.noConfusion this

/-- an enemy man attacking afterwards is a checker, or a pinner of the moving man (then the moving man
is pinned and the destination is neither the pinner nor between pinner and king) -/
theorem After_cases (h : Ctx p m k) {y : Sq} (hy : After p m k y) :
    checkerSq p y = true ∨
      (pinnedSq p m.src = true ∧ strictlyBetween y m.src k = true ∧ y ≠ m.dst ∧
        strictlyBetween y m.dst k = false) := by
  obtain ⟨ey, hd, hh⟩ := hy
  rcases hh with ⟨hsa, hall⟩ | hl
  · cases hs : strictlyBetween y m.src k with
    | false =>
      left
      rw [checkerSq_iff h.kingSq]
      refine ⟨ey, Or.inl ⟨hsa, fun z hz => ?_⟩⟩
      rcases (hall z hz).2 with e | e
      · rw [e, hs] at hz; exact Bool.noConfusion hz
      · exact e
    | true =>
      right
      refine ⟨?_, rfl, hd, ?_⟩
      · rw [pinnedSq_iff h.kingSq]
        exact ⟨h.colorAt_src, h.srcNe, y, ey, hs, fun z hz => (hall z hz).2, hsa⟩
      · cases hb : strictlyBetween y m.dst k with
        | false => rfl
        | true => exact absurd rfl (hall m.dst hb).1
  · left
    rw [checkerSq_iff h.kingSq]
    exact ⟨ey, Or.inr hl⟩

/-- **off_line_exposes**: if an enemy slider `y` pins the moving man and the destination is not on the
line through source and king, `y` attacks the king after the move -/
theorem off_line_exposes (h : Ctx p m k) {y : Sq} (ey : p.colorAt y = some p.stm.other)
    (hs : strictlyBetween y m.src k = true)
    (hc : ∀ z, strictlyBetween y z k = true → z = m.src ∨ p.empty z = true)
    (hsa : sliderAligned (p.board y) y k = true) (hl : onLine m.src k m.dst = false) :
    attacks (apply p m) y k = true := by
  have hA : After p m k y := by
    cases Classical.em (After p m k y) with
    | inl a => exact a
    | inr na =>
      have := pin_line_fwd hs (h.slider_answer ey hsa hc na)
      rw [hl] at this; exact Bool.noConfusion this
  exact (h.after_attacks hA.1 hA.2.1).mpr hA.2.2

/-! ### (C) double check -/

/-- two different checkers cannot both be answered by one destination square -/
theorem two_checkers_false (h : Ctx p m k) {x y : Sq} (hx : checkerSq p x = true)
    (hy : checkerSq p y = true) (hne : x ≠ y)
    (ax : m.dst = x ∨ strictlyBetween x m.dst k = true)
    (ay : m.dst = y ∨ strictlyBetween y m.dst k = true) : False :=
  h.two_lines_false (h.checker_enemy hx) (h.checker_enemy hy) hne (h.checker_path hx) (h.checker_path hy)
    ax ay

theorem double_check (h : Ctx p m k) (hpl : pseudoLegal p m = true) {x y : Sq}
    (hx : checkerSq p x = true) (hy : checkerSq p y = true) (hne : x ≠ y) : legal p m = false := by
  cases hl : legal p m with
  | false => rfl
  | true =>
    exfalso
    have hna := (legal_iff_no_After h hpl).mp hl
    exact h.two_checkers_false hx hy hne (h.checker_answer hx (hna x)) (h.checker_answer hy (hna y))

/-! ### (B) single check -/

theorem single_check (h : Ctx p m k) (hpl : pseudoLegal p m = true) {x : Sq}
    (hx : checkerSq p x = true) (huniq : ∀ y, checkerSq p y = true → y = x) :
    legal p m = true ↔
      pinnedSq p m.src = false ∧ (m.dst = x ∨ strictlyBetween x m.dst k = true) := by
  rw [legal_iff_no_After h hpl]
  constructor
  · intro hna
    have ax := h.checker_answer hx (hna x)
    refine ⟨?_, ax⟩
    cases hp : pinnedSq p m.src with
    | false => rfl
    | true =>
      exfalso
      obtain ⟨_, _, y, ey, hs, hc, hsa⟩ := (pinnedSq_iff h.kingSq m.src).mp hp
      have ay := h.slider_answer ey hsa hc (hna y)
      exact h.two_lines_false (h.checker_enemy hx) ey (h.pinner_ne_checker hx hs) (h.checker_path hx) hc ax ay
  · rintro ⟨hp, ax⟩ y hy
    rcases h.After_cases hy with hc | ⟨hpin, _⟩
    · have := huniq y hc
      subst this
      exact h.checker_answered hx ax hy
    · rw [hp] at hpin; exact Bool.noConfusion hpin

/-! ### (A) not in check -/

theorem no_check (h : Ctx p m k) (hpl : pseudoLegal p m = true) (hnone : ∀ x, checkerSq p x = false) :
    legal p m = true ↔ (pinnedSq p m.src = false ∨ onLine m.src k m.dst = true) := by
  rw [legal_iff_no_After h hpl]
  constructor
  · intro hna
    cases hp : pinnedSq p m.src with
    | false => exact Or.inl rfl
    | true =>
      right
      obtain ⟨_, _, y, ey, hs, hc, hsa⟩ := (pinnedSq_iff h.kingSq m.src).mp hp
      have ay := h.slider_answer ey hsa hc (hna y)
      exact pin_line_fwd hs (ay.imp_left fun e => e)
  · intro hor y hy
    rcases h.After_cases hy with hc | ⟨hpin, hs, hd, hb⟩
    · rw [hnone y] at hc; exact Bool.noConfusion hc
    · rcases hor with hp | hl
      · rw [hp] at hpin; exact Bool.noConfusion hpin
      · have ey := hy.1
        rcases pin_line_bwd hs hl h.dst_ne_src h.dst_ne_king (Ne.symm hd) hb with e | e
        · have := h.plain.path y e
          rw [not_empty_of_colorAt ey] at this
          exact Bool.noConfusion this
        · have := h.plain.path k e
          rw [h.king_not_empty] at this
          exact Bool.noConfusion this

/-! ### all cases together -/

/-- legality of a move of a non-king man (not en passant): every checker is captured or blocked, and
the moving man is not pinned, or there is no check and it stays on the line through itself and the king -/
theorem legal_nonking_iff (h : Ctx p m k) (hpl : pseudoLegal p m = true) :
    legal p m = true ↔
      (∀ x, checkerSq p x = true → m.dst = x ∨ strictlyBetween x m.dst k = true) ∧
      (pinnedSq p m.src = false ∨ ((∀ x, checkerSq p x = false) ∧ onLine m.src k m.dst = true)) := by
  by_cases h0 : ∃ x, checkerSq p x = true
  · obtain ⟨x, hx⟩ := h0
    by_cases h1 : ∃ y, checkerSq p y = true ∧ y ≠ x
    · obtain ⟨y, hy, hne⟩ := h1
      rw [h.double_check hpl hx hy (Ne.symm hne)]
      constructor
      · intro hf; exact Bool.noConfusion hf
      · rintro ⟨hall, _⟩
        exact (h.two_checkers_false hx hy (Ne.symm hne) (hall x hx) (hall y hy)).elim
    · have huniq : ∀ y, checkerSq p y = true → y = x := by
        intro y hy
        cases Classical.em (y = x) with
        | inl e => exact e
        | inr e => exact absurd ⟨y, hy, e⟩ h1
      rw [h.single_check hpl hx huniq]
      constructor
      · rintro ⟨hp, ax⟩
        refine ⟨fun y hy => ?_, Or.inl hp⟩
        rw [huniq y hy]; exact ax
      · rintro ⟨hall, hor⟩
        refine ⟨?_, hall x hx⟩
        rcases hor with hp | ⟨hn, _⟩
        · exact hp
        · rw [hn x] at hx; exact Bool.noConfusion hx
  · have hnone : ∀ x, checkerSq p x = false := by
      intro x
      cases hx : checkerSq p x with
      | false => rfl
      | true => exact absurd ⟨x, hx⟩ h0
    rw [h.no_check hpl hnone]
    constructor
    · intro hor
      refine ⟨fun x hx => ?_, hor.imp_right fun hl => ⟨hnone, hl⟩⟩
      rw [hnone x] at hx; exact Bool.noConfusion hx
    · rintro ⟨_, hor⟩
      exact hor.imp_right fun hl => hl.2

end Ctx

end PinCheck
end Chess
