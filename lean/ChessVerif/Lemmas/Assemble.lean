import ChessVerif.Lemmas.Entries
import ChessVerif.Lemmas.PseudoBits
import ChessVerif.Lemmas.CheckPin
import ChessVerif.Lemmas.PinCheck
import ChessVerif.Lemmas.GeomBridge
/-!
# C01, assembled: moves of a man other than the king, not en passant

The generator's destination sets (`Entries.dests`) are the pseudo-legal destination sets
(`MoveGen.pseudoLegals`, related to the specification by `PseudoBits.pseudoLegals_iff`) cut down by a
pin / check filter (`filt` below).  On a board whose cached `checkers` / `pinned` are exact
(`CheckPin.checkers_exact`, `CheckPin.pinned_exact` with `Board.PinOK`) that filter is exactly the
condition of `PinCheck.Ctx.no_check` / `single_check`, and with two checkers nothing is generated and
nothing is legal (`double_check`).

* `filt`, `dests_bit` — the destination set of an entry = pseudo-legal set ∧ filter;
* `checkers_zero_iff`, `single_checker`, `two_checkers` — the three check regimes;
* `filt_noCheck_iff`, `filt_singleCheck_iff` — the filter against the specification;
* `promoShape_iff_emit` — the two ways the promotion shape is written;
* `dests_iff_legal` — one entry: bit ∧ shape ↔ legal ∧ not en passant;
* `isMove_nonking_iff`, `nonking_exact` — the move list.
-/
namespace Chess
namespace Assemble

open Entries MoveGen PseudoBits CheckPin PinCheck

set_option maxRecDepth 100000

/-! ### (f) promotion shapes -/

theorem promoShape_iff_emit (b : Board) (pc : Piece) (m : Move) :
    PromoShape (promoFlag b pc m.src) m ↔ emitShape pc m.src b.stm m.promo := by
  unfold PromoShape promoFlag emitShape
  cases pc
  · by_cases h : m.src.getRank = b.stm.seventhRank
    · simp [h]
    · simp [h]
  all_goals simp

/-! ### the pin / check filter of the generator -/

/-- what the per-piece `legals` intersects the pseudo-legal set of the man on `src` with: a man in
`pinned` keeps the line through itself and the king, and nothing at all in check; any other man keeps
the check mask -/
def filt (T : Tables) (b : Board) (ic : Bool) (src d : Sq) : Bool :=
  if b.pinned.getLsbD src.val then (!ic && (T.line src (b.kingSquare b.stm)).getLsbD d.val)
  else (checkMask T b ic).getLsbD d.val

theorem checkMask_false_bit (T : Tables) (b : Board) (d : Sq) : (checkMask T b false).getLsbD d.val = true := by
  unfold checkMask
  simp only [Bool.false_eq_true, if_false]
  exact getLsbD_allOnes _ d.isLt

/-- a knight's jump never stays on a line through its origin -/
theorem knight_off_line {src k d : Sq} (hk : (Geom.knight src).getLsbD d.val = true)
    (hl : (Geom.line src k).getLsbD d.val = true) : False := by
  obtain ⟨u, n, _, hx⟩ := (mem_line_iff src k d).mp hl
  rcases hx with rfl | ⟨j, hj⟩ | ⟨j, hj⟩
  · rw [mem_knight] at hk
    simp at hk
  · exact knight_not_aligned hk ((aligned_iff allDirs src d).mpr ⟨u, mem_allDirs u, j, hj⟩)
  · exact knight_not_aligned hk ((aligned_iff allDirs src d).mpr ⟨u.opp, mem_allDirs _, j, hj⟩)

/-- **the destination set of an entry** of a man other than the king: pseudo-legal set ∧ filter -/
theorem dests_bit {T : Tables} (hT : TablesOK T) (b : Board) (ic : Bool) {pc : Piece} (hpc : pc ≠ .king)
    (src d : Sq) :
    (dests T b ic pc src).getLsbD d.val =
      ((pseudoLegals T pc src b.stm b.combined (ownMask b)).getLsbD d.val && filt T b ic src d) := by
  have hgen : ∀ q : Piece, (destsGeneric T b q ic src).getLsbD d.val =
      ((pseudoLegals T q src b.stm b.combined (ownMask b)).getLsbD d.val && filt T b ic src d) := by
    intro q
    unfold destsGeneric filt
    cases hp : b.pinned.getLsbD src.val
    · simp only [Bool.false_eq_true, if_false, BitVec.getLsbD_and]
    · cases ic
      · simp only [if_true, Bool.false_eq_true, if_false, BitVec.getLsbD_and, Bool.not_false, Bool.true_and]
      · simp only [if_true, BitVec.getLsbD_zero, Bool.not_true, Bool.false_and, Bool.and_false]
  cases pc with
  | king => exact absurd rfl hpc
  | bishop => exact hgen .bishop
  | rook => exact hgen .rook
  | queen => exact hgen .queen
  | pawn =>
    show (destsPawn T b ic src).getLsbD d.val = _
    unfold destsPawn filt
    rw [hT.line, hT.line, line_symm]
    cases hp : b.pinned.getLsbD src.val
    · simp only [Bool.false_eq_true, if_false, BitVec.getLsbD_and]
    · cases ic
      · simp only [if_true, Bool.false_eq_true, if_false, BitVec.getLsbD_and, Bool.not_false, Bool.true_and]
      · simp only [if_true, BitVec.getLsbD_zero, Bool.not_true, Bool.false_and, Bool.and_false]
  | knight =>
    show (destsKnight T b ic src).getLsbD d.val = _
    unfold destsKnight filt
    cases hp : b.pinned.getLsbD src.val
    · simp only [Bool.false_eq_true, if_false]
      cases ic
      · simp only [Bool.false_eq_true, if_false]
        rw [checkMask_false_bit, Bool.and_true]
      · simp only [if_true]
        unfold pseudoLegals checkMask
        simp only [if_true, BitVec.getLsbD_and, Bool.and_assoc]
    · simp only [if_true, BitVec.getLsbD_zero]
      cases ic
      · simp only [Bool.not_false, Bool.true_and]
        cases hl : (T.line src (b.kingSquare b.stm)).getLsbD d.val
        · rw [Bool.and_false]
        · rw [Bool.and_true]
          cases hk : (pseudoLegals T .knight src b.stm b.combined (ownMask b)).getLsbD d.val
          · rfl
          · exfalso
            unfold pseudoLegals at hk
            simp only [BitVec.getLsbD_and, Bool.and_eq_true] at hk
            rw [hT.knight] at hk
            rw [hT.line] at hl
            exact knight_off_line hk.1 hl
      · simp only [Bool.not_true, Bool.false_and, Bool.and_false]

/-! ### (a) the three check regimes -/

section Regimes
variable {b : Board}

theorem checkers_zero_iff (hC : ∀ x : Sq, b.checkers.getLsbD x.val = checkerSq b.abs x) :
    b.checkers = 0#64 ↔ ∀ x, checkerSq b.abs x = false := by
  rw [BB.eq_zero_iff]
  constructor
  · intro h x; rw [← hC]; exact h x
  · intro h x; rw [hC]; exact h x

/-- one bit in `checkers`: the square `checkers.to_square()` is the only checker -/
theorem single_checker (hC : ∀ x : Sq, b.checkers.getLsbD x.val = checkerSq b.abs x)
    (h1 : b.checkers.popcnt = 1) :
    checkerSq b.abs b.checkers.toSq = true ∧ ∀ y, checkerSq b.abs y = true → y = b.checkers.toSq := by
  constructor
  · rw [← hC, bit_of_popcnt_one h1]; exact decide_eq_true rfl
  · intro y hy
    rw [← hC, bit_of_popcnt_one h1, decide_eq_true_eq] at hy
    exact Fin.ext hy

/-- neither zero nor one bit in `checkers`: two different checkers -/
theorem two_checkers (hC : ∀ x : Sq, b.checkers.getLsbD x.val = checkerSq b.abs x)
    (h0 : b.checkers ≠ 0#64) (h1 : b.checkers.popcnt ≠ 1) :
    ∃ x y, checkerSq b.abs x = true ∧ checkerSq b.abs y = true ∧ x ≠ y := by
  obtain ⟨x, hx⟩ := (BB.ne_zero_iff _).mp h0
  apply Classical.byContradiction
  intro hno
  apply h1
  have : b.checkers = BB.ofSq x := by
    apply eq_ofSq_of_bits
    intro z
    by_cases hz : z = x
    · rw [hz, hx, decide_eq_true rfl]
    · rw [decide_eq_false hz]
      cases hb : b.checkers.getLsbD z.val with
      | false => rfl
      | true =>
        exfalso
        exact hno ⟨x, z, by rw [← hC]; exact hx, by rw [← hC]; exact hb, fun h => hz h.symm⟩
  rw [this]
  exact popcnt_ofSq x

end Regimes

/-! ### (b), (c), (d) the filter against the specification -/

section Filter
variable {T : Tables} {b : Board}

/-- the cached `pinned` bit of a square holding a man of the mover is `pinnedSq` -/
theorem pinned_bit_own (hP : ∀ y : Sq, (b.pinned &&& b.colorCombined b.stm).getLsbD y.val = pinnedSq b.abs y)
    (hs : Struct b) {src : Sq} {pc : Piece} (hsrc : b.content src = some (pc, b.stm)) :
    b.pinned.getLsbD src.val = pinnedSq b.abs src := by
  rw [← hP, BitVec.getLsbD_and]
  have : (b.colorCombined b.stm).getLsbD src.val = true := ((hs.content_some_iff src pc b.stm).mp hsrc).2
  rw [this, Bool.and_true]

/-- (c) not in check: the filter is "not pinned, or the destination is on the line through the man and
the king" -/
theorem filt_noCheck_iff (hT : TablesOK T) (hs : Struct b)
    (hP : ∀ y : Sq, (b.pinned &&& b.colorCombined b.stm).getLsbD y.val = pinnedSq b.abs y)
    {src : Sq} {pc : Piece} (hsrc : b.content src = some (pc, b.stm)) (d : Sq) :
    filt T b false src d = true ↔
      (pinnedSq b.abs src = false ∨ (Geom.line src (b.kingSquare b.stm)).getLsbD d.val = true) := by
  unfold filt
  rw [pinned_bit_own hP hs hsrc, hT.line, checkMask_false_bit]
  cases pinnedSq b.abs src <;> simp

/-- (b) the check mask with one checker `x`: `x` itself or a square strictly between `x` and the king -/
theorem checkMask_single_bit (hT : TablesOK T) (h1 : b.checkers.popcnt = 1) (d : Sq) :
    (checkMask T b true).getLsbD d.val = true ↔
      (d = b.checkers.toSq ∨ strictlyBetween b.checkers.toSq d (b.kingSquare b.stm) = true) := by
  unfold checkMask
  simp only [if_true]
  rw [BitVec.getLsbD_xor, hT.between, mem_between, bit_of_popcnt_one h1]
  by_cases hd : d = b.checkers.toSq
  · rw [← hd, strictlyBetween_irrefl_left]
    simp
  · have : ¬ d.val = b.checkers.toSq.val := fun h => hd (Fin.ext h)
    simp [hd, this]

/-- (d) single check: the filter is "not pinned, and the destination captures the checker or
interposes" -/
theorem filt_singleCheck_iff (hT : TablesOK T) (hs : Struct b)
    (hP : ∀ y : Sq, (b.pinned &&& b.colorCombined b.stm).getLsbD y.val = pinnedSq b.abs y)
    (h1 : b.checkers.popcnt = 1)
    {src : Sq} {pc : Piece} (hsrc : b.content src = some (pc, b.stm)) (d : Sq) :
    filt T b true src d = true ↔
      (pinnedSq b.abs src = false ∧
        (d = b.checkers.toSq ∨ strictlyBetween b.checkers.toSq d (b.kingSquare b.stm) = true)) := by
  unfold filt
  rw [pinned_bit_own hP hs hsrc]
  cases pinnedSq b.abs src
  · simp only [Bool.false_eq_true, if_false, true_and]
    exact checkMask_single_bit hT h1 d
  · simp

end Filter

/-! ### (g) the man on the source square -/

section Man
variable {b : Board}

theorem own_bit_iff (hs : Struct b) (pc : Piece) (s : Sq) :
    (own b pc).getLsbD s.val = true ↔ b.content s = some (pc, b.stm) := by
  unfold own
  rw [BitVec.getLsbD_and, Bool.and_eq_true, hs.content_some_iff]

/-- a man of the mover other than the king does not stand on the king square -/
theorem src_ne_king (hs : Struct b) (hk : (b.kings &&& b.colorCombined b.stm).popcnt = 1)
    {src : Sq} {pc : Piece} (hpc : pc ≠ .king) (hsrc : b.content src = some (pc, b.stm)) :
    src ≠ b.kingSquare b.stm := by
  intro h
  rw [h, content_kingSquare hs hk] at hsrc
  injection hsrc with h'
  injection h' with h''
  exact hpc h''.symm

/-- the source of a pseudo-legal move holds a man of the mover; it is not the king unless the source is
the king square -/
theorem man_of_pseudoLegal (hs : Struct b) (hk : (b.kings &&& b.colorCombined b.stm).popcnt = 1)
    {m : Move} (hpl : pseudoLegal b.abs m = true) (hsrc : m.src ≠ b.kingSquare b.stm) :
    ∃ pc : Piece, pc ≠ .king ∧ b.content m.src = some (pc, b.stm) := by
  unfold pseudoLegal at hpl
  rw [abs_board] at hpl
  cases hc : b.content m.src with
  | none => rw [hc] at hpl; cases hpl
  | some x =>
    rcases x with ⟨pc, c⟩
    rw [hc] at hpl
    simp only [Bool.and_eq_true, beq_iff_eq] at hpl
    have hcc : c = b.stm := hpl.1.1
    subst hcc
    refine ⟨pc, ?_, rfl⟩
    intro hpk
    subst hpk
    exact hsrc (((kingAt hs hk) m.src).mp (by rw [abs_board]; exact hc))

end Man

/-! ### one entry -/

section Entry
variable {T : Tables} {b : Board}

/-- the cached fields are exact and the mover has one king: the working context -/
structure Exact (T : Tables) (b : Board) : Prop where
  tables : TablesOK T
  struct : Struct b
  oneKing : (b.kings &&& b.colorCombined b.stm).popcnt = 1
  checkers : ∀ x : Sq, b.checkers.getLsbD x.val = checkerSq b.abs x
  pinned : ∀ y : Sq, (b.pinned &&& b.colorCombined b.stm).getLsbD y.val = pinnedSq b.abs y

theorem Exact.of_PinOK (hT : TablesOK T) (hs : Struct b) (hk : (b.kings &&& b.colorCombined b.stm).popcnt = 1)
    (hkk : KingsApart b) (hp : b.PinOK T) : Exact T b where
  tables := hT
  struct := hs
  oneKing := hk
  checkers := fun x => by
    have := checkers_exact hT hs hk hkk x
    rwa [hp] at this
  pinned := fun y => by
    have := pinned_exact hT hs hk y
    rwa [hp] at this

theorem Exact.kingSq (h : Exact T b) : kingSq? b.abs b.abs.stm = some (b.kingSquare b.stm) :=
  kingSq?_abs h.struct h.oneKing

theorem Exact.ctx (h : Exact T b) {m : Move} (hpl : pseudoLegal b.abs m = true)
    (hsrc : m.src ≠ b.kingSquare b.stm) (hep : isEnPassant b.abs m = false) :
    Ctx b.abs m (b.kingSquare b.stm) :=
  Ctx.mk' (kingAt h.struct h.oneKing) hpl hsrc hep

theorem pseudoLegal_of_legal {p : Pos} {m : Move} (h : legal p m = true) : pseudoLegal p m = true := by
  unfold legal at h
  rw [Bool.and_eq_true] at h
  exact h.1

/-- the check regime the generator works in: `ic = false` with no checker, or `ic = true` with one -/
def Regime (b : Board) (ic : Bool) : Prop :=
  (ic = false ∧ b.checkers = 0#64) ∨ (ic = true ∧ b.checkers.popcnt = 1)

/-- in the generator's regime, a pseudo-legal non-en-passant move of a man other than the king is legal
iff its destination passes the filter -/
theorem legal_iff_filt (h : Exact T b) {ic : Bool} (hr : Regime b ic) {pc : Piece} {m : Move}
    (hpc : pc ≠ .king) (hsrc : b.content m.src = some (pc, b.stm))
    (hpl : pseudoLegal b.abs m = true) (hep : isEnPassant b.abs m = false) :
    legal b.abs m = true ↔ filt T b ic m.src m.dst = true := by
  have hc := h.ctx hpl (src_ne_king h.struct h.oneKing hpc hsrc) hep
  rcases hr with ⟨rfl, h0⟩ | ⟨rfl, h1⟩
  · rw [filt_noCheck_iff h.tables h.struct h.pinned hsrc]
    exact hc.no_check hpl ((checkers_zero_iff h.checkers).mp h0)
  · rw [filt_singleCheck_iff h.tables h.struct h.pinned h1 hsrc]
    obtain ⟨hx, hu⟩ := single_checker h.checkers h1
    exact hc.single_check hpl hx hu

/-- **one entry**: for the man of kind `pc ≠ king` on `m.src`, the destination bit of its entry together
with the emitted promotion shape is exactly "legal and not en passant" -/
theorem dests_iff_legal (h : Exact T b) {ic : Bool} (hr : Regime b ic) {pc : Piece} {m : Move}
    (hpc : pc ≠ .king) (hsrc : b.content m.src = some (pc, b.stm)) :
    ((dests T b ic pc m.src).getLsbD m.dst.val = true ∧ PromoShape (promoFlag b pc m.src) m) ↔
      (legal b.abs m = true ∧ isEnPassant b.abs m = false) := by
  have hpi := pseudoLegals_iff h.tables h.struct hpc hsrc m.dst m.promo
  have hm : (⟨m.src, m.dst, m.promo⟩ : Move) = m := rfl
  rw [hm] at hpi
  rw [dests_bit h.tables b ic hpc, Bool.and_eq_true, promoShape_iff_emit]
  constructor
  · rintro ⟨⟨h1, h2⟩, h3⟩
    obtain ⟨hpl, hep⟩ := hpi.mp ⟨h1, h3⟩
    exact ⟨(legal_iff_filt h hr hpc hsrc hpl hep).mpr h2, hep⟩
  · rintro ⟨hl, hep⟩
    have hpl := pseudoLegal_of_legal hl
    obtain ⟨h1, h3⟩ := hpi.mpr ⟨hpl, hep⟩
    exact ⟨⟨h1, (legal_iff_filt h hr hpc hsrc hpl hep).mp hl⟩, h3⟩

end Entry

/-! ### the move list -/

section MoveList
variable {T : Tables} {b : Board}

/-- the first disjunct of `Entries.IsMove`: `m` is a move of the ordinary entry of a man other than the
king -/
def IsOrdinary (T : Tables) (b : Board) (ic : Bool) (m : Move) : Prop :=
  ∃ p : Piece, p ≠ .king ∧ (own b p).getLsbD m.src.val = true ∧
    (dests T b ic p m.src).getLsbD m.dst.val = true ∧ PromoShape (promoFlag b p m.src) m

/-- the second disjunct of `Entries.IsMove`: `m` is the move of an en-passant entry -/
def IsEpMove (T : Tables) (b : Board) (m : Move) : Prop :=
  ∃ epSq : Sq, b.ep = some epSq ∧ (epSources T b epSq).getLsbD m.src.val = true ∧
    legalEpMove T b m.src (epDest b epSq) = some true ∧ m.dst = epDest b epSq ∧ m.promo = none

/-- every move of an en-passant entry is an en-passant capture of the specification -/
def EpGenOK (T : Tables) (b : Board) : Prop := ∀ m : Move, IsEpMove T b m → isEnPassant b.abs m = true

/-- `EpGenOK` from the one fact that needs validity: the square behind the marked pawn is empty -/
theorem epGenOK_of_empty (hT : TablesOK T) (hs : Struct b)
    (hemp : ∀ epSq, b.ep = some epSq → b.abs.empty (epDest b epSq) = true) : EpGenOK T b := by
  rintro m ⟨q, hq, h1, _, hd, _⟩
  unfold epSources at h1
  simp only [BitVec.getLsbD_and, Bool.and_eq_true] at h1
  obtain ⟨⟨_, hf⟩, ho⟩ := h1
  have hc := (own_bit_iff hs .pawn m.src).mp ho
  rw [hT.adjFiles, mem_adjFiles, Sq.getFile_val] at hf
  unfold isEnPassant
  rw [abs_board, hc, hd, hemp q hq]
  have hfile : (epDest b q).file = q.file := Sq.uforward_file q b.stm
  simp only [Bool.true_and, Bool.and_true, bne_iff_ne, ne_eq, hfile]
  intro heq
  rw [heq] at hf
  simp at hf

/-- an ordinary entry's move in the generator's regime is legal and not en passant, and conversely -/
theorem isOrdinary_iff (h : Exact T b) {ic : Bool} (hr : Regime b ic) (m : Move) :
    IsOrdinary T b ic m ↔
      (m.src ≠ b.kingSquare b.stm ∧ legal b.abs m = true ∧ isEnPassant b.abs m = false) := by
  constructor
  · rintro ⟨pc, hpc, ho, hd, hpr⟩
    have hsrc := (own_bit_iff h.struct pc m.src).mp ho
    exact ⟨src_ne_king h.struct h.oneKing hpc hsrc, (dests_iff_legal h hr hpc hsrc).mp ⟨hd, hpr⟩⟩
  · rintro ⟨hk, hl, hep⟩
    obtain ⟨pc, hpc, hsrc⟩ := man_of_pseudoLegal h.struct h.oneKing (pseudoLegal_of_legal hl) hk
    obtain ⟨hd, hpr⟩ := (dests_iff_legal h hr hpc hsrc).mpr ⟨hl, hep⟩
    exact ⟨pc, hpc, (own_bit_iff h.struct pc m.src).mpr hsrc, hd, hpr⟩

/-- (e) double check: no move of a man other than the king is legal -/
theorem double_check_illegal (h : Exact T b) (h0 : b.checkers ≠ 0#64) (h1 : b.checkers.popcnt ≠ 1)
    {m : Move} (hsrc : m.src ≠ b.kingSquare b.stm) (hep : isEnPassant b.abs m = false) :
    legal b.abs m = false := by
  cases hl : legal b.abs m with
  | false => rfl
  | true =>
    have hpl := pseudoLegal_of_legal hl
    obtain ⟨x, y, hx, hy, hne⟩ := two_checkers h.checkers h0 h1
    rw [← hl]
    exact (h.ctx hpl hsrc hep).double_check hpl hx hy hne

/-- **the non-king, non-en-passant part of C01** -/
theorem nonking_exact (h : Exact T b) (hepgen : EpGenOK T b) (m : Move)
    (hsrc : m.src ≠ b.kingSquare b.stm) (hep : isEnPassant b.abs m = false) :
    m ∈ b.legalMoves T ↔ legal b.abs m = true := by
  rw [mem_legalMoves_cases]
  have key : ∀ ic, Regime b ic → (IsMove T b ic m ↔ legal b.abs m = true) := by
    intro ic hr
    constructor
    · rintro (ho | he | ⟨hk, _⟩)
      · exact ((isOrdinary_iff h hr m).mp ho).2.1
      · have := hepgen m he
        rw [hep] at this; cases this
      · exact absurd hk hsrc
    · intro hl
      exact Or.inl ((isOrdinary_iff h hr m).mpr ⟨hsrc, hl, hep⟩)
  by_cases h0 : b.checkers = 0#64
  · rw [if_pos h0]
    exact key false (Or.inl ⟨rfl, h0⟩)
  · rw [if_neg h0]
    by_cases h1 : b.checkers.popcnt = 1
    · rw [if_pos h1]
      exact key true (Or.inr ⟨rfl, h1⟩)
    · rw [if_neg h1, double_check_illegal h h0 h1 hsrc hep]
      constructor
      · rintro ⟨hk, _⟩; exact absurd hk hsrc
      · intro hf; cases hf

end MoveList

end Assemble
end Chess
