import ChessVerif.Lemmas.MoveInv
import ChessVerif.Lemmas.CheckPin
import ChessVerif.Lemmas.Closure
import ChessVerif.Lemmas.SaneCheck
/-!
`make_move_new` maintains `pinned` / `checkers` incrementally: it starts from `0`, adds the direct check
of the man that has just moved (knight, pawn, pawn promoted to a knight) and then runs the slider scan of
`update_pin_info` for the new side to move.  This file shows that the result is what `update_pin_info`
computes from scratch on the new board (`Board.PinOK`).

1. the slider scan is linear in its accumulator;
2. the leaper contribution of phase 2 of `make_move_new`, and the king square read by phase 3;
3. on the specification: after a pseudo-legal move made in a position where the side not to move is not
   in check, the only knight / pawn of the mover that can attack the opponent's king is the man on the
   destination square;
4. assembly.
-/
namespace Chess
namespace PinStep
open CheckPin PinCheck

/-! ### 1. the scan is linear in the accumulator -/

theorem scan_linear (T : Tables) (comb : BB) (k : Sq) : ∀ (l : List Sq) (P C : BB),
    Board.sliderScan T comb k l (P, C) =
      ((Board.sliderScan T comb k l (0#64, 0#64)).1 ^^^ P, (Board.sliderScan T comb k l (0#64, 0#64)).2 ^^^ C) := by
  intro l
  induction l with
  | nil =>
    intro P C
    rw [scan_nil, scan_nil]
    simp
  | cons s rest ih =>
    intro P C
    rw [scan_cons, scan_cons]
    by_cases h0 : T.between s k &&& comb = 0#64
    · rw [if_pos h0, if_pos h0, ih P (C ^^^ BB.ofSq s), ih 0#64 (0#64 ^^^ BB.ofSq s)]
      simp only [BitVec.xor_zero, BitVec.zero_xor]
      rw [BitVec.xor_assoc, BitVec.xor_comm C]
    · rw [if_neg h0, if_neg h0]
      by_cases h1 : (T.between s k &&& comb).popcnt = 1
      · rw [if_pos h1, if_pos h1, ih (P ^^^ (T.between s k &&& comb)) C, ih (0#64 ^^^ (T.between s k &&& comb)) 0#64]
        simp only [BitVec.xor_zero, BitVec.zero_xor]
        rw [BitVec.xor_assoc, BitVec.xor_comm P]
      · rw [if_neg h1, if_neg h1, ih P C]

/-! ### 2. the model: what phase 2 leaves in `checkers`, `pinned` -/

theorem setCastleRights_checkers (b : Board) (c : Color) (cr : CastleRights) :
    (b.setCastleRights c cr).checkers = b.checkers := by cases c <;> rfl
theorem setCastleRights_pinned (b : Board) (c : Color) (cr : CastleRights) :
    (b.setCastleRights c cr).pinned = b.pinned := by cases c <;> rfl
theorem setEp_checkers (T : Tables) (b : Board) (s : Sq) : (b.setEp T s).checkers = b.checkers := by
  unfold Board.setEp; split <;> rfl
theorem setEp_pinned (T : Tables) (b : Board) (s : Sq) : (b.setEp T s).pinned = b.pinned := by
  unfold Board.setEp; split <;> rfl

theorem moveBase_checkers (T : Tables) (b : Board) (moved : Piece) (S D : Sq) (c : Color) (capt : Option Piece) :
    (moveBase T b moved S D c capt).checkers = b.checkers ∧ (moveBase T b moved S D c capt).pinned = b.pinned := by
  cases capt <;> exact ⟨by simp only [moveBase, xor_checkers], by simp only [moveBase, xor_pinned]⟩

theorem mm1_checkers (T : Tables) (b : Board) (m : Move) (moved : Piece) :
    (mm1 T b m moved).checkers = 0#64 ∧ (mm1 T b m moved).pinned = 0#64 := by
  unfold mm1
  simp only [setCastleRights_checkers, setCastleRights_pinned]
  obtain ⟨h1, h2⟩ := moveBase_checkers T b.reset moved m.src m.dst b.stm (b.pieceOn m.dst)
  exact ⟨h1, h2⟩

/-- the direct check of the man that has just moved, as `make_move_new` computes it -/
def mmLeap (T : Tables) (m : Move) (moved : Piece) (ksq : Sq) (c : Color) : BB :=
  if moved = .knight then T.knight ksq &&& BB.ofSq m.dst
  else if moved = .pawn then
    match m.promo with
    | some .knight => T.knight ksq &&& BB.ofSq m.dst
    | some _ => 0#64
    | none => T.pawnAttacks c.other ksq &&& BB.ofSq m.dst
  else 0#64

theorem mm2_checkers (T : Tables) (stm : Color) (ep0 : Option Sq) (m : Move) (moved : Piece) (r : Board) :
    (mm2 T stm ep0 m moved r).checkers = r.checkers ^^^ mmLeap T m moved (mmKsq r) r.stm ∧
    (mm2 T stm ep0 m moved r).pinned = r.pinned := by
  unfold mm2 mmLeap
  by_cases hk : moved = .knight
  · rw [if_pos hk, if_pos hk]
    exact ⟨rfl, rfl⟩
  · rw [if_neg hk, if_neg hk]
    by_cases hp : moved = .pawn
    · rw [if_pos hp, if_pos hp]
      cases hq : m.promo with
      | none =>
        dsimp only
        by_cases hd : mmDbl T m
        · rw [if_pos hd]
          exact ⟨by
            show (r.setEp T m.dst).checkers ^^^ Board.pawnAttacks T (mmKsq r) (r.setEp T m.dst).stm.other (BB.ofSq m.dst) = _
            rw [setEp_checkers, setEp_stm]; rfl, by
            show (r.setEp T m.dst).pinned = _
            rw [setEp_pinned]⟩
        · rw [if_neg hd]
          by_cases he : some (m.dst.ubackward stm) = ep0
          · rw [if_pos he]
            exact ⟨by
              show (r.xor T .pawn (BB.ofSq (m.dst.ubackward stm)) stm.other).checkers ^^^
                Board.pawnAttacks T (mmKsq r) (r.xor T .pawn (BB.ofSq (m.dst.ubackward stm)) stm.other).stm.other
                  (BB.ofSq m.dst) = _
              rw [xor_checkers, xor_stm]; rfl, by
              show (r.xor T .pawn (BB.ofSq (m.dst.ubackward stm)) stm.other).pinned = _
              rw [xor_pinned]⟩
          · rw [if_neg he]
            exact ⟨rfl, rfl⟩
      | some q =>
        cases q <;> dsimp only <;>
          first
          | exact ⟨by
              show ((r.xor T .pawn (BB.ofSq m.dst) stm).xor T _ (BB.ofSq m.dst) stm).checkers ^^^ _ = _
              rw [xor_checkers, xor_checkers], by
              show ((r.xor T .pawn (BB.ofSq m.dst) stm).xor T _ (BB.ofSq m.dst) stm).pinned = _
              rw [xor_pinned, xor_pinned]⟩
          | exact ⟨by
              show ((r.xor T .pawn (BB.ofSq m.dst) stm).xor T _ (BB.ofSq m.dst) stm).checkers = _
              rw [xor_checkers, xor_checkers, BitVec.xor_zero], by
              show ((r.xor T .pawn (BB.ofSq m.dst) stm).xor T _ (BB.ofSq m.dst) stm).pinned = _
              rw [xor_pinned, xor_pinned]⟩
    · rw [if_neg hp, if_neg hp]
      by_cases hc : mmCastles T m moved = true
      · rw [if_pos hc]
        exact ⟨by rw [xor_checkers, xor_checkers, BitVec.xor_zero], by rw [xor_pinned, xor_pinned]⟩
      · rw [if_neg hc]
        exact ⟨by rw [BitVec.xor_zero], rfl⟩

/-! ### 3. the specification: what can attack the opponent's king after a move -/

theorem apply_board_dst (p : Pos) (m : Move) : (apply p m).board m.dst = applyMoved p m := by
  unfold apply applyMoved
  simp
  rfl

theorem shape_dst {p : Pos} {m : Move} (hs : Closure.Shape p m) :
    ∃ pc', (apply p m).board m.dst = some (pc', p.stm) := by
  cases hs with
  | normal pc pc' _ _ _ _ _ _ hboard => exact ⟨pc', by rw [hboard]; simp [Closure.upd]⟩
  | ep q pc' _ _ _ _ _ _ _ _ _ hboard => exact ⟨pc', by rw [hboard]; simp [Closure.upd]⟩
  | castle r t _ _ _ _ _ _ _ _ _ _ _ _ _ _ hboard => exact ⟨.king, by rw [hboard]; simp [Closure.upd]⟩

/-- no king is captured: only `count = 1` for the opponent's king and "opponent not in check" are used -/
theorem dst_not_king {p : Pos} {m : Move} (hk1 : count p (· == (.king, p.stm.other)) = 1)
    (hnc : inCheck p p.stm.other = false) (hs : Closure.Shape p m) :
    p.board m.dst ≠ some (.king, p.stm.other) := by
  intro hk
  cases hs with
  | normal pc pc' hsrc hdst hne hpc hatk _ _ =>
    have ha := hatk (by rw [hk]; exact fun e => by cases e)
    have := Closure.inCheck_of_attack hk1 hk (by rw [Color.other_other]; exact hsrc) ha
    rw [hnc] at this; cases this
  | ep q pc' _ hdst => rw [hdst] at hk; cases hk
  | castle r t _ _ _ hdst => rw [hdst] at hk; cases hk

/-- away from the destination, every man of the new position other than the castled rook stood there before -/
theorem apply_old {p : Pos} {m : Move} (hs : Closure.Shape p m) {x : Sq} {man : Piece × Color}
    (hx : x ≠ m.dst) (h : (apply p m).board x = some man) (hman : man ≠ (.rook, p.stm)) :
    p.board x = some man := by
  cases hs with
  | normal pc pc' _ _ _ _ _ _ hboard =>
    rw [hboard] at h
    unfold Closure.upd at h
    rw [if_neg hx] at h
    by_cases h1 : x = m.src
    · rw [if_pos h1] at h; cases h
    · rw [if_neg h1] at h; exact h
  | ep q pc' _ _ _ _ _ _ _ _ _ hboard =>
    rw [hboard] at h
    unfold Closure.upd at h
    rw [if_neg hx] at h
    by_cases h1 : x = m.src
    · rw [if_pos h1] at h; cases h
    · rw [if_neg h1] at h
      by_cases h2 : x = q
      · rw [if_pos h2] at h; cases h
      · rw [if_neg h2] at h; exact h
  | castle r t _ _ _ _ _ _ _ _ _ _ _ _ _ _ hboard =>
    rw [hboard] at h
    unfold Closure.upd at h
    rw [if_neg hx] at h
    by_cases h1 : x = m.src
    · rw [if_pos h1] at h; cases h
    · rw [if_neg h1] at h
      by_cases h2 : x = r
      · rw [if_pos h2] at h; cases h
      · rw [if_neg h2] at h
        by_cases h3 : x = t
        · rw [if_pos h3] at h
          injection h with h
          exact absurd h.symm hman
        · rw [if_neg h3] at h; exact h

/-- an enemy man that is not a pawn and does not stand on the destination stays -/
theorem apply_keep {p : Pos} {m : Move} (hs : Closure.Shape p m) {x : Sq} {pc : Piece}
    (hx : x ≠ m.dst) (h : p.board x = some (pc, p.stm.other)) (hpc : pc ≠ .pawn) :
    (apply p m).board x = some (pc, p.stm.other) := by
  have hcol : ∀ {y : Sq} {q : Piece}, p.board y = some (q, p.stm) → x ≠ y := by
    intro y q hy e
    rw [e, hy] at h
    injection h with h
    injection h with _ h
    exact Color.other_ne p.stm h.symm
  cases hs with
  | normal pc0 pc' hsrc _ _ _ _ _ hboard =>
    rw [hboard]
    unfold Closure.upd
    rw [if_neg hx, if_neg (hcol hsrc)]; exact h
  | ep q pc' hsrc _ hq _ _ _ _ _ _ hboard =>
    rw [hboard]
    unfold Closure.upd
    have hxq : x ≠ q := by
      intro e; rw [e, hq] at h
      injection h with h; injection h with h _
      exact hpc h.symm
    rw [if_neg hx, if_neg (hcol hsrc), if_neg hxq]; exact h
  | castle r t hsrc _ _ _ hr ht _ _ _ _ _ _ _ _ hboard =>
    rw [hboard]
    unfold Closure.upd
    have hxt : x ≠ t := by
      intro e; rw [e, ht] at h; cases h
    rw [if_neg hx, if_neg (hcol hsrc), if_neg (hcol hr), if_neg hxt]; exact h

/-- the opponent's king stands where it stood -/
theorem kingAt_apply {p : Pos} {m : Move} (hk1 : count p (· == (.king, p.stm.other)) = 1)
    (hnc : inCheck p p.stm.other = false) (hs : Closure.Shape p m) {K : Sq} (hK : KingAt p p.stm.other K) :
    KingAt (apply p m) p.stm.other K := by
  intro s
  constructor
  · intro h
    have hsd : s ≠ m.dst := by
      intro e
      obtain ⟨pc', hd⟩ := shape_dst hs
      rw [e, hd] at h
      injection h with h; injection h with _ h
      exact Color.other_ne p.stm h.symm
    have := apply_old hs hsd h (by intro e; injection e with e _; cases e)
    exact (hK s).mp this
  · intro e
    subst e
    have hb := (hK s).mpr rfl
    have hsd : s ≠ m.dst := by
      intro e; rw [e] at hb; exact dst_not_king hk1 hnc hs hb
    exact apply_keep hs hsd hb (by decide)

/-- after the move, a knight or pawn of the mover that attacks the opponent's king stands on the
destination square: every other one stood there before, when that king was not in check -/
theorem leaper_only_dst {p : Pos} {m : Move} (hk1 : count p (· == (.king, p.stm.other)) = 1)
    (hnc : inCheck p p.stm.other = false) (hs : Closure.Shape p m) {K : Sq}
    (hK : p.board K = some (.king, p.stm.other)) {x : Sq} {pc : Piece} (hpc : pc = .knight ∨ pc = .pawn)
    (hx : (apply p m).board x = some (pc, p.stm)) (hl : leaperAtt (some (pc, p.stm)) x K = true) :
    x = m.dst := by
  by_cases hxd : x = m.dst
  · exact hxd
  · exfalso
    have hold := apply_old hs hxd hx (by
      intro e; injection e with e _
      rcases hpc with h | h <;> (rw [h] at e; cases e))
    have hatk : attacks p x K = true := by
      rw [attacks_eq, hold, hl, Bool.or_true]
    have := Closure.inCheck_of_attack hk1 hK (by rw [Color.other_other]; exact hold) hatk
    rw [hnc] at this; cases this

/-- a promotion piece is not a pawn -/
theorem promo_not_pawn {p : Pos} {m : Move} (h : pseudoLegal p m = true)
    (hs : p.board m.src = some (.pawn, p.stm)) {q : Piece} (hq : m.promo = some q) : q ≠ .pawn := by
  unfold pseudoLegal at h
  rw [hs, hq] at h
  simp only [Bool.and_eq_true] at h
  obtain ⟨_, hp, _⟩ := h
  intro e
  subst e
  split at hp
  · simp [promoPieces] at hp
  · simp at hp

end PinStep
end Chess
