import ChessVerif.Lemmas.MoveInv
import ChessVerif.Lemmas.CheckPin
import ChessVerif.Lemmas.Closure
import ChessVerif.Lemmas.SaneCheck
/-!
`make_move_new` maintains `pinned` / `checkers` incrementally: it starts from `0`, adds the direct check
of the man that has just moved (knight, pawn, pawn promoted to a knight) and then runs the slider scan of
`update_pin_info` for the new side to move.  This file shows that the result is what `update_pin_info`
computes from scratch on the new board (`Board.PinOK`).

1. the slider scan is linear in its accumulator;
2. the leaper contribution of phase 2 of `make_move_new`, and the king square read by phase 3;
3. on the specification: after a pseudo-legal move made in a position where the side not to move is not
   in check, the only knight / pawn of the mover that can attack the opponent's king is the man on the
   destination square;
4. assembly.
-/
namespace Chess
namespace PinStep
open CheckPin PinCheck

/-! ### 1. the scan is linear in the accumulator -/

theorem scan_linear (T : Tables) (comb : BB) (k : Sq) : ∀ (l : List Sq) (P C : BB),
    Board.sliderScan T comb k l (P, C) =
      ((Board.sliderScan T comb k l (0#64, 0#64)).1 ^^^ P, (Board.sliderScan T comb k l (0#64, 0#64)).2 ^^^ C) := by
  intro l
  induction l with
  | nil =>
    intro P C
    rw [scan_nil, scan_nil]
    simp
  | cons s rest ih =>
    intro P C
    rw [scan_cons, scan_cons]
    by_cases h0 : T.between s k &&& comb = 0#64
    · rw [if_pos h0, if_pos h0, ih P (C ^^^ BB.ofSq s), ih 0#64 (0#64 ^^^ BB.ofSq s)]
      simp only [BitVec.xor_zero, BitVec.zero_xor]
      rw [BitVec.xor_assoc, BitVec.xor_comm C]
    · rw [if_neg h0, if_neg h0]
      by_cases h1 : (T.between s k &&& comb).popcnt = 1
      · rw [if_pos h1, if_pos h1, ih (P ^^^ (T.between s k &&& comb)) C, ih (0#64 ^^^ (T.between s k &&& comb)) 0#64]
        simp only [BitVec.xor_zero, BitVec.zero_xor]
        rw [BitVec.xor_assoc, BitVec.xor_comm P]
      · rw [if_neg h1, if_neg h1, ih P C]

/-! ### 2. the model: what phase 2 leaves in `checkers`, `pinned` -/

theorem setCastleRights_checkers (b : Board) (c : Color) (cr : CastleRights) :
    (b.setCastleRights c cr).checkers = b.checkers := by cases c <;> rfl
theorem setCastleRights_pinned (b : Board) (c : Color) (cr : CastleRights) :
    (b.setCastleRights c cr).pinned = b.pinned := by cases c <;> rfl
theorem setEp_checkers (T : Tables) (b : Board) (s : Sq) : (b.setEp T s).checkers = b.checkers := by
  unfold Board.setEp; split <;> rfl
theorem setEp_pinned (T : Tables) (b : Board) (s : Sq) : (b.setEp T s).pinned = b.pinned := by
  unfold Board.setEp; split <;> rfl

theorem moveBase_checkers (T : Tables) (b : Board) (moved : Piece) (S D : Sq) (c : Color) (capt : Option Piece) :
    (moveBase T b moved S D c capt).checkers = b.checkers ∧ (moveBase T b moved S D c capt).pinned = b.pinned := by
  cases capt <;> exact ⟨by simp only [moveBase, xor_checkers], by simp only [moveBase, xor_pinned]⟩

theorem mm1_checkers (T : Tables) (b : Board) (m : Move) (moved : Piece) :
    (mm1 T b m moved).checkers = 0#64 ∧ (mm1 T b m moved).pinned = 0#64 := by
  unfold mm1
  simp only [setCastleRights_checkers, setCastleRights_pinned]
  obtain ⟨h1, h2⟩ := moveBase_checkers T b.reset moved m.src m.dst b.stm (b.pieceOn m.dst)
  exact ⟨h1, h2⟩

/-- the direct check of the man that has just moved, as `make_move_new` computes it -/
def mmLeap (T : Tables) (m : Move) (moved : Piece) (ksq : Sq) (c : Color) : BB :=
  if moved = .knight then T.knight ksq &&& BB.ofSq m.dst
  else if moved = .pawn then
    match m.promo with
    | some .knight => T.knight ksq &&& BB.ofSq m.dst
    | some _ => 0#64
    | none => T.pawnAttacks c.other ksq &&& BB.ofSq m.dst
  else 0#64

theorem mm2_checkers (T : Tables) (stm : Color) (ep0 : Option Sq) (m : Move) (moved : Piece) (r : Board) :
    (mm2 T stm ep0 m moved r).checkers = r.checkers ^^^ mmLeap T m moved (mmKsq r) r.stm ∧
    (mm2 T stm ep0 m moved r).pinned = r.pinned := by
  unfold mm2 mmLeap
  by_cases hk : moved = .knight
  · rw [if_pos hk, if_pos hk]
    exact ⟨rfl, rfl⟩
  · rw [if_neg hk, if_neg hk]
    by_cases hp : moved = .pawn
    · rw [if_pos hp, if_pos hp]
      cases hq : m.promo with
      | none =>
        dsimp only
        by_cases hd : mmDbl T m
        · rw [if_pos hd]
          exact ⟨by
            show (r.setEp T m.dst).checkers ^^^ Board.pawnAttacks T (mmKsq r) (r.setEp T m.dst).stm.other (BB.ofSq m.dst) = _
            rw [setEp_checkers, setEp_stm]; rfl, by
            show (r.setEp T m.dst).pinned = _
            rw [setEp_pinned]⟩
        · rw [if_neg hd]
          by_cases he : some (m.dst.ubackward stm) = ep0
          · rw [if_pos he]
            exact ⟨by
              show (r.xor T .pawn (BB.ofSq (m.dst.ubackward stm)) stm.other).checkers ^^^
                Board.pawnAttacks T (mmKsq r) (r.xor T .pawn (BB.ofSq (m.dst.ubackward stm)) stm.other).stm.other
                  (BB.ofSq m.dst) = _
              rw [xor_checkers, xor_stm]; rfl, by
              show (r.xor T .pawn (BB.ofSq (m.dst.ubackward stm)) stm.other).pinned = _
              rw [xor_pinned]⟩
          · rw [if_neg he]
            exact ⟨rfl, rfl⟩
      | some q =>
        cases q <;> dsimp only <;>
          first
          | exact ⟨by
              show ((r.xor T .pawn (BB.ofSq m.dst) stm).xor T _ (BB.ofSq m.dst) stm).checkers ^^^ _ = _
              rw [xor_checkers, xor_checkers], by
              show ((r.xor T .pawn (BB.ofSq m.dst) stm).xor T _ (BB.ofSq m.dst) stm).pinned = _
              rw [xor_pinned, xor_pinned]⟩
          | exact ⟨by
              show ((r.xor T .pawn (BB.ofSq m.dst) stm).xor T _ (BB.ofSq m.dst) stm).checkers = _
              rw [xor_checkers, xor_checkers, BitVec.xor_zero], by
              show ((r.xor T .pawn (BB.ofSq m.dst) stm).xor T _ (BB.ofSq m.dst) stm).pinned = _
              rw [xor_pinned, xor_pinned]⟩
    · rw [if_neg hp, if_neg hp]
      by_cases hc : mmCastles T m moved = true
      · rw [if_pos hc]
        exact ⟨by rw [xor_checkers, xor_checkers, BitVec.xor_zero], by rw [xor_pinned, xor_pinned]⟩
      · rw [if_neg hc]
        exact ⟨by rw [BitVec.xor_zero], rfl⟩

/-! ### 3. the specification: what can attack the opponent's king after a move -/

theorem apply_board_dst (p : Pos) (m : Move) : (apply p m).board m.dst = applyMoved p m := by
  unfold apply applyMoved
  simp
  rfl

theorem shape_dst {p : Pos} {m : Move} (hs : Closure.Shape p m) :
    ∃ pc', (apply p m).board m.dst = some (pc', p.stm) := by
  cases hs with
  | normal pc pc' _ _ _ _ _ _ hboard => exact ⟨pc', by rw [hboard]; simp [Closure.upd]⟩
  | ep q pc' _ _ _ _ _ _ _ _ _ hboard => exact ⟨pc', by rw [hboard]; simp [Closure.upd]⟩
  | castle r t _ _ _ _ _ _ _ _ _ _ _ _ _ _ hboard => exact ⟨.king, by rw [hboard]; simp [Closure.upd]⟩

/-- no king is captured: only `count = 1` for the opponent's king and "opponent not in check" are used -/
theorem dst_not_king {p : Pos} {m : Move} (hk1 : count p (· == (.king, p.stm.other)) = 1)
    (hnc : inCheck p p.stm.other = false) (hs : Closure.Shape p m) :
    p.board m.dst ≠ some (.king, p.stm.other) := by
  intro hk
  cases hs with
  | normal pc pc' hsrc hdst hne hpc hatk _ _ =>
    have ha := hatk (by rw [hk]; exact fun e => by cases e)
    have := Closure.inCheck_of_attack hk1 hk (by rw [Color.other_other]; exact hsrc) ha
    rw [hnc] at this; cases this
  | ep q pc' _ hdst => rw [hdst] at hk; cases hk
  | castle r t _ _ _ hdst => rw [hdst] at hk; cases hk

/-- away from the destination, every man of the new position other than the castled rook stood there before -/
theorem apply_old {p : Pos} {m : Move} (hs : Closure.Shape p m) {x : Sq} {man : Piece × Color}
    (hx : x ≠ m.dst) (h : (apply p m).board x = some man) (hman : man ≠ (.rook, p.stm)) :
    p.board x = some man := by
  cases hs with
  | normal pc pc' _ _ _ _ _ _ hboard =>
    rw [hboard] at h
    unfold Closure.upd at h
    rw [if_neg hx] at h
    by_cases h1 : x = m.src
    · rw [if_pos h1] at h; cases h
    · rw [if_neg h1] at h; exact h
  | ep q pc' _ _ _ _ _ _ _ _ _ hboard =>
    rw [hboard] at h
    unfold Closure.upd at h
    rw [if_neg hx] at h
    by_cases h1 : x = m.src
    · rw [if_pos h1] at h; cases h
    · rw [if_neg h1] at h
      by_cases h2 : x = q
      · rw [if_pos h2] at h; cases h
      · rw [if_neg h2] at h; exact h
  | castle r t _ _ _ _ _ _ _ _ _ _ _ _ _ _ hboard =>
    rw [hboard] at h
    unfold Closure.upd at h
    rw [if_neg hx] at h
    by_cases h1 : x = m.src
    · rw [if_pos h1] at h; cases h
    · rw [if_neg h1] at h
      by_cases h2 : x = r
      · rw [if_pos h2] at h; cases h
      · rw [if_neg h2] at h
        by_cases h3 : x = t
        · rw [if_pos h3] at h
          injection h with h
          exact absurd h.symm hman
        · rw [if_neg h3] at h; exact h

/-- an enemy man that is not a pawn and does not stand on the destination stays -/
theorem apply_keep {p : Pos} {m : Move} (hs : Closure.Shape p m) {x : Sq} {pc : Piece}
    (hx : x ≠ m.dst) (h : p.board x = some (pc, p.stm.other)) (hpc : pc ≠ .pawn) :
    (apply p m).board x = some (pc, p.stm.other) := by
  have hcol : ∀ {y : Sq} {q : Piece}, p.board y = some (q, p.stm) → x ≠ y := by
    intro y q hy e
    rw [e, hy] at h
    injection h with h
    injection h with _ h
    exact Color.other_ne p.stm h.symm
  cases hs with
  | normal pc0 pc' hsrc _ _ _ _ _ hboard =>
    rw [hboard]
    unfold Closure.upd
    rw [if_neg hx, if_neg (hcol hsrc)]; exact h
  | ep q pc' hsrc _ hq _ _ _ _ _ _ hboard =>
    rw [hboard]
    unfold Closure.upd
    have hxq : x ≠ q := by
      intro e; rw [e, hq] at h
      injection h with h; injection h with h _
      exact hpc h.symm
    rw [if_neg hx, if_neg (hcol hsrc), if_neg hxq]; exact h
  | castle r t hsrc _ _ _ hr ht _ _ _ _ _ _ _ _ hboard =>
    rw [hboard]
    unfold Closure.upd
    have hxt : x ≠ t := by
      intro e; rw [e, ht] at h; cases h
    rw [if_neg hx, if_neg (hcol hsrc), if_neg (hcol hr), if_neg hxt]; exact h

/-- the opponent's king stands where it stood -/
theorem kingAt_apply {p : Pos} {m : Move} (hk1 : count p (· == (.king, p.stm.other)) = 1)
    (hnc : inCheck p p.stm.other = false) (hs : Closure.Shape p m) {K : Sq} (hK : KingAt p p.stm.other K) :
    KingAt (apply p m) p.stm.other K := by
  intro s
  constructor
  · intro h
    have hsd : s ≠ m.dst := by
      intro e
      obtain ⟨pc', hd⟩ := shape_dst hs
      rw [e, hd] at h
      injection h with h; injection h with _ h
      exact Color.other_ne p.stm h.symm
    have := apply_old hs hsd h (by intro e; injection e with e _; cases e)
    exact (hK s).mp this
  · intro e
    subst e
    have hb := (hK s).mpr rfl
    have hsd : s ≠ m.dst := by
      intro e; rw [e] at hb; exact dst_not_king hk1 hnc hs hb
    exact apply_keep hs hsd hb (by decide)

/-- after the move, a knight or pawn of the mover that attacks the opponent's king stands on the
destination square: every other one stood there before, when that king was not in check -/
theorem leaper_only_dst {p : Pos} {m : Move} (hk1 : count p (· == (.king, p.stm.other)) = 1)
    (hnc : inCheck p p.stm.other = false) (hs : Closure.Shape p m) {K : Sq}
    (hK : p.board K = some (.king, p.stm.other)) {x : Sq} {pc : Piece} (hpc : pc = .knight ∨ pc = .pawn)
    (hx : (apply p m).board x = some (pc, p.stm)) (hl : leaperAtt (some (pc, p.stm)) x K = true) :
    x = m.dst := by
  by_cases hxd : x = m.dst
  · exact hxd
  · exfalso
    have hold := apply_old hs hxd hx (by
      intro e; injection e with e _
      rcases hpc with h | h <;> (rw [h] at e; cases e))
    have hatk : attacks p x K = true := by
      rw [attacks_eq, hold, hl, Bool.or_true]
    have := Closure.inCheck_of_attack hk1 hK (by rw [Color.other_other]; exact hold) hatk
    rw [hnc] at this; cases this

/-- a promotion piece is not a pawn -/
theorem promo_not_pawn {p : Pos} {m : Move} (h : pseudoLegal p m = true)
    (hs : p.board m.src = some (.pawn, p.stm)) {q : Piece} (hq : m.promo = some q) : q ≠ .pawn := by
  unfold pseudoLegal at h
  rw [hs, hq] at h
  simp only [Bool.and_eq_true] at h
  obtain ⟨_, hp, _⟩ := h
  intro e
  subst e
  split at hp
  · simp [promoPieces] at hp
  · simp at hp

/-! ### 4. bits of the from-scratch leaper contributions, for any colour -/

theorem knightBits {T : Tables} (hT : TablesOK T) {b : Board} (hs : Struct b) (c : Color) (k x : Sq) :
    (T.knight k &&& b.colorCombined c &&& b.knights).getLsbD x.val = true ↔
      b.content x = some (.knight, c) ∧ leaperAtt (b.content x) x k = true := by
  have hs' : Struct { b with stm := c.other } := ⟨hs.1, hs.2, hs.3, hs.4⟩
  have := knightCheck_iff hT hs' k x
  have e : ({ b with stm := c.other } : Board).stm.other = c := Color.other_other c
  rw [e] at this
  exact this

theorem pawnBits {T : Tables} (hT : TablesOK T) {b : Board} (hs : Struct b) (c : Color) (k x : Sq) :
    (T.pawnAttacks c.other k &&& (b.colorCombined c &&& b.pawns)).getLsbD x.val = true ↔
      b.content x = some (.pawn, c) ∧ leaperAtt (b.content x) x k = true := by
  have hs' : Struct { b with stm := c.other } := ⟨hs.1, hs.2, hs.3, hs.4⟩
  have := pawnCheck_iff hT hs' k x
  have e : ({ b with stm := c.other } : Board).stm.other = c := Color.other_other c
  rw [e] at this
  exact this

/-- the king square from the content -/
theorem kingSquare_of_content {b : Board} (hs : Struct b) {c : Color} {K : Sq}
    (h : ∀ s, b.content s = some (.king, c) ↔ s = K) :
    b.kingSquare c = K ∧ (b.kings &&& b.colorCombined c).popcnt = 1 := by
  have e : b.kings &&& b.colorCombined c = BB.ofSq K := by
    apply eq_ofSq_of_bits
    intro z
    rw [Bool.eq_iff_iff, decide_eq_true_eq, ← h z, hs.content_some_iff, BitVec.getLsbD_and, Bool.and_eq_true]
    exact Iff.rfl
  unfold Board.kingSquare
  rw [e]
  exact ⟨toSq_ofSq K, popcnt_ofSq K⟩

theorem mmLeap_bit_ne (T : Tables) (m : Move) (moved : Piece) (k : Sq) (c : Color) {x : Sq} (hx : x ≠ m.dst) :
    (mmLeap T m moved k c).getLsbD x.val = false := by
  have hv : x.val ≠ m.dst.val := fun e => hx (Fin.ext e)
  have h0 : ∀ A : BB, (A &&& BB.ofSq m.dst).getLsbD x.val = false := by
    intro A
    rw [BitVec.getLsbD_and, BB.getLsbD_ofSq, decide_eq_false hv, Bool.and_false]
  unfold mmLeap
  split
  · exact h0 _
  · split
    · split
      · exact h0 _
      · exact BitVec.getLsbD_zero
      · exact h0 _
    · exact BitVec.getLsbD_zero

/-! ### 5. phase 3 and the assembly -/

/-- phase 3 run on a board whose `pinned` is empty and whose `checkers` holds exactly the from-scratch
leaper contributions gives a board with from-scratch `pinned` / `checkers` -/
theorem mm3_pinOK (T : Tables) (r : Board) (k : Sq) (hp : r.pinned = 0#64)
    (hc : r.checkers = (T.knight k &&& r.colorCombined r.stm &&& r.knights) ^^^
      (T.pawnAttacks r.stm.other k &&& (r.colorCombined r.stm &&& r.pawns)))
    (hk : r.kingSquare r.stm.other = k) : (mm3 T k r).PinOK T := by
  have hpin : pinnersAt T (mm3 T k r) k = r.colorCombined r.stm &&&
      ((T.bishopRays k &&& (r.bishops ||| r.queens)) ||| (T.rookRays k &&& (r.rooks ||| r.queens))) := by
    show r.colorCombined r.stm.other.other &&& _ = _
    rw [Color.other_other]
    rfl
  have hks : (mm3 T k r).kingSquare (mm3 T k r).stm = k := hk
  have e1 : ((mm3 T k r).updatePinInfo T).pinned = (mm3 T k r).pinned := by
    rw [updatePinInfo_pinned, hks, hpin]
    show _ = (Board.sliderScan T r.combined k _ (r.pinned, r.checkers)).1
    rw [scan_linear T r.combined k _ r.pinned r.checkers, hp, BitVec.xor_zero]
    rfl
  have e2 : ((mm3 T k r).updatePinInfo T).checkers = (mm3 T k r).checkers := by
    rw [updatePinInfo_checkers, hks, hpin]
    show _ = (Board.sliderScan T r.combined k _ (r.pinned, r.checkers)).2
    rw [scan_linear T r.combined k _ r.pinned r.checkers, hc, BitVec.xor_assoc]
    show _ ^^^ ((T.knight k &&& r.colorCombined r.stm.other.other &&& r.knights) ^^^
      (T.pawnAttacks r.stm.other k &&& (r.colorCombined r.stm.other.other &&& r.pawns))) = _
    rw [Color.other_other]
    rfl
  unfold Board.PinOK
  rw [updatePinInfo_eq, e1, e2]

/-- the man that arrives on the destination, as a piece kind -/
def finalMan (m : Move) (pc : Piece) : Piece :=
  match m.promo with
  | some q => if pc = .pawn then q else pc
  | none => pc

theorem applyMoved_final {p : Pos} {m : Move} {pc : Piece} {c : Color} (hs : p.board m.src = some (pc, c)) :
    applyMoved p m = some (finalMan m pc, c) := by
  rw [applyMoved_eq hs]
  unfold finalMan
  cases m.promo with
  | none => rfl
  | some q =>
    by_cases h : pc = .pawn
    · simp only [if_pos h]
    · simp only [if_neg h]

/-- the leaper contribution of `make_move_new` against the from-scratch one, at the destination square:
a pure case analysis on the moved man -/
theorem mmLeap_bit_dst (T : Tables) (m : Move) (pc : Piece) (k : Sq) (c : Color)
    (hq : ∀ q, pc = .pawn → m.promo = some q → q ≠ .pawn) (A B : Bool)
    (hA : A = (T.knight k).getLsbD m.dst.val) (hB : B = (T.pawnAttacks c.other k).getLsbD m.dst.val) :
    (mmLeap T m pc k c).getLsbD m.dst.val =
      ((A && true && decide (Piece.knight = finalMan m pc)) ^^ (B && (true && decide (Piece.pawn = finalMan m pc)))) := by
  have h1 : ∀ X : BB, (X &&& BB.ofSq m.dst).getLsbD m.dst.val = X.getLsbD m.dst.val := by
    intro X
    rw [BitVec.getLsbD_and, BB.getLsbD_ofSq_self, Bool.and_true]
  unfold mmLeap finalMan
  by_cases hk : pc = .knight
  · subst hk
    rw [if_pos rfl, h1, ← hA]
    cases m.promo <;> simp
  · rw [if_neg hk]
    by_cases hp : pc = .pawn
    · subst hp
      rw [if_pos rfl]
      cases hpr : m.promo with
      | none =>
        simp only
        rw [h1, ← hB]
        simp
      | some q =>
        have := hq q rfl hpr
        cases q <;> simp only [if_pos] <;> first
          | exact absurd rfl this
          | (rw [h1, ← hA]; simp)
          | (rw [BitVec.getLsbD_zero]; simp)
    · rw [if_neg hp, BitVec.getLsbD_zero]
      cases m.promo with
      | none => simp only; cases pc <;> first | exact absurd rfl hk | exact absurd rfl hp | simp
      | some q => simp only [if_neg hp]; cases pc <;> first | exact absurd rfl hk | exact absurd rfl hp | simp

/-- **the incrementally maintained `pinned` / `checkers` of `make_move_new` are the from-scratch ones.**
Hypotheses on the position before the move: the move is pseudo-legal, the two side conditions of C02
(`EpSane`, `RightsSane`), the opponent has exactly one king and is not in check. -/
theorem makeMove_pinOK {T : Tables} (hT : TablesOK T) {b : Board} (hc : Core T b) {m : Move}
    (hpl : pseudoLegal b.abs m = true) (hep : b.abs.EpSane) (hrs : b.abs.RightsSane)
    (hk1 : count b.abs (· == (.king, b.stm.other)) = 1) (hnc : inCheck b.abs b.stm.other = false)
    {b' : Board} (h : b.makeMoveNew T m = some b') : b'.PinOK T := by
  obtain ⟨pc, hsrc, hdc⟩ := pseudoLegal_src hpl
  have hS : b.content m.src = some (pc, b.stm) := hsrc
  have hpo : b.pieceOn m.src = some pc := pieceOn_of_content hc.toStruct hS
  obtain ⟨b'', hmk, hcore', hcont', _, _, _⟩ := make_move_refines hT hc hpl hep hrs
  rw [h] at hmk
  injection hmk with hmk
  subst hmk
  rw [makeMoveNew_eq, hpo] at h
  injection h with h
  -- the two intermediate boards
  have hshape := Closure.pseudoLegal_shape hpl
  have hstm1 : (mm1 T b m pc).stm = b.stm := mm1_stm T b m pc
  have hstm2 : (mm2 T b.stm b.ep m pc (mm1 T b m pc)).stm = b.stm := by
    rw [(mm2_fields T b.stm b.ep m pc (mm1 T b m pc)).1, hstm1]
  have hpl2 : SamePl (mm2 T b.stm b.ep m pc (mm1 T b m pc)) b' := by
    rw [← h]; exact ((mm3_fields T _ _).1).symm
  have hs2 : Struct (mm2 T b.stm b.ep m pc (mm1 T b m pc)) := hpl2.struct_iff.mpr hcore'.toStruct
  have hcont2 : (mm2 T b.stm b.ep m pc (mm1 T b m pc)).content = (apply b.abs m).board := by
    rw [hpl2.content_eq]; exact hcont'
  obtain ⟨hbase, hbc⟩ := moveBase_core hc hS hdc
  have hpl1 : SamePl (mm1 T b m pc) (moveBase T b pc m.src m.dst b.stm (b.pieceOn m.dst)) := mm1_pl T b m pc
  have hs1 : Struct (mm1 T b m pc) := hpl1.struct_iff.mpr hbase.toStruct
  -- the opponent's king
  have hkpop : (b.kings &&& b.colorCombined b.stm.other).popcnt = 1 := by
    exact (hc.toStruct.count_piece_color .king b.stm.other).symm.trans hk1
  have hKAt : KingAt b.abs b.abs.stm.other (b.kingSquare b.stm.other) := kingAt hc.toStruct hkpop
  have hKb : b.abs.board (b.kingSquare b.stm.other) = some (.king, b.abs.stm.other) := (hKAt _).mpr rfl
  have hKd : b.kingSquare b.stm.other ≠ m.dst := by
    intro e; rw [e] at hKb; exact dst_not_king hk1 hnc hshape hKb
  have hK1 : (mm1 T b m pc).kingSquare b.stm.other = b.kingSquare b.stm.other := by
    refine (kingSquare_of_content hs1 ?_).1
    intro s
    rw [hpl1.content_eq, hbc]
    constructor
    · intro hh
      by_cases h1 : s = m.dst
      · rw [if_pos h1] at hh
        injection hh with hh; injection hh with _ hh
        exact absurd hh.symm (Color.other_ne b.stm)
      · rw [if_neg h1] at hh
        by_cases h2 : s = m.src
        · rw [if_pos h2] at hh; cases hh
        · rw [if_neg h2] at hh
          exact (hKAt s).mp hh
    · intro e
      subst e
      have h2 : b.kingSquare b.stm.other ≠ m.src := by
        intro e; rw [e] at hKb
        have : b.abs.board m.src = some (pc, b.stm) := hsrc
        rw [this] at hKb
        injection hKb with hKb; injection hKb with _ hKb
        exact Color.other_ne b.stm hKb.symm
      rw [if_neg hKd, if_neg h2]
      exact hKb
  have hK2 : (mm2 T b.stm b.ep m pc (mm1 T b m pc)).kingSquare b.stm.other = b.kingSquare b.stm.other := by
    refine (kingSquare_of_content hs2 ?_).1
    intro s
    rw [hcont2]
    exact kingAt_apply hk1 hnc hshape hKAt s
  have hksq : mmKsq (mm1 T b m pc) = b.kingSquare b.stm.other := by
    show (mm1 T b m pc).kingSquare (mm1 T b m pc).stm.other = _
    rw [hstm1]; exact hK1
  rw [hksq] at h
  -- phase 2 leaves the leaper contribution
  obtain ⟨hck2, hpn2⟩ := mm2_checkers T b.stm b.ep m pc (mm1 T b m pc)
  obtain ⟨hck1, hpn1⟩ := mm1_checkers T b m pc
  rw [hck1, BitVec.zero_xor, hksq, hstm1] at hck2
  rw [hpn1] at hpn2
  rw [← h]
  refine mm3_pinOK T _ _ hpn2 ?_ (by rw [hstm2]; exact hK2)
  rw [hck2, hstm2]
  -- bit by bit
  have hdst : (mm2 T b.stm b.ep m pc (mm1 T b m pc)).content m.dst = some (finalMan m pc, b.stm) := by
    rw [hcont2, apply_board_dst, applyMoved_final hsrc]
    rfl
  apply BitVec.eq_of_getLsbD_eq
  intro i hi
  have hN := knightBits hT hs2 b.stm (b.kingSquare b.stm.other) ⟨i, hi⟩
  have hP := pawnBits hT hs2 b.stm (b.kingSquare b.stm.other) ⟨i, hi⟩
  rw [BitVec.getLsbD_xor]
  by_cases hx : (⟨i, hi⟩ : Sq) = m.dst
  · have hi' : i = m.dst.val := congrArg Fin.val hx
    subst hi'
    obtain ⟨hpb, hcb, _⟩ := bits_of_content_some hs2 hdst
    rw [BitVec.getLsbD_and, BitVec.getLsbD_and, BitVec.getLsbD_and, BitVec.getLsbD_and]
    have e1 : ((mm2 T b.stm b.ep m pc (mm1 T b m pc)).colorCombined b.stm).getLsbD m.dst.val = true := by
      have := hcb b.stm; rw [decide_eq_true rfl] at this; exact this
    have e2 : (mm2 T b.stm b.ep m pc (mm1 T b m pc)).knights.getLsbD m.dst.val =
        decide (Piece.knight = finalMan m pc) := hpb .knight
    have e3 : (mm2 T b.stm b.ep m pc (mm1 T b m pc)).pawns.getLsbD m.dst.val =
        decide (Piece.pawn = finalMan m pc) := hpb .pawn
    rw [e1, e2, e3]
    exact mmLeap_bit_dst T m pc _ b.stm
      (fun q hp hq => by subst hp; exact promo_not_pawn hpl hsrc hq) _ _ rfl rfl
  · rw [mmLeap_bit_ne T m pc _ b.stm hx]
    have hKb' : b.abs.board (b.kingSquare b.stm.other) = some (.king, b.abs.stm.other) := hKb
    have n1 : (T.knight (b.kingSquare b.stm.other) &&&
        (mm2 T b.stm b.ep m pc (mm1 T b m pc)).colorCombined b.stm &&&
        (mm2 T b.stm b.ep m pc (mm1 T b m pc)).knights).getLsbD i = false := by
      apply bool_false_of_not
      intro hh
      obtain ⟨a1, a2⟩ := hN.mp hh
      rw [a1] at a2
      rw [hcont2] at a1
      exact hx (leaper_only_dst hk1 hnc hshape hKb' (.inl rfl) a1 a2)
    have n2 : (T.pawnAttacks b.stm.other (b.kingSquare b.stm.other) &&&
        ((mm2 T b.stm b.ep m pc (mm1 T b m pc)).colorCombined b.stm &&&
        (mm2 T b.stm b.ep m pc (mm1 T b m pc)).pawns)).getLsbD i = false := by
      apply bool_false_of_not
      intro hh
      obtain ⟨a1, a2⟩ := hP.mp hh
      rw [a1] at a2
      rw [hcont2] at a1
      exact hx (leaper_only_dst hk1 hnc hshape hKb' (.inr rfl) a1 a2)
    rw [n1, n2]
    rfl

/-! ### 6. a board is determined by its position, `Core` and `PinOK` -/

theorem pbit_iff_content {b : Board} (hs : Struct b) (q : Piece) (s : Sq) :
    (b.pieces q).getLsbD s.val = true ↔ ∃ c, b.content s = some (q, c) := by
  constructor
  · intro h
    have hcomb : b.combined.getLsbD s.val = true := (hs.comb_piece s.val).mpr ⟨q, h⟩
    rcases hs.color_of_comb s.val hcomb with hw | hb
    · exact ⟨.white, (hs.content_some_iff s q .white).mpr ⟨h, hw⟩⟩
    · exact ⟨.black, (hs.content_some_iff s q .black).mpr ⟨h, hb⟩⟩
  · rintro ⟨c, h⟩
    exact ((hs.content_some_iff s q c).mp h).1

theorem cbit_iff_content {b : Board} (hs : Struct b) (c : Color) (s : Sq) :
    (b.colorCombined c).getLsbD s.val = true ↔ ∃ q, b.content s = some (q, c) := by
  rw [← colorAt_iff_cbit hs, colorAt_iff, abs_board]

theorem bb_ext_sq {x y : BB} (h : ∀ s : Sq, x.getLsbD s.val = true ↔ y.getLsbD s.val = true) : x = y := by
  apply BitVec.eq_of_getLsbD_eq
  intro i hi
  rw [Bool.eq_iff_iff]
  exact h ⟨i, hi⟩

theorem placementHash_congr (T : Tables) {b₁ b₂ : Board} (h : b₁.content = b₂.content) :
    placementHash T b₁ = placementHash T b₂ := by
  unfold placementHash
  congr 1
  funext acc s
  rw [keyAt_content, keyAt_content, h]

/-- two boards with consistent bitboards, from-scratch hash and from-scratch pin / check caches that
describe the same position are equal, field by field -/
theorem board_determined {T : Tables} {b₁ b₂ : Board} (hc₁ : Core T b₁) (hc₂ : Core T b₂)
    (hp₁ : b₁.PinOK T) (hp₂ : b₂.PinOK T) (hcont : b₁.content = b₂.content) (hstm : b₁.stm = b₂.stm)
    (hw : b₁.wcr = b₂.wcr) (hb : b₁.bcr = b₂.bcr) (he : b₁.ep = b₂.ep) : b₁ = b₂ := by
  have hs₁ := hc₁.toStruct
  have hs₂ := hc₂.toStruct
  have hpieces : ∀ q, b₁.pieces q = b₂.pieces q := by
    intro q
    apply bb_ext_sq
    intro s
    rw [pbit_iff_content hs₁, pbit_iff_content hs₂, hcont]
  have hcolors : ∀ d, b₁.colorCombined d = b₂.colorCombined d := by
    intro d
    apply bb_ext_sq
    intro s
    rw [cbit_iff_content hs₁, cbit_iff_content hs₂, hcont]
  have hcomb : b₁.combined = b₂.combined := by
    apply BitVec.eq_of_getLsbD_eq
    intro i hi
    have e1 := hs₁.content_none_iff ⟨i, hi⟩
    have e2 := hs₂.content_none_iff ⟨i, hi⟩
    rw [hcont] at e1
    simp only at e1 e2
    cases h1 : b₁.combined.getLsbD i <;> cases h2 : b₂.combined.getLsbD i <;> simp_all
  have hhash : b₁.hash = b₂.hash := by
    rw [hc₁.hash, hc₂.hash, placementHash_congr T hcont]
  -- `b₂` is `b₁` with other caches; `update_pin_info` does not read the caches
  have e : b₂ = { b₁ with pinned := b₂.pinned, checkers := b₂.checkers } :=
    Board.ext_fields (fun q => (hpieces q).symm) (fun d => (hcolors d).symm) hcomb.symm hstm.symm hw.symm hb.symm
      rfl rfl hhash.symm he.symm
  have hu : b₂.updatePinInfo T = b₁.updatePinInfo T := by
    rw [e]; rfl
  unfold Board.PinOK at hp₁ hp₂
  rw [← hp₁, ← hp₂, hu]

theorem board_determined_abs {T : Tables} {b₁ b₂ : Board} (hc₁ : Core T b₁) (hc₂ : Core T b₂)
    (hp₁ : b₁.PinOK T) (hp₂ : b₂.PinOK T) (h : b₁.abs = b₂.abs) : b₁ = b₂ := by
  have hcont : b₁.content = b₂.content := congrArg Pos.board h
  have hstm : b₁.stm = b₂.stm := congrArg Pos.stm h
  have hk : ∀ c, (b₁.castleRights c).ks = (b₂.castleRights c).ks := fun c => congrFun (congrArg Pos.castleK h) c
  have hq : ∀ c, (b₁.castleRights c).qs = (b₂.castleRights c).qs := fun c => congrFun (congrArg Pos.castleQ h) c
  have hcr : ∀ c, b₁.castleRights c = b₂.castleRights c := by
    intro c
    have h1 := hk c; have h2 := hq c
    revert h1 h2
    cases b₁.castleRights c; cases b₂.castleRights c
    intro h1 h2
    simp only at h1 h2
    rw [h1, h2]
  exact board_determined hc₁ hc₂ hp₁ hp₂ hcont hstm (hcr .white) (hcr .black) (congrArg Pos.ep h)

/-! ### 7. the invariant of play -/

/-- what holds of every board reached by play from an accepted builder state with a valid position -/
structure ReachInv (T : Tables) (b : Board) : Prop where
  core : Core T b
  pin : b.PinOK T
  valid : Valid b.abs = true
  epn : norm b.abs = b.abs

theorem norm_eq_self {P : Pos}
    (h : ∀ q, P.ep = some q →
      (allSq.any fun s => s.rank == q.rank && (s.file - q.file).natAbs == 1 && P.has s .pawn P.stm) = true) :
    norm P = P := by
  unfold norm
  cases he : P.ep with
  | none =>
    obtain ⟨a, b, c, d, e⟩ := P
    simp only at he
    subst he
    rfl
  | some q =>
    simp only
    rw [if_pos (h q he)]
    obtain ⟨a, b, c, d, e⟩ := P
    simp only at he
    subst he
    rfl

theorem tryFrom_epn {T : Tables} (hT : TablesOK T) {bd : Builder} {b : Board}
    (h : Board.tryFrom T bd = some b) : norm b.abs = b.abs := by
  obtain ⟨hc, _, _, _, _, hep, _, _⟩ := tryFrom_spec T bd b h
  apply norm_eq_self
  intro q hq
  have hq' : b.ep = some q := hq
  rw [hq'] at hep
  cases hg : bd.getEnPassant with
  | none => rw [hg] at hep; cases hep
  | some e =>
    rw [hg] at hep
    simp only at hep
    split at hep
    · rename_i htest
      injection hep with hep
      subst hep
      obtain ⟨s, h1, h2, h3⟩ := (adjTest_iff hT hc.toStruct q b.stm).mp htest
      rw [List.any_eq_true]
      refine ⟨s, mem_allSq s, ?_⟩
      simp only [Bool.and_eq_true, beq_iff_eq, Pos.has]
      exact ⟨⟨h1, h2⟩, h3⟩
    · cases hep

theorem ReachInv.tryFrom {T : Tables} (hT : TablesOK T) {bd : Builder} {b : Board}
    (h : Board.tryFrom T bd = some b) (hv : Valid b.abs = true) : ReachInv T b :=
  ⟨(tryFrom_spec T bd b h).1, Board.PinOK.tryFrom h, hv, tryFrom_epn hT h⟩

theorem ReachInv.popcnt {T : Tables} {b : Board} (hi : ReachInv T b) (c : Color) :
    (b.kings &&& b.colorCombined c).popcnt = 1 :=
  (hi.core.toStruct.count_piece_color .king c).symm.trans (((Closure.valid_iff _).mp hi.valid).king c)

theorem ReachInv.kingsApart {T : Tables} {b : Board} (hi : ReachInv T b) : KingsApart b := by
  have hv := (Closure.valid_iff _).mp hi.valid
  have hna := SaneCheck.nonadjacent_of_not_inCheck hi.core.toStruct (hi.popcnt .white) (hi.popcnt .black)
    b.stm.other hv.notInCheck
  exact fun x hx => SaneCheck.kingsApart_of_nonadjacent hi.core.toStruct (hi.popcnt .white) (hi.popcnt .black)
    hna b.stm x hx

/-- the cached `checkers` are the specification's checkers -/
theorem ReachInv.checkers {T : Tables} (hT : TablesOK T) {b : Board} (hi : ReachInv T b) (x : Sq) :
    b.checkers.getLsbD x.val = checkerSq b.abs x := by
  have := checkers_exact hT hi.core.toStruct (hi.popcnt b.stm) hi.kingsApart x
  rwa [hi.pin] at this

/-- the mover's men in the cached `pinned` are the absolutely pinned ones -/
theorem ReachInv.pinned {T : Tables} (hT : TablesOK T) {b : Board} (hi : ReachInv T b) (y : Sq) :
    (b.pinned &&& b.colorCombined b.stm).getLsbD y.val = pinnedSq b.abs y := by
  have := pinned_exact hT hi.core.toStruct (hi.popcnt b.stm) y
  rwa [hi.pin] at this

theorem inCheck_eq_any_checkerSq (p : Pos) : inCheck p p.stm = allSq.any (checkerSq p) := by
  unfold inCheck checkerSq attackedBy
  cases kingSq? p p.stm with
  | none => simp
  | some k => rfl

/-- `checkers == EMPTY` means "not in check" -/
theorem ReachInv.not_inCheck_of_checkers {T : Tables} (hT : TablesOK T) {b : Board} (hi : ReachInv T b)
    (h0 : b.checkers = 0#64) : inCheck b.abs b.stm = false := by
  have e : inCheck b.abs b.abs.stm = allSq.any (checkerSq b.abs) := inCheck_eq_any_checkerSq b.abs
  apply bool_false_of_not
  intro hh
  have hh' : inCheck b.abs b.abs.stm = true := hh
  rw [e, List.any_eq_true] at hh'
  obtain ⟨x, _, hx⟩ := hh'
  have := hi.checkers hT x
  rw [h0, BitVec.getLsbD_zero, hx] at this
  cases this

theorem ReachInv.move {T : Tables} (hT : TablesOK T) {b b' : Board} {m : Move} (hi : ReachInv T b)
    (hl : legal b.abs m = true) (h : b.makeMoveNew T m = some b') :
    ReachInv T b' ∧ b'.abs = norm (apply b.abs m) := by
  have hv := (Closure.valid_iff _).mp hi.valid
  have hpl := Closure.legal_pseudo hl
  have hep := Valid_epSane hi.valid
  have hrs := Valid_rightsSane hi.valid
  obtain ⟨b'', e, hc, habs⟩ := make_move_abs hT hi.core hpl hep hrs
  rw [h] at e
  injection e with e
  subst e
  refine ⟨⟨hc, makeMove_pinOK hT hi.core hpl hep hrs (hv.king _) hv.notInCheck h, ?_, ?_⟩, habs⟩
  · rw [habs]
    exact (Closure.valid_iff _).mpr (Closure.validP_norm (Closure.validP_step hv hl))
  · rw [habs]; exact Closure.norm_norm _

theorem ReachInv.null {T : Tables} (hT : TablesOK T) {b b' : Board} (hi : ReachInv T b)
    (h : b.nullMove T = some b') : ReachInv T b' := by
  obtain ⟨h0, e⟩ := nullMove_some T b b' h
  have hv := (Closure.valid_iff _).mp hi.valid
  have hnc := hi.not_inCheck_of_checkers hT h0
  subst e
  have habs : (Board.updatePinInfo T { b with stm := b.stm.other, ep := none }).abs =
      { b.abs with stm := b.stm.other, ep := none } := rfl
  refine ⟨?_, Board.PinOK.updatePinInfo T _, ?_, ?_⟩
  · exact (SamePl.core_iff T (show SamePl (Board.updatePinInfo T { b with stm := b.stm.other, ep := none }) b from rfl)).mpr
      hi.core
  · rw [habs]
    refine (Closure.valid_iff _).mpr ⟨hv.king, hv.men, hv.pawns, hv.ck, hv.cq, hv.noPawn, ?_, rfl⟩
    show inCheck ({ b.abs with stm := b.stm.other, ep := none } : Pos) b.stm.other.other = false
    rw [Color.other_other]
    exact (Closure.inCheck_congr (show ({ b.abs with stm := b.stm.other, ep := none } : Pos).board = b.abs.board from rfl)
      b.stm).trans hnc
  · rw [habs]
    apply norm_eq_self
    intro q hq
    cases hq

/-- every board with the invariant passes `is_sane`, and is the board `try_from` builds from its own
builder view -/
theorem ReachInv.tryFrom_toBuilder {T : Tables} (hT : TablesOK T) {b : Board} (hi : ReachInv T b) :
    Board.tryFrom T b.toBuilder = some b := by
  obtain ⟨b₀, h0, e1, e2, e3, e4, e5⟩ := SaneCheck.tryFrom_complete hT hi.valid
  have habs : b₀.abs = b.abs := by
    rw [← hi.epn]
    exact Pos.ext' e1 e2 (funext e3) (funext e4) e5
  have hb : b₀ = b :=
    board_determined_abs (tryFrom_spec T _ b₀ h0).1 hi.core (Board.PinOK.tryFrom h0) hi.pin habs
  rw [hb] at h0
  exact h0

theorem ReachInv.isSane {T : Tables} (hT : TablesOK T) {b : Board} (hi : ReachInv T b) : b.isSane T = true :=
  (tryFrom_spec T _ b (hi.tryFrom_toBuilder hT)).2.2.2.2.2.2.2

/-- boards reached from an accepted builder state holding a valid position by legal moves and null moves -/
inductive Reached (T : Tables) : Board → Prop
  | start (bd : Builder) (b : Board) : Board.tryFrom T bd = some b → Valid b.abs = true → Reached T b
  | null (b b' : Board) : Reached T b → b.nullMove T = some b' → Reached T b'
  | move (b b' : Board) (m : Move) : Reached T b → legal b.abs m = true → b.makeMoveNew T m = some b' →
      Reached T b'

theorem Reached.inv {T : Tables} (hT : TablesOK T) {b : Board} (h : Reached T b) : ReachInv T b := by
  induction h with
  | start bd b h hv => exact ReachInv.tryFrom hT h hv
  | null b b' _ h ih => exact ih.null hT h
  | move b b' m _ hl h ih => exact (ih.move hT hl h).1

end PinStep
end Chess
