import ChessVerif.Lemmas.GeomBridge
import ChessVerif.Lemmas.Core
import ChessVerif.Lemmas.BitBoard
import ChessVerif.Lemmas.PinCheck3
import ChessVerif.Lemmas.Closure
import ChessVerif.Lemmas.MoveSpec
import ChessVerif.Lemmas.Sane
import ChessVerif.Lemmas.Iter
/-!
# The king part of C01: `legal_king_move`, king steps, castling, the king's destination set

* `legalKingMove_iff` — `KingType::legal_king_move(board, d)` says exactly that `d` is not attacked by
  the enemy once the mover's king is lifted off its square and put on `d`;
* `king_step_legal_iff` — for a king-step destination not holding an own man this is FIDE legality of
  the king step;
* `castle_kingside_iff`, `castle_queenside_iff` — the code's castling test is FIDE legality of the
  castling move;
* `destsKing_iff` — the destination set pushed by `KingType::legals` is exactly the set of legal king
  moves.
-/
namespace Chess
namespace KingMoves

open PinCheck

set_option maxRecDepth 100000

/-! ### the position with the king lifted and put on `d`; the occupancy of `legal_king_move` -/

/-- `p` with the man on `k` (the mover's king) lifted off the board and a king of the side to move
standing on `d`: `d ↦ king`, `k ↦ empty`, every other square as in `p` -/
def kingOn (p : Pos) (k d : Sq) : Pos :=
  { p with board := fun s => if s = d then some (.king, p.stm) else if s = k then none else p.board s }

/-- `board.combined() ^ (kings & mine) | from_square(dest)` -/
def kingOcc (b : Board) (d : Sq) : BB :=
  (b.combined ^^^ (b.kings &&& b.colorCombined b.stm)) ||| BB.ofSq d

/-- the attacker set computed by `legal_king_move` -/
def attackersBB (T : Tables) (b : Board) (d : Sq) : BB :=
  let them := b.colorCombined b.stm.other
  (((T.rookMoves d (kingOcc b d) &&& ((b.rooks ||| b.queens) &&& them)) |||
    (T.bishopMoves d (kingOcc b d) &&& ((b.bishops ||| b.queens) &&& them))) |||
    (T.knight d &&& b.knights &&& them) |||
    (T.king d &&& b.kings &&& them)) |||
    Board.pawnAttacks T d b.stm (b.pawns &&& them)

theorem legalKingMove_eq (T : Tables) (b : Board) (d : Sq) :
    MoveGen.legalKingMove T b d = (attackersBB T b d == 0#64) := rfl

/-! ### the unique king of the mover -/

/-- the mover has exactly one king -/
def OneKing (b : Board) : Prop := (b.kings &&& b.colorCombined b.stm).popcnt = 1

theorem OneKing.bit {b : Board} (h : OneKing b) (s : Sq) :
    (b.kings &&& b.colorCombined b.stm).getLsbD s.val = decide (s = b.kingSquare b.stm) := by
  have e : b.kings &&& b.colorCombined b.stm = BB.ofSq (b.kingSquare b.stm) := (BB.ofSq_toSq _ h).symm
  rw [e, BB.has_ofSq]

theorem OneKing.kingAt {b : Board} (hs : Struct b) (h : OneKing b) :
    KingAt b.abs b.stm (b.kingSquare b.stm) := by
  intro s
  rw [abs_board, hs.content_some_iff, ← Bool.and_eq_true, Board.pbit, Board.cbit, ← BitVec.getLsbD_and]
  show (b.kings &&& b.colorCombined b.stm).getLsbD s.val = true ↔ _
  rw [h.bit]; simp

theorem OneKing.board_king {b : Board} (hs : Struct b) (h : OneKing b) :
    b.abs.board (b.kingSquare b.stm) = some (.king, b.stm) := (h.kingAt hs _).mpr rfl

/-! ### the bits of a square, from its content -/

theorem bits_of_some {b : Board} (hs : Struct b) {x : Sq} {pc : Piece} {c : Color}
    (h : b.content x = some (pc, c)) :
    (∀ q, b.pbit q x.val = decide (q = pc)) ∧ (∀ c', b.cbit c' x.val = decide (c' = c)) := by
  obtain ⟨hp, hc⟩ := (hs.content_some_iff x pc c).mp h
  refine ⟨?_, ?_⟩
  · intro q
    by_cases hq : q = pc
    · subst hq; rw [hp]; simp
    · rw [hs.piece_disj x.val pc q (Ne.symm hq) hp]; simp [hq]
  · intro c'
    by_cases hq : c' = c
    · subst hq; rw [hc]; simp
    · rw [decide_eq_false hq]
      cases c <;> cases c'
      · exact absurd rfl hq
      · exact hs.color_disj x.val hc
      · cases hw : b.cbit .white x.val with
        | false => rfl
        | true => have := hs.color_disj x.val hw; rw [← cbit_black, hc] at this; cases this
      · exact absurd rfl hq

theorem bits_of_none {b : Board} (hs : Struct b) {x : Sq} (h : b.content x = none) :
    (∀ q, b.pbit q x.val = false) ∧ (∀ c', b.cbit c' x.val = false) := by
  have he := (hs.content_none_iff x).mp h
  obtain ⟨h1, h2, h3⟩ := hs.empty_bits x.val he
  exact ⟨h1, fun c' => by cases c' <;> assumption⟩

/-! ### the occupancy of `legal_king_move` is the emptiness of `kingOn` -/

theorem kingOn_board (p : Pos) (k d s : Sq) :
    (kingOn p k d).board s = if s = d then some (.king, p.stm) else if s = k then none else p.board s := rfl

theorem kingOcc_has {b : Board} (hs : Struct b) (h1 : OneKing b) (d z : Sq) :
    (kingOcc b d).has z = !(kingOn b.abs (b.kingSquare b.stm) d).empty z := by
  unfold kingOcc BB.has Pos.empty
  rw [BitVec.getLsbD_or, BitVec.getLsbD_xor, h1.bit, BB.has_ofSq, kingOn_board]
  by_cases hd : z = d
  · simp [hd]
  · by_cases hk : z = b.kingSquare b.stm
    · subst hk
      have hc : b.combined.getLsbD (b.kingSquare b.stm).val = true := by
        cases hh : b.combined.getLsbD (b.kingSquare b.stm).val with
        | true => rfl
        | false =>
          have := (hs.content_none_iff _).mpr hh
          rw [← abs_board, h1.board_king hs] at this; cases this
      simp [hd, hc]
    · simp only [hd, hk, if_false, decide_false, Bool.xor_false, Bool.or_false]
      rw [abs_board]
      cases hc : b.content z with
      | none => rw [(hs.content_none_iff z).mp hc]; rfl
      | some v =>
        cases hh : b.combined.getLsbD z.val with
        | true => rfl
        | false => rw [(hs.content_none_iff z).mpr hh] at hc; cases hc

theorem slides_kingOn {b : Board} (hs : Struct b) (h1 : OneKing b) (ds : List Dir) (x d : Sq) :
    slides ds (kingOn b.abs (b.kingSquare b.stm) d) x d =
      (Geom.sliderWalk ds x (kingOcc b d)).getLsbD d.val := by
  rw [mem_sliderWalk_gen]
  unfold slides pathClear
  congr 2
  funext z
  rw [kingOcc_has hs h1, Bool.not_not]

theorem rookWalk_kingOn {b : Board} (hs : Struct b) (h1 : OneKing b) (x d : Sq) :
    (Geom.rookWalk d (kingOcc b d)).getLsbD x.val =
      slides rookDirs (kingOn b.abs (b.kingSquare b.stm) d) x d := by
  rw [slides_kingOn hs h1, mem_rookWalk_symm]; rfl

theorem bishopWalk_kingOn {b : Board} (hs : Struct b) (h1 : OneKing b) (x d : Sq) :
    (Geom.bishopWalk d (kingOcc b d)).getLsbD x.val =
      slides bishopDirs (kingOn b.abs (b.kingSquare b.stm) d) x d := by
  rw [slides_kingOn hs h1, mem_bishopWalk_symm]; rfl

theorem slides_allDirs (p : Pos) (a b : Sq) :
    slides allDirs p a b = (slides rookDirs p a b || slides bishopDirs p a b) := by
  unfold slides
  rw [aligned_allDirs]
  cases aligned rookDirs a b <;> cases aligned bishopDirs a b <;> cases pathClear p a b <;> rfl

/-! ### `legal_king_move`, square by square -/

theorem kingOn_colorAt (p : Pos) (k d x : Sq) :
    (kingOn p k d).colorAt x = if x = d then some p.stm else if x = k then none else p.colorAt x := by
  unfold Pos.colorAt
  rw [kingOn_board]
  by_cases h1 : x = d
  · simp [h1]
  · by_cases h2 : x = k
    · simp [h2]
    · simp [h1, h2]

theorem other_beq (c : Color) : (some c == some c.other) = false := by cases c <;> rfl

/-- the enemy men of `kingOn`: the enemy men of the board, except one standing on `d` -/
theorem kingOn_enemy {b : Board} (hs : Struct b) (h1 : OneKing b) (d x : Sq) :
    ((kingOn b.abs (b.kingSquare b.stm) d).colorAt x == some b.stm.other) =
      (decide (x ≠ d) && (b.colorCombined b.stm.other).getLsbD x.val) := by
  rw [kingOn_colorAt]
  by_cases hd : x = d
  · rw [if_pos hd]; simp [hd]; exact fun h => Color.other_ne b.stm h.symm
  · rw [if_neg hd]
    by_cases hk : x = b.kingSquare b.stm
    · rw [if_pos hk]
      have hb := h1.board_king hs
      rw [abs_board] at hb
      have := (bits_of_some hs hb).2 b.stm.other
      rw [hk]
      simp only [Board.cbit] at this
      rw [this]
      simp [Color.other_ne]
    · rw [if_neg hk]
      unfold Pos.colorAt
      rw [abs_board]
      cases hc : b.content x with
      | none =>
        have := (bits_of_none hs hc).2 b.stm.other
        simp only [Board.cbit] at this
        rw [this]; simp
      | some v =>
        obtain ⟨pc, c⟩ := v
        have := (bits_of_some hs hc).2 b.stm.other
        simp only [Board.cbit] at this
        rw [this]
        simp only [Option.map_some, hd, ne_eq, not_false_eq_true, decide_true, Bool.true_and]
        cases c <;> cases b.stm <;> rfl

theorem slides_self (ds : List Dir) (p : Pos) (a : Sq) : slides ds p a a = false := by
  unfold slides; rw [aligned_irrefl]; rfl

theorem attackers_bit {T : Tables} (hT : TablesOK T) {b : Board} (hs : Struct b) (h1 : OneKing b) (d x : Sq) :
    (attackersBB T b d).getLsbD x.val =
      ((kingOn b.abs (b.kingSquare b.stm) d).colorAt x == some b.stm.other &&
        attacks (kingOn b.abs (b.kingSquare b.stm) d) x d) := by
  unfold attackersBB Board.pawnAttacks
  simp only [BitVec.getLsbD_or, BitVec.getLsbD_and, hT.rookMoves, hT.bishopMoves, hT.knight, hT.king,
    hT.pawnAttacks, rookWalk_kingOn hs h1, bishopWalk_kingOn hs h1, kingOn_enemy hs h1]
  cases hthem : (b.colorCombined b.stm.other).getLsbD x.val with
  | false => simp
  | true =>
    by_cases hd : x = d
    · subst hd
      simp only [slides_self, mem_king, mem_knight, mem_pawnAttacks]
      simp
    · have hk : x ≠ b.kingSquare b.stm := by
        intro hk
        have hb := h1.board_king hs
        rw [abs_board] at hb
        have := (bits_of_some hs hb).2 b.stm.other
        simp only [Board.cbit] at this
        rw [← hk, hthem] at this
        simp [Color.other_ne] at this
      cases hc : b.content x with
      | none =>
        have := (bits_of_none hs hc).2 b.stm.other
        simp only [Board.cbit] at this
        rw [this] at hthem; cases hthem
      | some v =>
        obtain ⟨pc, c⟩ := v
        obtain ⟨hp, hcc⟩ := bits_of_some hs hc
        have e1 : b.pawns.getLsbD x.val = decide (Piece.pawn = pc) := hp .pawn
        have e2 : b.knights.getLsbD x.val = decide (Piece.knight = pc) := hp .knight
        have e3 : b.bishops.getLsbD x.val = decide (Piece.bishop = pc) := hp .bishop
        have e4 : b.rooks.getLsbD x.val = decide (Piece.rook = pc) := hp .rook
        have e5 : b.queens.getLsbD x.val = decide (Piece.queen = pc) := hp .queen
        have e6 : b.kings.getLsbD x.val = decide (Piece.king = pc) := hp .king
        have hbx : (kingOn b.abs (b.kingSquare b.stm) d).board x = some (pc, c) := by
          rw [kingOn_board, if_neg hd, if_neg hk, abs_board, hc]
        unfold attacks
        rw [hbx]
        simp only [e1, e2, e3, e4, e5, e6, decide_eq_true hd, Bool.true_and, Bool.and_true]
        have hce : c = b.stm.other := by
          have := hcc b.stm.other
          simp only [Board.cbit] at this
          rw [hthem] at this
          exact (of_decide_eq_true this.symm).symm
        subst hce
        cases pc <;>
          simp only [reduceCtorEq, decide_true, decide_false, Bool.and_true, Bool.and_false, Bool.or_false,
            Bool.false_or, Bool.or_self, Bool.or_true]
        · rw [mem_pawnAttacks_symm, mem_pawnAttacks]
        · rw [mem_knight_symm, mem_knight]
        · exact (slides_allDirs _ _ _).symm
        · rw [mem_king_symm, mem_king_spec]

/-- **`legal_king_move` is exact**: `legal_king_move(board, d)` holds iff no enemy man attacks `d` in
the position where the mover's king has been lifted off its square and stands on `d` -/
theorem legalKingMove_iff {T : Tables} (hT : TablesOK T) {b : Board} (hs : Struct b) (h1 : OneKing b) (d : Sq) :
    MoveGen.legalKingMove T b d = true ↔
      attackedBy (kingOn b.abs (b.kingSquare b.stm) d) b.stm.other d = false := by
  rw [legalKingMove_eq, beq_iff_eq, BB.eq_zero_iff]
  unfold attackedBy
  rw [← Bool.not_eq_true, allSq_any]
  simp only [attackers_bit hT hs h1]
  constructor
  · intro h ⟨x, hx⟩; rw [h x] at hx; cases hx
  · intro h x
    cases hx : ((kingOn b.abs (b.kingSquare b.stm) d).colorAt x == some b.stm.other &&
        attacks (kingOn b.abs (b.kingSquare b.stm) d) x d) with
    | false => rfl
    | true => exact absurd ⟨x, hx⟩ h

/-! ### king steps -/

theorem kingOn_kingAt {p : Pos} {k : Sq} (hK : KingAt p p.stm k) (d : Sq) : KingAt (kingOn p k d) p.stm d := by
  intro s
  rw [kingOn_board]
  by_cases hd : s = d
  · simp [hd]
  · rw [if_neg hd]
    by_cases hk : s = k
    · simp [hk]
      intro h; exact hd (hk.trans h)
    · rw [if_neg hk]
      constructor
      · intro h; exact absurd ((hK s).mp h) hk
      · intro h; exact absurd h hd

theorem inCheck_kingOn {p : Pos} {k : Sq} (hK : KingAt p p.stm k) (d : Sq) :
    inCheck (kingOn p k d) p.stm = attackedBy (kingOn p k d) p.stm.other d := by
  unfold inCheck
  rw [kingSq?_of_KingAt (kingOn_kingAt hK d)]

/-- a position whose board is that of `kingOn p k d`: the mover of `p` is in check iff `d` is attacked -/
theorem inCheck_of_board_kingOn {p q : Pos} {k d : Sq} (hK : KingAt p p.stm k)
    (hq : q.board = (kingOn p k d).board) :
    inCheck q p.stm = attackedBy (kingOn p k d) p.stm.other d := by
  rw [Closure.inCheck_congr hq, inCheck_kingOn hK]

theorem colorAt_own_iff {b : Board} (hs : Struct b) (s : Sq) (c : Color) :
    b.abs.colorAt s = some c ↔ (b.colorCombined c).getLsbD s.val = true := by
  rw [colorAt_iff, abs_board]
  constructor
  · rintro ⟨pc, h⟩; exact ((hs.content_some_iff s pc c).mp h).2
  · intro h
    cases hc : b.content s with
    | none => have := (bits_of_none hs hc).2 c; simp only [Board.cbit] at this; rw [this] at h; cases h
    | some v =>
      obtain ⟨pc, c'⟩ := v
      have := (bits_of_some hs hc).2 c
      simp only [Board.cbit] at this
      rw [h] at this
      have := of_decide_eq_true this.symm
      subst this
      exact ⟨pc, rfl⟩

/-- the board after a king step from `k` to `d` -/
theorem apply_king_step {p : Pos} {k d : Sq} (hbk : p.board k = some (.king, p.stm))
    (hnear : (d.file - k.file).natAbs ≤ 1) :
    (apply p ⟨k, d, none⟩).board = (kingOn p k d).board := by
  have hc : isCastle p ⟨k, d, none⟩ = false := by
    unfold isCastle
    simp only [hbk, Bool.true_and, beq_eq_false_iff_ne, ne_eq]
    omega
  have he : isEnPassant p ⟨k, d, none⟩ = false := by
    unfold isEnPassant
    simp only [hbk, Bool.false_and]
  funext t
  rw [apply_board_plain hc he, kingOn_board]
  unfold applyMoved
  simp only [hbk]

/-- **king steps**: for a destination one king step away that holds no man of the mover,
`legal_king_move` is FIDE legality of the king step -/
theorem king_step_legal_iff {T : Tables} (hT : TablesOK T) {b : Board} (hs : Struct b) (h1 : OneKing b) (d : Sq)
    (hstep : (T.king (b.kingSquare b.stm)).getLsbD d.val = true)
    (hown : (b.colorCombined b.stm).getLsbD d.val = false) :
    MoveGen.legalKingMove T b d = true ↔ legal b.abs ⟨b.kingSquare b.stm, d, none⟩ = true := by
  have hK := h1.kingAt hs
  have hbk := h1.board_king hs
  rw [hT.king] at hstep
  have hatt : attacks b.abs (b.kingSquare b.stm) d = true := by
    unfold attacks
    simp only [hbk]
    rw [← mem_king_spec]; exact hstep
  have hcol : b.abs.colorAt d ≠ some b.stm := by
    intro h
    rw [colorAt_own_iff hs, hown] at h; cases h
  have hpl : pseudoLegal b.abs ⟨b.kingSquare b.stm, d, none⟩ = true := by
    unfold pseudoLegal
    simp only [hbk, hatt]
    have : b.abs.stm = b.stm := rfl
    simp [this, hcol]
  have hnear : (d.file - (b.kingSquare b.stm).file).natAbs ≤ 1 := by
    rw [mem_king] at hstep
    simp only [Bool.and_eq_true, decide_eq_true_eq] at hstep
    exact hstep.1.2
  unfold legal
  rw [hpl, Bool.true_and, legalKingMove_iff hT hs h1,
    inCheck_of_board_kingOn (p := b.abs) hK (apply_king_step hbk hnear)]
  show _ ↔ (!attackedBy (kingOn b.abs (b.kingSquare b.stm) d) b.stm.other d) = true
  simp

/-! ### the first loop of `KingType::legals`: king steps filtered by `legal_king_move` -/

/-- the king steps that survive `legal_king_move` (the first loop of `KingType::legals` under the mask
`!mine` that `enumerate_moves` passes) -/
def kingSteps (T : Tables) (b : Board) : BB :=
  let moves := MoveGen.pseudoLegals T .king (b.kingSquare b.stm) b.stm b.combined (~~~(b.colorCombined b.stm))
  moves.toList.foldl (fun mv dest =>
    if !MoveGen.legalKingMove T b dest then mv ^^^ BB.ofSq dest else mv) moves

/-- the value `moves` that `KingType::legals` pushes (mask `!mine`) -/
def destsKing (T : Tables) (b : Board) (inCheck : Bool) : BB :=
  let ksq := b.kingSquare b.stm
  let moves := kingSteps T b
  if !inCheck then
    let moves :=
      if b.myCastleRights.ks && (b.combined &&& T.ksCastle b.stm) == 0#64 then
        let middle := ksq.uright
        let right := middle.uright
        if MoveGen.legalKingMove T b middle && MoveGen.legalKingMove T b right then moves ^^^ BB.ofSq right else moves
      else moves
    if b.myCastleRights.qs && (b.combined &&& T.qsCastle b.stm) == 0#64 then
      let middle := ksq.uleft
      let left := middle.uleft
      if MoveGen.legalKingMove T b middle && MoveGen.legalKingMove T b left then moves ^^^ BB.ofSq left else moves
    else moves
  else moves

/-- `KingType::legals` pushes the single entry `(ksq, destsKing)` (if it is not empty) -/
theorem legalsKing_eq (T : Tables) (ic : Bool) (l : List Entry) (b : Board) :
    MoveGen.legalsKing T ic l b (~~~(b.colorCombined b.stm)) =
      MoveGen.pushIf l ⟨b.kingSquare b.stm, destsKing T b ic, false⟩ := rfl

/-- a loop that xors away the squares satisfying `c`, over a duplicate-free list -/
theorem foldl_clear (c : Sq → Bool) : ∀ (l : List Sq) (init : BB) (s : Sq), l.Nodup →
    (l.foldl (fun mv dest => if c dest then mv ^^^ BB.ofSq dest else mv) init).getLsbD s.val =
      (if s ∈ l ∧ c s = true then !init.getLsbD s.val else init.getLsbD s.val) := by
  intro l
  induction l with
  | nil => intro init s _; simp
  | cons a as ih =>
    intro init s hnd
    rw [List.nodup_cons] at hnd
    rw [List.foldl_cons, ih _ s hnd.2]
    by_cases hsa : s = a
    · subst hsa
      have : ¬ (s ∈ as ∧ c s = true) := fun h => hnd.1 h.1
      rw [if_neg this]
      by_cases hc : c s = true
      · rw [if_pos hc, getLsbD_xor_ofSq, if_pos rfl, if_pos ⟨List.mem_cons_self, hc⟩]
      · rw [if_neg hc, if_neg (fun h => hc h.2)]
    · have hv : s.val ≠ a.val := fun h => hsa (Fin.ext h)
      have e : (if c a = true then init ^^^ BB.ofSq a else init).getLsbD s.val = init.getLsbD s.val := by
        split
        · rw [getLsbD_xor_ofSq, if_neg hv]
        · rfl
      rw [e]
      simp [hsa]

theorem toList_nodup (x : BB) : x.toList.Nodup := by
  rw [BB.toList_exact]
  exact allSq_nodup.sublist List.filter_sublist

theorem mem_toList (x : BB) (s : Sq) : s ∈ x.toList ↔ x.getLsbD s.val = true := by
  rw [BB.toList_exact, List.mem_filter]
  exact ⟨fun h => h.2, fun h => ⟨mem_allSq s, h⟩⟩

/-- a king-step destination that survives: in the king pattern, not an own man, and `legal_king_move` -/
theorem mem_kingSteps {T : Tables} (b : Board) (d : Sq) :
    (kingSteps T b).getLsbD d.val =
      ((T.king (b.kingSquare b.stm)).getLsbD d.val && !(b.colorCombined b.stm).getLsbD d.val &&
        MoveGen.legalKingMove T b d) := by
  unfold kingSteps
  simp only []
  rw [foldl_clear (fun dest => !MoveGen.legalKingMove T b dest) _ _ d (toList_nodup _)]
  simp only [mem_toList]
  unfold MoveGen.pseudoLegals
  simp only [BitVec.getLsbD_and, BitVec.getLsbD_not, d.isLt, decide_true, Bool.true_and]
  cases (T.king (b.kingSquare b.stm)).getLsbD d.val <;> cases (b.colorCombined b.stm).getLsbD d.val <;>
    cases MoveGen.legalKingMove T b d <;> simp

/-! ### comparing attacks in two positions -/

theorem attackedBy_iff (p : Pos) (c : Color) (t : Sq) :
    attackedBy p c t = true ↔ ∃ x, p.colorAt x = some c ∧ attacks p x t = true := by
  unfold attackedBy
  rw [allSq_any]
  simp only [Bool.and_eq_true, beq_iff_eq]

theorem colorAt_congr {q q' : Pos} {x : Sq} (h : q'.board x = q.board x) : q'.colorAt x = q.colorAt x := by
  unfold Pos.colorAt; rw [h]

/-- every attack on `t` in `q` is an attack on `t` in `q'` when the attacker stands unchanged and every
square of its path that is empty in `q` is empty in `q'` -/
theorem attackedBy_mono {q q' : Pos} {c : Color} {t : Sq}
    (h : ∀ x, q.colorAt x = some c → attacks q x t = true →
      q'.board x = q.board x ∧ ∀ z, strictlyBetween x z t = true → q.empty z = true → q'.empty z = true)
    (ha : attackedBy q c t = true) : attackedBy q' c t = true := by
  rw [attackedBy_iff] at ha ⊢
  obtain ⟨x, hx, hatt⟩ := ha
  obtain ⟨hb, hp⟩ := h x hx hatt
  refine ⟨x, by rw [colorAt_congr hb, hx], ?_⟩
  rw [attacks_eq] at hatt ⊢
  rw [hb]
  simp only [Bool.or_eq_true, Bool.and_eq_true, pathClear_iff] at hatt ⊢
  rcases hatt with ⟨h1, h2⟩ | h3
  · exact Or.inl ⟨h1, fun z hz => hp z hz (h2 z hz)⟩
  · exact Or.inr h3

theorem kingOn_empty (p : Pos) (k d z : Sq) :
    (kingOn p k d).empty z = true ↔ z ≠ d ∧ (z = k ∨ p.empty z = true) := by
  unfold Pos.empty
  rw [kingOn_board]
  by_cases hd : z = d
  · simp [hd]
  · by_cases hk : z = k
    · simp [hk]
    · simp [hd, hk]

theorem enemy_ne_king {p : Pos} {k x : Sq} (hK : KingAt p p.stm k) (hx : p.colorAt x = some p.stm.other) : x ≠ k := by
  intro h
  rw [h, colorAt_of_board ((hK k).mpr rfl)] at hx
  exact Color.other_ne p.stm (Option.some.inj hx).symm

/-- (a) an attack on an empty square `d` persists when the king is lifted and put on `d` -/
theorem attackedBy_kingOn_of {p : Pos} {k d : Sq} (hK : KingAt p p.stm k) (hd : p.board d = none)
    (ha : attackedBy p p.stm.other d = true) : attackedBy (kingOn p k d) p.stm.other d = true := by
  refine attackedBy_mono ?_ ha
  intro x hx _
  have hxk := enemy_ne_king hK hx
  have hxd : x ≠ d := by
    intro h; rw [h] at hx; unfold Pos.colorAt at hx; rw [hd] at hx; cases hx
  refine ⟨by rw [kingOn_board, if_neg hxd, if_neg hxk], ?_⟩
  intro z hz he
  rw [kingOn_empty]
  exact ⟨strictlyBetween_ne_right hz, Or.inr he⟩

theorem sliderAligned_between {bd : Option (Piece × Color)} {x k d : Sq} (h : sliderAligned bd x d = true)
    (hb : strictlyBetween x k d = true) : sliderAligned bd x k = true := by
  unfold sliderAligned at h ⊢
  rcases bd with _ | ⟨pc, c⟩
  · cases h
  · cases pc <;> simp only at h ⊢ <;> first | exact (strictlyBetween_aligned_ds hb h).1 | cases h

/-- (b) with the king not in check, lifting it opens no new attack: an attack on `d` with the king lifted
and standing on `d` is an attack on `d` in the position itself -/
theorem attackedBy_of_kingOn {p : Pos} {k d : Sq} (hK : KingAt p p.stm k)
    (hnc : attackedBy p p.stm.other k = false)
    (ha : attackedBy (kingOn p k d) p.stm.other d = true) : attackedBy p p.stm.other d = true := by
  refine attackedBy_mono ?_ ha
  intro x hx hatt
  rw [kingOn_colorAt] at hx
  have hxd : x ≠ d := by
    intro h; rw [if_pos h] at hx; exact Color.other_ne p.stm (Option.some.inj hx).symm
  rw [if_neg hxd] at hx
  have hxk : x ≠ k := by
    intro h; rw [if_pos h] at hx; cases hx
  rw [if_neg hxk] at hx
  have hbx : (kingOn p k d).board x = p.board x := by rw [kingOn_board, if_neg hxd, if_neg hxk]
  refine ⟨hbx.symm, ?_⟩
  intro z hz he
  rw [kingOn_empty] at he
  rcases he.2 with hzk | he
  · exfalso
    subst hzk
    -- the king is strictly between the attacker and `d`: the attacker is a slider giving check
    rw [attacks_eq, hbx] at hatt
    simp only [Bool.or_eq_true, Bool.and_eq_true, pathClear_iff] at hatt
    rcases hatt with ⟨h1, h2⟩ | h3
    · have : attackedBy p p.stm.other z = true := by
        rw [attackedBy_iff]
        refine ⟨x, hx, ?_⟩
        rw [attacks_eq]
        simp only [Bool.or_eq_true, Bool.and_eq_true, pathClear_iff]
        refine Or.inl ⟨sliderAligned_between h1 hz, ?_⟩
        intro w hw
        have hwd := strictlyBetween_trans hz hw
        rcases ((kingOn_empty p z d w).mp (h2 w hwd)).2 with h | h
        · exact absurd h (strictlyBetween_ne_right hw)
        · exact h
      rw [hnc] at this; cases this
    · exact leaper_no_between h3 hz
  · exact he


/-! ### the castling squares -/

/-- the square on file `f` of the home rank of `c` -/
abbrev hsq (c : Color) (f : Fin 8) : Sq := mkSq c.backrank f

theorem uright_hsq (c : Color) : (hsq c 4).uright = hsq c 5 ∧ (hsq c 5).uright = hsq c 6 ∧
    (hsq c 4).uleft = hsq c 3 ∧ (hsq c 3).uleft = hsq c 2 := by cases c <;> decide

theorem between_ks (c : Color) : ∀ z : Sq, strictlyBetween (hsq c 4) z (hsq c 7) = (z == hsq c 5 || z == hsq c 6) := by
  cases c <;> decide
theorem between_qs (c : Color) : ∀ z : Sq, strictlyBetween (hsq c 4) z (hsq c 0) = (z == hsq c 1 || z == hsq c 2 || z == hsq c 3) := by
  cases c <;> decide
theorem no_between_h (c : Color) : ∀ x : Sq, strictlyBetween x (hsq c 7) (hsq c 6) = false := by
  cases c <;> decide
theorem no_between_a (c : Color) : ∀ x : Sq, strictlyBetween x (hsq c 0) (hsq c 2) = false := by
  cases c <;> decide
theorem ksCastle_eq (c : Color) : Geom.ksCastle c = BB.ofSq (hsq c 5) ||| BB.ofSq (hsq c 6) := by
  cases c <;> decide +kernel
theorem qsCastle_eq (c : Color) : Geom.qsCastle c = BB.ofSq (hsq c 1) ||| BB.ofSq (hsq c 2) ||| BB.ofSq (hsq c 3) := by
  cases c <;> decide +kernel
theorem sq?_home (c : Color) (f : Fin 8) : sq? (f.val : Int) c.homeRank = some (hsq c f) := by
  revert f; cases c <;> decide

/-- (c) the position after castling (king `k → t`, rook `r → m`): if the rook's home square `r` is never
strictly between a square and `t`, every attack on `t` is an attack on `t` with the king merely lifted
and put on `t` (rook still at home) -/
theorem attackedBy_kingOn_of_castled {p q : Pos} {k t r m : Sq}
    (hq : ∀ s, q.board s = if s = t then some (.king, p.stm) else if s = k then none else if s = r then none
      else if s = m then some (.rook, p.stm) else p.board s)
    (hr : ∀ x, strictlyBetween x r t = false)
    (ha : attackedBy q p.stm.other t = true) : attackedBy (kingOn p k t) p.stm.other t = true := by
  refine attackedBy_mono ?_ ha
  intro x hx _
  unfold Pos.colorAt at hx
  rw [hq] at hx
  have hxt : x ≠ t := by
    intro h; rw [if_pos h] at hx; exact Color.other_ne p.stm (Option.some.inj hx).symm
  rw [if_neg hxt] at hx
  have hxk : x ≠ k := by
    intro h; rw [if_pos h] at hx; cases hx
  rw [if_neg hxk] at hx
  have hxr : x ≠ r := by
    intro h; rw [if_pos h] at hx; cases hx
  rw [if_neg hxr] at hx
  have hxm : x ≠ m := by
    intro h; rw [if_pos h] at hx; exact Color.other_ne p.stm (Option.some.inj hx).symm
  refine ⟨by rw [kingOn_board, hq, if_neg hxt, if_neg hxk, if_neg hxt, if_neg hxk, if_neg hxr, if_neg hxm], ?_⟩
  intro z hz he
  rw [kingOn_empty]
  refine ⟨strictlyBetween_ne_right hz, ?_⟩
  by_cases hzk : z = k
  · exact Or.inl hzk
  · right
    have hzt := strictlyBetween_ne_right hz
    have hzr : z ≠ r := by
      intro h; rw [h, hr] at hz; cases hz
    unfold Pos.empty at he ⊢
    rw [hq, if_neg hzt, if_neg hzk, if_neg hzr] at he
    by_cases hzm : z = m
    · rw [if_pos hzm] at he; cases he
    · rw [if_neg hzm] at he; exact he

/-! ### the castling disjunct of `pseudoLegal` -/

/-- the castling disjunct of `pseudoLegal` for a king move `k → d` (Article 3.8.2) -/
def castleCond (p : Pos) (k d : Sq) : Bool :=
  let c := p.stm
  let df := d.file - k.file; let dr := d.rank - k.rank
  (k.rank == c.homeRank && k.file == 4 && dr == 0 && df.natAbs == 2 &&
    let kingside := df == 2
    let rookFile : Int := if kingside then 7 else 0
    (if kingside then p.castleK c else p.castleQ c) &&
    (match sq? rookFile c.homeRank, sq? (4 + df / 2) c.homeRank with
     | some r, some mid =>
        p.has r .rook c && pathClear p k r &&
        !attackedBy p c.other k && !attackedBy p c.other mid && !attackedBy p c.other d
     | _, _ => false))

theorem pseudoLegal_king_eq {p : Pos} {k : Sq} (hbk : p.board k = some (.king, p.stm)) (d : Sq) :
    pseudoLegal p ⟨k, d, none⟩ = (p.colorAt d != some p.stm && (attacks p k d || castleCond p k d)) := by
  unfold pseudoLegal castleCond
  simp only [hbk, beq_self_eq_true, Bool.true_and, Option.isNone_none]
  rfl

theorem castleCond_ks (p : Pos) :
    castleCond p (hsq p.stm 4) (hsq p.stm 6) =
      (p.castleK p.stm && (p.has (hsq p.stm 7) .rook p.stm && pathClear p (hsq p.stm 4) (hsq p.stm 7) &&
        !attackedBy p p.stm.other (hsq p.stm 4) && !attackedBy p p.stm.other (hsq p.stm 5) &&
        !attackedBy p p.stm.other (hsq p.stm 6))) := by
  unfold castleCond
  have f6 : (hsq p.stm 6).file = 6 := by rw [Sq.file_mkSq]; rfl
  have f4 : (hsq p.stm 4).file = 4 := by rw [Sq.file_mkSq]; rfl
  have r6 : (hsq p.stm 6).rank = p.stm.homeRank := by rw [Sq.rank_mkSq, backrank_val]
  have r4 : (hsq p.stm 4).rank = p.stm.homeRank := by rw [Sq.rank_mkSq, backrank_val]
  have e5 : sq? 7 p.stm.homeRank = some (hsq p.stm 7) := sq?_home p.stm 7
  have e6 : sq? 5 p.stm.homeRank = some (hsq p.stm 5) := sq?_home p.stm 5
  simp only [f6, f4, r6, r4, Int.sub_self, Int.reduceSub, Int.reduceAdd, Int.reduceDiv, Int.reduceAbs,
    beq_self_eq_true, Bool.true_and, if_true, e5, e6]

theorem castleCond_qs (p : Pos) :
    castleCond p (hsq p.stm 4) (hsq p.stm 2) =
      (p.castleQ p.stm && (p.has (hsq p.stm 0) .rook p.stm && pathClear p (hsq p.stm 4) (hsq p.stm 0) &&
        !attackedBy p p.stm.other (hsq p.stm 4) && !attackedBy p p.stm.other (hsq p.stm 3) &&
        !attackedBy p p.stm.other (hsq p.stm 2))) := by
  unfold castleCond
  have f2 : (hsq p.stm 2).file = 2 := by rw [Sq.file_mkSq]; rfl
  have f4 : (hsq p.stm 4).file = 4 := by rw [Sq.file_mkSq]; rfl
  have r2 : (hsq p.stm 2).rank = p.stm.homeRank := by rw [Sq.rank_mkSq, backrank_val]
  have r4 : (hsq p.stm 4).rank = p.stm.homeRank := by rw [Sq.rank_mkSq, backrank_val]
  have e5 : sq? 0 p.stm.homeRank = some (hsq p.stm 0) := sq?_home p.stm 0
  have e6 : sq? 3 p.stm.homeRank = some (hsq p.stm 3) := sq?_home p.stm 3
  have e7 : ((2 : Int) - 4 == 2) = false := by decide
  have e8 : ((2 : Int) - 4).natAbs = 2 := by decide
  have e9 : (4 : Int) + (2 - 4) / 2 = 3 := by decide
  simp only [f2, f4, r2, r4, Int.sub_self, e7, e8, e9,
    beq_self_eq_true, Bool.true_and, e5, e6, Bool.false_eq_true, if_false]

/-! ### castling: the core argument on the specification -/

theorem inCheck_eq {p : Pos} {k : Sq} (hK : KingAt p p.stm k) :
    inCheck p p.stm = attackedBy p p.stm.other k := by
  unfold inCheck; rw [kingSq?_of_KingAt hK]

theorem colorAt_of_none {p : Pos} {s : Sq} (h : p.board s = none) (c : Color) : (p.colorAt s != some c) = true := by
  unfold Pos.colorAt; rw [h]; rfl

/-- the core of the castling argument, on the specification alone: king `k → t`, rook `r → m` -/
theorem castle_core {p : Pos} {k t r m : Sq} {right : Bool} (hK : KingAt p p.stm k)
    (hcc : castleCond p k t = (right && (p.has r .rook p.stm && pathClear p k r &&
      !attackedBy p p.stm.other k && !attackedBy p p.stm.other m && !attackedBy p p.stm.other t)))
    (hnear : attacks p k t = false)
    (hm : pathClear p k r = true → p.board m = none) (ht : pathClear p k r = true → p.board t = none)
    (happly : ∀ s, (apply p ⟨k, t, none⟩).board s = if s = t then some (.king, p.stm) else if s = k then none
      else if s = r then none else if s = m then some (.rook, p.stm) else p.board s)
    (hr : ∀ x, strictlyBetween x r t = false) (hmt : m ≠ t) :
    legal p ⟨k, t, none⟩ = true ↔
      (right = true ∧ p.has r .rook p.stm = true ∧ pathClear p k r = true ∧
        attackedBy p p.stm.other k = false ∧
        attackedBy (kingOn p k m) p.stm.other m = false ∧
        attackedBy (kingOn p k t) p.stm.other t = false) := by
  have hbk : p.board k = some (.king, p.stm) := (hK k).mpr rfl
  unfold legal
  rw [pseudoLegal_king_eq hbk, hnear, Bool.false_or, hcc]
  constructor
  · intro h
    simp only [Bool.and_eq_true, Bool.not_eq_true', bne_iff_ne, ne_eq] at h
    obtain ⟨⟨_, h1, ⟨⟨⟨h2, h3⟩, h4⟩, h5⟩, h6⟩, _⟩ := h
    refine ⟨h1, h2, h3, h4, ?_, ?_⟩
    · cases hh : attackedBy (kingOn p k m) p.stm.other m with
      | false => rfl
      | true => rw [attackedBy_of_kingOn hK h4 hh] at h5; cases h5
    · cases hh : attackedBy (kingOn p k t) p.stm.other t with
      | false => rfl
      | true => rw [attackedBy_of_kingOn hK h4 hh] at h6; cases h6
  · rintro ⟨h1, h2, h3, h4, h5, h6⟩
    have h5' : attackedBy p p.stm.other m = false := by
      cases hh : attackedBy p p.stm.other m with
      | false => rfl
      | true => rw [attackedBy_kingOn_of hK (hm h3) hh] at h5; cases h5
    have h6' : attackedBy p p.stm.other t = false := by
      cases hh : attackedBy p p.stm.other t with
      | false => rfl
      | true => rw [attackedBy_kingOn_of hK (ht h3) hh] at h6; cases h6
    have hK' : KingAt (apply p ⟨k, t, none⟩) p.stm t := by
      intro s
      rw [happly]
      by_cases e1 : s = t
      · simp [e1]
      · rw [if_neg e1]
        by_cases e2 : s = k
        · simp [e2]; intro h; exact e1 (e2.trans h)
        · rw [if_neg e2]
          by_cases e3 : s = r
          · simp [e3]; intro h; exact e1 (e3.trans h)
          · rw [if_neg e3]
            by_cases e4 : s = m
            · simp [e4, hmt]
            · rw [if_neg e4]
              constructor
              · intro h; exact absurd ((hK s).mp h) e2
              · intro h; exact absurd h e1
    have hafter : inCheck (apply p ⟨k, t, none⟩) p.stm = false := by
      have e : inCheck (apply p ⟨k, t, none⟩) p.stm = attackedBy (apply p ⟨k, t, none⟩) p.stm.other t := by
        unfold inCheck; rw [kingSq?_of_KingAt hK']
      rw [e]
      cases hh : attackedBy (apply p ⟨k, t, none⟩) p.stm.other t with
      | false => rfl
      | true => rw [attackedBy_kingOn_of_castled happly hr hh] at h6; cases h6
    rw [colorAt_of_none (ht h3), h1, h2, h3, h4, h5', h6', hafter]
    rfl

/-! ### castling on the board -/

theorem hsq_file (c : Color) (f : Fin 8) : (hsq c f).file = (f.val : Int) := Sq.file_mkSq _ _
theorem hsq_rank (c : Color) (f : Fin 8) : (hsq c f).rank = c.homeRank := by rw [Sq.rank_mkSq, backrank_val]

theorem hsq_inj (c : Color) {f g : Fin 8} (h : hsq c f = hsq c g) : f = g := mkSq_inj_file _ h

/-- the board after castling kingside -/
theorem apply_castle_ks {p : Pos} (hbk : p.board (hsq p.stm 4) = some (.king, p.stm)) (s : Sq) :
    (apply p ⟨hsq p.stm 4, hsq p.stm 6, none⟩).board s =
      if s = hsq p.stm 6 then some (.king, p.stm) else if s = hsq p.stm 4 then none
      else if s = hsq p.stm 7 then none else if s = hsq p.stm 5 then some (.rook, p.stm) else p.board s := by
  have hc : isCastle p ⟨hsq p.stm 4, hsq p.stm 6, none⟩ = true := by
    unfold isCastle
    simp only [hbk, hsq_file]
    decide
  have he : isEnPassant p ⟨hsq p.stm 4, hsq p.stm 6, none⟩ = false := by
    unfold isEnPassant
    simp only [hbk, Bool.false_and]
  have h7 : homeSq p.stm (if (hsq p.stm 6).file > (hsq p.stm 4).file then 7 else 0) = some (hsq p.stm 7) := by
    rw [hsq_file, hsq_file, if_pos (by decide)]; exact homeSq_7 p.stm
  have h5 : homeSq p.stm (if (hsq p.stm 6).file > (hsq p.stm 4).file then 5 else 3) = some (hsq p.stm 5) := by
    rw [hsq_file, hsq_file, if_pos (by decide)]; exact homeSq_eq p.stm 5
  rw [apply_board_castle hc he h7 h5]
  unfold applyMoved
  simp only [hbk]

/-- the board after castling queenside -/
theorem apply_castle_qs {p : Pos} (hbk : p.board (hsq p.stm 4) = some (.king, p.stm)) (s : Sq) :
    (apply p ⟨hsq p.stm 4, hsq p.stm 2, none⟩).board s =
      if s = hsq p.stm 2 then some (.king, p.stm) else if s = hsq p.stm 4 then none
      else if s = hsq p.stm 0 then none else if s = hsq p.stm 3 then some (.rook, p.stm) else p.board s := by
  have hc : isCastle p ⟨hsq p.stm 4, hsq p.stm 2, none⟩ = true := by
    unfold isCastle
    simp only [hbk, hsq_file]
    decide
  have he : isEnPassant p ⟨hsq p.stm 4, hsq p.stm 2, none⟩ = false := by
    unfold isEnPassant
    simp only [hbk, Bool.false_and]
  have h0 : homeSq p.stm (if (hsq p.stm 2).file > (hsq p.stm 4).file then 7 else 0) = some (hsq p.stm 0) := by
    rw [hsq_file, hsq_file, if_neg (by decide)]; exact homeSq_0 p.stm
  have h3 : homeSq p.stm (if (hsq p.stm 2).file > (hsq p.stm 4).file then 5 else 3) = some (hsq p.stm 3) := by
    rw [hsq_file, hsq_file, if_neg (by decide)]; exact homeSq_eq p.stm 3
  rw [apply_board_castle hc he h0 h3]
  unfold applyMoved
  simp only [hbk]

theorem king_not_two_files {p : Pos} {k t : Sq} (hbk : p.board k = some (.king, p.stm))
    (h : 2 ≤ (t.file - k.file).natAbs) : attacks p k t = false := by
  cases ha : attacks p k t with
  | false => rfl
  | true => have := (king_attacks_near hbk ha).1; omega

theorem empty_of_board {p : Pos} {s : Sq} : p.empty s = true ↔ p.board s = none := PinCheck.empty_iff p s

theorem pathClear_ks (p : Pos) (c : Color) :
    pathClear p (hsq c 4) (hsq c 7) = true ↔ p.board (hsq c 5) = none ∧ p.board (hsq c 6) = none := by
  rw [pathClear_iff]
  simp only [between_ks, Bool.or_eq_true, beq_iff_eq, empty_of_board]
  constructor
  · intro h; exact ⟨h _ (Or.inl rfl), h _ (Or.inr rfl)⟩
  · rintro ⟨h1, h2⟩ z (rfl | rfl) <;> assumption

theorem pathClear_qs (p : Pos) (c : Color) :
    pathClear p (hsq c 4) (hsq c 0) = true ↔
      p.board (hsq c 1) = none ∧ p.board (hsq c 2) = none ∧ p.board (hsq c 3) = none := by
  rw [pathClear_iff]
  simp only [between_qs, Bool.or_eq_true, beq_iff_eq, empty_of_board]
  constructor
  · intro h; exact ⟨h _ (Or.inl (Or.inl rfl)), h _ (Or.inl (Or.inr rfl)), h _ (Or.inr rfl)⟩
  · rintro ⟨h1, h2, h3⟩ z ((rfl | rfl) | rfl) <;> assumption

theorem board_none_iff {b : Board} (hs : Struct b) (s : Sq) :
    b.abs.board s = none ↔ b.combined.getLsbD s.val = false := by
  rw [abs_board, hs.content_none_iff]

theorem and_ofSq_or_eq_zero (x : BB) (a c : Sq) :
    x &&& (BB.ofSq a ||| BB.ofSq c) = 0#64 ↔ x.getLsbD a.val = false ∧ x.getLsbD c.val = false := by
  rw [BB.eq_zero_iff]
  simp only [BitVec.getLsbD_and, BitVec.getLsbD_or, BB.has_ofSq]
  constructor
  · intro h
    exact ⟨by simpa using h a, by simpa using h c⟩
  · rintro ⟨h1, h2⟩ z
    by_cases e1 : z = a
    · subst e1; rw [h1, Bool.false_and]
    · by_cases e2 : z = c
      · subst e2; rw [h2, Bool.false_and]
      · simp [e1, e2]

theorem ksCastle_empty {T : Tables} (hT : TablesOK T) {b : Board} (hs : Struct b) :
    b.combined &&& T.ksCastle b.stm = 0#64 ↔
      b.abs.board (hsq b.stm 5) = none ∧ b.abs.board (hsq b.stm 6) = none := by
  rw [hT.ksCastle, ksCastle_eq, and_ofSq_or_eq_zero, board_none_iff hs, board_none_iff hs]

theorem and_ofSq_or3_eq_zero (x : BB) (a c e : Sq) :
    x &&& (BB.ofSq a ||| BB.ofSq c ||| BB.ofSq e) = 0#64 ↔
      x.getLsbD a.val = false ∧ x.getLsbD c.val = false ∧ x.getLsbD e.val = false := by
  rw [BB.eq_zero_iff]
  simp only [BitVec.getLsbD_and, BitVec.getLsbD_or, BB.has_ofSq]
  constructor
  · intro h
    exact ⟨by simpa using h a, by simpa using h c, by simpa using h e⟩
  · rintro ⟨h1, h2, h3⟩ z
    by_cases e1 : z = a
    · subst e1; rw [h1, Bool.false_and]
    · by_cases e2 : z = c
      · subst e2; rw [h2, Bool.false_and]
      · by_cases e3 : z = e
        · subst e3; rw [h3, Bool.false_and]
        · simp [e1, e2, e3]

theorem qsCastle_empty {T : Tables} (hT : TablesOK T) {b : Board} (hs : Struct b) :
    b.combined &&& T.qsCastle b.stm = 0#64 ↔
      b.abs.board (hsq b.stm 1) = none ∧ b.abs.board (hsq b.stm 2) = none ∧ b.abs.board (hsq b.stm 3) = none := by
  rw [hT.qsCastle, qsCastle_eq, and_ofSq_or3_eq_zero, board_none_iff hs, board_none_iff hs, board_none_iff hs]

theorem castleCond_src {p : Pos} {k d : Sq} (h : castleCond p k d = true) : k = hsq p.stm 4 := by
  unfold castleCond at h
  simp only [Bool.and_eq_true, beq_iff_eq] at h
  obtain ⟨⟨⟨⟨h1, h2⟩, _⟩, _⟩, _⟩ := h
  exact Sq.ext_coord (by rw [hsq_file, h2]; rfl) (by rw [hsq_rank, h1])

theorem castleCond_dst {p : Pos} {k d : Sq} (h : castleCond p k d = true) :
    d = hsq p.stm 6 ∨ d = hsq p.stm 2 := by
  unfold castleCond at h
  simp only [Bool.and_eq_true, beq_iff_eq] at h
  obtain ⟨⟨⟨⟨h1, h2⟩, h3⟩, h4⟩, _⟩ := h
  have hd := Sq.coord_bounds d
  rcases (by omega : d.file = 6 ∨ d.file = 2) with h6 | h6
  · exact Or.inl (Sq.ext_coord (by rw [hsq_file, h6]; rfl) (by rw [hsq_rank]; omega))
  · exact Or.inr (Sq.ext_coord (by rw [hsq_file, h6]; rfl) (by rw [hsq_rank]; omega))

theorem two_right : ∀ k : Sq, 2 ≤ (k.uright.uright.file - k.file).natAbs := by decide
theorem two_left : ∀ k : Sq, 2 ≤ (k.uleft.uleft.file - k.file).natAbs := by decide

theorem legalKingMove_false_iff {T : Tables} (hT : TablesOK T) {b : Board} (hs : Struct b) (h1 : OneKing b) (d : Sq) :
    attackedBy (kingOn b.abs (b.kingSquare b.stm) d) b.stm.other d = false ↔ MoveGen.legalKingMove T b d = true :=
  (legalKingMove_iff hT hs h1 d).symm

/-- **castling kingside**: the code's test (right present, `f` and `g` empty, transit and target squares
pass `legal_king_move`, not in check) is FIDE legality of `O-O`, provided the right is backed by the king
and the rook on their home squares -/
theorem castle_kingside_iff {T : Tables} (hT : TablesOK T) {b : Board} (hs : Struct b) (h1 : OneKing b)
    (hback : b.myCastleRights.ks = true →
      b.kingSquare b.stm = hsq b.stm 4 ∧ b.abs.board (hsq b.stm 7) = some (.rook, b.stm)) :
    (b.myCastleRights.ks = true ∧ b.combined &&& T.ksCastle b.stm = 0#64 ∧
      MoveGen.legalKingMove T b (b.kingSquare b.stm).uright = true ∧
      MoveGen.legalKingMove T b (b.kingSquare b.stm).uright.uright = true ∧
      inCheck b.abs b.stm = false) ↔
    legal b.abs ⟨b.kingSquare b.stm, (b.kingSquare b.stm).uright.uright, none⟩ = true := by
  have hK : KingAt b.abs b.abs.stm (b.kingSquare b.stm) := h1.kingAt hs
  have hbk : b.abs.board (b.kingSquare b.stm) = some (.king, b.abs.stm) := h1.board_king hs
  by_cases hke : b.kingSquare b.stm = hsq b.stm 4
  · have hL := fun d => legalKingMove_false_iff hT hs h1 d
    rw [hke] at hK hbk hL ⊢
    rw [(uright_hsq b.stm).1, (uright_hsq b.stm).2.1]
    have hnear := king_not_two_files (t := hsq b.stm 6) hbk (by rw [hsq_file, hsq_file]; decide)
    have hcore : legal b.abs ⟨hsq b.stm 4, hsq b.stm 6, none⟩ = true ↔
        (b.myCastleRights.ks = true ∧ b.abs.has (hsq b.stm 7) .rook b.stm = true ∧
          pathClear b.abs (hsq b.stm 4) (hsq b.stm 7) = true ∧
          attackedBy b.abs b.stm.other (hsq b.stm 4) = false ∧
          attackedBy (kingOn b.abs (hsq b.stm 4) (hsq b.stm 5)) b.stm.other (hsq b.stm 5) = false ∧
          attackedBy (kingOn b.abs (hsq b.stm 4) (hsq b.stm 6)) b.stm.other (hsq b.stm 6) = false) :=
      castle_core (right := b.myCastleRights.ks) hK (castleCond_ks b.abs) hnear
        (fun h => ((pathClear_ks _ _).mp h).1) (fun h => ((pathClear_ks _ _).mp h).2)
        (apply_castle_ks hbk) (no_between_h _) (fun h => by have := hsq_inj _ h; revert this; decide)
    have hic : inCheck b.abs b.stm = attackedBy b.abs b.stm.other (hsq b.stm 4) := inCheck_eq hK
    rw [hcore, hic, ksCastle_empty hT hs, ← pathClear_ks, ← hL, ← hL]
    constructor
    · rintro ⟨a1, a2, a3, a4, a5⟩
      refine ⟨a1, ?_, a2, a5, a3, a4⟩
      unfold Pos.has; rw [(hback a1).2]; exact beq_self_eq_true _
    · rintro ⟨a1, _, a2, a5, a3, a4⟩
      exact ⟨a1, a2, a3, a4, a5⟩
  · constructor
    · rintro ⟨a1, _⟩; exact absurd (hback a1).1 hke
    · intro hl
      exfalso
      unfold legal at hl
      rw [Bool.and_eq_true, pseudoLegal_king_eq hbk, king_not_two_files hbk (two_right _)] at hl
      simp only [Bool.false_or, Bool.and_eq_true] at hl
      exact hke (castleCond_src hl.1.2)

/-- **castling queenside**: the code's test (right present, `b`, `c`, `d` empty, transit and target
squares pass `legal_king_move`, not in check) is FIDE legality of `O-O-O`, provided the right is backed
by the king and the rook on their home squares.  (The `b`-file square must be empty but may be attacked.) -/
theorem castle_queenside_iff {T : Tables} (hT : TablesOK T) {b : Board} (hs : Struct b) (h1 : OneKing b)
    (hback : b.myCastleRights.qs = true →
      b.kingSquare b.stm = hsq b.stm 4 ∧ b.abs.board (hsq b.stm 0) = some (.rook, b.stm)) :
    (b.myCastleRights.qs = true ∧ b.combined &&& T.qsCastle b.stm = 0#64 ∧
      MoveGen.legalKingMove T b (b.kingSquare b.stm).uleft = true ∧
      MoveGen.legalKingMove T b (b.kingSquare b.stm).uleft.uleft = true ∧
      inCheck b.abs b.stm = false) ↔
    legal b.abs ⟨b.kingSquare b.stm, (b.kingSquare b.stm).uleft.uleft, none⟩ = true := by
  have hK : KingAt b.abs b.abs.stm (b.kingSquare b.stm) := h1.kingAt hs
  have hbk : b.abs.board (b.kingSquare b.stm) = some (.king, b.abs.stm) := h1.board_king hs
  by_cases hke : b.kingSquare b.stm = hsq b.stm 4
  · have hL := fun d => legalKingMove_false_iff hT hs h1 d
    rw [hke] at hK hbk hL ⊢
    rw [(uright_hsq b.stm).2.2.1, (uright_hsq b.stm).2.2.2]
    have hnear := king_not_two_files (t := hsq b.stm 2) hbk (by rw [hsq_file, hsq_file]; decide)
    have hcore : legal b.abs ⟨hsq b.stm 4, hsq b.stm 2, none⟩ = true ↔
        (b.myCastleRights.qs = true ∧ b.abs.has (hsq b.stm 0) .rook b.stm = true ∧
          pathClear b.abs (hsq b.stm 4) (hsq b.stm 0) = true ∧
          attackedBy b.abs b.stm.other (hsq b.stm 4) = false ∧
          attackedBy (kingOn b.abs (hsq b.stm 4) (hsq b.stm 3)) b.stm.other (hsq b.stm 3) = false ∧
          attackedBy (kingOn b.abs (hsq b.stm 4) (hsq b.stm 2)) b.stm.other (hsq b.stm 2) = false) :=
      castle_core (right := b.myCastleRights.qs) hK (castleCond_qs b.abs) hnear
        (fun h => ((pathClear_qs _ _).mp h).2.2) (fun h => ((pathClear_qs _ _).mp h).2.1)
        (apply_castle_qs hbk) (no_between_a _) (fun h => by have := hsq_inj _ h; revert this; decide)
    have hic : inCheck b.abs b.stm = attackedBy b.abs b.stm.other (hsq b.stm 4) := inCheck_eq hK
    rw [hcore, hic, qsCastle_empty hT hs, ← pathClear_qs, ← hL, ← hL]
    constructor
    · rintro ⟨a1, a2, a3, a4, a5⟩
      refine ⟨a1, ?_, a2, a5, a3, a4⟩
      unfold Pos.has; rw [(hback a1).2]; exact beq_self_eq_true _
    · rintro ⟨a1, _, a2, a5, a3, a4⟩
      exact ⟨a1, a2, a3, a4, a5⟩
  · constructor
    · rintro ⟨a1, _⟩; exact absurd (hback a1).1 hke
    · intro hl
      exfalso
      unfold legal at hl
      rw [Bool.and_eq_true, pseudoLegal_king_eq hbk, king_not_two_files hbk (two_left _)] at hl
      simp only [Bool.false_or, Bool.and_eq_true] at hl
      exact hke (castleCond_src hl.1.2)

/-! ### the destination set of the king -/

theorem ite_xor_bit (c : Bool) (x : BB) (s d : Sq) :
    (if c = true then x ^^^ BB.ofSq s else x).getLsbD d.val = (x.getLsbD d.val ^^ (c && decide (d = s))) := by
  cases c
  · simp
  · rw [if_pos rfl, BitVec.getLsbD_xor, BB.has_ofSq]; rfl

/-- the code's kingside castling test -/
def castleKCode (T : Tables) (b : Board) : Bool :=
  (b.myCastleRights.ks && (b.combined &&& T.ksCastle b.stm) == 0#64) &&
    (MoveGen.legalKingMove T b (b.kingSquare b.stm).uright &&
      MoveGen.legalKingMove T b (b.kingSquare b.stm).uright.uright)

/-- the code's queenside castling test -/
def castleQCode (T : Tables) (b : Board) : Bool :=
  (b.myCastleRights.qs && (b.combined &&& T.qsCastle b.stm) == 0#64) &&
    (MoveGen.legalKingMove T b (b.kingSquare b.stm).uleft &&
      MoveGen.legalKingMove T b (b.kingSquare b.stm).uleft.uleft)

theorem destsKing_true (T : Tables) (b : Board) : destsKing T b true = kingSteps T b := rfl

theorem destsKing_false_bit (T : Tables) (b : Board) (d : Sq) :
    (destsKing T b false).getLsbD d.val =
      (((kingSteps T b).getLsbD d.val ^^ (castleKCode T b && decide (d = (b.kingSquare b.stm).uright.uright))) ^^
        (castleQCode T b && decide (d = (b.kingSquare b.stm).uleft.uleft))) := by
  rw [← ite_xor_bit, ← ite_xor_bit]
  unfold destsKing castleKCode castleQCode
  simp only [Bool.not_false, if_true]
  cases (b.myCastleRights.ks && (b.combined &&& T.ksCastle b.stm) == 0#64) <;>
  cases (MoveGen.legalKingMove T b (b.kingSquare b.stm).uright &&
      MoveGen.legalKingMove T b (b.kingSquare b.stm).uright.uright) <;>
  cases (b.myCastleRights.qs && (b.combined &&& T.qsCastle b.stm) == 0#64) <;>
  cases (MoveGen.legalKingMove T b (b.kingSquare b.stm).uleft &&
      MoveGen.legalKingMove T b (b.kingSquare b.stm).uleft.uleft) <;> rfl

theorem kingSteps_iff {T : Tables} (hT : TablesOK T) {b : Board} (hs : Struct b) (h1 : OneKing b) (d : Sq) :
    (kingSteps T b).getLsbD d.val = true ↔
      (T.king (b.kingSquare b.stm)).getLsbD d.val = true ∧
        legal b.abs ⟨b.kingSquare b.stm, d, none⟩ = true := by
  rw [mem_kingSteps]
  simp only [Bool.and_eq_true, Bool.not_eq_true']
  constructor
  · rintro ⟨⟨a1, a2⟩, a3⟩
    exact ⟨a1, (king_step_legal_iff hT hs h1 d a1 a2).mp a3⟩
  · rintro ⟨a1, a2⟩
    have hbk : b.abs.board (b.kingSquare b.stm) = some (.king, b.abs.stm) := h1.board_king hs
    have hown : (b.colorCombined b.stm).getLsbD d.val = false := by
      have hl := a2
      unfold legal at hl
      rw [Bool.and_eq_true, pseudoLegal_king_eq hbk, Bool.and_eq_true, bne_iff_ne] at hl
      cases hh : (b.colorCombined b.stm).getLsbD d.val with
      | false => rfl
      | true => exact absurd ((colorAt_own_iff hs d b.stm).mpr hh) hl.1.1
    exact ⟨⟨a1, hown⟩, (king_step_legal_iff hT hs h1 d a1 hown).mpr a2⟩

/-- a legal king move is a king step or satisfies the castling clause -/
theorem legal_king_cases {T : Tables} (hT : TablesOK T) {b : Board} (hs : Struct b) (h1 : OneKing b) {d : Sq}
    (hl : legal b.abs ⟨b.kingSquare b.stm, d, none⟩ = true) :
    (T.king (b.kingSquare b.stm)).getLsbD d.val = true ∨ castleCond b.abs (b.kingSquare b.stm) d = true := by
  have hbk : b.abs.board (b.kingSquare b.stm) = some (.king, b.abs.stm) := h1.board_king hs
  unfold legal at hl
  rw [Bool.and_eq_true, pseudoLegal_king_eq hbk, Bool.and_eq_true, Bool.or_eq_true] at hl
  rcases hl.1.2 with h | h
  · left
    unfold attacks at h
    simp only [hbk] at h
    rw [hT.king, mem_king_spec]; exact h
  · exact Or.inr h

theorem not_step_two_right {T : Tables} (hT : TablesOK T) (k : Sq) :
    (T.king k).getLsbD k.uright.uright.val = false := by
  rw [hT.king, mem_king]
  have := two_right k
  cases h : decide ((k.uright.uright.file - k.file).natAbs ≤ 1) with
  | false => simp
  | true => have := of_decide_eq_true h; omega

theorem not_step_two_left {T : Tables} (hT : TablesOK T) (k : Sq) :
    (T.king k).getLsbD k.uleft.uleft.val = false := by
  rw [hT.king, mem_king]
  have := two_left k
  cases h : decide ((k.uleft.uleft.file - k.file).natAbs ≤ 1) with
  | false => simp
  | true => have := of_decide_eq_true h; omega

theorem right_ne_left : ∀ k : Sq, k.uright.uright ≠ k.uleft.uleft := by decide

/-- **the king's destination set is exact**: the bitboard pushed by `KingType::legals` (called with
`in_check = ic`, where `ic` says whether the mover is in check) has bit `d` iff the king move to `d`
(step or castling) is legal -/
theorem destsKing_iff {T : Tables} (hT : TablesOK T) {b : Board} (hs : Struct b) (h1 : OneKing b)
    (hbackK : b.myCastleRights.ks = true →
      b.kingSquare b.stm = hsq b.stm 4 ∧ b.abs.board (hsq b.stm 7) = some (.rook, b.stm))
    (hbackQ : b.myCastleRights.qs = true →
      b.kingSquare b.stm = hsq b.stm 4 ∧ b.abs.board (hsq b.stm 0) = some (.rook, b.stm))
    (ic : Bool) (hic : inCheck b.abs b.stm = ic) (d : Sq) :
    (destsKing T b ic).getLsbD d.val = true ↔ legal b.abs ⟨b.kingSquare b.stm, d, none⟩ = true := by
  have hK : KingAt b.abs b.abs.stm (b.kingSquare b.stm) := h1.kingAt hs
  cases ic with
  | true =>
    rw [destsKing_true, kingSteps_iff hT hs h1]
    constructor
    · exact fun h => h.2
    · intro hl
      refine ⟨?_, hl⟩
      rcases legal_king_cases hT hs h1 hl with h | h
      · exact h
      · exfalso
        unfold castleCond at h
        simp only [Bool.and_eq_true] at h
        have hatt : attackedBy b.abs b.stm.other (b.kingSquare b.stm) = false := by
          obtain ⟨_, _, h3⟩ := h
          split at h3
          · simp only [Bool.and_eq_true, Bool.not_eq_true'] at h3
            exact h3.1.1.2
          · cases h3
        have e : inCheck b.abs b.stm = attackedBy b.abs b.stm.other (b.kingSquare b.stm) := inCheck_eq hK
        rw [e, hatt] at hic; cases hic
  | false =>
    have hck : castleKCode T b = true ↔
        legal b.abs ⟨b.kingSquare b.stm, (b.kingSquare b.stm).uright.uright, none⟩ = true := by
      rw [← castle_kingside_iff hT hs h1 hbackK]
      unfold castleKCode
      simp only [Bool.and_eq_true, beq_iff_eq, hic, and_true, and_assoc]
    have hcq : castleQCode T b = true ↔
        legal b.abs ⟨b.kingSquare b.stm, (b.kingSquare b.stm).uleft.uleft, none⟩ = true := by
      rw [← castle_queenside_iff hT hs h1 hbackQ]
      unfold castleQCode
      simp only [Bool.and_eq_true, beq_iff_eq, hic, and_true, and_assoc]
    rw [destsKing_false_bit]
    by_cases e1 : d = (b.kingSquare b.stm).uright.uright
    · subst e1
      have s0 : (kingSteps T b).getLsbD (b.kingSquare b.stm).uright.uright.val = false := by
        rw [mem_kingSteps, not_step_two_right hT]; rfl
      rw [s0, decide_eq_true rfl, decide_eq_false (right_ne_left _), Bool.and_false, Bool.xor_false,
        Bool.false_xor, Bool.and_true]
      exact hck
    · by_cases e2 : d = (b.kingSquare b.stm).uleft.uleft
      · subst e2
        have s0 : (kingSteps T b).getLsbD (b.kingSquare b.stm).uleft.uleft.val = false := by
          rw [mem_kingSteps, not_step_two_left hT]; rfl
        rw [s0, decide_eq_true rfl, decide_eq_false (Ne.symm (right_ne_left _)), Bool.and_false, Bool.xor_false,
          Bool.false_xor, Bool.and_true]
        exact hcq
      · rw [decide_eq_false e1, decide_eq_false e2, Bool.and_false, Bool.and_false, Bool.xor_false,
          Bool.xor_false, kingSteps_iff hT hs h1]
        constructor
        · exact fun h => h.2
        · intro hl
          refine ⟨?_, hl⟩
          rcases legal_king_cases hT hs h1 hl with h | h
          · exact h
          · exfalso
            have hk := castleCond_src h
            have hd := castleCond_dst h
            have hk' : b.kingSquare b.stm = hsq b.stm 4 := hk
            rw [hk', (uright_hsq b.stm).1, (uright_hsq b.stm).2.1] at e1
            rw [hk', (uright_hsq b.stm).2.2.1, (uright_hsq b.stm).2.2.2] at e2
            rcases hd with hd | hd
            · exact e1 hd
            · exact e2 hd


/-! ### the hypotheses, from `Valid` -/

theorem oneKing_of_valid {b : Board} (hs : Struct b) (hv : Valid b.abs = true) : OneKing b := by
  have h := ((Closure.valid_iff _).mp hv).king b.stm
  rw [hs.count_piece_color] at h
  exact h

theorem backed_ks_of_valid {b : Board} (hs : Struct b) (hv : Valid b.abs = true) :
    b.myCastleRights.ks = true →
      b.kingSquare b.stm = hsq b.stm 4 ∧ b.abs.board (hsq b.stm 7) = some (.rook, b.stm) := by
  intro hr
  have hK := (oneKing_of_valid hs hv).kingAt hs
  obtain ⟨h4, h7⟩ := ((Closure.valid_iff _).mp hv).ck b.stm hr
  rw [homeSq_4, Option.any_some] at h4
  rw [homeSq_7, Option.any_some] at h7
  unfold Pos.has at h4 h7
  rw [beq_iff_eq] at h4 h7
  exact ⟨((hK _).mp h4).symm, h7⟩

theorem backed_qs_of_valid {b : Board} (hs : Struct b) (hv : Valid b.abs = true) :
    b.myCastleRights.qs = true →
      b.kingSquare b.stm = hsq b.stm 4 ∧ b.abs.board (hsq b.stm 0) = some (.rook, b.stm) := by
  intro hr
  have hK := (oneKing_of_valid hs hv).kingAt hs
  obtain ⟨h4, h0⟩ := ((Closure.valid_iff _).mp hv).cq b.stm hr
  rw [homeSq_4, Option.any_some] at h4
  rw [homeSq_0, Option.any_some] at h0
  unfold Pos.has at h4 h0
  rw [beq_iff_eq] at h4 h0
  exact ⟨((hK _).mp h4).symm, h0⟩

end KingMoves
end Chess
