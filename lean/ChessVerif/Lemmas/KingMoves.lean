import ChessVerif.Lemmas.GeomBridge
import ChessVerif.Lemmas.Core
import ChessVerif.Lemmas.BitBoard
import ChessVerif.Lemmas.PinCheck3
import ChessVerif.Lemmas.Closure
import ChessVerif.Lemmas.MoveSpec
import ChessVerif.Lemmas.Sane
import ChessVerif.Lemmas.Iter
/-!
# The king part of C01: `legal_king_move`, king steps, castling, the king's destination set

* `legalKingMove_iff` — `KingType::legal_king_move(board, d)` says exactly that `d` is not attacked by
  the enemy once the mover's king is lifted off its square and put on `d`;
* `king_step_legal_iff` — for a king-step destination not holding an own man this is FIDE legality of
  the king step;
* `castle_kingside_iff`, `castle_queenside_iff` — the code's castling test is FIDE legality of the
  castling move;
* `destsKing_iff` — the destination set pushed by `KingType::legals` is exactly the set of legal king
  moves.
-/
namespace Chess
namespace KingMoves

open PinCheck

set_option maxRecDepth 100000

/-! ### the position with the king lifted and put on `d`; the occupancy of `legal_king_move` -/

/-- `p` with the man on `k` (the mover's king) lifted off the board and a king of the side to move
standing on `d`: `d ↦ king`, `k ↦ empty`, every other square as in `p` -/
def kingOn (p : Pos) (k d : Sq) : Pos :=
  { p with board := fun s => if s = d then some (.king, p.stm) else if s = k then none else p.board s }

/-- `board.combined() ^ (kings & mine) | from_square(dest)` -/
def kingOcc (b : Board) (d : Sq) : BB :=
  (b.combined ^^^ (b.kings &&& b.colorCombined b.stm)) ||| BB.ofSq d

/-- the attacker set computed by `legal_king_move` -/
def attackersBB (T : Tables) (b : Board) (d : Sq) : BB :=
  let them := b.colorCombined b.stm.other
  (((T.rookMoves d (kingOcc b d) &&& ((b.rooks ||| b.queens) &&& them)) |||
    (T.bishopMoves d (kingOcc b d) &&& ((b.bishops ||| b.queens) &&& them))) |||
    (T.knight d &&& b.knights &&& them) |||
    (T.king d &&& b.kings &&& them)) |||
    Board.pawnAttacks T d b.stm (b.pawns &&& them)

theorem legalKingMove_eq (T : Tables) (b : Board) (d : Sq) :
    MoveGen.legalKingMove T b d = (attackersBB T b d == 0#64) := rfl

/-! ### the unique king of the mover -/

/-- the mover has exactly one king -/
def OneKing (b : Board) : Prop := (b.kings &&& b.colorCombined b.stm).popcnt = 1

theorem OneKing.bit {b : Board} (h : OneKing b) (s : Sq) :
    (b.kings &&& b.colorCombined b.stm).getLsbD s.val = decide (s = b.kingSquare b.stm) := by
  have e : b.kings &&& b.colorCombined b.stm = BB.ofSq (b.kingSquare b.stm) := (BB.ofSq_toSq _ h).symm
  rw [e, BB.has_ofSq]

theorem OneKing.kingAt {b : Board} (hs : Struct b) (h : OneKing b) :
    KingAt b.abs b.stm (b.kingSquare b.stm) := by
  intro s
  rw [abs_board, hs.content_some_iff, ← Bool.and_eq_true, Board.pbit, Board.cbit, ← BitVec.getLsbD_and]
  show (b.kings &&& b.colorCombined b.stm).getLsbD s.val = true ↔ _
  rw [h.bit]; simp

theorem OneKing.board_king {b : Board} (hs : Struct b) (h : OneKing b) :
    b.abs.board (b.kingSquare b.stm) = some (.king, b.stm) := (h.kingAt hs _).mpr rfl

/-! ### the bits of a square, from its content -/

theorem bits_of_some {b : Board} (hs : Struct b) {x : Sq} {pc : Piece} {c : Color}
    (h : b.content x = some (pc, c)) :
    (∀ q, b.pbit q x.val = decide (q = pc)) ∧ (∀ c', b.cbit c' x.val = decide (c' = c)) := by
  obtain ⟨hp, hc⟩ := (hs.content_some_iff x pc c).mp h
  refine ⟨?_, ?_⟩
  · intro q
    by_cases hq : q = pc
    · subst hq; rw [hp]; simp
    · rw [hs.piece_disj x.val pc q (Ne.symm hq) hp]; simp [hq]
  · intro c'
    by_cases hq : c' = c
    · subst hq; rw [hc]; simp
    · rw [decide_eq_false hq]
      cases c <;> cases c'
      · exact absurd rfl hq
      · exact hs.color_disj x.val hc
      · cases hw : b.cbit .white x.val with
        | false => rfl
        | true => have := hs.color_disj x.val hw; rw [← cbit_black, hc] at this; cases this
      · exact absurd rfl hq

theorem bits_of_none {b : Board} (hs : Struct b) {x : Sq} (h : b.content x = none) :
    (∀ q, b.pbit q x.val = false) ∧ (∀ c', b.cbit c' x.val = false) := by
  have he := (hs.content_none_iff x).mp h
  obtain ⟨h1, h2, h3⟩ := hs.empty_bits x.val he
  exact ⟨h1, fun c' => by cases c' <;> assumption⟩

/-! ### the occupancy of `legal_king_move` is the emptiness of `kingOn` -/

theorem kingOn_board (p : Pos) (k d s : Sq) :
    (kingOn p k d).board s = if s = d then some (.king, p.stm) else if s = k then none else p.board s := rfl

theorem kingOcc_has {b : Board} (hs : Struct b) (h1 : OneKing b) (d z : Sq) :
    (kingOcc b d).has z = !(kingOn b.abs (b.kingSquare b.stm) d).empty z := by
  unfold kingOcc BB.has Pos.empty
  rw [BitVec.getLsbD_or, BitVec.getLsbD_xor, h1.bit, BB.has_ofSq, kingOn_board]
  by_cases hd : z = d
  · simp [hd]
  · by_cases hk : z = b.kingSquare b.stm
    · subst hk
      have hc : b.combined.getLsbD (b.kingSquare b.stm).val = true := by
        cases hh : b.combined.getLsbD (b.kingSquare b.stm).val with
        | true => rfl
        | false =>
          have := (hs.content_none_iff _).mpr hh
          rw [← abs_board, h1.board_king hs] at this; cases this
      simp [hd, hc]
    · simp only [hd, hk, if_false, decide_false, Bool.xor_false, Bool.or_false]
      rw [abs_board]
      cases hc : b.content z with
      | none => rw [(hs.content_none_iff z).mp hc]; rfl
      | some v =>
        cases hh : b.combined.getLsbD z.val with
        | true => rfl
        | false => rw [(hs.content_none_iff z).mpr hh] at hc; cases hc

theorem slides_kingOn {b : Board} (hs : Struct b) (h1 : OneKing b) (ds : List Dir) (x d : Sq) :
    slides ds (kingOn b.abs (b.kingSquare b.stm) d) x d =
      (Geom.sliderWalk ds x (kingOcc b d)).getLsbD d.val := by
  rw [mem_sliderWalk_gen]
  unfold slides pathClear
  congr 2
  funext z
  rw [kingOcc_has hs h1, Bool.not_not]

theorem rookWalk_kingOn {b : Board} (hs : Struct b) (h1 : OneKing b) (x d : Sq) :
    (Geom.rookWalk d (kingOcc b d)).getLsbD x.val =
      slides rookDirs (kingOn b.abs (b.kingSquare b.stm) d) x d := by
  rw [slides_kingOn hs h1, mem_rookWalk_symm]; rfl

theorem bishopWalk_kingOn {b : Board} (hs : Struct b) (h1 : OneKing b) (x d : Sq) :
    (Geom.bishopWalk d (kingOcc b d)).getLsbD x.val =
      slides bishopDirs (kingOn b.abs (b.kingSquare b.stm) d) x d := by
  rw [slides_kingOn hs h1, mem_bishopWalk_symm]; rfl

theorem slides_allDirs (p : Pos) (a b : Sq) :
    slides allDirs p a b = (slides rookDirs p a b || slides bishopDirs p a b) := by
  unfold slides
  rw [aligned_allDirs]
  cases aligned rookDirs a b <;> cases aligned bishopDirs a b <;> cases pathClear p a b <;> rfl

/-! ### `legal_king_move`, square by square -/

theorem kingOn_colorAt (p : Pos) (k d x : Sq) :
    (kingOn p k d).colorAt x = if x = d then some p.stm else if x = k then none else p.colorAt x := by
  unfold Pos.colorAt
  rw [kingOn_board]
  by_cases h1 : x = d
  · simp [h1]
  · by_cases h2 : x = k
    · simp [h2]
    · simp [h1, h2]

theorem other_beq (c : Color) : (some c == some c.other) = false := by cases c <;> rfl

/-- the enemy men of `kingOn`: the enemy men of the board, except one standing on `d` -/
theorem kingOn_enemy {b : Board} (hs : Struct b) (h1 : OneKing b) (d x : Sq) :
    ((kingOn b.abs (b.kingSquare b.stm) d).colorAt x == some b.stm.other) =
      (decide (x ≠ d) && (b.colorCombined b.stm.other).getLsbD x.val) := by
  rw [kingOn_colorAt]
  by_cases hd : x = d
  · rw [if_pos hd]; simp [hd]; exact fun h => Color.other_ne b.stm h.symm
  · rw [if_neg hd]
    by_cases hk : x = b.kingSquare b.stm
    · rw [if_pos hk]
      have hb := h1.board_king hs
      rw [abs_board] at hb
      have := (bits_of_some hs hb).2 b.stm.other
      rw [hk]
      simp only [Board.cbit] at this
      rw [this]
      simp [Color.other_ne]
    · rw [if_neg hk]
      unfold Pos.colorAt
      rw [abs_board]
      cases hc : b.content x with
      | none =>
        have := (bits_of_none hs hc).2 b.stm.other
        simp only [Board.cbit] at this
        rw [this]; simp
      | some v =>
        obtain ⟨pc, c⟩ := v
        have := (bits_of_some hs hc).2 b.stm.other
        simp only [Board.cbit] at this
        rw [this]
        simp only [Option.map_some, hd, ne_eq, not_false_eq_true, decide_true, Bool.true_and]
        cases c <;> cases b.stm <;> rfl

theorem slides_self (ds : List Dir) (p : Pos) (a : Sq) : slides ds p a a = false := by
  unfold slides; rw [aligned_irrefl]; rfl

theorem attackers_bit {T : Tables} (hT : TablesOK T) {b : Board} (hs : Struct b) (h1 : OneKing b) (d x : Sq) :
    (attackersBB T b d).getLsbD x.val =
      ((kingOn b.abs (b.kingSquare b.stm) d).colorAt x == some b.stm.other &&
        attacks (kingOn b.abs (b.kingSquare b.stm) d) x d) := by
  unfold attackersBB Board.pawnAttacks
  simp only [BitVec.getLsbD_or, BitVec.getLsbD_and, hT.rookMoves, hT.bishopMoves, hT.knight, hT.king,
    hT.pawnAttacks, rookWalk_kingOn hs h1, bishopWalk_kingOn hs h1, kingOn_enemy hs h1]
  cases hthem : (b.colorCombined b.stm.other).getLsbD x.val with
  | false => simp
  | true =>
    by_cases hd : x = d
    · subst hd
      simp only [slides_self, mem_king, mem_knight, mem_pawnAttacks]
      simp
    · have hk : x ≠ b.kingSquare b.stm := by
        intro hk
        have hb := h1.board_king hs
        rw [abs_board] at hb
        have := (bits_of_some hs hb).2 b.stm.other
        simp only [Board.cbit] at this
        rw [← hk, hthem] at this
        simp [Color.other_ne] at this
      cases hc : b.content x with
      | none =>
        have := (bits_of_none hs hc).2 b.stm.other
        simp only [Board.cbit] at this
        rw [this] at hthem; cases hthem
      | some v =>
        obtain ⟨pc, c⟩ := v
        obtain ⟨hp, hcc⟩ := bits_of_some hs hc
        have e1 : b.pawns.getLsbD x.val = decide (Piece.pawn = pc) := hp .pawn
        have e2 : b.knights.getLsbD x.val = decide (Piece.knight = pc) := hp .knight
        have e3 : b.bishops.getLsbD x.val = decide (Piece.bishop = pc) := hp .bishop
        have e4 : b.rooks.getLsbD x.val = decide (Piece.rook = pc) := hp .rook
        have e5 : b.queens.getLsbD x.val = decide (Piece.queen = pc) := hp .queen
        have e6 : b.kings.getLsbD x.val = decide (Piece.king = pc) := hp .king
        have hbx : (kingOn b.abs (b.kingSquare b.stm) d).board x = some (pc, c) := by
          rw [kingOn_board, if_neg hd, if_neg hk, abs_board, hc]
        unfold attacks
        rw [hbx]
        simp only [e1, e2, e3, e4, e5, e6, decide_eq_true hd, Bool.true_and, Bool.and_true]
        have hce : c = b.stm.other := by
          have := hcc b.stm.other
          simp only [Board.cbit] at this
          rw [hthem] at this
          exact (of_decide_eq_true this.symm).symm
        subst hce
        cases pc <;>
          simp only [reduceCtorEq, decide_true, decide_false, Bool.and_true, Bool.and_false, Bool.or_false,
            Bool.false_or, Bool.or_self, Bool.or_true]
        · rw [mem_pawnAttacks_symm, mem_pawnAttacks]
        · rw [mem_knight_symm, mem_knight]
        · exact (slides_allDirs _ _ _).symm
        · rw [mem_king_symm, mem_king_spec]

/-- **`legal_king_move` is exact**: `legal_king_move(board, d)` holds iff no enemy man attacks `d` in
the position where the mover's king has been lifted off its square and stands on `d` -/
theorem legalKingMove_iff {T : Tables} (hT : TablesOK T) {b : Board} (hs : Struct b) (h1 : OneKing b) (d : Sq) :
    MoveGen.legalKingMove T b d = true ↔
      attackedBy (kingOn b.abs (b.kingSquare b.stm) d) b.stm.other d = false := by
  rw [legalKingMove_eq, beq_iff_eq, BB.eq_zero_iff]
  unfold attackedBy
  rw [← Bool.not_eq_true, allSq_any]
  simp only [attackers_bit hT hs h1]
  constructor
  · intro h ⟨x, hx⟩; rw [h x] at hx; cases hx
  · intro h x
    cases hx : ((kingOn b.abs (b.kingSquare b.stm) d).colorAt x == some b.stm.other &&
        attacks (kingOn b.abs (b.kingSquare b.stm) d) x d) with
    | false => rfl
    | true => exact absurd ⟨x, hx⟩ h

end KingMoves
end Chess
