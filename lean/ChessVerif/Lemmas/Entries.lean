import ChessVerif.Lemmas.Iter
import ChessVerif.Lemmas.BitBoard
import ChessVerif.Lemmas.Core
import ChessVerif.Props.C14
/-!
# The entry list of `enumerate_moves`, structurally

A description of `MoveGen.enumerate T b` and of `Board.legalMoves T b` that mentions no chess
geometry: which entries `(source, destination set, promotion flag)` the generator pushes, in terms
of the bits of the board and of the per-source destination sets *exactly as the code computes them*
(`destsPawn`, `destsKnight`, `destsGeneric`, `destsKing`, and the en-passant entries).

* `enumerate_eq` — the entry list as an explicit concatenation of sections, in generator order;
* `mem_enumerate_iff` — membership in the entry list;
* `mem_legalMoves_iff`, `mem_legalMoves_cases` — membership in the generated move list;
* `legalMoves_nodup` — no move is generated twice;
* `legal_query_iff`, `enumerate_moves_eq` — `Board::legal` agrees with the generator.
-/
namespace Chess
namespace Entries

open MoveGen Iter

/-! ### list helpers -/

/-- a loop that conditionally appends one element per iteration -/
theorem foldl_cond_append {α β : Type} (c : α → Prop) [DecidablePred c] (f : α → β) (xs : List α) :
    ∀ init : List β, xs.foldl (fun l x => if c x then l ++ [f x] else l) init =
      init ++ (xs.filter fun x => decide (c x)).map f := by
  induction xs with
  | nil => intro init; simp
  | cons a as ih =>
    intro init
    rw [List.foldl_cons, ih, List.filter_cons]
    by_cases ha : c a
    · simp [ha]
    · simp [ha]

/-- the entries `f s` with a destination, for the squares `s` of `xs` in order -/
def pushList (f : Sq → Entry) (xs : List Sq) : List Entry :=
  (xs.filter fun s => decide ((f s).bb ≠ 0#64)).map f

/-- **the workhorse**: `for src in xs { if f(src).bb != EMPTY { list.push(f(src)) } }` -/
theorem foldl_pushIf (f : Sq → Entry) (xs : List Sq) (init : List Entry) :
    xs.foldl (fun l src => pushIf l (f src)) init = init ++ pushList f xs := by
  unfold pushList
  rw [← foldl_cond_append (fun s => (f s).bb ≠ 0#64) f xs init]
  rfl

theorem pushList_congr {f g : Sq → Entry} {xs : List Sq} (h : ∀ s ∈ xs, f s = g s) :
    pushList f xs = pushList g xs := by
  unfold pushList
  induction xs with
  | nil => rfl
  | cons a as ih =>
    have ha := h a (by simp)
    have ih' := ih (fun s hs => h s (by simp [hs]))
    simp only [List.filter_cons, ha]
    split
    · simp only [List.map_cons, ha, ih']
    · exact ih'

theorem pushList_eq_nil {f : Sq → Entry} {xs : List Sq} (h : ∀ s ∈ xs, (f s).bb = 0#64) :
    pushList f xs = [] := by
  unfold pushList
  rw [List.map_eq_nil_iff, List.filter_eq_nil_iff]
  intro s hs
  simp [h s hs]

theorem mem_pushList {f : Sq → Entry} {xs : List Sq} {e : Entry} :
    e ∈ pushList f xs ↔ ∃ s ∈ xs, (f s).bb ≠ 0#64 ∧ e = f s := by
  unfold pushList
  simp only [List.mem_map, List.mem_filter, decide_eq_true_eq]
  constructor
  · rintro ⟨s, ⟨h1, h2⟩, h3⟩; exact ⟨s, h1, h2, h3.symm⟩
  · rintro ⟨s, h1, h2, h3⟩; exact ⟨s, ⟨h1, h2⟩, h3.symm⟩

theorem toList_eq_sqsOf (x : BB) : x.toList = sqsOf x := BB.toList_exact x

/-! ### the destination sets, exactly as the code computes them -/

/-- `!board.color_combined(color)`: the mask `enumerate_moves` passes to every `legals` -/
def ownMask (b : Board) : BB := ~~~(b.colorCombined b.stm)

/-- the men of kind `p` of the side to move -/
def own (b : Board) (p : Piece) : BB := b.pieces p &&& b.colorCombined b.stm

/-- destinations of the bishop / rook / queen (generic `legals`) standing on `src` -/
def destsGeneric (T : Tables) (b : Board) (p : Piece) (inCheck : Bool) (src : Sq) : BB :=
  if b.pinned.getLsbD src.val then
    (if inCheck then 0#64
     else pseudoLegals T p src b.stm b.combined (ownMask b) &&& T.line src (b.kingSquare b.stm))
  else pseudoLegals T p src b.stm b.combined (ownMask b) &&& checkMask T b inCheck

/-- destinations of the ordinary (non-en-passant) entry of the pawn on `src`; the pinned pawn uses
`line(ksq, src)` -/
def destsPawn (T : Tables) (b : Board) (inCheck : Bool) (src : Sq) : BB :=
  if b.pinned.getLsbD src.val then
    (if inCheck then 0#64
     else pseudoLegals T .pawn src b.stm b.combined (ownMask b) &&& T.line (b.kingSquare b.stm) src)
  else pseudoLegals T .pawn src b.stm b.combined (ownMask b) &&& checkMask T b inCheck

/-- destinations of the knight on `src`: nothing when pinned; in check the check mask joins the mask -/
def destsKnight (T : Tables) (b : Board) (inCheck : Bool) (src : Sq) : BB :=
  if b.pinned.getLsbD src.val then 0#64
  else if inCheck then
    pseudoLegals T .knight src b.stm b.combined
      (ownMask b &&& (T.between b.checkers.toSq (b.kingSquare b.stm) ^^^ b.checkers))
  else pseudoLegals T .knight src b.stm b.combined (ownMask b)

/-- the king steps that survive `legal_king_move`: the first loop of `KingType::legals` -/
def kingSteps (T : Tables) (b : Board) : BB :=
  let moves := pseudoLegals T .king (b.kingSquare b.stm) b.stm b.combined (ownMask b)
  moves.toList.foldl (fun mv dest =>
    if !legalKingMove T b dest then mv ^^^ BB.ofSq dest else mv) moves

/-- destinations of the king: the value `moves` that `KingType::legals` pushes -/
def destsKing (T : Tables) (b : Board) (inCheck : Bool) : BB :=
  let ksq := b.kingSquare b.stm
  let moves := kingSteps T b
  if !inCheck then
    let moves :=
      if b.myCastleRights.ks && (b.combined &&& T.ksCastle b.stm) == 0#64 then
        let middle := ksq.uright
        let right := middle.uright
        if legalKingMove T b middle && legalKingMove T b right then moves ^^^ BB.ofSq right else moves
      else moves
    if b.myCastleRights.qs && (b.combined &&& T.qsCastle b.stm) == 0#64 then
      let middle := ksq.uleft
      let left := middle.uleft
      if legalKingMove T b middle && legalKingMove T b left then moves ^^^ BB.ofSq left else moves
    else moves
  else moves

/-- the destination set of the man of kind `p` on `src` (for the king `src` is irrelevant) -/
def dests (T : Tables) (b : Board) (inCheck : Bool) (p : Piece) (src : Sq) : BB :=
  match p with
  | .pawn => destsPawn T b inCheck src
  | .knight => destsKnight T b inCheck src
  | .king => destsKing T b inCheck
  | p => destsGeneric T b p inCheck src

/-- the promotion flag of the entry of the man of kind `p` on `src` -/
def promoFlag (b : Board) (p : Piece) (src : Sq) : Bool :=
  match p with
  | .pawn => decide (src.getRank = b.stm.seventhRank)
  | _ => false

/-- the entry of the man of kind `p` on `src` -/
def entryOf (T : Tables) (b : Board) (inCheck : Bool) (p : Piece) (src : Sq) : Entry :=
  ⟨src, dests T b inCheck p src, promoFlag b p src⟩

/-- the destination square of every en-passant capture -/
def epDest (b : Board) (epSq : Sq) : Sq := epSq.uforward b.stm

/-- the pawns that stand beside the en-passant pawn -/
def epSources (T : Tables) (b : Board) (epSq : Sq) : BB :=
  T.ranks epSq.getRank &&& T.adjFiles epSq.getFile &&& own b .pawn

def epEntry (b : Board) (epSq src : Sq) : Entry := ⟨src, BB.ofSq (epDest b epSq), false⟩

/-! ### the sections of the entry list -/

/-- the entries of the men of kind `p`: unpinned men first, then pinned men, each in square order -/
def secPiece (T : Tables) (b : Board) (inCheck : Bool) (p : Piece) : List Entry :=
  pushList (entryOf T b inCheck p) (sqsOf (own b p &&& ~~~b.pinned)) ++
  pushList (entryOf T b inCheck p) (sqsOf (own b p &&& b.pinned))

/-- the en-passant entries -/
def secEp (T : Tables) (b : Board) : List Entry :=
  match b.ep with
  | none => []
  | some epSq =>
    ((sqsOf (epSources T b epSq)).filter fun src =>
      decide (legalEpMove T b src (epDest b epSq) = some true)).map (epEntry b epSq)

/-- the king entry -/
def secKing (T : Tables) (b : Board) (inCheck : Bool) : List Entry :=
  pushList (fun _ => ⟨b.kingSquare b.stm, destsKing T b inCheck, false⟩) [b.kingSquare b.stm]

/-- all sections when at most one man gives check -/
def secAll (T : Tables) (b : Board) (inCheck : Bool) : List Entry :=
  secPiece T b inCheck .pawn ++ secEp T b ++ secPiece T b inCheck .knight ++
  secPiece T b inCheck .bishop ++ secPiece T b inCheck .rook ++ secPiece T b inCheck .queen ++
  secKing T b inCheck

/-! ### each `legals` appends its section -/

theorem pinned_of_mem {x pinned : BB} {s : Sq} (h : s ∈ sqsOf (x &&& pinned)) :
    pinned.getLsbD s.val = true := by
  rw [mem_sqsOf, BitVec.getLsbD_and, Bool.and_eq_true] at h
  exact h.2

theorem unpinned_of_mem {x pinned : BB} {s : Sq} (h : s ∈ sqsOf (x &&& ~~~pinned)) :
    pinned.getLsbD s.val = false := by
  rw [mem_sqsOf, BitVec.getLsbD_and, Bool.and_eq_true, BitVec.getLsbD_not] at h
  simpa using h.2

theorem legalsGeneric_eq (T : Tables) (b : Board) (p : Piece)
    (hp : p = .bishop ∨ p = .rook ∨ p = .queen) (ic : Bool) (l : List Entry) :
    legalsGeneric T p ic l b (ownMask b) = l ++ secPiece T b ic p := by
  have hd : ∀ s, dests T b ic p s = destsGeneric T b p ic s := by
    intro s; rcases hp with h | h | h <;> subst h <;> rfl
  have hf : ∀ s, promoFlag b p s = false := by
    intro s; rcases hp with h | h | h <;> subst h <;> rfl
  have h1 : pushList (fun src => ⟨src, pseudoLegals T p src b.stm b.combined (ownMask b) &&& checkMask T b ic, false⟩)
      (sqsOf (own b p &&& ~~~b.pinned)) = pushList (entryOf T b ic p) (sqsOf (own b p &&& ~~~b.pinned)) := by
    apply pushList_congr
    intro s hs
    unfold entryOf
    rw [hd, hf]
    unfold destsGeneric
    rw [unpinned_of_mem hs]
    rfl
  unfold legalsGeneric secPiece
  simp only []
  rw [toList_eq_sqsOf, toList_eq_sqsOf,
    foldl_pushIf (fun src => ⟨src, pseudoLegals T p src b.stm b.combined (ownMask b) &&& checkMask T b ic, false⟩)]
  show (if (!ic) = true then _ else _) = _
  rw [show (b.pieces p &&& b.colorCombined b.stm) = own b p from rfl, h1]
  cases ic with
  | false =>
    simp only [Bool.not_false, if_true]
    rw [foldl_pushIf (fun src => ⟨src, pseudoLegals T p src b.stm b.combined (ownMask b) &&&
      T.line src (b.kingSquare b.stm), false⟩), List.append_assoc]
    congr 2
    apply pushList_congr
    intro s hs
    unfold entryOf
    rw [hd, hf]
    unfold destsGeneric
    rw [pinned_of_mem hs]
    rfl
  | true =>
    simp only [Bool.not_true, Bool.false_eq_true, if_false]
    rw [pushList_eq_nil (f := entryOf T b true p) (xs := sqsOf (own b p &&& b.pinned)), List.append_nil]
    intro s hs
    unfold entryOf
    rw [hd]
    unfold destsGeneric
    rw [pinned_of_mem hs]
    rfl

theorem legalsKnight_eq (T : Tables) (b : Board) (ic : Bool) (l : List Entry) :
    legalsKnight T ic l b (ownMask b) = l ++ secPiece T b ic .knight := by
  have h2 : pushList (entryOf T b ic .knight) (sqsOf (own b .knight &&& b.pinned)) = [] := by
    apply pushList_eq_nil
    intro s hs
    show destsKnight T b ic s = 0#64
    unfold destsKnight
    rw [pinned_of_mem hs]
    rfl
  unfold legalsKnight secPiece
  rw [h2, List.append_nil]
  simp only []
  rw [show (b.knights &&& b.colorCombined b.stm) = own b .knight from rfl]
  cases ic with
  | true =>
    simp only [if_true]
    rw [toList_eq_sqsOf, foldl_pushIf (fun src => ⟨src, pseudoLegals T .knight src b.stm b.combined
      (ownMask b &&& (T.between b.checkers.toSq (b.kingSquare b.stm) ^^^ b.checkers)), false⟩)]
    congr 1
    apply pushList_congr
    intro s hs
    show _ = (⟨s, destsKnight T b true s, false⟩ : Entry)
    unfold destsKnight
    rw [unpinned_of_mem hs]
    rfl
  | false =>
    simp only [Bool.false_eq_true, if_false]
    rw [toList_eq_sqsOf, foldl_pushIf (fun src => ⟨src, pseudoLegals T .knight src b.stm b.combined
      (ownMask b), false⟩)]
    congr 1
    apply pushList_congr
    intro s hs
    show _ = (⟨s, destsKnight T b false s, false⟩ : Entry)
    unfold destsKnight
    rw [unpinned_of_mem hs]
    rfl

theorem legalsKing_eq (T : Tables) (b : Board) (ic : Bool) (l : List Entry) :
    legalsKing T ic l b (ownMask b) = l ++ secKing T b ic := by
  unfold secKing pushList
  show pushIf l ⟨b.kingSquare b.stm, destsKing T b ic, false⟩ = _
  unfold pushIf
  by_cases h : destsKing T b ic ≠ 0#64
  · simp [h]
  · simp [h]

/-- the ordinary pawn entries (the first two loops of `PawnType::legals`) -/
theorem pawnLoops_eq (T : Tables) (b : Board) (ic : Bool) (l : List Entry) :
    (if (!ic) = true then
      (own b .pawn &&& b.pinned).toList.foldl (fun l src =>
        pushIf l ⟨src, pseudoLegals T .pawn src b.stm b.combined (ownMask b) &&& T.line (b.kingSquare b.stm) src,
          src.getRank = b.stm.seventhRank⟩)
        ((own b .pawn &&& ~~~b.pinned).toList.foldl (fun l src =>
          pushIf l ⟨src, pseudoLegals T .pawn src b.stm b.combined (ownMask b) &&& checkMask T b ic,
            src.getRank = b.stm.seventhRank⟩) l)
     else (own b .pawn &&& ~~~b.pinned).toList.foldl (fun l src =>
          pushIf l ⟨src, pseudoLegals T .pawn src b.stm b.combined (ownMask b) &&& checkMask T b ic,
            src.getRank = b.stm.seventhRank⟩) l) = l ++ secPiece T b ic .pawn := by
  have h1 : pushList (fun src => ⟨src, pseudoLegals T .pawn src b.stm b.combined (ownMask b) &&& checkMask T b ic,
        src.getRank = b.stm.seventhRank⟩)
      (sqsOf (own b .pawn &&& ~~~b.pinned)) = pushList (entryOf T b ic .pawn) (sqsOf (own b .pawn &&& ~~~b.pinned)) := by
    apply pushList_congr
    intro s hs
    show _ = (⟨s, destsPawn T b ic s, decide (s.getRank = b.stm.seventhRank)⟩ : Entry)
    unfold destsPawn
    rw [unpinned_of_mem hs]
    rfl
  unfold secPiece
  rw [toList_eq_sqsOf, toList_eq_sqsOf,
    foldl_pushIf (fun src => ⟨src, pseudoLegals T .pawn src b.stm b.combined (ownMask b) &&& checkMask T b ic,
        src.getRank = b.stm.seventhRank⟩), h1]
  cases ic with
  | false =>
    simp only [Bool.not_false, if_true]
    rw [foldl_pushIf (fun src => ⟨src, pseudoLegals T .pawn src b.stm b.combined (ownMask b) &&&
      T.line (b.kingSquare b.stm) src, src.getRank = b.stm.seventhRank⟩), List.append_assoc]
    congr 2
    apply pushList_congr
    intro s hs
    show _ = (⟨s, destsPawn T b false s, decide (s.getRank = b.stm.seventhRank)⟩ : Entry)
    unfold destsPawn
    rw [pinned_of_mem hs]
    rfl
  | true =>
    simp only [Bool.not_true, Bool.false_eq_true, if_false]
    rw [pushList_eq_nil (f := entryOf T b true .pawn) (xs := sqsOf (own b .pawn &&& b.pinned)), List.append_nil]
    intro s hs
    show destsPawn T b true s = 0#64
    unfold destsPawn
    rw [pinned_of_mem hs]
    rfl

theorem legalsPawn_eq (T : Tables) (b : Board) (ic : Bool) (l : List Entry) :
    legalsPawn T ic l b (ownMask b) = l ++ secPiece T b ic .pawn ++ secEp T b := by
  unfold legalsPawn
  simp only []
  have hl := pawnLoops_eq T b ic l
  unfold own at hl
  simp only [Board.pieces] at hl
  rw [hl]
  unfold secEp
  cases hep : b.ep with
  | none => simp
  | some epSq =>
    simp only []
    rw [toList_eq_sqsOf, foldl_cond_append (fun src => legalEpMove T b src (epSq.uforward b.stm) = some true)
      (fun src => (⟨src, BB.ofSq (epSq.uforward b.stm), false⟩ : Entry))]
    rfl

/-- **the entry list**, section by section, in the three check regimes -/
theorem enumerate_eq (T : Tables) (b : Board) :
    enumerate T b =
      if b.checkers = 0#64 then secAll T b false
      else if b.checkers.popcnt = 1 then secAll T b true
      else secKing T b true := by
  have hall : ∀ ic, legalsKing T ic (legalsGeneric T .queen ic (legalsGeneric T .rook ic
      (legalsGeneric T .bishop ic (legalsKnight T ic (legalsPawn T ic [] b (ownMask b)) b (ownMask b))
        b (ownMask b)) b (ownMask b)) b (ownMask b)) b (ownMask b) = secAll T b ic := by
    intro ic
    rw [legalsPawn_eq, legalsKnight_eq, legalsGeneric_eq T b .bishop (Or.inl rfl),
      legalsGeneric_eq T b .rook (Or.inr (Or.inl rfl)), legalsGeneric_eq T b .queen (Or.inr (Or.inr rfl)),
      legalsKing_eq, List.nil_append]
    rfl
  unfold enumerate
  simp only []
  split
  · exact hall false
  · split
    · exact hall true
    · have := legalsKing_eq T b true []
      rw [List.nil_append] at this
      exact this

/-! ### membership in the entry list -/

theorem mem_secPiece {T : Tables} {b : Board} {ic : Bool} {p : Piece} {e : Entry} :
    e ∈ secPiece T b ic p ↔ ∃ src : Sq, (own b p).getLsbD src.val = true ∧
      dests T b ic p src ≠ 0#64 ∧ e = entryOf T b ic p src := by
  unfold secPiece
  rw [List.mem_append, mem_pushList, mem_pushList]
  simp only [mem_sqsOf, BitVec.getLsbD_and, BitVec.getLsbD_not, Bool.and_eq_true]
  constructor
  · rintro (⟨s, ⟨h1, _⟩, h2, h3⟩ | ⟨s, ⟨h1, _⟩, h2, h3⟩) <;> exact ⟨s, h1, h2, h3⟩
  · rintro ⟨s, h1, h2, h3⟩
    cases hp : b.pinned.getLsbD s.val with
    | false => exact Or.inl ⟨s, ⟨h1, by rw [hp]; simp [s.isLt]⟩, h2, h3⟩
    | true => exact Or.inr ⟨s, ⟨h1, hp⟩, h2, h3⟩

theorem mem_secEp {T : Tables} {b : Board} {e : Entry} :
    e ∈ secEp T b ↔ ∃ epSq src : Sq, b.ep = some epSq ∧ (epSources T b epSq).getLsbD src.val = true ∧
      legalEpMove T b src (epDest b epSq) = some true ∧ e = epEntry b epSq src := by
  unfold secEp
  cases hep : b.ep with
  | none => simp
  | some epSq =>
    simp only [List.mem_map, List.mem_filter, mem_sqsOf, decide_eq_true_eq, Option.some.injEq]
    constructor
    · rintro ⟨s, ⟨h1, h2⟩, h3⟩; exact ⟨epSq, s, rfl, h1, h2, h3.symm⟩
    · rintro ⟨q, s, hq, h1, h2, h3⟩; subst hq; exact ⟨s, ⟨h1, h2⟩, h3.symm⟩

theorem mem_secKing {T : Tables} {b : Board} {ic : Bool} {e : Entry} :
    e ∈ secKing T b ic ↔ destsKing T b ic ≠ 0#64 ∧ e = ⟨b.kingSquare b.stm, destsKing T b ic, false⟩ := by
  unfold secKing
  rw [mem_pushList]
  simp

/-- `e` is one of the entries pushed when at most one man gives check (`inCheck` = exactly one) -/
def IsEntry (T : Tables) (b : Board) (inCheck : Bool) (e : Entry) : Prop :=
  (∃ (p : Piece) (src : Sq), p ≠ .king ∧ (own b p).getLsbD src.val = true ∧
    dests T b inCheck p src ≠ 0#64 ∧ e = entryOf T b inCheck p src) ∨
  (∃ epSq src : Sq, b.ep = some epSq ∧ (epSources T b epSq).getLsbD src.val = true ∧
    legalEpMove T b src (epDest b epSq) = some true ∧ e = epEntry b epSq src) ∨
  (destsKing T b inCheck ≠ 0#64 ∧ e = ⟨b.kingSquare b.stm, destsKing T b inCheck, false⟩)

theorem mem_secAll {T : Tables} {b : Board} {ic : Bool} {e : Entry} :
    e ∈ secAll T b ic ↔ IsEntry T b ic e := by
  unfold secAll IsEntry
  simp only [List.mem_append, mem_secPiece, mem_secEp, mem_secKing]
  constructor
  · rintro ((((((h | h) | h) | h) | h) | h) | h)
    · obtain ⟨s, h⟩ := h; exact Or.inl ⟨.pawn, s, by decide, h⟩
    · exact Or.inr (Or.inl h)
    · obtain ⟨s, h⟩ := h; exact Or.inl ⟨.knight, s, by decide, h⟩
    · obtain ⟨s, h⟩ := h; exact Or.inl ⟨.bishop, s, by decide, h⟩
    · obtain ⟨s, h⟩ := h; exact Or.inl ⟨.rook, s, by decide, h⟩
    · obtain ⟨s, h⟩ := h; exact Or.inl ⟨.queen, s, by decide, h⟩
    · exact Or.inr (Or.inr h)
  · rintro (⟨p, s, hp, h⟩ | h | h)
    · cases p with
      | pawn => exact Or.inl (Or.inl (Or.inl (Or.inl (Or.inl (Or.inl ⟨s, h⟩)))))
      | knight => exact Or.inl (Or.inl (Or.inl (Or.inl (Or.inr ⟨s, h⟩))))
      | bishop => exact Or.inl (Or.inl (Or.inl (Or.inr ⟨s, h⟩)))
      | rook => exact Or.inl (Or.inl (Or.inr ⟨s, h⟩))
      | queen => exact Or.inl (Or.inr ⟨s, h⟩)
      | king => exact absurd rfl hp
    · exact Or.inl (Or.inl (Or.inl (Or.inl (Or.inl (Or.inr h)))))
    · exact Or.inr h

/-- **membership in the entry list** in the three check regimes -/
theorem mem_enumerate_iff (T : Tables) (b : Board) (e : Entry) :
    e ∈ enumerate T b ↔
      if b.checkers = 0#64 then IsEntry T b false e
      else if b.checkers.popcnt = 1 then IsEntry T b true e
      else destsKing T b true ≠ 0#64 ∧ e = ⟨b.kingSquare b.stm, destsKing T b true, false⟩ := by
  rw [enumerate_eq]
  split
  · exact mem_secAll
  · split
    · exact mem_secAll
    · exact mem_secKing

/-! ### membership in the move list -/

/-- the shape of the promotion field of a move of an entry with promotion flag `promo` -/
def PromoShape (promo : Bool) (m : Move) : Prop :=
  if promo then ∃ q ∈ promotionPieces, m.promo = some q else m.promo = none

theorem getLsbD_allOnes (i : Nat) (hi : i < 64) : (~~~0#64 : BB).getLsbD i = true := by
  simp only [BitVec.getLsbD_not, BitVec.getLsbD_zero, hi]
  simp

/-- a move is generated iff some entry has its source, its destination bit and its promotion shape -/
theorem mem_legalMoves_iff (T : Tables) (b : Board) (m : Move) :
    m ∈ b.legalMoves T ↔ ∃ e ∈ enumerate T b, e.sq = m.src ∧ e.bb.getLsbD m.dst.val = true ∧
      (if e.promo then ∃ q ∈ promotionPieces, m.promo = some q else m.promo = none) := by
  rw [Chess.Props.C14_every_move_once, allMoves, mem_allUnder]
  constructor
  · rintro ⟨e, he, h1, h2, _, h4⟩
    refine ⟨e, he, h1, h2, ?_⟩
    cases hp : e.promo
    · rw [hp] at h4; simpa using h4
    · rw [hp] at h4
      simp only [if_true, List.mem_map] at h4 ⊢
      obtain ⟨q, hq, hq'⟩ := h4
      exact ⟨q, hq, hq'.symm⟩
  · rintro ⟨e, he, h1, h2, h4⟩
    refine ⟨e, he, h1, h2, getLsbD_allOnes _ m.dst.isLt, ?_⟩
    cases hp : e.promo
    · rw [hp] at h4; simpa using h4
    · rw [hp] at h4
      simp only [if_true, List.mem_map] at h4 ⊢
      obtain ⟨q, hq, hq'⟩ := h4
      exact ⟨q, hq, hq'.symm⟩

/-- `m` is one of the moves generated when at most one man gives check -/
def IsMove (T : Tables) (b : Board) (inCheck : Bool) (m : Move) : Prop :=
  (∃ p : Piece, p ≠ .king ∧ (own b p).getLsbD m.src.val = true ∧
    (dests T b inCheck p m.src).getLsbD m.dst.val = true ∧ PromoShape (promoFlag b p m.src) m) ∨
  (∃ epSq : Sq, b.ep = some epSq ∧ (epSources T b epSq).getLsbD m.src.val = true ∧
    legalEpMove T b m.src (epDest b epSq) = some true ∧ m.dst = epDest b epSq ∧ m.promo = none) ∨
  (m.src = b.kingSquare b.stm ∧ (destsKing T b inCheck).getLsbD m.dst.val = true ∧ m.promo = none)

theorem ne_zero_of_bit {x : BB} {i : Nat} (h : x.getLsbD i = true) : x ≠ 0#64 := by
  intro h0; rw [h0] at h; simp at h

theorem ofSq_bit_iff (d t : Sq) : (BB.ofSq d).getLsbD t.val = true ↔ t = d := by
  rw [BB.getLsbD_ofSq, decide_eq_true_eq]
  exact ⟨Fin.ext, fun h => by rw [h]⟩

theorem isMove_iff (T : Tables) (b : Board) (ic : Bool) (m : Move) :
    (∃ e, IsEntry T b ic e ∧ e.sq = m.src ∧ e.bb.getLsbD m.dst.val = true ∧
      (if e.promo then ∃ q ∈ promotionPieces, m.promo = some q else m.promo = none)) ↔ IsMove T b ic m := by
  constructor
  · rintro ⟨e, (⟨p, s, hp, h1, _, he⟩ | ⟨q, s, hq, h1, h2, he⟩ | ⟨_, he⟩), hs, hd, hpr⟩
    · subst he
      have hs' : s = m.src := hs
      subst hs'
      exact Or.inl ⟨p, hp, h1, hd, hpr⟩
    · subst he
      have hs' : s = m.src := hs
      subst hs'
      refine Or.inr (Or.inl ⟨q, hq, h1, h2, (ofSq_bit_iff _ _).mp hd, ?_⟩)
      simpa [epEntry] using hpr
    · subst he
      refine Or.inr (Or.inr ⟨hs.symm, hd, ?_⟩)
      simpa using hpr
  · rintro (⟨p, hp, h1, hd, hpr⟩ | ⟨q, hq, h1, h2, hd, hpr⟩ | ⟨hs, hd, hpr⟩)
    · exact ⟨entryOf T b ic p m.src, Or.inl ⟨p, m.src, hp, h1, ne_zero_of_bit hd, rfl⟩, rfl, hd, hpr⟩
    · refine ⟨epEntry b q m.src, Or.inr (Or.inl ⟨q, m.src, hq, h1, h2, rfl⟩), rfl,
        (ofSq_bit_iff _ _).mpr hd, ?_⟩
      simpa [epEntry] using hpr
    · refine ⟨⟨b.kingSquare b.stm, destsKing T b ic, false⟩, Or.inr (Or.inr ⟨ne_zero_of_bit hd, rfl⟩),
        hs.symm, hd, ?_⟩
      simpa using hpr

/-- **membership in the generated move list**, by the kind of man on the source square -/
theorem mem_legalMoves_cases (T : Tables) (b : Board) (m : Move) :
    m ∈ b.legalMoves T ↔
      if b.checkers = 0#64 then IsMove T b false m
      else if b.checkers.popcnt = 1 then IsMove T b true m
      else m.src = b.kingSquare b.stm ∧ (destsKing T b true).getLsbD m.dst.val = true ∧ m.promo = none := by
  rw [mem_legalMoves_iff]
  simp only [mem_enumerate_iff]
  split
  · rw [← isMove_iff]
  · split
    · rw [← isMove_iff]
    · constructor
      · rintro ⟨e, ⟨_, he⟩, hs, hd, hpr⟩
        subst he
        exact ⟨hs.symm, hd, by simpa using hpr⟩
      · rintro ⟨hs, hd, hpr⟩
        exact ⟨_, ⟨ne_zero_of_bit hd, rfl⟩, hs.symm, hd, by simpa using hpr⟩

/-- under `Struct b` the kind of the man on a square is determined by the bits -/
theorem kind_unique {b : Board} (hs : Struct b) {p q : Piece} {s : Sq}
    (hp : (own b p).getLsbD s.val = true) (hq : (own b q).getLsbD s.val = true) : p = q := by
  unfold own at hp hq
  rw [BitVec.getLsbD_and, Bool.and_eq_true] at hp hq
  apply Classical.byContradiction
  intro hne
  have := hs.piece_disj s.val p q hne hp.1
  rw [Board.pbit, hq.1] at this
  cases this

/-! ### no move is generated twice -/

theorem allSq_nodup : allSq.Nodup := by
  unfold allSq
  exact (List.pairwise_lt_finRange 64).imp (fun h => Fin.ne_of_lt h)

theorem sqsOf_nodup (x : BB) : (sqsOf x).Nodup := by
  unfold sqsOf
  exact allSq_nodup.sublist List.filter_sublist

theorem expand_nodup (promo : Bool) (src d : Sq) : (expand promo src d).Nodup := by
  cases promo <;> simp [expand, promotionPieces]

/-- the moves of one entry are pairwise distinct -/
theorem movesUnder_nodup (e : Entry) (mask : BB) : (movesUnder e mask).Nodup := by
  unfold movesUnder List.Nodup
  rw [List.pairwise_flatMap]
  refine ⟨fun d _ => expand_nodup _ _ _, ?_⟩
  refine (sqsOf_nodup (e.bb &&& mask)).imp ?_
  intro d1 d2 hne x hx y hy hxy
  apply hne
  rw [← (mem_expand hx).2, ← (mem_expand hy).2, hxy]

/-- two entries never yield the same move: different sources, or no common destination -/
def Apart (a c : Entry) : Prop :=
  a.sq = c.sq → ∀ d : Nat, a.bb.getLsbD d = true → c.bb.getLsbD d = true → False

/-- the moves of pairwise-apart entries are pairwise distinct -/
theorem allUnder_nodup {l : List Entry} (h : l.Pairwise Apart) (mask : BB) : (allUnder l mask).Nodup := by
  unfold allUnder List.Nodup
  rw [List.pairwise_flatMap]
  refine ⟨fun e _ => movesUnder_nodup e mask, ?_⟩
  refine h.imp ?_
  intro a c hac x hx y hy hxy
  obtain ⟨hx1, hx2⟩ := mem_movesUnder hx
  obtain ⟨hy1, hy2⟩ := mem_movesUnder hy
  rw [BitVec.getLsbD_and, Bool.and_eq_true] at hx2 hy2
  subst hxy
  exact hac (by rw [← hx1, ← hy1]) x.dst.val hx2.1 hy2.1

theorem apart_of_nodup_sq {l : List Entry} (h : (l.map (·.sq)).Nodup) : l.Pairwise Apart := by
  unfold List.Nodup at h
  rw [List.pairwise_map] at h
  exact h.imp (fun hne heq => absurd heq hne)

theorem map_sq_pushList {f : Sq → Entry} {xs : List Sq} (h : ∀ s ∈ xs, (f s).sq = s) :
    (pushList f xs).map (·.sq) = xs.filter fun s => decide ((f s).bb ≠ 0#64) := by
  unfold pushList
  rw [List.map_map]
  conv => rhs; rw [← List.map_id (xs.filter _)]
  apply List.map_congr_left
  intro s hs
  exact h s (List.mem_filter.mp hs).1

theorem split_nodup (x pinned : BB) : (sqsOf (x &&& ~~~pinned) ++ sqsOf (x &&& pinned)).Nodup := by
  rw [List.nodup_append]
  refine ⟨sqsOf_nodup _, sqsOf_nodup _, ?_⟩
  intro s hs t ht hst
  subst hst
  have h1 := unpinned_of_mem hs
  have h2 := pinned_of_mem ht
  rw [h1] at h2; cases h2

theorem secPiece_apart (T : Tables) (b : Board) (ic : Bool) (p : Piece) :
    (secPiece T b ic p).Pairwise Apart := by
  apply apart_of_nodup_sq
  unfold secPiece
  rw [List.map_append, map_sq_pushList (fun _ _ => rfl), map_sq_pushList (fun _ _ => rfl), ← List.filter_append]
  exact (split_nodup _ _).sublist List.filter_sublist

theorem secEp_apart (T : Tables) (b : Board) : (secEp T b).Pairwise Apart := by
  apply apart_of_nodup_sq
  unfold secEp
  cases b.ep with
  | none => exact List.nodup_nil
  | some q =>
    simp only [List.map_map]
    have : ((fun x : Entry => x.sq) ∘ epEntry b q) = id := rfl
    rw [this, List.map_id]
    exact (sqsOf_nodup _).sublist List.filter_sublist

theorem secKing_apart (T : Tables) (b : Board) (ic : Bool) : (secKing T b ic).Pairwise Apart := by
  apply apart_of_nodup_sq
  unfold secKing
  rw [map_sq_pushList (by intro s hs; simp at hs; rw [hs])]
  exact (List.pairwise_singleton _ _).sublist List.filter_sublist

/-- all sources of the list lie in the set `S` -/
def SrcIn (S : BB) (X : List Entry) : Prop := ∀ e ∈ X, S.getLsbD e.sq.val = true

theorem apart_append {X Y : List Entry} {S S' : BB} (hX : X.Pairwise Apart) (hY : Y.Pairwise Apart)
    (hS : SrcIn S X) (hS' : SrcIn S' Y) (hd : ∀ i, S.getLsbD i = true → S'.getLsbD i = true → False) :
    (X ++ Y).Pairwise Apart := by
  rw [List.pairwise_append]
  refine ⟨hX, hY, ?_⟩
  intro a ha c hc heq
  exact absurd (hS' c hc) (fun h => hd _ (hS a ha) (by rw [heq]; exact h))

theorem srcIn_append {X Y : List Entry} {S S' : BB} (hS : SrcIn S X) (hS' : SrcIn S' Y) :
    SrcIn (S ||| S') (X ++ Y) := by
  intro e he
  rw [BitVec.getLsbD_or]
  rcases List.mem_append.mp he with h | h
  · rw [hS e h]; rfl
  · rw [hS' e h, Bool.or_true]

theorem secPiece_srcIn (T : Tables) (b : Board) (ic : Bool) (p : Piece) :
    SrcIn (own b p) (secPiece T b ic p) := by
  intro e he
  obtain ⟨s, h1, _, h3⟩ := mem_secPiece.mp he
  subst h3; exact h1

theorem secEp_srcIn (T : Tables) (b : Board) : SrcIn (own b .pawn) (secEp T b) := by
  intro e he
  obtain ⟨q, s, _, h1, _, h3⟩ := mem_secEp.mp he
  subst h3
  unfold epSources at h1
  rw [BitVec.getLsbD_and, Bool.and_eq_true] at h1
  exact h1.2

theorem secKing_srcIn (T : Tables) (b : Board) (ic : Bool) (hk : own b .king ≠ 0#64) :
    SrcIn (own b .king) (secKing T b ic) := by
  intro e he
  obtain ⟨_, h⟩ := mem_secKing.mp he
  subst h
  exact getLsbD_toSq _ hk

theorem own_disj {b : Board} (hs : Struct b) {p q : Piece} (hne : p ≠ q) (i : Nat)
    (hp : (own b p).getLsbD i = true) (hq : (own b q).getLsbD i = true) : False := by
  unfold own at hp hq
  rw [BitVec.getLsbD_and, Bool.and_eq_true] at hp hq
  have := hs.piece_disj i p q hne hp.1
  rw [Board.pbit, hq.1] at this
  cases this

/-- the en-passant destination is not among the ordinary destinations of the capturing pawn
(to be discharged from geometry: an empty square on an adjacent file) -/
def NoEpClash (T : Tables) (b : Board) (inCheck : Bool) : Prop :=
  ∀ epSq src : Sq, b.ep = some epSq → (epSources T b epSq).getLsbD src.val = true →
    legalEpMove T b src (epDest b epSq) = some true →
    (destsPawn T b inCheck src).getLsbD (epDest b epSq).val = false

theorem pawnEp_apart (T : Tables) (b : Board) (ic : Bool) (hep : NoEpClash T b ic) :
    (secPiece T b ic .pawn ++ secEp T b).Pairwise Apart := by
  rw [List.pairwise_append]
  refine ⟨secPiece_apart T b ic .pawn, secEp_apart T b, ?_⟩
  intro a ha c hc heq d hda hdc
  obtain ⟨s, _, _, h3⟩ := mem_secPiece.mp ha
  obtain ⟨q, s', hq, h1', h2', h3'⟩ := mem_secEp.mp hc
  subst h3 h3'
  have hss : s = s' := heq
  subst hss
  have hd : d = (epDest b q).val := by
    have : (BB.ofSq (epDest b q)).getLsbD d = true := hdc
    rw [BB.getLsbD_ofSq] at this
    simpa using this
  subst hd
  have := hep q s hq h1' h2'
  have hda' : (destsPawn T b ic s).getLsbD (epDest b q).val = true := hda
  rw [this] at hda'
  cases hda'

theorem secAll_apart (T : Tables) (b : Board) (ic : Bool) (hs : Struct b) (hk : own b .king ≠ 0#64)
    (hep : NoEpClash T b ic) : (secAll T b ic).Pairwise Apart := by
  unfold secAll
  have s1 : SrcIn (own b .pawn) (secPiece T b ic .pawn ++ secEp T b) := by
    intro e he
    rcases List.mem_append.mp he with h | h
    · exact secPiece_srcIn T b ic .pawn e h
    · exact secEp_srcIn T b e h
  have a1 := pawnEp_apart T b ic hep
  have a2 := apart_append a1 (secPiece_apart T b ic .knight) s1 (secPiece_srcIn T b ic .knight)
    (fun i => own_disj hs (by decide) i)
  have s2 := srcIn_append s1 (secPiece_srcIn T b ic .knight)
  have a3 := apart_append a2 (secPiece_apart T b ic .bishop) s2 (secPiece_srcIn T b ic .bishop) (by
    intro i h1 h2
    simp only [BitVec.getLsbD_or, Bool.or_eq_true] at h1
    rcases h1 with h | h <;> exact own_disj hs (by decide) i h h2)
  have s3 := srcIn_append s2 (secPiece_srcIn T b ic .bishop)
  have a4 := apart_append a3 (secPiece_apart T b ic .rook) s3 (secPiece_srcIn T b ic .rook) (by
    intro i h1 h2
    simp only [BitVec.getLsbD_or, Bool.or_eq_true] at h1
    rcases h1 with (h | h) | h <;> exact own_disj hs (by decide) i h h2)
  have s4 := srcIn_append s3 (secPiece_srcIn T b ic .rook)
  have a5 := apart_append a4 (secPiece_apart T b ic .queen) s4 (secPiece_srcIn T b ic .queen) (by
    intro i h1 h2
    simp only [BitVec.getLsbD_or, Bool.or_eq_true] at h1
    rcases h1 with ((h | h) | h) | h <;> exact own_disj hs (by decide) i h h2)
  have s5 := srcIn_append s4 (secPiece_srcIn T b ic .queen)
  exact apart_append a5 (secKing_apart T b ic) s5 (secKing_srcIn T b ic hk) (by
    intro i h1 h2
    simp only [BitVec.getLsbD_or, Bool.or_eq_true] at h1
    rcases h1 with (((h | h) | h) | h) | h <;> exact own_disj hs (by decide) i h h2)

/-- the entries of `enumerate_moves` are pairwise apart -/
theorem enumerate_apart (T : Tables) (b : Board) (hs : Struct b) (hk : own b .king ≠ 0#64)
    (hep : NoEpClash T b (decide (b.checkers ≠ 0#64))) : (enumerate T b).Pairwise Apart := by
  rw [enumerate_eq]
  split
  · rename_i h0
    rw [decide_eq_false (by simpa using h0)] at hep
    exact secAll_apart T b false hs hk hep
  · rename_i h0
    rw [decide_eq_true h0] at hep
    split
    · exact secAll_apart T b true hs hk hep
    · exact secKing_apart T b true

/-- **no move is generated twice** -/
theorem legalMoves_nodup (T : Tables) (b : Board) (hs : Struct b) (hk : own b .king ≠ 0#64)
    (hep : NoEpClash T b (decide (b.checkers ≠ 0#64))) : (b.legalMoves T).Nodup := by
  rw [Chess.Props.C14_every_move_once, allMoves]
  exact allUnder_nodup (enumerate_apart T b hs hk hep) _

/-- a sufficient form of the en-passant hypothesis, independent of the check regime: the destination
is not a pseudo-legal destination of the capturing pawn -/
theorem noEpClash_of_pseudo (T : Tables) (b : Board)
    (h : ∀ epSq src : Sq, b.ep = some epSq → (epSources T b epSq).getLsbD src.val = true →
      (pseudoLegals T .pawn src b.stm b.combined (ownMask b)).getLsbD (epDest b epSq).val = false)
    (ic : Bool) : NoEpClash T b ic := by
  intro q s hq h1 _
  have := h q s hq h1
  unfold destsPawn
  split
  · split
    · simp
    · rw [BitVec.getLsbD_and, this]; rfl
  · rw [BitVec.getLsbD_and, this]; rfl

/-! ### `Board::legal` and the generator -/

theorem legal_query_iff (T : Tables) (b : Board) (m : Move) : b.legal T m = true ↔ m ∈ b.legalMoves T := by
  unfold Board.legal
  exact List.contains_iff_mem

/-- the promotion fields a `ChessMove` can carry: none, or any of the six piece kinds -/
def allPromos : List (Option Piece) := none :: allPieces.map some

/-- every value of `ChessMove`: 64 sources × 64 destinations × (1 + 6) promotion fields -/
def allMoveValues : List Move :=
  allSq.flatMap fun s => allSq.flatMap fun d => allPromos.map fun p => (⟨s, d, p⟩ : Move)

theorem mem_allPromos (p : Option Piece) : p ∈ allPromos := by
  rcases p with _ | p
  · simp [allPromos]
  · cases p <;> simp [allPromos, allPieces]

theorem mem_allMoveValues (m : Move) : m ∈ allMoveValues := by
  unfold allMoveValues
  simp only [List.mem_flatMap, List.mem_map]
  exact ⟨m.src, List.mem_finRange _, m.dst, List.mem_finRange _, m.promo, mem_allPromos _, rfl⟩

theorem allPromos_nodup : allPromos.Nodup := by decide

theorem allMoveValues_nodup : allMoveValues.Nodup := by
  unfold allMoveValues List.Nodup
  rw [List.pairwise_flatMap]
  constructor
  · intro s _
    rw [List.pairwise_flatMap]
    constructor
    · intro d _
      rw [List.pairwise_map]
      exact allPromos_nodup.imp (fun hne heq => hne (by injection heq))
    · refine allSq_nodup.imp ?_
      intro d1 d2 hne x hx y hy hxy
      simp only [List.mem_map] at hx hy
      obtain ⟨_, _, hx⟩ := hx
      obtain ⟨_, _, hy⟩ := hy
      subst hx hy
      injection hxy with _ h2 _
      exact hne h2
  · refine allSq_nodup.imp ?_
    intro s1 s2 hne x hx y hy hxy
    simp only [List.mem_flatMap, List.mem_map] at hx hy
    obtain ⟨_, _, _, _, hx⟩ := hx
    obtain ⟨_, _, _, _, hy⟩ := hy
    subst hx hy
    injection hxy with h1 _ _
    exact hne h1

theorem allMoveValues_length : allMoveValues.length = 64 * 64 * 7 := by
  unfold allMoveValues
  have h1 : ∀ (s d : Sq), (allPromos.map fun p => (⟨s, d, p⟩ : Move)).length = 7 := by
    intro s d; rw [List.length_map]; rfl
  have h2 : ∀ s : Sq, (allSq.flatMap fun d => allPromos.map fun p => (⟨s, d, p⟩ : Move)).length = 64 * 7 := by
    intro s
    rw [List.length_flatMap]
    simp only [h1]
    decide
  rw [List.length_flatMap]
  simp only [h2]
  decide

/-- `Board::legal` and the generator agree on every one of the 64×64×7 move values: filtering all
move values by `Board::legal` selects exactly the generated moves -/
theorem mem_filter_legal_iff (T : Tables) (b : Board) (m : Move) :
    m ∈ allMoveValues.filter (fun m => b.legal T m) ↔ m ∈ b.legalMoves T := by
  rw [List.mem_filter, legal_query_iff]
  exact ⟨fun h => h.2, fun h => ⟨mem_allMoveValues m, h⟩⟩

/-- … and, when no move is generated twice, as multisets -/
theorem filter_legal_perm (T : Tables) (b : Board) (h : (b.legalMoves T).Nodup) :
    (allMoveValues.filter fun m => b.legal T m).Perm (b.legalMoves T) := by
  rw [List.perm_ext_iff_of_nodup (allMoveValues_nodup.sublist List.filter_sublist) h]
  exact mem_filter_legal_iff T b

/-! ### the king steps, bit by bit -/

theorem foldl_xor_bits (c : Sq → Bool) (xs : List Sq) (hx : xs.Nodup) (acc : BB) (i : Nat) :
    (xs.foldl (fun mv d => if c d then mv ^^^ BB.ofSq d else mv) acc).getLsbD i =
      (acc.getLsbD i ^^ xs.any fun d => c d && decide (i = d.val)) := by
  induction xs generalizing acc with
  | nil => simp
  | cons a as ih =>
    rw [List.foldl_cons, ih (List.nodup_cons.mp hx).2, List.any_cons]
    have hna : a ∉ as := (List.nodup_cons.mp hx).1
    by_cases hia : i = a.val
    · have hrest : (as.any fun d => c d && decide (i = d.val)) = false := by
        rw [List.any_eq_false]
        intro d hd
        have : ¬ i = d.val := by
          intro h
          apply hna
          have : a = d := Fin.ext (by omega)
          rw [this]; exact hd
        simp [this]
      rw [hrest]
      cases hc : c a
      · simp
      · simp only [if_true, Bool.true_and, Bool.or_false]
        rw [BitVec.getLsbD_xor, BB.getLsbD_ofSq]
        simp
    · cases hc : c a
      · simp
      · simp only [if_true, Bool.true_and]
        rw [BitVec.getLsbD_xor, BB.getLsbD_ofSq]
        simp [hia]

/-- a king step survives the first loop of `KingType::legals` iff it is a king-table step onto a
square not occupied by an own man and `legal_king_move` accepts it -/
theorem kingSteps_getLsbD (T : Tables) (b : Board) (s : Sq) :
    (kingSteps T b).getLsbD s.val =
      ((T.king (b.kingSquare b.stm) &&& ownMask b).getLsbD s.val && legalKingMove T b s) := by
  unfold kingSteps
  simp only []
  rw [toList_eq_sqsOf]
  have := foldl_xor_bits (fun d => !legalKingMove T b d)
    (sqsOf (pseudoLegals T .king (b.kingSquare b.stm) b.stm b.combined (ownMask b))) (sqsOf_nodup _)
    (pseudoLegals T .king (b.kingSquare b.stm) b.stm b.combined (ownMask b)) s.val
  rw [this]
  show ((T.king (b.kingSquare b.stm) &&& ownMask b).getLsbD s.val ^^ _) = _
  have hany : ((sqsOf (pseudoLegals T .king (b.kingSquare b.stm) b.stm b.combined (ownMask b))).any
      fun d => !legalKingMove T b d && decide (s.val = d.val)) =
      ((T.king (b.kingSquare b.stm) &&& ownMask b).getLsbD s.val && !legalKingMove T b s) := by
    rw [Bool.eq_iff_iff, List.any_eq_true]
    constructor
    · rintro ⟨d, hd, h⟩
      rw [Bool.and_eq_true, decide_eq_true_eq] at h
      have : s = d := Fin.ext h.2
      subst this
      rw [Bool.and_eq_true]
      exact ⟨(mem_sqsOf _ _).mp hd, h.1⟩
    · intro h
      rw [Bool.and_eq_true] at h
      exact ⟨s, (mem_sqsOf _ _).mpr h.1, by simp [h.2]⟩
  rw [hany]
  cases (T.king (b.kingSquare b.stm) &&& ownMask b).getLsbD s.val <;> cases legalKingMove T b s <;> rfl

end Entries
end Chess
