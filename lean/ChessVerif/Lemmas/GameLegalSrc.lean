import ChessVerif.Lemmas.Game
import ChessVerif.Lemmas.Iter
import ChessVerif.Lemmas.BitBoard
/-!
# A legal move starts from an occupied square (on boards whose `combined` covers the piece boards)

`Board.legal T b m` only says that the generator yields `m`.  `make_move_new` panics iff the source
square is empty in `combined`.  The two meet when (a) every own piece is recorded in `combined` and
(b) the side to move has a king — both are part of `Board::is_sane`.  Without them the statement is
false (`Props.C10_legal_makeMove_some_fails_on_insane_board`).

Uses `Lemmas/Iter.lean` (what draining a fresh generator yields) and `Lemmas/BitBoard.lean`
(`toList_exact`).
-/
namespace Chess
namespace Board

theorem and_ofSq_eq_zero_iff' (x : BB) (s : Sq) : (x &&& BB.ofSq s = 0#64) ↔ x.getLsbD s.val = false := by
  constructor
  · intro h
    have h1 : (x &&& BB.ofSq s).getLsbD s.val = false := by rw [h]; exact BitVec.getLsbD_zero
    rw [BitVec.getLsbD_and, BB.getLsbD_ofSq] at h1
    simpa using h1
  · intro h
    apply BitVec.eq_of_getLsbD_eq
    intro i _
    rw [BitVec.getLsbD_and, BB.getLsbD_ofSq, BitVec.getLsbD_zero]
    by_cases hs : i = s.val
    · subst hs; rw [h]; rfl
    · rw [decide_eq_false hs, Bool.and_false]

/-- `piece_on` answers `Some` exactly on the squares of `combined` -/
theorem pieceOn_isSome (b : Board) (s : Sq) : (b.pieceOn s).isSome = b.combined.getLsbD s.val := by
  unfold pieceOn
  by_cases h : b.combined &&& BB.ofSq s = 0#64
  · simp only [h, if_true, Option.isSome_none]
    exact ((and_ofSq_eq_zero_iff' _ _).1 h).symm
  · have h' : b.combined.getLsbD s.val = true := by
      cases hb : b.combined.getLsbD s.val with
      | true => rfl
      | false => exact absurd ((and_ofSq_eq_zero_iff' _ _).2 hb) h
    simp only [h, if_false, h']
    split <;> split <;> (try split) <;> rfl

/-- what is needed of a board so that generated moves start on occupied squares -/
structure SrcOK (b : Board) : Prop where
  covered : ∀ p i, (b.pieces p &&& b.colorCombined b.stm).getLsbD i = true → b.combined.getLsbD i = true
  king : b.kings &&& b.colorCombined b.stm ≠ 0#64

/-- the source squares the generator uses: a square carrying an own piece, or the own king square -/
def Own (b : Board) (s : Sq) : Prop :=
  (∃ p, (b.pieces p &&& b.colorCombined b.stm).getLsbD s.val = true) ∨ s = b.kingSquare b.stm

end Board

namespace MoveGen
open Board

theorem mem_toList_and_left {x y : BB} {s : Sq} (h : s ∈ (x &&& y).toList) : x.getLsbD s.val = true := by
  rw [BB.toList_exact, List.mem_filter, BitVec.getLsbD_and, Bool.and_eq_true] at h
  exact h.2.1

theorem mem_toList_and_right {x y : BB} {s : Sq} (h : s ∈ (x &&& y).toList) : y.getLsbD s.val = true := by
  rw [BB.toList_exact, List.mem_filter, BitVec.getLsbD_and, Bool.and_eq_true] at h
  exact h.2.2

theorem pushIf_sq {P : Sq → Prop} {l : List Entry} (h : ∀ e ∈ l, P e.sq) (e : Entry) (he : P e.sq) :
    ∀ x ∈ pushIf l e, P x.sq := by
  unfold pushIf
  split
  · intro x hx
    rcases List.mem_append.mp hx with hx | hx
    · exact h x hx
    · simp only [List.mem_singleton] at hx; subst hx; exact he
  · exact h

theorem foldl_sq {α : Type} {P : Sq → Prop} (Q : α → Prop) (f : List Entry → α → List Entry)
    (hf : ∀ l a, Q a → (∀ e ∈ l, P e.sq) → ∀ e ∈ f l a, P e.sq) (xs : List α) (hq : ∀ a ∈ xs, Q a) :
    ∀ l, (∀ e ∈ l, P e.sq) → ∀ e ∈ xs.foldl f l, P e.sq := by
  induction xs with
  | nil => intro l h; exact h
  | cons a as ih =>
    intro l h
    exact ih (fun x hx => hq x (List.mem_cons_of_mem _ hx)) _ (hf l a (hq a List.mem_cons_self) h)

theorem legalsGeneric_sq (T : Tables) (p : Piece) (c : Bool) (l : List Entry) (b : Board) (mask : BB)
    (h : ∀ e ∈ l, Own b e.sq) : ∀ e ∈ legalsGeneric T p c l b mask, Own b e.sq := by
  unfold legalsGeneric
  simp only []
  have h1 := foldl_sq (P := Own b) (fun s => Own b s) _
    (fun l a ha hl => pushIf_sq hl ⟨a, pseudoLegals T p a b.stm b.combined mask &&& checkMask T b c, false⟩ ha)
    ((b.pieces p &&& b.colorCombined b.stm) &&& ~~~b.pinned).toList
    (fun s hs => .inl ⟨p, mem_toList_and_left hs⟩) l h
  split
  · exact foldl_sq (P := Own b) (fun s => Own b s) _ (fun l a ha hl => pushIf_sq hl _ ha) _
      (fun s hs => .inl ⟨p, mem_toList_and_left hs⟩) _ h1
  · exact h1

theorem legalsKnight_sq (T : Tables) (c : Bool) (l : List Entry) (b : Board) (mask : BB)
    (h : ∀ e ∈ l, Own b e.sq) : ∀ e ∈ legalsKnight T c l b mask, Own b e.sq := by
  unfold legalsKnight
  simp only []
  split <;> exact foldl_sq (P := Own b) (fun s => Own b s) _ (fun l a ha hl => pushIf_sq hl _ ha) _
      (fun s hs => .inl ⟨.knight, mem_toList_and_left hs⟩) _ h

theorem legalsKing_sq (T : Tables) (c : Bool) (l : List Entry) (b : Board) (mask : BB)
    (h : ∀ e ∈ l, Own b e.sq) : ∀ e ∈ legalsKing T c l b mask, Own b e.sq := by
  unfold legalsKing
  exact pushIf_sq h _ (.inr rfl)

theorem legalsPawn_sq (T : Tables) (c : Bool) (l : List Entry) (b : Board) (mask : BB)
    (h : ∀ e ∈ l, Own b e.sq) : ∀ e ∈ legalsPawn T c l b mask, Own b e.sq := by
  unfold legalsPawn
  simp only []
  have h1 := foldl_sq (P := Own b) (fun s => Own b s) _
    (fun l a ha hl => pushIf_sq hl ⟨a, pseudoLegals T .pawn a b.stm b.combined mask &&& checkMask T b c,
        a.getRank = b.stm.seventhRank⟩ ha)
    ((b.pawns &&& b.colorCombined b.stm) &&& ~~~b.pinned).toList
    (fun s hs => .inl ⟨.pawn, mem_toList_and_left hs⟩) l h
  have h2 : ∀ e ∈ (if (!c) = true then
      ((b.pawns &&& b.colorCombined b.stm) &&& b.pinned).toList.foldl (fun l src =>
        pushIf l ⟨src, pseudoLegals T .pawn src b.stm b.combined mask &&& T.line (b.kingSquare b.stm) src,
          src.getRank = b.stm.seventhRank⟩)
        (((b.pawns &&& b.colorCombined b.stm) &&& ~~~b.pinned).toList.foldl (fun l src =>
          pushIf l ⟨src, pseudoLegals T .pawn src b.stm b.combined mask &&& checkMask T b c,
            src.getRank = b.stm.seventhRank⟩) l)
      else (((b.pawns &&& b.colorCombined b.stm) &&& ~~~b.pinned).toList.foldl (fun l src =>
          pushIf l ⟨src, pseudoLegals T .pawn src b.stm b.combined mask &&& checkMask T b c,
            src.getRank = b.stm.seventhRank⟩) l)), Own b e.sq := by
    split
    · exact foldl_sq (P := Own b) (fun s => Own b s) _ (fun l a ha hl => pushIf_sq hl _ ha) _
        (fun s hs => .inl ⟨.pawn, mem_toList_and_left hs⟩) _ h1
    · exact h1
  split
  · exact h2
  · apply foldl_sq (P := Own b) (fun s => Own b s)
    · intro l a ha hl
      split
      · intro x hx
        rcases List.mem_append.mp hx with hx | hx
        · exact hl x hx
        · simp only [List.mem_singleton] at hx; subst hx; exact ha
      · exact hl
    · intro s hs
      exact .inl ⟨.pawn, mem_toList_and_right hs⟩
    · exact h2

theorem enumerate_sq (T : Tables) (b : Board) : ∀ e ∈ enumerate T b, Own b e.sq := by
  have h0 : ∀ e ∈ ([] : List Entry), Own b e.sq := by intro e he; cases he
  unfold enumerate
  simp only []
  split
  · exact legalsKing_sq _ _ _ _ _ (legalsGeneric_sq _ _ _ _ _ _
      (legalsGeneric_sq _ _ _ _ _ _ (legalsGeneric_sq _ _ _ _ _ _
        (legalsKnight_sq _ _ _ _ _ (legalsPawn_sq _ _ _ _ _ h0)))))
  · split
    · exact legalsKing_sq _ _ _ _ _ (legalsGeneric_sq _ _ _ _ _ _
        (legalsGeneric_sq _ _ _ _ _ _ (legalsGeneric_sq _ _ _ _ _ _
          (legalsKnight_sq _ _ _ _ _ (legalsPawn_sq _ _ _ _ _ h0)))))
    · exact legalsKing_sq _ _ _ _ _ h0

end MoveGen

namespace Board
open MoveGen

/-- every legal move starts on a square the generator took from an own piece board or the king square -/
theorem legal_src_own {T : Tables} {b : Board} {m : Move} (h : b.legal T m = true) : Own b m.src := by
  unfold legal at h
  have hm : m ∈ b.legalMoves T := by simpa using h
  unfold legalMoves at hm
  rw [(Iter.drain_exact _ (Iter.inv_newLegal T b)).yields] at hm
  unfold Iter.under newLegal at hm
  simp only [List.drop_zero] at hm
  unfold Iter.allUnder at hm
  obtain ⟨e, he, hme⟩ := List.mem_flatMap.mp hm
  rw [(Iter.mem_movesUnder hme).1]
  exact enumerate_sq T b e he

theorem own_occupied {b : Board} (hb : SrcOK b) {s : Sq} (h : Own b s) : b.combined.getLsbD s.val = true := by
  rcases h with ⟨p, hp⟩ | rfl
  · exact hb.covered p _ hp
  · exact hb.covered .king _ (Iter.getLsbD_toSq _ hb.king)

/-- **a legal move never makes `make_move_new` panic**, on a board whose `combined` covers the own
pieces and whose side to move has a king -/
theorem legal_makeMove_some {T : Tables} {b : Board} (hb : SrcOK b) {m : Move}
    (h : b.legal T m = true) : (b.makeMoveNew T m).isSome = true := by
  rw [makeMoveNew_isSome_iff, pieceOn_isSome]
  exact own_occupied hb (legal_src_own h)

theorem popcnt_zero : BB.popcnt 0#64 = 0 := by decide

/-- `is_sane` implies what is needed -/
theorem SrcOK_of_isSane {T : Tables} {b : Board} (h : b.isSane T = true) : SrcOK b := by
  unfold isSane at h
  simp only [Bool.and_eq_true] at h
  obtain ⟨⟨⟨⟨⟨⟨⟨⟨⟨_, _⟩, hc⟩, hkw⟩, hkb⟩, _⟩, _⟩, _⟩, _⟩, _⟩ := h
  constructor
  · intro p i hp
    have hc' : b.combined = 0#64 ||| b.pawns ||| b.knights ||| b.bishops ||| b.rooks ||| b.queens ||| b.kings := by
      have := eq_of_beq hc
      rw [← this]; rfl
    rw [BitVec.getLsbD_and, Bool.and_eq_true] at hp
    rw [hc']
    simp only [BitVec.getLsbD_or]
    cases p <;> simp only [pieces] at hp <;> simp [hp.1]
  · intro h0
    cases hs : b.stm with
    | white =>
      rw [hs] at h0
      have : (b.kings &&& b.white) = 0#64 := h0
      rw [this, popcnt_zero] at hkw
      simp at hkw
    | black =>
      rw [hs] at h0
      have : (b.kings &&& b.black) = 0#64 := h0
      rw [this, popcnt_zero] at hkb
      simp at hkb

theorem legal_makeMove_some_of_isSane {T : Tables} {b : Board} (hb : b.isSane T = true) {m : Move}
    (h : b.legal T m = true) : (b.makeMoveNew T m).isSome = true :=
  legal_makeMove_some (SrcOK_of_isSane hb) h

end Board

namespace Game

/-- no panic: if every position the log passes through has its own pieces recorded in `combined`
and a king for the side to move (e.g. is sane), a log satisfying `LogOK` replays without panic -/
theorem LogOK_currentPosition_isSome_of_srcOK {T : Tables} {g : Game} (h : LogOK T g)
    (hs : ∀ k cur, currentPosition T ⟨g.startPos, g.moves.take k⟩ = some cur → Board.SrcOK cur) :
    (g.currentPosition T).isSome :=
  LogOK_currentPosition_isSome h fun k cur _ hc hl => Board.legal_makeMove_some (hs k cur hc) hl

end Game
end Chess
