import ChessVerif.Lemmas.GeomBridge1
import ChessVerif.Lemmas.GeomBridge2
import ChessVerif.Lemmas.GeomBridge3
import ChessVerif.Lemmas.GeomBridge4
import ChessVerif.Lemmas.GeomBridge5
import ChessVerif.Lemmas.GeomBridge6
import ChessVerif.Lemmas.GeomBridge7
/-
Bridge library between the `Geom` bitboards and the coordinate / direction predicates of
`Spec/Rules.lean`.  Import this file.

* `GeomBridge1`: `mem_setOf` and `mem_<table>` for every `setOf` table; coordinates (`Sq.coord_bounds`,
  `Sq.ext_coord`, `sq?_eq_some_iff`, `step?_eq_some`, `onRay_iff`); `ray_dir_unique`, `step?_inj`.
* `GeomBridge2`: `mem_ray`, `ray_getElem?` (nearest first), `ray_nodup`; `mem_walkL`, `mem_walkL_idx`,
  `mem_walkL_ray`, `getLsbD_sliderWalk`.
* `GeomBridge3`: `strictlyBetween_iff` (direction form), `strictlyBetween_eq_spec`, `aligned_iff`.
* `GeomBridge4`: `mem_sliderWalk` (+ `_gen`, `_iff`, `_slides`), `mem_rookWalk`, `mem_bishopWalk`,
  `mem_rookRays`, `mem_bishopRays`, `rookWalk_xor_bishopWalk`, `mem_queenWalk`.
* `GeomBridge5`: `Dir.opp`, `onRay_opp/add/sub`, symmetry and order facts of `strictlyBetween`,
  `aligned_symm`, coordinate forms `aligned_rook_iff/bishop_iff/all_iff`, leaper symmetries,
  `mem_king_spec`, `knight_not_aligned`, `mem_pawnAttacks_symm`, `between_symm`.
* `GeomBridge6`: `mem_line_iff`, `mem_line_iff_between`, `line_symm`; `uup/udown/uleft/uright/
  uforward/ubackward` in coordinates and as `Geom.step` / `Geom.stepWrap`.
* `GeomBridge7`: `BB.eq_zero_iff`, `between_and_eq_zero_iff`, `mem_sliderWalk_between`,
  `mem_sliderWalk_symm`, `Geom.step_eq_some`, `mem_pawnQuiets`, `mem_pawnQuiets_coord`.
-/
namespace Chess

/-! sanity checks on concrete values (e1 = 4, e4 = 28, e8 = 60, h1 = 7, a1 = 0, h8 = 63) -/

example : strictlyBetween 4 28 60 = true := by decide
example : (Geom.between 4 60).getLsbD (28 : Sq).val = true := by rw [mem_between]; decide
example : aligned rookDirs 4 60 = true ∧ aligned bishopDirs 0 63 = true ∧ aligned allDirs 0 10 = false := by
  decide
/-- a rook on e1 with a blocker on e4 reaches e4 but not e5 -/
example : (Geom.rookWalk 4 (BB.ofSq 28)).getLsbD (28 : Sq).val = true ∧
    (Geom.rookWalk 4 (BB.ofSq 28)).getLsbD (36 : Sq).val = false := by decide

end Chess
