import ChessVerif.Lemmas.TextTotal
import ChessVerif.Spec.Fen
/-!
Lemmas about the FEN writer (`showBuilder`, `impl Display for BoardBuilder`) and the FEN reader
(`parseBuilder`, `BoardBuilder::from_str`) of `ChessVerif/Model/Text.lean`, and about the independent
standard-FEN decoder `Fen.decode` of `ChessVerif/Spec/Fen.lean`.  Used by `Props/C06.lean`.

All statements are for arbitrary builder states (`pieces : Sq → Option (Piece × Color)` arbitrary).
-/
namespace Chess

/-! ### characters -/

theorem letterPiece?_pieceLetter (p : Piece) (c : Color) :
    letterPiece? (pieceLetter p c) = some (p, c) := by
  cases p <;> cases c <;> decide

theorem pieceOfChar?_pieceLetter (p : Piece) (c : Color) :
    Fen.pieceOfChar? (pieceLetter p c) = some (p, c) := by
  cases p <;> cases c <;> decide

theorem pieceLetter_not_digit (p : Piece) (c : Color) :
    ¬ ('1'.toNat ≤ (pieceLetter p c).toNat ∧ (pieceLetter p c).toNat ≤ '8'.toNat) := by
  cases p <;> cases c <;> decide

theorem pieceLetter_not_digit' (p : Piece) (c : Color) :
    ¬ ('1' ≤ pieceLetter p c ∧ pieceLetter p c ≤ '8') := by
  cases p <;> cases c <;> decide

theorem pieceLetter_ne_slash (p : Piece) (c : Color) : pieceLetter p c ≠ '/' := by
  cases p <;> cases c <;> decide

theorem pieceLetter_ne_space (p : Piece) (c : Color) : pieceLetter p c ≠ ' ' := by
  cases p <;> cases c <;> decide

/-- the run-length digit: for `1 ≤ n ≤ 8` the decimal text of `n` is the single character
`'0' + n`, which lies in `'1'..'8'` -/
theorem digitChar_spec (n : Nat) (h1 : 1 ≤ n) (h8 : n ≤ 8) :
    ∃ d : Char, digitChar n = [d] ∧ d ≠ '/' ∧ d ≠ ' ' ∧ d.toNat = '0'.toNat + n ∧
      '1'.toNat ≤ d.toNat ∧ d.toNat ≤ '8'.toNat ∧ '1' ≤ d ∧ d ≤ '8' := by
  have : n = 1 ∨ n = 2 ∨ n = 3 ∨ n = 4 ∨ n = 5 ∨ n = 6 ∨ n = 7 ∨ n = 8 := by omega
  rcases this with h | h | h | h | h | h | h | h <;> subst h
  · exact ⟨'1', by decide⟩
  · exact ⟨'2', by decide⟩
  · exact ⟨'3', by decide⟩
  · exact ⟨'4', by decide⟩
  · exact ⟨'5', by decide⟩
  · exact ⟨'6', by decide⟩
  · exact ⟨'7', by decide⟩
  · exact ⟨'8', by decide⟩

theorem fileChar_ne_space : ∀ f : Fin 8, fileChar f ≠ ' ' := by decide
theorem rankChar_ne_space : ∀ r : Fin 8, rankChar r ≠ ' ' := by decide

/-! ### splitting on a separator -/

theorem splitOn_go_nosep (sep : Char) : ∀ (a cur : List Char), (∀ c ∈ a, c ≠ sep) →
    Fen.splitOn.go sep a cur = [cur.reverse ++ a]
  | [], cur, _ => by simp [Fen.splitOn.go]
  | x :: xs, cur, h => by
    have hx : x ≠ sep := h x (List.mem_cons_self ..)
    rw [Fen.splitOn.go, if_neg hx, splitOn_go_nosep sep xs (x :: cur)
      (fun c hc => h c (List.mem_cons_of_mem _ hc))]
    simp

theorem splitOn_go_append (sep : Char) : ∀ (a cur rest : List Char), (∀ c ∈ a, c ≠ sep) →
    Fen.splitOn.go sep (a ++ sep :: rest) cur = (cur.reverse ++ a) :: Fen.splitOn.go sep rest []
  | [], cur, rest, _ => by simp [Fen.splitOn.go]
  | x :: xs, cur, rest, h => by
    have hx : x ≠ sep := h x (List.mem_cons_self ..)
    rw [List.cons_append, Fen.splitOn.go, if_neg hx, splitOn_go_append sep xs (x :: cur) rest
      (fun c hc => h c (List.mem_cons_of_mem _ hc))]
    simp

/-- a text without the separator is a single field -/
theorem splitOn_nosep (sep : Char) (a : List Char) (h : ∀ c ∈ a, c ≠ sep) :
    Fen.splitOn sep a = [a] := by
  unfold Fen.splitOn; rw [splitOn_go_nosep sep a [] h]; simp

/-- the first field ends at the first separator -/
theorem splitOn_append (sep : Char) (a rest : List Char) (h : ∀ c ∈ a, c ≠ sep) :
    Fen.splitOn sep (a ++ sep :: rest) = a :: Fen.splitOn sep rest := by
  unfold Fen.splitOn; rw [splitOn_go_append sep a [] rest h]; simp

theorem splitSpace_go_eq : ∀ (s cur : List Char), Str.splitSpace.go s cur = Fen.splitOn.go ' ' s cur
  | [], cur => by simp [Str.splitSpace.go, Fen.splitOn.go]
  | x :: xs, cur => by
    rw [Str.splitSpace.go, Fen.splitOn.go, splitSpace_go_eq xs, splitSpace_go_eq xs]

/-- the Model's `split(' ')` is the Spec's splitter at `' '` -/
theorem splitSpace_eq (s : List Char) : Str.splitSpace s = Fen.splitOn ' ' s := by
  unfold Str.splitSpace Fen.splitOn; exact splitSpace_go_eq s []

/-! ### one rank of the placement field -/

theorem showRank_go_nil (pieces : Sq → Option (Piece × Color)) (r : Fin 8) (count : Nat) :
    showRank.go pieces r [] count = if count ≠ 0 then digitChar count else [] := by
  rw [showRank.go]

theorem showRank_go_some (pieces : Sq → Option (Piece × Color)) (r f : Fin 8) (fs : List (Fin 8))
    (count : Nat) (p : Piece) (c : Color) (h : pieces (mkSq r f) = some (p, c)) :
    showRank.go pieces r (f :: fs) count =
      (if count ≠ 0 then digitChar count else []) ++ [pieceLetter p c] ++ showRank.go pieces r fs 0 := by
  rw [showRank.go]; simp only [h]

theorem showRank_go_none (pieces : Sq → Option (Piece × Color)) (r f : Fin 8) (fs : List (Fin 8))
    (count : Nat) (h : pieces (mkSq r f) = none) :
    showRank.go pieces r (f :: fs) count = showRank.go pieces r fs (count + 1) := by
  rw [showRank.go]; simp only [h]

/-- the optional run-length digit in front of a man or at the end of the rank -/
theorem runDigit_spec (count : Nat) (h8 : count ≤ 8) :
    (count = 0 ∧ (if count ≠ 0 then digitChar count else []) = []) ∨
    (∃ d : Char, (if count ≠ 0 then digitChar count else []) = [d] ∧ d ≠ '/' ∧ d ≠ ' ' ∧
      d.toNat = '0'.toNat + count ∧ '1'.toNat ≤ d.toNat ∧ d.toNat ≤ '8'.toNat ∧ '1' ≤ d ∧ d ≤ '8') := by
  by_cases h : count = 0
  · left; simp [h]
  · right
    obtain ⟨d, hd⟩ := digitChar_spec count (by omega) h8
    exact ⟨d, by rw [if_pos h]; exact hd.1, hd.2⟩

/-- the text of a rank contains neither `' '` nor `'/'` -/
theorem showRank_go_chars (pieces : Sq → Option (Piece × Color)) (r : Fin 8) :
    ∀ (files : List (Fin 8)) (count : Nat), count + files.length ≤ 8 →
      ∀ x ∈ showRank.go pieces r files count, x ≠ ' ' ∧ x ≠ '/'
  | [], count, hb, x, hx => by
    rw [showRank_go_nil] at hx
    rcases runDigit_spec count (by simpa using hb) with ⟨_, h⟩ | ⟨d, h, h1, h2, _⟩
    · rw [h] at hx; cases hx
    · rw [h] at hx; simp at hx; subst hx; exact ⟨h2, h1⟩
  | f :: fs, count, hb, x, hx => by
    simp only [List.length_cons] at hb
    cases hp : pieces (mkSq r f) with
    | none =>
      rw [showRank_go_none _ _ _ _ _ hp] at hx
      exact showRank_go_chars pieces r fs (count + 1) (by omega) x hx
    | some pc =>
      obtain ⟨p, c⟩ := pc
      rw [showRank_go_some _ _ _ _ _ _ _ hp] at hx
      simp only [List.mem_append, List.mem_singleton] at hx
      rcases hx with (hx | hx) | hx
      · rcases runDigit_spec count (by omega) with ⟨_, h⟩ | ⟨d, h, h1, h2, _⟩
        · rw [h] at hx; cases hx
        · rw [h] at hx; simp at hx; subst hx; exact ⟨h2, h1⟩
      · subst hx; exact ⟨pieceLetter_ne_space p c, pieceLetter_ne_slash p c⟩
      · exact showRank_go_chars pieces r fs 0 (by omega) x hx

theorem showRank_chars (pieces : Sq → Option (Piece × Color)) (r : Fin 8) :
    ∀ x ∈ showRank pieces r, x ≠ ' ' ∧ x ≠ '/' := by
  unfold showRank
  exact showRank_go_chars pieces r _ 0 (by simp)

/-! #### the Spec's rank decoder on the Model's rank text -/

theorem decodeRank_digit (d : Char) (cs : List Char) (acc : List (Option (Piece × Color)))
    (h1 : '1' ≤ d) (h8 : d ≤ '8') :
    Fen.decodeRank (d :: cs) acc =
      Fen.decodeRank cs (acc ++ List.replicate (d.toNat - '0'.toNat) none) := by
  rw [Fen.decodeRank, if_pos ⟨h1, h8⟩]

theorem decodeRank_letter (p : Piece) (c : Color) (cs : List Char)
    (acc : List (Option (Piece × Color))) :
    Fen.decodeRank (pieceLetter p c :: cs) acc = Fen.decodeRank cs (acc ++ [some (p, c)]) := by
  rw [Fen.decodeRank, if_neg (pieceLetter_not_digit' p c)]
  simp only [pieceOfChar?_pieceLetter]

theorem decodeRank_runDigit (count : Nat) (h8 : count ≤ 8) (cs : List Char)
    (acc : List (Option (Piece × Color))) :
    Fen.decodeRank ((if count ≠ 0 then digitChar count else []) ++ cs) acc =
      Fen.decodeRank cs (acc ++ List.replicate count none) := by
  rcases runDigit_spec count h8 with ⟨h0, h⟩ | ⟨d, h, _, _, hn, _, _, hl, hu⟩
  · rw [h, h0]; simp
  · rw [h, List.singleton_append, decodeRank_digit d cs acc hl hu, hn]; simp

theorem decodeRank_showRank_go (pieces : Sq → Option (Piece × Color)) (r : Fin 8) :
    ∀ (files : List (Fin 8)) (count : Nat) (acc : List (Option (Piece × Color))),
      count + files.length ≤ 8 →
      Fen.decodeRank (showRank.go pieces r files count) acc =
        Fen.decodeRank [] (acc ++ List.replicate count none ++ files.map fun f => pieces (mkSq r f))
  | [], count, acc, hb => by
    rw [showRank_go_nil]
    have := decodeRank_runDigit count (by simpa using hb) [] acc
    rw [List.append_nil] at this
    rw [this]; simp
  | f :: fs, count, acc, hb => by
    simp only [List.length_cons] at hb
    cases hp : pieces (mkSq r f) with
    | none =>
      rw [showRank_go_none _ _ _ _ _ hp, decodeRank_showRank_go pieces r fs (count + 1) acc (by omega)]
      simp [List.replicate_succ', hp]
    | some pc =>
      obtain ⟨p, c⟩ := pc
      rw [showRank_go_some _ _ _ _ _ _ _ hp, List.append_assoc,
        decodeRank_runDigit count (by omega), List.singleton_append, decodeRank_letter,
        decodeRank_showRank_go pieces r fs 0 _ (by omega)]
      simp [hp]

/-- the standard decoder reads the text of rank `r` as the eight squares of rank `r` -/
theorem decodeRank_showRank (pieces : Sq → Option (Piece × Color)) (r : Fin 8) :
    Fen.decodeRank (showRank pieces r) [] = some ((List.finRange 8).map fun f => pieces (mkSq r f)) := by
  unfold showRank
  rw [decodeRank_showRank_go pieces r _ 0 [] (by simp), Fen.decodeRank]
  simp

/-! #### the Model's placement scanner on the Model's rank text -/

theorem parsePlacement_slash (xs : List Char) (st : FenState) :
    parsePlacement ('/' :: xs) st = parsePlacement xs { st with rank := rankDown st.rank, file := 0 } := by
  rw [parsePlacement, if_pos rfl]

theorem parsePlacement_digit (d : Char) (xs : List Char) (st : FenState) (hs : d ≠ '/')
    (h1 : '1'.toNat ≤ d.toNat) (h8 : d.toNat ≤ '8'.toNat) :
    parsePlacement (d :: xs) st =
      parsePlacement xs { st with file := ⟨(st.file.val + (d.toNat - '0'.toNat)) % 8, by omega⟩ } := by
  rw [parsePlacement, if_neg hs, if_pos ⟨h1, h8⟩]

theorem parsePlacement_letter (p : Piece) (c : Color) (xs : List Char) (st : FenState) :
    parsePlacement (pieceLetter p c :: xs) st =
      parsePlacement xs { st with
        pieces := fun t => if t = mkSq st.rank st.file then some (p, c) else st.pieces t,
        file := fileRight st.file } := by
  rw [parsePlacement, if_neg (pieceLetter_ne_slash p c), if_neg (pieceLetter_not_digit p c)]
  simp only [letterPiece?_pieceLetter]

/-- the files of a rank from file `p` to file 7, in order -/
def consec : Nat → List (Fin 8) → Bool
  | p, [] => p == 8
  | p, f :: fs => f.val == p && consec (p + 1) fs

theorem consec_finRange : consec 0 (List.finRange 8) = true := by decide

theorem consec_length : ∀ (p : Nat) (files : List (Fin 8)), consec p files = true → p + files.length = 8
  | p, [], h => by simpa [consec] using h
  | p, f :: fs, h => by
    simp only [consec, Bool.and_eq_true] at h
    have := consec_length (p + 1) fs h.2
    simp only [List.length_cons]; omega

theorem parsePlacement_runDigit (count : Nat) (h8 : count ≤ 8) (xs : List Char) (st : FenState) :
    parsePlacement ((if count ≠ 0 then digitChar count else []) ++ xs) st =
      parsePlacement xs { st with file := ⟨(st.file.val + count) % 8, by omega⟩ } := by
  rcases runDigit_spec count h8 with ⟨h0, h⟩ | ⟨d, h, hs, _, hn, hl, hu, _⟩
  · rw [h]; subst h0
    have : (⟨(st.file.val + 0) % 8, by omega⟩ : Fin 8) = st.file := by
      apply Fin.ext; simp
    simp only [List.nil_append, this]
  · rw [h, List.singleton_append, parsePlacement_digit d xs st hs hl hu]
    have : d.toNat - '0'.toNat = count := by omega
    simp only [this]

theorem sq_eq_mkSq_iff (t : Sq) (r f : Fin 8) : t = mkSq r f ↔ t.getRank = r ∧ t.getFile = f := by
  constructor
  · intro h; subst h; exact ⟨getRank_mkSq r f, getFile_mkSq r f⟩
  · rintro ⟨h1, h2⟩; rw [← h1, ← h2, mkSq_getRank_getFile]

/-- Scanning the text produced by the writer's file loop from file `p` on (with `count` empty squares
pending, the scanner's cursor standing `count` files before `p`): exactly the squares of rank `r`
from file `p` on that hold a man are written, the cursor ends at file 0 (wrapped), same rank. -/
theorem parsePlacement_showRank_go (pieces : Sq → Option (Piece × Color)) (r : Fin 8) :
    ∀ (files : List (Fin 8)) (p count : Nat) (st : FenState) (rest : List Char),
      consec p files = true → count ≤ p → st.rank = r → st.file.val = (p - count) % 8 →
      ∃ st' : FenState,
        parsePlacement (showRank.go pieces r files count ++ rest) st = parsePlacement rest st' ∧
        st'.rank = r ∧ st'.file = 0 ∧
        ∀ t, st'.pieces t =
          if t.getRank = r ∧ p ≤ t.getFile.val then (pieces t).or (st.pieces t) else st.pieces t
  | [], p, count, st, rest, hc, hcp, hr, hf => by
    have hp : p = 8 := by simpa [consec] using hc
    subst hp
    rw [showRank_go_nil, parsePlacement_runDigit count hcp]
    refine ⟨_, rfl, hr, ?_, ?_⟩
    · apply Fin.ext; simp only [hf]; show _ = 0; omega
    · intro t
      have : ¬ (t.getRank = r ∧ 8 ≤ t.getFile.val) := by
        have := t.getFile.isLt; omega
      rw [if_neg this]
  | f :: fs, p, count, st, rest, hc, hcp, hr, hf => by
    simp only [consec, Bool.and_eq_true, beq_iff_eq] at hc
    obtain ⟨hfp, hc⟩ := hc
    have hlen := consec_length _ _ hc
    have hp8 : p < 8 := by omega
    cases hp : pieces (mkSq r f) with
    | none =>
      rw [showRank_go_none _ _ _ _ _ hp]
      obtain ⟨st', h1, h2, h3, h4⟩ :=
        parsePlacement_showRank_go pieces r fs (p + 1) (count + 1) st rest hc (by omega) hr
          (by rw [hf]; congr 1; omega)
      refine ⟨st', h1, h2, h3, ?_⟩
      intro t
      rw [h4 t]
      by_cases ht : t = mkSq r f
      · have hfile : t.getFile.val = p := by rw [ht, getFile_mkSq]; exact hfp
        have hrank : t.getRank = r := by rw [ht, getRank_mkSq]
        rw [if_neg (by omega), if_pos ⟨hrank, by omega⟩, ht, hp]; rfl
      · have hne : ¬ (t.getRank = r ∧ t.getFile.val = p) := by
          rintro ⟨a, b⟩
          exact ht ((sq_eq_mkSq_iff t r f).2 ⟨a, Fin.ext (by omega)⟩)
        by_cases hr' : t.getRank = r
        · have : t.getFile.val ≠ p := fun h => hne ⟨hr', h⟩
          by_cases hle : p ≤ t.getFile.val
          · rw [if_pos ⟨hr', by omega⟩, if_pos ⟨hr', hle⟩]
          · rw [if_neg (by omega), if_neg (by omega)]
        · rw [if_neg (fun h => hr' h.1), if_neg (fun h => hr' h.1)]
    | some pc =>
      obtain ⟨pp, c⟩ := pc
      rw [showRank_go_some _ _ _ _ _ _ _ hp, List.append_assoc, List.append_assoc,
        parsePlacement_runDigit count (by omega), List.singleton_append, parsePlacement_letter]
      have hfile : (⟨(st.file.val + count) % 8, by omega⟩ : Fin 8) = f := by
        apply Fin.ext; simp only [hf, hfp]; omega
      simp only [hfile, hr]
      obtain ⟨st', h1, h2, h3, h4⟩ :=
        parsePlacement_showRank_go pieces r fs (p + 1) 0
          { pieces := fun t => if t = mkSq r f then some (pp, c) else st.pieces t,
            rank := r, file := fileRight f } rest hc (by omega) rfl
          (by simp only [fileRight, hfp]; omega)
      refine ⟨st', h1, h2, h3, ?_⟩
      intro t
      rw [h4 t]
      simp only []
      by_cases ht : t = mkSq r f
      · have hfile : t.getFile.val = p := by rw [ht, getFile_mkSq]; exact hfp
        have hrank : t.getRank = r := by rw [ht, getRank_mkSq]
        have hc2 : t.getRank = r ∧ p ≤ t.getFile.val := ⟨hrank, by omega⟩
        rw [if_neg (by omega), if_pos ht, if_pos hc2, ht, hp]; rfl
      · have hne : ¬ (t.getRank = r ∧ t.getFile.val = p) := by
          rintro ⟨a, b⟩
          exact ht ((sq_eq_mkSq_iff t r f).2 ⟨a, Fin.ext (by omega)⟩)
        simp only [if_neg ht]
        by_cases hr' : t.getRank = r
        · have : t.getFile.val ≠ p := fun h => hne ⟨hr', h⟩
          by_cases hle : p ≤ t.getFile.val
          · rw [if_pos ⟨hr', by omega⟩, if_pos ⟨hr', hle⟩]
          · rw [if_neg (by omega), if_neg (by omega)]
        · rw [if_neg (fun h => hr' h.1), if_neg (fun h => hr' h.1)]

/-- Scanning the text of rank `r` with the cursor at `(r, file 0)`: the squares of rank `r` holding a
man are set to that man, nothing else is written, the cursor is back at file 0 of rank `r`. -/
theorem parsePlacement_showRank (pieces : Sq → Option (Piece × Color)) (r : Fin 8)
    (st : FenState) (rest : List Char) (hr : st.rank = r) (hf : st.file = 0) :
    ∃ st' : FenState,
      parsePlacement (showRank pieces r ++ rest) st = parsePlacement rest st' ∧
      st'.rank = r ∧ st'.file = 0 ∧
      ∀ t, st'.pieces t = if t.getRank = r then (pieces t).or (st.pieces t) else st.pieces t := by
  obtain ⟨st', h1, h2, h3, h4⟩ :=
    parsePlacement_showRank_go pieces r (List.finRange 8) 0 0 st rest consec_finRange
      (Nat.le_refl 0) hr (by rw [hf]; rfl)
  refine ⟨st', h1, h2, h3, ?_⟩
  intro t
  rw [h4 t]
  simp

/-! ### the placement field -/

/-- the placement field written by `showBuilderWith`: ranks 8 down to 1, separated by `/` -/
def placementStr (pieces : Sq → Option (Piece × Color)) : List Char :=
  showRank pieces 7 ++ '/' :: (showRank pieces 6 ++ '/' :: (showRank pieces 5 ++ '/' ::
  (showRank pieces 4 ++ '/' :: (showRank pieces 3 ++ '/' :: (showRank pieces 2 ++ '/' ::
  (showRank pieces 1 ++ '/' :: showRank pieces 0))))))

/-- scanner state when the cursor stands at the beginning of rank `r`: the ranks above are done, the
rest still holds the initial `none` -/
def PlInv (pieces : Sq → Option (Piece × Color)) (r : Fin 8) (st : FenState) : Prop :=
  st.rank = r ∧ st.file = 0 ∧ ∀ t, st.pieces t = if r.val < t.getRank.val then pieces t else none

theorem parsePlacement_rank_step (pieces : Sq → Option (Piece × Color)) (r r' : Fin 8)
    (hrr : r.val = r'.val + 1) (st : FenState) (rest : List Char) (h : PlInv pieces r st) :
    ∃ st', parsePlacement (showRank pieces r ++ '/' :: rest) st = parsePlacement rest st' ∧
      PlInv pieces r' st' := by
  obtain ⟨hr, hf, hp⟩ := h
  obtain ⟨st1, h1, h2, h3, h4⟩ := parsePlacement_showRank pieces r st ('/' :: rest) hr hf
  rw [parsePlacement_slash] at h1
  refine ⟨_, h1, ?_, rfl, ?_⟩
  · show rankDown st1.rank = r'
    rw [h2]; apply Fin.ext; simp only [rankDown]; omega
  · intro t
    show st1.pieces t = _
    rw [h4 t, hp t]
    by_cases hrk : t.getRank = r
    · have : r'.val < t.getRank.val := by rw [hrk]; omega
      rw [if_pos hrk, if_neg (by rw [hrk]; omega), if_pos this]; simp
    · have hne : t.getRank.val ≠ r.val := fun h => hrk (Fin.ext h)
      rw [if_neg hrk]
      by_cases hlt : r.val < t.getRank.val
      · rw [if_pos hlt, if_pos (by omega)]
      · rw [if_neg hlt, if_neg (by omega)]

theorem parsePlacement_rank_last (pieces : Sq → Option (Piece × Color)) (st : FenState)
    (h : PlInv pieces 0 st) :
    ∃ st', parsePlacement (showRank pieces 0) st = some st' ∧ ∀ t, st'.pieces t = pieces t := by
  obtain ⟨hr, hf, hp⟩ := h
  obtain ⟨st1, h1, h2, h3, h4⟩ := parsePlacement_showRank pieces 0 st [] hr hf
  rw [List.append_nil, parsePlacement] at h1
  refine ⟨st1, h1, ?_⟩
  intro t
  rw [h4 t, hp t]
  by_cases hrk : t.getRank = 0
  · rw [if_pos hrk, if_neg (by rw [hrk]; decide)]; simp
  · have : (0 : Fin 8).val < t.getRank.val := by
      have : t.getRank.val ≠ 0 := fun h => hrk (Fin.ext h)
      show 0 < _; omega
    rw [if_neg hrk, if_pos this]

/-- (b) the reader's placement scan of the writer's placement field, started as `from_str` starts it
(all squares empty, cursor on a8), succeeds and yields exactly the written piece map -/
theorem parsePlacement_placementStr (pieces : Sq → Option (Piece × Color)) :
    ∃ st, parsePlacement (placementStr pieces) ⟨fun _ => none, 7, 0⟩ = some st ∧
      ∀ t, st.pieces t = pieces t := by
  have h7 : PlInv pieces 7 ⟨fun _ => none, 7, 0⟩ := by
    refine ⟨rfl, rfl, ?_⟩
    intro t
    have := t.getRank.isLt
    rw [if_neg (by show ¬ (7 < _); omega)]
  unfold placementStr
  obtain ⟨s6, e7, h6⟩ := parsePlacement_rank_step pieces 7 6 (by decide) _ _ h7
  obtain ⟨s5, e6, h5⟩ := parsePlacement_rank_step pieces 6 5 (by decide) _ _ h6
  obtain ⟨s4, e5, h4⟩ := parsePlacement_rank_step pieces 5 4 (by decide) _ _ h5
  obtain ⟨s3, e4, h3⟩ := parsePlacement_rank_step pieces 4 3 (by decide) _ _ h4
  obtain ⟨s2, e3, h2⟩ := parsePlacement_rank_step pieces 3 2 (by decide) _ _ h3
  obtain ⟨s1, e2, h1⟩ := parsePlacement_rank_step pieces 2 1 (by decide) _ _ h2
  obtain ⟨s0, e1, h0⟩ := parsePlacement_rank_step pieces 1 0 (by decide) _ _ h1
  obtain ⟨st, e0, hst⟩ := parsePlacement_rank_last pieces s0 h0
  exact ⟨st, by rw [e7, e6, e5, e4, e3, e2, e1, e0], hst⟩

theorem placementStr_no_space (pieces : Sq → Option (Piece × Color)) :
    ∀ x ∈ placementStr pieces, x ≠ ' ' := by
  intro x hx
  simp only [placementStr, List.mem_append, List.mem_cons] at hx
  have hs : '/' ≠ ' ' := by decide
  rcases hx with hx | hx | hx | hx | hx | hx | hx | hx | hx | hx | hx | hx | hx | hx | hx
  all_goals first
    | exact (showRank_chars pieces _ x hx).1
    | (rw [hx]; exact hs)

/-- the standard placement decoder splits the writer's placement field into its eight rank texts -/
theorem splitOn_slash_placementStr (pieces : Sq → Option (Piece × Color)) :
    Fen.splitOn '/' (placementStr pieces) =
      [showRank pieces 7, showRank pieces 6, showRank pieces 5, showRank pieces 4,
       showRank pieces 3, showRank pieces 2, showRank pieces 1, showRank pieces 0] := by
  have h : ∀ r, ∀ c ∈ showRank pieces r, c ≠ '/' := fun r c hc => (showRank_chars pieces r c hc).2
  unfold placementStr
  rw [splitOn_append _ _ _ (h 7), splitOn_append _ _ _ (h 6), splitOn_append _ _ _ (h 5),
    splitOn_append _ _ _ (h 4), splitOn_append _ _ _ (h 3), splitOn_append _ _ _ (h 2),
    splitOn_append _ _ _ (h 1), splitOn_nosep _ _ (h 0)]

theorem finRange64_eq :
    List.finRange 64 = (List.finRange 8).flatMap fun r => (List.finRange 8).map fun f => mkSq r f := by
  decide

/-- the standard placement decoder reads the writer's placement field as the written piece map -/
theorem decodePlacement_placementStr (pieces : Sq → Option (Piece × Color)) :
    ∃ board, Fen.decodePlacement (placementStr pieces) = some board ∧ ∀ s, board s = pieces s := by
  unfold Fen.decodePlacement
  simp only [splitOn_slash_placementStr, List.length_cons, List.length_nil]
  simp only [List.mapM_cons, List.mapM_nil, decodeRank_showRank]
  refine ⟨_, rfl, ?_⟩
  intro s
  have : ([List.map (fun f => pieces (mkSq 7 f)) (List.finRange 8),
      List.map (fun f => pieces (mkSq 6 f)) (List.finRange 8),
      List.map (fun f => pieces (mkSq 5 f)) (List.finRange 8),
      List.map (fun f => pieces (mkSq 4 f)) (List.finRange 8),
      List.map (fun f => pieces (mkSq 3 f)) (List.finRange 8),
      List.map (fun f => pieces (mkSq 2 f)) (List.finRange 8),
      List.map (fun f => pieces (mkSq 1 f)) (List.finRange 8),
      List.map (fun f => pieces (mkSq 0 f)) (List.finRange 8)].reverse.flatten) =
      (List.finRange 64).map pieces := by
    rw [finRange64_eq, List.map_flatMap]
    have : List.finRange 8 = [0, 1, 2, 3, 4, 5, 6, 7] := by decide
    rw [this]
    simp
  rw [this]
  simp

/-! ### the six fields -/

def sideStr : Color → List Char | .white => ['w'] | .black => ['b']

/-- the castling field: `KQkq` subset in that order, or `-` -/
def castleField (wcr bcr : CastleRights) : List Char :=
  castleString wcr .white ++ castleString bcr .black ++
    (if wcr == .noRights && bcr == .noRights then ['-'] else [])

def epField (e : Option Sq) : List Char := match e with | some s => showSquare s | none => ['-']

/-- (shape) the writer's output is six fields separated by single spaces -/
theorem showBuilderWith_eq (bb : Builder) (e : Option Sq) :
    showBuilderWith bb e =
      placementStr bb.pieces ++ ' ' :: (sideStr bb.stm ++ ' ' :: (castleField bb.wcr bb.bcr ++ ' ' ::
        (epField e ++ ' ' :: (['0'] ++ ' ' :: ['1'])))) := by
  unfold showBuilderWith placementStr castleField epField sideStr
  have h : " 0 1".toList = [' ', '0', ' ', '1'] := by decide
  rw [h]
  cases bb.stm <;> cases e <;> simp [List.append_assoc]

theorem sideStr_no_space (c : Color) : ∀ x ∈ sideStr c, x ≠ ' ' := by
  cases c <;> decide

theorem castleField_no_space (wcr bcr : CastleRights) : ∀ x ∈ castleField wcr bcr, x ≠ ' ' := by
  obtain ⟨wk, wq⟩ := wcr
  obtain ⟨bk, bq⟩ := bcr
  cases wk <;> cases wq <;> cases bk <;> cases bq <;> decide

theorem epField_no_space (e : Option Sq) : ∀ x ∈ epField e, x ≠ ' ' := by
  cases e with
  | none => decide
  | some s =>
    intro x hx
    simp only [epField, showSquare, List.mem_cons, List.not_mem_nil, or_false] at hx
    rcases hx with hx | hx
    · rw [hx]; exact fileChar_ne_space _
    · rw [hx]; exact rankChar_ne_space _

/-- (a) splitting the writer's output at `' '` gives exactly the six fields -/
theorem splitOn_space_showBuilderWith (bb : Builder) (e : Option Sq) :
    Fen.splitOn ' ' (showBuilderWith bb e) =
      [placementStr bb.pieces, sideStr bb.stm, castleField bb.wcr bb.bcr, epField e, ['0'], ['1']] := by
  rw [showBuilderWith_eq,
    splitOn_append _ _ _ (placementStr_no_space _), splitOn_append _ _ _ (sideStr_no_space _),
    splitOn_append _ _ _ (castleField_no_space _ _), splitOn_append _ _ _ (epField_no_space _),
    splitOn_append _ _ _ (by decide), splitOn_nosep _ _ (by decide)]

theorem splitSpace_showBuilderWith (bb : Builder) (e : Option Sq) :
    Str.splitSpace (showBuilderWith bb e) =
      [placementStr bb.pieces, sideStr bb.stm, castleField bb.wcr bb.bcr, epField e, ['0'], ['1']] := by
  rw [splitSpace_eq, splitOn_space_showBuilderWith]

/-! #### (d) side, castling, en passant as read back by `from_str` -/

theorem side_readback (c : Color) :
    (if sideStr c = ['w'] ∨ sideStr c = ['W'] then some Color.white
      else if sideStr c = ['b'] ∨ sideStr c = ['B'] then some Color.black else none) = some c := by
  cases c <;> decide

theorem castleField_contains (wcr bcr : CastleRights) :
    (castleField wcr bcr).contains 'K' = wcr.ks ∧ (castleField wcr bcr).contains 'Q' = wcr.qs ∧
    (castleField wcr bcr).contains 'k' = bcr.ks ∧ (castleField wcr bcr).contains 'q' = bcr.qs := by
  obtain ⟨wk, wq⟩ := wcr
  obtain ⟨bk, bq⟩ := bcr
  cases wk <;> cases wq <;> cases bk <;> cases bq <;> decide

theorem parseSquare_dash : parseSquare ['-'] = .err := by decide

theorem getFile_ubackward (s : Sq) (c : Color) : (s.ubackward c).getFile = s.getFile := by
  cases c <;> simp [Sq.ubackward, Sq.udown, Sq.uup, getFile_mkSq]

theorem epShown_eq (bb : Builder) :
    bb.epShown = bb.epFile.map fun f => (mkSq bb.stm.other.fourthRank f).ubackward bb.stm.other := by
  unfold Builder.epShown Builder.getEnPassant
  cases bb.epFile <;> rfl

/-- the en-passant field of the writer is read back by `from_str` as the recorded file (`-`, which
`Square::from_str` rejects, as "none") -/
theorem ep_readback (bb : Builder) :
    (match parseSquare (epField bb.epShown) with
      | .panic => (none : Option (Option (Fin 8)))
      | .ok sq => some (some sq.getFile)
      | .err => some none) = some bb.epFile := by
  rw [epShown_eq]
  cases bb.epFile with
  | none => simp only [Option.map_none, epField, parseSquare_dash]
  | some f =>
    simp only [Option.map_some, epField, parseSquare_showSquare, getFile_ubackward, getFile_mkSq]

/-- item 1 for an arbitrary builder state -/
theorem parseBuilder_showBuilder (bd : Builder) :
    ∃ bd', parseBuilder (showBuilder bd) = .ok bd' ∧ (∀ s, bd'.pieces s = bd.pieces s) ∧
      bd'.stm = bd.stm ∧ bd'.wcr = bd.wcr ∧ bd'.bcr = bd.bcr ∧ bd'.epFile = bd.epFile := by
  obtain ⟨st, hst, hpieces⟩ := parsePlacement_placementStr bd.pieces
  obtain ⟨hK, hQ, hk, hq⟩ := castleField_contains bd.wcr bd.bcr
  have hep := ep_readback bd
  unfold parseBuilder showBuilder
  simp only [splitSpace_showBuilderWith, hst, side_readback, hK, hQ, hk, hq]
  cases hps : parseSquare (epField bd.epShown) with
  | panic => rw [hps] at hep; cases hep
  | err =>
    rw [hps] at hep
    simp only [Option.some.injEq] at hep
    exact ⟨_, rfl, hpieces, rfl, rfl, rfl, hep⟩
  | ok sq =>
    rw [hps] at hep
    simp only [Option.some.injEq] at hep
    exact ⟨_, rfl, hpieces, rfl, rfl, rfl, hep⟩

/-! ### the standard decoder on the writer's output -/

/-- the en-passant clause of `Fen.decode`, named -/
def epMarkOf (stm : Color) (ep : List Char) : Option (Option Sq) :=
  if ep = ['-'] then some none else
  match Fen.sqOfName? ep with
  | none => none
  | some e =>
    let o := stm.other
    if e.rank == o.pawnRank + o.fwd then (sq? e.file (e.rank + o.fwd)).map some else none

/-- `Fen.decode` on a text whose six fields are known -/
theorem decode_of_fields (s pl side castles ep half full : List Char)
    (board : Sq → Option (Piece × Color)) (stm : Color) (mark : Option Sq)
    (htok : Fen.splitOn ' ' s = [pl, side, castles, ep, half, full])
    (hpl : Fen.decodePlacement pl = some board)
    (hside : (if side = ['w'] then some Color.white else if side = ['b'] then some Color.black
      else none) = some stm)
    (hc : castles = ['-'] ∨ (!castles.isEmpty ∧ castles.all (fun c => "KQkq".toList.contains c) ∧
      castles.Nodup))
    (hn : Fen.isNat half ∧ Fen.isNat full)
    (hep : epMarkOf stm ep = some mark) :
    ∃ q : Pos, Fen.decode s = some q ∧ q.board = board ∧ q.stm = stm ∧
      q.castleK .white = castles.contains 'K' ∧ q.castleQ .white = castles.contains 'Q' ∧
      q.castleK .black = castles.contains 'k' ∧ q.castleQ .black = castles.contains 'q' ∧
      q.ep = mark := by
  simp only [epMarkOf] at hep
  unfold Fen.decode
  rw [htok]
  simp only [hpl, hside]
  rw [if_neg (Classical.not_not.2 hc), if_neg (Classical.not_not.2 hn)]
  cases hs : Fen.sqOfName? ep with
  | none =>
    simp only [hs] at hep ⊢; simp only [hep]
    exact ⟨_, rfl, rfl, rfl, rfl, rfl, rfl, rfl, rfl⟩
  | some e =>
    simp only [hs] at hep ⊢; simp only [hep]
    exact ⟨_, rfl, rfl, rfl, rfl, rfl, rfl, rfl, rfl⟩

theorem side_decode (c : Color) :
    (if sideStr c = ['w'] then some Color.white else if sideStr c = ['b'] then some Color.black
      else none) = some c := by
  cases c <;> decide

/-- the writer's castling field is a standard one: `-`, or a non-empty duplicate-free word over
`KQkq` -/
theorem castleField_standard (wcr bcr : CastleRights) :
    castleField wcr bcr = ['-'] ∨ (!(castleField wcr bcr).isEmpty ∧
      (castleField wcr bcr).all (fun c => "KQkq".toList.contains c) ∧ (castleField wcr bcr).Nodup) := by
  obtain ⟨wk, wq⟩ := wcr
  obtain ⟨bk, bq⟩ := bcr
  cases wk <;> cases wq <;> cases bk <;> cases bq <;> decide

theorem isNat_clocks : Fen.isNat ['0'] ∧ Fen.isNat ['1'] := by decide

theorem epMarkOf_dash (c : Color) : epMarkOf c ['-'] = some none := by
  unfold epMarkOf; rw [if_pos rfl]

/-- the square the writer prints (behind the pawn) is accepted by the standard decoder as an
en-passant target of the right rank and is turned into the pawn's square -/
theorem epMarkOf_target : ∀ (c : Color) (f : Fin 8),
    epMarkOf c (showSquare ((mkSq c.other.fourthRank f).ubackward c.other)) =
      some (some (mkSq c.other.fourthRank f)) := by
  intro c
  cases c
  · decide
  · decide

theorem epMarkOf_epShown (bb : Builder) :
    epMarkOf bb.stm (epField bb.epShown) = some bb.getEnPassant := by
  rw [epShown_eq]
  unfold Builder.getEnPassant
  cases bb.epFile with
  | none => exact epMarkOf_dash _
  | some f => exact epMarkOf_target _ _

/-- item 2 for an arbitrary builder state -/
theorem decode_showBuilder (bd : Builder) :
    ∃ q : Pos, Fen.decode (showBuilder bd) = some q ∧ (∀ s, q.board s = bd.pieces s) ∧
      q.stm = bd.stm ∧
      q.castleK .white = bd.wcr.ks ∧ q.castleQ .white = bd.wcr.qs ∧
      q.castleK .black = bd.bcr.ks ∧ q.castleQ .black = bd.bcr.qs ∧
      q.ep = bd.getEnPassant := by
  obtain ⟨board, hb, hboard⟩ := decodePlacement_placementStr bd.pieces
  obtain ⟨hK, hQ, hk, hq⟩ := castleField_contains bd.wcr bd.bcr
  obtain ⟨q, h, h1, h2, h3, h4, h5, h6, h7⟩ :=
    decode_of_fields (showBuilder bd) _ _ _ _ _ _ board bd.stm bd.getEnPassant
      (splitOn_space_showBuilderWith bd bd.epShown) hb (side_decode _)
      (castleField_standard _ _) isNat_clocks (epMarkOf_epShown bd)
  exact ⟨q, h, fun s => by rw [h1]; exact hboard s, h2, h3.trans hK, h4.trans hQ, h5.trans hk,
    h6.trans hq, h7⟩

/-! ### the en-passant field in standard form -/

theorem ep_target_facts : ∀ (c : Color) (f : Fin 8),
    ((mkSq c.other.fourthRank f).ubackward c.other).getFile = f ∧
    ((mkSq c.other.fourthRank f).ubackward c.other).getRank =
      (match c with | .black => (2 : Fin 8) | .white => 5) ∧
    ((mkSq c.other.fourthRank f).ubackward c.other).uforward c.other = mkSq c.other.fourthRank f := by
  intro c
  cases c
  · decide
  · decide

/-- with a recorded file `f` the printed square is on that file, on rank 3 (`getRank = 2`) when Black
is to move and on rank 6 (`getRank = 5`) when White is to move, directly behind the pawn's square
`getEnPassant` -/
theorem epShown_some (bb : Builder) (f : Fin 8) (h : bb.epFile = some f) :
    ∃ e, bb.epShown = some e ∧ e.getFile = f ∧
      e.getRank = (match bb.stm with | .black => (2 : Fin 8) | .white => 5) ∧
      bb.getEnPassant = some (e.uforward bb.stm.other) := by
  obtain ⟨h1, h2, h3⟩ := ep_target_facts bb.stm f
  refine ⟨_, by rw [epShown_eq, h]; rfl, h1, h2, ?_⟩
  rw [h3]; unfold Builder.getEnPassant; rw [h]; rfl

theorem epShown_none (bb : Builder) (h : bb.epFile = none) : bb.epShown = none := by
  rw [epShown_eq, h]; rfl

end Chess
