import ChessVerif.Lemmas.PinCheck1
/-
Pins and checks on the specification, part 2: the effect of a plain move (`apply`) on the board, on
the king square and on the attacks against the mover's king.
-/
namespace Chess
namespace PinCheck

set_option maxRecDepth 100000

/-! ### the board after a plain move -/

/-- the man that arrives on the destination square (a promoting pawn changes its kind) -/
def movedMan (p : Pos) (m : Move) : Option (Piece × Color) :=
  match p.board m.src, m.promo with
  | some (.pawn, c'), some q => some (q, c')
  | x, _ => x

/-- `apply` on the board for a move that is neither castling nor en passant -/
theorem apply_board_plain (p : Pos) (m : Move) (hc : isCastle p m = false) (he : isEnPassant p m = false)
    (t : Sq) :
    (apply p m).board t = if t = m.dst then movedMan p m else if t = m.src then none else p.board t := by
  unfold apply movedMan
  simp only [hc, he, Bool.false_eq_true, if_false, beq_iff_eq]
  by_cases h1 : t = m.dst
  · subst h1; simp only [if_true]; rfl
  · by_cases h2 : t = m.src
    · subst h2; simp only [h1, if_true, if_false]
    · simp [h1, h2]

theorem apply_stm (p : Pos) (m : Move) : (apply p m).stm = p.stm.other := rfl

/-- a move whose moving man is not a king is not castling -/
theorem isCastle_false_of_not_king {p : Pos} {m : Move} {pc : Piece} {c : Color}
    (hs : p.board m.src = some (pc, c)) (hpc : pc ≠ .king) : isCastle p m = false := by
  unfold isCastle
  rw [hs]
  cases pc <;> simp at hpc ⊢

/-- with a unique king on `k`, the man on any other square of that colour is not a king -/
theorem not_king_of_ne {p : Pos} {c : Color} {k s : Sq} {pc : Piece} (hK : KingAt p c k)
    (hs : p.board s = some (pc, c)) (hne : s ≠ k) : pc ≠ .king := by
  intro h
  rw [h] at hs
  exact hne ((hK s).mp hs)

/-! ### what pseudo-legality gives for a man that is not the king -/

/-- the facts about a pseudo-legal move of a non-king man used by the pin/check argument -/
structure PlainMove (p : Pos) (m : Move) : Prop where
  /-- the arriving man has the mover's colour and is not a king -/
  moved : ∃ pc', movedMan p m = some (pc', p.stm) ∧ pc' ≠ .king
  /-- the destination does not hold a man of the mover -/
  dstColor : p.colorAt m.dst ≠ some p.stm
  /-- every square strictly between source and destination is empty -/
  path : ∀ z, strictlyBetween m.src z m.dst = true → p.empty z = true

theorem fwd_cases (c : Color) : c.fwd = 1 ∨ c.fwd = -1 := by cases c <;> simp [Color.fwd]

/-- squares one king-step apart have nothing strictly between them -/
theorem no_between_of_adjacent {a z b : Sq} (hf : (b.file - a.file).natAbs ≤ 1)
    (hr : (b.rank - a.rank).natAbs ≤ 1) (h : strictlyBetween a z b = true) : False := by
  obtain ⟨u, n, t, h1, h2, h3⟩ := (strictlyBetween_iff a z b).mp h
  rw [onRay_iff] at h1 h2
  obtain ⟨_, b1, b2⟩ := h1
  obtain ⟨t0, _, _⟩ := h2
  cases u <;> simp only [Dir.df, Dir.dr] at b1 b2 <;> omega

/-- a knight's jump has nothing strictly between its ends -/
theorem no_between_of_knight {a z b : Sq}
    (hk : (((b.file - a.file).natAbs == 1 && (b.rank - a.rank).natAbs == 2) ||
           ((b.file - a.file).natAbs == 2 && (b.rank - a.rank).natAbs == 1)) = true)
    (h : strictlyBetween a z b = true) : False := by
  have ha := strictlyBetween_aligned h
  rw [aligned_all_iff] at ha
  simp only [Bool.or_eq_true, Bool.and_eq_true, beq_iff_eq] at hk
  omega

/-- the only square strictly between two squares two steps apart on a file -/
theorem between_double {a z b : Sq} (hf : b.file = a.file) (d : Int) (hd : d = 1 ∨ d = -1)
    (hr : b.rank - a.rank = 2 * d) (h : strictlyBetween a z b = true) :
    z.file = a.file ∧ z.rank = a.rank + d := by
  obtain ⟨u, n, t, h1, h2, h3⟩ := (strictlyBetween_iff a z b).mp h
  rw [onRay_iff] at h1 h2
  obtain ⟨_, b1, b2⟩ := h1
  obtain ⟨t0, z1, z2⟩ := h2
  cases u <;> simp only [Dir.df, Dir.dr] at b1 b2 z1 z2 <;> omega

theorem pseudoLegal_plain {p : Pos} {m : Move} {pc : Piece} {c : Color}
    (hpl : pseudoLegal p m = true) (hs : p.board m.src = some (pc, c)) (hpc : pc ≠ .king) :
    c = p.stm ∧ PlainMove p m := by
  unfold pseudoLegal at hpl
  rw [hs] at hpl
  simp only [Bool.and_eq_true, beq_iff_eq, bne_iff_ne, ne_eq] at hpl
  obtain ⟨⟨hc, hdc⟩, hrest⟩ := hpl
  subst hc
  refine ⟨rfl, ?_⟩
  cases pc with
  | king => exact absurd rfl hpc
  | pawn =>
    simp only [Bool.and_eq_true, Bool.or_eq_true, beq_iff_eq] at hrest
    obtain ⟨hpromo, hmv⟩ := hrest
    refine ⟨?_, hdc, ?_⟩
    · unfold movedMan
      rw [hs]
      cases hq : m.promo with
      | none => exact ⟨.pawn, rfl, by decide⟩
      | some q =>
        refine ⟨q, rfl, ?_⟩
        rw [hq] at hpromo
        simp at hpromo
        intro hk; rw [hk] at hpromo; exact absurd hpromo.2 (by decide)
    · intro z hz
      have hf := fwd_cases p.stm
      rcases hmv with ((h | h) | h) | h
      · exact (no_between_of_adjacent (by omega) (by omega) hz).elim
      · obtain ⟨⟨⟨⟨h1, h2⟩, _⟩, _⟩, h5⟩ := h
        have hz' := between_double (by omega) p.stm.fwd hf h2 hz
        have hsq : sq? m.src.file (m.src.rank + p.stm.fwd) = some z := (sq?_eq_some_iff _ _ _).mpr hz'
        rw [hsq] at h5
        exact h5
      · exact (no_between_of_adjacent (by omega) (by omega) hz).elim
      · exact (no_between_of_adjacent (by omega) (by omega) hz).elim
  | knight =>
    simp only [Bool.and_eq_true] at hrest
    have ha := hrest.2
    unfold attacks at ha
    rw [hs] at ha
    refine ⟨⟨.knight, ?_, by decide⟩, hdc, fun z hz => (no_between_of_knight ha hz).elim⟩
    unfold movedMan; rw [hs]
  | bishop =>
    simp only [Bool.and_eq_true] at hrest
    have ha := hrest.2
    unfold attacks slides at ha
    rw [hs] at ha
    simp only [Bool.and_eq_true] at ha
    refine ⟨⟨.bishop, ?_, by decide⟩, hdc, (pathClear_iff p _ _).mp ha.2⟩
    unfold movedMan; rw [hs]
  | rook =>
    simp only [Bool.and_eq_true] at hrest
    have ha := hrest.2
    unfold attacks slides at ha
    rw [hs] at ha
    simp only [Bool.and_eq_true] at ha
    refine ⟨⟨.rook, ?_, by decide⟩, hdc, (pathClear_iff p _ _).mp ha.2⟩
    unfold movedMan; rw [hs]
  | queen =>
    simp only [Bool.and_eq_true] at hrest
    have ha := hrest.2
    unfold attacks slides at ha
    rw [hs] at ha
    simp only [Bool.and_eq_true] at ha
    refine ⟨⟨.queen, ?_, by decide⟩, hdc, (pathClear_iff p _ _).mp ha.2⟩
    unfold movedMan; rw [hs]

/-- the source square of a pseudo-legal move holds a man of the mover -/
theorem pseudoLegal_src {p : Pos} {m : Move} (hpl : pseudoLegal p m = true) :
    ∃ pc, p.board m.src = some (pc, p.stm) := by
  unfold pseudoLegal at hpl
  rcases hs : p.board m.src with _ | ⟨pc, c⟩
  · rw [hs] at hpl; simp at hpl
  · rw [hs] at hpl
    simp only [Bool.and_eq_true, beq_iff_eq] at hpl
    exact ⟨pc, by rw [hpl.1.1]⟩

/-! ### the context of the pin/check argument -/

/-- `m` is a pseudo-legal, non-en-passant move of a man other than the (unique) king on `k` -/
structure Ctx (p : Pos) (m : Move) (k : Sq) : Prop where
  king : KingAt p p.stm k
  src : ∃ pc, p.board m.src = some (pc, p.stm)
  srcNe : m.src ≠ k
  plain : PlainMove p m
  notCastle : isCastle p m = false
  notEp : isEnPassant p m = false

theorem Ctx.mk' {p : Pos} {m : Move} {k : Sq} (hK : KingAt p p.stm k) (hpl : pseudoLegal p m = true)
    (hne : m.src ≠ k) (hep : isEnPassant p m = false) : Ctx p m k := by
  obtain ⟨pc, hs⟩ := pseudoLegal_src hpl
  have hpc := not_king_of_ne hK hs hne
  exact ⟨hK, ⟨pc, hs⟩, hne, (pseudoLegal_plain hpl hs hpc).2, isCastle_false_of_not_king hs hpc, hep⟩

namespace Ctx
variable {p : Pos} {m : Move} {k : Sq}

theorem colorAt_src (h : Ctx p m k) : p.colorAt m.src = some p.stm := by
  obtain ⟨pc, hs⟩ := h.src
  exact colorAt_of_board hs

theorem board_king (h : Ctx p m k) : p.board k = some (.king, p.stm) := (h.king k).mpr rfl

theorem colorAt_king (h : Ctx p m k) : p.colorAt k = some p.stm := colorAt_of_board h.board_king

theorem dst_ne_src (h : Ctx p m k) : m.dst ≠ m.src := by
  intro he
  have := h.plain.dstColor
  rw [he] at this
  exact this h.colorAt_src

theorem dst_ne_king (h : Ctx p m k) : m.dst ≠ k := by
  intro he
  have := h.plain.dstColor
  rw [he] at this
  exact this h.colorAt_king

theorem src_not_empty (h : Ctx p m k) : p.empty m.src = false := not_empty_of_colorAt h.colorAt_src
theorem king_not_empty (h : Ctx p m k) : p.empty k = false := not_empty_of_colorAt h.colorAt_king

theorem enemy_ne_src (h : Ctx p m k) {x : Sq} (hx : p.colorAt x = some p.stm.other) : x ≠ m.src := by
  intro he
  rw [he, h.colorAt_src] at hx
  exact Color.other_ne p.stm (Option.some.inj hx).symm

theorem enemy_ne_king (h : Ctx p m k) {x : Sq} (hx : p.colorAt x = some p.stm.other) : x ≠ k := by
  intro he
  rw [he, h.colorAt_king] at hx
  exact Color.other_ne p.stm (Option.some.inj hx).symm

/-- the board after the move -/
theorem after_board (h : Ctx p m k) (t : Sq) :
    (apply p m).board t = if t = m.dst then movedMan p m else if t = m.src then none else p.board t :=
  apply_board_plain p m h.notCastle h.notEp t

theorem after_board_other (h : Ctx p m k) {t : Sq} (h1 : t ≠ m.dst) (h2 : t ≠ m.src) :
    (apply p m).board t = p.board t := by
  rw [h.after_board, if_neg h1, if_neg h2]

theorem after_board_dst (h : Ctx p m k) : (apply p m).board m.dst = movedMan p m := by
  rw [h.after_board, if_pos rfl]

theorem after_board_src (h : Ctx p m k) : (apply p m).board m.src = none := by
  rw [h.after_board, if_neg h.dst_ne_src.symm, if_pos rfl]

/-- a square is empty after the move iff it is not the destination and was empty or is the source -/
theorem after_empty (h : Ctx p m k) (z : Sq) :
    (apply p m).empty z = true ↔ z ≠ m.dst ∧ (z = m.src ∨ p.empty z = true) := by
  rw [empty_iff, empty_iff]
  by_cases h1 : z = m.dst
  · subst h1
    rw [h.after_board_dst]
    obtain ⟨pc', hm, _⟩ := h.plain.moved
    rw [hm]
    simp
  · by_cases h2 : z = m.src
    · subst h2
      rw [h.after_board_src]
      simp [h1]
    · rw [h.after_board_other h1 h2]
      simp [h1, h2]

/-- the enemy men after the move: those that were there and were not captured -/
theorem after_enemy (h : Ctx p m k) (x : Sq) :
    (apply p m).colorAt x = some p.stm.other ↔ x ≠ m.dst ∧ p.colorAt x = some p.stm.other := by
  by_cases h1 : x = m.dst
  · subst h1
    rw [colorAt_iff, h.after_board_dst]
    obtain ⟨pc', hm, _⟩ := h.plain.moved
    rw [hm]
    constructor
    · rintro ⟨pc, hpc⟩
      have := (Prod.mk.inj (Option.some.inj hpc)).2
      exact absurd this.symm (Color.other_ne p.stm)
    · rintro ⟨h0, _⟩; exact absurd rfl h0
  · by_cases h2 : x = m.src
    · subst h2
      rw [colorAt_iff, h.after_board_src]
      constructor
      · rintro ⟨pc, hpc⟩; cases hpc
      · rintro ⟨_, h3⟩; exact absurd rfl (h.enemy_ne_src h3)
    · unfold Pos.colorAt
      rw [h.after_board_other h1 h2]
      exact ⟨fun h3 => ⟨h1, h3⟩, fun h3 => h3.2⟩

/-- the king has not moved and is still the only king of its colour -/
theorem after_king (h : Ctx p m k) : KingAt (apply p m) p.stm k := by
  intro t
  by_cases h1 : t = m.dst
  · subst h1
    rw [h.after_board_dst]
    obtain ⟨pc', hm, hk⟩ := h.plain.moved
    rw [hm]
    constructor
    · intro he
      exact absurd (Prod.mk.inj (Option.some.inj he)).1 hk
    · intro he; exact absurd he h.dst_ne_king
  · by_cases h2 : t = m.src
    · subst h2
      rw [h.after_board_src]
      constructor
      · intro he; cases he
      · intro he; exact absurd he h.srcNe
    · rw [h.after_board_other h1 h2]
      exact h.king t

theorem after_kingSq (h : Ctx p m k) : kingSq? (apply p m) p.stm = some k := kingSq?_of_KingAt h.after_king

/-- the path from `x` to the king after the move -/
theorem after_pathClear (h : Ctx p m k) (x : Sq) :
    pathClear (apply p m) x k = true ↔
      ∀ z, strictlyBetween x z k = true → z ≠ m.dst ∧ (z = m.src ∨ p.empty z = true) := by
  rw [pathClear_iff]
  constructor
  · intro h1 z hz; exact (h.after_empty z).mp (h1 z hz)
  · intro h1 z hz; exact (h.after_empty z).mpr (h1 z hz)

/-- **attack after the move**: an enemy man `x` (not captured) attacks the king afterwards iff it is a
leaper that attacked it before, or a slider aligned with the king whose path holds nothing but the
vacated source square and does not contain the destination -/
theorem after_attacks (h : Ctx p m k) {x : Sq} (hx : p.colorAt x = some p.stm.other) (hd : x ≠ m.dst) :
    attacks (apply p m) x k = true ↔
      ((sliderAligned (p.board x) x k = true ∧
          ∀ z, strictlyBetween x z k = true → z ≠ m.dst ∧ (z = m.src ∨ p.empty z = true)) ∨
        leaperAtt (p.board x) x k = true) := by
  rw [attacks_eq, h.after_board_other hd (h.enemy_ne_src hx)]
  simp only [Bool.or_eq_true, Bool.and_eq_true, h.after_pathClear]

/-- a leaper attacks the king after the move iff it did before (and was not captured) -/
theorem after_attacks_leaper (h : Ctx p m k) {x : Sq} (hx : p.colorAt x = some p.stm.other)
    (hd : x ≠ m.dst) (hl : sliderAligned (p.board x) x k = false) :
    attacks (apply p m) x k = attacks p x k := by
  rw [attacks_eq, attacks_eq, h.after_board_other hd (h.enemy_ne_src hx), hl]
  simp

/-- the mover is in check after the move iff some enemy man attacks the king afterwards -/
theorem after_inCheck (h : Ctx p m k) :
    inCheck (apply p m) p.stm = true ↔
      ∃ x, p.colorAt x = some p.stm.other ∧ x ≠ m.dst ∧
        ((sliderAligned (p.board x) x k = true ∧
            ∀ z, strictlyBetween x z k = true → z ≠ m.dst ∧ (z = m.src ∨ p.empty z = true)) ∨
          leaperAtt (p.board x) x k = true) := by
  unfold inCheck
  rw [h.after_kingSq]
  unfold attackedBy
  rw [allSq_any]
  simp only [Bool.and_eq_true, beq_iff_eq]
  constructor
  · rintro ⟨x, h1, h2⟩
    obtain ⟨hd, hx⟩ := (h.after_enemy x).mp h1
    exact ⟨x, hx, hd, (h.after_attacks hx hd).mp h2⟩
  · rintro ⟨x, hx, hd, h2⟩
    exact ⟨x, (h.after_enemy x).mpr ⟨hd, hx⟩, (h.after_attacks hx hd).mpr h2⟩

end Ctx

/-- legality of a pseudo-legal non-king, non-en-passant move: no enemy man attacks the king afterwards -/
theorem legal_iff_after {p : Pos} {m : Move} {k : Sq} (h : Ctx p m k) (hpl : pseudoLegal p m = true) :
    legal p m = true ↔
      ¬ ∃ x, p.colorAt x = some p.stm.other ∧ x ≠ m.dst ∧
        ((sliderAligned (p.board x) x k = true ∧
            ∀ z, strictlyBetween x z k = true → z ≠ m.dst ∧ (z = m.src ∨ p.empty z = true)) ∨
          leaperAtt (p.board x) x k = true) := by
  unfold legal
  rw [hpl, Bool.true_and, ← h.after_inCheck]
  simp

end PinCheck
end Chess
