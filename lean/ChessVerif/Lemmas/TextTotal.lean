import ChessVerif.Lemmas.Text
/-!
Totality of the FEN and SAN scanners and the characterisation of the SAN move loop
(`San.loop`, the `for m in &mut MoveGen::new_legal(board)` loop of `ChessMove::from_san`).
-/
namespace Chess

theorem parseBuilder_ne_panic (s : List Char) : parseBuilder s ≠ .panic := by
  unfold parseBuilder
  simp only
  split
  · split
    · simp
    · split
      · simp
      · split
        · rename_i h; exact absurd h (parseSquare_ne_panic _)
        · simp
        · simp
  · simp

namespace San

theorem fromSan_ne_panic (T : Tables) (b : Board) (s : List Char) : fromSan T b s ≠ .panic := by
  unfold fromSan
  simp only
  split
  · split <;> split <;> simp
  · split
    · simp
    · split <;> simp

/-! ### the move loop -/

variable (b : Board) (f : Fields)

/-- once a move has been found, any further base match is an error -/
theorem loop_some : ∀ (l : List Move) (m0 : Move),
    loop b f l (some m0) = if l.any (baseMatch b f) then none else some (some m0)
  | [], m0 => by simp [loop]
  | x :: xs, m0 => by
    by_cases hx : baseMatch b f x = true
    · simp [loop, hx]
    · simp [loop, hx, loop_some xs m0]

/-- the loop only ever returns an element of the list it scans (or the move it started with) -/
theorem loop_mem : ∀ (l : List Move) (found : Option Move) (m : Move),
    loop b f l found = some (some m) → m ∈ l ∨ found = some m
  | [], found, m, h => by
    simp only [loop] at h
    injection h with h
    exact Or.inr h
  | x :: xs, found, m, h => by
    simp only [loop] at h
    split at h
    · rcases loop_mem xs found m h with h | h
      · exact Or.inl (List.mem_cons_of_mem _ h)
      · exact Or.inr h
    · split at h
      · cases h
      · split at h
        · rcases loop_mem xs found m h with h | h
          · exact Or.inl (List.mem_cons_of_mem _ h)
          · exact Or.inr h
        · rcases loop_mem xs (some x) m h with h | h
          · exact Or.inl (List.mem_cons_of_mem _ h)
          · injection h with h; subst h; exact Or.inl (List.mem_cons_self ..)

theorem any_eq_filter_ne_nil {α} (p : α → Bool) (l : List α) :
    l.any p = !(l.filter p).isEmpty := by
  induction l with
  | nil => rfl
  | cons x xs ih =>
    by_cases hx : p x = true
    · simp [hx]
    · simp [hx, ih]

/-- exact description of the loop started with `found = None`: drop the non-matching moves, drop the
leading base matches that the capture filter skips; nothing left = not found (`some none`), exactly
one left = that move, more than one left = `Err` from inside the loop (`none`). -/
theorem loop_none_eq : ∀ (l : List Move),
    loop b f l none =
      match (l.filter (baseMatch b f)).dropWhile (takesSkip b f) with
      | [] => some none
      | [m] => some (some m)
      | _ :: _ :: _ => none
  | [] => by simp [loop]
  | x :: xs => by
    by_cases hx : baseMatch b f x = true
    · by_cases hs : takesSkip b f x = true
      · simp [loop, hx, hs, loop_none_eq xs]
      · simp only [loop, hx, hs, Bool.not_true, Bool.false_eq_true, if_false, Option.isSome_none,
          List.filter_cons, if_true, List.dropWhile_cons]
        rw [loop_some, any_eq_filter_ne_nil]
        cases List.filter (baseMatch b f) xs <;> simp
    · simp [loop, hx, loop_none_eq xs]

theorem mem_dropWhile_of_not {α} (p : α → Bool) : ∀ (l : List α) (x : α),
    x ∈ l → p x = false → x ∈ l.dropWhile p
  | y :: ys, x, hx, hp => by
    rw [List.dropWhile_cons]
    split
    · rename_i hy
      rcases List.mem_cons.1 hx with h | h
      · subst h; rw [hp] at hy; cases hy
      · exact mem_dropWhile_of_not p ys x h hp
    · exact hx

theorem dropWhile_eq_singleton {α} (p : α → Bool) : ∀ (l : List α) (m : α),
    l.dropWhile p = [m] ↔ ∃ pre, l = pre ++ [m] ∧ (∀ x ∈ pre, p x = true) ∧ p m = false
  | [], m => by simp
  | y :: ys, m => by
    rw [List.dropWhile_cons]
    by_cases hy : p y = true
    · rw [if_pos hy, dropWhile_eq_singleton p ys m]
      constructor
      · rintro ⟨pre, h1, h2, h3⟩
        refine ⟨y :: pre, by simp [h1], ?_, h3⟩
        intro x hx
        rcases List.mem_cons.1 hx with h | h
        · subst h; exact hy
        · exact h2 x h
      · rintro ⟨pre, h1, h2, h3⟩
        cases pre with
        | nil =>
          simp only [List.nil_append, List.cons.injEq] at h1
          rw [h1.1, h3] at hy; cases hy
        | cons z zs =>
          simp only [List.cons_append, List.cons.injEq] at h1
          exact ⟨zs, h1.2, fun x hx => h2 x (List.mem_cons_of_mem _ hx), h3⟩
    · rw [if_neg hy]
      constructor
      · intro h
        injection h with h1 h2
        subst h1; subst h2
        exact ⟨[], rfl, by simp, by simpa using hy⟩
      · rintro ⟨pre, h1, h2, h3⟩
        cases pre with
        | nil => simpa using h1
        | cons z zs =>
          simp only [List.cons_append, List.cons.injEq] at h1
          have := h2 z (List.mem_cons_self ..)
          rw [← h1.1] at this
          exact absurd this hy

theorem dropWhile_eq_nil {α} (p : α → Bool) : ∀ (l : List α),
    l.dropWhile p = [] ↔ ∀ x ∈ l, p x = true
  | [] => by simp
  | y :: ys => by
    rw [List.dropWhile_cons]
    by_cases hy : p y = true
    · rw [if_pos hy, dropWhile_eq_nil p ys]; simp [hy]
    · rw [if_neg hy]; simp [hy]

theorem dropWhile_eq_cons {α} (p : α → Bool) : ∀ (l : List α) (x : α) (r : List α),
    l.dropWhile p = x :: r → p x = false ∧ x ∈ l ∧ ∀ y ∈ r, y ∈ l
  | y :: ys, x, r, h => by
    rw [List.dropWhile_cons] at h
    by_cases hy : p y = true
    · rw [if_pos hy] at h
      obtain ⟨h1, h2, h3⟩ := dropWhile_eq_cons p ys x r h
      exact ⟨h1, List.mem_cons_of_mem _ h2, fun z hz => List.mem_cons_of_mem _ (h3 z hz)⟩
    · rw [if_neg hy] at h
      injection h with h1 h2
      subst h1; subst h2
      exact ⟨by simpa using hy, List.mem_cons_self .., fun z hz => List.mem_cons_of_mem _ hz⟩

/-- the loop accepts `m` exactly when the base matches of `l`, in order, are a run of moves skipped
by the capture filter followed by `m`, which passes it, and nothing after `m` -/
theorem loop_ok_iff (l : List Move) (m : Move) :
    loop b f l none = some (some m) ↔
      ∃ pre, l.filter (baseMatch b f) = pre ++ [m] ∧ (∀ x ∈ pre, takesSkip b f x = true) ∧
        takesSkip b f m = false := by
  rw [loop_none_eq, ← dropWhile_eq_singleton]
  split
  · rename_i h; simp [h]
  · rename_i m' h; simp [h]
  · rename_i h; simp [h]

/-- "not found": every base match is skipped by the capture filter -/
theorem loop_notfound_iff (l : List Move) :
    loop b f l none = some none ↔ ∀ x ∈ l, baseMatch b f x = true → takesSkip b f x = true := by
  rw [loop_none_eq]
  split
  · rename_i h
    rw [dropWhile_eq_nil] at h
    simp only [true_iff]
    intro x hx hb
    exact h x (List.mem_filter.2 ⟨hx, hb⟩)
  · rename_i m h
    have := dropWhile_eq_cons _ _ _ _ h
    have hm := List.mem_filter.1 this.2.1
    constructor
    · intro h'; cases h'
    · intro hall; rw [hall m hm.1 hm.2] at this; cases this.1
  · rename_i x y ys h
    have := dropWhile_eq_cons _ _ _ _ h
    have hm := List.mem_filter.1 this.2.1
    constructor
    · intro h'; cases h'
    · intro hall; rw [hall x hm.1 hm.2] at this; cases this.1

/-- the capture filter gives the same answer on all base matches whenever the text is not a pawn
capture without the ` e.p.` suffix onto an empty square -/
theorem takesSkip_uniform
    (hc : f.piece ≠ .pawn ∨ f.takes = false ∨ f.ep = true ∨ (b.pieceOn f.dest).isSome = true)
    {x y : Move} (hx : baseMatch b f x = true) (hy : baseMatch b f y = true) :
    takesSkip b f x = takesSkip b f y := by
  have dx : x.dst = f.dest := by
    simp only [baseMatch, Bool.and_eq_true, beq_iff_eq] at hx; exact hx.1.2
  have dy : y.dst = f.dest := by
    simp only [baseMatch, Bool.and_eq_true, beq_iff_eq] at hy; exact hy.1.2
  unfold takesSkip
  rw [dx, dy]
  rcases hc with h | h | h | h
  · have : (f.piece == Piece.pawn) = false := by simpa using h
    simp [this]
  · simp [h]
  · simp [h]
  · have : (b.pieceOn f.dest).isNone = false := by
      cases hp : b.pieceOn f.dest <;> simp [hp] at h ⊢
    simp [this]

/-- filtering a duplicate-free list by a predicate with a single witness -/
theorem filter_eq_singleton {α} [DecidableEq α] (p : α → Bool) (l : List α) (m : α)
    (hnd : l.Nodup) (hm : m ∈ l) (hp : p m = true) (hu : ∀ x ∈ l, p x = true → x = m) :
    l.filter p = [m] := by
  have hnd' : (l.filter p).Nodup := hnd.filter _
  have hmem : m ∈ l.filter p := List.mem_filter.2 ⟨hm, hp⟩
  have hall : ∀ x ∈ l.filter p, x = m := fun x hx =>
    let h := List.mem_filter.1 hx; hu x h.1 h.2
  cases hl : l.filter p with
  | nil => rw [hl] at hmem; cases hmem
  | cons a as =>
    rw [hl] at hnd' hall
    have ha : a = m := hall a (List.mem_cons_self ..)
    cases as with
    | nil => rw [ha]
    | cons c cs =>
      have hc : c = m := hall c (by simp)
      rw [ha, hc] at hnd'
      simp at hnd'

/-- every move returned by `from_san` is one of the generated legal moves -/
theorem fromSan_mem (T : Tables) (s : List Char) (m : Move)
    (h : fromSan T b s = .ok m) : m ∈ b.legalMoves T := by
  unfold fromSan at h
  simp only at h
  have aux : ∀ (l : List Move) (x : Move) (c : Bool),
      (if (c && l.contains x) = true then Res.ok x else Res.err) = Res.ok m → m ∈ l := by
    intro l x c hx
    split at hx
    · rename_i hc
      injection hx with hx
      subst hx
      rw [Bool.and_eq_true] at hc
      exact List.contains_iff_mem.1 hc.2
    · cases hx
  split at h
  · exact aux _ _ _ h
  · split at h
    · cases h
    · rename_i f hf
      split at h
      · rename_i m' hl
        injection h with h
        subst h
        rcases loop_mem b f _ _ _ hl with h | h
        · exact h
        · cases h
      · cases h

/-- accepted ⇒ `m` is the only element of `l` that is a base match and passes the capture filter;
every other base match stands before `m` in `l` and is skipped by the capture filter -/
theorem loop_ok_unique (l : List Move) (m : Move) (h : loop b f l none = some (some m)) :
    m ∈ l ∧ baseMatch b f m = true ∧ takesSkip b f m = false ∧
    (∀ x ∈ l, baseMatch b f x = true → x ≠ m → takesSkip b f x = true) := by
  obtain ⟨pre, h1, h2, h3⟩ := (loop_ok_iff b f l m).1 h
  have hm : m ∈ l.filter (baseMatch b f) := by rw [h1]; simp
  have hm' := List.mem_filter.1 hm
  refine ⟨hm'.1, hm'.2, h3, ?_⟩
  intro x hx hb hne
  have : x ∈ l.filter (baseMatch b f) := List.mem_filter.2 ⟨hx, hb⟩
  rw [h1] at this
  rcases List.mem_append.1 this with h | h
  · exact h2 x h
  · simp at h; exact absurd h hne

/-- accepted, and the capture filter does not distinguish the base matches of `l` ⇒ `m` is the one
and only base match in `l` (one occurrence) -/
theorem loop_ok_filter (l : List Move) (m : Move)
    (hu : ∀ x ∈ l, ∀ y ∈ l, baseMatch b f x = true → baseMatch b f y = true →
      takesSkip b f x = takesSkip b f y)
    (h : loop b f l none = some (some m)) :
    l.filter (baseMatch b f) = [m] := by
  obtain ⟨pre, h1, h2, h3⟩ := (loop_ok_iff b f l m).1 h
  have hm : m ∈ l.filter (baseMatch b f) := by rw [h1]; simp
  have hm' := List.mem_filter.1 hm
  cases pre with
  | nil => simpa using h1
  | cons z zs =>
    have hz : z ∈ l.filter (baseMatch b f) := by rw [h1]; simp
    have hz' := List.mem_filter.1 hz
    have := hu z hz'.1 m hm'.1 hz'.2 hm'.2
    rw [h2 z (List.mem_cons_self ..), h3] at this
    cases this

theorem loop_of_filter (l : List Move) (m : Move)
    (hf : l.filter (baseMatch b f) = [m]) (hs : takesSkip b f m = false) :
    loop b f l none = some (some m) :=
  (loop_ok_iff b f l m).2 ⟨[], by simpa using hf, by simp, hs⟩

/-- two different base matches that both pass the capture filter ⇒ `Err` from inside the loop -/
theorem loop_ambiguous (l : List Move) (m₁ m₂ : Move) (h1 : m₁ ∈ l) (h2 : m₂ ∈ l) (hne : m₁ ≠ m₂)
    (hb1 : baseMatch b f m₁ = true) (hb2 : baseMatch b f m₂ = true)
    (hs1 : takesSkip b f m₁ = false) (hs2 : takesSkip b f m₂ = false) :
    loop b f l none = none := by
  rw [loop_none_eq]
  have g1 := mem_dropWhile_of_not (takesSkip b f) _ m₁ (List.mem_filter.2 ⟨h1, hb1⟩) hs1
  have g2 := mem_dropWhile_of_not (takesSkip b f) _ m₂ (List.mem_filter.2 ⟨h2, hb2⟩) hs2
  split
  · rename_i h; rw [h] at g1; cases g1
  · rename_i m h
    rw [h] at g1 g2
    simp at g1 g2
    exact absurd (g1.trans g2.symm) hne
  · rfl

/-- two different base matches, capture filter uniform on base matches ⇒ no move is returned -/
theorem loop_ambiguous_uniform (l : List Move) (m₁ m₂ : Move) (h1 : m₁ ∈ l) (h2 : m₂ ∈ l)
    (hne : m₁ ≠ m₂) (hb1 : baseMatch b f m₁ = true) (hb2 : baseMatch b f m₂ = true)
    (hu : ∀ x ∈ l, ∀ y ∈ l, baseMatch b f x = true → baseMatch b f y = true →
      takesSkip b f x = takesSkip b f y) :
    loop b f l none = none ∨ loop b f l none = some none := by
  cases hs : takesSkip b f m₁ with
  | false =>
    exact Or.inl (loop_ambiguous b f l m₁ m₂ h1 h2 hne hb1 hb2 hs
      (by rw [← hu m₁ h1 m₂ h2 hb1 hb2]; exact hs))
  | true =>
    refine Or.inr ((loop_notfound_iff b f l).2 ?_)
    intro x hx hb
    rw [hu x hx m₁ h1 hb hb1]; exact hs

end San
end Chess
