import ChessVerif.Lemmas.BitBoard
import ChessVerif.Geom
/-
Bridge library, part 1: membership in every `Geom` bitboard as its defining Boolean predicate,
coordinates of squares, `sq?` / `step?` / `onRay` in coordinates.
-/
namespace Chess

/-! ### membership in `setOf` tables -/

theorem mem_setOf (p : Sq → Bool) (s : Sq) : (Geom.setOf p).getLsbD s.val = p s := by
  unfold Geom.setOf
  rw [BB.getLsbD_ofList]
  cases h : p s <;> simp [List.mem_filter, allSq, List.mem_finRange, h]

/-- bits at positions `≥ 64` are clear -/
theorem BB.getLsbD_ge (b : BB) (i : Nat) (h : 64 ≤ i) : b.getLsbD i = false :=
  BitVec.getLsbD_of_ge b i h

theorem mem_between (a b x : Sq) : (Geom.between a b).getLsbD x.val = strictlyBetween a x b := by
  unfold Geom.between; rw [mem_setOf]

theorem mem_line (a b x : Sq) : (Geom.line a b).getLsbD x.val =
    (a != b && (b.file - a.file == 0 || b.rank - a.rank == 0 ||
        (b.file - a.file).natAbs == (b.rank - a.rank).natAbs) &&
      (x.file - a.file) * (b.rank - a.rank) == (x.rank - a.rank) * (b.file - a.file)) := by
  unfold Geom.line; rw [mem_setOf]

theorem mem_king (s x : Sq) : (Geom.king s).getLsbD x.val =
    (x != s && decide ((x.file - s.file).natAbs ≤ 1) && decide ((x.rank - s.rank).natAbs ≤ 1)) := by
  unfold Geom.king; rw [mem_setOf]

theorem mem_knight (s x : Sq) : (Geom.knight s).getLsbD x.val =
    (((x.file - s.file).natAbs == 1 && (x.rank - s.rank).natAbs == 2) ||
     ((x.file - s.file).natAbs == 2 && (x.rank - s.rank).natAbs == 1)) := by
  unfold Geom.knight; rw [mem_setOf]

theorem mem_pawnAttacks (c : Color) (s x : Sq) : (Geom.pawnAttacks c s).getLsbD x.val =
    (x.rank - s.rank == c.fwd && (x.file - s.file).natAbs == 1) := by
  unfold Geom.pawnAttacks; rw [mem_setOf]

theorem mem_pawnMoves (c : Color) (s x : Sq) : (Geom.pawnMoves c s).getLsbD x.val =
    (x.file == s.file && (x.rank - s.rank == c.fwd ||
      (x.rank - s.rank == 2 * c.fwd && s.rank == c.pawnRank))) := by
  unfold Geom.pawnMoves; rw [mem_setOf]

theorem mem_files (f : Fin 8) (x : Sq) : (Geom.files f).getLsbD x.val = (x.fileN == f.val) := by
  unfold Geom.files; rw [mem_setOf]

theorem mem_ranks (r : Fin 8) (x : Sq) : (Geom.ranks r).getLsbD x.val = (x.rankN == r.val) := by
  unfold Geom.ranks; rw [mem_setOf]

theorem mem_adjFiles (f : Fin 8) (x : Sq) :
    (Geom.adjFiles f).getLsbD x.val = ((x.file - (f.val : Int)).natAbs == 1) := by
  unfold Geom.adjFiles; rw [mem_setOf]

theorem mem_edges (x : Sq) : Geom.edges.getLsbD x.val =
    (x.fileN == 0 || x.fileN == 7 || x.rankN == 0 || x.rankN == 7) := by
  unfold Geom.edges; rw [mem_setOf]

theorem mem_pawnSrcDouble (x : Sq) :
    Geom.pawnSrcDouble.getLsbD x.val = (x.rankN == 1 || x.rankN == 6) := by
  unfold Geom.pawnSrcDouble; rw [mem_setOf]

theorem mem_pawnDstDouble (x : Sq) :
    Geom.pawnDstDouble.getLsbD x.val = (x.rankN == 3 || x.rankN == 4) := by
  unfold Geom.pawnDstDouble; rw [mem_setOf]

theorem mem_ksCastle (c : Color) (x : Sq) : (Geom.ksCastle c).getLsbD x.val =
    (x.rank == c.homeRank && (x.fileN == 5 || x.fileN == 6)) := by
  unfold Geom.ksCastle; rw [mem_setOf]

theorem mem_qsCastle (c : Color) (x : Sq) : (Geom.qsCastle c).getLsbD x.val =
    (x.rank == c.homeRank && (x.fileN == 1 || x.fileN == 2 || x.fileN == 3)) := by
  unfold Geom.qsCastle; rw [mem_setOf]

theorem mem_castleMoves (x : Sq) : Geom.castleMoves.getLsbD x.val =
    ((x.rankN == 0 || x.rankN == 7) && (x.fileN == 2 || x.fileN == 4 || x.fileN == 6)) := by
  unfold Geom.castleMoves; rw [mem_setOf]

/-! ### coordinates -/

theorem Sq.coord_bounds (s : Sq) : 0 ≤ s.file ∧ s.file < 8 ∧ 0 ≤ s.rank ∧ s.rank < 8 := by
  have := s.isLt
  unfold Sq.file Sq.rank
  omega

theorem Sq.val_coord (s : Sq) : (s.val : Int) = s.rank * 8 + s.file := by
  unfold Sq.file Sq.rank
  omega

theorem Sq.file_eq_fileN (s : Sq) : s.file = (s.fileN : Int) := rfl
theorem Sq.rank_eq_rankN (s : Sq) : s.rank = (s.rankN : Int) := rfl

theorem Sq.ext_coord {a b : Sq} (hf : a.file = b.file) (hr : a.rank = b.rank) : a = b := by
  apply Fin.ext
  have ha := Sq.val_coord a
  have hb := Sq.val_coord b
  omega

theorem Sq.eq_iff_coord (a b : Sq) : a = b ↔ a.file = b.file ∧ a.rank = b.rank :=
  ⟨fun h => by subst h; exact ⟨rfl, rfl⟩, fun h => Sq.ext_coord h.1 h.2⟩

theorem sq?_eq_some_iff (f r : Int) (x : Sq) : sq? f r = some x ↔ x.file = f ∧ x.rank = r := by
  have hx := Sq.coord_bounds x
  have hv := Sq.val_coord x
  unfold sq?
  split
  · rename_i h
    simp only [Option.some.injEq]
    constructor
    · intro he
      have : (r * 8 + f).toNat = x.val := by rw [← he]
      omega
    · intro he
      apply Fin.ext
      show (r * 8 + f).toNat = x.val
      omega
  · rename_i h
    constructor
    · intro he; cases he
    · intro he; exfalso; apply h; omega

theorem sq?_eq_none_iff (f r : Int) : sq? f r = none ↔ ¬ (0 ≤ f ∧ f < 8 ∧ 0 ≤ r ∧ r < 8) := by
  unfold sq?
  split <;> simp_all

theorem step?_eq_some (a : Sq) (u : Dir) (n : Nat) (x : Sq) :
    step? a u n = some x ↔ x.file = a.file + n * u.df ∧ x.rank = a.rank + n * u.dr := by
  unfold step?; exact sq?_eq_some_iff _ _ _

theorem onRay_iff (a : Sq) (u : Dir) (n : Nat) (b : Sq) :
    onRay a u n b = true ↔ 0 < n ∧ b.file = a.file + n * u.df ∧ b.rank = a.rank + n * u.dr := by
  unfold onRay
  rw [Bool.and_eq_true, decide_eq_true_eq, beq_iff_eq, step?_eq_some]

theorem onRay_iff_step (a : Sq) (u : Dir) (n : Nat) (b : Sq) :
    onRay a u n b = true ↔ 0 < n ∧ step? a u n = some b := by
  unfold onRay
  rw [Bool.and_eq_true, decide_eq_true_eq, beq_iff_eq]

/-- a square reached along a ray is at most 7 steps away -/
theorem onRay_le7 {a : Sq} {u : Dir} {n : Nat} {b : Sq} (h : onRay a u n b = true) : n ≤ 7 := by
  rw [onRay_iff] at h
  have ha := Sq.coord_bounds a
  have hb := Sq.coord_bounds b
  obtain ⟨h0, h1, h2⟩ := h
  cases u <;> simp only [Dir.df, Dir.dr] at h1 h2 <;> omega

theorem onRay_ne {a : Sq} {u : Dir} {n : Nat} {b : Sq} (h : onRay a u n b = true) : b ≠ a := by
  rw [onRay_iff] at h
  obtain ⟨h0, h1, h2⟩ := h
  intro he; subst he
  cases u <;> simp only [Dir.df, Dir.dr] at h1 h2 <;> omega

/-- two rays from the same square never meet; along one ray the step count is determined -/
theorem ray_dir_unique {k : Sq} {u u' : Dir} {t t' : Nat} {y : Sq}
    (h : onRay k u t y = true) (h' : onRay k u' t' y = true) : u = u' ∧ t = t' := by
  rw [onRay_iff] at h h'
  obtain ⟨h0, h1, h2⟩ := h
  obtain ⟨h0', h1', h2'⟩ := h'
  cases u <;> cases u' <;> simp only [Dir.df, Dir.dr] at h1 h2 h1' h2' <;>
    first
    | (refine ⟨rfl, ?_⟩; omega)
    | (exfalso; omega)

/-- `step?` is injective in the step count -/
theorem step?_inj {s : Sq} {u : Dir} {n m : Nat} {x : Sq}
    (h : step? s u n = some x) (h' : step? s u m = some x) : n = m := by
  rw [step?_eq_some] at h h'
  obtain ⟨h1, h2⟩ := h
  obtain ⟨h1', h2'⟩ := h'
  cases u <;> simp only [Dir.df, Dir.dr] at h1 h2 h1' h2' <;> omega

/-- if the `n`-th square of a ray is on the board, so is every nearer one -/
theorem step?_isSome_of_le {s : Sq} {u : Dir} {n m : Nat} {x : Sq}
    (h : step? s u n = some x) (hm : m ≤ n) : ∃ z, step? s u m = some z := by
  rw [step?_eq_some] at h
  obtain ⟨h1, h2⟩ := h
  have hs := Sq.coord_bounds s
  have hx := Sq.coord_bounds x
  cases hz : step? s u m with
  | some z => exact ⟨z, rfl⟩
  | none =>
    exfalso
    unfold step? at hz
    rw [sq?_eq_none_iff] at hz
    apply hz
    cases u <;> simp only [Dir.df, Dir.dr] at h1 h2 ⊢ <;> omega

end Chess
