import ChessVerif.Lemmas.GeomBridge3
/-
Bridge library, part 4: ray walking = "aligned along one of the directions and nothing strictly
between" — the shape of `slides` in the specification.
-/
namespace Chess

/-- Prop form of the headline lemma, for every list of directions -/
theorem mem_sliderWalk_iff (ds : List Dir) (s : Sq) (occ : BB) (x : Sq) :
    (Geom.sliderWalk ds s occ).getLsbD x.val = true ↔
      aligned ds s x = true ∧ ∀ z, strictlyBetween s z x = true → occ.has z = false := by
  rw [getLsbD_sliderWalk, List.any_eq_true, aligned_iff]
  constructor
  · rintro ⟨u, hu, h⟩
    obtain ⟨n, hn, hpre⟩ := (mem_walkL_ray s u occ x).mp h
    refine ⟨⟨u, hu, n, hn⟩, ?_⟩
    intro z hsb
    obtain ⟨u', n', t', h1, h2, h3⟩ := (strictlyBetween_iff s z x).mp hsb
    obtain ⟨hu', hn'⟩ := ray_dir_unique hn h1
    subst hu' hn'
    exact hpre t' z h3 h2
  · rintro ⟨⟨u, hu, n, hn⟩, hall⟩
    refine ⟨u, hu, (mem_walkL_ray s u occ x).mpr ⟨n, hn, ?_⟩⟩
    intro t z ht hz
    exact hall z ((strictlyBetween_iff s z x).mpr ⟨u, n, t, hn, hz, ht⟩)

theorem pathClearBB_iff (occ : BB) (s x : Sq) :
    (allSq.all fun z => !strictlyBetween s z x || !occ.has z) = true ↔
      ∀ z, strictlyBetween s z x = true → occ.has z = false := by
  rw [List.all_eq_true]
  constructor
  · intro h z hz
    have := h z (List.mem_finRange z)
    simpa [hz] using this
  · intro h z _
    cases hz : strictlyBetween s z x with
    | false => rfl
    | true => simp [h z hz]

/-- headline lemma, for every list of directions: ray walking = aligned and nothing strictly between -/
theorem mem_sliderWalk_gen (ds : List Dir) (s : Sq) (occ : BB) (x : Sq) :
    (Geom.sliderWalk ds s occ).getLsbD x.val =
      (aligned ds s x && allSq.all (fun z => !strictlyBetween s z x || !occ.has z)) := by
  rw [Bool.eq_iff_iff, mem_sliderWalk_iff, Bool.and_eq_true, pathClearBB_iff]

/-- headline lemma in the requested form (the hypothesis on `ds` is not needed; see `mem_sliderWalk_gen`) -/
theorem mem_sliderWalk (ds : List Dir) (_hds : ds = rookDirs ∨ ds = bishopDirs ∨ ds = allDirs)
    (s : Sq) (occ : BB) (x : Sq) :
    (Geom.sliderWalk ds s occ).getLsbD x.val =
      (aligned ds s x && allSq.all (fun z => !strictlyBetween s z x || !occ.has z)) :=
  mem_sliderWalk_gen ds s occ x

theorem mem_rookWalk (s : Sq) (occ : BB) (x : Sq) :
    (Geom.rookWalk s occ).getLsbD x.val =
      (aligned rookDirs s x && allSq.all (fun z => !strictlyBetween s z x || !occ.has z)) :=
  mem_sliderWalk_gen rookDirs s occ x

theorem mem_bishopWalk (s : Sq) (occ : BB) (x : Sq) :
    (Geom.bishopWalk s occ).getLsbD x.val =
      (aligned bishopDirs s x && allSq.all (fun z => !strictlyBetween s z x || !occ.has z)) :=
  mem_sliderWalk_gen bishopDirs s occ x

/-- with an occupancy bitboard that is the set of non-empty squares of `p`, ray walking is `slides` -/
theorem mem_sliderWalk_slides (ds : List Dir) (p : Pos) (occ : BB)
    (hocc : ∀ z, occ.has z = !p.empty z) (s x : Sq) :
    (Geom.sliderWalk ds s occ).getLsbD x.val = slides ds p s x := by
  rw [mem_sliderWalk_gen]
  unfold slides pathClear
  congr 2
  funext z
  rw [hocc, Bool.not_not]

theorem mem_sliderRays (ds : List Dir) (s x : Sq) :
    (Geom.sliderWalk ds s 0#64).getLsbD x.val = aligned ds s x := by
  rw [Bool.eq_iff_iff, mem_sliderWalk_iff]
  constructor
  · exact fun h => h.1
  · exact fun h => ⟨h, fun z _ => by simp [BB.has]⟩

theorem mem_rookRays (s x : Sq) : (Geom.rookRays s).getLsbD x.val = aligned rookDirs s x :=
  mem_sliderRays rookDirs s x

theorem mem_bishopRays (s x : Sq) : (Geom.bishopRays s).getLsbD x.val = aligned bishopDirs s x :=
  mem_sliderRays bishopDirs s x

/-! ### rook and bishop directions never meet -/

theorem rookDirs_bishopDirs_disjoint {u : Dir} (h1 : u ∈ rookDirs) (h2 : u ∈ bishopDirs) : False := by
  cases u <;> simp [rookDirs, bishopDirs] at h1 h2

theorem aligned_rook_bishop_disjoint {s x : Sq} (h1 : aligned rookDirs s x = true)
    (h2 : aligned bishopDirs s x = true) : False := by
  rw [aligned_iff] at h1 h2
  obtain ⟨u, hu, n, hn⟩ := h1
  obtain ⟨u', hu', n', hn'⟩ := h2
  obtain ⟨he, _⟩ := ray_dir_unique hn hn'
  subst he
  exact rookDirs_bishopDirs_disjoint hu hu'

theorem aligned_allDirs (a b : Sq) :
    aligned allDirs a b = (aligned rookDirs a b || aligned bishopDirs a b) := by
  unfold aligned allDirs
  rw [List.any_append]

theorem aligned_allDirs_of_rook {a b : Sq} (h : aligned rookDirs a b = true) :
    aligned allDirs a b = true := by rw [aligned_allDirs, h]; rfl

theorem aligned_allDirs_of_bishop {a b : Sq} (h : aligned bishopDirs a b = true) :
    aligned allDirs a b = true := by rw [aligned_allDirs, h]; simp

/-- the walks of the rook and the bishop from the same square are disjoint (any occupancies) -/
theorem rookWalk_and_bishopWalk (s : Sq) (occ occ' : BB) :
    Geom.rookWalk s occ &&& Geom.bishopWalk s occ' = 0#64 := by
  apply BitVec.eq_of_getLsbD_eq
  intro i hi
  have hr := mem_rookWalk s occ ⟨i, hi⟩
  have hb := mem_bishopWalk s occ' ⟨i, hi⟩
  simp only at hr hb
  rw [BitVec.getLsbD_and, BitVec.getLsbD_zero]
  cases h1 : (Geom.rookWalk s occ).getLsbD i with
  | false => rfl
  | true =>
    cases h2 : (Geom.bishopWalk s occ').getLsbD i with
    | false => rfl
    | true =>
      rw [h1] at hr; rw [h2] at hb
      have hr' := hr.symm; have hb' := hb.symm
      rw [Bool.and_eq_true] at hr' hb'
      exact (aligned_rook_bishop_disjoint hr'.1 hb'.1).elim

/-- the queen's move set: the code's xor of the two walks is their union -/
theorem rookWalk_xor_bishopWalk (s : Sq) (occ occ' : BB) :
    Geom.rookWalk s occ ^^^ Geom.bishopWalk s occ' = Geom.rookWalk s occ ||| Geom.bishopWalk s occ' := by
  have h := rookWalk_and_bishopWalk s occ occ'
  apply BitVec.eq_of_getLsbD_eq
  intro i hi
  have hi' : (Geom.rookWalk s occ &&& Geom.bishopWalk s occ').getLsbD i = false := by rw [h]; simp
  rw [BitVec.getLsbD_and] at hi'
  rw [BitVec.getLsbD_xor, BitVec.getLsbD_or]
  cases h1 : (Geom.rookWalk s occ).getLsbD i <;> cases h2 : (Geom.bishopWalk s occ').getLsbD i <;>
    simp_all

/-- walking all eight directions is the union of the rook's and the bishop's walks -/
theorem sliderWalk_allDirs (s : Sq) (occ : BB) :
    Geom.sliderWalk allDirs s occ = Geom.rookWalk s occ ||| Geom.bishopWalk s occ := by
  apply BitVec.eq_of_getLsbD_eq
  intro i _
  unfold Geom.rookWalk Geom.bishopWalk
  rw [BitVec.getLsbD_or, getLsbD_sliderWalk, getLsbD_sliderWalk, getLsbD_sliderWalk]
  unfold allDirs
  rw [List.any_append]

/-- membership in the queen's move set as computed by the code (xor of the two walks) -/
theorem mem_queenWalk (s : Sq) (occ : BB) (x : Sq) :
    (Geom.rookWalk s occ ^^^ Geom.bishopWalk s occ).getLsbD x.val =
      (aligned allDirs s x && allSq.all (fun z => !strictlyBetween s z x || !occ.has z)) := by
  rw [rookWalk_xor_bishopWalk, ← sliderWalk_allDirs, mem_sliderWalk_gen]

end Chess
