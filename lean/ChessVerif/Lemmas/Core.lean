import ChessVerif.Lemmas.Bits
import ChessVerif.Refine.Abs
import ChessVerif.Lemmas.Hash
/-!
`Core T b`: the structural invariant of a `Board` — piece boards pairwise disjoint, colour boards
disjoint and covering exactly `combined`, every occupied square has a piece kind, and the raw
`hash` field is the xor of the placement keys.  Established by `try_from`, preserved by every
single-man toggle that `make_move` performs (`xor_add`, `xor_remove`).
-/
namespace Chess

/-- bit `i` of the board of piece kind `p` -/
abbrev Board.pbit (b : Board) (p : Piece) (i : Nat) : Bool := (b.pieces p).getLsbD i
abbrev Board.cbit (b : Board) (c : Color) (i : Nat) : Bool := (b.colorCombined c).getLsbD i

/-- placement key of square `s` as read through the per-square queries -/
def keyAt (T : Tables) (b : Board) (s : Sq) : BB :=
  match b.pieceOn s, b.colorOn s with
  | some p, some c => T.zPiece c p s
  | _, _ => 0#64

def placementHash (T : Tables) (b : Board) : BB := allSq.foldl (fun h s => h ^^^ keyAt T b s) 0#64

/-- the structural part: boards disjoint and consistent -/
structure Struct (b : Board) : Prop where
  piece_disj : ∀ i x y, x ≠ y → b.pbit x i = true → b.pbit y i = false
  color_disj : ∀ i, b.white.getLsbD i = true → b.black.getLsbD i = false
  comb_color : ∀ i, b.combined.getLsbD i = (b.white.getLsbD i || b.black.getLsbD i)
  comb_piece : ∀ i, b.combined.getLsbD i = true ↔ ∃ p, b.pbit p i = true

structure Core (T : Tables) (b : Board) : Prop extends Struct b where
  hash : b.hash = placementHash T b

/-! ### per-square queries in terms of bits -/

/-- `piece_on` as a function of the seven bits it reads -/
def pieceOnBits (cb pp nn bb rr qq : Bool) : Option Piece :=
  if cb = false then none
  else if ((pp ^^ nn) ^^ bb) = true then
    (if pp = true then some .pawn else if nn = true then some .knight else some .bishop)
  else (if rr = true then some .rook else if qq = true then some .queen else some .king)

theorem pieceOn_bits (b : Board) (s : Sq) :
    b.pieceOn s = pieceOnBits (b.combined.getLsbD s.val) (b.pawns.getLsbD s.val) (b.knights.getLsbD s.val)
      (b.bishops.getLsbD s.val) (b.rooks.getLsbD s.val) (b.queens.getLsbD s.val) := by
  unfold Board.pieceOn pieceOnBits
  simp only [and_ofSq_eq_zero_iff, and_ofSq_ne_zero_iff, BitVec.getLsbD_xor]

theorem pieceOnBits_spec : ∀ cb pp nn bb rr qq kk : Bool,
    -- pairwise disjoint, and combined = union
    (cb = (pp || nn || bb || rr || qq || kk)) →
    ((pp && nn) = false) → ((pp && bb) = false) → ((pp && rr) = false) → ((pp && qq) = false) → ((pp && kk) = false) →
    ((nn && bb) = false) → ((nn && rr) = false) → ((nn && qq) = false) → ((nn && kk) = false) →
    ((bb && rr) = false) → ((bb && qq) = false) → ((bb && kk) = false) →
    ((rr && qq) = false) → ((rr && kk) = false) → ((qq && kk) = false) →
    ∀ p : Piece, (pieceOnBits cb pp nn bb rr qq = some p ↔
      (match p with | .pawn => pp | .knight => nn | .bishop => bb | .rook => rr | .queen => qq | .king => kk) = true) := by
  intro cb pp nn bb rr qq kk
  cases cb <;> cases pp <;> cases nn <;> cases bb <;> cases rr <;> cases qq <;> cases kk <;>
    simp [pieceOnBits] <;> intro p <;> cases p <;> simp

theorem colorOn_bits (b : Board) (s : Sq) :
    b.colorOn s = if b.white.getLsbD s.val = true then some .white
                  else if b.black.getLsbD s.val = true then some .black else none := by
  unfold Board.colorOn
  simp only [and_ofSq_ne_zero_iff]

end Chess

namespace Chess

/-! ### the hash is a function of the position (C08) -/

theorem placementHash_eq_abs (T : Tables) (b : Board) :
    placementHash T b = allSq.foldl (fun h s => match b.abs.board s with
      | some (pc, c) => h ^^^ T.zPiece c pc s
      | none => h) 0#64 := by
  unfold placementHash
  congr 1
  funext h s
  unfold keyAt Board.abs
  dsimp only
  cases b.pieceOn s <;> cases b.colorOn s <;> simp

theorem castleRights_eta (b : Board) (c : Color) :
    (⟨(b.castleRights c).ks, (b.castleRights c).qs⟩ : CastleRights) = b.castleRights c := rfl

theorem xor_swap_mid (A E X Y S : BB) : A ^^^ E ^^^ X ^^^ Y ^^^ S = A ^^^ E ^^^ Y ^^^ X ^^^ S := by
  apply BitVec.eq_of_getLsbD_eq; intro i _
  simp only [BitVec.getLsbD_xor]
  cases A.getLsbD i <;> cases E.getLsbD i <;> cases X.getLsbD i <;> cases Y.getLsbD i <;> cases S.getLsbD i <;> rfl

/-- `get_hash` of a board whose raw hash is the placement hash depends only on the position -/
theorem getHash_eq_hashOf (T : Tables) (b : Board) (h : b.hash = placementHash T b) :
    b.getHash T = b.abs.hashOf T := by
  unfold Board.getHash Pos.hashOf
  dsimp only
  rw [h, placementHash_eq_abs]
  have e1 : b.abs.ep = b.ep := rfl
  have e2 : b.abs.stm = b.stm := rfl
  have e3 : ∀ c, (⟨b.abs.castleK c, b.abs.castleQ c⟩ : CastleRights) = b.castleRights c := fun c => rfl
  rw [e1, e2, e3, e3]
  cases hs : b.stm with
  | white => rfl
  | black =>
    simp only [Color.other]
    exact xor_swap_mid _ _ _ _ _

end Chess

namespace Chess

/-! ### field lemmas for `Board.xor` -/

theorem xor_pieces (T : Tables) (b : Board) (p q : Piece) (bb : BB) (c : Color) :
    (b.xor T p bb c).pieces q = if q = p then b.pieces q ^^^ bb else b.pieces q := by
  cases p <;> cases q <;> cases c <;> rfl

theorem xor_colorCombined (T : Tables) (b : Board) (p : Piece) (bb : BB) (c d : Color) :
    (b.xor T p bb c).colorCombined d = if d = c then b.colorCombined d ^^^ bb else b.colorCombined d := by
  cases p <;> cases c <;> cases d <;> rfl

theorem xor_combined (T : Tables) (b : Board) (p : Piece) (bb : BB) (c : Color) :
    (b.xor T p bb c).combined = b.combined ^^^ bb := by
  cases p <;> cases c <;> rfl

theorem xor_hash (T : Tables) (b : Board) (p : Piece) (bb : BB) (c : Color) :
    (b.xor T p bb c).hash = b.hash ^^^ T.zPiece c p bb.toSq := by
  cases p <;> cases c <;> rfl

theorem xor_stm (T : Tables) (b : Board) (p : Piece) (bb : BB) (c : Color) : (b.xor T p bb c).stm = b.stm := by
  cases p <;> cases c <;> rfl
theorem xor_ep (T : Tables) (b : Board) (p : Piece) (bb : BB) (c : Color) : (b.xor T p bb c).ep = b.ep := by
  cases p <;> cases c <;> rfl
theorem xor_wcr (T : Tables) (b : Board) (p : Piece) (bb : BB) (c : Color) : (b.xor T p bb c).wcr = b.wcr := by
  cases p <;> cases c <;> rfl
theorem xor_bcr (T : Tables) (b : Board) (p : Piece) (bb : BB) (c : Color) : (b.xor T p bb c).bcr = b.bcr := by
  cases p <;> cases c <;> rfl
theorem xor_pinned (T : Tables) (b : Board) (p : Piece) (bb : BB) (c : Color) : (b.xor T p bb c).pinned = b.pinned := by
  cases p <;> cases c <;> rfl
theorem xor_checkers (T : Tables) (b : Board) (p : Piece) (bb : BB) (c : Color) : (b.xor T p bb c).checkers = b.checkers := by
  cases p <;> cases c <;> rfl

theorem white_eq (b : Board) : b.white = b.colorCombined .white := rfl
theorem black_eq (b : Board) : b.black = b.colorCombined .black := rfl

/-- the content of a square, read from the bits -/
def Board.content (b : Board) (s : Sq) : Option (Piece × Color) :=
  match b.pieceOn s, b.colorOn s with
  | some p, some c => some (p, c)
  | _, _ => none

theorem abs_board (b : Board) : b.abs.board = b.content := rfl

theorem keyAt_content (T : Tables) (b : Board) (s : Sq) :
    keyAt T b s = match b.content s with | some (p, c) => T.zPiece c p s | none => 0#64 := by
  unfold keyAt Board.content
  cases b.pieceOn s <;> cases b.colorOn s <;> rfl

theorem pieceOn_some_iff {b : Board} (h : Struct b) (s : Sq) (p : Piece) :
    b.pieceOn s = some p ↔ b.pbit p s.val = true := by
  rw [pieceOn_bits]
  have hd := h.piece_disj s.val
  have hc := h.comb_piece s.val
  have dj : ∀ x y : Piece, x ≠ y → (b.pbit x s.val && b.pbit y s.val) = false := by
    intro x y hxy
    cases hx : b.pbit x s.val with
    | false => rfl
    | true => rw [hd x y hxy hx]; rfl
  have hcomb : b.combined.getLsbD s.val = (b.pawns.getLsbD s.val || b.knights.getLsbD s.val || b.bishops.getLsbD s.val
      || b.rooks.getLsbD s.val || b.queens.getLsbD s.val || b.kings.getLsbD s.val) := by
    cases hcb : b.combined.getLsbD s.val with
    | true =>
      obtain ⟨q, hq⟩ := hc.mp hcb
      cases q <;> (simp only [Board.pbit, Board.pieces] at hq; rw [hq]; simp only [Bool.or_true, Bool.true_or])
    | false =>
      have hno : ∀ q, b.pbit q s.val = false := by
        intro q
        cases hq : b.pbit q s.val with
        | false => rfl
        | true => have := hc.mpr ⟨q, hq⟩; rw [hcb] at this; cases this
      have h1 := hno .pawn; have h2 := hno .knight; have h3 := hno .bishop
      have h4 := hno .rook; have h5 := hno .queen; have h6 := hno .king
      simp only [Board.pbit, Board.pieces] at h1 h2 h3 h4 h5 h6
      rw [h1, h2, h3, h4, h5, h6]; rfl
  have hgoal : b.pbit p s.val = (match p with
      | Piece.pawn => BitVec.getLsbD b.pawns ↑s | Piece.knight => BitVec.getLsbD b.knights ↑s
      | Piece.bishop => BitVec.getLsbD b.bishops ↑s | Piece.rook => BitVec.getLsbD b.rooks ↑s
      | Piece.queen => BitVec.getLsbD b.queens ↑s | Piece.king => BitVec.getLsbD b.kings ↑s) := by
    cases p <;> rfl
  rw [hgoal]
  exact pieceOnBits_spec _ _ _ _ _ _ _ hcomb
    (dj .pawn .knight (by decide)) (dj .pawn .bishop (by decide)) (dj .pawn .rook (by decide)) (dj .pawn .queen (by decide))
    (dj .pawn .king (by decide)) (dj .knight .bishop (by decide)) (dj .knight .rook (by decide)) (dj .knight .queen (by decide))
    (dj .knight .king (by decide)) (dj .bishop .rook (by decide)) (dj .bishop .queen (by decide)) (dj .bishop .king (by decide))
    (dj .rook .queen (by decide)) (dj .rook .king (by decide)) (dj .queen .king (by decide)) p

theorem pieceOn_none_iff (b : Board) (s : Sq) : b.pieceOn s = none ↔ b.combined.getLsbD s.val = false := by
  rw [pieceOn_bits]
  unfold pieceOnBits
  cases b.combined.getLsbD s.val with
  | false => simp
  | true =>
    simp only [if_false, Bool.true_eq_false]
    constructor
    · intro hh
      split at hh
      · split at hh
        · cases hh
        · split at hh <;> cases hh
      · split at hh
        · cases hh
        · split at hh <;> cases hh
    · intro hh; cases hh

theorem Struct.color_of_comb {b : Board} (h : Struct b) (i : Nat) :
    b.combined.getLsbD i = true → (b.white.getLsbD i = true ∨ b.black.getLsbD i = true) := by
  intro hc
  have := h.comb_color i
  rw [hc] at this
  cases hw : b.white.getLsbD i with
  | true => exact Or.inl rfl
  | false =>
    cases hb : b.black.getLsbD i with
    | true => exact Or.inr rfl
    | false => rw [hw, hb] at this; cases this

theorem colorOn_white {b : Board} {s : Sq} (hw : b.white.getLsbD s.val = true) : b.colorOn s = some .white := by
  rw [colorOn_bits, if_pos hw]
theorem colorOn_black {b : Board} {s : Sq} (hw : b.white.getLsbD s.val = false) (hb : b.black.getLsbD s.val = true) :
    b.colorOn s = some .black := by
  rw [colorOn_bits, if_neg (by rw [hw]; decide), if_pos hb]
theorem colorOn_none {b : Board} {s : Sq} (hw : b.white.getLsbD s.val = false) (hb : b.black.getLsbD s.val = false) :
    b.colorOn s = none := by
  rw [colorOn_bits, if_neg (by rw [hw]; decide), if_neg (by rw [hb]; decide)]

theorem Struct.content_none_iff {b : Board} (h : Struct b) (s : Sq) :
    b.content s = none ↔ b.combined.getLsbD s.val = false := by
  unfold Board.content
  constructor
  · intro hn
    cases hc : b.combined.getLsbD s.val with
    | false => rfl
    | true =>
      exfalso
      obtain ⟨p, hp⟩ := (h.comb_piece s.val).mp hc
      have hpo := (pieceOn_some_iff h s p).mpr hp
      rcases h.color_of_comb s.val hc with hw | hb
      · rw [hpo, colorOn_white hw] at hn; cases hn
      · cases hw : b.white.getLsbD s.val with
        | true => rw [hpo, colorOn_white hw] at hn; cases hn
        | false => rw [hpo, colorOn_black hw hb] at hn; cases hn
  · intro hc
    rw [(pieceOn_none_iff b s).mpr hc]

theorem Struct.content_some_iff {b : Board} (h : Struct b) (s : Sq) (p : Piece) (c : Color) :
    b.content s = some (p, c) ↔ b.pbit p s.val = true ∧ b.cbit c s.val = true := by
  unfold Board.content
  constructor
  · intro hs
    cases hpo : b.pieceOn s with
    | none => rw [hpo] at hs; cases hs
    | some p' =>
      cases hw : b.white.getLsbD s.val with
      | true =>
        rw [hpo, colorOn_white hw] at hs
        injection hs with hs; injection hs with h1 h2
        subst h1 h2
        exact ⟨(pieceOn_some_iff h s p').mp hpo, hw⟩
      | false =>
        cases hb : b.black.getLsbD s.val with
        | true =>
          rw [hpo, colorOn_black hw hb] at hs
          injection hs with hs; injection hs with h1 h2
          subst h1 h2
          exact ⟨(pieceOn_some_iff h s p').mp hpo, hb⟩
        | false => rw [hpo, colorOn_none hw hb] at hs; cases hs
  · rintro ⟨hp, hc⟩
    rw [(pieceOn_some_iff h s p).mpr hp]
    cases c with
    | white =>
      have hw : b.white.getLsbD s.val = true := hc
      rw [colorOn_white hw]
    | black =>
      have hb : b.black.getLsbD s.val = true := hc
      have hw : b.white.getLsbD s.val = false := by
        cases hw : b.white.getLsbD s.val with
        | false => rfl
        | true => have := h.color_disj s.val hw; rw [hb] at this; cases this
      rw [colorOn_black hw hb]

end Chess

namespace Chess

/-! ### toggling one man: bits -/

theorem xor_pbit (T : Tables) (b : Board) (p q : Piece) (s : Sq) (c : Color) (i : Nat) :
    (b.xor T p (BB.ofSq s) c).pbit q i = if q = p ∧ i = s.val then !b.pbit q i else b.pbit q i := by
  unfold Board.pbit
  rw [xor_pieces]
  by_cases hq : q = p
  · rw [if_pos hq, getLsbD_xor_ofSq]
    by_cases hi : i = s.val
    · rw [if_pos hi, if_pos ⟨hq, hi⟩]
    · rw [if_neg hi, if_neg (fun h => hi h.2)]
  · rw [if_neg hq, if_neg (fun h => hq h.1)]

theorem xor_cbit (T : Tables) (b : Board) (p : Piece) (s : Sq) (c d : Color) (i : Nat) :
    (b.xor T p (BB.ofSq s) c).cbit d i = if d = c ∧ i = s.val then !b.cbit d i else b.cbit d i := by
  unfold Board.cbit
  rw [xor_colorCombined]
  by_cases hq : d = c
  · rw [if_pos hq, getLsbD_xor_ofSq]
    by_cases hi : i = s.val
    · rw [if_pos hi, if_pos ⟨hq, hi⟩]
    · rw [if_neg hi, if_neg (fun h => hi h.2)]
  · rw [if_neg hq, if_neg (fun h => hq h.1)]

theorem xor_combbit (T : Tables) (b : Board) (p : Piece) (s : Sq) (c : Color) (i : Nat) :
    (b.xor T p (BB.ofSq s) c).combined.getLsbD i = if i = s.val then !b.combined.getLsbD i else b.combined.getLsbD i := by
  rw [xor_combined, getLsbD_xor_ofSq]

theorem Struct.empty_bits {b : Board} (h : Struct b) (i : Nat) (he : b.combined.getLsbD i = false) :
    (∀ q, b.pbit q i = false) ∧ b.white.getLsbD i = false ∧ b.black.getLsbD i = false := by
  refine ⟨?_, ?_, ?_⟩
  · intro q
    cases hq : b.pbit q i with
    | false => rfl
    | true => have := (h.comb_piece i).mpr ⟨q, hq⟩; rw [he] at this; cases this
  · have := h.comb_color i; rw [he] at this
    cases hw : b.white.getLsbD i with
    | false => rfl
    | true => rw [hw] at this; cases this
  · have := h.comb_color i; rw [he] at this
    cases hb : b.black.getLsbD i with
    | false => rfl
    | true => rw [hb, Bool.or_true] at this; cases this

theorem cbit_white (b : Board) (i : Nat) : b.cbit .white i = b.white.getLsbD i := rfl
theorem cbit_black (b : Board) (i : Nat) : b.cbit .black i = b.black.getLsbD i := rfl

/-- placing a man on an empty square keeps the structure -/
theorem Struct.xor_add {b : Board} (T : Tables) (h : Struct b) (s : Sq) (p : Piece) (c : Color)
    (he : b.combined.getLsbD s.val = false) : Struct (b.xor T p (BB.ofSq s) c) := by
  obtain ⟨hp0, hw0, hb0⟩ := h.empty_bits s.val he
  constructor
  · intro i x y hxy hx
    rw [xor_pbit] at hx ⊢
    by_cases hi : i = s.val
    · subst hi
      by_cases hxp : x = p
      · subst hxp
        rw [if_neg (fun hh => hxy hh.1.symm), hp0]
      · rw [if_neg (fun hh => hxp hh.1), hp0] at hx; cases hx
    · rw [if_neg (fun hh => hi hh.2)] at hx ⊢
      exact h.piece_disj i x y hxy hx
  · intro i hw
    rw [white_eq, ← Board.cbit, xor_cbit] at hw
    rw [black_eq, ← Board.cbit, xor_cbit]
    by_cases hi : i = s.val
    · subst hi
      cases c with
      | white => rw [if_neg (fun hh => by cases hh.1), cbit_black, hb0]
      | black => rw [if_neg (fun hh => by cases hh.1), cbit_white, hw0] at hw; cases hw
    · rw [if_neg (fun hh => hi hh.2)] at hw ⊢
      exact h.color_disj i hw
  · intro i
    rw [xor_combbit, white_eq, black_eq, ← Board.cbit, ← Board.cbit, xor_cbit, xor_cbit]
    by_cases hi : i = s.val
    · subst hi
      rw [if_pos rfl, he, cbit_white, cbit_black, hw0, hb0]
      cases c <;> simp
    · rw [if_neg hi, if_neg (fun hh => hi hh.2), if_neg (fun hh => hi hh.2)]
      exact h.comb_color i
  · intro i
    rw [xor_combbit]
    by_cases hi : i = s.val
    · subst hi
      rw [if_pos rfl, he]
      constructor
      · intro _; exact ⟨p, by rw [xor_pbit, if_pos ⟨rfl, rfl⟩, hp0]; rfl⟩
      · intro _; rfl
    · rw [if_neg hi]
      constructor
      · intro hc
        obtain ⟨q, hq⟩ := (h.comb_piece i).mp hc
        exact ⟨q, by rw [xor_pbit, if_neg (fun hh => hi hh.2)]; exact hq⟩
      · rintro ⟨q, hq⟩
        rw [xor_pbit, if_neg (fun hh => hi hh.2)] at hq
        exact (h.comb_piece i).mpr ⟨q, hq⟩

/-- removing the man that stands on a square keeps the structure -/
theorem Struct.xor_remove {b : Board} (T : Tables) (h : Struct b) (s : Sq) (p : Piece) (c : Color)
    (hp : b.pbit p s.val = true) (hc : b.cbit c s.val = true) : Struct (b.xor T p (BB.ofSq s) c) := by
  have hcomb : b.combined.getLsbD s.val = true := (h.comb_piece s.val).mpr ⟨p, hp⟩
  have hother : ∀ q, q ≠ p → b.pbit q s.val = false := fun q hq => h.piece_disj s.val p q (Ne.symm hq) hp
  have hocW : c = .white → b.cbit .black s.val = false := by
    intro hcw; subst hcw; exact h.color_disj s.val hc
  have hocB : c = .black → b.cbit .white s.val = false := by
    intro hcb; subst hcb
    cases hw : b.cbit Color.white s.val with
    | false => rfl
    | true => have := h.color_disj s.val hw; rw [← cbit_black, hc] at this; cases this
  constructor
  · intro i x y hxy hx
    rw [xor_pbit] at hx ⊢
    by_cases hi : i = s.val
    · subst hi
      by_cases hxp : x = p
      · subst hxp; rw [if_pos ⟨rfl, rfl⟩, hp] at hx; cases hx
      · rw [if_neg (fun hh => hxp hh.1), hother x hxp] at hx; cases hx
    · rw [if_neg (fun hh => hi hh.2)] at hx ⊢
      exact h.piece_disj i x y hxy hx
  · intro i hw
    rw [white_eq, ← Board.cbit, xor_cbit] at hw
    rw [black_eq, ← Board.cbit, xor_cbit]
    by_cases hi : i = s.val
    · subst hi
      cases c with
      | white => rw [if_pos ⟨rfl, rfl⟩, hc] at hw; cases hw
      | black => rw [if_neg (fun hh => by cases hh.1)] at hw; rw [hocB rfl] at hw; cases hw
    · rw [if_neg (fun hh => hi hh.2)] at hw ⊢
      exact h.color_disj i hw
  · intro i
    rw [xor_combbit, white_eq, black_eq, ← Board.cbit, ← Board.cbit, xor_cbit, xor_cbit]
    by_cases hi : i = s.val
    · subst hi
      rw [if_pos rfl, hcomb]
      cases c with
      | white => rw [if_pos ⟨rfl, rfl⟩, if_neg (fun hh => by cases hh.1), hc, hocW rfl]; rfl
      | black => rw [if_neg (fun hh => by cases hh.1), if_pos ⟨rfl, rfl⟩, hc, hocB rfl]; rfl
    · rw [if_neg hi, if_neg (fun hh => hi hh.2), if_neg (fun hh => hi hh.2)]
      exact h.comb_color i
  · intro i
    rw [xor_combbit]
    by_cases hi : i = s.val
    · subst hi
      rw [if_pos rfl, hcomb]
      constructor
      · intro hh; cases hh
      · rintro ⟨q, hq⟩
        rw [xor_pbit] at hq
        by_cases hqp : q = p
        · subst hqp; rw [if_pos ⟨rfl, rfl⟩, hp] at hq; cases hq
        · rw [if_neg (fun hh => hqp hh.1), hother q hqp] at hq; cases hq
    · rw [if_neg hi]
      constructor
      · intro hc
        obtain ⟨q, hq⟩ := (h.comb_piece i).mp hc
        exact ⟨q, by rw [xor_pbit, if_neg (fun hh => hi hh.2)]; exact hq⟩
      · rintro ⟨q, hq⟩
        rw [xor_pbit, if_neg (fun hh => hi hh.2)] at hq
        exact (h.comb_piece i).mpr ⟨q, hq⟩

end Chess

namespace Chess

/-! ### toggling one man: contents and hash -/

theorem Struct.content_eq_of_bits {b b' : Board} (h : Struct b) (h' : Struct b') (t : Sq)
    (hp : ∀ q, b'.pbit q t.val = b.pbit q t.val) (hc : ∀ d, b'.cbit d t.val = b.cbit d t.val)
    (hcomb : b'.combined.getLsbD t.val = b.combined.getLsbD t.val) : b'.content t = b.content t := by
  cases hb : b.content t with
  | none =>
    rw [h'.content_none_iff, hcomb, ← h.content_none_iff]; exact hb
  | some pc =>
    obtain ⟨q, d⟩ := pc
    rw [h'.content_some_iff, hp, hc, ← h.content_some_iff]; exact hb

theorem content_xor_add {b : Board} (T : Tables) (h : Struct b) (s : Sq) (p : Piece) (c : Color)
    (he : b.combined.getLsbD s.val = false) (t : Sq) :
    (b.xor T p (BB.ofSq s) c).content t = if t = s then some (p, c) else b.content t := by
  have h' := h.xor_add T s p c he
  obtain ⟨hp0, hw0, hb0⟩ := h.empty_bits s.val he
  by_cases hts : t = s
  · subst hts
    rw [if_pos rfl, h'.content_some_iff, xor_pbit, xor_cbit, if_pos ⟨rfl, rfl⟩, if_pos ⟨rfl, rfl⟩, hp0]
    refine ⟨rfl, ?_⟩
    cases c with
    | white => rw [cbit_white, hw0]; rfl
    | black => rw [cbit_black, hb0]; rfl
  · rw [if_neg hts]
    have hv : t.val ≠ s.val := fun hh => hts (Fin.ext hh)
    apply h.content_eq_of_bits h'
    · intro q; rw [xor_pbit, if_neg (fun hh => hv hh.2)]
    · intro d; rw [xor_cbit, if_neg (fun hh => hv hh.2)]
    · rw [xor_combbit, if_neg hv]

theorem content_xor_remove {b : Board} (T : Tables) (h : Struct b) (s : Sq) (p : Piece) (c : Color)
    (hp : b.pbit p s.val = true) (hc : b.cbit c s.val = true) (t : Sq) :
    (b.xor T p (BB.ofSq s) c).content t = if t = s then none else b.content t := by
  have h' := h.xor_remove T s p c hp hc
  have hcomb : b.combined.getLsbD s.val = true := (h.comb_piece s.val).mpr ⟨p, hp⟩
  by_cases hts : t = s
  · subst hts
    rw [if_pos rfl, h'.content_none_iff, xor_combbit, if_pos rfl, hcomb]; rfl
  · rw [if_neg hts]
    have hv : t.val ≠ s.val := fun hh => hts (Fin.ext hh)
    apply h.content_eq_of_bits h'
    · intro q; rw [xor_pbit, if_neg (fun hh => hv hh.2)]
    · intro d; rw [xor_cbit, if_neg (fun hh => hv hh.2)]
    · rw [xor_combbit, if_neg hv]

theorem Core.xor_add {T : Tables} {b : Board} (h : Core T b) (s : Sq) (p : Piece) (c : Color)
    (he : b.combined.getLsbD s.val = false) : Core T (b.xor T p (BB.ofSq s) c) := by
  refine ⟨h.toStruct.xor_add T s p c he, ?_⟩
  rw [xor_hash, toSq_ofSq, h.hash]
  unfold placementHash
  rw [foldl_xor_update (keyAt T b) (keyAt T (b.xor T p (BB.ofSq s) c)) allSq 0#64 s allSq_nodup (mem_allSq s)]
  · rw [keyAt_content, keyAt_content, content_xor_add T h.toStruct s p c he, if_pos rfl,
      (h.toStruct.content_none_iff s).mpr he]
    simp only [BitVec.xor_zero]
  · intro t ht
    rw [keyAt_content, keyAt_content, content_xor_add T h.toStruct s p c he, if_neg ht]

theorem Core.xor_remove {T : Tables} {b : Board} (h : Core T b) (s : Sq) (p : Piece) (c : Color)
    (hp : b.pbit p s.val = true) (hc : b.cbit c s.val = true) : Core T (b.xor T p (BB.ofSq s) c) := by
  refine ⟨h.toStruct.xor_remove T s p c hp hc, ?_⟩
  rw [xor_hash, toSq_ofSq, h.hash]
  unfold placementHash
  rw [foldl_xor_update (keyAt T b) (keyAt T (b.xor T p (BB.ofSq s) c)) allSq 0#64 s allSq_nodup (mem_allSq s)]
  · rw [keyAt_content, keyAt_content, content_xor_remove T h.toStruct s p c hp hc, if_pos rfl,
      (h.toStruct.content_some_iff s p c).mpr ⟨hp, hc⟩]
    simp only [BitVec.xor_zero]
  · intro t ht
    rw [keyAt_content, keyAt_content, content_xor_remove T h.toStruct s p c hp hc, if_neg ht]

end Chess
