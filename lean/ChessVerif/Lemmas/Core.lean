import ChessVerif.Lemmas.Bits
import ChessVerif.Refine.Abs
/-!
`Core T b`: the structural invariant of a `Board` — piece boards pairwise disjoint, colour boards
disjoint and covering exactly `combined`, every occupied square has a piece kind, and the raw
`hash` field is the xor of the placement keys.  Established by `try_from`, preserved by every
single-man toggle that `make_move` performs (`xor_add`, `xor_remove`).
-/
namespace Chess

/-- bit `i` of the board of piece kind `p` -/
abbrev Board.pbit (b : Board) (p : Piece) (i : Nat) : Bool := (b.pieces p).getLsbD i
abbrev Board.cbit (b : Board) (c : Color) (i : Nat) : Bool := (b.colorCombined c).getLsbD i

/-- placement key of square `s` as read through the per-square queries -/
def keyAt (T : Tables) (b : Board) (s : Sq) : BB :=
  match b.pieceOn s, b.colorOn s with
  | some p, some c => T.zPiece c p s
  | _, _ => 0#64

def placementHash (T : Tables) (b : Board) : BB := allSq.foldl (fun h s => h ^^^ keyAt T b s) 0#64

structure Core (T : Tables) (b : Board) : Prop where
  piece_disj : ∀ i x y, x ≠ y → b.pbit x i = true → b.pbit y i = false
  color_disj : ∀ i, b.white.getLsbD i = true → b.black.getLsbD i = false
  comb_color : ∀ i, b.combined.getLsbD i = (b.white.getLsbD i || b.black.getLsbD i)
  comb_piece : ∀ i, b.combined.getLsbD i = true ↔ ∃ p, b.pbit p i = true
  hash : b.hash = placementHash T b

/-! ### per-square queries in terms of bits -/

/-- `piece_on` as a function of the seven bits it reads -/
def pieceOnBits (cb pp nn bb rr qq : Bool) : Option Piece :=
  if cb = false then none
  else if ((pp ^^ nn) ^^ bb) = true then
    (if pp = true then some .pawn else if nn = true then some .knight else some .bishop)
  else (if rr = true then some .rook else if qq = true then some .queen else some .king)

theorem pieceOn_bits (b : Board) (s : Sq) :
    b.pieceOn s = pieceOnBits (b.combined.getLsbD s.val) (b.pawns.getLsbD s.val) (b.knights.getLsbD s.val)
      (b.bishops.getLsbD s.val) (b.rooks.getLsbD s.val) (b.queens.getLsbD s.val) := by
  unfold Board.pieceOn pieceOnBits
  simp only [and_ofSq_eq_zero_iff, and_ofSq_ne_zero_iff, BitVec.getLsbD_xor]

theorem pieceOnBits_spec : ∀ cb pp nn bb rr qq kk : Bool,
    -- pairwise disjoint, and combined = union
    (cb = (pp || nn || bb || rr || qq || kk)) →
    ((pp && nn) = false) → ((pp && bb) = false) → ((pp && rr) = false) → ((pp && qq) = false) → ((pp && kk) = false) →
    ((nn && bb) = false) → ((nn && rr) = false) → ((nn && qq) = false) → ((nn && kk) = false) →
    ((bb && rr) = false) → ((bb && qq) = false) → ((bb && kk) = false) →
    ((rr && qq) = false) → ((rr && kk) = false) → ((qq && kk) = false) →
    ∀ p : Piece, (pieceOnBits cb pp nn bb rr qq = some p ↔
      (match p with | .pawn => pp | .knight => nn | .bishop => bb | .rook => rr | .queen => qq | .king => kk) = true) := by
  intro cb pp nn bb rr qq kk
  cases cb <;> cases pp <;> cases nn <;> cases bb <;> cases rr <;> cases qq <;> cases kk <;>
    simp [pieceOnBits] <;> intro p <;> cases p <;> simp

theorem colorOn_bits (b : Board) (s : Sq) :
    b.colorOn s = if b.white.getLsbD s.val = true then some .white
                  else if b.black.getLsbD s.val = true then some .black else none := by
  unfold Board.colorOn
  simp only [and_ofSq_ne_zero_iff]

end Chess
