import ChessVerif.Gen.Data
/-!
# No Zobrist key is the xor of two other keys — the kernel-checkable test and its soundness

Works on the literal key list `Gen.zKeyList : List Nat`.  All evaluation-relevant definitions use the
kernel-accelerated `Nat` primitives (`Nat.xor`, `Nat.mod`, `Nat.shiftRight`, `Nat.land`, `Nat.beq`)
directly and recurse with `List.rec`-style structural recursion, so that `decide +kernel` on a chunk
of outer keys costs a few hundred thousand kernel reductions.

Membership test: two Bloom bitmaps (`bloomA`: bit `k % 65536`, `bloomB`: bit `(k >>> 16) % 65536`
for every key `k`) are consulted first; only if both bits are set is the key list scanned.
-/
namespace Chess.KeyDeps

/-- bit `n` of `F`, on accelerated primitives -/
def bit (F n : Nat) : Bool := Nat.beq (Nat.land 1 (Nat.shiftRight F n)) 1

def hashA (k : Nat) : Nat := Nat.mod k 65536
def hashB (k : Nat) : Nat := Nat.mod (Nat.shiftRight k 16) 65536

/-- bitmap with bit `h k` set for every `k` of the list -/
def bloom (h : Nat → Nat) : List Nat → Nat
  | [] => 0
  | k :: ks => Nat.lor (Nat.shiftLeft 1 (h k)) (bloom h ks)

/-- plain scan -/
def scan (x : Nat) : List Nat → Bool
  | [] => false
  | k :: ks => match Nat.beq x k with
    | true => true
    | false => scan x ks

/-- filtered membership in `ks`, given bitmaps `A`, `B` -/
def memFast (A B : Nat) (ks : List Nat) (x : Nat) : Bool :=
  match bit A (hashA x) with
  | false => false
  | true => match bit B (hashB x) with
    | false => false
    | true => scan x ks

/-- `x ^^^ y` is not a key, for every `y` of the list -/
def inner (A B : Nat) (ks : List Nat) (x : Nat) : List Nat → Bool
  | [] => true
  | y :: ys => match memFast A B ks (Nat.xor x y) with
    | true => false
    | false => inner A B ks x ys

/-- the first `n` elements of the list, each against its tail -/
def ntFrom (A B : Nat) (ks : List Nat) : List Nat → Nat → Bool
  | [], _ => true
  | _ :: _, 0 => true
  | x :: xs, n+1 => match inner A B ks x xs with
    | false => false
    | true => ntFrom A B ks xs n

/-! ## soundness -/

theorem bit_eq_testBit (F n : Nat) : bit F n = F.testBit n := by
  unfold bit Nat.testBit
  show Nat.beq (1 &&& (F >>> n)) 1 = _
  have h : 1 &&& (F >>> n) = (F >>> n) % 2 := by rw [Nat.and_comm]; exact Nat.and_one_is_mod _
  rw [h]
  rcases Nat.mod_two_eq_zero_or_one (F >>> n) with h | h <;> rw [h] <;> rfl

theorem bloom_testBit (h : Nat → Nat) (ks : List Nat) (k : Nat) (hk : k ∈ ks) :
    (bloom h ks).testBit (h k) = true := by
  induction ks with
  | nil => cases hk
  | cons a as ih =>
    show (1 <<< h a ||| bloom h as).testBit (h k) = true
    rw [Nat.testBit_or]
    rcases List.mem_cons.mp hk with rfl | hk
    · simp [Nat.testBit_shiftLeft]
    · rw [ih hk]; simp

theorem scan_eq_true (x : Nat) (ks : List Nat) (hx : x ∈ ks) : scan x ks = true := by
  induction ks with
  | nil => cases hx
  | cons a as ih =>
    unfold scan
    rcases List.mem_cons.mp hx with rfl | hx
    · have : Nat.beq x x = true := Nat.beq_refl x
      rw [this]
    · split
      · rfl
      · exact ih hx

theorem memFast_eq_true (ks : List Nat) (x : Nat) (hx : x ∈ ks) :
    memFast (bloom hashA ks) (bloom hashB ks) ks x = true := by
  unfold memFast
  rw [bit_eq_testBit, bit_eq_testBit, bloom_testBit hashA ks x hx, bloom_testBit hashB ks x hx]
  exact scan_eq_true x ks hx

theorem inner_spec (ks : List Nat) (x : Nat) (ys : List Nat)
    (h : inner (bloom hashA ks) (bloom hashB ks) ks x ys = true) : ∀ y ∈ ys, x ^^^ y ∉ ks := by
  induction ys with
  | nil => intro y hy; cases hy
  | cons a as ih =>
    unfold inner at h
    split at h
    · cases h
    · rename_i hm
      intro y hy
      rcases List.mem_cons.mp hy with rfl | hy
      · intro hmem
        have := memFast_eq_true ks _ hmem
        change memFast _ _ ks (Nat.xor x y) = true at this
        rw [this] at hm; cases hm
      · exact ih h y hy

/-- gluing: the first `n` outer elements, then `m` more -/
theorem ntFrom_add (A B : Nat) (ks l : List Nat) (n m : Nat)
    (h1 : ntFrom A B ks l n = true) (h2 : ntFrom A B ks (l.drop n) m = true) :
    ntFrom A B ks l (n + m) = true := by
  induction n generalizing l with
  | zero => simpa using h2
  | succ n ih =>
    cases l with
    | nil => rfl
    | cons x xs =>
      rw [Nat.add_right_comm]
      unfold ntFrom at h1 ⊢
      split at h1
      · cases h1
      · rename_i hin
        exact ih xs h1 (by simpa using h2)

theorem ntFrom_spec (ks l : List Nat) (n : Nat) (hn : l.length ≤ n)
    (h : ntFrom (bloom hashA ks) (bloom hashB ks) ks l n = true) :
    l.Pairwise (fun a b => a ^^^ b ∉ ks) := by
  induction l generalizing n with
  | nil => exact List.Pairwise.nil
  | cons x xs ih =>
    cases n with
    | zero => simp at hn
    | succ n =>
      unfold ntFrom at h
      split at h
      · cases h
      · rename_i hin
        exact List.Pairwise.cons (inner_spec ks x xs hin) (ih n (by simpa using hn) h)

/-- a symmetric relation that holds pairwise on a list holds between any two different positions -/
theorem pairwise_getElem_ne {α} {R : α → α → Prop} (hs : ∀ a b, R a b → R b a) {l : List α}
    (h : l.Pairwise R) (i j : Nat) (hi : i < l.length) (hj : j < l.length) (hij : i ≠ j) : R l[i] l[j] := by
  rw [List.pairwise_iff_getElem] at h
  rcases Nat.lt_or_gt_of_ne hij with h1 | h1
  · exact h i j hi hj h1
  · exact hs _ _ (h j i hj hi h1)

/-! ## the keys of the code -/

def keys : List Nat := Gen.zKeyList
def bloomA : Nat := bloom hashA keys
def bloomB : Nat := bloom hashB keys

/-- the chunked check: outer elements `start … start+len-1` -/
def chunkOK (start len : Nat) : Bool := ntFrom bloomA bloomB keys (keys.drop start) len

end Chess.KeyDeps
