import ChessVerif.Lemmas.GeomBridge1
/-
Bridge library, part 2: structure of `Geom.ray` and the meaning of `Geom.walkL`.
-/
namespace Chess

set_option maxRecDepth 100000

theorem mem_allDirs (u : Dir) : u ∈ allDirs := by cases u <;> decide

/-! ### rays -/

theorem mem_ray (s : Sq) (u : Dir) (x : Sq) :
    x ∈ Geom.ray s u ↔ ∃ n, 1 ≤ n ∧ n ≤ 7 ∧ step? s u n = some x := by
  unfold Geom.ray
  rw [List.mem_filterMap]
  constructor
  · rintro ⟨n, hn, h⟩
    have := List.mem_range.mp hn
    exact ⟨n + 1, by omega, by omega, h⟩
  · rintro ⟨n, h1, h7, h⟩
    refine ⟨n - 1, List.mem_range.mpr (by omega), ?_⟩
    have : n - 1 + 1 = n := by omega
    rw [this]; exact h

theorem mem_ray_iff_onRay (s : Sq) (u : Dir) (x : Sq) :
    x ∈ Geom.ray s u ↔ ∃ n, onRay s u n x = true := by
  rw [mem_ray]
  constructor
  · rintro ⟨n, h1, _, h⟩
    exact ⟨n, (onRay_iff_step _ _ _ _).mpr ⟨by omega, h⟩⟩
  · rintro ⟨n, h⟩
    have h7 := onRay_le7 h
    rw [onRay_iff_step] at h
    exact ⟨n, by omega, h7, h.2⟩

theorem ray_length_le (s : Sq) (u : Dir) : (Geom.ray s u).length ≤ 7 := by
  unfold Geom.ray
  have := List.length_filterMap_le (fun n => step? s u (n + 1)) (List.range 7)
  simpa using this

private theorem ray_getElem?_fin : ∀ (s : Sq) (i : Fin 7),
    allDirs.all (fun u => (Geom.ray s u)[i.val]? == step? s u (i.val + 1)) = true := by
  decide +kernel

/-- the ray is listed nearest first: its `i`-th entry is the square `i + 1` steps away -/
theorem ray_getElem? (s : Sq) (u : Dir) (i : Nat) : (Geom.ray s u)[i]? = step? s u (i + 1) := by
  by_cases hi : i < 7
  · have h := ray_getElem?_fin s ⟨i, hi⟩
    rw [List.all_eq_true] at h
    exact beq_iff_eq.mp (h u (mem_allDirs u))
  · have hl := ray_length_le s u
    rw [List.getElem?_eq_none (by omega)]
    cases hz : step? s u (i + 1) with
    | none => rfl
    | some z =>
      have := onRay_le7 ((onRay_iff_step s u (i + 1) z).mpr ⟨by omega, hz⟩)
      omega

theorem ray_nodup (s : Sq) (u : Dir) : (Geom.ray s u).Nodup := by
  unfold List.Nodup
  rw [List.pairwise_iff_getElem]
  intro i j hi hj hij he
  have h1 : (Geom.ray s u)[i]? = some (Geom.ray s u)[i] := List.getElem?_eq_getElem hi
  have h2 : (Geom.ray s u)[j]? = some (Geom.ray s u)[j] := List.getElem?_eq_getElem hj
  rw [ray_getElem?] at h1 h2
  rw [← he] at h2
  have := step?_inj h1 h2
  omega

/-! ### walking a list of squares -/

theorem BB.has_ofSq (t x : Sq) : (BB.ofSq t).getLsbD x.val = decide (x = t) := by
  rw [BB.getLsbD_ofSq]
  by_cases h : x = t
  · subst h; simp
  · have : x.val ≠ t.val := fun hv => h (Fin.ext hv)
    simp [h, this]

theorem getLsbD_walkL_cons (t : Sq) (ts : List Sq) (occ : BB) (x : Sq) :
    (Geom.walkL (t :: ts) occ).getLsbD x.val =
      (decide (x = t) || (!occ.has t && (Geom.walkL ts occ).getLsbD x.val)) := by
  show (BB.ofSq t ||| (if occ.has t then 0#64 else Geom.walkL ts occ)).getLsbD x.val = _
  rw [BitVec.getLsbD_or, BB.has_ofSq]
  cases occ.has t <;> simp

/-- `x` is reached by the walk iff it occurs on the list at an index before which every square is
empty (index form; no duplicate-freeness needed) -/
theorem mem_walkL_idx (l : List Sq) (occ : BB) (x : Sq) :
    (Geom.walkL l occ).getLsbD x.val = true ↔
      ∃ i : Nat, l[i]? = some x ∧ ∀ j : Nat, j < i → ∀ z, l[j]? = some z → occ.has z = false := by
  induction l with
  | nil => simp [Geom.walkL]
  | cons t ts ih =>
    rw [getLsbD_walkL_cons]
    simp only [Bool.or_eq_true, Bool.and_eq_true, decide_eq_true_eq, Bool.not_eq_true']
    constructor
    · rintro (h | ⟨ht, h⟩)
      · subst h
        exact ⟨0, rfl, fun j hj => absurd hj (Nat.not_lt_zero _)⟩
      · obtain ⟨i, hi, hpre⟩ := ih.mp h
        refine ⟨i + 1, by simpa using hi, ?_⟩
        intro j hj z hz
        cases j with
        | zero =>
          simp only [List.getElem?_cons_zero, Option.some.injEq] at hz
          subst hz; exact ht
        | succ j' =>
          simp only [List.getElem?_cons_succ] at hz
          exact hpre j' (by omega) z hz
    · rintro ⟨i, hi, hpre⟩
      cases i with
      | zero =>
        simp only [List.getElem?_cons_zero, Option.some.injEq] at hi
        exact Or.inl hi.symm
      | succ i' =>
        right
        simp only [List.getElem?_cons_succ] at hi
        refine ⟨hpre 0 (by omega) t rfl, ih.mpr ⟨i', hi, ?_⟩⟩
        intro j hj z hz
        exact hpre (j + 1) (by omega) z (by simpa using hz)

/-- `x` is reached by the walk iff it is on the list and everything before it is empty
(holds for every list; for a duplicate-free list the split is unique) -/
theorem mem_walkL (l : List Sq) (occ : BB) (x : Sq) :
    (Geom.walkL l occ).getLsbD x.val = true ↔
      ∃ pre post, l = pre ++ x :: post ∧ ∀ z ∈ pre, occ.has z = false := by
  induction l with
  | nil => simp [Geom.walkL]
  | cons t ts ih =>
    rw [getLsbD_walkL_cons]
    simp only [Bool.or_eq_true, Bool.and_eq_true, decide_eq_true_eq, Bool.not_eq_true']
    constructor
    · rintro (h | ⟨ht, h⟩)
      · subst h
        exact ⟨[], ts, rfl, fun z hz => by cases hz⟩
      · obtain ⟨pre, post, hl, hpre⟩ := ih.mp h
        refine ⟨t :: pre, post, by rw [hl]; rfl, ?_⟩
        intro z hz
        rcases List.mem_cons.mp hz with rfl | hz'
        · exact ht
        · exact hpre z hz'
    · rintro ⟨pre, post, hl, hpre⟩
      cases pre with
      | nil =>
        simp only [List.nil_append, List.cons.injEq] at hl
        exact Or.inl hl.1.symm
      | cons p pre' =>
        simp only [List.cons_append, List.cons.injEq] at hl
        obtain ⟨rfl, hts⟩ := hl
        right
        exact ⟨hpre t (by simp), ih.mpr ⟨pre', post, hts, fun z hz => hpre z (by simp [hz])⟩⟩

/-- the walk never leaves the list -/
theorem mem_of_mem_walkL {l : List Sq} {occ : BB} {x : Sq}
    (h : (Geom.walkL l occ).getLsbD x.val = true) : x ∈ l := by
  obtain ⟨pre, post, hl, _⟩ := (mem_walkL l occ x).mp h
  rw [hl]; simp

/-- on the empty board the walk is the whole list -/
theorem mem_walkL_empty (l : List Sq) (x : Sq) :
    (Geom.walkL l 0#64).getLsbD x.val = decide (x ∈ l) := by
  rw [Bool.eq_iff_iff, mem_walkL, decide_eq_true_eq]
  constructor
  · rintro ⟨pre, post, hl, _⟩
    rw [hl]; simp
  · intro h
    obtain ⟨pre, post, hl⟩ := List.append_of_mem h
    exact ⟨pre, post, hl, fun z _ => by simp [BB.has]⟩

/-- ray walking in terms of step counts: `x` is `n` steps away and the nearer squares are empty -/
theorem mem_walkL_ray (s : Sq) (u : Dir) (occ : BB) (x : Sq) :
    (Geom.walkL (Geom.ray s u) occ).getLsbD x.val = true ↔
      ∃ n, onRay s u n x = true ∧ ∀ t z, t < n → onRay s u t z = true → occ.has z = false := by
  rw [mem_walkL_idx]
  constructor
  · rintro ⟨i, hi, hpre⟩
    rw [ray_getElem?] at hi
    refine ⟨i + 1, (onRay_iff_step _ _ _ _).mpr ⟨by omega, hi⟩, ?_⟩
    intro t z ht hz
    rw [onRay_iff_step] at hz
    apply hpre (t - 1) (by omega) z
    rw [ray_getElem?]
    have : t - 1 + 1 = t := by omega
    rw [this]; exact hz.2
  · rintro ⟨n, hn, hpre⟩
    have hn' := (onRay_iff_step _ _ _ _).mp hn
    refine ⟨n - 1, ?_, ?_⟩
    · rw [ray_getElem?]
      have : n - 1 + 1 = n := by omega
      rw [this]; exact hn'.2
    · intro j hj z hz
      rw [ray_getElem?] at hz
      exact hpre (j + 1) z (by omega) ((onRay_iff_step _ _ _ _).mpr ⟨by omega, hz⟩)

/-- membership in a slider walk is membership in the walk of one of its rays -/
theorem getLsbD_sliderWalk (ds : List Dir) (s : Sq) (occ : BB) (i : Nat) :
    (Geom.sliderWalk ds s occ).getLsbD i =
      ds.any fun u => (Geom.walkL (Geom.ray s u) occ).getLsbD i := by
  unfold Geom.sliderWalk
  rw [BB.getLsbD_foldl_or (fun u => Geom.walkL (Geom.ray s u) occ)]
  simp

end Chess
