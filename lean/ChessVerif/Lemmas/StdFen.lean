import ChessVerif.Lemmas.Fen
import ChessVerif.Spec.StdFen
import ChessVerif.Refine.Abs
/-!
Lemmas about the independent standard FEN writer `Spec.stdFen` (`ChessVerif/Spec/StdFen.lean`):
its text is, field by field, what the Model's writer `showBuilderWith` produces for the builder state
`p.toBuilder` — except that the two counters are arbitrary decimal numbers — so the reader
`parseBuilder` and the standard decoder `Fen.decode` read it back as `p`.  Used by `Props/C06Std.lean`.
-/
namespace Chess
open Spec

/-! ### the placement field -/

theorem pieceCharStd_eq (p : Piece) (c : Color) : pieceCharStd (p, c) = pieceLetter p c := by
  cases p <;> cases c <;> decide

theorem flushRun_eq (n : Nat) : flushRun n = if n ≠ 0 then digitChar n else [] := by
  unfold flushRun digitChar
  by_cases h : n = 0
  · simp [h]
  · rw [if_neg h, if_pos h]; rfl

theorem showRank_go_eq_rle (pieces : Sq → Option (Piece × Color)) (r : Fin 8) :
    ∀ (files : List (Fin 8)) (count : Nat),
      showRank.go pieces r files count = rle (files.map fun f => pieces (mkSq r f)) count
  | [], count => by rw [showRank_go_nil, List.map_nil, rle, flushRun_eq]
  | f :: fs, count => by
    cases hp : pieces (mkSq r f) with
    | none =>
      rw [showRank_go_none _ _ _ _ _ hp, List.map_cons, hp, rle, showRank_go_eq_rle pieces r fs]
    | some pc =>
      obtain ⟨p, c⟩ := pc
      rw [showRank_go_some _ _ _ _ _ _ _ hp, List.map_cons, hp, rle, showRank_go_eq_rle pieces r fs,
        flushRun_eq, pieceCharStd_eq]

/-- the Spec's run-length coder and the Model's file loop write the same text for every rank -/
theorem rle_rankRow (board : Sq → Option (Piece × Color)) (r : Fin 8) :
    rle (rankRow board r) 0 = showRank board r := by
  unfold showRank rankRow
  rw [showRank_go_eq_rle]
  rfl

theorem placementStd_eq (board : Sq → Option (Piece × Color)) :
    placementStd board = placementStr board := by
  unfold placementStd placementStr
  simp only [List.map_cons, List.map_nil, joinSlash, rle_rankRow]

/-! ### side, castling -/

theorem sideStd_eq (c : Color) : sideStd c = sideStr c := by cases c <;> rfl

theorem castleStd_aux : ∀ wk wq bk bq : Bool,
    (let s : List Char :=
      (if wk then ['K'] else []) ++ (if wq then ['Q'] else []) ++
      (if bk then ['k'] else []) ++ (if bq then ['q'] else [])
     if s.isEmpty then ['-'] else s) = castleField ⟨wk, wq⟩ ⟨bk, bq⟩ := by
  decide

theorem castleStd_eq (p : Pos) :
    castleStd p = castleField p.toBuilder.wcr p.toBuilder.bcr :=
  castleStd_aux _ _ _ _

/-! ### the en-passant field -/

theorem sqName_eq_showSquare : ∀ s : Sq, Fen.sqName s = showSquare s := by decide

/-- a mark on the pusher's fourth rank: its target square exists, it is the square the Model's writer
prints for the recorded file, and the mark is determined by its file -/
theorem epTarget_facts : ∀ (c : Color) (q : Sq), q.rank = c.pawnRank + 2 * c.fwd →
    sq? q.file (q.rank - c.fwd) = some ((mkSq c.fourthRank q.getFile).ubackward c) ∧
    q = mkSq c.fourthRank q.getFile := by
  intro c
  cases c
  · decide
  · decide

/-- Hypothesis of the theorems: the mark, if any, stands on the fourth rank of the side that just
moved (part of `Valid`). -/
def EpRankOK (p : Pos) : Prop := ∀ q, p.ep = some q → q.rank = p.stm.other.pawnRank + 2 * p.stm.other.fwd

/-- a valid position satisfies it (clause of `epValid`) -/
theorem epRankOK_of_valid (p : Pos) (hv : Valid p = true) : EpRankOK p := by
  intro q hq
  simp only [Valid, Bool.and_eq_true] at hv
  have he := hv.2
  unfold epValid at he
  rw [hq] at he
  simp only [Bool.and_eq_true, beq_iff_eq] at he
  exact he.1.2

theorem epStd_eq (p : Pos) (h : EpRankOK p) : epStd p = epField p.toBuilder.epShown := by
  unfold epStd epTarget Builder.epShown Builder.getEnPassant Pos.toBuilder
  cases hq : p.ep with
  | none => rfl
  | some q =>
    obtain ⟨h1, _⟩ := epTarget_facts p.stm.other q (h q hq)
    simp only [Option.bind_some, h1, Option.map_some, epField, sqName_eq_showSquare]

theorem toBuilder_getEnPassant_of_rank (p : Pos) (h : EpRankOK p) : p.toBuilder.getEnPassant = p.ep := by
  unfold Builder.getEnPassant Pos.toBuilder
  cases hq : p.ep with
  | none => rfl
  | some q =>
    obtain ⟨_, h2⟩ := epTarget_facts p.stm.other q (h q hq)
    simp only [Option.map_some]
    rw [← h2]

/-! ### the counters -/

theorem repr_no_space (n : Nat) : ∀ x ∈ (Nat.repr n).toList, x ≠ ' ' := by
  intro x hx
  rw [Nat.toList_repr] at hx
  have := Nat.isDigit_of_mem_toDigits (by decide) (by decide) hx
  intro h; subst h; revert this; decide

theorem repr_isNat (n : Nat) : Fen.isNat (Nat.repr n).toList = true := by
  unfold Fen.isNat
  rw [Nat.toList_repr]
  simp only [Bool.and_eq_true, Bool.not_eq_true', List.isEmpty_eq_false_iff, List.all_eq_true]
  exact ⟨Nat.toDigits_ne_nil, fun x hx => Nat.isDigit_of_mem_toDigits (by decide) (by decide) hx⟩

/-! ### the six fields -/

theorem stdFen_eq (p : Pos) (half full : Nat) (h : EpRankOK p) :
    stdFen p half full =
      placementStr p.toBuilder.pieces ++ ' ' :: (sideStr p.toBuilder.stm ++ ' ' ::
        (castleField p.toBuilder.wcr p.toBuilder.bcr ++ ' ' :: (epField p.toBuilder.epShown ++ ' ' ::
          ((Nat.repr half).toList ++ ' ' :: (Nat.repr full).toList)))) := by
  unfold stdFen
  rw [placementStd_eq, sideStd_eq, castleStd_eq, epStd_eq p h]
  simp [Pos.toBuilder, List.append_assoc]

theorem splitOn_space_stdFen (p : Pos) (half full : Nat) (h : EpRankOK p) :
    Fen.splitOn ' ' (stdFen p half full) =
      [placementStr p.toBuilder.pieces, sideStr p.toBuilder.stm,
        castleField p.toBuilder.wcr p.toBuilder.bcr, epField p.toBuilder.epShown,
        (Nat.repr half).toList, (Nat.repr full).toList] := by
  rw [stdFen_eq p half full h,
    splitOn_append _ _ _ (placementStr_no_space _), splitOn_append _ _ _ (sideStr_no_space _),
    splitOn_append _ _ _ (castleField_no_space _ _), splitOn_append _ _ _ (epField_no_space _),
    splitOn_append _ _ _ (repr_no_space half), splitOn_nosep _ _ (repr_no_space full)]

/-! ### the reader on a text whose first four fields are the writer's -/

/-- `BoardBuilder::from_str` looks at the first four space-separated tokens only: whenever they are the
four fields the writer produces for `bd`, the result is `bd`, whatever follows -/
theorem parseBuilder_of_fields (bd : Builder) (s : List Char) (rest : List (List Char))
    (htok : Str.splitSpace s =
      placementStr bd.pieces :: sideStr bd.stm :: castleField bd.wcr bd.bcr :: epField bd.epShown :: rest) :
    ∃ bd', parseBuilder s = .ok bd' ∧ (∀ t, bd'.pieces t = bd.pieces t) ∧
      bd'.stm = bd.stm ∧ bd'.wcr = bd.wcr ∧ bd'.bcr = bd.bcr ∧ bd'.epFile = bd.epFile := by
  obtain ⟨st, hst, hpieces⟩ := parsePlacement_placementStr bd.pieces
  obtain ⟨hK, hQ, hk, hq⟩ := castleField_contains bd.wcr bd.bcr
  have hep := ep_readback bd
  unfold parseBuilder
  simp only [htok, hst, side_readback, hK, hQ, hk, hq]
  cases hps : parseSquare (epField bd.epShown) with
  | panic => rw [hps] at hep; cases hep
  | err =>
    rw [hps] at hep
    simp only [Option.some.injEq] at hep
    exact ⟨_, rfl, hpieces, rfl, rfl, rfl, hep⟩
  | ok sq =>
    rw [hps] at hep
    simp only [Option.some.injEq] at hep
    exact ⟨_, rfl, hpieces, rfl, rfl, rfl, hep⟩

/-- builder states that agree component-wise (men compared on every square) are equal -/
theorem Builder.ext' (a b : Builder) (hp : ∀ s, a.pieces s = b.pieces s) (hs : a.stm = b.stm)
    (hw : a.wcr = b.wcr) (hb : a.bcr = b.bcr) (he : a.epFile = b.epFile) : a = b := by
  obtain ⟨ap, as, aw, ab, ae⟩ := a
  obtain ⟨bp, bs, bw, bb, be⟩ := b
  have : ap = bp := funext hp
  simp only at hs hw hb he
  subst this hs hw hb he
  rfl

/-- `Board::try_from` depends on the builder state only through its five components, the men read
square by square -/
theorem tryFrom_congr (T : Tables) (a b : Builder) (hp : ∀ s, a.pieces s = b.pieces s)
    (hs : a.stm = b.stm) (hw : a.wcr = b.wcr) (hb : a.bcr = b.bcr) (he : a.epFile = b.epFile) :
    Board.tryFrom T a = Board.tryFrom T b := by
  rw [Builder.ext' a b hp hs hw hb he]

/-- (a) the reader on the standard writer's text -/
theorem parseBuilder_stdFen (p : Pos) (half full : Nat) (h : EpRankOK p) :
    ∃ bd', parseBuilder (stdFen p half full) = .ok bd' ∧ (∀ s, bd'.pieces s = p.board s) ∧
      bd'.stm = p.stm ∧ bd'.wcr = ⟨p.castleK .white, p.castleQ .white⟩ ∧
      bd'.bcr = ⟨p.castleK .black, p.castleQ .black⟩ ∧ bd'.epFile = p.ep.map Sq.getFile :=
  parseBuilder_of_fields p.toBuilder _ _ (by rw [splitSpace_eq, splitOn_space_stdFen p half full h])

theorem parseBuilder_stdFen_eq (p : Pos) (half full : Nat) (h : EpRankOK p) :
    parseBuilder (stdFen p half full) = .ok p.toBuilder := by
  obtain ⟨bd', h0, h1, h2, h3, h4, h5⟩ := parseBuilder_stdFen p half full h
  rw [h0, Builder.ext' bd' p.toBuilder h1 h2 h3 h4 h5]

/-- (c) the standard decoder on the standard writer's text -/
theorem decode_stdFen (p : Pos) (half full : Nat) (h : EpRankOK p) :
    ∃ q : Pos, Fen.decode (stdFen p half full) = some q ∧ (∀ s, q.board s = p.board s) ∧
      q.stm = p.stm ∧ (∀ c, q.castleK c = p.castleK c) ∧ (∀ c, q.castleQ c = p.castleQ c) ∧
      q.ep = p.ep := by
  obtain ⟨board, hb, hboard⟩ := decodePlacement_placementStr p.toBuilder.pieces
  obtain ⟨hK, hQ, hk, hq⟩ := castleField_contains p.toBuilder.wcr p.toBuilder.bcr
  obtain ⟨q, hd, h1, h2, h3, h4, h5, h6, h7⟩ :=
    decode_of_fields (stdFen p half full) _ _ _ _ _ _ board p.toBuilder.stm p.toBuilder.getEnPassant
      (splitOn_space_stdFen p half full h) hb (side_decode _)
      (castleField_standard _ _) ⟨repr_isNat half, repr_isNat full⟩ (epMarkOf_epShown p.toBuilder)
  refine ⟨q, hd, fun s => by rw [h1]; exact hboard s, h2, ?_, ?_,
    h7.trans (toBuilder_getEnPassant_of_rank p h)⟩
  · intro c; cases c
    · exact h3.trans hK
    · exact h5.trans hk
  · intro c; cases c
    · exact h4.trans hQ
    · exact h6.trans hq

end Chess
