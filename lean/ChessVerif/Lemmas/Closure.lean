import ChessVerif.Spec.Rules
/-
Closure of `Valid` under legal moves on the specification (property C05), and the monotone
quantities (castling rights, men per side, pawns per side).
-/
namespace Chess
namespace Closure

abbrev Bd := Sq → Option (Piece × Color)

/-! ### squares -/

theorem sq?_eq_some {f r : Int} {s : Sq} :
    sq? f r = some s ↔ (0 ≤ f ∧ f < 8 ∧ 0 ≤ r ∧ r < 8 ∧ s.file = f ∧ s.rank = r) := by
  unfold sq? Sq.file Sq.rank
  split
  · simp only [Option.some.injEq]
    constructor
    · rintro rfl
      simp only []
      omega
    · intro h
      apply Fin.ext
      simp only []
      omega
  · constructor
    · intro h; cases h
    · intro h; omega

theorem Sq.ext_fr {a b : Sq} (hf : a.file = b.file) (hr : a.rank = b.rank) : a = b := by
  unfold Sq.file Sq.rank at *
  apply Fin.ext
  omega

theorem Sq.file_bounds (s : Sq) : 0 ≤ s.file ∧ s.file < 8 := by
  unfold Sq.file; omega
theorem Sq.rank_bounds (s : Sq) : 0 ≤ s.rank ∧ s.rank < 8 := by
  unfold Sq.rank; omega

theorem sq?_self (s : Sq) : sq? s.file s.rank = some s := by
  rw [sq?_eq_some]
  have := Sq.file_bounds s; have := Sq.rank_bounds s
  omega

/-! ### point updates and counting -/

def upd (b : Bd) (s : Sq) (v : Option (Piece × Color)) : Bd := fun x => if x = s then v else b x

@[simp] theorem upd_same (b : Bd) (s v) : upd b s v s = v := by simp [upd]
theorem upd_other (b : Bd) {s x : Sq} (v) (h : x ≠ s) : upd b s v x = b x := by simp [upd, h]

def cnt (b : Bd) (f : Piece × Color → Bool) : Nat := (allSq.filter fun s => (b s).any f).length

def ind (f : Piece × Color → Bool) (v : Option (Piece × Color)) : Nat := if v.any f then 1 else 0

theorem count_eq_cnt (p : Pos) (f) : count p f = cnt p.board f := rfl

theorem filter_upd_length (b : Bd) (f) (s : Sq) (v) (l : List Sq) (hnd : l.Nodup) :
    (l.filter fun x => (upd b s v x).any f).length + (if s ∈ l then ind f (b s) else 0)
      = (l.filter fun x => (b x).any f).length + (if s ∈ l then ind f v else 0) := by
  induction l with
  | nil => simp
  | cons a l ih =>
    have hnd' := (List.nodup_cons.mp hnd)
    have ih := ih hnd'.2
    by_cases has : a = s
    · subst has
      have hnot : a ∉ l := hnd'.1
      simp only [hnot, if_false] at ih
      simp only [List.filter_cons, upd_same, List.mem_cons, true_or, if_true, ind]
      cases hv : v.any f <;> cases hb : (b a).any f <;> simp <;> omega
    · have h1 : upd b s v a = b a := upd_other b v has
      have h2 : (s ∈ a :: l) = (s ∈ l) := by
        simp only [List.mem_cons, eq_iff_iff]
        constructor
        · rintro (h | h)
          · exact absurd h.symm has
          · exact h
        · exact Or.inr
      simp only [List.filter_cons, h1, h2]
      cases hb : (b a).any f <;> simp <;> omega

theorem cnt_upd (b : Bd) (f) (s : Sq) (v) :
    cnt (upd b s v) f + ind f (b s) = cnt b f + ind f v := by
  have := filter_upd_length b f s v allSq (List.nodup_finRange 64)
  simpa [allSq, cnt] using this

/-! ### the board after a move -/

/-- the man put on the destination square -/
def movedMan (p : Pos) (m : Move) : Option (Piece × Color) :=
  match p.board m.src, m.promo with
  | some (.pawn, c'), some q => some (q, c')
  | x, _ => x

theorem apply_board_normal {p : Pos} {m : Move} (hep : isEnPassant p m = false) (hc : isCastle p m = false) :
    (apply p m).board = upd (upd p.board m.src none) m.dst (movedMan p m) := by
  funext s
  simp only [apply, hep, hc, upd, movedMan]
  simp
  rfl

theorem apply_board_ep {p : Pos} {m : Move} {q : Sq} (hep : isEnPassant p m = true) (hc : isCastle p m = false)
    (hq : sq? m.dst.file m.src.rank = some q) :
    (apply p m).board = upd (upd (upd p.board q none) m.src none) m.dst (movedMan p m) := by
  funext s
  simp only [apply, hep, hc, upd, movedMan, hq]
  simp
  rfl

theorem apply_board_castle {p : Pos} {m : Move} {r t : Sq} (hep : isEnPassant p m = false) (hc : isCastle p m = true)
    (hr : homeSq p.stm (if m.dst.file > m.src.file then 7 else 0) = some r)
    (ht : homeSq p.stm (if m.dst.file > m.src.file then 5 else 3) = some t) :
    (apply p m).board =
      upd (upd (upd (upd p.board t (some (.rook, p.stm))) r none) m.src none) m.dst (movedMan p m) := by
  funext s
  simp only [apply, hep, hc, upd, movedMan, hr, ht]
  simp
  rfl

/-! ### classification of pseudo-legal moves -/

/-- what is known about a pawn move that is not an en-passant capture -/
structure PawnFacts (p : Pos) (m : Move) (pc' : Piece) : Prop where
  noLast : pc' = .pawn → m.dst.rank ≠ p.stm.lastRank
  step : m.dst.rank - m.src.rank = p.stm.fwd ∨
    (m.dst.rank - m.src.rank = 2 * p.stm.fwd ∧ m.src.rank = p.stm.pawnRank ∧ m.dst.file = m.src.file ∧
      p.board m.dst = none ∧ pc' = .pawn ∧
      ∃ x, sq? m.src.file (m.src.rank + p.stm.fwd) = some x ∧ p.board x = none)

inductive Shape (p : Pos) (m : Move) : Prop where
  | normal (pc pc' : Piece)
      (hsrc : p.board m.src = some (pc, p.stm))
      (hdst : ∀ x, p.board m.dst ≠ some (x, p.stm))
      (hne : m.src ≠ m.dst)
      (hpc : pc' = pc ∨ (pc = .pawn ∧ pc' ≠ .pawn ∧ pc' ≠ .king))
      (hatk : p.board m.dst ≠ none → attacks p m.src m.dst = true)
      (hpawn : pc = .pawn → PawnFacts p m pc')
      (hboard : (apply p m).board = upd (upd p.board m.src none) m.dst (some (pc', p.stm)))
  | ep (q : Sq) (pc' : Piece)
      (hsrc : p.board m.src = some (.pawn, p.stm))
      (hdst : p.board m.dst = none)
      (hq : p.board q = some (.pawn, p.stm.other))
      (hqs : q ≠ m.src) (hqd : q ≠ m.dst) (hne : m.src ≠ m.dst)
      (hpc : pc' ≠ .king)
      (hlast : pc' = .pawn → m.dst.rank ≠ p.stm.lastRank)
      (hdr : m.dst.rank - m.src.rank = p.stm.fwd)
      (hboard : (apply p m).board = upd (upd (upd p.board q none) m.src none) m.dst (some (pc', p.stm)))
  | castle (r t : Sq)
      (hsrc : p.board m.src = some (.king, p.stm))
      (hsrcr : m.src.rank = p.stm.homeRank) (hsrcf : m.src.file = 4)
      (hdst : p.board m.dst = none)
      (hr : p.board r = some (.rook, p.stm))
      (ht : p.board t = none)
      (hrr : r.rank = p.stm.homeRank) (htr : t.rank = p.stm.homeRank)
      (hrs : r ≠ m.src) (hrd : r ≠ m.dst) (hts : t ≠ m.src) (htd : t ≠ m.dst) (htr' : t ≠ r) (hne : m.src ≠ m.dst)
      (hboard : (apply p m).board =
        upd (upd (upd (upd p.board t (some (.rook, p.stm))) r none) m.src none) m.dst (some (.king, p.stm)))

theorem colorAt_ne_iff {p : Pos} {s : Sq} {c : Color} :
    p.colorAt s ≠ some c ↔ ∀ x, p.board s ≠ some (x, c) := by
  unfold Pos.colorAt
  cases h : p.board s with
  | none => simp
  | some v =>
    obtain ⟨x, d⟩ := v
    simp only [Option.map_some, ne_eq, Option.some.injEq, Prod.mk.injEq, not_and]
    constructor
    · intro h1 y _ h2; exact h1 h2
    · intro h1 h2; exact h1 x rfl h2

theorem src_ne_dst {p : Pos} {m : Move} {pc : Piece} (hb : p.board m.src = some (pc, p.stm))
    (hd : ∀ x, p.board m.dst ≠ some (x, p.stm)) : m.src ≠ m.dst := by
  intro h
  rw [h] at hb
  exact hd pc hb

theorem king_step_file {a b : Sq} (h : (allDirs.any fun u => onRay a u 1 b) = true) :
    (b.file - a.file).natAbs ≤ 1 := by
  simp only [allDirs, rookDirs, bishopDirs, List.cons_append, List.nil_append, List.any_cons, List.any_nil,
    onRay, step?, Bool.or_false, Bool.or_eq_true, Bool.and_eq_true, beq_iff_eq, sq?_eq_some, Dir.df, Dir.dr] at h
  omega

theorem shape_other {p : Pos} {m : Move} {pc : Piece} (hb : p.board m.src = some (pc, p.stm))
    (hd : p.colorAt m.dst ≠ some p.stm) (hpc1 : pc ≠ .pawn)
    (hnc : isCastle p m = false)
    (h : (m.promo.isNone && attacks p m.src m.dst) = true) : Shape p m := by
  simp only [Bool.and_eq_true] at h
  have hd' := colorAt_ne_iff.mp hd
  have hep : isEnPassant p m = false := by
    simp only [isEnPassant, hb]
    cases pc <;> simp at hpc1 ⊢
  have hmv : movedMan p m = some (pc, p.stm) := by
    simp only [movedMan, hb]
    cases pc <;> simp at hpc1 ⊢
  refine Shape.normal pc pc hb hd' (src_ne_dst hb hd') (Or.inl rfl) (fun _ => h.2) (fun h => absurd h hpc1) ?_
  rw [apply_board_normal hep hnc, hmv]

theorem pathClear_empty {p : Pos} {a b x : Sq} (h : pathClear p a b = true) (hx : strictlyBetween a x b = true) :
    p.board x = none := by
  simp only [pathClear, List.all_eq_true] at h
  have := h x (List.mem_finRange x)
  simp only [hx, Bool.not_true, Bool.false_or, Pos.empty, Option.isNone_iff_eq_none] at this
  exact this

theorem between_rank {a x b : Sq} (db dx : Int) (hr : a.rank = b.rank) (hx : x.rank = a.rank)
    (h1 : b.file - a.file = db) (h2 : x.file - a.file = dx) (h3 : 0 < dx * db) (h4 : dx * dx < db * db) :
    strictlyBetween a x b = true := by
  have e1 : b.rank - a.rank = 0 := by omega
  have e2 : x.rank - a.rank = 0 := by omega
  simp only [strictlyBetween, e1, e2, h1, h2, Int.mul_zero, Int.zero_mul, Int.add_zero, beq_self_eq_true, Bool.or_true,
    Bool.true_or, Bool.true_and, Bool.and_eq_true, decide_eq_true_eq]
  exact ⟨h3, h4⟩

theorem shape_king {p : Pos} {m : Move} (hb : p.board m.src = some (.king, p.stm))
    (hd : p.colorAt m.dst ≠ some p.stm)
    (h : (m.promo.isNone &&
      (attacks p m.src m.dst ||
        m.src.rank == p.stm.homeRank && m.src.file == 4 && m.dst.rank - m.src.rank == 0 &&
            (m.dst.file - m.src.file).natAbs == 2 &&
          ((if m.dst.file - m.src.file = 2 then p.castleK p.stm else p.castleQ p.stm) &&
            match sq? (if m.dst.file - m.src.file = 2 then 7 else 0) p.stm.homeRank,
              sq? (4 + (m.dst.file - m.src.file) / 2) p.stm.homeRank with
            | some r, some mid =>
              p.has r Piece.rook p.stm && pathClear p m.src r && !attackedBy p p.stm.other m.src &&
                  !attackedBy p p.stm.other mid &&
                !attackedBy p p.stm.other m.dst
            | _, _ => false))) =
    true) : Shape p m := by
  simp only [Bool.and_eq_true, Bool.or_eq_true] at h
  obtain ⟨hpr, h | h⟩ := h
  · have hk : (allDirs.any fun u => onRay m.src u 1 m.dst) = true := by
      simpa [attacks, hb] using h
    have hf := king_step_file hk
    refine shape_other hb hd (by decide) ?_ (by simp [hpr, h])
    simp only [isCastle, hb, Bool.true_and, beq_eq_false_iff_ne]
    omega
  · simp only [beq_iff_eq] at h
    obtain ⟨⟨⟨⟨hsr, hsf⟩, hdr⟩, hdf⟩, hright, hm⟩ := h
    split at hm
    · rename_i r mid hr hmid
      simp only [Bool.and_eq_true, Pos.has, beq_iff_eq] at hm
      obtain ⟨⟨⟨⟨hrk, hpath⟩, _⟩, _⟩, _⟩ := hm
      rw [sq?_eq_some] at hr hmid
      have hbd := Sq.rank_bounds m.src
      have hcases : (m.dst.file - m.src.file = 2 ∧ r.file = 7 ∧ mid.file = 5) ∨
          (m.dst.file - m.src.file = -2 ∧ r.file = 0 ∧ mid.file = 3) := by
        split at hr <;> omega
      have hrr := hr.2.2.2.2.2
      have hmr := hmid.2.2.2.2.2
      clear hr hmid
      have hrf : r.file = if m.dst.file > m.src.file then 7 else 0 := by
        split <;> omega
      have hmf : mid.file = if m.dst.file > m.src.file then 5 else 3 := by
        split <;> omega
      have hdst : p.board m.dst = none := by
        refine pathClear_empty hpath ?_
        rcases hcases with hc | hc
        · exact between_rank 3 2 (by omega) (by omega) (by omega) hc.1 (by decide) (by decide)
        · exact between_rank (-4) (-2) (by omega) (by omega) (by omega) hc.1 (by decide) (by decide)
      have hmid' : p.board mid = none := by
        refine pathClear_empty hpath ?_
        rcases hcases with hc | hc
        · exact between_rank 3 1 (by omega) (by omega) (by omega) (by omega) (by decide) (by decide)
        · exact between_rank (-4) (-1) (by omega) (by omega) (by omega) (by omega) (by decide) (by decide)
      have hic : isCastle p m = true := by simp [isCastle, hb, hdf]
      have hep : isEnPassant p m = false := by simp [isEnPassant, hb]
      have hmv : movedMan p m = some (.king, p.stm) := by simp [movedMan, hb]
      have hR : homeSq p.stm (if m.dst.file > m.src.file then 7 else 0) = some r := by
        unfold homeSq; rw [sq?_eq_some]; split <;> omega
      have hT : homeSq p.stm (if m.dst.file > m.src.file then 5 else 3) = some mid := by
        unfold homeSq; rw [sq?_eq_some]; split <;> omega
      have hB := apply_board_castle hep hic hR hT
      rw [hmv] at hB
      have hne : ∀ {a b : Sq}, a.file ≠ b.file → a ≠ b := fun h e => h (by rw [e])
      refine Shape.castle r mid hb hsr hsf hdst hrk hmid' hrr hmr (hne ?_) (hne ?_) (hne ?_) (hne ?_)
        (hne ?_) (hne ?_) hB
      all_goals omega
    · cases hm

theorem pawn_promo {p : Pos} {m : Move} (hb : p.board m.src = some (.pawn, p.stm))
    (h : (if m.dst.rank = p.stm.lastRank then
        match m.promo with
        | some q => promoPieces.contains q
        | none => false
      else m.promo.isNone) = true) :
    ∃ pc', movedMan p m = some (pc', p.stm) ∧ (pc' = .pawn ∨ pc' ≠ .pawn ∧ pc' ≠ .king) ∧
      (pc' = .pawn → m.dst.rank ≠ p.stm.lastRank) ∧ (m.dst.rank ≠ p.stm.lastRank → pc' = .pawn) := by
  cases hp : m.promo with
  | none =>
    refine ⟨.pawn, by simp [movedMan, hb, hp], Or.inl rfl, ?_, fun _ => rfl⟩
    intro _ hl
    simp [hl, hp] at h
  | some q =>
    have hl : m.dst.rank = p.stm.lastRank := by
      apply Classical.byContradiction; intro hl; simp [hl, hp] at h
    simp only [hl, if_true, hp] at h
    refine ⟨q, by simp [movedMan, hb, hp], Or.inr ?_, ?_, fun h' => absurd hl h'⟩
    · cases q <;> simp [promoPieces] at h ⊢
    · intro hq; subst hq; simp [promoPieces] at h

theorem shape_pawn {p : Pos} {m : Move} (hb : p.board m.src = some (.pawn, p.stm))
    (hd : p.colorAt m.dst ≠ some p.stm)
    (h : ((if m.dst.rank = p.stm.lastRank then
        match m.promo with
        | some q => promoPieces.contains q
        | none => false
      else m.promo.isNone) &&
      ((m.dst.file - m.src.file == 0 && m.dst.rank - m.src.rank == p.stm.fwd && p.empty m.dst ||
            m.dst.file - m.src.file == 0 && m.dst.rank - m.src.rank == 2 * p.stm.fwd && m.src.rank == p.stm.pawnRank &&
                p.empty m.dst &&
              match sq? m.src.file (m.src.rank + p.stm.fwd) with
              | some x => p.empty x
              | none => false) ||
          (m.dst.file - m.src.file).natAbs == 1 && m.dst.rank - m.src.rank == p.stm.fwd &&
            p.colorAt m.dst == some p.stm.other ||
        (m.dst.file - m.src.file).natAbs == 1 && m.dst.rank - m.src.rank == p.stm.fwd && p.empty m.dst &&
          match sq? m.dst.file m.src.rank with
          | some q => p.ep == some q && p.has q Piece.pawn p.stm.other
          | none => false)) =
    true) : Shape p m := by
  simp only [Bool.and_eq_true, Bool.or_eq_true, beq_iff_eq, Pos.empty, Option.isNone_iff_eq_none] at h
  obtain ⟨hpr, h⟩ := h
  obtain ⟨pc', hmv, hpc, hlast, hlast'⟩ := pawn_promo hb hpr
  have hd' := colorAt_ne_iff.mp hd
  have hne := src_ne_dst hb hd'
  have hnc : isCastle p m = false := by simp [isCastle, hb]
  have hpc2 : pc' = .pawn ∨ (Piece.pawn = Piece.pawn ∧ pc' ≠ .pawn ∧ pc' ≠ .king) := by
    rcases hpc with h | h
    · exact Or.inl h
    · exact Or.inr ⟨rfl, h⟩
  rcases h with ((h | h) | h) | h
  · -- single step
    obtain ⟨⟨hf, hr⟩, he⟩ := h
    have hep : isEnPassant p m = false := by
      have : m.src.file = m.dst.file := by omega
      simp [isEnPassant, this]
    refine Shape.normal .pawn pc' hb hd' hne hpc2 (fun h => absurd he h) (fun _ => ⟨hlast, Or.inl hr⟩) ?_
    rw [apply_board_normal hep hnc, hmv]
  · -- double step
    obtain ⟨⟨⟨⟨hf, hr⟩, hsr⟩, he⟩, hx⟩ := h
    have hep : isEnPassant p m = false := by
      have : m.src.file = m.dst.file := by omega
      simp [isEnPassant, this]
    have hpawn : pc' = .pawn := by
      apply hlast'
      have := Sq.rank_bounds m.src
      cases hc : p.stm <;> simp only [hc, Color.fwd, Color.pawnRank, Color.homeRank, Color.lastRank, Color.other] at * <;> omega
    have hx' : ∃ x, sq? m.src.file (m.src.rank + p.stm.fwd) = some x ∧ p.board x = none := by
      split at hx
      · rename_i x hx0; exact ⟨x, hx0, Option.isNone_iff_eq_none.mp hx⟩
      · cases hx
    refine Shape.normal .pawn pc' hb hd' hne hpc2 (fun h => absurd he h)
      (fun _ => ⟨hlast, Or.inr ⟨hr, hsr, by omega, he, hpawn, hx'⟩⟩) ?_
    rw [apply_board_normal hep hnc, hmv]
  · -- capture
    obtain ⟨⟨hf, hr⟩, hcol⟩ := h
    have hne' : p.board m.dst ≠ none := by
      intro h0; simp [Pos.colorAt, h0] at hcol
    have hep : isEnPassant p m = false := by
      have : (p.board m.dst).isNone = false := by
        cases h0 : p.board m.dst with
        | none => exact absurd h0 hne'
        | some _ => rfl
      simp [isEnPassant, Pos.empty, this]
    refine Shape.normal .pawn pc' hb hd' hne hpc2 (fun _ => ?_) (fun _ => ⟨hlast, Or.inl hr⟩) ?_
    · simp [attacks, hb, hr, hf]
    · rw [apply_board_normal hep hnc, hmv]
  · -- en passant
    obtain ⟨⟨⟨hf, hr⟩, he⟩, hx⟩ := h
    split at hx
    · rename_i q hq
      simp only [Bool.and_eq_true, beq_iff_eq, Pos.has] at hx
      have hep : isEnPassant p m = true := by
        have : m.src.file ≠ m.dst.file := by omega
        simp [isEnPassant, hb, this, Pos.empty, he]
      have hqs : q ≠ m.src := by
        intro e; rw [e, hb] at hx
        have := hx.2
        simp only [Option.some.injEq, Prod.mk.injEq, true_and] at this
        exact Color.other_ne _ this.symm
      have hqd : q ≠ m.dst := by
        intro e; rw [e, he] at hx; cases hx.2
      have hk : pc' ≠ .king := by
        rcases hpc with h | h
        · rw [h]; decide
        · exact h.2
      refine Shape.ep q pc' hb he hx.2 hqs hqd hne hk hlast hr ?_
      rw [apply_board_ep hep hnc hq, hmv]
    · cases hx

theorem pseudoLegal_shape {p : Pos} {m : Move} (h : pseudoLegal p m = true) : Shape p m := by
  unfold pseudoLegal at h
  split at h
  · cases h
  · rename_i pc c' hb
    simp only [Bool.and_eq_true, beq_iff_eq, bne_iff_ne] at h
    obtain ⟨⟨hc, hd⟩, h⟩ := h
    subst hc
    split at h
    · exact shape_pawn hb hd h
    · exact shape_king hb hd h
    · rename_i hp hk
      refine shape_other hb hd (fun e => hp e) ?_ h
      simp only [isCastle, hb]
      cases pc <;> simp at hk ⊢

/-! ### counting across a move -/

@[simp] theorem ind_none (f) : ind f none = 0 := rfl

/-- The master counting equation: a move takes the mover's man `(pc, stm)` away, puts `(pc', stm)` down
(`pc' = pc` unless promoting) and removes the captured man `cap` (never of the mover's colour; if it is
a king then it stood on the destination and was attacked by the moved man). -/
theorem count_apply {p : Pos} {m : Move} (hs : Shape p m) :
    ∃ (pc pc' : Piece) (cap : Option (Piece × Color)),
      p.board m.src = some (pc, p.stm) ∧
      (pc' = pc ∨ (pc = .pawn ∧ pc' ≠ .pawn ∧ pc' ≠ .king)) ∧
      (∀ x, cap ≠ some (x, p.stm)) ∧
      (∀ c, cap = some (.king, c) → p.board m.dst = some (.king, c) ∧ attacks p m.src m.dst = true) ∧
      ∀ f, count (apply p m) f + ind f (some (pc, p.stm)) + ind f cap = count p f + ind f (some (pc', p.stm)) := by
  cases hs with
  | normal pc pc' hsrc hdst hne hpc hatk hpawn hboard =>
    refine ⟨pc, pc', p.board m.dst, hsrc, hpc, hdst, ?_, ?_⟩
    · intro c hc
      exact ⟨hc, hatk (by rw [hc]; simp)⟩
    · intro f
      rw [count_eq_cnt, count_eq_cnt, hboard]
      have e1 := cnt_upd (upd p.board m.src none) f m.dst (some (pc', p.stm))
      have e2 := cnt_upd p.board f m.src none
      rw [upd_other _ _ (Ne.symm hne)] at e1
      rw [hsrc] at e2
      simp only [ind_none] at e2
      omega
  | ep q pc' hsrc hdst hq hqs hqd hne hpc hlast hdr hboard =>
    refine ⟨.pawn, pc', some (.pawn, p.stm.other), hsrc, ?_, ?_, ?_, ?_⟩
    · cases pc' <;> simp at hpc ⊢
    · intro x hx
      simp only [Option.some.injEq, Prod.mk.injEq] at hx
      exact Color.other_ne _ hx.2
    · intro c hc; simp at hc
    · intro f
      rw [count_eq_cnt, count_eq_cnt, hboard]
      have e1 := cnt_upd (upd (upd p.board q none) m.src none) f m.dst (some (pc', p.stm))
      have e2 := cnt_upd (upd p.board q none) f m.src none
      have e3 := cnt_upd p.board f q none
      rw [upd_other _ _ (Ne.symm hne), upd_other _ _ (Ne.symm hqd), hdst] at e1
      rw [upd_other _ _ (Ne.symm hqs), hsrc] at e2
      rw [hq] at e3
      simp only [ind_none] at e1 e2 e3
      omega
  | castle r t hsrc hsrcr hsrcf hdst hr ht hrr htr hrs hrd hts htd htr' hne hboard =>
    refine ⟨.king, .king, none, hsrc, Or.inl rfl, by simp, by simp, ?_⟩
    intro f
    rw [count_eq_cnt, count_eq_cnt, hboard]
    have e1 := cnt_upd (upd (upd (upd p.board t (some (.rook, p.stm))) r none) m.src none) f m.dst (some (.king, p.stm))
    have e2 := cnt_upd (upd (upd p.board t (some (.rook, p.stm))) r none) f m.src none
    have e3 := cnt_upd (upd p.board t (some (.rook, p.stm))) f r none
    have e4 := cnt_upd p.board f t (some (.rook, p.stm))
    rw [upd_other _ _ (Ne.symm hne), upd_other _ _ (Ne.symm hrd), upd_other _ _ (Ne.symm htd), hdst] at e1
    rw [upd_other _ _ (Ne.symm hrs), upd_other _ _ (Ne.symm hts), hsrc] at e2
    rw [upd_other _ _ (Ne.symm htr'), hr] at e3
    rw [ht] at e4
    simp only [ind_none] at e1 e2 e3 e4 ⊢
    omega

@[simp] theorem ind_some (f) (v : Piece × Color) : ind f (some v) = if f v then 1 else 0 := rfl

theorem ind_le_one (f v) : ind f v ≤ 1 := by unfold ind; split <;> omega

theorem men_shrink {p : Pos} {m : Move} (h : pseudoLegal p m = true) (c : Color) :
    count (apply p m) (·.2 == c) ≤ count p (·.2 == c) := by
  obtain ⟨pc, pc', cap, _, _, _, _, he⟩ := count_apply (pseudoLegal_shape h)
  have := he (·.2 == c)
  simp only [ind_some] at this
  omega

theorem pawns_shrink {p : Pos} {m : Move} (h : pseudoLegal p m = true) (c : Color) :
    count (apply p m) (· == (.pawn, c)) ≤ count p (· == (.pawn, c)) := by
  obtain ⟨pc, pc', cap, _, hpc, _, _, he⟩ := count_apply (pseudoLegal_shape h)
  have := he (· == (.pawn, c))
  rcases hpc with hpc | ⟨_, hpc, _⟩
  · subst hpc; omega
  · have : ind (· == (Piece.pawn, c)) (some (pc', p.stm)) = 0 := by
      simp only [ind_some, beq_iff_eq, Prod.mk.injEq, hpc, false_and, if_false]
    omega

/-- the number of kings of either colour is unchanged by a move that does not capture a king -/
theorem kings_eq {p : Pos} {m : Move} (h : pseudoLegal p m = true)
    (hk : ∀ c, p.board m.dst = some (.king, c) → attacks p m.src m.dst = false) (c : Color) :
    count (apply p m) (· == (.king, c)) = count p (· == (.king, c)) := by
  obtain ⟨pc, pc', cap, _, hpc, _, hcap, he⟩ := count_apply (pseudoLegal_shape h)
  have := he (· == (.king, c))
  have h1 : ind (· == (Piece.king, c)) (some (pc', p.stm)) = ind (· == (Piece.king, c)) (some (pc, p.stm)) := by
    rcases hpc with hpc | ⟨h1, _, h2⟩
    · rw [hpc]
    · simp [h1, h2]
  have h2 : ind (· == (Piece.king, c)) cap = 0 := by
    cases hc : cap with
    | none => rfl
    | some v =>
      obtain ⟨x, d⟩ := v
      by_cases hx : x = .king
      · subst hx
        have := hcap d hc
        rw [hk d this.1] at this
        cases this.2
      · simp [hx]
  omega

/-! ### `Valid` as a proposition -/

structure ValidP (p : Pos) : Prop where
  king : ∀ c, count p (· == (.king, c)) = 1
  men : ∀ c, count p (·.2 == c) ≤ 16
  pawns : ∀ c, count p (· == (.pawn, c)) ≤ 8
  ck : ∀ c, p.castleK c = true →
    (homeSq c 4).any (p.has · .king c) = true ∧ (homeSq c 7).any (p.has · .rook c) = true
  cq : ∀ c, p.castleQ c = true →
    (homeSq c 4).any (p.has · .king c) = true ∧ (homeSq c 0).any (p.has · .rook c) = true
  noPawn : ∀ s, (p.board s).any (·.1 == .pawn) = true → s.rank ≠ 0 ∧ s.rank ≠ 7
  notInCheck : inCheck p p.stm.other = false
  ep : epValid p = true

theorem valid_iff (p : Pos) : Valid p = true ↔ ValidP p := by
  constructor
  · intro h
    simp only [Valid, List.all_cons, List.all_nil, Bool.and_true, Bool.and_eq_true, beq_iff_eq, decide_eq_true_eq,
      Bool.or_eq_true, Bool.not_eq_true', List.all_eq_true, bne_iff_ne, ne_eq] at h
    obtain ⟨⟨⟨⟨⟨⟨⟨⟨kw, mw⟩, pw⟩, ckw⟩, cqw⟩, ⟨⟨⟨kb, mb⟩, pb⟩, ckb⟩, cqb⟩, hnp⟩, hnc⟩, hep⟩ := h
    refine ⟨?_, ?_, ?_, ?_, ?_, ?_, hnc, hep⟩
    · intro c; cases c <;> assumption
    · intro c; cases c <;> assumption
    · intro c; cases c <;> assumption
    · intro c hc
      cases c
      · rcases ckw with h | h
        · rw [hc] at h; cases h
        · exact h
      · rcases ckb with h | h
        · rw [hc] at h; cases h
        · exact h
    · intro c hc
      cases c
      · rcases cqw with h | h
        · rw [hc] at h; cases h
        · exact h
      · rcases cqb with h | h
        · rw [hc] at h; cases h
        · exact h
    · intro s hs
      rcases hnp s (List.mem_finRange s) with h | h
      · rw [hs] at h; cases h
      · exact h
  · intro h
    simp only [Valid, List.all_cons, List.all_nil, Bool.and_true, Bool.and_eq_true, beq_iff_eq, decide_eq_true_eq,
      Bool.or_eq_true, Bool.not_eq_true', List.all_eq_true, bne_iff_ne, ne_eq]
    have hck : ∀ c, p.castleK c = false ∨
        (homeSq c 4).any (p.has · .king c) = true ∧ (homeSq c 7).any (p.has · .rook c) = true := by
      intro c
      cases hc : p.castleK c
      · exact Or.inl rfl
      · exact Or.inr (h.ck c hc)
    have hcq : ∀ c, p.castleQ c = false ∨
        (homeSq c 4).any (p.has · .king c) = true ∧ (homeSq c 0).any (p.has · .rook c) = true := by
      intro c
      cases hc : p.castleQ c
      · exact Or.inl rfl
      · exact Or.inr (h.cq c hc)
    refine ⟨⟨⟨⟨⟨⟨⟨⟨h.king _, h.men _⟩, h.pawns _⟩, hck _⟩, hcq _⟩, ⟨⟨⟨h.king _, h.men _⟩, h.pawns _⟩, hck _⟩, hcq _⟩, ?_⟩,
      h.notInCheck⟩, h.ep⟩
    intro s _
    cases hs : (p.board s).any (·.1 == .pawn)
    · exact Or.inl rfl
    · exact Or.inr (h.noPawn s hs)

/-! ### check depends only on the board; the king square -/

theorem attacks_congr {p q : Pos} (h : p.board = q.board) (a b : Sq) : attacks p a b = attacks q a b := by
  simp only [attacks, slides, pathClear, Pos.empty, h]

theorem attackedBy_congr {p q : Pos} (h : p.board = q.board) (c : Color) (t : Sq) :
    attackedBy p c t = attackedBy q c t := by
  simp only [attackedBy, Pos.colorAt, attacks_congr h, h]

theorem kingSq?_congr {p q : Pos} (h : p.board = q.board) (c : Color) : kingSq? p c = kingSq? q c := by
  simp only [kingSq?, Pos.has, h]

/-- `inCheck` depends only on the placement of the men. -/
theorem inCheck_congr {p q : Pos} (h : p.board = q.board) (c : Color) : inCheck p c = inCheck q c := by
  simp only [inCheck, kingSq?_congr h, attackedBy_congr h]

theorem inCheck_mk (b stm ck cq ep c) (q : Pos) (h : b = q.board) :
    inCheck ⟨b, stm, ck, cq, ep⟩ c = inCheck q c := inCheck_congr h c

theorem kingSq?_of_unique {p : Pos} {c : Color} {s : Sq} (h1 : count p (· == (.king, c)) = 1)
    (hs : p.board s = some (.king, c)) : kingSq? p c = some s := by
  unfold kingSq?
  cases hf : allSq.find? (fun s => p.has s .king c) with
  | none =>
    rw [List.find?_eq_none] at hf
    have := hf s (List.mem_finRange s)
    simp [Pos.has, hs] at this
  | some k =>
    have hk := List.find?_some hf
    simp only [Pos.has, beq_iff_eq] at hk
    by_cases hks : k = s
    · rw [hks]
    · exfalso
      have e1 := cnt_upd p.board (· == (.king, c)) k none
      have e2 := cnt_upd (upd p.board k none) (· == (.king, c)) s none
      rw [upd_other _ _ (Ne.symm hks), hs] at e2
      rw [hk] at e1
      rw [count_eq_cnt] at h1
      simp only [ind_none, ind_some, beq_self_eq_true, if_true] at e1 e2
      omega

theorem inCheck_of_attack {p : Pos} {c : Color} {a k : Sq} {pc : Piece}
    (h1 : count p (· == (.king, c)) = 1) (hk : p.board k = some (.king, c))
    (ha : p.board a = some (pc, c.other)) (hatk : attacks p a k = true) : inCheck p c = true := by
  unfold inCheck
  rw [kingSq?_of_unique h1 hk]
  simp only [attackedBy, List.any_eq_true, Bool.and_eq_true, beq_iff_eq]
  exact ⟨a, List.mem_finRange a, by simp [Pos.colorAt, ha], hatk⟩

/-! ### the clauses of `Valid` after a move -/

theorem Shape.src_dst {p : Pos} {m : Move} (hs : Shape p m) :
    ∃ pc, p.board m.src = some (pc, p.stm) ∧ ∀ x, p.board m.dst ≠ some (x, p.stm) := by
  cases hs with
  | normal pc pc' hsrc hdst => exact ⟨pc, hsrc, hdst⟩
  | ep q pc' hsrc hdst => exact ⟨_, hsrc, by simp [hdst]⟩
  | castle r t hsrc _ _ hdst => exact ⟨_, hsrc, by simp [hdst]⟩

theorem Color.eq_other_of_ne {c d : Color} (h : c ≠ d) : c = d.other := by
  cases c <;> cases d <;> simp [Color.other] at h ⊢

/-- (a) no king is captured: in a valid position a pseudo-legal move never lands on a king. -/
theorem no_king_capture {p : Pos} {m : Move} (hv : ValidP p) (h : pseudoLegal p m = true) (c : Color) :
    p.board m.dst = some (.king, c) → attacks p m.src m.dst = false := by
  intro hk
  obtain ⟨pc, hsrc, hdst⟩ := (pseudoLegal_shape h).src_dst
  have hc : c = p.stm.other := Color.eq_other_of_ne (fun e => hdst .king (by rw [← e]; exact hk))
  subst hc
  cases hatk : attacks p m.src m.dst with
  | false => rfl
  | true =>
    have := inCheck_of_attack (hv.king _) hk (by simpa using hsrc) hatk
    rw [hv.notInCheck] at this
    cases this

theorem step_kings {p : Pos} {m : Move} (hv : ValidP p) (h : pseudoLegal p m = true) (c : Color) :
    count (apply p m) (· == (.king, c)) = 1 := by
  rw [kings_eq h (no_king_capture hv h) c]
  exact hv.king c

theorem upd_apply (b : Bd) (s x : Sq) (v) : upd b s v x = if x = s then v else b x := rfl

/-- (c) no pawn on the first or last rank after the move -/
theorem step_noPawn {p : Pos} {m : Move} (hv : ValidP p) (h : pseudoLegal p m = true) (s : Sq)
    (hs : ((apply p m).board s).any (·.1 == .pawn) = true) : s.rank ≠ 0 ∧ s.rank ≠ 7 := by
  have key : ∀ c, p.board m.src = some (.pawn, c) → m.src.rank ≠ 0 ∧ m.src.rank ≠ 7 := by
    intro c hc; exact hv.noPawn m.src (by simp [hc])
  have hb := Sq.rank_bounds s
  have hb' := Sq.rank_bounds m.src
  cases pseudoLegal_shape h with
  | normal pc pc' hsrc hdst hne hpc hatk hpawn hboard =>
    rw [hboard, upd_apply, upd_apply] at hs
    split at hs
    · rename_i e; subst e
      simp only [Option.any_some, beq_iff_eq] at hs
      subst hs
      have hpc0 : pc = .pawn := by
        rcases hpc with h | h
        · exact h.symm
        · exact absurd rfl h.2.1
      subst hpc0
      have hk := key _ hsrc
      obtain ⟨h1, h2⟩ := hpawn rfl
      have h1 := h1 rfl
      have h2 : m.dst.rank - m.src.rank = p.stm.fwd ∨
          (m.dst.rank - m.src.rank = 2 * p.stm.fwd ∧ m.src.rank = p.stm.pawnRank) := by
        rcases h2 with h2 | h2
        · exact Or.inl h2
        · exact Or.inr ⟨h2.1, h2.2.1⟩
      cases hc : p.stm <;>
        simp only [hc, Color.fwd, Color.pawnRank, Color.homeRank, Color.lastRank, Color.other] at h1 h2 <;>
        constructor <;> omega
    · split at hs
      · cases hs
      · exact hv.noPawn s hs
  | ep q pc' hsrc hdst hq hqs hqd hne hpc hlast hdr hboard =>
    rw [hboard, upd_apply, upd_apply, upd_apply] at hs
    split at hs
    · rename_i e; subst e
      simp only [Option.any_some, beq_iff_eq] at hs
      subst hs
      have hk := key _ hsrc
      have h1 := hlast rfl
      cases hc : p.stm <;>
        simp only [hc, Color.fwd, Color.homeRank, Color.lastRank, Color.other] at h1 hdr <;>
        constructor <;> omega
    · split at hs
      · cases hs
      · split at hs
        · cases hs
        · exact hv.noPawn s hs
  | castle r t hsrc hsrcr hsrcf hdst hr ht hrr htr hrs hrd hts htd htr' hne hboard =>
    rw [hboard, upd_apply, upd_apply, upd_apply, upd_apply] at hs
    split at hs
    · simp at hs
    · split at hs
      · cases hs
      · split at hs
        · cases hs
        · split at hs
          · simp at hs
          · exact hv.noPawn s hs

theorem apply_castleK {p : Pos} {m : Move} {d : Color} : (apply p m).castleK d = true ↔
    p.castleK d = true ∧ homeSq d 4 ≠ some m.src ∧ homeSq d 4 ≠ some m.dst ∧
      homeSq d 7 ≠ some m.src ∧ homeSq d 7 ≠ some m.dst := by
  simp only [apply, Bool.and_eq_true, Bool.not_eq_true', Bool.or_eq_false_iff, beq_eq_false_iff_ne, ne_eq]
  constructor
  · rintro ⟨⟨a, b, c⟩, d, e⟩; exact ⟨a, b, c, d, e⟩
  · rintro ⟨a, b, c, d, e⟩; exact ⟨⟨a, b, c⟩, d, e⟩

theorem apply_castleQ {p : Pos} {m : Move} {d : Color} : (apply p m).castleQ d = true ↔
    p.castleQ d = true ∧ homeSq d 4 ≠ some m.src ∧ homeSq d 4 ≠ some m.dst ∧
      homeSq d 0 ≠ some m.src ∧ homeSq d 0 ≠ some m.dst := by
  simp only [apply, Bool.and_eq_true, Bool.not_eq_true', Bool.or_eq_false_iff, beq_eq_false_iff_ne, ne_eq]
  constructor
  · rintro ⟨⟨a, b, c⟩, d, e⟩; exact ⟨a, b, c, d, e⟩
  · rintro ⟨a, b, c, d, e⟩; exact ⟨⟨a, b, c⟩, d, e⟩

theorem homeRank_ne {c d : Color} (h : c ≠ d) : c.homeRank ≠ d.homeRank := by
  cases c <;> cases d <;> simp [Color.homeRank] at h ⊢

/-- a man (not a pawn) on a home-rank square of colour `d` that is neither source nor destination
stays, provided the move does not start on `d`'s king home square -/
theorem home_preserved {p : Pos} {m : Move} (hs : Shape p m) {d : Color} {f : Int} {s : Sq} {pc : Piece}
    (hk : homeSq d 4 ≠ some m.src) (hh : homeSq d f = some s) (h1 : s ≠ m.src) (h2 : s ≠ m.dst)
    (hb : p.board s = some (pc, d)) (hpc : pc ≠ .pawn) : (apply p m).board s = some (pc, d) := by
  cases hs with
  | normal pc0 pc' hsrc hdst hne hpc hatk hpawn hboard =>
    rw [hboard, upd_other _ _ h2, upd_other _ _ h1, hb]
  | ep q pc' hsrc hdst hq hqs hqd hne hpc' hlast hdr hboard =>
    have h3 : s ≠ q := by
      intro e; rw [e, hq] at hb
      simp only [Option.some.injEq, Prod.mk.injEq] at hb
      exact hpc hb.1.symm
    rw [hboard, upd_other _ _ h2, upd_other _ _ h1, upd_other _ _ h3, hb]
  | castle r t hsrc hsrcr hsrcf hdst hr ht hrr htr hrs hrd hts htd htr' hne hboard =>
    have hd : d ≠ p.stm := by
      intro e; subst e
      apply hk
      unfold homeSq
      rw [sq?_eq_some]
      have := Sq.rank_bounds m.src
      omega
    have hrk : s.rank = d.homeRank := by
      unfold homeSq at hh; rw [sq?_eq_some] at hh; exact hh.2.2.2.2.2
    have hrn := homeRank_ne hd
    have h3 : s ≠ r := by intro e; rw [e] at hrk; omega
    have h4 : s ≠ t := by intro e; rw [e] at hrk; omega
    rw [hboard, upd_other _ _ h2, upd_other _ _ h1, upd_other _ _ h3, upd_other _ _ h4, hb]

theorem home_any_preserved {p : Pos} {m : Move} (hs : Shape p m) {d : Color} {f : Int} {pc : Piece}
    (hk : homeSq d 4 ≠ some m.src) (h1 : homeSq d f ≠ some m.src) (h2 : homeSq d f ≠ some m.dst)
    (hpc : pc ≠ .pawn) (hb : (homeSq d f).any (p.has · pc d) = true) :
    (homeSq d f).any ((apply p m).has · pc d) = true := by
  cases hh : homeSq d f with
  | none => rw [hh] at hb; cases hb
  | some s =>
    rw [hh] at hb h1 h2
    simp only [Option.any_some, Pos.has, beq_iff_eq] at hb ⊢
    exact home_preserved hs hk hh (fun e => h1 (by rw [e])) (fun e => h2 (by rw [e])) hb hpc

/-- (d) castling rights remain backed by king and rook on their home squares -/
theorem step_ck {p : Pos} {m : Move} (hv : ValidP p) (h : pseudoLegal p m = true) (d : Color)
    (hc : (apply p m).castleK d = true) :
    (homeSq d 4).any ((apply p m).has · .king d) = true ∧ (homeSq d 7).any ((apply p m).has · .rook d) = true := by
  obtain ⟨h0, h1, h2, h3, h4⟩ := apply_castleK.mp hc
  have hs := pseudoLegal_shape h
  obtain ⟨a, b⟩ := hv.ck d h0
  exact ⟨home_any_preserved hs h1 h1 h2 (by decide) a, home_any_preserved hs h1 h3 h4 (by decide) b⟩

theorem step_cq {p : Pos} {m : Move} (hv : ValidP p) (h : pseudoLegal p m = true) (d : Color)
    (hc : (apply p m).castleQ d = true) :
    (homeSq d 4).any ((apply p m).has · .king d) = true ∧ (homeSq d 0).any ((apply p m).has · .rook d) = true := by
  obtain ⟨h0, h1, h2, h3, h4⟩ := apply_castleQ.mp hc
  have hs := pseudoLegal_shape h
  obtain ⟨a, b⟩ := hv.cq d h0
  exact ⟨home_any_preserved hs h1 h1 h2 (by decide) a, home_any_preserved hs h1 h3 h4 (by decide) b⟩

theorem fwd_abs (c : Color) : c.fwd = 1 ∨ c.fwd = -1 := by cases c <;> simp [Color.fwd]

/-- (f) the en-passant mark set by `apply` satisfies `epValid` -/
theorem step_ep {p : Pos} {m : Move} (hv : ValidP p) (h : pseudoLegal p m = true) :
    epValid (apply p m) = true := by
  cases hds : isDoubleStep p m with
  | false => simp [epValid, apply, hds]
  | true =>
    have hep : (apply p m).ep = some m.dst := by simp [apply, hds]
    have hstm : (apply p m).stm = p.stm.other := rfl
    simp only [isDoubleStep, Bool.and_eq_true, beq_iff_eq] at hds
    obtain ⟨hpw, hdr2⟩ := hds
    have hfw := fwd_abs p.stm
    cases pseudoLegal_shape h with
    | ep q pc' hsrc hdst hq hqs hqd hne hpc hlast hdr hboard => omega
    | castle r t hsrc => rw [hsrc] at hpw; simp at hpw
    | normal pc pc' hsrc hdst hne hpc hatk hpawn hboard =>
      have hpc0 : pc = .pawn := by
        rw [hsrc] at hpw; cases pc <;> simp at hpw ⊢
      subst hpc0
      obtain ⟨_, hstep⟩ := hpawn rfl
      rcases hstep with hstep | ⟨hdr, hsr, hfile, hdn, hpc', x, hx, hxe⟩
      · omega
      subst hpc'
      have hx' := sq?_eq_some.mp hx
      have h1 : sq? m.dst.file (m.dst.rank - p.stm.fwd) = some x := by
        rw [sq?_eq_some]; omega
      have h2 : sq? m.dst.file p.stm.pawnRank = some m.src := by
        rw [sq?_eq_some]
        have := Sq.file_bounds m.src; have := Sq.rank_bounds m.src
        omega
      have hxs : x ≠ m.src := by intro e; rw [e] at hx'; omega
      have hxd : x ≠ m.dst := by intro e; rw [e] at hx'; omega
      have b1 : (apply p m).board m.dst = some (.pawn, p.stm) := by rw [hboard, upd_same]
      have b2 : (apply p m).board x = none := by rw [hboard, upd_other _ _ hxd, upd_other _ _ hxs, hxe]
      have b3 : (apply p m).board m.src = none := by rw [hboard, upd_other _ _ hne, upd_same]
      have hB : (fun s => if (s == m.src) = true then some (Piece.pawn, p.stm)
          else if (s == m.dst) = true then none else (apply p m).board s) = p.board := by
        funext s
        by_cases e1 : s = m.src
        · simp [e1, hsrc]
        · by_cases e2 : s = m.dst
          · simp [e2, hdn, Ne.symm hne]
          · simp only [beq_iff_eq, e1, e2, if_false]
            rw [hboard, upd_other _ _ e2, upd_other _ _ e1]
      simp only [epValid, hep, hstm, Color.other_other, h1, h2, Pos.has, Pos.empty, b1, b2, b3]
      rw [inCheck_mk _ _ _ _ _ _ p hB, hv.notInCheck]
      simp
      omega

/-- all clauses together; (b) the bounds on men and pawns survive because the counts never grow,
(e) the mover is not in check afterwards by the definition of `legal` -/
theorem validP_step {p : Pos} {m : Move} (hv : ValidP p) (hl : legal p m = true) : ValidP (apply p m) := by
  simp only [legal, Bool.and_eq_true, Bool.not_eq_true'] at hl
  obtain ⟨hpl, hchk⟩ := hl
  refine ⟨step_kings hv hpl, ?_, ?_, step_ck hv hpl, step_cq hv hpl, step_noPawn hv hpl, ?_, step_ep hv hpl⟩
  · intro c; exact Nat.le_trans (men_shrink hpl c) (hv.men c)
  · intro c; exact Nat.le_trans (pawns_shrink hpl c) (hv.pawns c)
  · show inCheck (apply p m) p.stm.other.other = false
    rw [Color.other_other]; exact hchk

/-! ### the recording policy `norm` -/

@[simp] theorem norm_board (p : Pos) : (norm p).board = p.board := rfl
@[simp] theorem norm_stm (p : Pos) : (norm p).stm = p.stm := rfl
@[simp] theorem norm_castleK (p : Pos) : (norm p).castleK = p.castleK := rfl
@[simp] theorem norm_castleQ (p : Pos) : (norm p).castleQ = p.castleQ := rfl

theorem norm_ep_cases (p : Pos) : (norm p).ep = p.ep ∨ (norm p).ep = none := by
  unfold norm
  cases p.ep with
  | none => exact Or.inl rfl
  | some q =>
    simp only []
    split
    · exact Or.inl rfl
    · exact Or.inr rfl

theorem epValid_norm {p : Pos} (h : epValid p = true) : epValid (norm p) = true := by
  rcases norm_ep_cases p with e | e
  · unfold epValid at h ⊢
    rw [e]
    exact h
  · unfold epValid
    rw [e]

theorem validP_norm {p : Pos} (hv : ValidP p) : ValidP (norm p) :=
  ⟨hv.king, hv.men, hv.pawns, hv.ck, hv.cq, hv.noPawn,
    (inCheck_congr (norm_board p) _).trans hv.notInCheck, epValid_norm hv.ep⟩

theorem apply_norm (p : Pos) (m : Move) : apply (norm p) m = apply p m := rfl

theorem norm_ep_beq {p : Pos} {m : Move} {q : Sq} (hb : p.board m.src = some (.pawn, p.stm))
    (hf : (m.dst.file - m.src.file).natAbs = 1) (hq : sq? m.dst.file m.src.rank = some q) :
    ((norm p).ep == some q) = (p.ep == some q) := by
  unfold norm
  cases he : p.ep with
  | none => rfl
  | some e =>
    simp only []
    by_cases heq : e = q
    · subst heq
      have hq' := sq?_eq_some.mp hq
      have : (allSq.any fun s => s.rank == e.rank && (s.file - e.file).natAbs == 1 && p.has s .pawn p.stm) = true := by
        rw [List.any_eq_true]
        refine ⟨m.src, List.mem_finRange _, ?_⟩
        simp only [Bool.and_eq_true, beq_iff_eq, Pos.has, hb, and_true]
        omega
      rw [if_pos this]
    · split
      · rfl
      · simp [heq]

theorem pseudoLegal_norm (p : Pos) (m : Move) : pseudoLegal (norm p) m = pseudoLegal p m := by
  unfold pseudoLegal
  simp only [norm_board, norm_stm, norm_castleK, norm_castleQ]
  split
  · rfl
  · rename_i pc c' hb
    split
    · have e1 : ∀ s, (norm p).colorAt s = p.colorAt s := fun _ => rfl
      have e2 : ∀ s, (norm p).empty s = p.empty s := fun _ => rfl
      have e3 : ∀ s a b, (norm p).has s a b = p.has s a b := fun _ _ _ => rfl
      simp only [e1, e2, e3]
      cases hc : (c' == p.stm)
      · rfl
      · have hc' : c' = p.stm := by simpa using hc
        subst hc'
        cases hF : ((m.dst.file - m.src.file).natAbs == 1)
        · rfl
        · cases hq : sq? m.dst.file m.src.rank with
          | none => rfl
          | some q =>
            simp only []
            rw [norm_ep_beq hb (by simpa using hF) hq]
            rfl
    · rfl
    · rfl

/-- Legality does not see whether the en-passant mark was recorded by the library's policy. -/
theorem legal_norm (p : Pos) (m : Move) : legal (norm p) m = legal p m := by
  unfold legal
  rw [pseudoLegal_norm, apply_norm, norm_stm]

/-! ### histories -/

theorem rights_shrinkK {p : Pos} {m : Move} {c : Color} (h : (apply p m).castleK c = true) : p.castleK c = true :=
  (apply_castleK.mp h).1
theorem rights_shrinkQ {p : Pos} {m : Move} {c : Color} (h : (apply p m).castleQ c = true) : p.castleQ c = true :=
  (apply_castleQ.mp h).1

end Closure

/-- play a list of moves, each of which must be legal where it is played -/
def playLegal (p : Pos) : List Move → Option Pos
  | [] => some p
  | m :: ms => if legal p m then playLegal (apply p m) ms else none

/-- the same history as the library holds it: after every move the en-passant mark is recorded by the
library's policy `norm` -/
def playLegalNorm (p : Pos) : List Move → Option Pos
  | [] => some p
  | m :: ms => if legal p m then playLegalNorm (norm (apply p m)) ms else none

/-- `q` is reachable from `p` by a sequence of legal moves -/
def Reachable (p q : Pos) : Prop := ∃ ms, playLegal p ms = some q

/-- the monotone quantities of C05: `q` has no castling right, no more men and no more pawns than `p` -/
structure MonoLE (q p : Pos) : Prop where
  castleK : ∀ c, q.castleK c = true → p.castleK c = true
  castleQ : ∀ c, q.castleQ c = true → p.castleQ c = true
  men : ∀ c, count q (·.2 == c) ≤ count p (·.2 == c)
  pawns : ∀ c, count q (· == (.pawn, c)) ≤ count p (· == (.pawn, c))

namespace Closure

theorem MonoLE.refl (p : Pos) : MonoLE p p := ⟨fun _ h => h, fun _ h => h, fun _ => Nat.le_refl _, fun _ => Nat.le_refl _⟩

theorem MonoLE.trans {a b c : Pos} (h1 : MonoLE a b) (h2 : MonoLE b c) : MonoLE a c :=
  ⟨fun d h => h2.castleK d (h1.castleK d h), fun d h => h2.castleQ d (h1.castleQ d h),
   fun d => Nat.le_trans (h1.men d) (h2.men d), fun d => Nat.le_trans (h1.pawns d) (h2.pawns d)⟩

theorem monoLE_step {p : Pos} {m : Move} (h : pseudoLegal p m = true) : MonoLE (apply p m) p :=
  ⟨fun _ => rights_shrinkK, fun _ => rights_shrinkQ, men_shrink h, pawns_shrink h⟩

theorem monoLE_norm (p : Pos) : MonoLE (norm p) p := ⟨fun _ h => h, fun _ h => h, fun _ => Nat.le_refl _, fun _ => Nat.le_refl _⟩

theorem legal_pseudo {p : Pos} {m : Move} (h : legal p m = true) : pseudoLegal p m = true := by
  simp only [legal, Bool.and_eq_true] at h; exact h.1

theorem playLegal_validP {p q : Pos} {ms : List Move} (hv : ValidP p) (h : playLegal p ms = some q) : ValidP q := by
  induction ms generalizing p with
  | nil => simp only [playLegal, Option.some.injEq] at h; rw [← h]; exact hv
  | cons m ms ih =>
    simp only [playLegal] at h
    split at h
    · rename_i hl; exact ih (validP_step hv hl) h
    · cases h

theorem playLegalNorm_validP {p q : Pos} {ms : List Move} (hv : ValidP p) (h : playLegalNorm p ms = some q) :
    ValidP q := by
  induction ms generalizing p with
  | nil => simp only [playLegalNorm, Option.some.injEq] at h; rw [← h]; exact hv
  | cons m ms ih =>
    simp only [playLegalNorm] at h
    split at h
    · rename_i hl; exact ih (validP_norm (validP_step hv hl)) h
    · cases h

theorem playLegal_mono {p q : Pos} {ms : List Move} (h : playLegal p ms = some q) : MonoLE q p := by
  induction ms generalizing p with
  | nil => simp only [playLegal, Option.some.injEq] at h; rw [← h]; exact MonoLE.refl p
  | cons m ms ih =>
    simp only [playLegal] at h
    split at h
    · rename_i hl; exact MonoLE.trans (ih h) (monoLE_step (legal_pseudo hl))
    · cases h

theorem playLegalNorm_mono {p q : Pos} {ms : List Move} (h : playLegalNorm p ms = some q) : MonoLE q p := by
  induction ms generalizing p with
  | nil => simp only [playLegalNorm, Option.some.injEq] at h; rw [← h]; exact MonoLE.refl p
  | cons m ms ih =>
    simp only [playLegalNorm] at h
    split at h
    · rename_i hl; exact MonoLE.trans (MonoLE.trans (ih h) (monoLE_norm _)) (monoLE_step (legal_pseudo hl))
    · cases h

theorem playLegal_append (p : Pos) (a b : List Move) :
    playLegal p (a ++ b) = (playLegal p a).bind (fun q => playLegal q b) := by
  induction a generalizing p with
  | nil => rfl
  | cons m ms ih =>
    simp only [List.cons_append, playLegal]
    split
    · exact ih _
    · rfl

theorem norm_norm (p : Pos) : norm (norm p) = norm p := by
  cases he : p.ep with
  | none => simp [norm, he]
  | some q =>
    by_cases hc : (allSq.any fun s => s.rank == q.rank && (s.file - q.file).natAbs == 1 && p.has s .pawn p.stm) = true
    · have e1 : norm p = { p with ep := some q } := by
        simp only [norm, he, hc, if_true]
      rw [e1]
      simp only [norm]
      have : (allSq.any fun s => s.rank == q.rank && (s.file - q.file).natAbs == 1 &&
          ({ p with ep := some q } : Pos).has s .pawn p.stm) = true := hc
      rw [if_pos this]
    · have e1 : norm p = { p with ep := none } := by
        simp only [norm, he, hc]
        rfl
      rw [e1]
      rfl

/-- the library's history is the specification's history with `norm` applied to the positions: the
same move lists are playable and the end positions agree up to `norm` -/
theorem playLegalNorm_eq (p : Pos) (ms : List Move) :
    (playLegalNorm (norm p) ms).map norm = (playLegal p ms).map norm ∧
    (playLegalNorm p ms).map norm = (playLegal p ms).map norm := by
  induction ms generalizing p with
  | nil => exact ⟨by simp [playLegalNorm, playLegal, norm_norm], rfl⟩
  | cons m ms ih =>
    simp only [playLegalNorm, playLegal, legal_norm, apply_norm]
    constructor
    · split
      · exact (ih _).1
      · rfl
    · split
      · exact (ih _).1
      · rfl

end Closure
end Chess
