import ChessVerif.Spec.Rules
/-
Closure of `Valid` under legal moves on the specification (property C05), and the monotone
quantities (castling rights, men per side, pawns per side).
-/
namespace Chess
namespace Closure

abbrev Bd := Sq → Option (Piece × Color)

/-! ### squares -/

theorem sq?_eq_some {f r : Int} {s : Sq} :
    sq? f r = some s ↔ (0 ≤ f ∧ f < 8 ∧ 0 ≤ r ∧ r < 8 ∧ s.file = f ∧ s.rank = r) := by
  unfold sq? Sq.file Sq.rank
  split
  · simp only [Option.some.injEq]
    constructor
    · rintro rfl
      simp only []
      omega
    · intro h
      apply Fin.ext
      simp only []
      omega
  · constructor
    · intro h; cases h
    · intro h; omega

theorem Sq.ext_fr {a b : Sq} (hf : a.file = b.file) (hr : a.rank = b.rank) : a = b := by
  unfold Sq.file Sq.rank at *
  apply Fin.ext
  omega

theorem Sq.file_bounds (s : Sq) : 0 ≤ s.file ∧ s.file < 8 := by
  unfold Sq.file; omega
theorem Sq.rank_bounds (s : Sq) : 0 ≤ s.rank ∧ s.rank < 8 := by
  unfold Sq.rank; omega

theorem sq?_self (s : Sq) : sq? s.file s.rank = some s := by
  rw [sq?_eq_some]
  have := Sq.file_bounds s; have := Sq.rank_bounds s
  omega

/-! ### point updates and counting -/

def upd (b : Bd) (s : Sq) (v : Option (Piece × Color)) : Bd := fun x => if x = s then v else b x

@[simp] theorem upd_same (b : Bd) (s v) : upd b s v s = v := by simp [upd]
theorem upd_other (b : Bd) {s x : Sq} (v) (h : x ≠ s) : upd b s v x = b x := by simp [upd, h]

def cnt (b : Bd) (f : Piece × Color → Bool) : Nat := (allSq.filter fun s => (b s).any f).length

def ind (f : Piece × Color → Bool) (v : Option (Piece × Color)) : Nat := if v.any f then 1 else 0

theorem count_eq_cnt (p : Pos) (f) : count p f = cnt p.board f := rfl

theorem filter_upd_length (b : Bd) (f) (s : Sq) (v) (l : List Sq) (hnd : l.Nodup) :
    (l.filter fun x => (upd b s v x).any f).length + (if s ∈ l then ind f (b s) else 0)
      = (l.filter fun x => (b x).any f).length + (if s ∈ l then ind f v else 0) := by
  induction l with
  | nil => simp
  | cons a l ih =>
    have hnd' := (List.nodup_cons.mp hnd)
    have ih := ih hnd'.2
    by_cases has : a = s
    · subst has
      have hnot : a ∉ l := hnd'.1
      simp only [hnot, if_false] at ih
      simp only [List.filter_cons, upd_same, List.mem_cons, true_or, if_true, ind]
      cases hv : v.any f <;> cases hb : (b a).any f <;> simp <;> omega
    · have h1 : upd b s v a = b a := upd_other b v has
      have h2 : (s ∈ a :: l) = (s ∈ l) := by
        simp only [List.mem_cons, eq_iff_iff]
        constructor
        · rintro (h | h)
          · exact absurd h.symm has
          · exact h
        · exact Or.inr
      simp only [List.filter_cons, h1, h2]
      cases hb : (b a).any f <;> simp <;> omega

theorem cnt_upd (b : Bd) (f) (s : Sq) (v) :
    cnt (upd b s v) f + ind f (b s) = cnt b f + ind f v := by
  have := filter_upd_length b f s v allSq (List.nodup_finRange 64)
  simpa [allSq, cnt] using this

/-! ### the board after a move -/

/-- the man put on the destination square -/
def movedMan (p : Pos) (m : Move) : Option (Piece × Color) :=
  match p.board m.src, m.promo with
  | some (.pawn, c'), some q => some (q, c')
  | x, _ => x

theorem apply_board_normal {p : Pos} {m : Move} (hep : isEnPassant p m = false) (hc : isCastle p m = false) :
    (apply p m).board = upd (upd p.board m.src none) m.dst (movedMan p m) := by
  funext s
  simp only [apply, hep, hc, upd, movedMan]
  simp
  rfl

theorem apply_board_ep {p : Pos} {m : Move} {q : Sq} (hep : isEnPassant p m = true) (hc : isCastle p m = false)
    (hq : sq? m.dst.file m.src.rank = some q) :
    (apply p m).board = upd (upd (upd p.board q none) m.src none) m.dst (movedMan p m) := by
  funext s
  simp only [apply, hep, hc, upd, movedMan, hq]
  simp
  rfl

theorem apply_board_castle {p : Pos} {m : Move} {r t : Sq} (hep : isEnPassant p m = false) (hc : isCastle p m = true)
    (hr : homeSq p.stm (if m.dst.file > m.src.file then 7 else 0) = some r)
    (ht : homeSq p.stm (if m.dst.file > m.src.file then 5 else 3) = some t) :
    (apply p m).board =
      upd (upd (upd (upd p.board t (some (.rook, p.stm))) r none) m.src none) m.dst (movedMan p m) := by
  funext s
  simp only [apply, hep, hc, upd, movedMan, hr, ht]
  simp
  rfl

/-! ### classification of pseudo-legal moves -/

/-- what is known about a pawn move that is neither a capture en passant -/
structure PawnFacts (p : Pos) (m : Move) (pc' : Piece) : Prop where
  noLast : pc' = .pawn → m.dst.rank ≠ p.stm.lastRank
  step : m.dst.rank - m.src.rank = p.stm.fwd ∨
    (m.dst.rank - m.src.rank = 2 * p.stm.fwd ∧ m.src.rank = p.stm.pawnRank ∧ m.dst.file = m.src.file ∧
      p.board m.dst = none ∧ pc' = .pawn ∧
      ∃ x, sq? m.src.file (m.src.rank + p.stm.fwd) = some x ∧ p.board x = none)

inductive Shape (p : Pos) (m : Move) : Prop where
  | normal (pc pc' : Piece)
      (hsrc : p.board m.src = some (pc, p.stm))
      (hdst : ∀ x, p.board m.dst ≠ some (x, p.stm))
      (hne : m.src ≠ m.dst)
      (hpc : pc' = pc ∨ (pc = .pawn ∧ pc' ≠ .pawn ∧ pc' ≠ .king))
      (hatk : p.board m.dst ≠ none → attacks p m.src m.dst = true)
      (hpawn : pc = .pawn → PawnFacts p m pc')
      (hboard : (apply p m).board = upd (upd p.board m.src none) m.dst (some (pc', p.stm)))
  | ep (q : Sq) (pc' : Piece)
      (hsrc : p.board m.src = some (.pawn, p.stm))
      (hdst : p.board m.dst = none)
      (hq : p.board q = some (.pawn, p.stm.other))
      (hqs : q ≠ m.src) (hqd : q ≠ m.dst) (hne : m.src ≠ m.dst)
      (hpc : pc' ≠ .king)
      (hlast : pc' = .pawn → m.dst.rank ≠ p.stm.lastRank)
      (hdr : m.dst.rank - m.src.rank = p.stm.fwd)
      (hboard : (apply p m).board = upd (upd (upd p.board q none) m.src none) m.dst (some (pc', p.stm)))
  | castle (r t : Sq)
      (hsrc : p.board m.src = some (.king, p.stm))
      (hsrcr : m.src.rank = p.stm.homeRank) (hsrcf : m.src.file = 4)
      (hdst : p.board m.dst = none)
      (hr : p.board r = some (.rook, p.stm))
      (ht : p.board t = none)
      (hrr : r.rank = p.stm.homeRank) (htr : t.rank = p.stm.homeRank)
      (hrs : r ≠ m.src) (hrd : r ≠ m.dst) (hts : t ≠ m.src) (htd : t ≠ m.dst) (htr' : t ≠ r) (hne : m.src ≠ m.dst)
      (hboard : (apply p m).board =
        upd (upd (upd (upd p.board t (some (.rook, p.stm))) r none) m.src none) m.dst (some (.king, p.stm)))

theorem colorAt_ne_iff {p : Pos} {s : Sq} {c : Color} :
    p.colorAt s ≠ some c ↔ ∀ x, p.board s ≠ some (x, c) := by
  unfold Pos.colorAt
  cases h : p.board s with
  | none => simp
  | some v =>
    obtain ⟨x, d⟩ := v
    simp only [Option.map_some, ne_eq, Option.some.injEq, Prod.mk.injEq, not_and]
    constructor
    · intro h1 y _ h2; exact h1 h2
    · intro h1 h2; exact h1 x rfl h2

theorem src_ne_dst {p : Pos} {m : Move} {pc : Piece} (hb : p.board m.src = some (pc, p.stm))
    (hd : ∀ x, p.board m.dst ≠ some (x, p.stm)) : m.src ≠ m.dst := by
  intro h
  rw [h] at hb
  exact hd pc hb

theorem king_step_file {a b : Sq} (h : (allDirs.any fun u => onRay a u 1 b) = true) :
    (b.file - a.file).natAbs ≤ 1 := by
  simp only [allDirs, rookDirs, bishopDirs, List.cons_append, List.nil_append, List.any_cons, List.any_nil,
    onRay, step?, Bool.or_false, Bool.or_eq_true, Bool.and_eq_true, beq_iff_eq, sq?_eq_some, Dir.df, Dir.dr] at h
  omega

theorem shape_other {p : Pos} {m : Move} {pc : Piece} (hb : p.board m.src = some (pc, p.stm))
    (hd : p.colorAt m.dst ≠ some p.stm) (hpc1 : pc ≠ .pawn)
    (hnc : isCastle p m = false)
    (h : (m.promo.isNone && attacks p m.src m.dst) = true) : Shape p m := by
  simp only [Bool.and_eq_true] at h
  have hd' := colorAt_ne_iff.mp hd
  have hep : isEnPassant p m = false := by
    simp only [isEnPassant, hb]
    cases pc <;> simp at hpc1 ⊢
  have hmv : movedMan p m = some (pc, p.stm) := by
    simp only [movedMan, hb]
    cases pc <;> simp at hpc1 ⊢
  refine Shape.normal pc pc hb hd' (src_ne_dst hb hd') (Or.inl rfl) (fun _ => h.2) (fun h => absurd h hpc1) ?_
  rw [apply_board_normal hep hnc, hmv]

theorem pathClear_empty {p : Pos} {a b x : Sq} (h : pathClear p a b = true) (hx : strictlyBetween a x b = true) :
    p.board x = none := by
  simp only [pathClear, List.all_eq_true] at h
  have := h x (List.mem_finRange x)
  simp only [hx, Bool.not_true, Bool.false_or, Pos.empty, Option.isNone_iff_eq_none] at this
  exact this

theorem between_rank {a x b : Sq} (db dx : Int) (hr : a.rank = b.rank) (hx : x.rank = a.rank)
    (h1 : b.file - a.file = db) (h2 : x.file - a.file = dx) (h3 : 0 < dx * db) (h4 : dx * dx < db * db) :
    strictlyBetween a x b = true := by
  have e1 : b.rank - a.rank = 0 := by omega
  have e2 : x.rank - a.rank = 0 := by omega
  simp only [strictlyBetween, e1, e2, h1, h2, Int.mul_zero, Int.zero_mul, Int.add_zero, beq_self_eq_true, Bool.or_true,
    Bool.true_or, Bool.true_and, Bool.and_eq_true, decide_eq_true_eq]
  exact ⟨h3, h4⟩

theorem shape_king {p : Pos} {m : Move} (hb : p.board m.src = some (.king, p.stm))
    (hd : p.colorAt m.dst ≠ some p.stm)
    (h : (m.promo.isNone &&
      (attacks p m.src m.dst ||
        m.src.rank == p.stm.homeRank && m.src.file == 4 && m.dst.rank - m.src.rank == 0 &&
            (m.dst.file - m.src.file).natAbs == 2 &&
          ((if m.dst.file - m.src.file = 2 then p.castleK p.stm else p.castleQ p.stm) &&
            match sq? (if m.dst.file - m.src.file = 2 then 7 else 0) p.stm.homeRank,
              sq? (4 + (m.dst.file - m.src.file) / 2) p.stm.homeRank with
            | some r, some mid =>
              p.has r Piece.rook p.stm && pathClear p m.src r && !attackedBy p p.stm.other m.src &&
                  !attackedBy p p.stm.other mid &&
                !attackedBy p p.stm.other m.dst
            | _, _ => false))) =
    true) : Shape p m := by
  simp only [Bool.and_eq_true, Bool.or_eq_true] at h
  obtain ⟨hpr, h | h⟩ := h
  · have hk : (allDirs.any fun u => onRay m.src u 1 m.dst) = true := by
      simpa [attacks, hb] using h
    have hf := king_step_file hk
    refine shape_other hb hd (by decide) ?_ (by simp [hpr, h])
    simp only [isCastle, hb, Bool.true_and, beq_eq_false_iff_ne]
    omega
  · simp only [beq_iff_eq] at h
    obtain ⟨⟨⟨⟨hsr, hsf⟩, hdr⟩, hdf⟩, hright, hm⟩ := h
    split at hm
    · rename_i r mid hr hmid
      simp only [Bool.and_eq_true, Pos.has, beq_iff_eq] at hm
      obtain ⟨⟨⟨⟨hrk, hpath⟩, _⟩, _⟩, _⟩ := hm
      rw [sq?_eq_some] at hr hmid
      have hbd := Sq.rank_bounds m.src
      have hcases : (m.dst.file - m.src.file = 2 ∧ r.file = 7 ∧ mid.file = 5) ∨
          (m.dst.file - m.src.file = -2 ∧ r.file = 0 ∧ mid.file = 3) := by
        split at hr <;> omega
      have hrr := hr.2.2.2.2.2
      have hmr := hmid.2.2.2.2.2
      clear hr hmid
      have hrf : r.file = if m.dst.file > m.src.file then 7 else 0 := by
        split <;> omega
      have hmf : mid.file = if m.dst.file > m.src.file then 5 else 3 := by
        split <;> omega
      have hdst : p.board m.dst = none := by
        refine pathClear_empty hpath ?_
        rcases hcases with hc | hc
        · exact between_rank 3 2 (by omega) (by omega) (by omega) hc.1 (by decide) (by decide)
        · exact between_rank (-4) (-2) (by omega) (by omega) (by omega) hc.1 (by decide) (by decide)
      have hmid' : p.board mid = none := by
        refine pathClear_empty hpath ?_
        rcases hcases with hc | hc
        · exact between_rank 3 1 (by omega) (by omega) (by omega) (by omega) (by decide) (by decide)
        · exact between_rank (-4) (-1) (by omega) (by omega) (by omega) (by omega) (by decide) (by decide)
      have hic : isCastle p m = true := by simp [isCastle, hb, hdf]
      have hep : isEnPassant p m = false := by simp [isEnPassant, hb]
      have hmv : movedMan p m = some (.king, p.stm) := by simp [movedMan, hb]
      have hR : homeSq p.stm (if m.dst.file > m.src.file then 7 else 0) = some r := by
        unfold homeSq; rw [sq?_eq_some]; split <;> omega
      have hT : homeSq p.stm (if m.dst.file > m.src.file then 5 else 3) = some mid := by
        unfold homeSq; rw [sq?_eq_some]; split <;> omega
      have hB := apply_board_castle hep hic hR hT
      rw [hmv] at hB
      have hne : ∀ {a b : Sq}, a.file ≠ b.file → a ≠ b := fun h e => h (by rw [e])
      refine Shape.castle r mid hb hsr hsf hdst hrk hmid' hrr hmr (hne ?_) (hne ?_) (hne ?_) (hne ?_)
        (hne ?_) (hne ?_) hB
      all_goals omega
    · cases hm

theorem pawn_promo {p : Pos} {m : Move} (hb : p.board m.src = some (.pawn, p.stm))
    (h : (if m.dst.rank = p.stm.lastRank then
        match m.promo with
        | some q => promoPieces.contains q
        | none => false
      else m.promo.isNone) = true) :
    ∃ pc', movedMan p m = some (pc', p.stm) ∧ (pc' = .pawn ∨ pc' ≠ .pawn ∧ pc' ≠ .king) ∧
      (pc' = .pawn → m.dst.rank ≠ p.stm.lastRank) ∧ (m.dst.rank ≠ p.stm.lastRank → pc' = .pawn) := by
  cases hp : m.promo with
  | none =>
    refine ⟨.pawn, by simp [movedMan, hb, hp], Or.inl rfl, ?_, fun _ => rfl⟩
    intro _ hl
    simp [hl, hp] at h
  | some q =>
    have hl : m.dst.rank = p.stm.lastRank := by
      apply Classical.byContradiction; intro hl; simp [hl, hp] at h
    simp only [hl, if_true, hp] at h
    refine ⟨q, by simp [movedMan, hb, hp], Or.inr ?_, ?_, fun h' => absurd hl h'⟩
    · cases q <;> simp [promoPieces] at h ⊢
    · intro hq; subst hq; simp [promoPieces] at h

theorem shape_pawn {p : Pos} {m : Move} (hb : p.board m.src = some (.pawn, p.stm))
    (hd : p.colorAt m.dst ≠ some p.stm)
    (h : ((if m.dst.rank = p.stm.lastRank then
        match m.promo with
        | some q => promoPieces.contains q
        | none => false
      else m.promo.isNone) &&
      ((m.dst.file - m.src.file == 0 && m.dst.rank - m.src.rank == p.stm.fwd && p.empty m.dst ||
            m.dst.file - m.src.file == 0 && m.dst.rank - m.src.rank == 2 * p.stm.fwd && m.src.rank == p.stm.pawnRank &&
                p.empty m.dst &&
              match sq? m.src.file (m.src.rank + p.stm.fwd) with
              | some x => p.empty x
              | none => false) ||
          (m.dst.file - m.src.file).natAbs == 1 && m.dst.rank - m.src.rank == p.stm.fwd &&
            p.colorAt m.dst == some p.stm.other ||
        (m.dst.file - m.src.file).natAbs == 1 && m.dst.rank - m.src.rank == p.stm.fwd && p.empty m.dst &&
          match sq? m.dst.file m.src.rank with
          | some q => p.ep == some q && p.has q Piece.pawn p.stm.other
          | none => false)) =
    true) : Shape p m := by
  simp only [Bool.and_eq_true, Bool.or_eq_true, beq_iff_eq, Pos.empty, Option.isNone_iff_eq_none] at h
  obtain ⟨hpr, h⟩ := h
  obtain ⟨pc', hmv, hpc, hlast, hlast'⟩ := pawn_promo hb hpr
  have hd' := colorAt_ne_iff.mp hd
  have hne := src_ne_dst hb hd'
  have hnc : isCastle p m = false := by simp [isCastle, hb]
  have hpc2 : pc' = .pawn ∨ (Piece.pawn = Piece.pawn ∧ pc' ≠ .pawn ∧ pc' ≠ .king) := by
    rcases hpc with h | h
    · exact Or.inl h
    · exact Or.inr ⟨rfl, h⟩
  rcases h with ((h | h) | h) | h
  · -- single step
    obtain ⟨⟨hf, hr⟩, he⟩ := h
    have hep : isEnPassant p m = false := by
      have : m.src.file = m.dst.file := by omega
      simp [isEnPassant, this]
    refine Shape.normal .pawn pc' hb hd' hne hpc2 (fun h => absurd he h) (fun _ => ⟨hlast, Or.inl hr⟩) ?_
    rw [apply_board_normal hep hnc, hmv]
  · -- double step
    obtain ⟨⟨⟨⟨hf, hr⟩, hsr⟩, he⟩, hx⟩ := h
    have hep : isEnPassant p m = false := by
      have : m.src.file = m.dst.file := by omega
      simp [isEnPassant, this]
    have hpawn : pc' = .pawn := by
      apply hlast'
      have := Sq.rank_bounds m.src
      cases hc : p.stm <;> simp only [hc, Color.fwd, Color.pawnRank, Color.homeRank, Color.lastRank, Color.other] at * <;> omega
    have hx' : ∃ x, sq? m.src.file (m.src.rank + p.stm.fwd) = some x ∧ p.board x = none := by
      split at hx
      · rename_i x hx0; exact ⟨x, hx0, Option.isNone_iff_eq_none.mp hx⟩
      · cases hx
    refine Shape.normal .pawn pc' hb hd' hne hpc2 (fun h => absurd he h)
      (fun _ => ⟨hlast, Or.inr ⟨hr, hsr, by omega, he, hpawn, hx'⟩⟩) ?_
    rw [apply_board_normal hep hnc, hmv]
  · -- capture
    obtain ⟨⟨hf, hr⟩, hcol⟩ := h
    have hne' : p.board m.dst ≠ none := by
      intro h0; simp [Pos.colorAt, h0] at hcol
    have hep : isEnPassant p m = false := by
      have : (p.board m.dst).isNone = false := by
        cases h0 : p.board m.dst with
        | none => exact absurd h0 hne'
        | some _ => rfl
      simp [isEnPassant, Pos.empty, this]
    refine Shape.normal .pawn pc' hb hd' hne hpc2 (fun _ => ?_) (fun _ => ⟨hlast, Or.inl hr⟩) ?_
    · simp [attacks, hb, hr, hf]
    · rw [apply_board_normal hep hnc, hmv]
  · -- en passant
    obtain ⟨⟨⟨hf, hr⟩, he⟩, hx⟩ := h
    split at hx
    · rename_i q hq
      simp only [Bool.and_eq_true, beq_iff_eq, Pos.has] at hx
      have hep : isEnPassant p m = true := by
        have : m.src.file ≠ m.dst.file := by omega
        simp [isEnPassant, hb, this, Pos.empty, he]
      have hqs : q ≠ m.src := by
        intro e; rw [e, hb] at hx
        have := hx.2
        simp only [Option.some.injEq, Prod.mk.injEq, true_and] at this
        exact Color.other_ne _ this.symm
      have hqd : q ≠ m.dst := by
        intro e; rw [e, he] at hx; cases hx.2
      have hk : pc' ≠ .king := by
        rcases hpc with h | h
        · rw [h]; decide
        · exact h.2
      refine Shape.ep q pc' hb he hx.2 hqs hqd hne hk hlast hr ?_
      rw [apply_board_ep hep hnc hq, hmv]
    · cases hx

theorem pseudoLegal_shape {p : Pos} {m : Move} (h : pseudoLegal p m = true) : Shape p m := by
  unfold pseudoLegal at h
  split at h
  · cases h
  · rename_i pc c' hb
    simp only [Bool.and_eq_true, beq_iff_eq, bne_iff_ne] at h
    obtain ⟨⟨hc, hd⟩, h⟩ := h
    subst hc
    split at h
    · exact shape_pawn hb hd h
    · exact shape_king hb hd h
    · rename_i hp hk
      refine shape_other hb hd (fun e => hp e) ?_ h
      simp only [isCastle, hb]
      cases pc <;> simp at hk ⊢

end Closure
end Chess
