import ChessVerif.Model.San
/-!
Lemmas about the text layer model (`ChessVerif/Model/Text.lean`): byte-length / slicing facts for
`Str.len`, `Str.dropBytes`, `Str.takeBytes`, `Str.get`, and the square / coordinate-move
printer-parser pair.  Used by `Props/C13.lean`.
-/
namespace Chess

/-! ### characters -/

theorem utf8Size_of_le (c : Char) (h : c.toNat ≤ 127) : c.utf8Size = 1 := by
  unfold Char.utf8Size
  have : c.val ≤ 127 := by
    rw [UInt32.le_iff_toNat_le]; exact h
  simp
  intro h2
  exact absurd this (by simpa using h2)

theorem charFile?_fileChar : ∀ f : Fin 8, charFile? (fileChar f) = some f := by decide
theorem charRank?_rankChar : ∀ r : Fin 8, charRank? (rankChar r) = some r := by decide

theorem charFile?_eq_some {c : Char} {f : Fin 8} (h : charFile? c = some f) : c = fileChar f := by
  unfold charFile? at h
  split at h
  · rename_i hc
    injection h with h
    subst h
    have h1 : 'a'.toNat = 97 := rfl
    have h2 : 'h'.toNat = 104 := rfl
    unfold fileChar
    simp only
    have : 'a'.toNat + (c.toNat - 'a'.toNat) = c.toNat := by omega
    rw [this, Char.ofNat_toNat]
  · cases h

theorem charRank?_eq_some {c : Char} {r : Fin 8} (h : charRank? c = some r) : c = rankChar r := by
  unfold charRank? at h
  split at h
  · rename_i hc
    injection h with h
    subst h
    have h1 : '1'.toNat = 49 := rfl
    have h2 : '8'.toNat = 56 := rfl
    unfold rankChar
    simp only
    have : '1'.toNat + (c.toNat - '1'.toNat) = c.toNat := by omega
    rw [this, Char.ofNat_toNat]
  · cases h

theorem fileChar_size : ∀ f : Fin 8, (fileChar f).utf8Size = 1 := by decide
theorem rankChar_size : ∀ r : Fin 8, (rankChar r).utf8Size = 1 := by decide

theorem charFile?_size {c : Char} {f : Fin 8} (h : charFile? c = some f) : c.utf8Size = 1 := by
  rw [charFile?_eq_some h]; exact fileChar_size f
theorem charRank?_size {c : Char} {r : Fin 8} (h : charRank? c = some r) : c.utf8Size = 1 := by
  rw [charRank?_eq_some h]; exact rankChar_size r

theorem fileChar_inj : ∀ f g : Fin 8, fileChar f = fileChar g → f = g := by decide
theorem rankChar_inj : ∀ f g : Fin 8, rankChar f = rankChar g → f = g := by decide

/-! ### squares -/

theorem mkSq_getRank_getFile : ∀ s : Sq, mkSq s.getRank s.getFile = s := by decide
theorem getRank_mkSq : ∀ r f : Fin 8, (mkSq r f).getRank = r := by decide
theorem getFile_mkSq : ∀ r f : Fin 8, (mkSq r f).getFile = f := by decide

/-! ### `Str` -/

namespace Str

@[simp] theorem len_nil : len [] = 0 := rfl
@[simp] theorem len_cons (c : Char) (s : List Char) : len (c :: s) = c.utf8Size + len s := by
  simp [len]
theorem len_append (s t : List Char) : len (s ++ t) = len s + len t := by
  simp [len]

theorem len_eq_zero {s : List Char} (h : len s = 0) : s = [] := by
  cases s with
  | nil => rfl
  | cons c cs =>
    have := Char.utf8Size_pos c
    simp at h; omega

theorem length_le_len (s : List Char) : s.length ≤ len s := by
  induction s with
  | nil => simp
  | cons c cs ih =>
    have := Char.utf8Size_pos c
    simp; omega

theorem dropBytes_zero (s : List Char) : dropBytes s 0 = some s := by
  unfold dropBytes; rfl

theorem dropBytes_cons (c : Char) (cs : List Char) (n : Nat) :
    dropBytes (c :: cs) n =
      if n = 0 then some (c :: cs)
      else if c.utf8Size ≤ n then dropBytes cs (n - c.utf8Size) else none := by
  cases n with
  | zero => simp [dropBytes_zero]
  | succ n => rw [dropBytes]; simp

theorem takeBytes_zero (s : List Char) : takeBytes s 0 = some [] := by
  unfold takeBytes; rfl

theorem takeBytes_nil (n : Nat) : takeBytes [] n = if n = 0 then some [] else none := by
  cases n with
  | zero => simp [takeBytes_zero]
  | succ n => rw [takeBytes]; simp

theorem dropBytes_nil (n : Nat) : dropBytes [] n = if n = 0 then some [] else none := by
  cases n with
  | zero => simp [dropBytes_zero]
  | succ n => rw [dropBytes]; simp

theorem takeBytes_cons (c : Char) (cs : List Char) (n : Nat) :
    takeBytes (c :: cs) n =
      if n = 0 then some []
      else if c.utf8Size ≤ n then (takeBytes cs (n - c.utf8Size)).map (c :: ·) else none := by
  cases n with
  | zero => simp [takeBytes_zero]
  | succ n => rw [takeBytes]; simp

/-- a successful `takeBytes` returns a prefix of exactly `n` bytes -/
theorem takeBytes_spec : ∀ (s : List Char) (n : Nat) (t : List Char),
    takeBytes s n = some t → len t = n ∧ ∃ r, s = t ++ r
  | [], n, t, h => by
    rw [takeBytes_nil] at h
    split at h
    · injection h with h; subst h; simp [*]
    · cases h
  | c :: cs, n, t, h => by
    rw [takeBytes_cons] at h
    split at h
    · injection h with h; subst h; simp [*]
    · split at h
      · rename_i h0 hc
        cases h1 : takeBytes cs (n - c.utf8Size) with
        | none => rw [h1] at h; cases h
        | some t' =>
          rw [h1] at h
          injection h with h
          subst h
          obtain ⟨hl, r, hr⟩ := takeBytes_spec cs _ t' h1
          refine ⟨by simp; omega, r, by simp [hr]⟩
      · cases h

/-- a successful `dropBytes` removes a prefix of exactly `n` bytes -/
theorem dropBytes_spec : ∀ (s : List Char) (n : Nat) (r : List Char),
    dropBytes s n = some r → ∃ t, s = t ++ r ∧ len t = n
  | [], n, r, h => by
    rw [dropBytes_nil] at h
    split at h
    · injection h with h; subst h; exact ⟨[], by simp [*]⟩
    · cases h
  | c :: cs, n, r, h => by
    rw [dropBytes_cons] at h
    split at h
    · injection h with h; subst h; exact ⟨[], by simp [*]⟩
    · split at h
      · rename_i h0 hc
        obtain ⟨t, ht, hl⟩ := dropBytes_spec cs _ r h
        exact ⟨c :: t, by simp [ht], by simp; omega⟩
      · cases h

/-- dropping the byte length of a prefix (plus `a`) -/
theorem dropBytes_append (t r : List Char) (a : Nat) :
    dropBytes (t ++ r) (len t + a) = dropBytes r a := by
  induction t with
  | nil => simp
  | cons c cs ih =>
    have := Char.utf8Size_pos c
    rw [List.cons_append, dropBytes_cons]
    have h1 : ¬ (len (c :: cs) + a = 0) := by simp; omega
    have h2 : c.utf8Size ≤ len (c :: cs) + a := by simp; omega
    have h3 : len (c :: cs) + a - c.utf8Size = len cs + a := by simp; omega
    rw [if_neg h1, if_pos h2, h3, ih]

theorem get_append (t r : List Char) (a b : Nat) :
    get (t ++ r) (len t + a) (len t + b) = get r a b := by
  unfold get
  have : len t + b - (len t + a) = b - a := by omega
  rw [dropBytes_append, this]
  by_cases h : a ≤ b
  · rw [if_pos h, if_pos (by omega)]
  · rw [if_neg h, if_neg (by omega)]

theorem get_zero (s : List Char) (b : Nat) : get s 0 b = takeBytes s b := by
  simp [get, dropBytes_zero]

end Str

/-! ### `parseSquare` -/

theorem parseSquare_showSquare (s : Sq) : parseSquare (showSquare s) = .ok s := by
  unfold parseSquare showSquare
  have h : ¬ Str.len [fileChar s.getFile, rankChar s.getRank] < 2 := by
    simp [fileChar_size, rankChar_size]
  rw [if_neg h]
  simp only [charFile?_fileChar, charRank?_rankChar, mkSq_getRank_getFile]

theorem parseSquare_ne_panic (s : List Char) : parseSquare s ≠ .panic := by
  unfold parseSquare
  split
  · simp
  · rename_i hl
    split
    · simp at hl
    · rename_i c0 rest
      split
      · simp
      · rename_i f hf
        split
        · have := charFile?_size hf
          simp [this] at hl
        · split <;> simp

/-- shape of an accepted square text -/
theorem parseSquare_ok {s : List Char} {q : Sq} (h : parseSquare s = .ok q) :
    ∃ rest, s = showSquare q ++ rest := by
  unfold parseSquare at h
  split at h
  · cases h
  · split at h
    · cases h
    · rename_i c0 rest
      split at h
      · cases h
      · rename_i f hf
        split at h
        · cases h
        · rename_i c1 rest'
          split at h
          · cases h
          · rename_i r hr
            injection h with h
            subst h
            refine ⟨rest', ?_⟩
            simp [showSquare, getRank_mkSq, getFile_mkSq, charFile?_eq_some hf, charRank?_eq_some hr]

theorem len_showSquare (q : Sq) : Str.len (showSquare q) = 2 := by
  simp [showSquare, fileChar_size, rankChar_size]

/-- a two-byte slice accepted by `parseSquare` is exactly the square's text -/
theorem parseSquare_ok_of_len {a : List Char} {q : Sq} (h : parseSquare a = .ok q)
    (hl : Str.len a = 2) : a = showSquare q := by
  obtain ⟨rest, hr⟩ := parseSquare_ok h
  subst hr
  rw [Str.len_append, len_showSquare] at hl
  have : rest = [] := Str.len_eq_zero (by omega)
  simp [this]

theorem showSquare_inj {p q : Sq} (h : showSquare p = showSquare q) : p = q := by
  simp only [showSquare, List.cons.injEq, and_true] at h
  have h1 := fileChar_inj _ _ h.1
  have h2 := rankChar_inj _ _ h.2
  rw [← mkSq_getRank_getFile p, ← mkSq_getRank_getFile q, h1, h2]

/-! ### `parseMove` -/

theorem Str.takeBytes_append (t r : List Char) : Str.takeBytes (t ++ r) (Str.len t) = some t := by
  induction t with
  | nil => simp [Str.takeBytes_zero]
  | cons c cs ih =>
    have := Char.utf8Size_pos c
    rw [List.cons_append, Str.takeBytes_cons]
    have h1 : ¬ (Str.len (c :: cs) = 0) := by simp; omega
    have h2 : c.utf8Size ≤ Str.len (c :: cs) := by simp
    have h3 : Str.len (c :: cs) - c.utf8Size = Str.len cs := by simp
    rw [if_neg h1, if_pos h2, h3, ih]; rfl

theorem get_src (q : Sq) (r : List Char) : Str.get (showSquare q ++ r) 0 2 = some (showSquare q) := by
  rw [Str.get_zero, ← len_showSquare q, Str.takeBytes_append]

theorem get_dst (p q : Sq) (r : List Char) :
    Str.get (showSquare p ++ (showSquare q ++ r)) 2 4 = some (showSquare q) := by
  have := Str.get_append (showSquare p) (showSquare q ++ r) 0 2
  rw [len_showSquare] at this
  rw [this, get_src]

theorem parseMove_showMove (m : Move)
    (h : m.promo ∈ [none, some .queen, some .rook, some .bishop, some .knight]) :
    parseMove (showMove m) = .ok m := by
  obtain ⟨src, dst, promo⟩ := m
  unfold parseMove showMove
  simp only [List.append_assoc, get_src, get_dst, parseSquare_showSquare]
  simp only [List.mem_cons, List.not_mem_nil, or_false] at h
  have hq : 'q'.utf8Size = 1 := by decide
  have hr : 'r'.utf8Size = 1 := by decide
  have hb : 'b'.utf8Size = 1 := by decide
  have hn : 'n'.utf8Size = 1 := by decide
  rcases h with h | h | h | h | h <;> subst h <;>
    simp [pieceChar, showSquare, fileChar_size, rankChar_size, hq, hr, hb, hn]

theorem parseMove_ne_panic (s : List Char) : parseMove s ≠ .panic := by
  unfold parseMove
  split
  · simp
  · split
    · simp
    · rename_i h; exact absurd h (parseSquare_ne_panic _)
    · split
      · simp
      · split
        · simp
        · rename_i h; exact absurd h (parseSquare_ne_panic _)
        · split
          · split <;> simp
          · simp

theorem Str.len_eq_one {s : List Char} (h : Str.len s = 1) : ∃ c, s = [c] := by
  cases s with
  | nil => simp at h
  | cons c cs =>
    have := Char.utf8Size_pos c
    simp at h
    exact ⟨c, by rw [Str.len_eq_zero (s := cs) (by omega)]⟩

/-- decomposition of the two slices taken by `parseMove` -/
theorem parseMove_slices {s a b : List Char} {src dst : Sq}
    (ha : Str.get s 0 2 = some a) (hsrc : parseSquare a = .ok src)
    (hb : Str.get s 2 4 = some b) (hdst : parseSquare b = .ok dst) :
    ∃ r, s = showSquare src ++ (showSquare dst ++ r) := by
  rw [Str.get_zero] at ha
  obtain ⟨hla, r1, hr1⟩ := Str.takeBytes_spec _ _ _ ha
  have ea := parseSquare_ok_of_len hsrc hla
  subst ea
  subst hr1
  have := Str.get_append (showSquare src) r1 0 2
  rw [len_showSquare] at this
  rw [this, Str.get_zero] at hb
  obtain ⟨hlb, r2, hr2⟩ := Str.takeBytes_spec _ _ _ hb
  have eb := parseSquare_ok_of_len hdst hlb
  subst eb
  exact ⟨r2, by rw [hr2]⟩

theorem parseMove_ok {s : List Char} {m : Move} (h : parseMove s = .ok m) :
    ∃ r, s = showMove m ++ r := by
  unfold parseMove at h
  split at h
  · cases h
  · rename_i a ha
    split at h
    · cases h
    · cases h
    · rename_i src hsrc
      split at h
      · cases h
      · rename_i b hb
        split at h
        · cases h
        · cases h
        · rename_i dst hdst
          obtain ⟨r, hr⟩ := parseMove_slices ha hsrc hb hdst
          split at h
          · rename_i h5
            have hl : Str.len r = 1 := by
              rw [hr, Str.len_append, Str.len_append, len_showSquare, len_showSquare] at h5
              omega
            obtain ⟨c, hc⟩ := Str.len_eq_one hl
            subst hc
            have hlast : s.getLast? = some c := by
              rw [hr]; simp [showSquare]
            rw [hlast] at h
            split at h
            · cases h
            all_goals first
              | (rename_i hq; injection hq with hq; subst hq
                 injection h with h; subst h
                 exact ⟨[], by simp [showMove, pieceChar, hr]⟩)
              | cases h
          · injection h with h; subst h
            exact ⟨r, by simp [showMove, hr]⟩

end Chess
