import ChessVerif.Lemmas.Fen
import ChessVerif.Lemmas.TryFrom
/-!
Board-level FEN round trip: for a board accepted by `Board::try_from`, converting it back to a
builder and validating again yields the same board, hence `Board::from_str(board.to_string())`
returns the board.  Uses `Lemmas/Fen.lean` (text round trip of the builder) and
`Lemmas/TryFrom.lean` (what `try_from` builds).
-/
namespace Chess

theorem buildFold_congr (T : Tables) (bd bd' : Builder) (hp : bd'.pieces = bd.pieces)
    (l : List Sq) (acc : Board) : buildFold T bd' l acc = buildFold T bd l acc := by
  unfold buildFold; rw [hp]

theorem tryFromFinish_congr (T : Tables) (bd bd' : Builder) (b0 : Board) (hs : bd'.stm = bd.stm)
    (hw : bd'.wcr = bd.wcr) (hb : bd'.bcr = bd.bcr) (he : bd'.getEnPassant = bd.getEnPassant) :
    tryFromFinish T bd' b0 = tryFromFinish T bd b0 := by
  unfold tryFromFinish; rw [hs, hw, hb, he]

/-- an en-passant file that `set_ep` does not record (no enemy pawn beside) has the same effect as
no en-passant file -/
theorem tryFromFinish_ep_fail (T : Tables) (bd bd' : Builder) (b0 : Board) (e : Sq)
    (hs : bd'.stm = bd.stm) (hw : bd'.wcr = bd.wcr) (hb : bd'.bcr = bd.bcr)
    (he' : bd'.getEnPassant = none) (he : bd.getEnPassant = some e)
    (hc : ¬ (T.adjFiles e.getFile &&& T.ranks e.getRank &&& b0.pawns &&& b0.colorCombined bd.stm ≠ 0#64)) :
    tryFromFinish T bd' b0 = tryFromFinish T bd b0 := by
  unfold tryFromFinish
  rw [hs, hw, hb, he', he]
  simp only
  have : Board.setEp T { b0 with stm := bd.stm.other } e = { b0 with stm := bd.stm.other } := by
    have hcc : ∀ c, Board.colorCombined { b0 with stm := bd.stm.other } c = b0.colorCombined c := by
      intro c; cases c <;> rfl
    unfold Board.setEp
    rw [if_neg]
    simp only [Color.other_other, hcc]
    exact hc
  rw [this]
  simp only [Color.other_other]

/-- re-validating the builder view of an accepted board gives the same board -/
theorem tryFrom_toBuilder (T : Tables) (bd : Builder) (b : Board) (h : Board.tryFrom T bd = some b) :
    Board.tryFrom T b.toBuilder = some b := by
  obtain ⟨_, hcont, hstm, hwcr, hbcr, hep, _, hsane⟩ := tryFrom_spec T bd b h
  have hb : tryFromPre T bd = b := by
    rw [tryFrom_eq] at h
    split at h
    · injection h
    · cases h
  have hpieces : b.toBuilder.pieces = bd.pieces := hcont
  have hpre : tryFromPre T b.toBuilder = tryFromPre T bd := by
    unfold tryFromPre
    rw [buildFold_congr T bd b.toBuilder hpieces]
    cases hf : bd.epFile with
    | none =>
      have h1 : bd.getEnPassant = none := by unfold Builder.getEnPassant; rw [hf]; rfl
      rw [h1] at hep
      have h2 : b.toBuilder.getEnPassant = none := by
        unfold Builder.getEnPassant Board.toBuilder; simp only [hep]; rfl
      exact tryFromFinish_congr T bd b.toBuilder _ hstm hwcr hbcr (by rw [h1, h2])
    | some f =>
      have h1 : bd.getEnPassant = some (mkSq bd.stm.other.fourthRank f) := by
        unfold Builder.getEnPassant; rw [hf]; rfl
      rw [h1] at hep
      simp only at hep
      by_cases hc : T.adjFiles (mkSq bd.stm.other.fourthRank f).getFile &&&
          T.ranks (mkSq bd.stm.other.fourthRank f).getRank &&& b.pawns &&& b.colorCombined b.stm ≠ 0#64
      · rw [if_pos hc] at hep
        have h2 : b.toBuilder.getEnPassant = some (mkSq bd.stm.other.fourthRank f) := by
          unfold Builder.getEnPassant Board.toBuilder
          simp only [hep, Option.map_some, getFile_mkSq, hstm]
        exact tryFromFinish_congr T bd b.toBuilder _ hstm hwcr hbcr (by rw [h1, h2])
      · rw [if_neg hc] at hep
        have h2 : b.toBuilder.getEnPassant = none := by
          unfold Builder.getEnPassant Board.toBuilder; simp only [hep]; rfl
        refine tryFromFinish_ep_fail T bd b.toBuilder _ _ hstm hwcr hbcr h2 h1 ?_
        obtain ⟨hs, _⟩ := tryFromFinish_spec T bd (buildFold T bd allSq Board.blank)
          (buildFold_fields T bd allSq Board.blank).2.1 (buildFold_fields T bd allSq Board.blank).2.2.1
          (buildFold_fields T bd allSq Board.blank).2.2.2
        have hs' : SamePl b (buildFold T bd allSq Board.blank) := by rw [← hb]; exact hs
        have hp := ((samePl_iff _ _).mp hs').1
        have hcc : b.colorCombined bd.stm = (buildFold T bd allSq Board.blank).colorCombined bd.stm := by
          cases bd.stm
          · exact ((samePl_iff _ _).mp hs').2.2.2.2.2.2.1
          · exact ((samePl_iff _ _).mp hs').2.2.2.2.2.2.2.1
        rw [hstm] at hc
        rw [← hp, ← hcc]
        exact hc
  rw [tryFrom_eq, hpre, hb, if_pos hsane]

theorem Builder.ext_pointwise {a b : Builder} (hp : ∀ s, a.pieces s = b.pieces s) (hs : a.stm = b.stm)
    (hw : a.wcr = b.wcr) (hb : a.bcr = b.bcr) (he : a.epFile = b.epFile) : a = b := by
  obtain ⟨ap, _, _, _, _⟩ := a
  obtain ⟨bp, _, _, _, _⟩ := b
  have : ap = bp := funext hp
  simp only at hs hw hb he
  subst this hs hw hb he
  rfl

/-- `Board::from_str(board.to_string()) = Ok(board)` for every board accepted by `try_from` -/
theorem parseBoard_showBoard (T : Tables) (bd : Builder) (b : Board)
    (h : Board.tryFrom T bd = some b) : parseBoard T (showBoard b) = .ok b := by
  obtain ⟨bd', h1, h2, h3, h4, h5, h6⟩ := parseBuilder_showBuilder b.toBuilder
  have : bd' = b.toBuilder := Builder.ext_pointwise h2 h3 h4 h5 h6
  subst this
  unfold parseBoard showBoard
  rw [h1]
  simp only [tryFrom_toBuilder T bd b h]

/-- on an accepted board the recorded en-passant square is the pawn's square of its builder view -/
theorem toBuilder_getEnPassant (T : Tables) (bd : Builder) (b : Board)
    (h : Board.tryFrom T bd = some b) : b.toBuilder.getEnPassant = b.ep := by
  obtain ⟨_, _, hstm, _, _, hep, _, _⟩ := tryFrom_spec T bd b h
  have hg : b.toBuilder.getEnPassant = b.ep.map fun e => mkSq b.stm.other.fourthRank e.getFile := by
    unfold Builder.getEnPassant Board.toBuilder
    cases b.ep <;> rfl
  rw [hg]
  cases hf : bd.epFile with
  | none =>
    have h1 : bd.getEnPassant = none := by unfold Builder.getEnPassant; rw [hf]; rfl
    rw [h1] at hep
    rw [hep]; rfl
  | some f =>
    have h1 : bd.getEnPassant = some (mkSq bd.stm.other.fourthRank f) := by
      unfold Builder.getEnPassant; rw [hf]; rfl
    rw [h1] at hep
    simp only at hep
    split at hep
    · rw [hep]; simp only [Option.map_some, getFile_mkSq, hstm]
    · rw [hep]; rfl

end Chess
