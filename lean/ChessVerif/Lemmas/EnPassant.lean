import ChessVerif.Lemmas.KingMoves
import ChessVerif.Lemmas.PseudoBits
import ChessVerif.Lemmas.Entries
import ChessVerif.Lemmas.CheckPin
/-!
# The en-passant part of C01

`PawnType::legal_ep_move` (model: `MoveGen.legalEpMove`) and the en-passant section of
`PawnType::legals` against the specification (`pseudoLegal`'s en-passant disjunct, `apply` with its
`epVictim`, `legal`), on positions whose en-passant mark satisfies `epValid`.

* `epFacts_of_epValid` — `epValid` as propositions (`EpFacts`);
* `ep_source_iff` — the sources `rank(ep) & adjacent_files(ep) & my pawns` with destination
  `ep.uforward(stm)` and no promotion are exactly the pseudo-legal en-passant captures;
* `leapers_do_not_check` — an enemy knight, pawn or king attacking the mover's king can only be the
  pawn that has just made the double step;
* `legalEpMove_iff` — `legal_ep_move` answers `true` iff the capture is legal;
* `ep_entry_iff`, `noEpClash` — the packages for the assembly of C01.
-/
namespace Chess
namespace EnPassant

open PinCheck (KingAt leaperAtt)

set_option maxRecDepth 100000

/-! ### `epValid` as propositions -/

/-- the predecessor position of `epValid`: the pushed pawn back on its start square `org` -/
def predPos (p : Pos) (q org : Sq) : Pos :=
  { p with board := fun s => if s == org then some (.pawn, p.stm.other) else if s == q then none else p.board s }

/-- the content of `epValid p` when the mark is `q`: `mid` is the square passed over, `org` the start
square of the pushed pawn -/
structure EpFacts (p : Pos) (q mid org : Sq) : Prop where
  pawn : p.board q = some (.pawn, p.stm.other)
  rank : q.rank = p.stm.other.pawnRank + 2 * p.stm.other.fwd
  midF : mid.file = q.file
  midR : mid.rank = q.rank - p.stm.other.fwd
  orgF : org.file = q.file
  orgR : org.rank = p.stm.other.pawnRank
  midE : p.board mid = none
  orgE : p.board org = none
  pred : inCheck (predPos p q org) p.stm = false

theorem epFacts_of_epValid {p : Pos} {q : Sq} (h : epValid p = true) (hq : p.ep = some q) :
    ∃ mid org, EpFacts p q mid org := by
  unfold epValid at h
  rw [hq] at h
  simp only [Bool.and_eq_true, beq_iff_eq, Pos.has] at h
  obtain ⟨⟨h1, h2⟩, h3⟩ := h
  cases hm : sq? q.file (q.rank - p.stm.other.fwd) with
  | none => rw [hm] at h3; cases h3
  | some mid =>
    cases ho : sq? q.file p.stm.other.pawnRank with
    | none => rw [hm, ho] at h3; cases h3
    | some org =>
      rw [hm, ho] at h3
      simp only [Bool.and_eq_true, Bool.not_eq_true', Pos.empty, Option.isNone_iff_eq_none] at h3
      obtain ⟨⟨h4, h5⟩, h6⟩ := h3
      have hm' := (sq?_eq_some_iff _ _ _).mp hm
      have ho' := (sq?_eq_some_iff _ _ _).mp ho
      have h6' : inCheck (predPos p q org) p.stm = false := by
        rw [← h6]
        refine Closure.inCheck_congr ?_ _
        funext s
        simp only [predPos, beq_iff_eq]
      exact ⟨mid, org, h1, h2, hm'.1, hm'.2, ho'.1, ho'.2, h4, h5, h6'⟩

/-- the arithmetic of the marked rank -/
theorem ep_geom (c : Color) (q : Sq) (hr : q.rank = c.other.pawnRank + 2 * c.other.fwd) :
    q.rank ≠ c.lastRank ∧ q.rank + c.fwd ≠ c.lastRank ∧ c.other.fwd = -c.fwd ∧
      0 ≤ q.rank + c.fwd ∧ q.rank + c.fwd < 8 := by
  cases c <;>
    simp only [Color.other, Color.fwd, Color.pawnRank, Color.homeRank, Color.lastRank] at hr ⊢ <;>
    refine ⟨?_, ?_, ?_, ?_, ?_⟩ <;> first | omega | trivial

/-- the destination `ep.uforward(stm)` is the square passed over -/
theorem epDest_coord {p : Pos} {q mid org : Sq} (hf : EpFacts p q mid org) :
    (q.uforward p.stm).file = q.file ∧ (q.uforward p.stm).rank = q.rank + p.stm.fwd ∧
      q.uforward p.stm = mid := by
  obtain ⟨g1, g2, g3, _, _⟩ := ep_geom p.stm q hf.rank
  have e1 := Sq.uforward_file q p.stm
  have e2 := Sq.uforward_rank q p.stm g1
  refine ⟨e1, e2, Sq.ext_coord ?_ ?_⟩
  · rw [e1, hf.midF]
  · rw [e2, hf.midR, g3]; omega

/-! ### 2. leapers do not give check (except the pushed pawn) -/

theorem predPos_board (p : Pos) (q org s : Sq) :
    (predPos p q org).board s =
      if s = org then some (.pawn, p.stm.other) else if s = q then none else p.board s := by
  unfold predPos
  simp only [beq_iff_eq]

/-- under `epValid`, an enemy knight, pawn or king attacking the square of the mover's (unique) king
is the pawn that has just made the double step -/
theorem leapers_do_not_check {p : Pos} {q mid org k : Sq} (hf : EpFacts p q mid org)
    (hK : KingAt p p.stm k) {x : Sq} (hx : p.colorAt x = some p.stm.other)
    (hl : leaperAtt (p.board x) x k = true) : x = q := by
  apply Classical.byContradiction
  intro hne
  obtain ⟨pc, hbx⟩ := (PinCheck.colorAt_iff p x _).mp hx
  have hxo : x ≠ org := by
    intro e; rw [e, hf.orgE] at hbx; cases hbx
  have hpx : (predPos p q org).board x = p.board x := by
    rw [predPos_board, if_neg hxo, if_neg hne]
  have hKp : KingAt (predPos p q org) p.stm k := by
    intro s
    rw [predPos_board]
    by_cases h1 : s = org
    · rw [if_pos h1]
      constructor
      · intro e
        have := (Prod.mk.inj (Option.some.inj e)).1
        cases this
      · intro e
        have := (hK k).mpr rfl
        rw [← e, h1, hf.orgE] at this; cases this
    · rw [if_neg h1]
      by_cases h2 : s = q
      · rw [if_pos h2]
        constructor
        · intro e; cases e
        · intro e
          have := (hK k).mpr rfl
          rw [← e, h2, hf.pawn] at this
          have := (Prod.mk.inj (Option.some.inj this)).1
          cases this
      · rw [if_neg h2]; exact hK s
  have hic := hf.pred
  unfold inCheck at hic
  have hstm : (predPos p q org).stm = p.stm := rfl
  rw [PinCheck.kingSq?_of_KingAt hKp] at hic
  simp only at hic
  unfold attackedBy at hic
  have hall := List.any_eq_false.mp hic x (PinCheck.allSq_mem x)
  have hcol : (predPos p q org).colorAt x = some p.stm.other := by
    unfold Pos.colorAt; rw [hpx]; exact hx
  rw [hcol, PinCheck.attacks_eq, hpx, hl] at hall
  simp at hall

/-! ### pseudo-legal en-passant captures -/

/-- what the specification says about a pseudo-legal en-passant capture -/
theorem ep_move_facts {p : Pos} {m : Move} (hpl : pseudoLegal p m = true) (hep : isEnPassant p m = true) :
    p.board m.src = some (.pawn, p.stm) ∧ p.board m.dst = none ∧
      (m.dst.file - m.src.file).natAbs = 1 ∧ m.dst.rank - m.src.rank = p.stm.fwd ∧
      (m.dst.rank ≠ p.stm.lastRank → m.promo = none) ∧
      ∃ q, sq? m.dst.file m.src.rank = some q ∧ p.ep = some q ∧ p.board q = some (.pawn, p.stm.other) := by
  obtain ⟨pc, hs, _⟩ := Chess.pseudoLegal_src hpl
  have hpc : pc = .pawn := by
    unfold isEnPassant at hep
    rw [hs] at hep
    cases pc <;> simp at hep ⊢
  subst hpc
  obtain ⟨hf, hd⟩ := (isEnPassant_pawn hs).mp hep
  obtain ⟨hpr, hk⟩ := Chess.pseudoLegal_pawn hpl hs
  rcases hk with ⟨a, _, _⟩ | ⟨a, _⟩ | ⟨_, _, x, hx⟩ | ⟨a, b, c, d⟩
  · exact absurd (by omega) hf
  · exact absurd (by omega) hf
  · rw [hd] at hx; cases hx
  · exact ⟨hs, hd, a, b, hpr, d⟩

/-- bit `src` of `rank(ep) & adjacent_files(ep) & my pawns` -/
theorem epSources_bit {T : Tables} (hT : TablesOK T) {b : Board} (hs : Struct b) (q src : Sq) :
    (Entries.epSources T b q).getLsbD src.val = true ↔
      (src.rank = q.rank ∧ (src.file - q.file).natAbs = 1 ∧ b.content src = some (.pawn, b.stm)) := by
  unfold Entries.epSources Entries.own
  rw [BitVec.getLsbD_and, BitVec.getLsbD_and, BitVec.getLsbD_and, hT.ranks, hT.adjFiles, mem_ranks,
    mem_adjFiles, hs.content_some_iff]
  simp only [Bool.and_eq_true, beq_iff_eq, Board.pbit, Board.cbit]
  have e1 : (q.getRank.val : Int) = q.rank := rfl
  have e2 : (q.getFile.val : Int) = q.file := rfl
  have e3 : src.rank = (src.rankN : Int) := rfl
  rw [e2]
  constructor
  · rintro ⟨⟨h1, h2⟩, h3, h4⟩
    exact ⟨by omega, h2, h3, h4⟩
  · rintro ⟨h1, h2, h3, h4⟩
    exact ⟨⟨by omega, h2⟩, h3, h4⟩

/-- **1.** the en-passant sources with the destination `ep.uforward(stm)` and no promotion are exactly
the pseudo-legal en-passant captures of the specification.  Uses of `epValid`: the marked square holds
an enemy pawn, the square passed over is empty, and the rank clause (the destination is not on the last
rank, so `uforward` does not wrap and there is no promotion). -/
theorem ep_source_iff {T : Tables} (hT : TablesOK T) {b : Board} (hs : Struct b)
    (hv : epValid b.abs = true) {q : Sq} (hq : b.ep = some q) (m : Move) :
    ((Entries.epSources T b q).getLsbD m.src.val = true ∧ m.dst = Entries.epDest b q ∧ m.promo = none) ↔
      (pseudoLegal b.abs m = true ∧ isEnPassant b.abs m = true) := by
  obtain ⟨mid, org, hf⟩ := epFacts_of_epValid hv (show b.abs.ep = some q from hq)
  obtain ⟨d1, d2, d3⟩ := epDest_coord hf
  obtain ⟨g1, g2, g3, _, _⟩ := ep_geom b.abs.stm q hf.rank
  rw [epSources_bit hT hs]
  constructor
  · rintro ⟨⟨s1, s2, s3⟩, hd, hp⟩
    have hsrc : b.abs.board m.src = some (.pawn, b.abs.stm) := by rw [abs_board]; exact s3
    obtain ⟨src, dst, pr⟩ := m
    simp only at s1 s2 s3 hd hp hsrc
    subst hp
    rw [PseudoBits.pseudoLegal_pawn_ep hsrc]
    have hdc : dst.file = q.file ∧ dst.rank = q.rank + b.abs.stm.fwd := by
      rw [hd]; exact ⟨d1, d2⟩
    have hsq : sq? dst.file src.rank = some q := (sq?_eq_some_iff _ _ _).mpr ⟨hdc.1.symm, s1.symm⟩
    have hde : b.abs.board dst = none := by
      rw [hd]; show b.abs.board (q.uforward b.abs.stm) = none
      rw [d3]; exact hf.midE
    constructor
    · unfold PseudoBits.epClause
      simp only [hsq, Bool.and_eq_true, beq_iff_eq, Pos.empty, Pos.has, hde, hf.pawn, Option.isNone_none,
        and_true]
      exact ⟨⟨by omega, by omega⟩, hq⟩
    · rw [PseudoBits.promoShape_iff, if_neg (by omega)]
  · rintro ⟨hpl, hep⟩
    obtain ⟨f1, f2, f3, f4, f5, q', f6, f7, f8⟩ := ep_move_facts hpl hep
    have hqq : q' = q := by
      have : b.abs.ep = some q := hq
      rw [this] at f7; exact (Option.some.inj f7).symm
    subst hqq
    obtain ⟨c1, c2⟩ := (sq?_eq_some_iff _ _ _).mp f6
    refine ⟨⟨by omega, by omega, by rw [← abs_board]; exact f1⟩, ?_, f5 (by omega)⟩
    apply Sq.ext_coord
    · show m.dst.file = (q'.uforward b.abs.stm).file
      rw [d1]; omega
    · show m.dst.rank = (q'.uforward b.abs.stm).rank
      rw [d2]; omega

/-! ### the position after an en-passant capture -/

/-- the context of the legality argument: `m` is an en-passant capture (without promotion) of the pawn on
`q`, and `k` is the square of the mover's only king -/
structure EpCtx (p : Pos) (m : Move) (k q : Sq) : Prop where
  king : KingAt p p.stm k
  src : p.board m.src = some (.pawn, p.stm)
  dst : p.board m.dst = none
  vic : p.board q = some (.pawn, p.stm.other)
  hq : sq? m.dst.file m.src.rank = some q
  promo : m.promo = none
  isEp : isEnPassant p m = true

namespace EpCtx
variable {p : Pos} {m : Move} {k q : Sq}

theorem src_ne_dst (h : EpCtx p m k q) : m.src ≠ m.dst := by
  intro e; have := h.src; rw [e, h.dst] at this; cases this
theorem q_ne_dst (h : EpCtx p m k q) : q ≠ m.dst := by
  intro e; have := h.vic; rw [e, h.dst] at this; cases this
theorem q_ne_src (h : EpCtx p m k q) : q ≠ m.src := by
  intro e; have := h.vic; rw [e, h.src] at this
  exact Color.other_ne p.stm (Prod.mk.inj (Option.some.inj this)).2.symm
theorem board_king (h : EpCtx p m k q) : p.board k = some (.king, p.stm) := (h.king k).mpr rfl
theorem k_ne_dst (h : EpCtx p m k q) : k ≠ m.dst := by
  intro e; have := h.board_king; rw [e, h.dst] at this; cases this
theorem k_ne_src (h : EpCtx p m k q) : k ≠ m.src := by
  intro e; have := h.board_king; rw [e, h.src] at this
  have := (Prod.mk.inj (Option.some.inj this)).1; cases this
theorem k_ne_q (h : EpCtx p m k q) : k ≠ q := by
  intro e; have := h.board_king; rw [e, h.vic] at this
  have := (Prod.mk.inj (Option.some.inj this)).1; cases this

/-- the board after the capture: the pawn arrives on the destination, source and victim square are
emptied -/
theorem after_board (h : EpCtx p m k q) (t : Sq) :
    (apply p m).board t =
      if t = m.dst then some (.pawn, p.stm) else if t = m.src then none else if t = q then none
      else p.board t := by
  have hc : isCastle p m = false := isCastle_not_king h.src (by decide)
  rw [Chess.apply_board_ep hc h.isEp h.hq]
  have : applyMoved p m = some (.pawn, p.stm) := by
    unfold applyMoved; rw [h.src, h.promo]
  rw [this]

theorem after_other (h : EpCtx p m k q) {t : Sq} (h1 : t ≠ m.dst) (h2 : t ≠ m.src) (h3 : t ≠ q) :
    (apply p m).board t = p.board t := by
  rw [h.after_board, if_neg h1, if_neg h2, if_neg h3]

/-- the king has not moved and is still the only king of its colour -/
theorem after_king (h : EpCtx p m k q) : KingAt (apply p m) p.stm k := by
  intro t
  rw [h.after_board]
  by_cases h1 : t = m.dst
  · rw [if_pos h1]
    constructor
    · intro e; have := (Prod.mk.inj (Option.some.inj e)).1; cases this
    · intro e; exact absurd (e ▸ h1) h.k_ne_dst
  · rw [if_neg h1]
    by_cases h2 : t = m.src
    · rw [if_pos h2]
      constructor
      · intro e; cases e
      · intro e; exact absurd (e ▸ h2) h.k_ne_src
    · rw [if_neg h2]
      by_cases h3 : t = q
      · rw [if_pos h3]
        constructor
        · intro e; cases e
        · intro e; exact absurd (e ▸ h3) h.k_ne_q
      · rw [if_neg h3]; exact h.king t

/-- the enemy men after the capture: those of before, except the captured pawn -/
theorem after_enemy (h : EpCtx p m k q) (x : Sq) (pc : Piece) :
    (apply p m).board x = some (pc, p.stm.other) ↔ x ≠ q ∧ p.board x = some (pc, p.stm.other) := by
  rw [h.after_board]
  by_cases h1 : x = m.dst
  · rw [if_pos h1, h1, h.dst]
    constructor
    · intro e; exact absurd (Prod.mk.inj (Option.some.inj e)).2.symm (Color.other_ne p.stm)
    · rintro ⟨_, e⟩; cases e
  · rw [if_neg h1]
    by_cases h2 : x = m.src
    · rw [if_pos h2, h2, h.src]
      constructor
      · intro e; cases e
      · rintro ⟨_, e⟩; exact absurd (Prod.mk.inj (Option.some.inj e)).2.symm (Color.other_ne p.stm)
    · rw [if_neg h2]
      by_cases h3 : x = q
      · rw [if_pos h3]
        constructor
        · intro e; cases e
        · rintro ⟨e, _⟩; exact absurd h3 e
      · rw [if_neg h3]
        exact ⟨fun e => ⟨h3, e⟩, fun e => e.2⟩

/-- **the mover is in check after the capture iff an enemy slider reaches the king in the new
occupancy**: by `hleap` no enemy knight, pawn or king other than the captured pawn attacks the king -/
theorem after_inCheck (h : EpCtx p m k q)
    (hleap : ∀ x, p.colorAt x = some p.stm.other → leaperAtt (p.board x) x k = true → x = q) :
    inCheck (apply p m) p.stm = true ↔
      ((∃ x pc, (pc = .rook ∨ pc = .queen) ∧ p.board x = some (pc, p.stm.other) ∧
          slides rookDirs (apply p m) x k = true) ∨
       (∃ x pc, (pc = .bishop ∨ pc = .queen) ∧ p.board x = some (pc, p.stm.other) ∧
          slides bishopDirs (apply p m) x k = true)) := by
  unfold inCheck
  rw [PinCheck.kingSq?_of_KingAt h.after_king]
  simp only
  unfold attackedBy
  rw [PinCheck.allSq_any]
  simp only [Bool.and_eq_true, beq_iff_eq]
  constructor
  · rintro ⟨x, hx, ha⟩
    obtain ⟨pc, hb⟩ := (PinCheck.colorAt_iff _ x _).mp hx
    obtain ⟨hxq, hb0⟩ := (h.after_enemy x pc).mp hb
    have hleap' : leaperAtt (some (pc, p.stm.other)) x k = true → False := by
      intro hl
      refine hxq (hleap x ((PinCheck.colorAt_iff p x _).mpr ⟨pc, hb0⟩) ?_)
      rw [hb0]; exact hl
    unfold attacks at ha
    rw [hb] at ha
    cases pc with
    | pawn => exact (hleap' ha).elim
    | knight => exact (hleap' ha).elim
    | king => exact (hleap' ha).elim
    | bishop => exact Or.inr ⟨x, .bishop, Or.inl rfl, hb0, ha⟩
    | rook => exact Or.inl ⟨x, .rook, Or.inl rfl, hb0, ha⟩
    | queen =>
      simp only at ha
      rw [KingMoves.slides_allDirs, Bool.or_eq_true] at ha
      rcases ha with ha | ha
      · exact Or.inl ⟨x, .queen, Or.inr rfl, hb0, ha⟩
      · exact Or.inr ⟨x, .queen, Or.inr rfl, hb0, ha⟩
  · have key : ∀ x pc, p.board x = some (pc, p.stm.other) → x ≠ q →
        (apply p m).board x = some (pc, p.stm.other) ∧ (apply p m).colorAt x = some p.stm.other := by
      intro x pc hb hne
      have := (h.after_enemy x pc).mpr ⟨hne, hb⟩
      exact ⟨this, (PinCheck.colorAt_iff _ x _).mpr ⟨pc, this⟩⟩
    have hnq : ∀ x pc, pc ≠ .pawn → p.board x = some (pc, p.stm.other) → x ≠ q := by
      intro x pc hpc hb e
      rw [e, h.vic] at hb
      exact hpc (Prod.mk.inj (Option.some.inj hb)).1.symm
    rintro (⟨x, pc, hpc, hb, hsl⟩ | ⟨x, pc, hpc, hb, hsl⟩)
    · have hne : x ≠ q := hnq x pc (by rcases hpc with e | e <;> rw [e] <;> decide) hb
      obtain ⟨hb', hc'⟩ := key x pc hb hne
      refine ⟨x, hc', ?_⟩
      unfold attacks
      rw [hb']
      rcases hpc with e | e
      · subst e; exact hsl
      · subst e
        simp only
        rw [KingMoves.slides_allDirs, hsl, Bool.true_or]
    · have hne : x ≠ q := hnq x pc (by rcases hpc with e | e <;> rw [e] <;> decide) hb
      obtain ⟨hb', hc'⟩ := key x pc hb hne
      refine ⟨x, hc', ?_⟩
      unfold attacks
      rw [hb']
      rcases hpc with e | e
      · subst e; exact hsl
      · subst e
        simp only
        rw [KingMoves.slides_allDirs, hsl, Bool.or_true]

end EpCtx

/-! ### `legal_ep_move`, the code side -/

/-- `combined ^ from_square(ep) ^ from_square(source) ^ from_square(dest)` -/
def epOcc (b : Board) (q src dst : Sq) : BB := b.combined ^^^ BB.ofSq q ^^^ BB.ofSq src ^^^ BB.ofSq dst

/-- the occupancy computed by `legal_ep_move` is the occupancy of the position after the capture -/
theorem epOcc_has {b : Board} (hs : Struct b) {m : Move} {k q : Sq} (h : EpCtx b.abs m k q) (z : Sq) :
    (epOcc b q m.src m.dst).has z = !(apply b.abs m).empty z := by
  unfold epOcc BB.has Pos.empty
  rw [BitVec.getLsbD_xor, BitVec.getLsbD_xor, BitVec.getLsbD_xor, BB.has_ofSq, BB.has_ofSq, BB.has_ofSq,
    h.after_board]
  have occ : ∀ t : Sq, b.abs.board t ≠ none → b.combined.getLsbD t.val = true := by
    intro t ht
    cases hc : b.combined.getLsbD t.val with
    | true => rfl
    | false => exact absurd ((hs.content_none_iff t).mpr hc) (by rw [← abs_board]; exact ht)
  by_cases h1 : z = m.dst
  · have e0 : b.combined.getLsbD z.val = false := by
      rw [h1, ← hs.content_none_iff, ← abs_board]; exact h.dst
    have e1 : z ≠ q := fun e => h.q_ne_dst (e ▸ h1)
    have e2 : z ≠ m.src := fun e => h.src_ne_dst (e ▸ h1)
    rw [if_pos h1, e0, decide_eq_false e1, decide_eq_false e2, decide_eq_true h1]; rfl
  · rw [if_neg h1, decide_eq_false h1, Bool.xor_false]
    by_cases h2 : z = m.src
    · have e0 : b.combined.getLsbD z.val = true := occ z (by rw [h2, h.src]; exact fun e => by cases e)
      have e1 : z ≠ q := fun e => h.q_ne_src (e ▸ h2)
      rw [if_pos h2, e0, decide_eq_false e1, decide_eq_true h2]; rfl
    · rw [if_neg h2, decide_eq_false h2, Bool.xor_false]
      by_cases h3 : z = q
      · have e0 : b.combined.getLsbD z.val = true := occ z (by rw [h3, h.vic]; exact fun e => by cases e)
        rw [if_pos h3, e0, decide_eq_true h3]; rfl
      · rw [if_neg h3, decide_eq_false h3, Bool.xor_false]
        have := PseudoBits.occ_bridge hs z
        unfold BB.has Pos.empty at this
        exact this

/-- `legal_ep_move` as a proposition (the four bitboard tests) -/
theorem legalEpMove_eq_some_true (T : Tables) (b : Board) {q : Sq} (hq : b.ep = some q) (src dst : Sq) :
    MoveGen.legalEpMove T b src dst = some true ↔
      (¬ ((T.rookRays (b.kingSquare b.stm) &&& ((b.rooks ||| b.queens) &&& b.colorCombined b.stm.other)) ≠ 0#64 ∧
          (T.rookMoves (b.kingSquare b.stm) (epOcc b q src dst) &&&
            ((b.rooks ||| b.queens) &&& b.colorCombined b.stm.other)) ≠ 0#64) ∧
       ¬ ((T.bishopRays (b.kingSquare b.stm) &&& ((b.bishops ||| b.queens) &&& b.colorCombined b.stm.other)) ≠ 0#64 ∧
          (T.bishopMoves (b.kingSquare b.stm) (epOcc b q src dst) &&&
            ((b.bishops ||| b.queens) &&& b.colorCombined b.stm.other)) ≠ 0#64)) := by
  unfold MoveGen.legalEpMove
  rw [hq]
  simp only
  show (if _ then some false else if _ then some false else some true) = some true ↔ _
  unfold epOcc Board.kingSquare
  split
  · rename_i h1
    constructor
    · intro e; cases e
    · intro e; exact absurd h1 e.1
  · rename_i h1
    split
    · rename_i h2
      constructor
      · intro e; cases e
      · intro e; exact absurd h2 e.2
    · rename_i h2
      exact ⟨fun _ => ⟨h1, h2⟩, fun _ => rfl⟩

/-- the `rays & sliders ≠ 0` pre-test is implied by the walk test -/
theorem walk_hit_rays {ds : List Dir} {k : Sq} {occ sl : BB}
    (h : Geom.sliderWalk ds k occ &&& sl ≠ 0#64) : Geom.sliderWalk ds k 0#64 &&& sl ≠ 0#64 := by
  rw [BB.ne_zero_iff] at h ⊢
  obtain ⟨z, hz⟩ := h
  rw [BitVec.getLsbD_and, Bool.and_eq_true] at hz
  exact ⟨z, by rw [BitVec.getLsbD_and, sliderWalk_subset_rays hz.1, hz.2]; rfl⟩

/-- the slider test of `legal_ep_move`, for one family of directions, read on the position `p'` whose
occupancy is `occ` -/
theorem walk_hit_iff {b : Board} (hs : Struct b) (ds : List Dir)
    (hds : ds = rookDirs ∨ ds = bishopDirs ∨ ds = allDirs) (p' : Pos) (occ : BB)
    (hocc : ∀ z, occ.has z = !p'.empty z) (k : Sq) (a c : Piece) :
    (Geom.sliderWalk ds k occ &&& ((b.pieces a ||| b.pieces c) &&& b.colorCombined b.stm.other)) ≠ 0#64 ↔
      ∃ x pc, (pc = a ∨ pc = c) ∧ b.abs.board x = some (pc, b.abs.stm.other) ∧ slides ds p' x k = true := by
  rw [BB.ne_zero_iff]
  have hw : ∀ x : Sq, (Geom.sliderWalk ds k occ).getLsbD x.val = slides ds p' x k := by
    intro x
    rw [mem_sliderWalk_symm ds hds, mem_sliderWalk_slides ds p' occ hocc]
  constructor
  · rintro ⟨x, hx⟩
    rw [BitVec.getLsbD_and, BitVec.getLsbD_and, BitVec.getLsbD_or, hw] at hx
    simp only [Bool.and_eq_true, Bool.or_eq_true] at hx
    obtain ⟨h1, h2 | h2, h3⟩ := hx
    · exact ⟨x, a, Or.inl rfl, by rw [abs_board]; exact (hs.content_some_iff x a _).mpr ⟨h2, h3⟩, h1⟩
    · exact ⟨x, c, Or.inr rfl, by rw [abs_board]; exact (hs.content_some_iff x c _).mpr ⟨h2, h3⟩, h1⟩
  · rintro ⟨x, pc, hpc, hb, hsl⟩
    rw [abs_board] at hb
    obtain ⟨h2, h3⟩ := (hs.content_some_iff x pc _).mp hb
    refine ⟨x, ?_⟩
    rw [BitVec.getLsbD_and, BitVec.getLsbD_and, BitVec.getLsbD_or, hw, hsl]
    have h3' : (b.colorCombined b.stm.other).getLsbD x.val = true := h3
    rw [h3']
    rcases hpc with e | e
    · subst e
      have : (b.pieces pc).getLsbD x.val = true := h2
      rw [this]; rfl
    · subst e
      have : (b.pieces pc).getLsbD x.val = true := h2
      rw [this, Bool.or_true]; rfl

/-- **3.** `legal_ep_move` answers `true` iff the en-passant capture is legal.  Hypotheses: correct
tables, the structural invariant, exactly one king of the mover, and `epValid` (used through
`leapers_do_not_check`: the code does not look at knights, pawns and kings). -/
theorem legalEpMove_iff {T : Tables} (hT : TablesOK T) {b : Board} (hs : Struct b) (h1 : KingMoves.OneKing b)
    (hv : epValid b.abs = true) {m : Move} (hpr : m.promo = none)
    (hpl : pseudoLegal b.abs m = true) (hep : isEnPassant b.abs m = true) :
    MoveGen.legalEpMove T b m.src m.dst = some true ↔ legal b.abs m = true := by
  obtain ⟨f1, f2, f3, f4, f5, q, f6, f7, f8⟩ := ep_move_facts hpl hep
  have hq : b.ep = some q := f7
  obtain ⟨mid, org, hf⟩ := epFacts_of_epValid hv f7
  have hK := h1.kingAt hs
  have hctx : EpCtx b.abs m (b.kingSquare b.stm) q := ⟨hK, f1, f2, f8, f6, hpr, hep⟩
  have hleap : ∀ x, b.abs.colorAt x = some b.abs.stm.other →
      leaperAtt (b.abs.board x) x (b.kingSquare b.stm) = true → x = q :=
    fun x hx hl => leapers_do_not_check hf hK hx hl
  have hocc := epOcc_has hs hctx
  have hR := walk_hit_iff hs rookDirs (Or.inl rfl) (apply b.abs m) _ hocc (b.kingSquare b.stm) .rook .queen
  have hB := walk_hit_iff hs bishopDirs (Or.inr (Or.inl rfl)) (apply b.abs m) _ hocc (b.kingSquare b.stm)
    .bishop .queen
  have hchk := hctx.after_inCheck hleap
  rw [legalEpMove_eq_some_true T b hq, hT.rookRays, hT.bishopRays, hT.rookMoves, hT.bishopMoves]
  unfold legal
  rw [hpl, Bool.true_and, Bool.not_eq_true', ← Bool.not_eq_true, hchk, not_or, ← hR, ← hB]
  show (¬ (Geom.sliderWalk rookDirs _ 0#64 &&& _ ≠ 0#64 ∧ Geom.sliderWalk rookDirs _ _ &&& _ ≠ 0#64) ∧
    ¬ (Geom.sliderWalk bishopDirs _ 0#64 &&& _ ≠ 0#64 ∧ Geom.sliderWalk bishopDirs _ _ &&& _ ≠ 0#64)) ↔ _
  constructor
  · rintro ⟨a, c⟩
    exact ⟨fun e => a ⟨walk_hit_rays e, e⟩, fun e => c ⟨walk_hit_rays e, e⟩⟩
  · rintro ⟨a, c⟩
    exact ⟨fun e => a e.2, fun e => c e.2⟩

/-- **4.** the en-passant entries of the generator are exactly the legal en-passant captures -/
theorem ep_entry_iff {T : Tables} (hT : TablesOK T) {b : Board} (hs : Struct b) (h1 : KingMoves.OneKing b)
    (hv : epValid b.abs = true) {q : Sq} (hq : b.ep = some q) (m : Move) :
    ((Entries.epSources T b q).getLsbD m.src.val = true ∧
        MoveGen.legalEpMove T b m.src (Entries.epDest b q) = some true ∧
        m.dst = Entries.epDest b q ∧ m.promo = none) ↔
      (legal b.abs m = true ∧ isEnPassant b.abs m = true) := by
  have hsrc := ep_source_iff hT hs hv hq m
  constructor
  · rintro ⟨a, c, d, e⟩
    obtain ⟨hpl, hep⟩ := hsrc.mp ⟨a, d, e⟩
    rw [← d] at c
    exact ⟨(legalEpMove_iff hT hs h1 hv e hpl hep).mp c, hep⟩
  · rintro ⟨hl, hep⟩
    have hpl : pseudoLegal b.abs m = true := Closure.legal_pseudo hl
    obtain ⟨a, d, e⟩ := hsrc.mpr ⟨hpl, hep⟩
    refine ⟨a, ?_, d, e⟩
    rw [← d]
    exact (legalEpMove_iff hT hs h1 hv e hpl hep).mpr hl

/-- the en-passant destination is not an ordinary destination of the capturing pawn: it is an empty
square (no capture) on another file (no push) -/
theorem noEpClash_pseudo {T : Tables} (hT : TablesOK T) {b : Board} (hs : Struct b)
    (hv : epValid b.abs = true) (q src : Sq) (hq : b.ep = some q)
    (hsrc : (Entries.epSources T b q).getLsbD src.val = true) :
    (MoveGen.pseudoLegals T .pawn src b.stm b.combined (Entries.ownMask b)).getLsbD (Entries.epDest b q).val
      = false := by
  obtain ⟨mid, org, hf⟩ := epFacts_of_epValid hv (show b.abs.ep = some q from hq)
  obtain ⟨d1, d2, d3⟩ := epDest_coord hf
  obtain ⟨s1, s2, s3⟩ := (epSources_bit hT hs q src).mp hsrc
  rw [Bool.eq_false_iff]
  intro hbit
  unfold Entries.ownMask at hbit
  rw [PseudoBits.pawn_bits hT hs, PseudoBits.pawnStd_iff] at hbit
  have e1 : (Entries.epDest b q).file = q.file := d1
  have e3 : Entries.epDest b q = mid := d3
  rcases hbit with ⟨a, _⟩ | ⟨a, _⟩ | ⟨_, _, a⟩
  · omega
  · omega
  · rw [e3] at a
    obtain ⟨pc, hpc⟩ := (PinCheck.colorAt_iff _ _ _).mp a
    rw [hf.midE] at hpc; cases hpc

theorem noEpClash {T : Tables} (hT : TablesOK T) {b : Board} (hs : Struct b) (hv : epValid b.abs = true)
    (ic : Bool) : Entries.NoEpClash T b ic :=
  Entries.noEpClash_of_pseudo T b (fun q src hq hsrc => noEpClash_pseudo hT hs hv q src hq hsrc) ic

/-! ### variants for the assembly -/

/-- under `epValid` a pseudo-legal en-passant capture carries no promotion -/
theorem ep_promo_none {T : Tables} (hT : TablesOK T) {b : Board} (hs : Struct b) (hv : epValid b.abs = true)
    {m : Move} (hpl : pseudoLegal b.abs m = true) (hep : isEnPassant b.abs m = true) : m.promo = none := by
  obtain ⟨_, _, _, _, _, q, _, f7, _⟩ := ep_move_facts hpl hep
  exact ((ep_source_iff hT hs hv (show b.ep = some q from f7) m).mpr ⟨hpl, hep⟩).2.2

/-- `legalEpMove_iff` without the hypothesis on the promotion field -/
theorem legalEpMove_iff' {T : Tables} (hT : TablesOK T) {b : Board} (hs : Struct b) (h1 : KingMoves.OneKing b)
    (hv : epValid b.abs = true) {m : Move} (hpl : pseudoLegal b.abs m = true)
    (hep : isEnPassant b.abs m = true) :
    MoveGen.legalEpMove T b m.src m.dst = some true ↔ legal b.abs m = true :=
  legalEpMove_iff hT hs h1 hv (ep_promo_none hT hs hv hpl hep) hpl hep

/-- the en-passant disjunct of `Entries.IsMove` is "legal and an en-passant capture" -/
theorem ep_section_iff {T : Tables} (hT : TablesOK T) {b : Board} (hs : Struct b) (h1 : KingMoves.OneKing b)
    (hv : epValid b.abs = true) (m : Move) :
    (∃ epSq : Sq, b.ep = some epSq ∧ (Entries.epSources T b epSq).getLsbD m.src.val = true ∧
        MoveGen.legalEpMove T b m.src (Entries.epDest b epSq) = some true ∧
        m.dst = Entries.epDest b epSq ∧ m.promo = none) ↔
      (legal b.abs m = true ∧ isEnPassant b.abs m = true) := by
  constructor
  · rintro ⟨q, hq, h⟩
    exact (ep_entry_iff hT hs h1 hv hq m).mp h
  · rintro ⟨hl, hep⟩
    obtain ⟨_, _, _, _, _, q, _, f7, _⟩ := ep_move_facts (Closure.legal_pseudo hl) hep
    exact ⟨q, f7, (ep_entry_iff hT hs h1 hv (show b.ep = some q from f7) m).mpr ⟨hl, hep⟩⟩

/-- `leapers_do_not_check` on a `Valid` position, with the king found by `kingSq?` -/
theorem leapers_do_not_check_valid {p : Pos} (hv : Valid p = true) {q k : Sq} (hq : p.ep = some q)
    (hk : kingSq? p p.stm = some k) {x : Sq} (hx : p.colorAt x = some p.stm.other)
    (hl : leaperAtt (p.board x) x k = true) : x = q := by
  have hV := (Closure.valid_iff p).mp hv
  obtain ⟨mid, org, hf⟩ := epFacts_of_epValid hV.ep hq
  exact leapers_do_not_check hf (PinCheck.KingAt_of_count hk (hV.king p.stm)) hx hl

end EnPassant
end Chess
