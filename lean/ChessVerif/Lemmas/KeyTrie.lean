import ChessVerif.Basic
/-! A small binary trie over the low bits of 64-bit keys with a verified membership test, used to
check in the kernel that no Zobrist key is the xor of two others (C09). -/
namespace Chess

inductive Trie where
  | leaf (vals : List BB)
  | node (zero one : Trie)

namespace Trie

def empty : Nat → Trie
  | 0 => .leaf []
  | n+1 => .node (empty n) (empty n)

def insert : Trie → BB → Nat → Trie
  | .leaf vs, x, _ => .leaf (x :: vs)
  | .node a b, x, i => if x.getLsbD i then .node a (insert b x (i+1)) else .node (insert a x (i+1)) b

def mem : Trie → BB → Nat → Bool
  | .leaf vs, x, _ => vs.contains x
  | .node a b, x, i => if x.getLsbD i then mem b x (i+1) else mem a x (i+1)

theorem mem_empty (n : Nat) (x : BB) (i : Nat) : mem (empty n) x i = false := by
  induction n generalizing i with
  | zero => simp [empty, mem]
  | succ n ih => simp only [empty, mem]; split <;> exact ih _

theorem mem_insert (t : Trie) (x y : BB) (i : Nat) : mem (insert t y i) x i = (x == y || mem t x i) := by
  induction t generalizing i with
  | leaf vs =>
    simp only [insert, mem, List.contains_cons]
  | node a b iha ihb =>
    simp only [insert]
    by_cases hy : y.getLsbD i = true
    · simp only [hy, if_true, mem]
      by_cases hx : x.getLsbD i = true
      · simp only [hx, if_true]; exact ihb (i+1)
      · simp only [hx, if_false, Bool.false_eq_true]
        have : (x == y) = false := by
          apply beq_false_of_ne; intro h; rw [h] at hx; exact hx hy
        simp [this]
    · have hy' : y.getLsbD i = false := by cases h : y.getLsbD i <;> simp_all
      simp only [hy', Bool.false_eq_true, if_false, mem]
      by_cases hx : x.getLsbD i = true
      · simp only [hx, if_true]
        have : (x == y) = false := by
          apply beq_false_of_ne; intro h; rw [h] at hx; rw [hx] at hy'; cases hy'
        simp [this]
      · simp only [hx, if_false, Bool.false_eq_true]; exact iha (i+1)

def build (depth : Nat) (keys : List BB) : Trie := keys.foldl (fun t k => insert t k 0) (empty depth)

theorem mem_foldl (keys : List BB) (t : Trie) (x : BB) :
    mem (keys.foldl (fun t k => insert t k 0) t) x 0 = (keys.contains x || mem t x 0) := by
  induction keys generalizing t with
  | nil => simp
  | cons k ks ih =>
    simp only [List.foldl_cons]
    rw [ih, mem_insert, List.contains_cons]
    cases (ks.contains x) <;> cases (x == k) <;> cases (mem t x 0) <;> rfl

theorem mem_build (depth : Nat) (keys : List BB) (x : BB) : mem (build depth keys) x 0 = keys.contains x := by
  unfold build; rw [mem_foldl, mem_empty]; simp

end Trie

/-- for every pair of list positions i < j: `k_i ^^^ k_j` is not in the trie -/
def noTripleTrie (t : Trie) : List BB → Bool
  | [] => true
  | x :: xs => xs.all (fun y => !t.mem (x ^^^ y) 0) && noTripleTrie t xs

theorem noTripleTrie_spec (keys : List BB) (depth : Nat) :
    ∀ l : List BB, noTripleTrie (Trie.build depth keys) l = true →
      l.Pairwise (fun a b => (a ^^^ b) ∉ keys) := by
  intro l
  induction l with
  | nil => intro _; exact List.Pairwise.nil
  | cons x xs ih =>
    intro h
    simp only [noTripleTrie, Bool.and_eq_true, List.all_eq_true] at h
    refine List.Pairwise.cons ?_ (ih h.2)
    intro y hy hmem
    have := h.1 y hy
    rw [Trie.mem_build] at this
    have hc : keys.contains (x ^^^ y) = true := List.contains_iff_mem.mpr hmem |> fun h => by simpa using h
    rw [hc] at this; cases this

end Chess
