import ChessVerif.Lemmas.Game
import ChessVerif.CodeTables
/-!
Concrete games over the tables of the code (`codeTables`), used by the non-vacuity `example`s of
`Props/C10.lean` and `Props/C11.lean`.  Squares are `file + 8 * rank` (a1 = 0, h8 = 63).
-/
namespace Chess.GameExamples
open Chess

/-- the initial position of chess, as a `Board` value (the raw `hash` field is irrelevant here) -/
def startBoard : Board :=
  { pawns := 0x00FF00000000FF00#64, knights := 0x4200000000000042#64, bishops := 0x2400000000000024#64,
    rooks := 0x8100000000000081#64, queens := 0x0800000000000008#64, kings := 0x1000000000000010#64,
    white := 0xFFFF#64, black := 0xFFFF000000000000#64, combined := 0xFFFF00000000FFFF#64,
    stm := .white, wcr := .both, bcr := .both, pinned := 0#64, checkers := 0#64, hash := 0#64, ep := none }

def mv (src dst : Sq) : Action := .makeMove ⟨src, dst, none⟩

def newGame : Game := ⟨startBoard, []⟩

/-- 1. f3 e5 2. g4 Qh4# -/
def foolsMate : Game := ⟨startBoard, [mv 13 21, mv 52 36, mv 14 30, mv 59 31]⟩

/-- 1. Nf3 Nf6 2. Ng1 Ng8 3. Nf3 Nf6 4. Ng1 Ng8: the initial position for the third time -/
def shuffle : Game :=
  ⟨startBoard, [mv 6 21, mv 62 45, mv 21 6, mv 45 62, mv 6 21, mv 62 45, mv 21 6, mv 45 62]⟩

/-- 1. e4 (draw offer by White after the move … here: White offers, then moves) -/
def offered : Game := ⟨startBoard, [.offerDraw .white, mv 12 28]⟩

end Chess.GameExamples
