import ChessVerif.Spec.Rules
/-!
# Board symmetries of the FIDE specification (lemmas for C17)

A symmetry `T : Sym` is a pair of switches: `fr` = flip the ranks *and* swap the colours, `ff` = flip
the files.  `T.sq`, `T.col`, `T.dir`, `T.mv`, `T.pos` are the induced maps on squares, colours, ray
directions, moves and positions; `Sym.mirror = ⟨true,false⟩` and `Sym.flip = ⟨false,true⟩` are
`Sq.mirror / Pos.mirror` and `Sq.flipFile / Pos.flipFiles` of `Spec/Rules.lean` (`mirror_pos`,
`flip_pos`, ... at the end of the file).  Every notion of the specification is shown to commute with
every `T` — once, for all four symmetries — under two side conditions that are stated where needed:

* `T.Ok p`: if `T` flips the files then `p` has no castling rights (`NoCastle p`); castling is the
  only left/right-asymmetric rule;
* `UniqueKing p c`: at most one king of colour `c`.  `kingSq?` takes the *first* king in a1..h8 order,
  so with two kings of one colour `inCheck` (and everything built on it) is not mirror-invariant.
-/
set_option maxRecDepth 100000
namespace Chess

/-! ## squares by coordinates -/
theorem beq_congr {α β} [BEq α] [LawfulBEq α] [BEq β] [LawfulBEq β] {a b : α} {c d : β}
    (h : a = b ↔ c = d) : (a == b) = (c == d) := by
  rw [Bool.eq_iff_iff]; simp only [beq_iff_eq]; exact h
theorem bne_congr {α β} [BEq α] [LawfulBEq α] [BEq β] [LawfulBEq β] {a b : α} {c d : β}
    (h : a = b ↔ c = d) : (a != b) = (c != d) := by
  unfold bne; rw [beq_congr h]
theorem decide_congr {P Q : Prop} [Decidable P] [Decidable Q] (h : P ↔ Q) : decide P = decide Q := by
  simp [h]

theorem Sq.file_range (s : Sq) : 0 ≤ s.file ∧ s.file < 8 := by
  unfold Sq.file; omega
theorem Sq.rank_range (s : Sq) : 0 ≤ s.rank ∧ s.rank < 8 := by
  have := s.isLt; unfold Sq.rank; omega
theorem Sq.ext_fr {a b : Sq} (hf : a.file = b.file) (hr : a.rank = b.rank) : a = b := by
  unfold Sq.file at hf; unfold Sq.rank at hr
  apply Fin.ext; omega

theorem sq?_eq_some_iff_sym {f r : Int} {s : Sq} : sq? f r = some s ↔ s.file = f ∧ s.rank = r := by
  unfold sq?
  split
  · rename_i h
    simp only [Option.some.injEq]
    constructor
    · intro h'; subst h'; unfold Sq.file Sq.rank; simp only; omega
    · rintro ⟨hf, hr⟩
      apply Sq.ext_fr
      · rw [hf]; unfold Sq.file; simp only; omega
      · rw [hr]; unfold Sq.rank; simp only; omega
  · rename_i h
    have := s.file_range; have := s.rank_range
    constructor
    · intro h'; cases h'
    · rintro ⟨hf, hr⟩; omega

theorem sq?_eq_none_iff {f r : Int} : sq? f r = none ↔ ¬ (0 ≤ f ∧ f < 8 ∧ 0 ≤ r ∧ r < 8) := by
  unfold sq?; split <;> simp [*]

theorem sq?_self (s : Sq) : sq? s.file s.rank = some s := sq?_eq_some_iff_sym.mpr ⟨rfl, rfl⟩


theorem Sq.mirror_mirror : ∀ s : Sq, s.mirror.mirror = s := by decide +kernel
theorem Sq.flipFile_flipFile : ∀ s : Sq, s.flipFile.flipFile = s := by decide +kernel
theorem Sq.mirror_file : ∀ s : Sq, s.mirror.file = s.file := by decide +kernel
theorem Sq.mirror_rank : ∀ s : Sq, s.mirror.rank = 7 - s.rank := by decide +kernel
theorem Sq.flipFile_file : ∀ s : Sq, s.flipFile.file = 7 - s.file := by decide +kernel
theorem Sq.flipFile_rank : ∀ s : Sq, s.flipFile.rank = s.rank := by decide +kernel

/-- A board symmetry: `fr` = flip the ranks and swap the colours, `ff` = flip the files. -/
structure Sym where
  fr : Bool
  ff : Bool

namespace Sym
def sq (T : Sym) (s : Sq) : Sq :=
  match T.fr, T.ff with
  | false, false => s
  | true, false => s.mirror
  | false, true => s.flipFile
  | true, true => s.mirror.flipFile
def col (T : Sym) (c : Color) : Color := match T.fr with | false => c | true => c.other
def dir (T : Sym) (u : Dir) : Dir :=
  let u1 : Dir := match T.fr with
    | false => u
    | true => match u with | .n => .s | .ne => .se | .e => .e | .se => .ne | .s => .n | .sw => .nw | .w => .w | .nw => .sw
  match T.ff with
  | false => u1
  | true => match u1 with | .n => .n | .ne => .nw | .e => .w | .se => .sw | .s => .s | .sw => .se | .w => .e | .nw => .ne
/-- coordinate maps -/
def mf (T : Sym) (x : Int) : Int := match T.ff with | false => x | true => 7 - x
def mr (T : Sym) (x : Int) : Int := match T.fr with | false => x | true => 7 - x
def mv (T : Sym) (m : Move) : Move := ⟨T.sq m.src, T.sq m.dst, m.promo⟩
def pc (T : Sym) (x : Piece × Color) : Piece × Color := (x.1, T.col x.2)
def pos (T : Sym) (p : Pos) : Pos where
  board s := (p.board (T.sq s)).map T.pc
  stm := T.col p.stm
  castleK c := p.castleK (T.col c)
  castleQ c := p.castleQ (T.col c)
  ep := p.ep.map T.sq

def mirror : Sym := ⟨true, false⟩
def flip : Sym := ⟨false, true⟩

theorem rot_rot : ∀ s : Sq, s.mirror.flipFile.mirror.flipFile = s := by decide +kernel
@[simp] theorem sq_sq (T : Sym) (s : Sq) : T.sq (T.sq s) = s := by
  rcases T with ⟨_|_, _|_⟩ <;> simp [sq, Sq.mirror_mirror, Sq.flipFile_flipFile, rot_rot]
theorem sq_inj (T : Sym) {a b : Sq} (h : T.sq a = T.sq b) : a = b := by
  have := congrArg T.sq h; simpa using this
@[simp] theorem sq_eq_iff (T : Sym) {a b : Sq} : T.sq a = T.sq b ↔ a = b := ⟨T.sq_inj, fun h => h ▸ rfl⟩
theorem sq_eq_comm (T : Sym) {a b : Sq} : T.sq a = b ↔ a = T.sq b := by
  constructor <;> (intro h; subst h; simp)
@[simp] theorem col_col (T : Sym) (c : Color) : T.col (T.col c) = c := by
  rcases T with ⟨_|_, _⟩ <;> simp [col]
@[simp] theorem col_eq_iff (T : Sym) {a b : Color} : T.col a = T.col b ↔ a = b := by
  constructor
  · intro h; have := congrArg T.col h; simpa using this
  · intro h; rw [h]
theorem col_other (T : Sym) (c : Color) : T.col c.other = (T.col c).other := by
  rcases T with ⟨_|_, _⟩ <;> simp [col]
@[simp] theorem mv_mv (T : Sym) (m : Move) : T.mv (T.mv m) = m := by simp [mv]
@[simp] theorem mv_src (T : Sym) (m : Move) : (T.mv m).src = T.sq m.src := rfl
@[simp] theorem mv_dst (T : Sym) (m : Move) : (T.mv m).dst = T.sq m.dst := rfl
@[simp] theorem mv_promo (T : Sym) (m : Move) : (T.mv m).promo = m.promo := rfl

theorem sq_file (T : Sym) (s : Sq) : (T.sq s).file = T.mf s.file := by
  rcases T with ⟨_|_, _|_⟩ <;> simp [sq, mf, Sq.mirror_file, Sq.flipFile_file]
theorem sq_rank (T : Sym) (s : Sq) : (T.sq s).rank = T.mr s.rank := by
  rcases T with ⟨_|_, _|_⟩ <;> simp [sq, mr, Sq.mirror_rank, Sq.flipFile_rank]

theorem col_fwd (T : Sym) (c : Color) : (T.col c).fwd = match T.fr with | false => c.fwd | true => - c.fwd := by
  rcases T with ⟨_|_, _⟩ <;> cases c <;> simp [col, Color.fwd, Color.other]
theorem col_homeRank (T : Sym) (c : Color) : (T.col c).homeRank = T.mr c.homeRank := by
  rcases T with ⟨_|_, _⟩ <;> cases c <;> simp [col, mr, Color.homeRank, Color.other]
theorem col_pawnRank (T : Sym) (c : Color) : (T.col c).pawnRank = T.mr c.pawnRank := by
  rcases T with ⟨_|_, _⟩ <;> cases c <;> simp [col, mr, Color.pawnRank, Color.fwd, Color.homeRank, Color.other]
theorem col_lastRank (T : Sym) (c : Color) : (T.col c).lastRank = T.mr c.lastRank := by
  rcases T with ⟨_|_, _⟩ <;> cases c <;> simp [col, mr, Color.lastRank, Color.homeRank, Color.other]

theorem dir_df (T : Sym) (u : Dir) : (T.dir u).df = match T.ff with | false => u.df | true => - u.df := by
  rcases T with ⟨_|_, _|_⟩ <;> cases u <;> simp [dir, Dir.df]
theorem dir_dr (T : Sym) (u : Dir) : (T.dir u).dr = match T.fr with | false => u.dr | true => - u.dr := by
  rcases T with ⟨_|_, _|_⟩ <;> cases u <;> simp [dir, Dir.dr]
@[simp] theorem dir_dir (T : Sym) (u : Dir) : T.dir (T.dir u) = u := by
  rcases T with ⟨_|_, _|_⟩ <;> cases u <;> rfl

theorem sq?_sym (T : Sym) (f r : Int) : sq? (T.mf f) (T.mr r) = (sq? f r).map T.sq := by
  cases h : sq? f r with
  | none =>
    rw [sq?_eq_none_iff] at h
    simp only [Option.map_none, sq?_eq_none_iff]
    rcases T with ⟨_|_, _|_⟩ <;> simp only [mf, mr] <;> omega
  | some s =>
    rw [sq?_eq_some_iff_sym] at h
    simp only [Option.map_some, sq?_eq_some_iff_sym, sq_file, sq_rank, h.1, h.2, and_self]


/-! ### rays -/
theorem step?_sym (T : Sym) (a : Sq) (u : Dir) (n : Nat) :
    step? (T.sq a) (T.dir u) n = (step? a u n).map T.sq := by
  unfold step?
  rw [← sq?_sym, sq_file, sq_rank, dir_df, dir_dr]
  congr 1
  · rcases T with ⟨_, _|_⟩ <;> simp only [mf, Int.mul_neg] <;> omega
  · rcases T with ⟨_|_, _⟩ <;> simp only [mr, Int.mul_neg] <;> omega

theorem map_sq_beq (T : Sym) (x : Option Sq) (s : Sq) : (x.map T.sq == some (T.sq s)) = (x == some s) := by
  cases x
  · rfl
  · exact beq_congr (by simp)
theorem sq_beq (T : Sym) (a b : Sq) : (T.sq a == T.sq b) = (a == b) := beq_congr (by simp)
theorem sq_bne (T : Sym) (a b : Sq) : (T.sq a != T.sq b) = (a != b) := bne_congr (by simp)
theorem some_sq_beq_map (T : Sym) (x : Option Sq) (s : Sq) : (some (T.sq s) == x.map T.sq) = (some s == x) := by
  cases x
  · rfl
  · exact beq_congr (by simp)
theorem col_beq (T : Sym) (a b : Color) : (T.col a == T.col b) = (a == b) := beq_congr (by simp)
theorem map_col_beq (T : Sym) (x : Option Color) (c : Color) : (x.map T.col == some (T.col c)) = (x == some c) := by
  cases x
  · rfl
  · exact beq_congr (by simp)
theorem map_col_bne (T : Sym) (x : Option Color) (c : Color) : (x.map T.col != some (T.col c)) = (x != some c) := by
  unfold bne; rw [map_col_beq]

theorem onRay_sym (T : Sym) (a : Sq) (u : Dir) (n : Nat) (b : Sq) :
    onRay (T.sq a) (T.dir u) n (T.sq b) = onRay a u n b := by
  unfold onRay; rw [step?_sym, map_sq_beq]

theorem any_dir_rook (T : Sym) (f : Dir → Bool) : rookDirs.any (fun u => f (T.dir u)) = rookDirs.any f := by
  rcases T with ⟨_|_, _|_⟩ <;> simp only [rookDirs, List.any_cons, List.any_nil, dir, Bool.or_false] <;>
    cases f .n <;> cases f .e <;> cases f .s <;> cases f .w <;> rfl
theorem any_dir_bishop (T : Sym) (f : Dir → Bool) : bishopDirs.any (fun u => f (T.dir u)) = bishopDirs.any f := by
  rcases T with ⟨_|_, _|_⟩ <;> simp only [bishopDirs, List.any_cons, List.any_nil, dir, Bool.or_false] <;>
    cases f .ne <;> cases f .se <;> cases f .sw <;> cases f .nw <;> rfl
theorem any_dir_all (T : Sym) (f : Dir → Bool) : allDirs.any (fun u => f (T.dir u)) = allDirs.any f := by
  unfold allDirs; rw [List.any_append, List.any_append, any_dir_rook, any_dir_bishop]

/-- the direction lists closed under the symmetries -/
def DirsClosed (ds : List Dir) : Prop := ∀ (T : Sym) (f : Dir → Bool), ds.any (fun u => f (T.dir u)) = ds.any f
theorem dirsClosed_rook : DirsClosed rookDirs := any_dir_rook
theorem dirsClosed_bishop : DirsClosed bishopDirs := any_dir_bishop
theorem dirsClosed_all : DirsClosed allDirs := any_dir_all

theorem aligned_sym (T : Sym) {ds : List Dir} (hds : DirsClosed ds) (a b : Sq) :
    aligned ds (T.sq a) (T.sq b) = aligned ds a b := by
  unfold aligned
  rw [← hds T]
  simp only [onRay_sym]

theorem king_step_sym (T : Sym) (a b : Sq) :
    (allDirs.any fun u => onRay (T.sq a) u 1 (T.sq b)) = allDirs.any fun u => onRay a u 1 b := by
  rw [← any_dir_all T]; simp only [onRay_sym]

/-! ### strictly between -/
def sbCore (dfb drb dfx drx : Int) : Bool :=
  (dfb == 0 || drb == 0 || dfb.natAbs == drb.natAbs) &&
  dfx * drb == drx * dfb &&
  0 < dfx * dfb + drx * drb &&
  dfx * dfx + drx * drx < dfb * dfb + drb * drb
theorem strictlyBetween_eq (a x b : Sq) :
    strictlyBetween a x b = sbCore (b.file - a.file) (b.rank - a.rank) (x.file - a.file) (x.rank - a.rank) := rfl
theorem sbCore_negf (dfb drb dfx drx : Int) : sbCore (-dfb) drb (-dfx) drx = sbCore dfb drb dfx drx := by
  unfold sbCore
  simp only [Int.neg_mul, Int.mul_neg, Int.neg_neg, Int.natAbs_neg]
  congr 3
  · congr 2; exact beq_congr (by omega)
  · exact beq_congr (by omega)
theorem sbCore_negr (dfb drb dfx drx : Int) : sbCore dfb (-drb) dfx (-drx) = sbCore dfb drb dfx drx := by
  unfold sbCore
  simp only [Int.neg_mul, Int.mul_neg, Int.neg_neg, Int.natAbs_neg]
  congr 3
  · congr 2; exact beq_congr (by omega)
  · exact beq_congr (by omega)

theorem file_sub (T : Sym) (a b : Sq) : (T.sq b).file - (T.sq a).file =
    match T.ff with | false => b.file - a.file | true => -(b.file - a.file) := by
  rw [sq_file, sq_file]; rcases T with ⟨_, _|_⟩ <;> simp only [mf] ; omega
theorem rank_sub (T : Sym) (a b : Sq) : (T.sq b).rank - (T.sq a).rank =
    match T.fr with | false => b.rank - a.rank | true => -(b.rank - a.rank) := by
  rw [sq_rank, sq_rank]; rcases T with ⟨_|_, _⟩ <;> simp only [mr] ; omega

theorem strictlyBetween_sym (T : Sym) (a x b : Sq) :
    strictlyBetween (T.sq a) (T.sq x) (T.sq b) = strictlyBetween a x b := by
  simp only [strictlyBetween_eq, file_sub, rank_sub]
  rcases T with ⟨_|_, _|_⟩ <;> simp only [sbCore_negf, sbCore_negr]

/-! ### quantifying over all squares -/
theorem any_sym (T : Sym) (f : Sq → Bool) : allSq.any f = allSq.any fun s => f (T.sq s) := by
  rw [Bool.eq_iff_iff, List.any_eq_true, List.any_eq_true]
  constructor
  · rintro ⟨s, _, h⟩; exact ⟨T.sq s, List.mem_finRange _, by simpa using h⟩
  · rintro ⟨s, _, h⟩; exact ⟨T.sq s, List.mem_finRange _, h⟩
theorem all_sym (T : Sym) (f : Sq → Bool) : allSq.all f = allSq.all fun s => f (T.sq s) := by
  rw [Bool.eq_iff_iff, List.all_eq_true, List.all_eq_true]
  constructor
  · intro h s _; exact h _ (List.mem_finRange _)
  · intro h s _; have := h (T.sq s) (List.mem_finRange _); simpa using this


/-! ### positions -/
@[simp] theorem pos_stm (T : Sym) (p : Pos) : (T.pos p).stm = T.col p.stm := rfl
@[simp] theorem pos_ep (T : Sym) (p : Pos) : (T.pos p).ep = p.ep.map T.sq := rfl
@[simp] theorem pos_castleK (T : Sym) (p : Pos) (c : Color) : (T.pos p).castleK c = p.castleK (T.col c) := rfl
@[simp] theorem pos_castleQ (T : Sym) (p : Pos) (c : Color) : (T.pos p).castleQ c = p.castleQ (T.col c) := rfl
theorem pos_board' (T : Sym) (p : Pos) (s : Sq) : (T.pos p).board s = (p.board (T.sq s)).map T.pc := rfl
theorem pos_board (T : Sym) (p : Pos) (s : Sq) : (T.pos p).board (T.sq s) = (p.board s).map T.pc := by
  rw [pos_board', sq_sq]
theorem pos_empty (T : Sym) (p : Pos) (s : Sq) : (T.pos p).empty (T.sq s) = p.empty s := by
  unfold Pos.empty; rw [pos_board]; cases p.board s <;> rfl
theorem pos_colorAt (T : Sym) (p : Pos) (s : Sq) : (T.pos p).colorAt (T.sq s) = (p.colorAt s).map T.col := by
  unfold Pos.colorAt; rw [pos_board]; cases p.board s <;> rfl
theorem pc_inj (T : Sym) {x y : Piece × Color} : T.pc x = T.pc y ↔ x = y := by
  rcases x with ⟨a, b⟩; rcases y with ⟨c, d⟩; simp [pc]
theorem pos_has (T : Sym) (p : Pos) (s : Sq) (k : Piece) (c : Color) :
    (T.pos p).has (T.sq s) k (T.col c) = p.has s k c := by
  unfold Pos.has; rw [pos_board]
  cases p.board s with
  | none => rfl
  | some x => exact beq_congr (by rw [Option.map_some, Option.some.injEq, Option.some.injEq]; exact T.pc_inj (y := (k, c)))
theorem pos_board_eq_some (T : Sym) (p : Pos) (s : Sq) (k : Piece) (c : Color) :
    (T.pos p).board (T.sq s) = some (k, T.col c) ↔ p.board s = some (k, c) := by
  have := pos_has T p s k c
  unfold Pos.has at this
  rw [Bool.eq_iff_iff] at this; simpa using this

theorem pathClear_sym (T : Sym) (p : Pos) (a b : Sq) :
    pathClear (T.pos p) (T.sq a) (T.sq b) = pathClear p a b := by
  unfold pathClear
  rw [all_sym T]
  simp only [strictlyBetween_sym, pos_empty]

theorem slides_sym (T : Sym) {ds : List Dir} (hds : DirsClosed ds) (p : Pos) (a b : Sq) :
    slides ds (T.pos p) (T.sq a) (T.sq b) = slides ds p a b := by
  unfold slides; rw [aligned_sym T hds, pathClear_sym]

theorem natAbs_file_sub (T : Sym) (a b : Sq) :
    ((T.sq b).file - (T.sq a).file).natAbs = (b.file - a.file).natAbs := by
  rw [file_sub]; rcases T with ⟨_, _|_⟩ <;> simp only [Int.natAbs_neg]
theorem natAbs_rank_sub (T : Sym) (a b : Sq) :
    ((T.sq b).rank - (T.sq a).rank).natAbs = (b.rank - a.rank).natAbs := by
  rw [rank_sub]; rcases T with ⟨_|_, _⟩ <;> simp only [Int.natAbs_neg]
theorem rank_sub_beq_fwd (T : Sym) (a b : Sq) (c : Color) :
    ((T.sq b).rank - (T.sq a).rank == (T.col c).fwd) = (b.rank - a.rank == c.fwd) := by
  rw [rank_sub, col_fwd]; rcases T with ⟨_|_, _⟩
  · rfl
  · exact beq_congr (by simp only; omega)
theorem rank_sub_beq_2fwd (T : Sym) (a b : Sq) (c : Color) :
    ((T.sq b).rank - (T.sq a).rank == 2 * (T.col c).fwd) = (b.rank - a.rank == 2 * c.fwd) := by
  rw [rank_sub, col_fwd]; rcases T with ⟨_|_, _⟩
  · rfl
  · exact beq_congr (by simp only; omega)

theorem attacks_sym (T : Sym) (p : Pos) (a b : Sq) :
    attacks (T.pos p) (T.sq a) (T.sq b) = attacks p a b := by
  simp only [attacks, pos_board]
  cases p.board a with
  | none => rfl
  | some x =>
    rcases x with ⟨k, c⟩
    cases k <;> simp only [Option.map_some, pc, natAbs_file_sub, natAbs_rank_sub, rank_sub_beq_fwd,
      slides_sym T dirsClosed_rook, slides_sym T dirsClosed_bishop, slides_sym T dirsClosed_all, king_step_sym]

theorem attackedBy_sym (T : Sym) (p : Pos) (c : Color) (t : Sq) :
    attackedBy (T.pos p) (T.col c) (T.sq t) = attackedBy p c t := by
  unfold attackedBy
  rw [any_sym T]
  simp only [pos_colorAt, map_col_beq, attacks_sym]

/-- at most one king of colour `c` on the board -/
def _root_.Chess.UniqueKing (p : Pos) (c : Color) : Prop :=
  ∀ a b, p.board a = some (.king, c) → p.board b = some (.king, c) → a = b

theorem has_iff (p : Pos) (s : Sq) (k : Piece) (c : Color) : p.has s k c = true ↔ p.board s = some (k, c) := by
  unfold Pos.has; simp

theorem kingSq?_sym (T : Sym) (p : Pos) (c : Color) (hu : UniqueKing p c) :
    kingSq? (T.pos p) (T.col c) = (kingSq? p c).map T.sq := by
  unfold kingSq?
  cases h : allSq.find? (fun s => p.has s .king c) with
  | none =>
    rw [List.find?_eq_none] at h
    rw [Option.map_none, List.find?_eq_none]
    intro x _
    have := h (T.sq x) (List.mem_finRange _)
    rw [← pos_has T, sq_sq] at this; exact this
  | some k =>
    have hk := List.find?_some h
    rw [Option.map_some]
    cases h' : allSq.find? (fun s => (T.pos p).has s .king (T.col c)) with
    | none =>
      rw [List.find?_eq_none] at h'
      have := h' (T.sq k) (List.mem_finRange _)
      rw [pos_has] at this; exact absurd hk this
    | some k' =>
      have hk' := List.find?_some h'
      have e : k' = T.sq (T.sq k') := by simp
      rw [e, pos_has] at hk'
      rw [has_iff] at hk hk'
      have := hu _ _ hk hk'
      rw [this, sq_sq]

theorem inCheck_sym (T : Sym) (p : Pos) (c : Color) (hu : UniqueKing p c) :
    inCheck (T.pos p) (T.col c) = inCheck p c := by
  unfold inCheck
  rw [kingSq?_sym T p c hu]
  cases kingSq? p c with
  | none => rfl
  | some k => simp only [Option.map_some, ← col_other, attackedBy_sym]


/-! ### pseudo-legal moves -/
/-- the pawn branch of `pseudoLegal` -/
def _root_.Chess.pawnOk (p : Pos) (m : Move) (c : Color) : Bool :=
  let df := m.dst.file - m.src.file; let dr := m.dst.rank - m.src.rank
  let promoOk := if m.dst.rank == c.lastRank then (match m.promo with | some q => promoPieces.contains q | none => false)
                 else m.promo.isNone
  promoOk &&
  ( (df == 0 && dr == c.fwd && p.empty m.dst)
  || (df == 0 && dr == 2 * c.fwd && m.src.rank == c.pawnRank && p.empty m.dst &&
        (match sq? m.src.file (m.src.rank + c.fwd) with | some x => p.empty x | none => false))
  || (df.natAbs == 1 && dr == c.fwd && p.colorAt m.dst == some c.other)
  || (df.natAbs == 1 && dr == c.fwd && p.empty m.dst &&
        (match sq? m.dst.file m.src.rank with
         | some q => p.ep == some q && p.has q .pawn c.other
         | none => false)) )
/-- the castling disjunct of `pseudoLegal` -/
def _root_.Chess.castleOk (p : Pos) (m : Move) (c : Color) : Bool :=
  let df := m.dst.file - m.src.file; let dr := m.dst.rank - m.src.rank
  (m.src.rank == c.homeRank && m.src.file == 4 && dr == 0 && df.natAbs == 2 &&
    let kingside := df == 2
    let rookFile : Int := if kingside then 7 else 0
    (if kingside then p.castleK c else p.castleQ c) &&
    (match sq? rookFile c.homeRank, sq? (4 + df / 2) c.homeRank with
     | some r, some mid =>
        p.has r .rook c && pathClear p m.src r &&
        !attackedBy p c.other m.src && !attackedBy p c.other mid && !attackedBy p c.other m.dst
     | _, _ => false))

theorem pseudoLegal_eq (p : Pos) (m : Move) : pseudoLegal p m =
    match p.board m.src with
    | none => false
    | some (k, c') =>
      c' == p.stm && p.colorAt m.dst != some p.stm &&
      match k with
      | .pawn => pawnOk p m p.stm
      | .king => m.promo.isNone && (attacks p m.src m.dst || castleOk p m p.stm)
      | _ => m.promo.isNone && attacks p m.src m.dst := by
  unfold pseudoLegal pawnOk castleOk
  cases p.board m.src with
  | none => rfl
  | some x => rcases x with ⟨k, c'⟩; cases k <;> rfl

theorem rank_beq_lastRank (T : Sym) (a : Sq) (c : Color) :
    ((T.sq a).rank == (T.col c).lastRank) = (a.rank == c.lastRank) := by
  rw [sq_rank, col_lastRank]; rcases T with ⟨_|_, _⟩
  · rfl
  · exact beq_congr (by simp only [mr]; omega)
theorem rank_beq_pawnRank (T : Sym) (a : Sq) (c : Color) :
    ((T.sq a).rank == (T.col c).pawnRank) = (a.rank == c.pawnRank) := by
  rw [sq_rank, col_pawnRank]; rcases T with ⟨_|_, _⟩
  · rfl
  · exact beq_congr (by simp only [mr]; omega)
theorem rank_beq_homeRank (T : Sym) (a : Sq) (c : Color) :
    ((T.sq a).rank == (T.col c).homeRank) = (a.rank == c.homeRank) := by
  rw [sq_rank, col_homeRank]; rcases T with ⟨_|_, _⟩
  · rfl
  · exact beq_congr (by simp only [mr]; omega)
theorem file_sub_beq_zero (T : Sym) (a b : Sq) :
    ((T.sq b).file - (T.sq a).file == 0) = (b.file - a.file == 0) := by
  rw [file_sub]; rcases T with ⟨_, _|_⟩
  · rfl
  · exact beq_congr (by simp only; omega)
theorem rank_sub_beq_zero (T : Sym) (a b : Sq) :
    ((T.sq b).rank - (T.sq a).rank == 0) = (b.rank - a.rank == 0) := by
  rw [rank_sub]; rcases T with ⟨_|_, _⟩
  · rfl
  · exact beq_congr (by simp only; omega)
theorem sq?_fwd_sym (T : Sym) (a : Sq) (c : Color) :
    sq? (T.sq a).file ((T.sq a).rank + (T.col c).fwd) = (sq? a.file (a.rank + c.fwd)).map T.sq := by
  rw [← sq?_sym, sq_file, sq_rank, col_fwd]; congr 1
  rcases T with ⟨_|_, _⟩ <;> simp only [mr] ; omega
theorem sq?_fr_sym (T : Sym) (a b : Sq) :
    sq? (T.sq a).file (T.sq b).rank = (sq? a.file b.rank).map T.sq := by
  rw [← sq?_sym, sq_file, sq_rank]
theorem ep_beq (T : Sym) (p : Pos) (q : Sq) : ((T.pos p).ep == some (T.sq q)) = (p.ep == some q) := by
  rw [pos_ep, map_sq_beq]

theorem pawnOk_sym (T : Sym) (p : Pos) (m : Move) (c : Color) :
    pawnOk (T.pos p) (T.mv m) (T.col c) = pawnOk p m c := by
  simp only [pawnOk, mv_src, mv_dst, mv_promo, rank_beq_lastRank, file_sub_beq_zero, rank_sub_beq_fwd,
    rank_sub_beq_2fwd, rank_beq_pawnRank, pos_empty, natAbs_file_sub, pos_colorAt, ← col_other, map_col_beq,
    sq?_fwd_sym, sq?_fr_sym]
  cases sq? m.src.file (m.src.rank + c.fwd) <;> cases sq? m.dst.file m.src.rank <;>
    simp only [Option.map_some, Option.map_none, pos_empty, ep_beq, pos_has]


/-- no castling rights at all -/
def _root_.Chess.NoCastle (p : Pos) : Prop := ∀ c, p.castleK c = false ∧ p.castleQ c = false
/-- the side condition of a symmetry: a file flip is only a symmetry for positions without castling rights -/
def Ok (T : Sym) (p : Pos) : Prop := T.ff = true → NoCastle p

theorem noCastle_pos (T : Sym) {p : Pos} (h : NoCastle p) : NoCastle (T.pos p) := fun c => h (T.col c)
theorem ok_mirror (p : Pos) : mirror.Ok p := fun h => by cases h
theorem ok_flip {p : Pos} (h : NoCastle p) : flip.Ok p := fun _ => h

theorem castleOk_noCastle {p : Pos} (h : NoCastle p) (m : Move) (c : Color) : castleOk p m c = false := by
  simp only [castleOk, (h c).1, (h c).2, ite_self, Bool.false_and, Bool.and_false]

theorem sq_file_noflip {T : Sym} (h : T.ff = false) (a : Sq) : (T.sq a).file = a.file := by
  rw [sq_file]; rcases T with ⟨_, _|_⟩
  · rfl
  · cases h
theorem sq?_home_sym {T : Sym} (h : T.ff = false) (f : Int) (c : Color) :
    sq? f (T.col c).homeRank = (sq? f c.homeRank).map T.sq := by
  rw [← sq?_sym, col_homeRank]; rcases T with ⟨_, _|_⟩
  · rfl
  · cases h

theorem castleOk_sym_noflip {T : Sym} (h : T.ff = false) (p : Pos) (m : Move) (c : Color) :
    castleOk (T.pos p) (T.mv m) (T.col c) = castleOk p m c := by
  simp only [castleOk, mv_src, mv_dst, rank_beq_homeRank, sq_file_noflip h, rank_sub_beq_zero, pos_castleK, pos_castleQ,
    col_col, sq?_home_sym h]
  cases sq? (if (m.dst.file - m.src.file == 2) = true then 7 else 0) c.homeRank <;>
  cases sq? (4 + (m.dst.file - m.src.file) / 2) c.homeRank <;>
    simp only [Option.map_some, Option.map_none, pos_has, pathClear_sym, ← col_other, attackedBy_sym]

theorem castleOk_sym (T : Sym) (p : Pos) (hok : T.Ok p) (m : Move) (c : Color) :
    castleOk (T.pos p) (T.mv m) (T.col c) = castleOk p m c := by
  cases h : T.ff with
  | false => exact castleOk_sym_noflip h p m c
  | true => rw [castleOk_noCastle (hok h), castleOk_noCastle (noCastle_pos T (hok h))]

theorem pseudoLegal_sym (T : Sym) (p : Pos) (hok : T.Ok p) (m : Move) :
    pseudoLegal (T.pos p) (T.mv m) = pseudoLegal p m := by
  rw [pseudoLegal_eq, pseudoLegal_eq, mv_src, pos_board]
  cases p.board m.src with
  | none => rfl
  | some x =>
    rcases x with ⟨k, c'⟩
    simp only [Option.map_some, pc, pos_stm, col_beq, mv_dst, pos_colorAt, map_col_bne]
    cases k <;> simp only [pawnOk_sym, castleOk_sym T p hok, mv_promo, ← mv_src, ← mv_dst] <;> 
      simp only [mv_src, mv_dst, attacks_sym]


/-! ### successor position -/
theorem _root_.Chess.Pos.ext_pointwise {p q : Pos} (hb : ∀ s, p.board s = q.board s) (hs : p.stm = q.stm)
    (hk : ∀ c, p.castleK c = q.castleK c) (hq : ∀ c, p.castleQ c = q.castleQ c) (he : p.ep = q.ep) : p = q := by
  rcases p with ⟨b1, s1, k1, q1, e1⟩; rcases q with ⟨b2, s2, k2, q2, e2⟩
  simp only at hb hs hk hq he
  have : b1 = b2 := funext hb
  have : k1 = k2 := funext hk
  have : q1 = q2 := funext hq
  subst_vars; rfl

def _root_.Chess.movedMan (p : Pos) (m : Move) : Option (Piece × Color) :=
  match p.board m.src, m.promo with
  | some (.pawn, c'), some q => some (q, c')
  | x, _ => x
def _root_.Chess.epVictim (p : Pos) (m : Move) : Option Sq := if isEnPassant p m then sq? m.dst.file m.src.rank else none
def _root_.Chess.rookFrom (p : Pos) (m : Move) : Option Sq :=
  if isCastle p m then homeSq p.stm (if m.dst.file > m.src.file then 7 else 0) else none
def _root_.Chess.rookTo (p : Pos) (m : Move) : Option Sq :=
  if isCastle p m then homeSq p.stm (if m.dst.file > m.src.file then 5 else 3) else none
def _root_.Chess.touched (m : Move) (s : Option Sq) : Bool := s == some m.src || s == some m.dst

theorem apply_board (p : Pos) (m : Move) (s : Sq) : (apply p m).board s =
    if s == m.dst then movedMan p m
    else if s == m.src then none
    else if some s == epVictim p m then none
    else if some s == rookFrom p m then none
    else if some s == rookTo p m then some (.rook, p.stm)
    else p.board s := rfl
theorem apply_stm (p : Pos) (m : Move) : (apply p m).stm = p.stm.other := rfl
theorem apply_castleK (p : Pos) (m : Move) (d : Color) : (apply p m).castleK d =
    (p.castleK d && !touched m (homeSq d 4) && !touched m (homeSq d 7)) := rfl
theorem apply_castleQ (p : Pos) (m : Move) (d : Color) : (apply p m).castleQ d =
    (p.castleQ d && !touched m (homeSq d 4) && !touched m (homeSq d 0)) := rfl
theorem apply_ep (p : Pos) (m : Move) : (apply p m).ep = if isDoubleStep p m then some m.dst else none := rfl

theorem movedMan_sym (T : Sym) (p : Pos) (m : Move) : movedMan (T.pos p) (T.mv m) = (movedMan p m).map T.pc := by
  unfold movedMan; rw [mv_src, pos_board, mv_promo]
  cases p.board m.src with
  | none => rfl
  | some x => rcases x with ⟨k, c⟩; cases k <;> cases m.promo <;> rfl

theorem file_bne (T : Sym) (a b : Sq) : ((T.sq a).file != (T.sq b).file) = (a.file != b.file) := by
  rw [sq_file, sq_file]; rcases T with ⟨_, _|_⟩
  · rfl
  · exact bne_congr (by simp only [mf]; omega)

theorem isEnPassant_sym (T : Sym) (p : Pos) (m : Move) : isEnPassant (T.pos p) (T.mv m) = isEnPassant p m := by
  unfold isEnPassant; rw [mv_src, mv_dst, pos_board, file_bne, pos_empty]
  cases p.board m.src with
  | none => rfl
  | some x => rcases x with ⟨k, c⟩; cases k <;> rfl
theorem isCastle_sym (T : Sym) (p : Pos) (m : Move) : isCastle (T.pos p) (T.mv m) = isCastle p m := by
  unfold isCastle; rw [mv_src, mv_dst, pos_board, natAbs_file_sub]
  cases p.board m.src with
  | none => rfl
  | some x => rcases x with ⟨k, c⟩; cases k <;> rfl
theorem isDoubleStep_sym (T : Sym) (p : Pos) (m : Move) : isDoubleStep (T.pos p) (T.mv m) = isDoubleStep p m := by
  unfold isDoubleStep; rw [mv_src, mv_dst, pos_board, natAbs_rank_sub]
  cases p.board m.src with
  | none => rfl
  | some x => rcases x with ⟨k, c⟩; cases k <;> rfl

theorem epVictim_sym (T : Sym) (p : Pos) (m : Move) : epVictim (T.pos p) (T.mv m) = (epVictim p m).map T.sq := by
  unfold epVictim; rw [isEnPassant_sym, mv_src, mv_dst, sq?_fr_sym]
  cases isEnPassant p m <;> rfl

theorem homeSq_sym {T : Sym} (h : T.ff = false) (c : Color) (f : Int) :
    homeSq (T.col c) f = (homeSq c f).map T.sq := sq?_home_sym h f c

theorem rookFrom_sym {T : Sym} (p : Pos) (m : Move) (h : T.ff = true → isCastle p m = false) :
    rookFrom (T.pos p) (T.mv m) = (rookFrom p m).map T.sq := by
  unfold rookFrom; rw [isCastle_sym]
  cases hc : isCastle p m with
  | false => rfl
  | true =>
    have hff : T.ff = false := by
      cases hf : T.ff with
      | false => rfl
      | true => rw [h hf] at hc; cases hc
    simp only [if_true, pos_stm, mv_src, mv_dst, sq_file_noflip hff, homeSq_sym hff]
theorem rookTo_sym {T : Sym} (p : Pos) (m : Move) (h : T.ff = true → isCastle p m = false) :
    rookTo (T.pos p) (T.mv m) = (rookTo p m).map T.sq := by
  unfold rookTo; rw [isCastle_sym]
  cases hc : isCastle p m with
  | false => rfl
  | true =>
    have hff : T.ff = false := by
      cases hf : T.ff with
      | false => rfl
      | true => rw [h hf] at hc; cases hc
    simp only [if_true, pos_stm, mv_src, mv_dst, sq_file_noflip hff, homeSq_sym hff]

theorem touched_sym (T : Sym) (m : Move) (x : Option Sq) : touched (T.mv m) (x.map T.sq) = touched m x := by
  unfold touched; rw [mv_src, mv_dst, map_sq_beq, map_sq_beq]

theorem apply_sym (T : Sym) (p : Pos) (hok : T.Ok p) (m : Move) (h : T.ff = true → isCastle p m = false) :
    T.pos (apply p m) = apply (T.pos p) (T.mv m) := by
  apply Pos.ext_pointwise
  · intro s
    have e : s = T.sq (T.sq s) := by simp
    generalize T.sq s = t at e; subst e
    rw [pos_board, apply_board, apply_board, movedMan_sym, epVictim_sym, rookFrom_sym p m h, rookTo_sym p m h]
    simp only [mv_src, mv_dst, sq_beq, some_sq_beq_map, pos_stm, pos_board]
    split
    · rfl
    split
    · rfl
    split
    · rfl
    split
    · rfl
    split
    · rfl
    · rfl
  · simp only [pos_stm, apply_stm, col_other]
  · intro d
    rw [pos_castleK, apply_castleK, apply_castleK, pos_castleK]
    cases hf : T.ff with
    | true => rw [(hok hf _).1]; rfl
    | false => 
      have e : d = T.col (T.col d) := by simp
      generalize T.col d = d' at e; subst e
      rw [homeSq_sym hf, homeSq_sym hf, touched_sym, touched_sym]
  · intro d
    rw [pos_castleQ, apply_castleQ, apply_castleQ, pos_castleQ]
    cases hf : T.ff with
    | true => rw [(hok hf _).2]; rfl
    | false => 
      have e : d = T.col (T.col d) := by simp
      generalize T.col d = d' at e; subst e
      rw [homeSq_sym hf, homeSq_sym hf, touched_sym, touched_sym]
  · rw [pos_ep, apply_ep, apply_ep, isDoubleStep_sym, mv_dst]
    cases isDoubleStep p m <;> rfl


/-! ### legality -/
theorem _root_.Chess.pseudoLegal_promo_ne_king {p : Pos} {m : Move} (h : pseudoLegal p m = true) {c : Color}
    (hp : p.board m.src = some (.pawn, c)) : m.promo ≠ some .king := by
  intro hk
  rw [pseudoLegal_eq, hp] at h
  simp only [pawnOk, hk, Bool.and_eq_true] at h
  have := h.2.1
  split at this
  · revert this; decide
  · cases this

theorem _root_.Chess.attacks_file_le {p : Pos} {a b : Sq} (hk : ∃ c, p.board a = some (.king, c))
    (h : attacks p a b = true) : (b.file - a.file).natAbs ≤ 1 := by
  rcases hk with ⟨c, hk⟩
  simp only [attacks, hk, List.any_eq_true] at h
  rcases h with ⟨u, _, h⟩
  simp only [onRay, step?, Bool.and_eq_true, beq_iff_eq, sq?_eq_some_iff_sym] at h
  have := h.2.1
  cases u <;> simp only [Dir.df] at this <;> omega

theorem _root_.Chess.pseudoLegal_not_castle {p : Pos} (hn : NoCastle p) {m : Move} (h : pseudoLegal p m = true) :
    isCastle p m = false := by
  rw [pseudoLegal_eq] at h
  unfold isCastle
  cases hb : p.board m.src with
  | none => rfl
  | some x =>
    rcases x with ⟨k, c⟩
    cases k <;> try rfl
    rw [hb] at h
    simp only [castleOk_noCastle hn, Bool.or_false, Bool.and_eq_true] at h
    have := attacks_file_le ⟨c, hb⟩ h.2.2
    simp only [Bool.true_and, beq_eq_false_iff_ne, ne_eq]
    omega

theorem _root_.Chess.uniqueKing_apply {p : Pos} {c : Color} (hu : UniqueKing p c) {m : Move}
    (hp : pseudoLegal p m = true) : UniqueKing (apply p m) c := by
  -- every king of the successor comes from a king of `p`: the one on `dst` from `src`, the others stayed
  have key : ∀ a, (apply p m).board a = some (.king, c) →
      (a = m.dst ∧ p.board m.src = some (.king, c)) ∨ (a ≠ m.dst ∧ a ≠ m.src ∧ p.board a = some (.king, c)) := by
    intro a ha
    rw [apply_board] at ha
    split at ha
    · rename_i h1
      left; refine ⟨by simpa using h1, ?_⟩
      unfold movedMan at ha
      split at ha
      · rename_i c' q hb hq
        have := pseudoLegal_promo_ne_king hp hb
        simp only [Option.some.injEq, Prod.mk.injEq] at ha
        rw [hq, ha.1] at this; exact absurd rfl this
      · exact ha
    · rename_i h1
      split at ha
      · cases ha
      · rename_i h2
        right; refine ⟨by simpa using h1, by simpa using h2, ?_⟩
        split at ha
        · cases ha
        split at ha
        · cases ha
        split at ha
        · cases ha
        · exact ha
  intro a b ha hb
  rcases key a ha with ⟨ea, ka⟩ | ⟨na, sa, ka⟩ <;> rcases key b hb with ⟨eb, kb⟩ | ⟨nb, sb, kb⟩
  · rw [ea, eb]
  · exact absurd (hu _ _ kb ka) sb
  · exact absurd (hu _ _ ka kb) sa
  · exact hu _ _ ka kb

theorem legal_sym (T : Sym) (p : Pos) (hok : T.Ok p) (hu : UniqueKing p p.stm) (m : Move) :
    legal (T.pos p) (T.mv m) = legal p m := by
  unfold legal
  rw [pseudoLegal_sym T p hok]
  cases hp : pseudoLegal p m with
  | false => simp only [Bool.false_and]
  | true =>
    rw [← apply_sym T p hok m (fun hf => pseudoLegal_not_castle (hok hf) hp), pos_stm,
      inCheck_sym T _ _ (uniqueKing_apply hu hp)]


/-! ### move lists, status, checkers, pins -/
theorem _root_.Chess.mem_candidates (p : Pos) (m : Move) :
    m ∈ candidates p ↔ p.colorAt m.src = some p.stm ∧ (m.promo = none ∨ m.promo ∈ promoPieces.map some) := by
  rcases m with ⟨s, d, q⟩
  simp only [candidates, List.mem_flatMap, List.mem_filter, List.mem_map, List.mem_cons, beq_iff_eq,
    Move.mk.injEq, allSq, List.mem_finRange, true_and]
  constructor
  · rintro ⟨s', hs, d', q', hq, rfl, rfl, rfl⟩
    exact ⟨hs, by rcases hq with h | h; exact Or.inl h; exact Or.inr h⟩
  · rintro ⟨hs, hq⟩
    exact ⟨s, hs, d, q, (by rcases hq with h | h; exact Or.inl h; exact Or.inr h), rfl, rfl, rfl⟩

theorem mem_candidates_sym (T : Sym) (p : Pos) (m : Move) : T.mv m ∈ candidates (T.pos p) ↔ m ∈ candidates p := by
  rw [mem_candidates, mem_candidates, mv_src, mv_promo, pos_colorAt, pos_stm]
  have : (p.colorAt m.src).map T.col = some (T.col p.stm) ↔ p.colorAt m.src = some p.stm := by
    cases p.colorAt m.src <;> simp
  rw [this]

theorem mem_legalMoves_sym (T : Sym) (p : Pos) (hok : T.Ok p) (hu : UniqueKing p p.stm) (m : Move) :
    T.mv m ∈ legalMoves (T.pos p) ↔ m ∈ legalMoves p := by
  unfold legalMoves
  rw [List.mem_filter, List.mem_filter, mem_candidates_sym, legal_sym T p hok hu]

theorem any_legal_sym (T : Sym) (p : Pos) (hok : T.Ok p) (hu : UniqueKing p p.stm) :
    (candidates (T.pos p)).any (legal (T.pos p)) = (candidates p).any (legal p) := by
  rw [Bool.eq_iff_iff, List.any_eq_true, List.any_eq_true]
  constructor
  · rintro ⟨m, hm, hl⟩
    refine ⟨T.mv m, ?_, ?_⟩
    · rw [← mem_candidates_sym T, mv_mv]; exact hm
    · rw [← legal_sym T p hok hu, mv_mv]; exact hl
  · rintro ⟨m, hm, hl⟩
    exact ⟨T.mv m, (mem_candidates_sym T p m).mpr hm, by rw [legal_sym T p hok hu]; exact hl⟩

theorem status_sym (T : Sym) (p : Pos) (hok : T.Ok p) (hu : UniqueKing p p.stm) : status (T.pos p) = status p := by
  unfold status
  rw [any_legal_sym T p hok hu, pos_stm, inCheck_sym T p _ hu]

theorem checkerSq_sym (T : Sym) (p : Pos) (hu : UniqueKing p p.stm) (x : Sq) :
    checkerSq (T.pos p) (T.sq x) = checkerSq p x := by
  unfold checkerSq
  rw [pos_stm, kingSq?_sym T p _ hu]
  cases kingSq? p p.stm with
  | none => rfl
  | some k => simp only [Option.map_some, pos_colorAt, ← col_other, map_col_beq, attacks_sym]

theorem pinnedSq_sym (T : Sym) (p : Pos) (hu : UniqueKing p p.stm) (y : Sq) :
    pinnedSq (T.pos p) (T.sq y) = pinnedSq p y := by
  unfold pinnedSq
  rw [pos_stm, kingSq?_sym T p _ hu]
  cases kingSq? p p.stm with
  | none => rfl
  | some k =>
    simp only [Option.map_some]
    rw [any_sym T]
    simp only [pos_colorAt, ← col_other, map_col_beq, sq_bne, strictlyBetween_sym, pos_board]
    congr 1
    apply congrArg
    funext x
    congr 1
    · congr 1
      rw [all_sym T]
      simp only [strictlyBetween_sym, sq_beq, pos_empty]
    · cases p.board x with
      | none => rfl
      | some z =>
        rcases z with ⟨k', c'⟩
        cases k' <;> simp only [Option.map_some, pc, aligned_sym T dirsClosed_rook, aligned_sym T dirsClosed_bishop,
          aligned_sym T dirsClosed_all]


/-! ### counting, validity, normalisation -/
theorem perm_allSq (T : Sym) : (allSq.map T.sq).Perm allSq := by
  rw [List.perm_ext_iff_of_nodup]
  · intro a
    simp only [List.mem_map, allSq, List.mem_finRange, true_and, iff_true]
    exact ⟨T.sq a, sq_sq T a⟩
  · unfold List.Nodup
    rw [List.pairwise_map]
    exact (List.nodup_finRange 64).imp (fun h e => h (T.sq_inj e))
  · exact List.nodup_finRange 64

theorem filter_length_sym (T : Sym) (g : Sq → Bool) :
    (allSq.filter fun s => g (T.sq s)).length = (allSq.filter g).length := by
  rw [← List.countP_eq_length_filter, ← List.countP_eq_length_filter]
  have := List.countP_map (p := g) (f := T.sq) (l := allSq)
  rw [(perm_allSq T).countP_eq] at this
  rw [this]; rfl

theorem count_sym (T : Sym) (p : Pos) (f f' : Piece × Color → Bool) (h : ∀ x, f' (T.pc x) = f x) :
    count (T.pos p) f' = count p f := by
  unfold count
  rw [← filter_length_sym T fun s => (p.board s).any f]
  congr 2
  funext s
  rw [pos_board']
  cases p.board (T.sq s) with
  | none => rfl
  | some x => exact h x

theorem count_king_sym (T : Sym) (p : Pos) (c : Color) :
    count (T.pos p) (· == (.king, T.col c)) = count p (· == (.king, c)) :=
  count_sym T p _ _ fun _ => beq_congr (T.pc_inj (y := (.king, c)))
theorem count_pawn_sym (T : Sym) (p : Pos) (c : Color) :
    count (T.pos p) (· == (.pawn, T.col c)) = count p (· == (.pawn, c)) :=
  count_sym T p _ _ fun _ => beq_congr (T.pc_inj (y := (.pawn, c)))
theorem count_color_sym (T : Sym) (p : Pos) (c : Color) :
    count (T.pos p) (·.2 == T.col c) = count p (·.2 == c) :=
  count_sym T p _ _ fun x => beq_congr (by simp [pc])

theorem _root_.Chess.UniqueKing.of_count {p : Pos} {c : Color} (h : count p (· == (.king, c)) ≤ 1) : UniqueKing p c := by
  intro a b ha hb
  unfold count at h
  have ma : a ∈ allSq.filter fun s => (p.board s).any (· == (Piece.king, c)) := by
    rw [List.mem_filter]; exact ⟨List.mem_finRange _, by rw [ha]; simp⟩
  have mb : b ∈ allSq.filter fun s => (p.board s).any (· == (Piece.king, c)) := by
    rw [List.mem_filter]; exact ⟨List.mem_finRange _, by rw [hb]; simp⟩
  generalize allSq.filter (fun s => (p.board s).any (· == (Piece.king, c))) = l at h ma mb
  match l, h, ma, mb with
  | [x], _, ma, mb => 
    rw [List.mem_singleton] at ma mb; rw [ma, mb]


/-- the position with the just-pushed pawn `q` put back on its start square `org` (used by `epValid`) -/
def _root_.Chess.epBack (p : Pos) (q org : Sq) : Pos :=
  { p with board := fun s => if s == org then some (.pawn, p.stm.other) else if s == q then none else p.board s }

theorem _root_.Chess.epValid_eq (p : Pos) : epValid p =
    match p.ep with
    | none => true
    | some q =>
      p.has q .pawn p.stm.other && q.rank == p.stm.other.pawnRank + 2 * p.stm.other.fwd &&
      (match sq? q.file (q.rank - p.stm.other.fwd), sq? q.file p.stm.other.pawnRank with
       | some mid, some org => p.empty mid && p.empty org && !inCheck (epBack p q org) p.stm
       | _, _ => false) := by
  unfold epValid epBack; rfl

theorem epBack_sym (T : Sym) (p : Pos) (q org : Sq) : T.pos (epBack p q org) = epBack (T.pos p) (T.sq q) (T.sq org) := by
  apply Pos.ext_pointwise
  · intro s
    have e : s = T.sq (T.sq s) := by simp
    generalize T.sq s = t at e; subst e
    rw [pos_board]
    simp only [epBack, sq_beq, pos_board, pos_stm]
    split
    · simp only [Option.map_some, pc, col_other]
    split
    · rfl
    · rfl
  · rfl
  · intro c; rfl
  · intro c; rfl
  · rfl

theorem _root_.Chess.uniqueKing_epBack {p : Pos} {c : Color} (hu : UniqueKing p c) (q org : Sq) :
    UniqueKing (epBack p q org) c := by
  have key : ∀ a, (epBack p q org).board a = some (.king, c) → p.board a = some (.king, c) := by
    intro a ha
    simp only [epBack] at ha
    split at ha
    · cases ha
    split at ha
    · cases ha
    · exact ha
  intro a b ha hb
  exact hu _ _ (key a ha) (key b hb)

theorem rank_beq_ep (T : Sym) (q : Sq) (c : Color) :
    ((T.sq q).rank == (T.col c).pawnRank + 2 * (T.col c).fwd) = (q.rank == c.pawnRank + 2 * c.fwd) := by
  rw [sq_rank, col_pawnRank, col_fwd]; rcases T with ⟨_|_, _⟩
  · rfl
  · exact beq_congr (by simp only [mr]; omega)
theorem sq?_back_sym (T : Sym) (a : Sq) (c : Color) :
    sq? (T.sq a).file ((T.sq a).rank - (T.col c).fwd) = (sq? a.file (a.rank - c.fwd)).map T.sq := by
  rw [← sq?_sym, sq_file, sq_rank, col_fwd]; congr 1
  rcases T with ⟨_|_, _⟩ <;> simp only [mr] ; omega
theorem sq?_pawnRank_sym (T : Sym) (a : Sq) (c : Color) :
    sq? (T.sq a).file (T.col c).pawnRank = (sq? a.file c.pawnRank).map T.sq := by
  rw [← sq?_sym, sq_file, col_pawnRank]

theorem epValid_sym (T : Sym) (p : Pos) (hu : UniqueKing p p.stm) : epValid (T.pos p) = epValid p := by
  rw [epValid_eq, epValid_eq, pos_ep]
  cases p.ep with
  | none => rfl
  | some q =>
    simp only [Option.map_some, pos_stm, ← col_other, pos_has, rank_beq_ep, sq?_back_sym, sq?_pawnRank_sym]
    cases sq? q.file (q.rank - p.stm.other.fwd) <;> cases h : sq? q.file p.stm.other.pawnRank <;>
      simp only [Option.map_some, Option.map_none, pos_empty]
    rename_i mid org
    rw [← pos_stm, ← epBack_sym, pos_stm, inCheck_sym T _ _ (uniqueKing_epBack hu q org)]

/-- the per-colour clause of `Valid` -/
def _root_.Chess.validSide (p : Pos) (c : Color) : Bool :=
  count p (· == (.king, c)) == 1 && count p (·.2 == c) ≤ 16 && count p (· == (.pawn, c)) ≤ 8 &&
  (!(p.castleK c) || ((homeSq c 4).any (p.has · .king c) && (homeSq c 7).any (p.has · .rook c))) &&
  (!(p.castleQ c) || ((homeSq c 4).any (p.has · .king c) && (homeSq c 0).any (p.has · .rook c)))
def _root_.Chess.pawnsOk (p : Pos) : Bool :=
  allSq.all (fun s => !(p.board s).any (·.1 == .pawn) || (s.rank != 0 && s.rank != 7))
theorem _root_.Chess.Valid_eq (p : Pos) : Valid p =
    ([Color.white, Color.black].all (validSide p) && pawnsOk p && !inCheck p p.stm.other && epValid p) := rfl

theorem any_home_sym {T : Sym} (hf : T.ff = false) (p : Pos) (c : Color) (f : Int) (k : Piece) :
    (homeSq (T.col c) f).any ((T.pos p).has · k (T.col c)) = (homeSq c f).any (p.has · k c) := by
  rw [homeSq_sym hf]
  cases homeSq c f with
  | none => rfl
  | some s => simp only [Option.map_some, Option.any_some, pos_has]

theorem validSide_sym (T : Sym) (p : Pos) (hok : T.Ok p) (c : Color) : validSide (T.pos p) (T.col c) = validSide p c := by
  unfold validSide
  rw [count_king_sym, count_color_sym, count_pawn_sym, pos_castleK, pos_castleQ, col_col]
  cases hf : T.ff with
  | false => simp only [any_home_sym hf]
  | true => simp only [(hok hf c).1, (hok hf c).2, Bool.not_false, Bool.true_or]

theorem all_colors_sym (T : Sym) (g : Color → Bool) :
    [Color.white, Color.black].all (fun c => g (T.col c)) = [Color.white, Color.black].all g := by
  rcases T with ⟨_|_, _⟩
  · rfl
  · simp only [List.all_cons, List.all_nil, col, Color.other, Bool.and_true]; exact Bool.and_comm _ _

theorem pawnsOk_sym (T : Sym) (p : Pos) : pawnsOk (T.pos p) = pawnsOk p := by
  unfold pawnsOk
  rw [all_sym T]
  congr 1; funext s
  rw [pos_board]
  congr 1
  · cases p.board s <;> rfl
  · rw [sq_rank]; rcases T with ⟨_|_, _⟩
    · rfl
    · simp only [mr]; rw [Bool.and_comm]
      congr 1 <;> exact bne_congr (by omega)

theorem _root_.Chess.uniqueKing_of_validSide {p : Pos} (h : [Color.white, Color.black].all (validSide p) = true)
    (c : Color) : UniqueKing p c := by
  simp only [List.all_cons, List.all_nil, Bool.and_true, Bool.and_eq_true] at h
  apply UniqueKing.of_count
  cases c
  · have := h.1; simp only [validSide, Bool.and_eq_true, beq_iff_eq] at this; omega
  · have := h.2; simp only [validSide, Bool.and_eq_true, beq_iff_eq] at this; omega

theorem _root_.Chess.UniqueKing.of_valid {p : Pos} (h : Valid p = true) (c : Color) : UniqueKing p c := by
  rw [Valid_eq] at h
  simp only [Bool.and_eq_true] at h
  exact uniqueKing_of_validSide h.1.1.1 c

theorem valid_sym (T : Sym) (p : Pos) (hok : T.Ok p) : Valid (T.pos p) = Valid p := by
  rw [Valid_eq, Valid_eq, ← all_colors_sym T (validSide (T.pos p))]
  simp only [validSide_sym T p hok, pawnsOk_sym]
  cases h : [Color.white, Color.black].all (validSide p) with
  | false => simp only [Bool.false_and]
  | true =>
    have hu := uniqueKing_of_validSide h
    rw [pos_stm, ← col_other, inCheck_sym T p _ (hu _), epValid_sym T p (hu _)]

def _root_.Chess.normKeep (p : Pos) (q : Sq) : Bool :=
  allSq.any (fun s => s.rank == q.rank && (s.file - q.file).natAbs == 1 && p.has s .pawn p.stm)
theorem _root_.Chess.norm_ep (p : Pos) : (norm p).ep =
    match p.ep with
    | none => none
    | some q => if normKeep p q then some q else none := rfl

theorem normKeep_sym (T : Sym) (p : Pos) (q : Sq) : normKeep (T.pos p) (T.sq q) = normKeep p q := by
  unfold normKeep
  rw [any_sym T]
  have : ∀ s : Sq, ((T.sq s).rank == (T.sq q).rank) = (s.rank == q.rank) := by
    intro s; rw [sq_rank, sq_rank]; rcases T with ⟨_|_, _⟩
    · rfl
    · exact beq_congr (by simp only [mr]; omega)
  simp only [natAbs_file_sub, pos_stm, pos_has, this]

theorem norm_sym (T : Sym) (p : Pos) : T.pos (norm p) = norm (T.pos p) := by
  apply Pos.ext_pointwise
  · intro s; rfl
  · rfl
  · intro c; rfl
  · intro c; rfl
  · rw [pos_ep, norm_ep, norm_ep, pos_ep]
    cases p.ep with
    | none => rfl
    | some q =>
      simp only [Option.map_some, normKeep_sym]
      cases normKeep p q <;> rfl


/-! ### the two symmetries of the specification file are instances -/
/-- rank reflection of a ray direction: n↔s, ne↔se, nw↔sw -/
def _root_.Chess.Dir.mirror : Dir → Dir
  | .n => .s | .ne => .se | .e => .e | .se => .ne | .s => .n | .sw => .nw | .w => .w | .nw => .sw
/-- file reflection of a ray direction: e↔w, ne↔nw, se↔sw -/
def _root_.Chess.Dir.flipFile : Dir → Dir
  | .n => .n | .ne => .nw | .e => .w | .se => .sw | .s => .s | .sw => .se | .w => .e | .nw => .ne
theorem mirror_dir (u : Dir) : u.mirror = mirror.dir u := by cases u <;> rfl
theorem flip_dir (u : Dir) : u.flipFile = flip.dir u := by cases u <;> rfl
theorem mirror_sq (s : Sq) : s.mirror = mirror.sq s := rfl
theorem flip_sq (s : Sq) : s.flipFile = flip.sq s := rfl
theorem mirror_mv (m : Move) : m.mirror = mirror.mv m := rfl
theorem flip_mv (m : Move) : m.flipFile = flip.mv m := rfl
theorem mirror_col (c : Color) : c.other = mirror.col c := rfl
theorem flip_col (c : Color) : c = flip.col c := rfl
theorem mirror_pos (p : Pos) : p.mirror = mirror.pos p := by
  apply Pos.ext_pointwise
  · intro s
    show (p.board s.mirror).map _ = (p.board s.mirror).map _
    cases p.board s.mirror with
    | none => rfl
    | some x => rcases x with ⟨k, c⟩; rfl
  · rfl
  · intro c; rfl
  · intro c; rfl
  · rfl
theorem flip_pos (p : Pos) : p.flipFiles = flip.pos p := by
  apply Pos.ext_pointwise
  · intro s
    show p.board s.flipFile = (p.board s.flipFile).map _
    cases p.board s.flipFile with
    | none => rfl
    | some x => rcases x with ⟨k, c⟩; rfl
  · rfl
  · intro c; rfl
  · intro c; rfl
  · rfl

end Sym
end Chess
