import ChessVerif.Lemmas.TryFrom
import ChessVerif.Lemmas.GeomBridge1
import ChessVerif.Model.Text
/-!
Lemmas for C07: what `Board::is_sane` / `Board::try_from` guarantee, read on the abstract position
(`Board.abs`), and the capacity bound of the move list (`MoveGen.enumerate` yields at most 18 entries).
-/
namespace Chess

/-! ### popcount as a count over the 64 squares -/

theorem BB.popcnt_eq_countP (x : BB) : x.popcnt = allSq.countP fun s => x.getLsbD s.val := by
  rw [BB.popcnt_eq_length_members, List.countP_eq_length_filter]

theorem BB.toList_length (x : BB) : x.toList.length = x.popcnt := by
  rw [BB.toList_exact, BB.popcnt_eq_length_members]

theorem countP_le_of_imp' {α : Type} (p q : α → Bool) (l : List α) (h : ∀ a ∈ l, p a = true → q a = true) :
    l.countP p ≤ l.countP q := by
  induction l with
  | nil => exact Nat.le_refl _
  | cons a as ih =>
    have ih' := ih (fun x hx => h x (List.mem_cons_of_mem _ hx))
    have ha := h a List.mem_cons_self
    rw [List.countP_cons, List.countP_cons]
    cases hp : p a with
    | false => simp only [Bool.false_eq_true, if_false]; split <;> omega
    | true => rw [ha hp]; simp only [if_true]; omega

theorem BB.popcnt_mono (x y : BB) (h : ∀ i, x.getLsbD i = true → y.getLsbD i = true) : x.popcnt ≤ y.popcnt := by
  rw [BB.popcnt_eq_countP, BB.popcnt_eq_countP]
  exact countP_le_of_imp' _ _ _ (fun s _ hs => h s.val hs)

theorem BB.popcnt_and_le_left (x y : BB) : (x &&& y).popcnt ≤ x.popcnt :=
  BB.popcnt_mono _ _ (fun i h => by rw [BitVec.getLsbD_and, Bool.and_eq_true] at h; exact h.1)

theorem BB.popcnt_and_le_right (x y : BB) : (x &&& y).popcnt ≤ y.popcnt :=
  BB.popcnt_mono _ _ (fun i h => by rw [BitVec.getLsbD_and, Bool.and_eq_true] at h; exact h.2)

theorem countP_split {α : Type} (p q : α → Bool) (l : List α) :
    l.countP (fun a => p a && !q a) + l.countP (fun a => p a && q a) = l.countP p := by
  induction l with
  | nil => rfl
  | cons a as ih =>
    simp only [List.countP_cons]
    cases p a <;> cases q a <;> simp <;> omega

/-- `popcnt (a & !m) + popcnt (a & m) = popcnt a` -/
theorem BB.popcnt_split (a m : BB) : (a &&& ~~~m).popcnt + (a &&& m).popcnt = a.popcnt := by
  rw [BB.popcnt_eq_countP, BB.popcnt_eq_countP, BB.popcnt_eq_countP, ← countP_split (fun s : Sq => a.getLsbD s.val)
    (fun s : Sq => m.getLsbD s.val)]
  congr 2
  · congr 1
    funext s
    rw [BitVec.getLsbD_and, BitVec.getLsbD_not]
    have : s.val < 64 := s.isLt
    simp [this]
  · congr 1
    funext s
    rw [BitVec.getLsbD_and]

/-- six predicates of which at most one holds at a time, each implying `q` -/
theorem countP_six {α : Type} (p1 p2 p3 p4 p5 p6 q : α → Bool) (l : List α)
    (h : ∀ a ∈ l, (p1 a).toNat + (p2 a).toNat + (p3 a).toNat + (p4 a).toNat + (p5 a).toNat + (p6 a).toNat
      ≤ (q a).toNat) :
    l.countP p1 + l.countP p2 + l.countP p3 + l.countP p4 + l.countP p5 + l.countP p6 ≤ l.countP q := by
  induction l with
  | nil => exact Nat.le_refl _
  | cons a as ih =>
    have ih' := ih (fun x hx => h x (List.mem_cons_of_mem _ hx))
    have ha := h a List.mem_cons_self
    simp only [List.countP_cons]
    revert ha
    cases p1 a <;> cases p2 a <;> cases p3 a <;> cases p4 a <;> cases p5 a <;> cases p6 a <;> cases q a <;>
      intro ha <;> simp at ha ⊢ <;> omega

/-! ### the clauses of `is_sane` -/

/-- the clauses of `Board::is_sane`, one field each -/
structure SaneFacts (T : Tables) (b : Board) : Prop where
  pieces_disj : ∀ x y : Piece, x ≠ y → b.pieces x &&& b.pieces y = 0#64
  colors_disj : b.white &&& b.black = 0#64
  union : 0#64 ||| b.pawns ||| b.knights ||| b.bishops ||| b.rooks ||| b.queens ||| b.kings = b.combined
  wking : (b.kings &&& b.white).popcnt = 1
  bking : (b.kings &&& b.black).popcnt = 1
  wmen : b.white.popcnt ≤ 16
  bmen : b.black.popcnt ≤ 16
  ep : ∀ x, b.ep = some x → b.pawns &&& b.colorCombined b.stm.other &&& BB.ofSq x ≠ 0#64
  nocheck : (Board.updatePinInfo T { b with stm := b.stm.other }).checkers = 0#64
  rooks : ∀ c, ((b.castleRights c).unmovedRooks c &&& b.rooks &&& b.colorCombined c) = (b.castleRights c).unmovedRooks c
  kinghome : ∀ c, b.castleRights c = .noRights ∨ (b.kings &&& b.colorCombined c) = (T.files 4 &&& T.ranks c.backrank)
  kings_apart : T.king (b.kingSquare .white) &&& b.kings = 0#64

theorem isSane_facts {T : Tables} {b : Board} (h : b.isSane T = true) : SaneFacts T b := by
  unfold Board.isSane at h
  simp only [Bool.and_eq_true] at h
  obtain ⟨⟨⟨⟨⟨⟨⟨⟨⟨h1, h2⟩, h3⟩, h4⟩, h5⟩, h6⟩, h7⟩, h8⟩, h9⟩, h10⟩ := h
  refine ⟨?_, eq_of_beq h2, eq_of_beq h3, eq_of_beq h4, eq_of_beq h5, ?_, ?_, ?_, eq_of_beq h8, ?_, ?_, eq_of_beq h10⟩
  · intro x y hxy
    rw [List.all_eq_true] at h1
    have := h1 x (by cases x <;> decide)
    rw [List.all_eq_true] at this
    have := this y (by cases y <;> decide)
    simpa [hxy] using this
  · simp at h6; omega
  · simp at h6; omega
  · intro x hx
    rw [hx] at h7
    simpa using h7
  · intro c
    rw [List.all_eq_true] at h9
    have := h9 c (by cases c <;> decide)
    simp only [Bool.and_eq_true] at this
    exact eq_of_beq this.1
  · intro c
    rw [List.all_eq_true] at h9
    have := h9 c (by cases c <;> decide)
    simp only [Bool.and_eq_true, Bool.or_eq_true] at this
    rcases this.2 with h | h
    · exact Or.inl (eq_of_beq h)
    · exact Or.inr (eq_of_beq h)

/-! ### `is_sane` and `Struct` -/

theorem and_eq_zero_bit {x y : BB} (h : x &&& y = 0#64) (i : Nat) (hx : x.getLsbD i = true) : y.getLsbD i = false := by
  have : (x &&& y).getLsbD i = false := by rw [h]; exact BitVec.getLsbD_zero
  rw [BitVec.getLsbD_and, hx, Bool.true_and] at this
  exact this

/-- `Struct` from equalities between the bitboards -/
theorem Struct.of_eqs {b : Board} (h1 : ∀ x y : Piece, x ≠ y → b.pieces x &&& b.pieces y = 0#64)
    (h2 : b.white &&& b.black = 0#64)
    (h3 : 0#64 ||| b.pawns ||| b.knights ||| b.bishops ||| b.rooks ||| b.queens ||| b.kings = b.combined)
    (hc : ∀ i, b.combined.getLsbD i = (b.white.getLsbD i || b.black.getLsbD i)) : Struct b where
  piece_disj := fun i x y hxy hx => and_eq_zero_bit (h1 x y hxy) i hx
  color_disj := fun i hw => and_eq_zero_bit h2 i hw
  comb_color := hc
  comb_piece := by
    intro i
    rw [← h3]
    simp only [BitVec.getLsbD_or, BitVec.getLsbD_zero, Bool.false_or, Bool.or_eq_true]
    constructor
    · rintro (((((hp | hp) | hp) | hp) | hp) | hp)
      · exact ⟨.pawn, hp⟩
      · exact ⟨.knight, hp⟩
      · exact ⟨.bishop, hp⟩
      · exact ⟨.rook, hp⟩
      · exact ⟨.queen, hp⟩
      · exact ⟨.king, hp⟩
    · rintro ⟨p, hp⟩
      cases p <;> simp only [Board.pbit, Board.pieces] at hp <;> simp [hp]

theorem Struct.of_eqs' {b : Board} (h1 : ∀ x y : Piece, x ≠ y → b.pieces x &&& b.pieces y = 0#64)
    (h2 : b.white &&& b.black = 0#64)
    (h3 : 0#64 ||| b.pawns ||| b.knights ||| b.bishops ||| b.rooks ||| b.queens ||| b.kings = b.combined)
    (hc : b.white ||| b.black = b.combined) : Struct b :=
  Struct.of_eqs h1 h2 h3 (fun i => by rw [← hc, BitVec.getLsbD_or])

/-- `is_sane` checks three of the four `Struct` clauses; it does **not** check `white | black = combined` -/
theorem SaneFacts.struct_of_comb_color {T : Tables} {b : Board} (h : SaneFacts T b)
    (hc : ∀ i, b.combined.getLsbD i = (b.white.getLsbD i || b.black.getLsbD i)) : Struct b :=
  Struct.of_eqs h.pieces_disj h.colors_disj h.union hc

theorem isSane_struct_of_comb_color {T : Tables} {b : Board} (h : b.isSane T = true)
    (hc : ∀ i, b.combined.getLsbD i = (b.white.getLsbD i || b.black.getLsbD i)) : Struct b :=
  (isSane_facts h).struct_of_comb_color hc

/-- every board accepted by `try_from` satisfies the structural invariant (all four clauses: the colour
clause holds by construction of the placement loop, not through `is_sane`) -/
theorem tryFrom_struct {T : Tables} {bd : Builder} {b : Board} (h : Board.tryFrom T bd = some b) : Struct b :=
  (tryFrom_spec T bd b h).1.toStruct

theorem tryFrom_isSane {T : Tables} {bd : Builder} {b : Board} (h : Board.tryFrom T bd = some b) :
    b.isSane T = true := (tryFrom_spec T bd b h).2.2.2.2.2.2.2

theorem tryFrom_facts {T : Tables} {bd : Builder} {b : Board} (h : Board.tryFrom T bd = some b) :
    SaneFacts T b := isSane_facts (tryFrom_isSane h)

/-! ### counting men on the abstract position -/

theorem Struct.any_piece_color {b : Board} (h : Struct b) (s : Sq) (p : Piece) (c : Color) :
    (b.content s).any (· == (p, c)) = (b.pieces p &&& b.colorCombined c).getLsbD s.val := by
  rw [BitVec.getLsbD_and, Bool.eq_iff_iff, Bool.and_eq_true]
  rw [← Board.pbit, ← Board.cbit, ← h.content_some_iff]
  cases hc : b.content s with
  | none => simp
  | some pc => simp

theorem Struct.any_color {b : Board} (h : Struct b) (s : Sq) (c : Color) :
    (b.content s).any (·.2 == c) = (b.colorCombined c).getLsbD s.val := by
  rw [Bool.eq_iff_iff]
  constructor
  · intro ha
    cases hc : b.content s with
    | none => rw [hc] at ha; cases ha
    | some pc =>
      obtain ⟨p, d⟩ := pc
      rw [hc] at ha
      simp only [Option.any_some, beq_iff_eq] at ha
      subst ha
      exact ((h.content_some_iff s p d).mp hc).2
  · intro hb
    have hcomb : b.combined.getLsbD s.val = true := by
      rw [h.comb_color]
      cases c
      · have : b.white.getLsbD s.val = true := hb
        rw [this]; rfl
      · have : b.black.getLsbD s.val = true := hb
        rw [this, Bool.or_true]
    obtain ⟨p, hp⟩ := (h.comb_piece s.val).mp hcomb
    rw [(h.content_some_iff s p c).mpr ⟨hp, hb⟩]
    simp

theorem Struct.count_piece_color {b : Board} (h : Struct b) (p : Piece) (c : Color) :
    count b.abs (· == (p, c)) = (b.pieces p &&& b.colorCombined c).popcnt := by
  unfold count
  rw [BB.popcnt_eq_length_members, abs_board]
  congr 1
  apply BB.filter_congr_mem
  intro s _
  exact h.any_piece_color s p c

theorem Struct.count_color {b : Board} (h : Struct b) (c : Color) :
    count b.abs (·.2 == c) = (b.colorCombined c).popcnt := by
  unfold count
  rw [BB.popcnt_eq_length_members, abs_board]
  congr 1
  apply BB.filter_congr_mem
  intro s _
  exact h.any_color s c

/-! ### castling rights are backed by king and rook -/

theorem Struct.has_iff {b : Board} (h : Struct b) (s : Sq) (p : Piece) (c : Color) :
    b.abs.has s p c = true ↔ (b.pieces p &&& b.colorCombined c).getLsbD s.val = true := by
  unfold Pos.has
  rw [abs_board, beq_iff_eq, h.content_some_iff, BitVec.getLsbD_and, Bool.and_eq_true]

theorem mkSq_ne_of_file {r : Fin 8} {f g : Fin 8} (h : f ≠ g) : (mkSq r f).val ≠ (mkSq r g).val := by
  unfold mkSq
  intro he
  apply h
  apply Fin.ext
  simp only at he
  omega

theorem unmovedRooks_bit_ks (cr : CastleRights) (c : Color) (h : cr.ks = true) :
    (cr.unmovedRooks c).getLsbD (mkSq c.backrank 7).val = true := by
  unfold CastleRights.unmovedRooks BB.set
  rw [h]
  cases cr.qs
  · exact BB.getLsbD_ofSq_self _
  · simp only
    rw [BitVec.getLsbD_xor, BB.getLsbD_ofSq_self, BB.getLsbD_ofSq,
      decide_eq_false (mkSq_ne_of_file (by decide))]
    rfl

theorem unmovedRooks_bit_qs (cr : CastleRights) (c : Color) (h : cr.qs = true) :
    (cr.unmovedRooks c).getLsbD (mkSq c.backrank 0).val = true := by
  unfold CastleRights.unmovedRooks BB.set
  rw [h]
  cases cr.ks
  · exact BB.getLsbD_ofSq_self _
  · simp only
    rw [BitVec.getLsbD_xor, BB.getLsbD_ofSq_self, BB.getLsbD_ofSq,
      decide_eq_false (mkSq_ne_of_file (by decide))]
    rfl

theorem and_eq_self_bit {u x : BB} (h : u &&& x = u) (i : Nat) (hu : u.getLsbD i = true) : x.getLsbD i = true := by
  have : (u &&& x).getLsbD i = true := by rw [h]; exact hu
  rw [BitVec.getLsbD_and, Bool.and_eq_true] at this
  exact this.2

/-- a rook of colour `c` stands on the home square of every right `c` still has (no table involved) -/
theorem SaneFacts.rook_home {T : Tables} {b : Board} (hf : SaneFacts T b) (hs : Struct b) (c : Color) :
    ((b.castleRights c).ks = true → b.abs.has (mkSq c.backrank 7) .rook c = true) ∧
    ((b.castleRights c).qs = true → b.abs.has (mkSq c.backrank 0) .rook c = true) := by
  have hr := hf.rooks c
  rw [BitVec.and_assoc] at hr
  constructor
  · intro h
    rw [hs.has_iff]
    exact and_eq_self_bit hr _ (unmovedRooks_bit_ks _ c h)
  · intro h
    rw [hs.has_iff]
    exact and_eq_self_bit hr _ (unmovedRooks_bit_qs _ c h)

theorem mkSq_fileN (r f : Fin 8) : (mkSq r f).fileN = f.val := by
  unfold mkSq Sq.fileN; simp only; omega
theorem mkSq_rankN (r f : Fin 8) : (mkSq r f).rankN = r.val := by
  unfold mkSq Sq.rankN; simp only; omega
theorem mkSq_getRank (r f : Fin 8) : (mkSq r f).getRank = r := by
  apply Fin.ext; unfold mkSq Sq.getRank; simp only; omega
theorem mkSq_getFile (r f : Fin 8) : (mkSq r f).getFile = f := by
  apply Fin.ext; unfold mkSq Sq.getFile; simp only; omega

/-- with correct `FILES` / `RANKS` tables the king of a side that has any right stands on its home square -/
theorem SaneFacts.king_home {T : Tables} (hT : TablesOK T) {b : Board} (hf : SaneFacts T b) (hs : Struct b)
    (c : Color) (h : (b.castleRights c).ks = true ∨ (b.castleRights c).qs = true) :
    b.abs.has (mkSq c.backrank 4) .king c = true := by
  rw [hs.has_iff]
  rcases hf.kinghome c with hn | hk
  · rw [hn] at h
    rcases h with h | h <;> cases h
  · show (b.kings &&& b.colorCombined c).getLsbD _ = true
    rw [hk, hT.files, hT.ranks, BitVec.getLsbD_and, mem_files, mem_ranks, mkSq_fileN, mkSq_rankN]
    simp

theorem homeSq_king (c : Color) : homeSq c 4 = some (mkSq c.backrank 4) := by cases c <;> rfl
theorem homeSq_rook_h (c : Color) : homeSq c 7 = some (mkSq c.backrank 7) := by cases c <;> rfl
theorem homeSq_rook_a (c : Color) : homeSq c 0 = some (mkSq c.backrank 0) := by cases c <;> rfl

/-! ### the recorded en-passant square -/

theorem SaneFacts.ep_pawn {T : Tables} {b : Board} (hf : SaneFacts T b) (hs : Struct b) (q : Sq)
    (h : b.ep = some q) : b.abs.has q .pawn b.stm.other = true := by
  rw [hs.has_iff]
  exact (and_ofSq_ne_zero_iff _ _).mp (hf.ep q h)

/-- `try_from` only ever proposes the square on the fourth rank of the side that just moved -/
theorem tryFrom_ep_rank {T : Tables} {bd : Builder} {b : Board} (h : Board.tryFrom T bd = some b) (q : Sq)
    (hq : b.ep = some q) : q.getRank = b.stm.other.fourthRank ∧ bd.epFile = some q.getFile := by
  obtain ⟨_, _, hstm, _, _, hep, _⟩ := tryFrom_spec T bd b h
  rw [hep] at hq
  unfold Builder.getEnPassant at hq
  cases hf : bd.epFile with
  | none => rw [hf] at hq; cases hq
  | some f =>
    rw [hf] at hq
    simp only [Option.map_some] at hq
    split at hq
    · injection hq with hq
      subst hq
      rw [mkSq_getRank, mkSq_getFile, hstm]
      exact ⟨rfl, rfl⟩
    · cases hq

/-! ### capacity of the move list -/

set_option maxRecDepth 100000 in
/-- at most two squares of one rank lie on the files adjacent to a given file -/
theorem rank_adj_popcnt : ∀ r f : Fin 8, (Geom.ranks r &&& Geom.adjFiles f).popcnt ≤ 2 := by decide +kernel

/-- the source set of the en-passant loop has at most two squares (needs the real `RANKS`/`ADJACENT_FILES`) -/
theorem epSources_popcnt {T : Tables} (hT : TablesOK T) (r f : Fin 8) (pcs : BB) :
    (T.ranks r &&& T.adjFiles f &&& pcs).popcnt ≤ 2 := by
  rw [hT.ranks, hT.adjFiles]
  exact Nat.le_trans (BB.popcnt_and_le_left _ _) (rank_adj_popcnt r f)

/-- the men of one colour, split by kind -/
theorem Struct.kinds_popcnt_le {b : Board} (h : Struct b) (c : Color) :
    (b.pawns &&& b.colorCombined c).popcnt + (b.knights &&& b.colorCombined c).popcnt +
    (b.bishops &&& b.colorCombined c).popcnt + (b.rooks &&& b.colorCombined c).popcnt +
    (b.queens &&& b.colorCombined c).popcnt + (b.kings &&& b.colorCombined c).popcnt ≤ (b.colorCombined c).popcnt := by
  simp only [BB.popcnt_eq_countP]
  apply countP_six
  intro s _
  simp only [BitVec.getLsbD_and]
  have d := h.piece_disj s.val
  have d1 := d .pawn .knight (by decide); have d2 := d .pawn .bishop (by decide)
  have d3 := d .pawn .rook (by decide); have d4 := d .pawn .queen (by decide)
  have d5 := d .pawn .king (by decide); have d6 := d .knight .bishop (by decide)
  have d7 := d .knight .rook (by decide); have d8 := d .knight .queen (by decide)
  have d9 := d .knight .king (by decide); have d10 := d .bishop .rook (by decide)
  have d11 := d .bishop .queen (by decide); have d12 := d .bishop .king (by decide)
  have d13 := d .rook .queen (by decide); have d14 := d .rook .king (by decide)
  have d15 := d .queen .king (by decide)
  simp only [Board.pbit, Board.pieces] at d1 d2 d3 d4 d5 d6 d7 d8 d9 d10 d11 d12 d13 d14 d15
  revert d1 d2 d3 d4 d5 d6 d7 d8 d9 d10 d11 d12 d13 d14 d15
  cases (b.colorCombined c).getLsbD s.val <;> cases b.pawns.getLsbD s.val <;> cases b.knights.getLsbD s.val <;>
    cases b.bishops.getLsbD s.val <;> cases b.rooks.getLsbD s.val <;> cases b.queens.getLsbD s.val <;>
    cases b.kings.getLsbD s.val <;> simp

namespace MoveGen

theorem pushIf_length_le (l : List Entry) (e : Entry) : (pushIf l e).length ≤ l.length + 1 := by
  unfold pushIf
  split
  · rw [List.length_append]; exact Nat.le_refl _
  · exact Nat.le_succ _

/-- a loop that appends at most one entry per iteration -/
theorem foldl_length_le {α : Type} (f : List Entry → α → List Entry)
    (hf : ∀ l a, (f l a).length ≤ l.length + 1) (xs : List α) :
    ∀ l, (xs.foldl f l).length ≤ l.length + xs.length := by
  induction xs with
  | nil => intro l; exact Nat.le_refl _
  | cons a as ih =>
    intro l
    rw [List.foldl_cons, List.length_cons]
    have h1 := ih (f l a)
    have h2 := hf l a
    omega

/-- a loop over the squares of a bitboard that appends at most one entry per square -/
theorem foldl_toList_length_le (f : List Entry → Sq → List Entry)
    (hf : ∀ l a, (f l a).length ≤ l.length + 1) (x : BB) (l : List Entry) :
    (x.toList.foldl f l).length ≤ l.length + x.popcnt := by
  rw [← BB.toList_length]
  exact foldl_length_le f hf _ l

theorem legalsGeneric_length (T : Tables) (p : Piece) (ic : Bool) (l : List Entry) (b : Board) (mask : BB) :
    (legalsGeneric T p ic l b mask).length ≤ l.length + (b.pieces p &&& b.colorCombined b.stm).popcnt := by
  unfold legalsGeneric
  simp only []
  have hsplit := BB.popcnt_split (b.pieces p &&& b.colorCombined b.stm) b.pinned
  split
  · refine Nat.le_trans (foldl_toList_length_le _ (fun l a => pushIf_length_le _ _) _ _) ?_
    have h1 := foldl_toList_length_le (fun l src =>
      pushIf l ⟨src, pseudoLegals T p src b.stm b.combined mask &&& checkMask T b ic, false⟩)
      (fun l a => pushIf_length_le _ _) ((b.pieces p &&& b.colorCombined b.stm) &&& ~~~b.pinned) l
    omega
  · refine Nat.le_trans (foldl_toList_length_le _ (fun l a => pushIf_length_le _ _) _ _) ?_
    omega

theorem legalsKnight_length (T : Tables) (ic : Bool) (l : List Entry) (b : Board) (mask : BB) :
    (legalsKnight T ic l b mask).length ≤ l.length + (b.knights &&& b.colorCombined b.stm).popcnt := by
  unfold legalsKnight
  simp only []
  have hle := BB.popcnt_and_le_left (b.knights &&& b.colorCombined b.stm) (~~~b.pinned)
  split <;>
  · refine Nat.le_trans (foldl_toList_length_le _ (fun l a => pushIf_length_le _ _) _ _) ?_
    omega

theorem legalsKing_length (T : Tables) (ic : Bool) (l : List Entry) (b : Board) (mask : BB) :
    (legalsKing T ic l b mask).length ≤ l.length + 1 := by
  unfold legalsKing
  exact pushIf_length_le _ _

/-- the pawn loops: one entry per unpinned pawn, one per pinned pawn, and one per en-passant source -/
theorem legalsPawn_length_ep (T : Tables) (ic : Bool) (l : List Entry) (b : Board) (mask : BB) :
    (legalsPawn T ic l b mask).length ≤ l.length + (b.pawns &&& b.colorCombined b.stm).popcnt +
      (match b.ep with
       | none => 0
       | some e => (T.ranks e.getRank &&& T.adjFiles e.getFile &&& (b.pawns &&& b.colorCombined b.stm)).popcnt) := by
  unfold legalsPawn
  simp only []
  have hsplit := BB.popcnt_split (b.pawns &&& b.colorCombined b.stm) b.pinned
  have h1 := foldl_toList_length_le (fun l src =>
      pushIf l ⟨src, pseudoLegals T .pawn src b.stm b.combined mask &&& checkMask T b ic,
        src.getRank = b.stm.seventhRank⟩)
      (fun l a => pushIf_length_le _ _) ((b.pawns &&& b.colorCombined b.stm) &&& ~~~b.pinned) l
  have h2 : (if (!ic) = true then
      ((b.pawns &&& b.colorCombined b.stm) &&& b.pinned).toList.foldl (fun l src =>
        pushIf l ⟨src, pseudoLegals T .pawn src b.stm b.combined mask &&& T.line (b.kingSquare b.stm) src,
          src.getRank = b.stm.seventhRank⟩)
        (((b.pawns &&& b.colorCombined b.stm) &&& ~~~b.pinned).toList.foldl (fun l src =>
          pushIf l ⟨src, pseudoLegals T .pawn src b.stm b.combined mask &&& checkMask T b ic,
            src.getRank = b.stm.seventhRank⟩) l)
      else (((b.pawns &&& b.colorCombined b.stm) &&& ~~~b.pinned).toList.foldl (fun l src =>
          pushIf l ⟨src, pseudoLegals T .pawn src b.stm b.combined mask &&& checkMask T b ic,
            src.getRank = b.stm.seventhRank⟩) l)).length ≤
      l.length + (b.pawns &&& b.colorCombined b.stm).popcnt := by
    split
    · refine Nat.le_trans (foldl_toList_length_le _ (fun l a => pushIf_length_le _ _) _ _) ?_
      omega
    · omega
  cases b.ep with
  | none => exact h2
  | some e =>
    simp only []
    refine Nat.le_trans (foldl_toList_length_le _ ?_ _ _) ?_
    · intro l a
      split
      · rw [List.length_append]; exact Nat.le_refl _
      · exact Nat.le_succ _
    · omega

theorem legalsPawn_length {T : Tables} (hT : TablesOK T) (ic : Bool) (l : List Entry) (b : Board) (mask : BB) :
    (legalsPawn T ic l b mask).length ≤ l.length + (b.pawns &&& b.colorCombined b.stm).popcnt + 2 := by
  refine Nat.le_trans (legalsPawn_length_ep T ic l b mask) ?_
  cases b.ep with
  | none => exact Nat.le_add_right _ _
  | some e => exact Nat.add_le_add_left (epSources_popcnt hT _ _ _) _

/-- **capacity**: a board with disjoint piece boards, at most 16 men of the side to move, one of them a
king, fills at most 18 slots of the move list -/
theorem enumerate_length {T : Tables} (hT : TablesOK T) {b : Board} (hs : Struct b)
    (hmen : (b.colorCombined b.stm).popcnt ≤ 16) (hk : 1 ≤ (b.kings &&& b.colorCombined b.stm).popcnt) :
    (enumerate T b).length ≤ 18 := by
  have hsum := hs.kinds_popcnt_le b.stm
  have hg : ∀ (ic : Bool),
      (legalsKing T ic (legalsGeneric T .queen ic (legalsGeneric T .rook ic (legalsGeneric T .bishop ic
        (legalsKnight T ic (legalsPawn T ic [] b (~~~(b.colorCombined b.stm))) b (~~~(b.colorCombined b.stm)))
          b (~~~(b.colorCombined b.stm))) b (~~~(b.colorCombined b.stm))) b (~~~(b.colorCombined b.stm)))
          b (~~~(b.colorCombined b.stm))).length ≤ 18 := by
    intro ic
    have h1 := legalsPawn_length hT ic [] b (~~~(b.colorCombined b.stm))
    generalize legalsPawn T ic [] b (~~~(b.colorCombined b.stm)) = l1 at h1 ⊢
    have h2 := legalsKnight_length T ic l1 b (~~~(b.colorCombined b.stm))
    generalize legalsKnight T ic l1 b (~~~(b.colorCombined b.stm)) = l2 at h2 ⊢
    have h3 := legalsGeneric_length T .bishop ic l2 b (~~~(b.colorCombined b.stm))
    generalize legalsGeneric T .bishop ic l2 b (~~~(b.colorCombined b.stm)) = l3 at h3 ⊢
    have h4 := legalsGeneric_length T .rook ic l3 b (~~~(b.colorCombined b.stm))
    generalize legalsGeneric T .rook ic l3 b (~~~(b.colorCombined b.stm)) = l4 at h4 ⊢
    have h5 := legalsGeneric_length T .queen ic l4 b (~~~(b.colorCombined b.stm))
    generalize legalsGeneric T .queen ic l4 b (~~~(b.colorCombined b.stm)) = l5 at h5 ⊢
    have h6 := legalsKing_length T ic l5 b (~~~(b.colorCombined b.stm))
    simp only [Board.pieces, List.length_nil] at h1 h2 h3 h4 h5 h6
    omega
  unfold enumerate
  simp only []
  split
  · exact hg false
  · split
    · exact hg true
    · exact Nat.le_trans (legalsKing_length T true [] b _) (by decide)

end MoveGen

/-! ### text entry point, and the `unwrap` inside the en-passant test -/

theorem parseBoard_ne_panic (T : Tables) (s : List Char) (h : parseBuilder s ≠ .panic) : parseBoard T s ≠ .panic := by
  unfold parseBoard
  cases hb : parseBuilder s with
  | err => simp
  | panic => exact absurd hb h
  | ok bd =>
    simp only
    cases Board.tryFrom T bd <;> simp

theorem parseBoard_ok_iff (T : Tables) (s : List Char) (b : Board) :
    parseBoard T s = .ok b ↔ ∃ bd, parseBuilder s = .ok bd ∧ Board.tryFrom T bd = some b := by
  unfold parseBoard
  cases hb : parseBuilder s with
  | err => simp
  | panic => simp
  | ok bd =>
    simp only
    cases ht : Board.tryFrom T bd with
    | none => simp [ht]
    | some b' => simp [ht]

theorem legalEpMove_isSome (T : Tables) (b : Board) (s d : Sq) (h : b.ep.isSome = true) :
    (MoveGen.legalEpMove T b s d).isSome = true := by
  unfold MoveGen.legalEpMove
  cases hep : b.ep with
  | none => rw [hep] at h; cases h
  | some e =>
    simp only
    split
    · rfl
    · split <;> rfl

/-- the model's fourth rank is the Spec's "double-push rank" -/
theorem fourthRank_spec (c : Color) (q : Sq) (h : q.getRank = c.fourthRank) : q.rank = c.pawnRank + 2 * c.fwd := by
  have hv : q.getRank.val = c.fourthRank.val := by rw [h]
  unfold Sq.getRank at hv
  unfold Sq.rank
  cases c <;> simp only [Color.fourthRank, Color.pawnRank, Color.homeRank, Color.fwd] at hv ⊢ <;> omega

/-! ### the converse: `is_sane` from its clauses -/

theorem isSane_of_facts {T : Tables} {b : Board} (hf : SaneFacts T b) : b.isSane T = true := by
  unfold Board.isSane
  simp only [Bool.and_eq_true]
  refine ⟨⟨⟨⟨⟨⟨⟨⟨⟨?_, ?_⟩, ?_⟩, ?_⟩, ?_⟩, ?_⟩, ?_⟩, ?_⟩, ?_⟩, ?_⟩
  · rw [List.all_eq_true]
    intro x _
    rw [List.all_eq_true]
    intro y _
    by_cases hxy : x = y
    · simp [hxy]
    · simp [hf.pieces_disj x y hxy]
  · rw [beq_iff_eq]; exact hf.colors_disj
  · rw [beq_iff_eq]; exact hf.union
  · rw [beq_iff_eq]; exact hf.wking
  · rw [beq_iff_eq]; exact hf.bking
  · have h1 := hf.wmen
    have h2 := hf.bmen
    simp only [gt_iff_lt, Bool.not_eq_true', Bool.or_eq_false_iff, decide_eq_false_iff_not]
    omega
  · cases hep : b.ep with
    | none => rfl
    | some x =>
      simp only [bne_iff_ne]
      exact hf.ep x hep
  · rw [beq_iff_eq]; exact hf.nocheck
  · rw [List.all_eq_true]
    intro c _
    simp only [Bool.and_eq_true, Bool.or_eq_true, beq_iff_eq]
    exact ⟨hf.rooks c, hf.kinghome c⟩
  · rw [beq_iff_eq]; exact hf.kings_apart

theorem isSane_iff_facts {T : Tables} {b : Board} : b.isSane T = true ↔ SaneFacts T b :=
  ⟨isSane_facts, isSane_of_facts⟩

/-! ### completeness of acceptance, modulo the check-detection clauses -/

theorem Struct.pieces_and_eq_zero {b : Board} (h : Struct b) (x y : Piece) (hxy : x ≠ y) :
    b.pieces x &&& b.pieces y = 0#64 := by
  apply BitVec.eq_of_getLsbD_eq
  intro i _
  rw [BitVec.getLsbD_and, BitVec.getLsbD_zero]
  cases hx : (b.pieces x).getLsbD i with
  | false => rfl
  | true => rw [Bool.true_and]; exact h.piece_disj i x y hxy hx

theorem Struct.colors_and_eq_zero {b : Board} (h : Struct b) : b.white &&& b.black = 0#64 := by
  apply BitVec.eq_of_getLsbD_eq
  intro i _
  rw [BitVec.getLsbD_and, BitVec.getLsbD_zero]
  cases hx : b.white.getLsbD i with
  | false => rfl
  | true => rw [Bool.true_and]; exact h.color_disj i hx

theorem Struct.union_eq {b : Board} (h : Struct b) :
    0#64 ||| b.pawns ||| b.knights ||| b.bishops ||| b.rooks ||| b.queens ||| b.kings = b.combined := by
  apply BitVec.eq_of_getLsbD_eq
  intro i _
  rw [Bool.eq_iff_iff, h.comb_piece]
  simp only [BitVec.getLsbD_or, BitVec.getLsbD_zero, Bool.false_or, Bool.or_eq_true]
  constructor
  · rintro (((((hp | hp) | hp) | hp) | hp) | hp)
    · exact ⟨.pawn, hp⟩
    · exact ⟨.knight, hp⟩
    · exact ⟨.bishop, hp⟩
    · exact ⟨.rook, hp⟩
    · exact ⟨.queen, hp⟩
    · exact ⟨.king, hp⟩
  · rintro ⟨p, hp⟩
    cases p <;> simp only [Board.pbit, Board.pieces] at hp <;> simp [hp]

theorem unmovedRooks_bit_imp (cr : CastleRights) (c : Color) (i : Nat) (h : (cr.unmovedRooks c).getLsbD i = true) :
    (cr.ks = true ∧ i = (mkSq c.backrank 7).val) ∨ (cr.qs = true ∧ i = (mkSq c.backrank 0).val) := by
  unfold CastleRights.unmovedRooks BB.set at h
  cases hk : cr.ks <;> cases hq : cr.qs <;> rw [hk, hq] at h <;> simp only at h
  · rw [BitVec.getLsbD_zero] at h; cases h
  · rw [BB.getLsbD_ofSq] at h; exact .inr ⟨rfl, of_decide_eq_true h⟩
  · rw [BB.getLsbD_ofSq] at h; exact .inl ⟨rfl, of_decide_eq_true h⟩
  · rw [BitVec.getLsbD_xor, BB.getLsbD_ofSq, BB.getLsbD_ofSq] at h
    by_cases h0 : i = (mkSq c.backrank 0).val
    · exact .inr ⟨rfl, h0⟩
    · rw [decide_eq_false h0, Bool.false_xor] at h
      exact .inl ⟨rfl, of_decide_eq_true h⟩

theorem and_eq_self_of_bits {u x : BB} (h : ∀ i, u.getLsbD i = true → x.getLsbD i = true) : u &&& x = u := by
  apply BitVec.eq_of_getLsbD_eq
  intro i _
  rw [BitVec.getLsbD_and]
  cases hu : u.getLsbD i with
  | false => rfl
  | true => rw [h i hu]; rfl

/-- a one-element bitboard is the single-square board of any of its members -/
theorem eq_ofSq_of_popcnt_one {x : BB} (h : x.popcnt = 1) (s : Sq) (hs : x.getLsbD s.val = true) : x = BB.ofSq s := by
  have e := BB.ofSq_toSq x h
  rw [← e] at hs
  rw [BB.getLsbD_ofSq] at hs
  have : s = x.toSq := Fin.ext (of_decide_eq_true hs)
  rw [this, e]

theorem files_and_ranks {T : Tables} (hT : TablesOK T) (r : Fin 8) :
    T.files 4 &&& T.ranks r = BB.ofSq (mkSq r 4) := by
  apply BitVec.eq_of_getLsbD_eq
  intro i hi
  have := mem_files 4 ⟨i, hi⟩
  have h2 := mem_ranks r ⟨i, hi⟩
  simp only at this h2
  rw [hT.files, hT.ranks, BitVec.getLsbD_and, this, h2, BB.getLsbD_ofSq, Bool.eq_iff_iff]
  rw [Bool.and_eq_true, beq_iff_eq, beq_iff_eq, decide_eq_true_eq]
  show i % 8 = 4 ∧ i / 8 = r.val ↔ i = r.val * 8 + 4
  have := r.isLt
  omega

/-- the two clauses of `is_sane` that concern check detection: what remains to be linked to the rules -/
def CheckClauses (T : Tables) (b : Board) : Prop :=
  (Board.updatePinInfo T { b with stm := b.stm.other }).checkers = 0#64 ∧
  T.king (b.kingSquare .white) &&& b.kings = 0#64

theorem count_congr {p q : Pos} (h : p.board = q.board) (f : Piece × Color → Bool) : count p f = count q f := by
  unfold count; rw [h]

/-- the clauses of `Valid` used for acceptance -/
theorem Valid_clauses {p : Pos} (h : Valid p = true) :
    (∀ c, count p (· == (.king, c)) = 1 ∧ count p (·.2 == c) ≤ 16 ∧
      (p.castleK c = true → (homeSq c 4).any (p.has · .king c) = true ∧ (homeSq c 7).any (p.has · .rook c) = true) ∧
      (p.castleQ c = true → (homeSq c 4).any (p.has · .king c) = true ∧ (homeSq c 0).any (p.has · .rook c) = true)) ∧
    (∀ q, p.ep = some q → p.has q .pawn p.stm.other = true ∧ q.rank = p.stm.other.pawnRank + 2 * p.stm.other.fwd) := by
  unfold Valid at h
  simp only [Bool.and_eq_true, List.all_eq_true] at h
  obtain ⟨⟨⟨h1, _⟩, _⟩, h4⟩ := h
  constructor
  · intro c
    have := h1 c (by cases c <;> simp)
    simp only [Bool.and_eq_true, beq_iff_eq, decide_eq_true_eq, Bool.or_eq_true, Bool.not_eq_true'] at this
    obtain ⟨⟨⟨⟨a1, a2⟩, _⟩, a4⟩, a5⟩ := this
    refine ⟨a1, a2, ?_, ?_⟩
    · intro hk
      rcases a4 with a4 | a4
      · rw [hk] at a4; cases a4
      · exact a4
    · intro hq
      rcases a5 with a5 | a5
      · rw [hq] at a5; cases a5
      · exact a5
  · intro q hq
    unfold epValid at h4
    rw [hq] at h4
    simp only [Bool.and_eq_true, beq_iff_eq] at h4
    exact ⟨h4.1.1, h4.1.2⟩

theorem Valid_not_inCheck {p : Pos} (h : Valid p = true) : inCheck p p.stm.other = false := by
  unfold Valid at h
  simp only [Bool.and_eq_true, Bool.not_eq_true'] at h
  exact h.1.2

/-- with a valid position in the builder, the candidate board has exactly one king of each colour -/
theorem tryFromPre_king_of_valid (T : Tables) {p : Pos} (hv : Valid p = true) (c : Color) :
    ((tryFromPre T p.toBuilder).kings &&& (tryFromPre T p.toBuilder).colorCombined c).popcnt = 1 := by
  obtain ⟨V, _⟩ := Valid_clauses hv
  obtain ⟨hcore, hcont, _⟩ := tryFromPre_spec T p.toBuilder
  have hcont' : (tryFromPre T p.toBuilder).content = p.board := hcont
  have habs : (tryFromPre T p.toBuilder).abs.board = p.board := by rw [abs_board]; exact hcont'
  have := hcore.toStruct.count_piece_color .king c
  rw [count_congr habs] at this
  exact this.symm.trans (V c).1

theorem fourthRank_of_spec (c : Color) (q : Sq) (h : q.rank = c.pawnRank + 2 * c.fwd) : q.getRank = c.fourthRank := by
  apply Fin.ext
  unfold Sq.rank at h
  unfold Sq.getRank
  cases c <;> simp only [Color.fourthRank, Color.pawnRank, Color.homeRank, Color.fwd] at h ⊢ <;> omega

theorem sane_mkSq_getRank_getFile (q : Sq) : mkSq q.getRank q.getFile = q := by
  apply Fin.ext
  unfold mkSq Sq.getRank Sq.getFile
  simp only
  omega

theorem sane_ne_zero_iff_exists_sq (x : BB) : x ≠ 0#64 ↔ ∃ s : Sq, x.getLsbD s.val = true := by
  constructor
  · intro h
    obtain ⟨i, hi, hb⟩ := BB.exists_bit_of_ne_zero x h
    exact ⟨⟨i, hi⟩, hb⟩
  · rintro ⟨s, hs⟩
    exact BB.ne_zero_of_getLsbD x s.val hs

/-- the test of `set_ep` read on the contents: a pawn of colour `o` stands beside `D` -/
theorem sane_adjTest_iff {T : Tables} (hT : TablesOK T) {r : Board} (hr : Struct r) (D : Sq) (o : Color) :
    (T.adjFiles D.getFile &&& T.ranks D.getRank &&& r.pawns &&& r.colorCombined o ≠ 0#64) ↔
      ∃ s : Sq, s.rank = D.rank ∧ (s.file - D.file).natAbs = 1 ∧ r.content s = some (.pawn, o) := by
  rw [sane_ne_zero_iff_exists_sq]
  apply exists_congr
  intro s
  rw [hr.content_some_iff, hT.adjFiles, hT.ranks]
  simp only [BitVec.getLsbD_and, mem_adjFiles, mem_ranks, Bool.and_eq_true, beq_iff_eq]
  have h1 : (s.rankN = D.getRank.val) ↔ s.rank = D.rank := by
    unfold Sq.rankN Sq.getRank Sq.rank; simp only; omega
  have h2 : ((D.getFile.val : Int)) = D.file := rfl
  rw [h1, h2]
  constructor
  · rintro ⟨⟨⟨a, b⟩, c⟩, d⟩; exact ⟨b, a, c, d⟩
  · rintro ⟨b, a, c, d⟩; exact ⟨⟨⟨a, b⟩, c⟩, d⟩

theorem Pos.toBuilder_getEnPassant_eq {p : Pos}
    (E : ∀ q, p.ep = some q → q.rank = p.stm.other.pawnRank + 2 * p.stm.other.fwd) :
    p.toBuilder.getEnPassant = p.ep := by
  unfold Builder.getEnPassant Pos.toBuilder
  simp only
  cases hq : p.ep with
  | none => rfl
  | some q =>
    simp only [Option.map_some]
    rw [← fourthRank_of_spec _ q (E q hq), sane_mkSq_getRank_getFile]

theorem has_bits_of_content {b : Board} (hs : Struct b) {p : Pos} (hcont : b.content = p.board) (s : Sq) (pc : Piece)
    (c : Color) (h : p.has s pc c = true) : (b.pieces pc &&& b.colorCombined c).getLsbD s.val = true := by
  rw [← hs.has_iff]
  unfold Pos.has at h ⊢
  rw [abs_board, hcont]
  exact h

/-- the candidate board built from a valid position passes every clause of `is_sane`, given the two
check-detection clauses -/
theorem tryFromPre_facts_of_valid {T : Tables} (hT : TablesOK T) {p : Pos} (hv : Valid p = true)
    (hc : CheckClauses T (tryFromPre T p.toBuilder)) : SaneFacts T (tryFromPre T p.toBuilder) := by
  obtain ⟨V, E⟩ := Valid_clauses hv
  obtain ⟨hcore, hcont, hstm, hwcr, hbcr, hep, _⟩ := tryFromPre_spec T p.toBuilder
  have hs := hcore.toStruct
  have hcont' : (tryFromPre T p.toBuilder).content = p.board := hcont
  have habs : (tryFromPre T p.toBuilder).abs.board = p.board := by rw [abs_board]; exact hcont'
  have hbits := has_bits_of_content hs hcont'
  have hK : ∀ c, ((tryFromPre T p.toBuilder).castleRights c).ks = p.castleK c := by
    intro c; cases c
    · show (tryFromPre T p.toBuilder).wcr.ks = _; rw [hwcr]; rfl
    · show (tryFromPre T p.toBuilder).bcr.ks = _; rw [hbcr]; rfl
  have hQ : ∀ c, ((tryFromPre T p.toBuilder).castleRights c).qs = p.castleQ c := by
    intro c; cases c
    · show (tryFromPre T p.toBuilder).wcr.qs = _; rw [hwcr]; rfl
    · show (tryFromPre T p.toBuilder).bcr.qs = _; rw [hbcr]; rfl
  have hking : ∀ c, ((tryFromPre T p.toBuilder).kings &&& (tryFromPre T p.toBuilder).colorCombined c).popcnt = 1 := by
    intro c
    have := hs.count_piece_color .king c
    rw [count_congr habs] at this
    exact this.symm.trans (V c).1
  have hmen : ∀ c, ((tryFromPre T p.toBuilder).colorCombined c).popcnt ≤ 16 := by
    intro c
    have := hs.count_color c
    rw [count_congr habs] at this
    rw [← this]; exact (V c).2.1
  refine ⟨hs.pieces_and_eq_zero, hs.colors_and_eq_zero, hs.union_eq, hking .white, hking .black,
    hmen .white, hmen .black, ?_, hc.1, ?_, ?_, hc.2⟩
  · intro x hx
    rw [hep, Pos.toBuilder_getEnPassant_eq (fun q hq => (E q hq).2)] at hx
    cases hq : p.ep with
    | none => rw [hq] at hx; cases hx
    | some q =>
      rw [hq] at hx
      simp only at hx
      split at hx
      · injection hx with hx
        subst hx
        rw [and_ofSq_ne_zero_iff]
        have hstm' : (tryFromPre T p.toBuilder).stm = p.stm := hstm
        rw [hstm']
        exact hbits q .pawn p.stm.other (E q hq).1
      · cases hx
  · intro c
    rw [BitVec.and_assoc]
    apply and_eq_self_of_bits
    intro i hi
    rcases unmovedRooks_bit_imp _ c i hi with ⟨hk, rfl⟩ | ⟨hq, rfl⟩
    · rw [hK] at hk
      have := ((V c).2.2.1 hk).2
      rw [homeSq_rook_h, Option.any_some] at this
      exact hbits _ .rook c this
    · rw [hQ] at hq
      have := ((V c).2.2.2 hq).2
      rw [homeSq_rook_a, Option.any_some] at this
      exact hbits _ .rook c this
  · intro c
    by_cases hn : (tryFromPre T p.toBuilder).castleRights c = .noRights
    · exact .inl hn
    · right
      have hkq : p.castleK c = true ∨ p.castleQ c = true := by
        rw [← hK, ← hQ]
        cases hk : ((tryFromPre T p.toBuilder).castleRights c).ks with
        | true => exact .inl rfl
        | false =>
          cases hq : ((tryFromPre T p.toBuilder).castleRights c).qs with
          | true => exact .inr rfl
          | false =>
            exfalso; apply hn
            rw [← castleRights_eta, hk, hq]; rfl
      have hhome : p.has (mkSq c.backrank 4) .king c = true := by
        rcases hkq with hk | hq
        · have := ((V c).2.2.1 hk).1
          rw [homeSq_king, Option.any_some] at this; exact this
        · have := ((V c).2.2.2 hq).1
          rw [homeSq_king, Option.any_some] at this; exact this
      rw [files_and_ranks hT]
      exact eq_ofSq_of_popcnt_one (hking c) _ (hbits _ .king c hhome)

/-- **completeness modulo check detection**: a valid position whose candidate board passes the two
check-detection clauses of `is_sane` is accepted, and the accepted board describes `norm p` -/
theorem tryFrom_complete_partial {T : Tables} (hT : TablesOK T) {p : Pos} (hv : Valid p = true)
    (hc : CheckClauses T (tryFromPre T p.toBuilder)) :
    ∃ b, Board.tryFrom T p.toBuilder = some b ∧
      b.abs.board = (norm p).board ∧ b.abs.stm = (norm p).stm ∧
      (∀ c, b.abs.castleK c = (norm p).castleK c) ∧ (∀ c, b.abs.castleQ c = (norm p).castleQ c) ∧
      b.abs.ep = (norm p).ep := by
  have hsane := isSane_of_facts (tryFromPre_facts_of_valid hT hv hc)
  obtain ⟨_, E⟩ := Valid_clauses hv
  obtain ⟨hcore, hcont, hstm, hwcr, hbcr, hep, _⟩ := tryFromPre_spec T p.toBuilder
  have hs := hcore.toStruct
  have hcont' : (tryFromPre T p.toBuilder).content = p.board := hcont
  have hstm' : (tryFromPre T p.toBuilder).stm = p.stm := hstm
  refine ⟨tryFromPre T p.toBuilder, by rw [tryFrom_eq, if_pos hsane], ?_, hstm, ?_, ?_, ?_⟩
  · rw [abs_board]; exact hcont'
  · intro c; cases c
    · show (tryFromPre T p.toBuilder).wcr.ks = _; rw [hwcr]; rfl
    · show (tryFromPre T p.toBuilder).bcr.ks = _; rw [hbcr]; rfl
  · intro c; cases c
    · show (tryFromPre T p.toBuilder).wcr.qs = _; rw [hwcr]; rfl
    · show (tryFromPre T p.toBuilder).bcr.qs = _; rw [hbcr]; rfl
  · show (tryFromPre T p.toBuilder).ep = (norm p).ep
    rw [hep, Pos.toBuilder_getEnPassant_eq (fun q hq => (E q hq).2)]
    unfold norm
    simp only
    cases hq : p.ep with
    | none => rfl
    | some q =>
      simp only
      have hiff : (T.adjFiles q.getFile &&& T.ranks q.getRank &&& (tryFromPre T p.toBuilder).pawns &&&
            (tryFromPre T p.toBuilder).colorCombined (tryFromPre T p.toBuilder).stm ≠ 0#64) ↔
          (allSq.any (fun s => s.rank == q.rank && (s.file - q.file).natAbs == 1 && p.has s .pawn p.stm)) = true := by
        rw [sane_adjTest_iff hT hs, hstm', hcont', List.any_eq_true]
        constructor
        · rintro ⟨s, h1, h2, h3⟩
          refine ⟨s, mem_allSq s, ?_⟩
          unfold Pos.has
          simp [h1, h2, h3]
        · rintro ⟨s, _, h⟩
          unfold Pos.has at h
          simp only [Bool.and_eq_true, beq_iff_eq] at h
          exact ⟨s, h.1.1, h.1.2, h.2⟩
      by_cases hany : (allSq.any (fun s => s.rank == q.rank && (s.file - q.file).natAbs == 1 && p.has s .pawn p.stm)) = true
      · rw [if_pos (hiff.mpr hany), if_pos hany]
      · rw [if_neg (fun h => hany (hiff.mp h)), if_neg hany]

end Chess
