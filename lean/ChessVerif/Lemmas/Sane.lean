import ChessVerif.Lemmas.TryFrom
import ChessVerif.Lemmas.GeomBridge1
/-!
Lemmas for C07: what `Board::is_sane` / `Board::try_from` guarantee, read on the abstract position
(`Board.abs`), and the capacity bound of the move list (`MoveGen.enumerate` yields at most 18 entries).
-/
namespace Chess

/-! ### popcount as a count over the 64 squares -/

theorem BB.popcnt_eq_countP (x : BB) : x.popcnt = allSq.countP fun s => x.getLsbD s.val := by
  rw [BB.popcnt_eq_length_members, List.countP_eq_length_filter]

theorem BB.toList_length (x : BB) : x.toList.length = x.popcnt := by
  rw [BB.toList_exact, BB.popcnt_eq_length_members]

theorem countP_le_of_imp' {α : Type} (p q : α → Bool) (l : List α) (h : ∀ a ∈ l, p a = true → q a = true) :
    l.countP p ≤ l.countP q := by
  induction l with
  | nil => exact Nat.le_refl _
  | cons a as ih =>
    have ih' := ih (fun x hx => h x (List.mem_cons_of_mem _ hx))
    have ha := h a List.mem_cons_self
    rw [List.countP_cons, List.countP_cons]
    cases hp : p a with
    | false => simp only [Bool.false_eq_true, if_false]; split <;> omega
    | true => rw [ha hp]; simp only [if_true]; omega

theorem BB.popcnt_mono (x y : BB) (h : ∀ i, x.getLsbD i = true → y.getLsbD i = true) : x.popcnt ≤ y.popcnt := by
  rw [BB.popcnt_eq_countP, BB.popcnt_eq_countP]
  exact countP_le_of_imp' _ _ _ (fun s _ hs => h s.val hs)

theorem BB.popcnt_and_le_left (x y : BB) : (x &&& y).popcnt ≤ x.popcnt :=
  BB.popcnt_mono _ _ (fun i h => by rw [BitVec.getLsbD_and, Bool.and_eq_true] at h; exact h.1)

theorem BB.popcnt_and_le_right (x y : BB) : (x &&& y).popcnt ≤ y.popcnt :=
  BB.popcnt_mono _ _ (fun i h => by rw [BitVec.getLsbD_and, Bool.and_eq_true] at h; exact h.2)

theorem countP_split {α : Type} (p q : α → Bool) (l : List α) :
    l.countP (fun a => p a && !q a) + l.countP (fun a => p a && q a) = l.countP p := by
  induction l with
  | nil => rfl
  | cons a as ih =>
    simp only [List.countP_cons]
    cases p a <;> cases q a <;> simp <;> omega

/-- `popcnt (a & !m) + popcnt (a & m) = popcnt a` -/
theorem BB.popcnt_split (a m : BB) : (a &&& ~~~m).popcnt + (a &&& m).popcnt = a.popcnt := by
  rw [BB.popcnt_eq_countP, BB.popcnt_eq_countP, BB.popcnt_eq_countP, ← countP_split (fun s : Sq => a.getLsbD s.val)
    (fun s : Sq => m.getLsbD s.val)]
  congr 2
  · congr 1
    funext s
    rw [BitVec.getLsbD_and, BitVec.getLsbD_not]
    have : s.val < 64 := s.isLt
    simp [this]
  · congr 1
    funext s
    rw [BitVec.getLsbD_and]

/-- six predicates of which at most one holds at a time, each implying `q` -/
theorem countP_six {α : Type} (p1 p2 p3 p4 p5 p6 q : α → Bool) (l : List α)
    (h : ∀ a ∈ l, (p1 a).toNat + (p2 a).toNat + (p3 a).toNat + (p4 a).toNat + (p5 a).toNat + (p6 a).toNat
      ≤ (q a).toNat) :
    l.countP p1 + l.countP p2 + l.countP p3 + l.countP p4 + l.countP p5 + l.countP p6 ≤ l.countP q := by
  induction l with
  | nil => exact Nat.le_refl _
  | cons a as ih =>
    have ih' := ih (fun x hx => h x (List.mem_cons_of_mem _ hx))
    have ha := h a List.mem_cons_self
    simp only [List.countP_cons]
    revert ha
    cases p1 a <;> cases p2 a <;> cases p3 a <;> cases p4 a <;> cases p5 a <;> cases p6 a <;> cases q a <;>
      intro ha <;> simp at ha ⊢ <;> omega

/-! ### the clauses of `is_sane` -/

/-- the clauses of `Board::is_sane`, one field each -/
structure SaneFacts (T : Tables) (b : Board) : Prop where
  pieces_disj : ∀ x y : Piece, x ≠ y → b.pieces x &&& b.pieces y = 0#64
  colors_disj : b.white &&& b.black = 0#64
  union : 0#64 ||| b.pawns ||| b.knights ||| b.bishops ||| b.rooks ||| b.queens ||| b.kings = b.combined
  wking : (b.kings &&& b.white).popcnt = 1
  bking : (b.kings &&& b.black).popcnt = 1
  wmen : b.white.popcnt ≤ 16
  bmen : b.black.popcnt ≤ 16
  ep : ∀ x, b.ep = some x → b.pawns &&& b.colorCombined b.stm.other &&& BB.ofSq x ≠ 0#64
  nocheck : (Board.updatePinInfo T { b with stm := b.stm.other }).checkers = 0#64
  rooks : ∀ c, ((b.castleRights c).unmovedRooks c &&& b.rooks &&& b.colorCombined c) = (b.castleRights c).unmovedRooks c
  kinghome : ∀ c, b.castleRights c = .noRights ∨ (b.kings &&& b.colorCombined c) = (T.files 4 &&& T.ranks c.backrank)
  kings_apart : T.king (b.kingSquare .white) &&& b.kings = 0#64

theorem isSane_facts {T : Tables} {b : Board} (h : b.isSane T = true) : SaneFacts T b := by
  unfold Board.isSane at h
  simp only [Bool.and_eq_true] at h
  obtain ⟨⟨⟨⟨⟨⟨⟨⟨⟨h1, h2⟩, h3⟩, h4⟩, h5⟩, h6⟩, h7⟩, h8⟩, h9⟩, h10⟩ := h
  refine ⟨?_, eq_of_beq h2, eq_of_beq h3, eq_of_beq h4, eq_of_beq h5, ?_, ?_, ?_, eq_of_beq h8, ?_, ?_, eq_of_beq h10⟩
  · intro x y hxy
    rw [List.all_eq_true] at h1
    have := h1 x (by cases x <;> decide)
    rw [List.all_eq_true] at this
    have := this y (by cases y <;> decide)
    simpa [hxy] using this
  · simp at h6; omega
  · simp at h6; omega
  · intro x hx
    rw [hx] at h7
    simpa using h7
  · intro c
    rw [List.all_eq_true] at h9
    have := h9 c (by cases c <;> decide)
    simp only [Bool.and_eq_true] at this
    exact eq_of_beq this.1
  · intro c
    rw [List.all_eq_true] at h9
    have := h9 c (by cases c <;> decide)
    simp only [Bool.and_eq_true, Bool.or_eq_true] at this
    rcases this.2 with h | h
    · exact Or.inl (eq_of_beq h)
    · exact Or.inr (eq_of_beq h)

/-! ### `is_sane` and `Struct` -/

theorem and_eq_zero_bit {x y : BB} (h : x &&& y = 0#64) (i : Nat) (hx : x.getLsbD i = true) : y.getLsbD i = false := by
  have : (x &&& y).getLsbD i = false := by rw [h]; exact BitVec.getLsbD_zero
  rw [BitVec.getLsbD_and, hx, Bool.true_and] at this
  exact this

/-- `is_sane` checks three of the four `Struct` clauses; it does **not** check `white | black = combined` -/
theorem SaneFacts.struct_of_comb_color {T : Tables} {b : Board} (h : SaneFacts T b)
    (hc : ∀ i, b.combined.getLsbD i = (b.white.getLsbD i || b.black.getLsbD i)) : Struct b where
  piece_disj := fun i x y hxy hx => and_eq_zero_bit (h.pieces_disj x y hxy) i hx
  color_disj := fun i hw => and_eq_zero_bit h.colors_disj i hw
  comb_color := hc
  comb_piece := by
    intro i
    rw [← h.union]
    simp only [BitVec.getLsbD_or, BitVec.getLsbD_zero, Bool.false_or, Bool.or_eq_true]
    constructor
    · rintro (((((hp | hp) | hp) | hp) | hp) | hp)
      · exact ⟨.pawn, hp⟩
      · exact ⟨.knight, hp⟩
      · exact ⟨.bishop, hp⟩
      · exact ⟨.rook, hp⟩
      · exact ⟨.queen, hp⟩
      · exact ⟨.king, hp⟩
    · rintro ⟨p, hp⟩
      cases p <;> simp only [Board.pbit, Board.pieces] at hp <;> simp [hp]

theorem isSane_struct_of_comb_color {T : Tables} {b : Board} (h : b.isSane T = true)
    (hc : ∀ i, b.combined.getLsbD i = (b.white.getLsbD i || b.black.getLsbD i)) : Struct b :=
  (isSane_facts h).struct_of_comb_color hc

/-- every board accepted by `try_from` satisfies the structural invariant (all four clauses: the colour
clause holds by construction of the placement loop, not through `is_sane`) -/
theorem tryFrom_struct {T : Tables} {bd : Builder} {b : Board} (h : Board.tryFrom T bd = some b) : Struct b :=
  (tryFrom_spec T bd b h).1.toStruct

theorem tryFrom_isSane {T : Tables} {bd : Builder} {b : Board} (h : Board.tryFrom T bd = some b) :
    b.isSane T = true := (tryFrom_spec T bd b h).2.2.2.2.2.2.2

theorem tryFrom_facts {T : Tables} {bd : Builder} {b : Board} (h : Board.tryFrom T bd = some b) :
    SaneFacts T b := isSane_facts (tryFrom_isSane h)

/-! ### counting men on the abstract position -/

theorem Struct.any_piece_color {b : Board} (h : Struct b) (s : Sq) (p : Piece) (c : Color) :
    (b.content s).any (· == (p, c)) = (b.pieces p &&& b.colorCombined c).getLsbD s.val := by
  rw [BitVec.getLsbD_and, Bool.eq_iff_iff, Bool.and_eq_true]
  rw [← Board.pbit, ← Board.cbit, ← h.content_some_iff]
  cases hc : b.content s with
  | none => simp
  | some pc => simp

theorem Struct.any_color {b : Board} (h : Struct b) (s : Sq) (c : Color) :
    (b.content s).any (·.2 == c) = (b.colorCombined c).getLsbD s.val := by
  rw [Bool.eq_iff_iff]
  constructor
  · intro ha
    cases hc : b.content s with
    | none => rw [hc] at ha; cases ha
    | some pc =>
      obtain ⟨p, d⟩ := pc
      rw [hc] at ha
      simp only [Option.any_some, beq_iff_eq] at ha
      subst ha
      exact ((h.content_some_iff s p d).mp hc).2
  · intro hb
    have hcomb : b.combined.getLsbD s.val = true := by
      rw [h.comb_color]
      cases c
      · have : b.white.getLsbD s.val = true := hb
        rw [this]; rfl
      · have : b.black.getLsbD s.val = true := hb
        rw [this, Bool.or_true]
    obtain ⟨p, hp⟩ := (h.comb_piece s.val).mp hcomb
    rw [(h.content_some_iff s p c).mpr ⟨hp, hb⟩]
    simp

theorem Struct.count_piece_color {b : Board} (h : Struct b) (p : Piece) (c : Color) :
    count b.abs (· == (p, c)) = (b.pieces p &&& b.colorCombined c).popcnt := by
  unfold count
  rw [BB.popcnt_eq_length_members, abs_board]
  congr 1
  apply BB.filter_congr_mem
  intro s _
  exact h.any_piece_color s p c

theorem Struct.count_color {b : Board} (h : Struct b) (c : Color) :
    count b.abs (·.2 == c) = (b.colorCombined c).popcnt := by
  unfold count
  rw [BB.popcnt_eq_length_members, abs_board]
  congr 1
  apply BB.filter_congr_mem
  intro s _
  exact h.any_color s c

end Chess
