import ChessVerif.Lemmas.Closure
import ChessVerif.Spec.Game
/-!
# Irreversible half-moves (pure specification)

A potential `Φ` on positions that no pseudo-legal move increases and that every pawn move, every capture and
every change of castling rights strictly decreases:

  `Φ p = Σ over the men of p of their weight + number of castling rights`,

the weight of a pawn being `1 +` its distance to the promotion rank, the weight of any other man `1`.
Hence a position that occurred before such a half-move cannot occur after it (`irreversible_no_recurrence`):
this is what allows `can_declare_draw` to forget the positions before the last irreversible half-move.
-/
namespace Chess
namespace Irreversible
open Closure

/-! ### weighted sums over the board -/

/-- the weight of the content of square `s` -/
def weight (s : Sq) : Option (Piece × Color) → Nat
  | none => 0
  | some (.pawn, c) => 1 + (c.lastRank - s.rank).natAbs
  | some _ => 1

def wsum (b : Bd) : Nat := (allSq.map fun s => weight s (b s)).sum

theorem map_upd_sum (b : Bd) (s : Sq) (v) (l : List Sq) (hnd : l.Nodup) :
    (l.map fun x => weight x (upd b s v x)).sum + (if s ∈ l then weight s (b s) else 0)
      = (l.map fun x => weight x (b x)).sum + (if s ∈ l then weight s v else 0) := by
  induction l with
  | nil => simp
  | cons a l ih =>
    have hnd' := (List.nodup_cons.mp hnd)
    have ih := ih hnd'.2
    by_cases has : a = s
    · subst has
      have hnot : a ∉ l := hnd'.1
      simp only [hnot, if_false] at ih
      simp only [List.map_cons, List.sum_cons, upd_same, List.mem_cons, true_or, if_true]
      omega
    · have h1 : upd b s v a = b a := upd_other b v has
      have h2 : (s ∈ a :: l) = (s ∈ l) := by
        simp only [List.mem_cons, eq_iff_iff]
        constructor
        · rintro (h | h)
          · exact absurd h.symm has
          · exact h
        · exact Or.inr
      simp only [List.map_cons, List.sum_cons, h1, h2]
      omega

theorem wsum_upd (b : Bd) (s : Sq) (v) : wsum (upd b s v) + weight s (b s) = wsum b + weight s v := by
  have := map_upd_sum b s v allSq (List.nodup_finRange 64)
  simpa [allSq, wsum] using this

@[simp] theorem weight_none (s : Sq) : weight s none = 0 := rfl

theorem weight_nonpawn (s : Sq) {pc : Piece} (c : Color) (h : pc ≠ .pawn) : weight s (some (pc, c)) = 1 := by
  cases pc <;> first | rfl | exact absurd rfl h

theorem weight_pos (s : Sq) {v : Option (Piece × Color)} (h : v ≠ none) : 1 ≤ weight s v := by
  cases v with
  | none => exact absurd rfl h
  | some x =>
    obtain ⟨pc, c⟩ := x
    cases pc <;> simp [weight]

/-- a pawn that advances (one or two ranks), promoting or not, gets lighter -/
theorem pawn_weight_lt {c : Color} {a b : Sq} (h : b.rank - a.rank = c.fwd ∨ b.rank - a.rank = 2 * c.fwd)
    (pc' : Piece) : weight b (some (pc', c)) < weight a (some (.pawn, c)) := by
  have ha := Sq.rank_bounds a
  have hb := Sq.rank_bounds b
  cases c <;> cases pc' <;>
    simp only [weight, Color.fwd, Color.lastRank, Color.homeRank, Color.other] at h ⊢ <;> omega

/-! ### the men -/

theorem wsum_apply {p : Pos} {m : Move} (hs : Shape p m) :
    wsum (apply p m).board ≤ wsum p.board ∧
    (Spec.GameSt.isCaptureOrPawn p m = true → wsum (apply p m).board < wsum p.board) := by
  cases hs with
  | normal pc pc' hsrc hdst hne hpc hatk hpawn hboard =>
    rw [hboard]
    have e1 := wsum_upd (upd p.board m.src none) m.dst (some (pc', p.stm))
    have e2 := wsum_upd p.board m.src none
    rw [upd_other _ _ (Ne.symm hne)] at e1
    rw [hsrc] at e2
    simp only [weight_none] at e2
    by_cases hp : pc = .pawn
    · subst hp
      have hlt := pawn_weight_lt (c := p.stm) (a := m.src) (b := m.dst) (by
        rcases (hpawn rfl).step with h | h
        · exact Or.inl h
        · exact Or.inr h.1) pc'
      constructor
      · omega
      · intro _; omega
    · have hpc' : pc' = pc := by
        rcases hpc with h | h
        · exact h
        · exact absurd h.1 hp
      subst hpc'
      rw [weight_nonpawn _ _ hp] at e1 e2
      constructor
      · omega
      · intro hcp
        have hd : p.board m.dst ≠ none := by
          intro h0
          unfold Spec.GameSt.isCaptureOrPawn at hcp
          rw [hsrc] at hcp
          simp only [Pos.empty, h0, Option.isNone_none, Bool.not_true, Bool.or_false] at hcp
          cases pc' <;> simp at hcp hp
        have := weight_pos m.dst hd
        omega
  | ep q pc' hsrc hdst hq hqs hqd hne hpc hlast hdr hboard =>
    rw [hboard]
    have e1 := wsum_upd (upd (upd p.board q none) m.src none) m.dst (some (pc', p.stm))
    have e2 := wsum_upd (upd p.board q none) m.src none
    have e3 := wsum_upd p.board q none
    rw [upd_other _ _ (Ne.symm hne), upd_other _ _ (Ne.symm hqd), hdst] at e1
    rw [upd_other _ _ (Ne.symm hqs), hsrc] at e2
    simp only [weight_none] at e1 e2 e3
    have hlt := pawn_weight_lt (c := p.stm) (a := m.src) (b := m.dst) (Or.inl hdr) pc'
    constructor
    · omega
    · intro _; omega
  | castle r t hsrc hsrcr hsrcf hdst hr ht hrr htr hrs hrd hts htd htr' hne hboard =>
    rw [hboard]
    have e1 := wsum_upd (upd (upd (upd p.board t (some (.rook, p.stm))) r none) m.src none) m.dst (some (.king, p.stm))
    have e2 := wsum_upd (upd (upd p.board t (some (.rook, p.stm))) r none) m.src none
    have e3 := wsum_upd (upd p.board t (some (.rook, p.stm))) r none
    have e4 := wsum_upd p.board t (some (.rook, p.stm))
    rw [upd_other _ _ (Ne.symm hne), upd_other _ _ (Ne.symm hrd), upd_other _ _ (Ne.symm htd), hdst] at e1
    rw [upd_other _ _ (Ne.symm hrs), upd_other _ _ (Ne.symm hts), hsrc] at e2
    rw [upd_other _ _ (Ne.symm htr'), hr] at e3
    rw [ht] at e4
    simp only [weight] at e1 e2 e3 e4
    constructor
    · omega
    · intro hcp
      unfold Spec.GameSt.isCaptureOrPawn at hcp
      rw [hsrc] at hcp
      simp [Pos.empty, hdst] at hcp

/-! ### the castling rights -/

/-- the four castling rights, in the order of `Pos.key` -/
def rightsList (p : Pos) : List Bool := [p.castleK .white, p.castleQ .white, p.castleK .black, p.castleQ .black]

def flags (p : Pos) : Nat := ((rightsList p).filter id).length

theorem flags_mono_aux : ∀ a b c d a' b' c' d' : Bool, (a' = true → a = true) → (b' = true → b = true) →
    (c' = true → c = true) → (d' = true → d = true) →
    ([a', b', c', d'].filter id).length ≤ ([a, b, c, d].filter id).length ∧
    ([a', b', c', d'] ≠ [a, b, c, d] → ([a', b', c', d'].filter id).length < ([a, b, c, d].filter id).length) := by
  decide

theorem flags_apply (p : Pos) (m : Move) :
    flags (apply p m) ≤ flags p ∧
    (rightsList (apply p m) ≠ rightsList p → flags (apply p m) < flags p) :=
  flags_mono_aux _ _ _ _ _ _ _ _ rights_shrinkK rights_shrinkQ rights_shrinkK rights_shrinkQ

/-! ### the potential -/

def Φ (p : Pos) : Nat := wsum p.board + flags p

theorem Φ_norm (p : Pos) : Φ (norm p) = Φ p := rfl

/-- a half-move the model treats as irreversible: a pawn move, a capture, or a change of castling rights -/
def irreversible (p : Pos) (m : Move) : Bool :=
  Spec.GameSt.isCaptureOrPawn p m || (rightsList (apply p m) != rightsList p)

/-- **no pseudo-legal move increases the potential; an irreversible one decreases it** -/
theorem Φ_step {p : Pos} {m : Move} (h : pseudoLegal p m = true) :
    Φ (norm (apply p m)) ≤ Φ p ∧ (irreversible p m = true → Φ (norm (apply p m)) < Φ p) := by
  obtain ⟨w1, w2⟩ := wsum_apply (pseudoLegal_shape h)
  obtain ⟨f1, f2⟩ := flags_apply p m
  rw [Φ_norm]
  unfold Φ
  constructor
  · omega
  · intro hi
    simp only [irreversible, Bool.or_eq_true, bne_iff_ne, ne_eq] at hi
    rcases hi with hi | hi
    · have := w2 hi; omega
    · have := f2 hi; omega

/-! ### position identity -/

theorem key_inj {p q : Pos} (h : Spec.Pos.key p = Spec.Pos.key q) : p = q := by
  unfold Spec.Pos.key at h
  simp only [Prod.mk.injEq, List.cons.injEq, and_true] at h
  obtain ⟨hb, hs, ⟨h1, h2, h3, h4⟩, he⟩ := h
  have hb' : p.board = q.board := funext fun s => List.map_inj_left.mp hb s (List.mem_finRange s)
  have hk : p.castleK = q.castleK := funext fun c => by cases c <;> assumption
  have hq : p.castleQ = q.castleQ := funext fun c => by cases c <;> assumption
  cases p; cases q
  simp only at hb' hs hk hq he
  subst hb' hs hk hq he
  rfl

theorem key_eq_iff {p q : Pos} : Spec.Pos.key p = Spec.Pos.key q ↔ p = q :=
  ⟨key_inj, fun h => by rw [h]⟩

theorem Φ_of_key {p q : Pos} (h : Spec.Pos.key p = Spec.Pos.key q) : Φ p = Φ q := by rw [key_inj h]

/-! ### along histories -/

theorem Φ_playLegalNorm {p q : Pos} {ms : List Move} (h : playLegalNorm p ms = some q) : Φ q ≤ Φ p := by
  induction ms generalizing p with
  | nil => simp only [playLegalNorm, Option.some.injEq] at h; rw [← h]; exact Nat.le_refl _
  | cons m ms ih =>
    simp only [playLegalNorm] at h
    split at h
    · rename_i hl
      exact Nat.le_trans (ih h) (Φ_step (legal_pseudo hl)).1
    · cases h

/-- **a position from before an irreversible half-move cannot recur after it**: along any history of legal
moves (as the library records it, `playLegalNorm`) `q ⟶* p ⟶[m] p' ⟶* q'` with `m` a pawn move, a capture or a
move changing castling rights, the positions `q` and `q'` differ (different `Pos.key`) -/
theorem irreversible_no_recurrence {q p q' : Pos} {m : Move} {ms ms' : List Move}
    (h1 : playLegalNorm q ms = some p) (hl : legal p m = true) (hirr : irreversible p m = true)
    (h2 : playLegalNorm (norm (apply p m)) ms' = some q') : Spec.Pos.key q ≠ Spec.Pos.key q' := by
  intro hk
  have e := Φ_of_key hk
  have a := Φ_playLegalNorm h1
  have b := (Φ_step (legal_pseudo hl)).2 hirr
  have c := Φ_playLegalNorm h2
  omega

end Irreversible
end Chess
