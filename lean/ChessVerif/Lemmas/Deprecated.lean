import ChessVerif.Model.Deprecated
import ChessVerif.Lemmas.Final
/-!
The deprecated board mutators (`set_piece`, `clear_square`, `add/remove_castle_rights`) keep the board
representation consistent with the position they denote.

* `removeAt_spec`: under `Core`, removing "whatever `piece_on` reports on `s`, colour read from the white
  board" removes exactly the man standing on `s` (piece board, colour board, `combined`, placement key).
* `editTail_some`: an accepted edit returns `update_pin_info` of the edited board, side to move restored.
* `setPiece_spec` / `clearSquare_spec`: `Core` kept, contents changed on `s` only, every other field kept,
  cached fields from scratch.
* `editTail_none_iff_inCheck`: the edit is refused exactly when the side not to move would be in check.
-/
namespace Chess

/-- the position with the content of square `s` replaced by `v` (`none` = emptied), everything else kept -/
def Pos.put (P : Pos) (s : Sq) (v : Option (Piece × Color)) : Pos :=
  { P with board := fun q => if q = s then v else P.board q }

namespace Deprecated
open CheckPin

/-! ### bit test `bb & sq == sq` -/

theorem and_ofSq_eq_self_iff (x : BB) (s : Sq) : (x &&& BB.ofSq s = BB.ofSq s) ↔ x.getLsbD s.val = true := by
  constructor
  · intro h
    have h1 : (x &&& BB.ofSq s).getLsbD s.val = true := by rw [h]; exact BB.getLsbD_ofSq_self s
    rw [BitVec.getLsbD_and, BB.getLsbD_ofSq_self, Bool.and_true] at h1
    exact h1
  · intro h
    apply BitVec.eq_of_getLsbD_eq
    intro i _
    rw [BitVec.getLsbD_and, BB.getLsbD_ofSq]
    by_cases hs : i = s.val
    · subst hs; rw [h]; rfl
    · rw [decide_eq_false hs, Bool.and_false]

/-! ### `removeAt` -/

theorem removeAt_none {T : Tables} {b : Board} {s : Sq} (h : b.pieceOn s = none) : Board.removeAt T b s = b := by
  unfold Board.removeAt
  simp only [h]

theorem removeAt_some_white {T : Tables} {b : Board} {s : Sq} {x : Piece} (h : b.pieceOn s = some x)
    (hw : b.white.getLsbD s.val = true) : Board.removeAt T b s = b.xor T x (BB.ofSq s) .white := by
  unfold Board.removeAt
  simp only [h]
  rw [if_pos ((and_ofSq_eq_self_iff _ _).mpr hw)]

theorem removeAt_some_black {T : Tables} {b : Board} {s : Sq} {x : Piece} (h : b.pieceOn s = some x)
    (hw : b.white.getLsbD s.val = false) : Board.removeAt T b s = b.xor T x (BB.ofSq s) .black := by
  unfold Board.removeAt
  simp only [h]
  rw [if_neg (fun e => by rw [(and_ofSq_eq_self_iff _ _).mp e] at hw; cases hw)]

/-- `removeAt` is the identity or one `xor` -/
theorem removeAt_cases (T : Tables) (b : Board) (s : Sq) :
    Board.removeAt T b s = b ∨ ∃ x c, Board.removeAt T b s = b.xor T x (BB.ofSq s) c := by
  cases hpo : b.pieceOn s with
  | none => exact Or.inl (removeAt_none hpo)
  | some x =>
    cases hw : b.white.getLsbD s.val with
    | true => exact Or.inr ⟨x, .white, removeAt_some_white hpo hw⟩
    | false => exact Or.inr ⟨x, .black, removeAt_some_black hpo hw⟩

/-- the non-placement fields are untouched, with no hypothesis on the board -/
theorem removeAt_fields (T : Tables) (b : Board) (s : Sq) :
    (Board.removeAt T b s).stm = b.stm ∧ (Board.removeAt T b s).wcr = b.wcr ∧ (Board.removeAt T b s).bcr = b.bcr ∧
    (Board.removeAt T b s).ep = b.ep := by
  rcases removeAt_cases T b s with e | ⟨x, c, e⟩
  · rw [e]; exact ⟨rfl, rfl, rfl, rfl⟩
  · rw [e]; exact ⟨xor_stm .., xor_wcr .., xor_bcr .., xor_ep ..⟩

/-- under `Core`, `removeAt` removes exactly the man standing on `s` -/
theorem removeAt_spec {T : Tables} {b : Board} (h : Core T b) (s : Sq) :
    Core T (Board.removeAt T b s) ∧
    ∀ t, (Board.removeAt T b s).content t = if t = s then none else b.content t := by
  cases hpo : b.pieceOn s with
  | none =>
    rw [removeAt_none hpo]
    have hn := (h.toStruct.content_none_iff s).mpr ((pieceOn_none_iff b s).mp hpo)
    refine ⟨h, fun t => ?_⟩
    by_cases hts : t = s
    · rw [if_pos hts, hts, hn]
    · rw [if_neg hts]
  | some x =>
    have hp : b.pbit x s.val = true := (pieceOn_some_iff h.toStruct s x).mp hpo
    have hcomb : b.combined.getLsbD s.val = true := (h.toStruct.comb_piece s.val).mpr ⟨x, hp⟩
    cases hw : b.white.getLsbD s.val with
    | true =>
      rw [removeAt_some_white hpo hw]
      exact ⟨h.xor_remove s x .white hp hw, content_xor_remove T h.toStruct s x .white hp hw⟩
    | false =>
      rw [removeAt_some_black hpo hw]
      have hb : b.black.getLsbD s.val = true := by
        rcases h.toStruct.color_of_comb s.val hcomb with h1 | h1
        · rw [hw] at h1; cases h1
        · exact h1
      exact ⟨h.xor_remove s x .black hp hb, content_xor_remove T h.toStruct s x .black hp hb⟩

/-! ### the tail: flip, recompute, test, flip back, recompute -/

theorem updatePinInfo_flip_back (T : Tables) (r : Board) :
    Board.updatePinInfo T
      { Board.updatePinInfo T { r with stm := r.stm.other } with
        stm := (Board.updatePinInfo T { r with stm := r.stm.other }).stm.other } = Board.updatePinInfo T r := by
  cases r with
  | mk pawns knights bishops rooks queens kings white black combined stm wcr bcr pinned checkers hash ep =>
    cases stm <;> rfl

theorem editTail_none_iff (T : Tables) (r : Board) :
    Board.editTail T r = none ↔ (Board.updatePinInfo T { r with stm := r.stm.other }).checkers ≠ 0#64 := by
  unfold Board.editTail
  dsimp only
  by_cases h : (Board.updatePinInfo T { r with stm := r.stm.other }).checkers ≠ 0#64
  · rw [if_pos h]; exact ⟨fun _ => h, fun _ => rfl⟩
  · rw [if_neg h]; exact ⟨fun e => (by cases e), fun e => absurd e h⟩

theorem editTail_some {T : Tables} {r b' : Board} (h : Board.editTail T r = some b') :
    (Board.updatePinInfo T { r with stm := r.stm.other }).checkers = 0#64 ∧ b' = Board.updatePinInfo T r := by
  unfold Board.editTail at h
  dsimp only at h
  by_cases hc : (Board.updatePinInfo T { r with stm := r.stm.other }).checkers ≠ 0#64
  · rw [if_pos hc] at h; cases h
  · rw [if_neg hc] at h
    injection h with h
    rw [updatePinInfo_flip_back] at h
    exact ⟨Classical.not_not.mp hc, h.symm⟩

theorem editTail_isSome_iff (T : Tables) (r : Board) :
    (Board.editTail T r).isSome = true ↔ (Board.updatePinInfo T { r with stm := r.stm.other }).checkers = 0#64 := by
  cases he : Board.editTail T r with
  | none =>
    have := (editTail_none_iff T r).mp he
    exact ⟨fun e => (by cases e), fun e => absurd e this⟩
  | some b' => exact ⟨fun _ => (editTail_some he).1, fun _ => rfl⟩

/-- the tail refuses exactly when the side not to move is in check on the edited board; hypotheses: that
side has one king and the other king does not stand next to it (`update_pin_info` never looks at kings) -/
theorem editTail_none_iff_inCheck {T : Tables} (hT : TablesOK T) {r : Board} (hs : Struct r)
    (hk : (r.kings &&& r.colorCombined r.stm.other).popcnt = 1)
    (hkk : ∀ x, r.content x = some (.king, r.stm) → attacks r.abs x (r.kingSquare r.stm.other) = false) :
    Board.editTail T r = none ↔ inCheck r.abs r.stm.other = true := by
  let r1 : Board := { r with stm := r.stm.other }
  have hs1 : Struct r1 := ⟨hs.1, hs.2, hs.3, hs.4⟩
  have hbd : r1.abs.board = r.abs.board := rfl
  have hkk1 : KingsApart r1 := by
    intro x hx
    have hx' : r.content x = some (.king, r.stm.other.other) := hx
    rw [Color.other_other] at hx'
    rw [Closure.attacks_congr hbd]
    exact hkk x hx'
  have hC : ∀ x : Sq, (r1.updatePinInfo T).checkers.getLsbD x.val = checkerSq r1.abs x :=
    fun x => checkers_exact hT hs1 hk hkk1 x
  have hz : (r1.updatePinInfo T).checkers = 0#64 ↔ ∀ x, checkerSq r1.abs x = false :=
    Assemble.checkers_zero_iff (b := r1.updatePinInfo T) hC
  have e : inCheck r1.abs r1.abs.stm = allSq.any (checkerSq r1.abs) := PinStep.inCheck_eq_any_checkerSq r1.abs
  have e2 : inCheck r.abs r.stm.other = allSq.any (checkerSq r1.abs) :=
    (Closure.inCheck_congr hbd r.stm.other).symm.trans e
  rw [editTail_none_iff, e2, List.any_eq_true]
  constructor
  · intro hne
    apply Classical.byContradiction
    intro hno
    apply hne
    apply hz.mpr
    intro x
    cases hx : checkerSq r1.abs x with
    | false => rfl
    | true => exact absurd ⟨x, mem_allSq x, hx⟩ hno
  · rintro ⟨x, _, hx⟩ h0
    have := hz.mp h0 x
    rw [hx] at this; cases this

/-! ### `set_piece` and `clear_square` -/

/-- the board `set_piece` hands to the tail -/
def setRaw (T : Tables) (b : Board) (p : Piece) (c : Color) (s : Sq) : Board :=
  (Board.removeAt T b s).xor T p (BB.ofSq s) c

theorem setPiece_eq (T : Tables) (b : Board) (p : Piece) (c : Color) (s : Sq) :
    b.setPiece T p c s = Board.editTail T (setRaw T b p c s) := rfl

theorem clearSquare_eq (T : Tables) (b : Board) (s : Sq) :
    b.clearSquare T s = Board.editTail T (Board.removeAt T b s) := rfl

theorem setRaw_fields (T : Tables) (b : Board) (p : Piece) (c : Color) (s : Sq) :
    (setRaw T b p c s).stm = b.stm ∧ (setRaw T b p c s).wcr = b.wcr ∧ (setRaw T b p c s).bcr = b.bcr ∧
    (setRaw T b p c s).ep = b.ep := by
  obtain ⟨h1, h2, h3, h4⟩ := removeAt_fields T b s
  unfold setRaw
  exact ⟨(xor_stm ..).trans h1, (xor_wcr ..).trans h2, (xor_bcr ..).trans h3, (xor_ep ..).trans h4⟩

theorem setRaw_spec {T : Tables} {b : Board} (h : Core T b) (p : Piece) (c : Color) (s : Sq) :
    Core T (setRaw T b p c s) ∧
    ∀ t, (setRaw T b p c s).content t = if t = s then some (p, c) else b.content t := by
  obtain ⟨h1, c1⟩ := removeAt_spec h s
  have hn : (Board.removeAt T b s).content s = none := by rw [c1, if_pos rfl]
  obtain ⟨h2, c2⟩ := h1.add p c hn
  refine ⟨h2, fun t => ?_⟩
  unfold setRaw
  rw [c2, c1]
  by_cases hts : t = s
  · simp only [if_pos hts]
  · simp only [if_neg hts]

/-- what an accepted tail returns, in terms of the board it was given -/
theorem editTail_fields {T : Tables} {r b' : Board} (h : Board.editTail T r = some b') :
    SamePl b' r ∧ b'.stm = r.stm ∧ b'.wcr = r.wcr ∧ b'.bcr = r.bcr ∧ b'.ep = r.ep ∧ b'.abs = r.abs ∧
    b'.PinOK T := by
  obtain ⟨_, e⟩ := editTail_some h
  subst e
  exact ⟨rfl, rfl, rfl, rfl, rfl, rfl, Board.PinOK.updatePinInfo T r⟩

theorem castleRights_eq_of {b b' : Board} (hw : b'.wcr = b.wcr) (hb : b'.bcr = b.bcr) (c : Color) :
    b'.castleRights c = b.castleRights c := by
  cases c
  · exact hw
  · exact hb

/-- `abs` from the five observations -/
theorem abs_eq_with_board {b b' : Board} {f : Sq → Option (Piece × Color)} (hc : b'.content = f)
    (hs : b'.stm = b.stm) (hw : b'.wcr = b.wcr) (hb : b'.bcr = b.bcr) (he : b'.ep = b.ep) :
    b'.abs = { b.abs with board := f } := by
  apply Pos.ext'
  · exact hc
  · exact hs
  · funext c; show (b'.castleRights c).ks = (b.castleRights c).ks; rw [castleRights_eq_of hw hb]
  · funext c; show (b'.castleRights c).qs = (b.castleRights c).qs; rw [castleRights_eq_of hw hb]
  · exact he

theorem setRaw_abs {T : Tables} {b : Board} (h : Core T b) (p : Piece) (c : Color) (s : Sq) :
    (setRaw T b p c s).abs = b.abs.put s (some (p, c)) := by
  obtain ⟨f1, f2, f3, f4⟩ := setRaw_fields T b p c s
  exact abs_eq_with_board (funext (setRaw_spec h p c s).2) f1 f2 f3 f4

theorem removeAt_abs {T : Tables} {b : Board} (h : Core T b) (s : Sq) :
    (Board.removeAt T b s).abs = b.abs.put s none := by
  obtain ⟨f1, f2, f3, f4⟩ := removeAt_fields T b s
  exact abs_eq_with_board (funext (removeAt_spec h s).2) f1 f2 f3 f4

theorem setPiece_spec {T : Tables} {b b' : Board} {p : Piece} {c : Color} {s : Sq} (h : Core T b)
    (he : b.setPiece T p c s = some b') :
    Core T b' ∧ b'.PinOK T ∧
    b'.abs = b.abs.put s (some (p, c)) := by
  rw [setPiece_eq] at he
  obtain ⟨hs, _, _, _, _, ha, hp⟩ := editTail_fields he
  exact ⟨(hs.core_iff T).mpr (setRaw_spec h p c s).1, hp, ha.trans (setRaw_abs h p c s)⟩

theorem clearSquare_spec {T : Tables} {b b' : Board} {s : Sq} (h : Core T b)
    (he : b.clearSquare T s = some b') :
    Core T b' ∧ b'.PinOK T ∧
    b'.abs = b.abs.put s none := by
  rw [clearSquare_eq] at he
  obtain ⟨hs, _, _, _, _, ha, hp⟩ := editTail_fields he
  exact ⟨(hs.core_iff T).mpr (removeAt_spec h s).1, hp, ha.trans (removeAt_abs h s)⟩

/-! ### refusal, on the edited position -/

/-- transfer of the two king hypotheses from the edited position to the edited board -/
theorem refuses_of_pos {T : Tables} (hT : TablesOK T) {r : Board} {P : Pos} (hs : Struct r) (habs : r.abs = P)
    (hk : count P (· == (.king, r.stm.other)) = 1)
    (hkk : ∀ x k, P.board x = some (.king, r.stm) → P.board k = some (.king, r.stm.other) → attacks P x k = false) :
    Board.editTail T r = none ↔ inCheck P r.stm.other = true := by
  subst habs
  have hk' : (r.kings &&& r.colorCombined r.stm.other).popcnt = 1 :=
    (hs.count_piece_color .king r.stm.other).symm.trans hk
  apply editTail_none_iff_inCheck hT hs hk'
  intro x hx
  exact hkk x _ hx (content_kingSquare hs hk')

theorem setPiece_refuses {T : Tables} (hT : TablesOK T) {b : Board} (h : Core T b) (p : Piece) (c : Color) (s : Sq)
    (hk : count (b.abs.put s (some (p, c))) (· == (.king, b.stm.other)) = 1)
    (hkk : ∀ x k, (b.abs.put s (some (p, c))).board x = some (.king, b.stm) →
      (b.abs.put s (some (p, c))).board k = some (.king, b.stm.other) →
      attacks (b.abs.put s (some (p, c))) x k = false) :
    b.setPiece T p c s = none ↔ inCheck (b.abs.put s (some (p, c))) b.stm.other = true := by
  have hst : (setRaw T b p c s).stm = b.stm := (setRaw_fields T b p c s).1
  have := refuses_of_pos hT (setRaw_spec h p c s).1.toStruct (setRaw_abs h p c s)
    (by rw [hst]; exact hk) (by rw [hst]; exact hkk)
  rw [hst] at this
  exact this

theorem clearSquare_refuses {T : Tables} (hT : TablesOK T) {b : Board} (h : Core T b) (s : Sq)
    (hk : count (b.abs.put s none) (· == (.king, b.stm.other)) = 1)
    (hkk : ∀ x k, (b.abs.put s none).board x = some (.king, b.stm) →
      (b.abs.put s none).board k = some (.king, b.stm.other) → attacks (b.abs.put s none) x k = false) :
    b.clearSquare T s = none ↔ inCheck (b.abs.put s none) b.stm.other = true := by
  have hst : (Board.removeAt T b s).stm = b.stm := (removeAt_fields T b s).1
  have := refuses_of_pos hT (removeAt_spec h s).1.toStruct (removeAt_abs h s)
    (by rw [hst]; exact hk) (by rw [hst]; exact hkk)
  rw [hst] at this
  exact this

/-! ### castling rights -/

theorem setCastleRights_castleRights (b : Board) (c d : Color) (cr : CastleRights) :
    (b.setCastleRights c cr).castleRights d = if d = c then cr else b.castleRights d := by
  cases c <;> cases d <;> rfl

theorem setCastleRights_updatePinInfo (T : Tables) (b : Board) (c : Color) (cr : CastleRights) :
    (b.setCastleRights c cr).updatePinInfo T = (b.updatePinInfo T).setCastleRights c cr := by
  cases c <;> rfl

theorem setCastleRights_pinOK {T : Tables} {b : Board} (h : b.PinOK T) (c : Color) (cr : CastleRights) :
    (b.setCastleRights c cr).PinOK T := by
  unfold Board.PinOK at h ⊢
  rw [setCastleRights_updatePinInfo, h]

theorem setCastleRights_abs (b : Board) (c : Color) (cr : CastleRights) :
    (b.setCastleRights c cr).abs =
      { b.abs with castleK := fun d => if d = c then cr.ks else b.abs.castleK d,
                   castleQ := fun d => if d = c then cr.qs else b.abs.castleQ d } := by
  apply Pos.ext'
  · cases c <;> rfl
  · cases c <;> rfl
  · funext d
    show ((b.setCastleRights c cr).castleRights d).ks = _
    rw [setCastleRights_castleRights]
    by_cases h : d = c
    · simp only [if_pos h]
    · simp only [if_neg h]; rfl
  · funext d
    show ((b.setCastleRights c cr).castleRights d).qs = _
    rw [setCastleRights_castleRights]
    by_cases h : d = c
    · simp only [if_pos h]
    · simp only [if_neg h]; rfl
  · cases c <;> rfl

end Deprecated
end Chess
