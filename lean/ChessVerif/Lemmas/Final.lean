import ChessVerif.Props.C01NonKing
import ChessVerif.Props.C01King
import ChessVerif.Props.C01Ep
import ChessVerif.Props.C03Step
import ChessVerif.Lemmas.SanScan
/-!
# Assembly of C01 — helper lemmas

* `Board.Good T b`: the board invariant "a well-formed board holding a valid position"
  (`Core T b ∧ b.PinOK T ∧ Valid b.abs = true`) and the side conditions of the partial results that follow
  from it (`Struct`, one king per side, `KingsApart`, `Assemble.Exact`, `checkers = 0 ⇔ not in check`).
* `ep_other_checker`: in a position with an en-passant mark (`epValid`), an enemy man other than the marked
  pawn that gives check still gives check after any en-passant capture: the capture can take the checking
  pawn but never interposes.  Hence no en-passant capture is legal in double check
  (`ep_illegal_double_check`).
* `movegen_mem_iff`: `m ∈ b.legalMoves T ↔ legal b.abs m = true` on every `Good` board, all three check
  regimes of `enumerate_moves`.
* closure of `Good` under `try_from` (valid position), `null_move` and `make_move_new` of a legal move.
-/
namespace Chess

/-- a well-formed board holding a valid position: bitboards and hash consistent (`Core`), cached
`pinned` / `checkers` equal to the from-scratch ones (`PinOK`), and the position it describes is `Valid` -/
def Board.Good (T : Tables) (b : Board) : Prop := Core T b ∧ b.PinOK T ∧ Valid b.abs = true

namespace Final
open CheckPin PinCheck Entries Assemble MoveGen EnPassant

set_option maxRecDepth 100000

/-! ### 1. geometry: an en-passant capture never interposes -/

/-- `org`, `mid`, `q` three consecutive squares of a file; if `org` and `mid` are strictly between `y` and
`k`, then `q` is `y`, `k`, or strictly between them too -/
theorem ep_file_between {y k org mid q : Sq} {s : Int} (hs : s = 1 ∨ s = -1)
    (hmf : mid.file = org.file) (hmr : mid.rank = org.rank + s)
    (hqf : q.file = org.file) (hqr : q.rank = org.rank + 2 * s)
    (h1 : strictlyBetween y org k = true) (h2 : strictlyBetween y mid k = true) :
    q = y ∨ q = k ∨ strictlyBetween y q k = true := by
  obtain ⟨u, n, t, t0, tn, hK, hO⟩ := At_of_sb h1
  obtain ⟨t', t0', tn', hM⟩ := At_of_sb_dir (by omega) hK h2
  have hY := At.zero y u
  have key : At y u (2 * t' - t) q ∧ 0 ≤ 2 * t' - t ∧ 2 * t' - t ≤ n := by
    unfold At at hO hM ⊢
    rcases hs with rfl | rfl <;> cases u <;> simp only [Dir.df, Dir.dr] at hO hM ⊢ <;> omega
  obtain ⟨hQ, j0, jn⟩ := key
  by_cases e0 : 2 * t' - t = 0
  · left; rw [e0] at hQ; exact At.ext hQ hY
  · by_cases en : 2 * t' - t = n
    · right; left; rw [en] at hQ; exact At.ext hQ hK
    · right; right; exact sb_of_At_lt hY hQ hK (by omega) (by omega)

/-- the mover's king is the only king of its colour in the predecessor position of `epValid` too -/
theorem predPos_kingAt {p : Pos} {q mid org k : Sq} (hf : EpFacts p q mid org) (hK : KingAt p p.stm k) :
    KingAt (predPos p q org) p.stm k := by
  intro s
  rw [predPos_board]
  by_cases h1 : s = org
  · rw [if_pos h1]
    constructor
    · intro e
      have := (Prod.mk.inj (Option.some.inj e)).1
      cases this
    · intro e
      have := (hK k).mpr rfl
      rw [← e, h1, hf.orgE] at this; cases this
  · rw [if_neg h1]
    by_cases h2 : s = q
    · rw [if_pos h2]
      constructor
      · intro e; cases e
      · intro e
        have := (hK k).mpr rfl
        rw [← e, h2, hf.pawn] at this
        have := (Prod.mk.inj (Option.some.inj this)).1
        cases this
    · rw [if_neg h2]; exact hK s

/-- an enemy man other than the pawn that has just made its double step and that attacks the mover's king
attacks it still after any en-passant capture (whose destination is the square `mid` passed over) -/
theorem ep_other_checker {p : Pos} {q mid org k : Sq} (hf : EpFacts p q mid org) {m : Move}
    (hc : EpCtx p m k q) (hd : m.dst = mid) {y : Sq} (hy : p.colorAt y = some p.stm.other)
    (hyq : y ≠ q) (ha : attacks p y k = true) : inCheck (apply p m) p.stm = true := by
  have hK := hc.king
  obtain ⟨pc, hby⟩ := (colorAt_iff p y _).mp hy
  rw [attacks_eq, Bool.or_eq_true] at ha
  have ha : (sliderAligned (p.board y) y k && pathClear p y k) = true := by
    rcases ha with ha | ha
    · exact ha
    · exact absurd (leapers_do_not_check hf hK hy ha) hyq
  rw [Bool.and_eq_true] at ha
  obtain ⟨hal, hpc⟩ := ha
  have hpcE := (pathClear_iff p y k).mp hpc
  have hyo : y ≠ org := by intro e; rw [e, hf.orgE] at hby; cases hby
  -- the start square of the pushed pawn is on the checker's line
  have horg : strictlyBetween y org k = true := by
    cases hsb : strictlyBetween y org k with
    | true => rfl
    | false =>
      exfalso
      have hKp := predPos_kingAt hf hK
      have hic := hf.pred
      unfold inCheck at hic
      rw [kingSq?_of_KingAt hKp] at hic
      simp only at hic
      unfold attackedBy at hic
      have hall := List.any_eq_false.mp hic y (allSq_mem y)
      have hpy : (predPos p q org).board y = p.board y := by
        rw [predPos_board, if_neg hyo, if_neg hyq]
      have hcol : (predPos p q org).colorAt y = some p.stm.other := by
        unfold Pos.colorAt; rw [hpy]; exact hy
      have hclear : pathClear (predPos p q org) y k = true := by
        rw [pathClear_iff]
        intro z hz
        have hzo : z ≠ org := by intro e; rw [e, hsb] at hz; cases hz
        unfold Pos.empty
        rw [predPos_board, if_neg hzo]
        by_cases hzq : z = q
        · rw [if_pos hzq]; rfl
        · rw [if_neg hzq]; exact hpcE z hz
      rw [hcol, attacks_eq, hpy, hal, hclear] at hall
      simp at hall
  -- the destination is not
  have hmid : strictlyBetween y m.dst k = false := by
    cases h : strictlyBetween y m.dst k with
    | false => rfl
    | true =>
      exfalso
      rw [hd] at h
      have hmr : mid.rank = org.rank + p.stm.other.fwd := by
        have h1 := hf.midR; have h2 := hf.orgR; have h3 := hf.rank; omega
      have hqr : q.rank = org.rank + 2 * p.stm.other.fwd := by
        have h2 := hf.orgR; have h3 := hf.rank; omega
      rcases ep_file_between (fwd_cases p.stm.other) (hf.midF.trans hf.orgF.symm) hmr hf.orgF.symm hqr horg h
        with e | e | e
      · exact hyq e.symm
      · exact hc.k_ne_q e.symm
      · have := hpcE q e
        unfold Pos.empty at this
        rw [hf.pawn] at this; cases this
  have hyd : y ≠ m.dst := by intro e; rw [e, hc.dst] at hby; cases hby
  have hys : y ≠ m.src := by
    intro e; rw [e, hc.src] at hby
    exact Color.other_ne p.stm (Prod.mk.inj (Option.some.inj hby)).2.symm
  have hby' : (apply p m).board y = p.board y := hc.after_other hyd hys hyq
  unfold inCheck
  rw [kingSq?_of_KingAt hc.after_king]
  simp only
  unfold attackedBy
  rw [allSq_any]
  refine ⟨y, ?_⟩
  have hcol : (apply p m).colorAt y = some p.stm.other := by
    unfold Pos.colorAt; rw [hby']; exact hy
  have hclear : pathClear (apply p m) y k = true := by
    rw [pathClear_iff]
    intro z hz
    have hzd : z ≠ m.dst := by intro e; rw [e, hmid] at hz; cases hz
    unfold Pos.empty
    rw [hc.after_board, if_neg hzd]
    by_cases hzs : z = m.src
    · rw [if_pos hzs]; rfl
    · rw [if_neg hzs]
      by_cases hzq : z = q
      · rw [if_pos hzq]; rfl
      · rw [if_neg hzq]; exact hpcE z hz
  rw [hcol, attacks_eq, hby', hal, hclear]
  simp

/-! ### 2. what `Good` gives -/

variable {T : Tables} {b : Board}

theorem _root_.Chess.Board.Good.core (h : b.Good T) : Core T b := h.1
theorem _root_.Chess.Board.Good.struct (h : b.Good T) : Struct b := h.1.toStruct
theorem _root_.Chess.Board.Good.pin (h : b.Good T) : b.PinOK T := h.2.1
theorem _root_.Chess.Board.Good.valid (h : b.Good T) : Valid b.abs = true := h.2.2
theorem _root_.Chess.Board.Good.validP (h : b.Good T) : Closure.ValidP b.abs := (Closure.valid_iff _).mp h.2.2

/-- each side has exactly one king -/
theorem _root_.Chess.Board.Good.oneKing (h : b.Good T) (c : Color) : (b.kings &&& b.colorCombined c).popcnt = 1 :=
  (h.struct.count_piece_color .king c).symm.trans (h.validP.king c)

/-- the kings are not adjacent: the side not to move is not in check, in particular not from the mover's
king, and adjacency of kings is symmetric -/
theorem _root_.Chess.Board.Good.kingsApart (h : b.Good T) : KingsApart b := by
  have hna := SaneCheck.nonadjacent_of_not_inCheck h.struct (h.oneKing .white) (h.oneKing .black)
    b.stm.other h.validP.notInCheck
  exact fun x hx => SaneCheck.kingsApart_of_nonadjacent h.struct (h.oneKing .white) (h.oneKing .black)
    hna b.stm x hx

theorem _root_.Chess.Board.Good.exact (hT : TablesOK T) (h : b.Good T) : Exact T b :=
  Exact.of_PinOK hT h.struct (h.oneKing b.stm) h.kingsApart h.pin

theorem _root_.Chess.Board.Good.ownKing_ne_zero (h : b.Good T) : own b .king ≠ 0#64 := by
  intro h0
  have hk := h.oneKing b.stm
  have e : b.kings &&& b.colorCombined b.stm = 0#64 := h0
  rw [e] at hk
  revert hk; decide

/-- `checkers() == EMPTY` is "the side to move is not in check" -/
theorem _root_.Chess.Board.Good.checkers_zero_iff (hT : TablesOK T) (h : b.Good T) :
    b.checkers = 0#64 ↔ inCheck b.abs b.stm = false := by
  rw [Assemble.checkers_zero_iff (h.exact hT).checkers]
  have e : inCheck b.abs b.stm = allSq.any (checkerSq b.abs) := PinStep.inCheck_eq_any_checkerSq b.abs
  rw [e, List.any_eq_false]
  constructor
  · intro hh x _; rw [hh x]; exact Bool.false_ne_true
  · intro hh x
    cases hx : checkerSq b.abs x with
    | false => rfl
    | true => exact absurd hx (hh x (allSq_mem x))

theorem _root_.Chess.Board.Good.inCheck_of_checkers_ne (hT : TablesOK T) (h : b.Good T) (h0 : b.checkers ≠ 0#64) :
    inCheck b.abs b.stm = true := by
  cases hh : inCheck b.abs b.stm with
  | true => rfl
  | false => exact absurd ((h.checkers_zero_iff hT).mpr hh) h0

/-! ### 3. en passant in double check -/

/-- in double check no en-passant capture is legal: one of the two checkers is not the marked pawn, and it
still gives check afterwards -/
theorem ep_illegal_double_check (hT : TablesOK T) (h : b.Good T) (h0 : b.checkers ≠ 0#64)
    (h1 : b.checkers.popcnt ≠ 1) {m : Move} (hl : legal b.abs m = true)
    (hep : isEnPassant b.abs m = true) : False := by
  have hE := h.exact hT
  have hs := h.struct
  have hepv := h.validP.ep
  have hpl := Closure.legal_pseudo hl
  obtain ⟨f1, f2, _, _, _, q, f6, f7, f8⟩ := ep_move_facts hpl hep
  have hK : KingAt b.abs b.abs.stm (b.kingSquare b.stm) := kingAt hs (h.oneKing b.stm)
  have hpr := ep_promo_none hT hs hepv hpl hep
  have hc : EpCtx b.abs m (b.kingSquare b.stm) q := ⟨hK, f1, f2, f8, f6, hpr, hep⟩
  obtain ⟨mid, org, hf⟩ := epFacts_of_epValid hepv f7
  have hd : m.dst = mid := by
    have := ((ep_source_iff hT hs hepv (show b.ep = some q from f7) m).mpr ⟨hpl, hep⟩).2.1
    rw [this]
    exact (epDest_coord hf).2.2
  have hks : kingSq? b.abs b.abs.stm = some (b.kingSquare b.stm) := hE.kingSq
  have hchk : ∀ x, checkerSq b.abs x = true →
      b.abs.colorAt x = some b.abs.stm.other ∧ attacks b.abs x (b.kingSquare b.stm) = true := by
    intro x hx
    unfold checkerSq at hx
    rw [hks] at hx
    simp only [Bool.and_eq_true, beq_iff_eq] at hx
    exact hx
  obtain ⟨x, y, hx, hy, hne⟩ := two_checkers hE.checkers h0 h1
  have hnc : inCheck (apply b.abs m) b.abs.stm = false := by
    unfold legal at hl
    simp only [Bool.and_eq_true, Bool.not_eq_true'] at hl
    exact hl.2
  by_cases hxq : x = q
  · have hyq : y ≠ q := fun e => hne (hxq.trans e.symm)
    have := ep_other_checker hf hc hd (hchk y hy).1 hyq (hchk y hy).2
    rw [hnc] at this; cases this
  · have := ep_other_checker hf hc hd (hchk x hx).1 hxq (hchk x hx).2
    rw [hnc] at this; cases this

/-! ### 4. the king's moves -/

/-- a move from the king's square: destination bit of the king entry and no promotion ⇔ legal -/
theorem king_move_iff (hT : TablesOK T) (h : b.Good T) (ic : Bool) (hic : inCheck b.abs b.stm = ic)
    (m : Move) (hsrc : m.src = b.kingSquare b.stm) :
    ((destsKing T b ic).getLsbD m.dst.val = true ∧ m.promo = none) ↔ legal b.abs m = true := by
  have hs := h.struct
  have hd := KingMoves.destsKing_iff hT hs (KingMoves.oneKing_of_valid hs h.valid)
    (KingMoves.backed_ks_of_valid hs h.valid) (KingMoves.backed_qs_of_valid hs h.valid) ic hic m.dst
  constructor
  · rintro ⟨h1, h2⟩
    have e : m = ⟨b.kingSquare b.stm, m.dst, none⟩ := by
      cases m; simp only at hsrc h2; subst hsrc h2; rfl
    rw [e]; exact hd.mp h1
  · intro hl
    have hpl := Closure.legal_pseudo hl
    have hb : b.abs.board m.src = some (.king, b.stm) := by
      rw [hsrc, abs_board]; exact content_kingSquare hs (h.oneKing b.stm)
    have hpr : m.promo = none := by
      unfold pseudoLegal at hpl
      rw [hb] at hpl
      simp only [Bool.and_eq_true, Option.isNone_iff_eq_none] at hpl
      exact hpl.2.1
    have e : m = ⟨b.kingSquare b.stm, m.dst, none⟩ := by
      cases m; simp only at hsrc hpr; subst hsrc hpr; rfl
    refine ⟨hd.mpr ?_, hpr⟩
    rw [← e]; exact hl

/-! ### 5. generated = legal -/

/-- in the regime the generator works in (no checker / one checker), `IsMove` is legality -/
theorem isMove_iff_legal (hT : TablesOK T) (h : b.Good T) {ic : Bool} (hr : Regime b ic)
    (hic : inCheck b.abs b.stm = ic) (m : Move) : IsMove T b ic m ↔ legal b.abs m = true := by
  have hE := h.exact hT
  have hepS := ep_section_iff hT h.struct (KingMoves.oneKing_of_valid h.struct h.valid) h.validP.ep m
  constructor
  · rintro (ho | he | ⟨_, h2, h3⟩)
    · exact ((isOrdinary_iff hE hr m).mp ho).2.1
    · exact (hepS.mp he).1
    · exact (king_move_iff hT h ic hic m ‹_›).mp ⟨h2, h3⟩
  · intro hl
    by_cases hsrc : m.src = b.kingSquare b.stm
    · obtain ⟨h2, h3⟩ := (king_move_iff hT h ic hic m hsrc).mpr hl
      exact Or.inr (Or.inr ⟨hsrc, h2, h3⟩)
    · cases hep : isEnPassant b.abs m with
      | false => exact Or.inl ((isOrdinary_iff hE hr m).mpr ⟨hsrc, hl, hep⟩)
      | true => exact Or.inr (Or.inl (hepS.mpr ⟨hl, hep⟩))

/-- **generated ⇔ legal**, every move value, all three check regimes -/
theorem movegen_mem_iff (hT : TablesOK T) (h : b.Good T) (m : Move) :
    m ∈ b.legalMoves T ↔ legal b.abs m = true := by
  rw [mem_legalMoves_cases]
  split
  · rename_i h0
    exact isMove_iff_legal hT h (Or.inl ⟨rfl, h0⟩) ((h.checkers_zero_iff hT).mp h0) m
  · rename_i h0
    have hic := h.inCheck_of_checkers_ne hT h0
    split
    · rename_i h1
      exact isMove_iff_legal hT h (Or.inr ⟨rfl, h1⟩) hic m
    · rename_i h1
      constructor
      · rintro ⟨hsrc, h2, h3⟩
        exact (king_move_iff hT h true hic m hsrc).mp ⟨h2, h3⟩
      · intro hl
        by_cases hsrc : m.src = b.kingSquare b.stm
        · obtain ⟨h2, h3⟩ := (king_move_iff hT h true hic m hsrc).mpr hl
          exact ⟨hsrc, h2, h3⟩
        · exfalso
          cases hep : isEnPassant b.abs m with
          | false =>
            have := double_check_illegal (h.exact hT) h0 h1 hsrc hep
            rw [hl] at this; cases this
          | true => exact ep_illegal_double_check hT h h0 h1 hl hep

/-- no move is generated twice -/
theorem movegen_nodup (hT : TablesOK T) (h : b.Good T) : (b.legalMoves T).Nodup :=
  legalMoves_nodup T b h.struct h.ownKing_ne_zero (noEpClash hT h.struct h.validP.ep _)

/-- `Board::legal(m)` answers FIDE legality -/
theorem legal_query_eq (hT : TablesOK T) (h : b.Good T) (m : Move) : b.legal T m = legal b.abs m :=
  Bool.eq_iff_iff.mpr ((legal_query_iff T b m).trans (movegen_mem_iff hT h m))

/-! ### 6. closure of `Good` -/

theorem good_tryFrom {bd : Builder} (ht : Board.tryFrom T bd = some b) (hv : Valid b.abs = true) :
    b.Good T :=
  ⟨(tryFrom_spec T bd b ht).1, Board.PinOK.tryFrom ht, hv⟩

/-- every valid position can be set up, and the board built holds it (with the en-passant mark under the
library's recording policy `norm`) -/
theorem good_of_valid_pos (hT : TablesOK T) {p : Pos} (hv : Valid p = true) :
    ∃ b, Board.tryFrom T p.toBuilder = some b ∧ b.abs = norm p ∧ b.Good T := by
  obtain ⟨b, h0, e1, e2, e3, e4, e5⟩ := SaneCheck.tryFrom_complete hT hv
  have habs : b.abs = norm p := Pos.ext' e1 e2 (funext e3) (funext e4) e5
  refine ⟨b, h0, habs, good_tryFrom h0 ?_⟩
  rw [habs]
  exact (Closure.valid_iff _).mpr (Closure.validP_norm ((Closure.valid_iff _).mp hv))

theorem nullMove_abs {b' : Board} (h : b.nullMove T = some b') :
    b'.abs = { b.abs with stm := b.stm.other, ep := none } := by
  obtain ⟨_, e⟩ := nullMove_some T b b' h
  subst e
  rfl

theorem good_nullMove (hT : TablesOK T) (hg : b.Good T) {b' : Board} (h : b.nullMove T = some b') :
    b'.Good T := by
  have habs := nullMove_abs h
  obtain ⟨h0, e⟩ := nullMove_some T b b' h
  have hv := hg.validP
  have hnc := (hg.checkers_zero_iff hT).mp h0
  refine ⟨?_, Board.PinOK.nullMove h, ?_⟩
  · subst e
    exact (SamePl.core_iff T (show SamePl (Board.updatePinInfo T { b with stm := b.stm.other, ep := none }) b
      from rfl)).mpr hg.core
  · rw [habs]
    refine (Closure.valid_iff _).mpr ⟨hv.king, hv.men, hv.pawns, hv.ck, hv.cq, hv.noPawn, ?_, rfl⟩
    show inCheck ({ b.abs with stm := b.stm.other, ep := none } : Pos) b.stm.other.other = false
    rw [Color.other_other]
    exact (Closure.inCheck_congr
      (show ({ b.abs with stm := b.stm.other, ep := none } : Pos).board = b.abs.board from rfl) b.stm).trans hnc

theorem good_makeMove (hT : TablesOK T) (hg : b.Good T) {m : Move} (hl : legal b.abs m = true) :
    ∃ b', b.makeMoveNew T m = some b' ∧ b'.Good T ∧ b'.abs = norm (apply b.abs m) := by
  have hv := hg.validP
  have hpl := Closure.legal_pseudo hl
  have hep := Valid_epSane hg.valid
  have hrs := Valid_rightsSane hg.valid
  obtain ⟨b', e, hc, habs⟩ := make_move_abs hT hg.core hpl hep hrs
  refine ⟨b', e, ⟨hc, PinStep.makeMove_pinOK hT hg.core hpl hep hrs (hv.king _) hv.notInCheck e, ?_⟩, habs⟩
  rw [habs]
  exact (Closure.valid_iff _).mpr (Closure.validP_norm (Closure.validP_step hv hl))

/-- making a move of the board's own generated list -/
theorem good_makeMove_generated (hT : TablesOK T) (hg : b.Good T) {m : Move} (hm : m ∈ b.legalMoves T)
    {b' : Board} (h : b.makeMoveNew T m = some b') :
    b'.Good T ∧ b'.abs = norm (apply b.abs m) ∧ legal b.abs m = true := by
  have hl := (movegen_mem_iff hT hg m).mp hm
  obtain ⟨b'', e, hg', habs⟩ := good_makeMove hT hg hl
  rw [h] at e
  injection e with e
  subst e
  exact ⟨hg', habs, hl⟩

/-- a generated move can always be made (no panic) -/
theorem makeMove_generated_some (hT : TablesOK T) (hg : b.Good T) {m : Move} (hm : m ∈ b.legalMoves T) :
    ∃ b', b.makeMoveNew T m = some b' :=
  let ⟨b', e, _⟩ := good_makeMove hT hg ((movegen_mem_iff hT hg m).mp hm)
  ⟨b', e⟩

/-- the boards reached from the board `b₀` by the library's own operations: null moves and moves taken
from the generated move list -/
inductive PlaysTo (T : Tables) (b₀ : Board) : Board → Prop
  | refl : PlaysTo T b₀ b₀
  | null (b b' : Board) : PlaysTo T b₀ b → b.nullMove T = some b' → PlaysTo T b₀ b'
  | move (b b' : Board) (m : Move) : PlaysTo T b₀ b → m ∈ b.legalMoves T → b.makeMoveNew T m = some b' →
      PlaysTo T b₀ b'

/-- boards set up directly (`try_from` accepts and the position is valid) or reached from such a board by
any sequence of null moves and generated moves -/
inductive PlayReachable (T : Tables) : Board → Prop
  | start (bd : Builder) (b : Board) : Board.tryFrom T bd = some b → Valid b.abs = true → PlayReachable T b
  | null (b b' : Board) : PlayReachable T b → b.nullMove T = some b' → PlayReachable T b'
  | move (b b' : Board) (m : Move) : PlayReachable T b → m ∈ b.legalMoves T → b.makeMoveNew T m = some b' →
      PlayReachable T b'

theorem PlaysTo.good (hT : TablesOK T) {b₀ : Board} (h0 : b₀.Good T) {b : Board} (h : PlaysTo T b₀ b) :
    b.Good T := by
  induction h with
  | refl => exact h0
  | null b b' _ hn ih => exact good_nullMove hT ih hn
  | move b b' m _ hm hmk ih => exact (good_makeMove_generated hT ih hm hmk).1

theorem PlayReachable.good (hT : TablesOK T) {b : Board} (h : PlayReachable T b) : b.Good T := by
  induction h with
  | start bd b ht hv => exact good_tryFrom ht hv
  | null b b' _ hn ih => exact good_nullMove hT ih hn
  | move b b' m _ hm hmk ih => exact (good_makeMove_generated hT ih hm hmk).1

/-- reachability by generated moves is reachability by FIDE-legal moves (`PinStep.Reached`) -/
theorem playReachable_iff_reached (hT : TablesOK T) (b : Board) : PlayReachable T b ↔ PinStep.Reached T b := by
  constructor
  · intro h
    induction h with
    | start bd b ht hv => exact .start bd b ht hv
    | null b b' _ hn ih => exact .null b b' ih hn
    | move b b' m hb hm hmk ih => exact .move b b' m ih ((movegen_mem_iff hT (hb.good hT) m).mp hm) hmk
  · intro h
    induction h with
    | start bd b ht hv => exact .start bd b ht hv
    | null b b' _ hn ih => exact .null b b' ih hn
    | move b b' m _ hl hmk ih => exact .move b b' m ih ((movegen_mem_iff hT (ih.good hT) m).mpr hl) hmk

theorem PlaysTo.reachable {b₀ b : Board} (h0 : PlayReachable T b₀) (h : PlaysTo T b₀ b) : PlayReachable T b := by
  induction h with
  | refl => exact h0
  | null b b' _ hn ih => exact .null b b' ih hn
  | move b b' m _ hm hmk ih => exact .move b b' m ih hm hmk

/-! ### 7. monotone quantities along play (C05 on the model) -/

/-- castling rights, men and pawns of `q` are at most those of `p` -/
structure Shrinks (p q : Pos) : Prop where
  castleK : ∀ c, q.castleK c = true → p.castleK c = true
  castleQ : ∀ c, q.castleQ c = true → p.castleQ c = true
  men : ∀ c, count q (·.2 == c) ≤ count p (·.2 == c)
  pawns : ∀ c, count q (· == (.pawn, c)) ≤ count p (· == (.pawn, c))

theorem Shrinks.refl (p : Pos) : Shrinks p p :=
  ⟨fun _ h => h, fun _ h => h, fun _ => Nat.le_refl _, fun _ => Nat.le_refl _⟩

theorem Shrinks.trans {p q r : Pos} (h1 : Shrinks p q) (h2 : Shrinks q r) : Shrinks p r :=
  ⟨fun c h => h1.castleK c (h2.castleK c h), fun c h => h1.castleQ c (h2.castleQ c h),
   fun c => Nat.le_trans (h2.men c) (h1.men c), fun c => Nat.le_trans (h2.pawns c) (h1.pawns c)⟩

theorem shrinks_move (p : Pos) (m : Move) (hpl : pseudoLegal p m = true) : Shrinks p (norm (apply p m)) :=
  ⟨fun _ => Closure.rights_shrinkK, fun _ => Closure.rights_shrinkQ,
   fun c => Closure.men_shrink hpl c, fun c => Closure.pawns_shrink hpl c⟩

theorem shrinks_null (p : Pos) (c : Color) : Shrinks p { p with stm := c, ep := none } :=
  ⟨fun _ h => h, fun _ h => h, fun _ => Nat.le_refl _, fun _ => Nat.le_refl _⟩

theorem PlaysTo.shrinks (hT : TablesOK T) {b₀ : Board} (h0 : b₀.Good T) {b : Board} (h : PlaysTo T b₀ b) :
    Shrinks b₀.abs b.abs := by
  induction h with
  | refl => exact Shrinks.refl _
  | null b b' _ hn ih =>
    refine ih.trans ?_
    rw [nullMove_abs hn]
    exact shrinks_null _ _
  | move b b' m hb hm hmk ih =>
    refine ih.trans ?_
    obtain ⟨_, habs, hl⟩ := good_makeMove_generated hT (hb.good hT h0) hm hmk
    rw [habs]
    exact shrinks_move _ _ (Closure.legal_pseudo hl)

/-! ### 8. the generated list against the specification's list -/

/-- the specification's candidate list has no repetition -/
theorem candidates_nodup (p : Pos) : (candidates p).Nodup := by
  unfold candidates List.Nodup
  rw [List.pairwise_flatMap]
  constructor
  · intro s _
    rw [List.pairwise_flatMap]
    constructor
    · intro d _
      rw [List.pairwise_map]
      have hnd : (none :: promoPieces.map some).Nodup := by decide
      exact hnd.imp (fun hne heq => hne (by injection heq))
    · refine allSq_nodup.imp ?_
      intro d1 d2 hne x hx y hy hxy
      simp only [List.mem_map] at hx hy
      obtain ⟨_, _, hx⟩ := hx
      obtain ⟨_, _, hy⟩ := hy
      subst hx hy
      injection hxy with _ h2 _
      exact hne h2
  · refine (List.Nodup.sublist List.filter_sublist allSq_nodup).imp ?_
    intro s1 s2 hne x hx y hy hxy
    simp only [List.mem_flatMap, List.mem_map] at hx hy
    obtain ⟨_, _, _, _, hx⟩ := hx
    obtain ⟨_, _, _, _, hy⟩ := hy
    subst hx hy
    injection hxy with h1 _ _
    exact hne h1

theorem genExact (hT : TablesOK T) (h : b.Good T) : San.GenExact T b :=
  ⟨movegen_nodup hT h, fun m =>
    ⟨fun hm => let hl := (movegen_mem_iff hT h m).mp hm; ⟨hl, San.legal_mem_candidates hl⟩,
     fun hm => (movegen_mem_iff hT h m).mpr hm.1⟩⟩

/-- the generated list is a rearrangement of the specification's list of legal moves -/
theorem legalMoves_perm (hT : TablesOK T) (h : b.Good T) : (b.legalMoves T).Perm (Chess.legalMoves b.abs) := by
  show (b.legalMoves T).Perm ((candidates b.abs).filter (legal b.abs))
  rw [List.perm_ext_iff_of_nodup (movegen_nodup hT h)
    (List.Nodup.sublist List.filter_sublist (candidates_nodup b.abs))]
  intro m
  rw [List.mem_filter, (genExact hT h).2 m]
  exact And.comm

/-- the invariant of `Lemmas/PinOKStep.lean` is `Good` plus "the en-passant mark is recorded under the
library's policy" -/
theorem good_of_reachInv (h : PinStep.ReachInv T b) : b.Good T := ⟨h.core, h.pin, h.valid⟩

theorem reachInv_of_playReachable (hT : TablesOK T) (h : PlayReachable T b) : PinStep.ReachInv T b :=
  ((playReachable_iff_reached hT b).mp h).inv hT

end Final
end Chess
