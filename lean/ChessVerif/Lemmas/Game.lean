import ChessVerif.Model.Game
/-!
# Lemmas about the model of `game.rs` (`Chess.Game`)

Used by `Props/C10.lean` and `Props/C11.lean`.  Everything holds for every `T : Tables`.
-/
namespace Chess

/-! ### a move flips the side to move -/
namespace Board

@[simp] theorem xorPieces_stm (b : Board) (p : Piece) (bb : BB) : (b.xorPieces p bb).stm = b.stm := by
  cases p <;> rfl
@[simp] theorem xorColor_stm (b : Board) (c : Color) (bb : BB) : (b.xorColor c bb).stm = b.stm := by
  cases c <;> rfl
@[simp] theorem xor_stm (T : Tables) (b : Board) (p : Piece) (bb : BB) (c : Color) :
    (b.xor T p bb c).stm = b.stm := by
  simp [Board.xor]
@[simp] theorem setCastleRights_stm (b : Board) (c : Color) (cr : CastleRights) :
    (b.setCastleRights c cr).stm = b.stm := by
  cases c <;> rfl
@[simp] theorem setEp_stm (T : Tables) (b : Board) (s : Sq) : (b.setEp T s).stm = b.stm := by
  unfold Board.setEp; split <;> rfl

/-- `make_move_new` succeeds exactly when the source square is occupied (the only `unwrap`) -/
theorem makeMoveNew_isSome_iff (T : Tables) (b : Board) (m : Move) :
    (b.makeMoveNew T m).isSome = (b.pieceOn m.src).isSome := by
  unfold Board.makeMoveNew
  extract_lets result source dest sourceBB destBB moveBB
  split
  · rename_i h; simp [source] at h; simp [h]
  · rename_i p h
    simp [source] at h; simp only [h, Option.isSome_some]

theorem makeMoveNew_stm {T : Tables} {b b' : Board} {m : Move} (h : b.makeMoveNew T m = some b') :
    b'.stm = b.stm.other := by
  unfold Board.makeMoveNew at h
  extract_lets result source dest sourceBB destBB moveBB at h
  split at h
  · cases h
  · extract_lets r1 r2 r3 r4 r5 oppKing castles ksq rPromo rDbl rEpCap res att at h
    have h3 : r3.stm = b.stm := by
      simp only [r3]; split <;> simp [r2, r1, result]
    have h5 : r5.stm = b.stm := by simp [r5, r4, h3]
    have hres : res.stm = b.stm := by
      simp only [res]
      split
      · exact h5
      · split
        · split
          · simp [rPromo, h5]
          · simp [h5]
          · split
            · simp [rDbl, h5]
            · split
              · simp [rEpCap, h5]
              · exact h5
        · split
          · simp [h5]
          · exact h5
    generalize sliderScan T res.combined ksq att.toList (res.pinned, res.checkers) = pc at h
    obtain ⟨p, c⟩ := pc
    simp only [Option.some.injEq] at h
    subst h
    simp [hres]

end Board

/-- induction over a list from the right -/
theorem List.snoc_induction {α : Type _} {P : List α → Prop} (nil : P [])
    (snoc : ∀ l a, P l → P (l ++ [a])) : ∀ l, P l := by
  intro l
  rw [← List.reverse_reverse l]
  induction l.reverse with
  | nil => exact nil
  | cons a t ih => rw [List.reverse_cons]; exact snoc _ _ ih

namespace Game

/-! ### replaying the log -/

/-- one step of the replay in `currentPosition` -/
def stepPos (T : Tables) (ob : Option Board) (a : Action) : Option Board :=
  match a with
  | .makeMove m => ob.bind fun b => b.makeMoveNew T m
  | _ => ob

theorem currentPosition_eq_foldl (T : Tables) (g : Game) :
    g.currentPosition T = g.moves.foldl (stepPos T) (some g.startPos) := rfl

@[simp] theorem currentPosition_nil (T : Tables) (s : Board) :
    currentPosition T ⟨s, []⟩ = some s := rfl

theorem currentPosition_snoc (T : Tables) (s : Board) (l : List Action) (a : Action) :
    currentPosition T ⟨s, l ++ [a]⟩ = stepPos T (currentPosition T ⟨s, l⟩) a := by
  simp [currentPosition_eq_foldl, List.foldl_append]

theorem currentPosition_snoc_move (T : Tables) (s : Board) (l : List Action) (m : Move) :
    currentPosition T ⟨s, l ++ [.makeMove m]⟩ =
      (currentPosition T ⟨s, l⟩).bind fun b => b.makeMoveNew T m := currentPosition_snoc T s l _

theorem currentPosition_snoc_other (T : Tables) (s : Board) (l : List Action) (a : Action)
    (ha : isMove a = false) : currentPosition T ⟨s, l ++ [a]⟩ = currentPosition T ⟨s, l⟩ := by
  rw [currentPosition_snoc]; cases a <;> simp_all [stepPos, isMove]

theorem foldl_stepPos_none (T : Tables) (l : List Action) : l.foldl (stepPos T) none = none := by
  induction l with
  | nil => rfl
  | cons a t ih => cases a <;> simpa [stepPos] using ih

/-- the `Move`s of the log -/
def moveOf : Action → Option Move | .makeMove m => some m | _ => none

/-- `currentPosition` is the start position advanced by exactly the `makeMove` actions of the log,
in order (`none` as soon as one `make_move_new` panics) -/
theorem currentPosition_eq_foldlM (T : Tables) (g : Game) :
    g.currentPosition T = (g.moves.filterMap moveOf).foldlM (fun b m => b.makeMoveNew T m) g.startPos := by
  obtain ⟨s, l⟩ := g
  rw [currentPosition_eq_foldl]
  simp only
  induction l generalizing s with
  | nil => rfl
  | cons a t ih =>
    cases a with
    | makeMove m =>
      simp only [List.foldl_cons, stepPos, Option.bind_some, moveOf, List.filterMap_cons,
        List.foldlM_cons]
      cases h : s.makeMoveNew T m with
      | none => simp [foldl_stepPos_none]
      | some b' => simpa using ih b'
    | _ => simpa [stepPos, moveOf, List.filterMap_cons] using ih s

/-! ### side to move -/

theorem sideToMove_nil (s : Board) : sideToMove ⟨s, []⟩ = s.stm := by
  cases h : s.stm <;> simp [sideToMove, h]

theorem sideToMove_snoc_move (s : Board) (l : List Action) (m : Move) :
    sideToMove ⟨s, l ++ [.makeMove m]⟩ = (sideToMove ⟨s, l⟩).other := by
  simp only [sideToMove, List.filter_append, List.length_append, List.filter_cons, isMove,
    List.filter_nil, if_true, List.length_cons, List.length_nil]
  generalize (List.filter isMove l).length = n
  generalize (if s.stm = Color.white then 0 else 1) = k
  split <;> split <;> first | rfl | omega

theorem sideToMove_snoc_other (s : Board) (l : List Action) (a : Action) (ha : isMove a = false) :
    sideToMove ⟨s, l ++ [a]⟩ = sideToMove ⟨s, l⟩ := by
  simp [sideToMove, List.filter_append, ha]

/-- the side to move computed by parity is the side to move of the replayed position -/
theorem currentPosition_stm (T : Tables) (g : Game) {cur : Board}
    (h : g.currentPosition T = some cur) : cur.stm = g.sideToMove := by
  obtain ⟨s, l⟩ := g
  induction l using List.snoc_induction generalizing cur with
  | nil => simp at h; subst h; exact (sideToMove_nil _).symm
  | snoc l a ih =>
    cases a with
    | makeMove m =>
      rw [currentPosition_snoc_move] at h
      rw [sideToMove_snoc_move]
      cases hc : currentPosition T ⟨s, l⟩ with
      | none => simp [hc] at h
      | some c =>
        simp [hc] at h
        rw [Board.makeMoveNew_stm h, ih hc]
    | _ =>
      rw [currentPosition_snoc_other _ _ _ _ rfl] at h
      rw [sideToMove_snoc_other _ _ _ rfl]
      exact ih h

/-! ### `result` -/

theorem result_eq_none_iff (T : Tables) (g : Game) : g.result T = none ↔ g.currentPosition T = none := by
  unfold result
  cases g.currentPosition T with
  | none => simp
  | some cur =>
    simp only [reduceCtorEq, iff_false]
    split <;> (try split) <;> simp

theorem currentPosition_of_result {T : Tables} {g : Game} {r : Option GameResult}
    (h : g.result T = some r) : ∃ cur, g.currentPosition T = some cur := by
  cases hc : g.currentPosition T with
  | none => rw [(result_eq_none_iff T g).2 hc] at h; cases h
  | some cur => exact ⟨cur, rfl⟩

/-- `result` written out: mate and stalemate come from the position, everything else from the last action -/
theorem result_of_currentPosition {T : Tables} {g : Game} {cur : Board}
    (hc : g.currentPosition T = some cur) :
    g.result T = some (
      match cur.status T with
      | .checkmate => some (if cur.stm = .white then .blackCheckmates else .whiteCheckmates)
      | .stalemate => some .stalemate
      | .ongoing =>
        match g.moves.getLast? with
        | some .acceptDraw => some .drawAccepted
        | some .declareDraw => some .drawDeclared
        | some (.resign .white) => some .whiteResigns
        | some (.resign .black) => some .blackResigns
        | _ => none) := by
  unfold result
  rw [hc, ← currentPosition_stm T g hc]
  cases hs : cur.status T <;> simp only [hs]
  cases hl : g.moves.getLast? with
  | none => rfl
  | some a => cases a <;> first | rfl | (rename_i c; cases c <;> rfl)

/-- no result: the position is ongoing and the last action (if any) is a move or a draw offer -/
theorem result_none_iff {T : Tables} {g : Game} :
    g.result T = some none ↔
      ∃ cur, g.currentPosition T = some cur ∧ cur.status T = .ongoing ∧
        (g.moves.getLast? = none ∨ (∃ m, g.moves.getLast? = some (.makeMove m)) ∨
          (∃ c, g.moves.getLast? = some (.offerDraw c))) := by
  constructor
  · intro h
    obtain ⟨cur, hc⟩ := currentPosition_of_result h
    refine ⟨cur, hc, ?_⟩
    rw [result_of_currentPosition hc] at h
    cases hs : cur.status T <;> simp only [hs] at h
    · refine ⟨rfl, ?_⟩
      cases hl : g.moves.getLast? with
      | none => simp
      | some a =>
        rw [hl] at h
        cases a with
        | makeMove m => simp
        | offerDraw c => simp
        | acceptDraw => simp at h
        | declareDraw => simp at h
        | resign c => cases c <;> simp at h
    · simp at h
    · simp at h
  · rintro ⟨cur, hc, hs, hl⟩
    rw [result_of_currentPosition hc, hs]
    rcases hl with hl | ⟨m, hl⟩ | ⟨c, hl⟩ <;> simp [hl]

/-! ### the five operations, uniformly -/

/-- a request is an `Action`; `perform` dispatches to the five mutating methods -/
def perform (T : Tables) (g : Game) : Action → Option (Game × Bool)
  | .makeMove m => g.makeMove T m
  | .offerDraw c => g.offerDraw T c
  | .acceptDraw => g.acceptDraw T
  | .declareDraw => g.declareDraw T
  | .resign c => g.resign T c

theorem makeMove_spec {T : Tables} {g g' : Game} {m : Move} {acc : Bool}
    (h : g.makeMove T m = some (g', acc)) :
    (acc = true ↔ g.result T = some none ∧ ∃ cur, g.currentPosition T = some cur ∧ cur.legal T m = true) ∧
    (acc = true → g' = { g with moves := g.moves ++ [.makeMove m] }) ∧ (acc = false → g' = g) := by
  unfold makeMove at h
  split at h
  · cases h
  · rename_i r hr
    simp only [Option.some.injEq, Prod.mk.injEq] at h
    obtain ⟨rfl, rfl⟩ := h
    simp [hr]
  · rename_i hr
    split at h
    · cases h
    · rename_i cur hc
      split at h <;> rename_i hl <;> simp only [Option.some.injEq, Prod.mk.injEq] at h <;>
        obtain ⟨rfl, rfl⟩ := h <;> simp [hr, hc, hl]

theorem offerDraw_spec {T : Tables} {g g' : Game} {c : Color} {acc : Bool}
    (h : g.offerDraw T c = some (g', acc)) :
    (acc = true ↔ g.result T = some none) ∧
    (acc = true → g' = { g with moves := g.moves ++ [.offerDraw c] }) ∧ (acc = false → g' = g) := by
  unfold offerDraw at h
  cases hr : g.result T with
  | none => simp [hr] at h
  | some r =>
    cases r <;> simp only [hr, Option.map_some, Option.some.injEq, Prod.mk.injEq] at h <;>
      obtain ⟨rfl, rfl⟩ := h <;> simp

theorem resign_spec {T : Tables} {g g' : Game} {c : Color} {acc : Bool}
    (h : g.resign T c = some (g', acc)) :
    (acc = true ↔ g.result T = some none) ∧
    (acc = true → g' = { g with moves := g.moves ++ [.resign c] }) ∧ (acc = false → g' = g) := by
  unfold resign at h
  cases hr : g.result T with
  | none => simp [hr] at h
  | some r =>
    cases r <;> simp only [hr, Option.map_some, Option.some.injEq, Prod.mk.injEq] at h <;>
      obtain ⟨rfl, rfl⟩ := h <;> simp

/-- the condition `accept_draw` tests on the log -/
def acceptCond (g : Game) : Prop :=
  (g.moves.length > 0 ∧ (g.moves[g.moves.length - 1]? = some (.offerDraw .white) ∨
      g.moves[g.moves.length - 1]? = some (.offerDraw .black))) ∨
  (g.moves.length > 1 ∧ g.moves[g.moves.length - 2]? = some (.offerDraw g.sideToMove.other))

theorem acceptDraw_spec {T : Tables} {g g' : Game} {acc : Bool}
    (h : g.acceptDraw T = some (g', acc)) :
    (acc = true ↔ g.result T = some none ∧ acceptCond g) ∧
    (acc = true → g' = { g with moves := g.moves ++ [.acceptDraw] }) ∧ (acc = false → g' = g) := by
  unfold acceptDraw at h
  cases hr : g.result T with
  | none => simp [hr] at h
  | some r =>
    cases r with
    | some r =>
      simp only [hr, Option.map_some, Option.some.injEq, Prod.mk.injEq] at h
      obtain ⟨rfl, rfl⟩ := h; simp
    | none =>
      simp only [hr, Option.map_some, Option.some.injEq] at h
      split at h
      · rename_i h1
        simp only [Prod.mk.injEq] at h; obtain ⟨rfl, rfl⟩ := h
        simp [acceptCond, h1]
      · rename_i h1
        split at h
        · rename_i h2
          simp only [Prod.mk.injEq] at h; obtain ⟨rfl, rfl⟩ := h
          simp [acceptCond, h2]
        · rename_i h2
          simp only [Prod.mk.injEq] at h; obtain ⟨rfl, rfl⟩ := h
          simp only [acceptCond, Bool.false_eq_true, false_iff, true_and, not_or, false_imp_iff,
            imp_true_iff, and_true]
          exact ⟨h1, h2⟩

theorem declareDraw_spec {T : Tables} {g g' : Game} {acc : Bool}
    (h : g.declareDraw T = some (g', acc)) :
    (acc = true ↔ g.canDeclareDraw T = some true) ∧
    (acc = true → g' = { g with moves := g.moves ++ [.declareDraw] }) ∧ (acc = false → g' = g) := by
  unfold declareDraw at h
  cases hc : g.canDeclareDraw T with
  | none => simp [hc] at h
  | some ok =>
    cases ok <;> simp [hc] at h <;> obtain ⟨rfl, rfl⟩ := h <;> simp

theorem canDeclareDraw_true_result {T : Tables} {g : Game} (h : g.canDeclareDraw T = some true) :
    g.result T = some none := by
  unfold canDeclareDraw at h
  split at h
  · cases h
  · simp at h
  · assumption

theorem canDeclareDraw_of_result {T : Tables} {g : Game} {r : GameResult}
    (hr : g.result T = some (some r)) : g.canDeclareDraw T = some false := by
  unfold canDeclareDraw; rw [hr]

/-- whatever is requested: the start position stays, an accepted request is appended to the log,
a refused one leaves the game untouched -/
theorem perform_spec {T : Tables} {g g' : Game} {a : Action} {acc : Bool}
    (h : g.perform T a = some (g', acc)) :
    (acc = true → g' = { g with moves := g.moves ++ [a] }) ∧ (acc = false → g' = g) := by
  cases a with
  | makeMove m => exact (makeMove_spec h).2
  | offerDraw c => exact (offerDraw_spec h).2
  | acceptDraw => exact (acceptDraw_spec h).2
  | declareDraw => exact (declareDraw_spec h).2
  | resign c => exact (resign_spec h).2

/-- nothing is accepted unless the game has no result, and an accepted move is legal -/
theorem perform_accepted {T : Tables} {g g' : Game} {a : Action}
    (h : g.perform T a = some (g', true)) :
    g.result T = some none ∧
      ∀ m, a = .makeMove m → ∃ cur, g.currentPosition T = some cur ∧ cur.legal T m = true := by
  cases a with
  | makeMove m =>
    have := ((makeMove_spec h).1.1 rfl)
    exact ⟨this.1, fun m' hm => by cases hm; exact this.2⟩
  | offerDraw c => exact ⟨(offerDraw_spec h).1.1 rfl, fun _ hm => by cases hm⟩
  | acceptDraw => exact ⟨((acceptDraw_spec h).1.1 rfl).1, fun _ hm => by cases hm⟩
  | declareDraw =>
    exact ⟨canDeclareDraw_true_result ((declareDraw_spec h).1.1 rfl), fun _ hm => by cases hm⟩
  | resign c => exact ⟨(resign_spec h).1.1 rfl, fun _ hm => by cases hm⟩

/-- once there is a result every request is refused and the game is returned unchanged -/
theorem perform_of_result {T : Tables} {g : Game} {r : GameResult}
    (hr : g.result T = some (some r)) (a : Action) : g.perform T a = some (g, false) := by
  cases a with
  | makeMove m => simp [perform, makeMove, hr]
  | offerDraw c => simp [perform, offerDraw, hr]
  | acceptDraw => simp [perform, acceptDraw, hr]
  | declareDraw => simp [perform, declareDraw, canDeclareDraw_of_result hr]
  | resign c => simp [perform, resign, hr]

/-! ### `accept_draw` looks at `moves[n-2]` without checking that `moves[n-1]` is a move -/

theorem acceptCond_shape {T : Tables} {g : Game} (hr : g.result T = some none) (hc : acceptCond g) :
    (∃ c, g.moves.getLast? = some (.offerDraw c)) ∨
    (∃ m pre, g.moves = pre ++ [.offerDraw g.sideToMove.other, .makeMove m]) := by
  rcases hc with ⟨_, h1⟩ | ⟨hn, h2⟩
  · rw [← List.getLast?_eq_getElem?] at h1
    rcases h1 with h1 | h1 <;> exact .inl ⟨_, h1⟩
  · obtain ⟨cur, _, _, hl⟩ := result_none_iff.1 hr
    rcases hl with hl | ⟨m, hl⟩ | ⟨c, hl⟩
    · rw [List.getLast?_eq_none_iff] at hl; simp [hl] at hn
    · right
      obtain ⟨ys, hys⟩ := List.getLast?_eq_some_iff.1 hl
      have hlen : g.moves.length = ys.length + 1 := by simp [hys]
      have h3 : ys.getLast? = some (.offerDraw g.sideToMove.other) := by
        rw [List.getLast?_eq_getElem?, ← h2, hlen]
        have : ys.length + 1 - 2 = ys.length - 1 := by omega
        rw [this]
        conv => rhs; rw [hys]
        rw [List.getElem?_append_left (by omega)]
      obtain ⟨pre, hpre⟩ := List.getLast?_eq_some_iff.1 h3
      exact ⟨m, pre, by rw [hys, hpre]; simp⟩
    · exact .inl ⟨c, hl⟩

/-! ### the log invariant -/

/-- every action of the log was accepted: the game consisting of the actions before it had no
result, and if it is a move, the move was legal in the position reached before it -/
def LogOK (T : Tables) (g : Game) : Prop :=
  ∀ k a, g.moves[k]? = some a →
    result T ⟨g.startPos, g.moves.take k⟩ = some none ∧
    ∀ m, a = .makeMove m →
      ∃ cur, currentPosition T ⟨g.startPos, g.moves.take k⟩ = some cur ∧ cur.legal T m = true

theorem LogOK_nil (T : Tables) (s : Board) : LogOK T ⟨s, []⟩ := by
  intro k a h; simp at h

/-- `LogOK` in terms of splittings of the log -/
theorem LogOK_iff_split (T : Tables) (g : Game) :
    LogOK T g ↔ ∀ pre a post, g.moves = pre ++ a :: post →
      result T ⟨g.startPos, pre⟩ = some none ∧
      ∀ m, a = .makeMove m → ∃ cur, currentPosition T ⟨g.startPos, pre⟩ = some cur ∧ cur.legal T m = true := by
  constructor
  · intro h pre a post hs
    have := h pre.length a (by simp [hs])
    simpa [hs] using this
  · intro h k a hk
    have hlt : k < g.moves.length := (List.getElem?_eq_some_iff.1 hk).1
    have ha : g.moves[k] = a := (List.getElem?_eq_some_iff.1 hk).2
    refine h (g.moves.take k) a (g.moves.drop (k + 1)) ?_
    rw [← ha, List.getElem_cons_drop, List.take_append_drop]

theorem LogOK_snoc {T : Tables} {g : Game} {a : Action} (h : LogOK T g)
    (hr : g.result T = some none)
    (hm : ∀ m, a = .makeMove m → ∃ cur, g.currentPosition T = some cur ∧ cur.legal T m = true) :
    LogOK T { g with moves := g.moves ++ [a] } := by
  intro k x hk
  simp only at hk ⊢
  by_cases hlt : k < g.moves.length
  · rw [List.getElem?_append_left hlt] at hk
    rw [List.take_append_of_le_length (by omega)]
    exact h k x hk
  · have hk' := (List.getElem?_eq_some_iff.1 hk).1
    simp only [List.length_append, List.length_cons, List.length_nil] at hk'
    have hkeq : k = g.moves.length := by omega
    subst hkeq
    simp only [List.getElem?_append_right (Nat.le_refl _), Nat.sub_self, List.getElem?_cons_zero,
      Option.some.injEq] at hk
    subst hk
    rw [List.take_append_of_le_length (Nat.le_refl _), List.take_length]
    exact ⟨hr, hm⟩

/-- every operation preserves the invariant -/
theorem LogOK_perform {T : Tables} {g g' : Game} {a : Action} {acc : Bool} (h : LogOK T g)
    (hp : g.perform T a = some (g', acc)) : LogOK T g' := by
  cases acc with
  | false => rw [(perform_spec hp).2 rfl]; exact h
  | true =>
    rw [(perform_spec hp).1 rfl]
    exact LogOK_snoc h (perform_accepted hp).1 (perform_accepted hp).2

/-- the replay of a log satisfying the invariant cannot panic, provided a legal move of a position
*of this game* never hits the `unwrap` of `make_move_new` (see `Props/C10.lean` for why this
hypothesis cannot be dropped for arbitrary `Board` values) -/
theorem LogOK_currentPosition_isSome {T : Tables} {g : Game} (h : LogOK T g)
    (hsafe : ∀ k cur m, currentPosition T ⟨g.startPos, g.moves.take k⟩ = some cur →
      cur.legal T m = true → (cur.makeMoveNew T m).isSome) :
    (g.currentPosition T).isSome := by
  obtain ⟨s, l⟩ := g
  rcases List.eq_nil_or_concat l with rfl | ⟨pre, a, rfl⟩
  · simp
  · rw [List.concat_eq_append] at h hsafe ⊢
    have hk := h pre.length a (by simp)
    simp only [List.take_left'] at hk
    obtain ⟨cur, hcur⟩ := currentPosition_of_result hk.1
    cases a with
    | makeMove m =>
      obtain ⟨cur', hcur', hl⟩ := hk.2 m rfl
      rw [currentPosition_snoc_move, hcur']
      simp only [Option.bind_some]
      exact hsafe pre.length cur' m (by simpa using hcur') hl
    | _ => rw [currentPosition_snoc_other _ _ _ _ rfl, hcur]; rfl

/-! ### a sequence of requests -/

/-- perform the requests in order; returns the final game and the requests that were accepted -/
def run (T : Tables) : Game → List Action → Option (Game × List Action)
  | g, [] => some (g, [])
  | g, a :: rest =>
    match g.perform T a with
    | none => none
    | some (g', acc) => (run T g' rest).map fun (gf, l) => (gf, if acc then a :: l else l)

/-- the log is the old log followed by precisely the accepted requests, in order -/
theorem run_log {T : Tables} {g gf : Game} {reqs accd : List Action}
    (h : run T g reqs = some (gf, accd)) :
    gf.startPos = g.startPos ∧ gf.moves = g.moves ++ accd ∧ accd.Sublist reqs := by
  induction reqs generalizing g accd with
  | nil => simp [run] at h; obtain ⟨rfl, rfl⟩ := h; simp
  | cons a rest ih =>
    unfold run at h
    split at h
    · cases h
    · rename_i g' acc hp
      cases hr : run T g' rest with
      | none => simp [hr] at h
      | some p =>
        obtain ⟨gf', l⟩ := p
        simp only [hr, Option.map_some, Option.some.injEq, Prod.mk.injEq] at h
        obtain ⟨rfl, rfl⟩ := h
        obtain ⟨h1, h2, h3⟩ := ih hr
        cases acc with
        | true =>
          have := (perform_spec hp).1 rfl
          subst this
          simp_all
        | false =>
          have := (perform_spec hp).2 rfl
          subst this
          simp_all

theorem LogOK_run {T : Tables} {g gf : Game} {reqs accd : List Action} (hg : LogOK T g)
    (h : run T g reqs = some (gf, accd)) : LogOK T gf := by
  induction reqs generalizing g accd with
  | nil => simp [run] at h; obtain ⟨rfl, rfl⟩ := h; exact hg
  | cons a rest ih =>
    unfold run at h
    split at h
    · cases h
    · rename_i g' acc hp
      cases hr : run T g' rest with
      | none => simp [hr] at h
      | some p =>
        obtain ⟨gf', l⟩ := p
        simp only [hr, Option.map_some, Option.some.injEq, Prod.mk.injEq] at h
        obtain ⟨rfl, rfl⟩ := h
        exact ih (LogOK_perform hg hp) hr

/-! ### C11: the scan of `can_declare_draw` -/

/-- the entry `can_declare_draw` records for a position -/
def entry (T : Tables) (b : Board) : BB × List Move := (b.getHash T, b.legalMoves T)

/-- the test the code uses for "pawn move or capture": a pawn stands on the source square, or the
destination square is occupied (an en-passant capture is a pawn move) -/
def isPawnOrCapture (b : Board) (m : Move) : Bool :=
  decide (b.pieceOn m.src = some .pawn) || (b.pieceOn m.dst).isSome

/-- the castling rights of `b'` differ from those of `b` -/
def rightsChanged (b b' : Board) : Bool := decide (b'.wcr ≠ b.wcr ∨ b'.bcr ≠ b.bcr)

def scanInit (T : Tables) (s : Board) : DrawScan := ⟨s, 0, [entry T s]⟩

def scanStep (T : Tables) (ost : Option DrawScan) (a : Action) : Option DrawScan :=
  match a with
  | .makeMove m => ost.bind fun st => drawStep T st m
  | _ => ost

theorem drawScan_eq_foldl (T : Tables) (g : Game) :
    g.drawScan T = g.moves.foldl (scanStep T) (some (scanInit T g.startPos)) := rfl

@[simp] theorem drawScan_nil (T : Tables) (s : Board) : drawScan T ⟨s, []⟩ = some (scanInit T s) := rfl

theorem drawScan_snoc (T : Tables) (s : Board) (l : List Action) (a : Action) :
    drawScan T ⟨s, l ++ [a]⟩ = scanStep T (drawScan T ⟨s, l⟩) a := by
  simp [drawScan_eq_foldl, List.foldl_append]

/-- appending a move to the log runs one more `drawStep` -/
theorem drawScan_append_move (T : Tables) (s : Board) (l : List Action) (m : Move) :
    drawScan T ⟨s, l ++ [.makeMove m]⟩ = (drawScan T ⟨s, l⟩).bind fun st => drawStep T st m :=
  drawScan_snoc T s l _

/-- appending any other action does not change the scan -/
theorem drawScan_append_other (T : Tables) (s : Board) (l : List Action) (a : Action)
    (ha : isMove a = false) : drawScan T ⟨s, l ++ [a]⟩ = drawScan T ⟨s, l⟩ := by
  rw [drawScan_snoc]; cases a <;> simp_all [scanStep, isMove]

/-- one step of the scan: the fifty-move counter is reset by a pawn move or capture and otherwise
incremented; the repetition list is cleared by a pawn move, a capture or a change of castling
rights; the new position's entry is always appended -/
theorem drawStep_eq (T : Tables) (st : DrawScan) (m : Move) :
    drawStep T st m = (st.board.makeMoveNew T m).map fun b' =>
      ⟨b', if isPawnOrCapture st.board m then 0 else st.reversible + 1,
        (if isPawnOrCapture st.board m || rightsChanged st.board b' then [] else st.seen) ++ [entry T b']⟩ := by
  unfold drawStep
  cases hb : st.board.makeMoveNew T m with
  | none => rfl
  | some b' =>
    simp only [Option.map_some, Option.some.injEq, DrawScan.mk.injEq, true_and]
    by_cases h1 : st.board.pieceOn m.src = some .pawn
    · simp [isPawnOrCapture, h1, entry]
    · by_cases h2 : (st.board.pieceOn m.dst).isSome = true
      · simp [isPawnOrCapture, h1, h2, entry]
      · simp only [isPawnOrCapture, h1, h2, entry, rightsChanged]
        by_cases h3 : b'.wcr ≠ st.board.wcr ∨ b'.bcr ≠ st.board.bcr <;> simp [h3]

/-- the move actions of a log replayed from `b`, each with the position it was played in and the
position it produced -/
def pliesFrom (T : Tables) : Board → List Action → Option (List (Board × Move × Board))
  | _, [] => some []
  | b, .makeMove m :: l => (b.makeMoveNew T m).bind fun b' => (pliesFrom T b' l).map ((b, m, b') :: ·)
  | b, _ :: l => pliesFrom T b l

def plies (T : Tables) (g : Game) : Option (List (Board × Move × Board)) :=
  pliesFrom T g.startPos g.moves

theorem currentPosition_cons_move (T : Tables) (s : Board) (m : Move) (l : List Action) :
    currentPosition T ⟨s, .makeMove m :: l⟩ = (s.makeMoveNew T m).bind fun b' => currentPosition T ⟨b', l⟩ := by
  simp only [currentPosition_eq_foldl, List.foldl_cons, stepPos, Option.bind_some]
  cases s.makeMoveNew T m with
  | none => simp [foldl_stepPos_none]
  | some b' => rfl

theorem currentPosition_cons_other (T : Tables) (s : Board) (a : Action) (l : List Action)
    (ha : isMove a = false) : currentPosition T ⟨s, a :: l⟩ = currentPosition T ⟨s, l⟩ := by
  cases a <;> simp_all [currentPosition_eq_foldl, stepPos, isMove]

theorem pliesFrom_snoc_move (T : Tables) (s : Board) (l : List Action) (m : Move) :
    pliesFrom T s (l ++ [.makeMove m]) =
      (pliesFrom T s l).bind fun tr => (currentPosition T ⟨s, l⟩).bind fun c =>
        (c.makeMoveNew T m).map fun c' => tr ++ [(c, m, c')] := by
  induction l generalizing s with
  | nil =>
    simp only [List.nil_append, pliesFrom, currentPosition_nil, Option.bind_some]
    cases s.makeMoveNew T m <;> simp
  | cons a t ih =>
    cases a with
    | makeMove m0 =>
      simp only [List.cons_append, pliesFrom, currentPosition_cons_move]
      cases s.makeMoveNew T m0 with
      | none => simp
      | some b' =>
        simp only [Option.bind_some, ih b']
        cases pliesFrom T b' t with
        | none => simp
        | some tr =>
          simp only [Option.bind_some, Option.map_some]
          cases currentPosition T ⟨b', t⟩ with
          | none => simp
          | some c => simp [Function.comp_def]
    | _ => simpa [pliesFrom, currentPosition_eq_foldl, stepPos] using ih s

theorem pliesFrom_snoc_other (T : Tables) (s : Board) (l : List Action) (a : Action)
    (ha : isMove a = false) : pliesFrom T s (l ++ [a]) = pliesFrom T s l := by
  induction l generalizing s with
  | nil => cases a <;> simp_all [pliesFrom, isMove]
  | cons x t ih => cases x <;> simp [pliesFrom, ih]

/-- the replay of the plies panics exactly when the replay of the position does -/
theorem plies_isSome (T : Tables) (g : Game) : (plies T g).isSome = (currentPosition T g).isSome := by
  obtain ⟨s, l⟩ := g
  unfold plies
  simp only
  induction l using List.snoc_induction with
  | nil => rfl
  | snoc l a ih =>
    cases a with
    | makeMove m =>
      rw [pliesFrom_snoc_move, currentPosition_snoc_move]
      cases hp : pliesFrom T s l with
      | none => rw [hp] at ih; simp at ih ⊢; simp [ih]
      | some tr =>
        cases hc : currentPosition T ⟨s, l⟩ with
        | none => simp
        | some c => cases c.makeMoveNew T m <;> simp
    | _ => rw [pliesFrom_snoc_other _ _ _ _ rfl, currentPosition_snoc_other _ _ _ _ rfl]; exact ih

/-- length of the longest suffix all of whose elements satisfy `p` -/
def trailing {α : Type _} (p : α → Bool) (l : List α) : Nat := (l.reverse.takeWhile p).length

@[simp] theorem trailing_nil {α : Type _} (p : α → Bool) : trailing p [] = 0 := rfl

theorem trailing_snoc {α : Type _} (p : α → Bool) (l : List α) (x : α) :
    trailing p (l ++ [x]) = if p x then trailing p l + 1 else 0 := by
  simp only [trailing, List.reverse_append, List.reverse_cons, List.reverse_nil, List.nil_append,
    List.cons_append, List.takeWhile_cons]
  split <;> simp

theorem trailing_le {α : Type _} (p : α → Bool) (l : List α) : trailing p l ≤ l.length := by
  unfold trailing
  have := (List.takeWhile_prefix (l := l.reverse) p).length_le
  simpa using this

/-- a ply that is neither a pawn move nor a capture (in the position it was played in) -/
def plyQuiet (x : Board × Move × Board) : Bool := !isPawnOrCapture x.1 x.2.1

/-- a ply that is neither a pawn move nor a capture and keeps all castling rights -/
def plyRepeatable (x : Board × Move × Board) : Bool :=
  !(isPawnOrCapture x.1 x.2.1 || rightsChanged x.1 x.2.2)

/-- the entries of all positions of the game: the start position and the position after each ply -/
def historyEntries (T : Tables) (s : Board) (tr : List (Board × Move × Board)) : List (BB × List Move) :=
  entry T s :: tr.map fun x => entry T x.2.2

theorem historyEntries_length (T : Tables) (s : Board) (tr : List (Board × Move × Board)) :
    (historyEntries T s tr).length = tr.length + 1 := by simp [historyEntries]

theorem historyEntries_snoc (T : Tables) (s : Board) (tr : List (Board × Move × Board))
    (x : Board × Move × Board) :
    historyEntries T s (tr ++ [x]) = historyEntries T s tr ++ [entry T x.2.2] := by
  simp [historyEntries]

/-- **closed form of the scan.** `reversible` is the number of trailing plies that were neither a pawn
move nor a capture; `seen` consists of the last `k + 1` entries of the position history, `k` being the
number of trailing plies that were neither a pawn move, nor a capture, nor changed castling rights
(so `seen` starts with the position produced by the last such ply, or with the start position) -/
theorem drawScan_closed_form (T : Tables) (g : Game) :
    drawScan T g = (currentPosition T g).bind fun cur => (plies T g).map fun tr =>
      ⟨cur, trailing plyQuiet tr,
        (historyEntries T g.startPos tr).drop (tr.length - trailing plyRepeatable tr)⟩ := by
  obtain ⟨s, l⟩ := g
  unfold plies
  simp only
  induction l using List.snoc_induction with
  | nil => simp [pliesFrom, scanInit, historyEntries]
  | snoc l a ih =>
    cases a with
    | makeMove m =>
      rw [drawScan_append_move, ih, pliesFrom_snoc_move, currentPosition_snoc_move]
      cases hc : currentPosition T ⟨s, l⟩ with
      | none => simp
      | some c =>
        cases hp : pliesFrom T s l with
        | none => simp
        | some tr =>
          simp only [Option.bind_some, Option.map_some, drawStep_eq]
          cases hb : c.makeMoveNew T m with
          | none => simp
          | some c' =>
            simp only [Option.map_some, Option.bind_some, Option.some.injEq, DrawScan.mk.injEq, true_and]
            have hk := trailing_le plyRepeatable tr
            constructor
            · rw [trailing_snoc]; cases h : isPawnOrCapture c m <;> simp [plyQuiet, h]
            · rw [trailing_snoc, historyEntries_snoc]
              by_cases hr : (isPawnOrCapture c m || rightsChanged c c') = true
              · simp only [hr, if_true, plyRepeatable, Bool.not_true, Bool.false_eq_true, if_false,
                  List.length_append, List.length_cons, List.length_nil, Nat.sub_zero]
                rw [List.drop_append_of_le_length (by simp [historyEntries_length]),
                  List.drop_of_length_le (by simp [historyEntries_length])]
              · simp only [hr, plyRepeatable, Bool.not_false, if_true, Bool.false_eq_true, if_false,
                  List.length_append, List.length_cons, List.length_nil]
                rw [List.drop_append_of_le_length (by simp [historyEntries_length]; omega)]
                congr 2
                omega
    | _ =>
      rw [drawScan_append_other _ _ _ _ rfl, ih, pliesFrom_snoc_other _ _ _ _ rfl,
        currentPosition_snoc_other _ _ _ _ rfl]

/-! ### the pair search -/

theorem two_le_count_iff {α : Type _} [BEq α] [LawfulBEq α] (l : List α) (a : α) :
    2 ≤ l.count a ↔ ∃ i j : Nat, j < i ∧ l[i]? = some a ∧ l[j]? = some a := by
  induction l with
  | nil => simp
  | cons x t ih =>
    rw [List.count_cons]
    constructor
    · intro h
      by_cases hx : x = a
      · subst hx
        have h1 : 0 < t.count x := by simp only [beq_self_eq_true, if_true] at h; omega
        have : x ∈ t := List.count_pos_iff.1 h1
        obtain ⟨k, hk⟩ := List.getElem?_of_mem this
        exact ⟨k + 1, 0, by omega, by simpa using hk, by simp⟩
      · have : (x == a) = false := by simpa using hx
        simp only [this, Bool.false_eq_true, if_false, Nat.add_zero] at h
        obtain ⟨i, j, hji, hi, hj⟩ := ih.1 h
        exact ⟨i + 1, j + 1, by omega, by simpa using hi, by simpa using hj⟩
    · rintro ⟨i, j, hji, hi, hj⟩
      cases i with
      | zero => omega
      | succ i =>
        simp only [List.getElem?_cons_succ] at hi
        cases j with
        | zero =>
          simp only [List.getElem?_cons_zero, Option.some.injEq] at hj
          subst hj
          have : x ∈ t := List.mem_of_getElem? hi
          have := List.count_pos_iff.2 this
          simp; omega
        | succ j =>
          simp only [List.getElem?_cons_succ] at hj
          have := ih.2 ⟨i, j, by omega, hi, hj⟩
          omega

/-- the pair search of `can_declare_draw` succeeds exactly when the last entry occurs at least three
times in the list (itself included) -/
theorem threefold_iff (seen : List (BB × List Move)) (last : BB × List Move)
    (h : seen.getLast? = some last) : threefold seen = true ↔ 3 ≤ seen.count last := by
  obtain ⟨init, rfl⟩ := List.getLast?_eq_some_iff.1 h
  unfold threefold
  rw [h]
  simp only [List.count_append, List.count_singleton_self, List.length_append, List.length_cons,
    List.length_nil, Nat.zero_add, Nat.add_sub_cancel]
  rw [show (3 ≤ init.count last + 1) ↔ 2 ≤ init.count last by omega, two_le_count_iff]
  simp only [List.any_eq_true, List.mem_range, Bool.and_eq_true, decide_eq_true_eq, beq_iff_eq]
  constructor
  · rintro ⟨i, hi, _, j, hj, e1, e2⟩
    rw [List.getElem?_append_left hi] at e1
    rw [List.getElem?_append_left (by omega)] at e2
    exact ⟨i, j, hj, e1, e2⟩
  · rintro ⟨i, j, hji, hi, hj⟩
    have hlt : i < init.length := (List.getElem?_eq_some_iff.1 hi).1
    refine ⟨i, hlt, by omega, j, hji, ?_, ?_⟩
    · rw [List.getElem?_append_left hlt]; exact hi
    · rw [List.getElem?_append_left (by omega)]; exact hj

/-! ### `can_declare_draw` -/

/-- the scan tracks the current position, and the last recorded entry is the one of the current position -/
theorem drawScan_board_last {T : Tables} {g : Game} {st : DrawScan} (h : drawScan T g = some st) :
    currentPosition T g = some st.board ∧ st.seen.getLast? = some (entry T st.board) := by
  obtain ⟨s, l⟩ := g
  induction l using List.snoc_induction generalizing st with
  | nil => simp at h; subst h; simp [scanInit]
  | snoc l a ih =>
    cases a with
    | makeMove m =>
      rw [drawScan_append_move] at h
      cases h0 : drawScan T ⟨s, l⟩ with
      | none => simp [h0] at h
      | some st0 =>
        simp only [h0, Option.bind_some, drawStep_eq] at h
        cases hb : st0.board.makeMoveNew T m with
        | none => simp [hb] at h
        | some b' =>
          simp only [hb, Option.map_some, Option.some.injEq] at h
          subst h
          rw [currentPosition_snoc_move, (ih h0).1]
          simp [hb]
    | _ =>
      rw [drawScan_append_other _ _ _ _ rfl] at h
      rw [currentPosition_snoc_other _ _ _ _ rfl]
      exact ih h

/-- the scan panics exactly when the replay of the position does -/
theorem drawScan_isSome (T : Tables) (g : Game) : (drawScan T g).isSome = (currentPosition T g).isSome := by
  rw [drawScan_closed_form]
  cases hc : currentPosition T g with
  | none => rfl
  | some cur =>
    have := plies_isSome T g
    rw [hc] at this
    cases hp : plies T g with
    | none => simp [hp] at this
    | some tr => simp

theorem canDeclareDraw_eq_none_iff (T : Tables) (g : Game) :
    g.canDeclareDraw T = none ↔ g.currentPosition T = none := by
  unfold canDeclareDraw
  cases hr : g.result T with
  | none => simpa using (result_eq_none_iff T g).1 hr
  | some r =>
    obtain ⟨cur, hc⟩ := currentPosition_of_result hr
    have := drawScan_isSome T g
    rw [hc] at this
    cases r with
    | some r => simp [hc]
    | none =>
      cases hd : drawScan T g with
      | none => simp [hd] at this
      | some st => simp [hc]

/-- **`can_declare_draw` in terms of the scan values.** -/
theorem canDeclareDraw_iff (T : Tables) (g : Game) :
    g.canDeclareDraw T = some true ↔
      g.result T = some none ∧ ∃ st, g.drawScan T = some st ∧
        (100 ≤ st.reversible ∨ 3 ≤ st.seen.count (entry T st.board)) := by
  unfold canDeclareDraw
  cases hr : g.result T with
  | none => simp
  | some r =>
    cases r with
    | some r => simp
    | none =>
      cases hd : drawScan T g with
      | none => simp
      | some st =>
        simp only [ge_iff_le, Option.some.injEq, Bool.or_eq_true, decide_eq_true_eq, true_and,
          exists_eq_left']
        rw [threefold_iff _ _ (drawScan_board_last hd).2]

/-- the result an accepted action produces by itself in an ongoing position -/
def resultOfAction : Action → Option GameResult
  | .acceptDraw => some .drawAccepted
  | .declareDraw => some .drawDeclared
  | .resign .white => some .whiteResigns
  | .resign .black => some .blackResigns
  | _ => none

/-- an accepted action that is not a move fixes the result when it is one of the three ending
actions (the position is ongoing, otherwise nothing would have been accepted) -/
theorem result_after_nonmove {T : Tables} {g : Game} (hr : g.result T = some none) (a : Action)
    (ha : isMove a = false) :
    result T { g with moves := g.moves ++ [a] } = some (resultOfAction a) := by
  obtain ⟨cur, hc, hs, _⟩ := result_none_iff.1 hr
  have hc' : currentPosition T { g with moves := g.moves ++ [a] } = some cur := by
    rw [← hc]; exact currentPosition_snoc_other T g.startPos g.moves a ha
  rw [result_of_currentPosition hc', hs]
  simp only [List.getLast?_concat]
  cases a with
  | makeMove m => simp [isMove] at ha
  | resign c => cases c <;> rfl
  | _ => rfl

/-- the converse of `acceptCond_shape` (no hypothesis on the result needed) -/
theorem acceptCond_of_shape {g : Game}
    (h : (∃ c, g.moves.getLast? = some (.offerDraw c)) ∨
      (∃ m pre, g.moves = pre ++ [.offerDraw g.sideToMove.other, .makeMove m])) : acceptCond g := by
  rcases h with ⟨c, hc⟩ | ⟨m, pre, hm⟩
  · left
    have hne : g.moves ≠ [] := by intro e; simp [e] at hc
    refine ⟨List.length_pos_iff.2 hne, ?_⟩
    rw [← List.getLast?_eq_getElem?, hc]
    cases c <;> simp
  · right
    have hlen : g.moves.length = pre.length + 2 := by rw [hm]; simp
    refine ⟨by omega, ?_⟩
    rw [hlen]
    conv => lhs; rw [hm]
    simp

/-- `result`, read backwards: which result means what -/
theorem result_correct {T : Tables} {g : Game} {r : GameResult} (h : g.result T = some (some r)) :
    ∃ cur, g.currentPosition T = some cur ∧ cur.stm = g.sideToMove ∧
      (r = .whiteCheckmates ↔ cur.status T = .checkmate ∧ cur.stm = .black) ∧
      (r = .blackCheckmates ↔ cur.status T = .checkmate ∧ cur.stm = .white) ∧
      (r = .stalemate ↔ cur.status T = .stalemate) ∧
      (r = .drawAccepted ↔ cur.status T = .ongoing ∧ g.moves.getLast? = some .acceptDraw) ∧
      (r = .drawDeclared ↔ cur.status T = .ongoing ∧ g.moves.getLast? = some .declareDraw) ∧
      (r = .whiteResigns ↔ cur.status T = .ongoing ∧ g.moves.getLast? = some (.resign .white)) ∧
      (r = .blackResigns ↔ cur.status T = .ongoing ∧ g.moves.getLast? = some (.resign .black)) := by
  obtain ⟨cur, hc⟩ := currentPosition_of_result h
  refine ⟨cur, hc, currentPosition_stm T g hc, ?_⟩
  rw [result_of_currentPosition hc] at h
  cases hs : cur.status T <;> simp only [hs, Option.some.injEq] at h
  · cases hl : g.moves.getLast? with
    | none => simp [hl] at h
    | some a =>
      rw [hl] at h
      cases a with
      | makeMove m => simp at h
      | offerDraw c => simp at h
      | acceptDraw => simp at h; subst h; simp
      | declareDraw => simp at h; subst h; simp
      | resign c => cases c <;> simp at h <;> subst h <;> simp
  · subst h; simp
  · cases hstm : cur.stm <;> simp [hstm] at h <;> subst h <;> simp

/-- `can_declare_draw` in terms of the plies of the game -/
theorem canDeclareDraw_iff_history (T : Tables) (g : Game) :
    g.canDeclareDraw T = some true ↔
      g.result T = some none ∧ ∃ cur tr, g.currentPosition T = some cur ∧ plies T g = some tr ∧
        (100 ≤ trailing plyQuiet tr ∨
         3 ≤ ((historyEntries T g.startPos tr).drop (tr.length - trailing plyRepeatable tr)).count (entry T cur)) := by
  rw [canDeclareDraw_iff, drawScan_closed_form]
  constructor
  · rintro ⟨hr, st, hst, h⟩
    cases hc : currentPosition T g with
    | none => simp [hc] at hst
    | some cur =>
      cases hp : plies T g with
      | none => simp [hc, hp] at hst
      | some tr =>
        simp only [hc, hp, Option.bind_some, Option.map_some, Option.some.injEq] at hst
        subst hst
        exact ⟨hr, cur, tr, rfl, rfl, h⟩
  · rintro ⟨hr, cur, tr, hc, hp, h⟩
    refine ⟨hr, ⟨cur, trailing plyQuiet tr,
      (historyEntries T g.startPos tr).drop (tr.length - trailing plyRepeatable tr)⟩, ?_, h⟩
    simp [hc, hp]

theorem declareDraw_result {T : Tables} {g g' : Game} (h : g.declareDraw T = some (g', true)) :
    g'.result T = some (some .drawDeclared) := by
  have hs := declareDraw_spec h
  rw [hs.2.1 rfl]
  exact result_after_nonmove (canDeclareDraw_true_result (hs.1.1 rfl)) .declareDraw rfl

end Game
end Chess
