import ChessVerif.Lemmas.TryFrom
/-!
`make_move_new` cut into its phases, and the placement / side / rights / ep fields of its result.
Purely about the model: no specification here.
-/
namespace Chess

def Board.withCheckers (b : Board) (x : BB) : Board := { b with checkers := x }
def Board.reset (b : Board) : Board := { b with ep := none, checkers := 0#64, pinned := 0#64 }
def Board.finish (b : Board) (pinned checkers : BB) : Board :=
  { b with pinned := pinned, checkers := checkers, stm := b.stm.other }

/-- the toggles of the mover (and of the captured man, if any) -/
def moveBase (T : Tables) (b : Board) (moved : Piece) (S D : Sq) (c : Color) (capt : Option Piece) : Board :=
  match capt with
  | some cap => ((b.xor T moved (BB.ofSq S) c).xor T moved (BB.ofSq D) c).xor T cap (BB.ofSq D) c.other
  | none => (b.xor T moved (BB.ofSq S) c).xor T moved (BB.ofSq D) c

/-- phase 1: the toggles of mover and captured man, and the two castle-rights updates -/
def mm1 (T : Tables) (b : Board) (m : Move) (moved : Piece) : Board :=
  let r := moveBase T b.reset moved m.src m.dst b.stm (b.pieceOn m.dst)
  let r := r.setCastleRights b.stm.other
      ((r.castleRights b.stm.other).remove (squareToCastleRights b.stm.other m.dst))
  r.setCastleRights b.stm ((r.castleRights b.stm).remove (squareToCastleRights b.stm m.src))

def mmKsq (r : Board) : Sq := (r.kings &&& r.colorCombined r.stm.other).toSq

/-- the model's double-push test -/
def mmDbl (T : Tables) (m : Move) : Prop :=
  BB.ofSq m.src &&& T.pawnSrcDouble ≠ 0#64 ∧ BB.ofSq m.dst &&& T.pawnDstDouble ≠ 0#64
instance (T : Tables) (m : Move) : Decidable (mmDbl T m) := by unfold mmDbl; infer_instance

/-- the model's castling test -/
def mmCastles (T : Tables) (m : Move) (moved : Piece) : Bool :=
  moved == .king && ((BB.ofSq m.src ^^^ BB.ofSq m.dst) &&& T.castleMoves) == (BB.ofSq m.src ^^^ BB.ofSq m.dst)

/-- phase 2: the piece-specific part (`stm`, `ep0` are the mover and the old ep mark) -/
def mm2 (T : Tables) (stm : Color) (ep0 : Option Sq) (m : Move) (moved : Piece) (result : Board) : Board :=
  let ksq := mmKsq result
  let destBB := BB.ofSq m.dst
  if moved = .knight then
    result.withCheckers (result.checkers ^^^ (T.knight ksq &&& destBB))
  else if moved = .pawn then
    match m.promo with
    | some .knight =>
      let r := (result.xor T .pawn destBB stm).xor T .knight destBB stm
      r.withCheckers (r.checkers ^^^ (T.knight ksq &&& destBB))
    | some promotion =>
      (result.xor T .pawn destBB stm).xor T promotion destBB stm
    | none =>
      if mmDbl T m then
        let r := result.setEp T m.dst
        r.withCheckers (r.checkers ^^^ Board.pawnAttacks T ksq r.stm.other destBB)
      else if some (m.dst.ubackward stm) = ep0 then
        let r := result.xor T .pawn (BB.ofSq (m.dst.ubackward stm)) stm.other
        r.withCheckers (r.checkers ^^^ Board.pawnAttacks T ksq r.stm.other destBB)
      else
        result.withCheckers (result.checkers ^^^ Board.pawnAttacks T ksq result.stm.other destBB)
  else if mmCastles T m moved then
    let start := BB.set stm.backrank (Board.castleRookStart m.dst.getFile)
    let end_ := BB.set stm.backrank (Board.castleRookEnd m.dst.getFile)
    (result.xor T .rook start stm).xor T .rook end_ stm
  else result

/-- phase 3: the slider scan and the side flip -/
def mm3 (T : Tables) (ksq : Sq) (result : Board) : Board :=
  let attackers := result.colorCombined result.stm &&&
    ((T.bishopRays ksq &&& (result.bishops ||| result.queens)) |||
     (T.rookRays ksq &&& (result.rooks ||| result.queens)))
  let pc := Board.sliderScan T result.combined ksq attackers.toList (result.pinned, result.checkers)
  result.finish pc.1 pc.2

theorem makeMoveNew_eq (T : Tables) (b : Board) (m : Move) :
    b.makeMoveNew T m = match b.pieceOn m.src with
      | none => none
      | some moved => some (mm3 T (mmKsq (mm1 T b m moved)) (mm2 T b.stm b.ep m moved (mm1 T b m moved))) := by
  unfold Board.makeMoveNew
  dsimp only
  cases b.pieceOn m.src with
  | none => rfl
  | some moved => rfl

/-! ### fields of the phases -/

theorem pl_withCheckers (b : Board) (x : BB) : (b.withCheckers x).pl = b.pl := rfl
theorem pl_reset (b : Board) : b.reset.pl = b.pl := rfl
theorem pl_finish (b : Board) (x y : BB) : (b.finish x y).pl = b.pl := rfl

theorem pl_moveBase (T : Tables) (b : Board) (moved : Piece) (S D : Sq) (c : Color) (capt : Option Piece) :
    (moveBase T b moved S D c capt).pl = (moveBase T b.pl moved S D c capt).pl := by
  cases capt with
  | none => simp only [moveBase, pl_xor]; rfl
  | some cap => simp only [moveBase, pl_xor]; rfl

theorem moveBase_fields (T : Tables) (b : Board) (moved : Piece) (S D : Sq) (c : Color) (capt : Option Piece) :
    (moveBase T b moved S D c capt).stm = b.stm ∧ (moveBase T b moved S D c capt).wcr = b.wcr ∧
    (moveBase T b moved S D c capt).bcr = b.bcr ∧ (moveBase T b moved S D c capt).ep = b.ep := by
  cases capt <;> refine ⟨?_, ?_, ?_, ?_⟩ <;> simp only [moveBase, xor_stm, xor_wcr, xor_bcr, xor_ep]

theorem setCastleRights_stm (b : Board) (c : Color) (cr : CastleRights) : (b.setCastleRights c cr).stm = b.stm := by
  cases c <;> rfl
theorem setCastleRights_ep (b : Board) (c : Color) (cr : CastleRights) : (b.setCastleRights c cr).ep = b.ep := by
  cases c <;> rfl
theorem setCastleRights_castleRights (b : Board) (c d : Color) (cr : CastleRights) :
    (b.setCastleRights c cr).castleRights d = if d = c then cr else b.castleRights d := by
  cases c <;> cases d <;> rfl

theorem castleRights_of_fields {b b' : Board} (hw : b'.wcr = b.wcr) (hb : b'.bcr = b.bcr) (d : Color) :
    b'.castleRights d = b.castleRights d := by
  cases d
  · exact hw
  · exact hb

theorem mm1_pl (T : Tables) (b : Board) (m : Move) (moved : Piece) :
    (mm1 T b m moved).pl = (moveBase T b moved m.src m.dst b.stm (b.pieceOn m.dst)).pl := by
  unfold mm1
  simp only [pl_setCastleRights]
  rw [pl_moveBase, pl_reset, ← pl_moveBase]

theorem mm1_stm (T : Tables) (b : Board) (m : Move) (moved : Piece) : (mm1 T b m moved).stm = b.stm := by
  unfold mm1
  simp only [setCastleRights_stm]
  exact (moveBase_fields T b.reset moved m.src m.dst b.stm (b.pieceOn m.dst)).1

theorem mm1_ep (T : Tables) (b : Board) (m : Move) (moved : Piece) : (mm1 T b m moved).ep = none := by
  unfold mm1
  simp only [setCastleRights_ep]
  exact (moveBase_fields T b.reset moved m.src m.dst b.stm (b.pieceOn m.dst)).2.2.2

theorem mm1_castleRights (T : Tables) (b : Board) (m : Move) (moved : Piece) (d : Color) :
    (mm1 T b m moved).castleRights d =
      (b.castleRights d).remove (squareToCastleRights d (if d = b.stm then m.src else m.dst)) := by
  obtain ⟨_, hw, hb, _⟩ := moveBase_fields T b.reset moved m.src m.dst b.stm (b.pieceOn m.dst)
  have hcr : ∀ d, (moveBase T b.reset moved m.src m.dst b.stm (b.pieceOn m.dst)).castleRights d = b.castleRights d :=
    castleRights_of_fields hw hb
  unfold mm1
  simp only [setCastleRights_castleRights, hcr]
  by_cases hd : d = b.stm
  · rw [if_pos hd, if_pos hd, hd]
    rw [if_neg (Color.other_ne b.stm).symm]
  · have hd' : d = b.stm.other := by
      revert hd; cases d <;> cases b.stm <;> simp [Color.other]
    rw [if_neg hd, if_neg hd, if_pos hd', hd']

/-- the placement effect of phase 2 -/
def mmPlace (T : Tables) (stm : Color) (ep0 : Option Sq) (m : Move) (moved : Piece) (r : Board) : Board :=
  if moved = .pawn then
    match m.promo with
    | some q => (r.xor T .pawn (BB.ofSq m.dst) stm).xor T q (BB.ofSq m.dst) stm
    | none =>
      if mmDbl T m then r
      else if some (m.dst.ubackward stm) = ep0 then r.xor T .pawn (BB.ofSq (m.dst.ubackward stm)) stm.other
      else r
  else if mmCastles T m moved then
    (r.xor T .rook (BB.set stm.backrank (Board.castleRookStart m.dst.getFile)) stm).xor T .rook
      (BB.set stm.backrank (Board.castleRookEnd m.dst.getFile)) stm
  else r

theorem mmCastles_knight (T : Tables) (m : Move) : mmCastles T m .knight = false := rfl

theorem mm2_pl (T : Tables) (stm : Color) (ep0 : Option Sq) (m : Move) (moved : Piece) (r : Board) :
    (mm2 T stm ep0 m moved r).pl = (mmPlace T stm ep0 m moved r).pl := by
  unfold mm2 mmPlace
  by_cases hk : moved = .knight
  · subst hk
    rw [if_pos rfl, if_neg (by decide), mmCastles_knight]
    rfl
  · rw [if_neg hk]
    by_cases hp : moved = .pawn
    · rw [if_pos hp, if_pos hp]
      cases hq : m.promo with
      | none =>
        dsimp only
        by_cases hd : mmDbl T m
        · rw [if_pos hd, if_pos hd, pl_withCheckers, pl_setEp]
        · rw [if_neg hd, if_neg hd]
          by_cases he : some (m.dst.ubackward stm) = ep0
          · rw [if_pos he, if_pos he, pl_withCheckers]
          · rw [if_neg he, if_neg he, pl_withCheckers]
      | some q => cases q <;> rfl
    · rw [if_neg hp, if_neg hp]

theorem withCheckers_fields (b : Board) (x : BB) :
    (b.withCheckers x).stm = b.stm ∧ (b.withCheckers x).wcr = b.wcr ∧ (b.withCheckers x).bcr = b.bcr ∧
    (b.withCheckers x).ep = b.ep := ⟨rfl, rfl, rfl, rfl⟩

theorem mm2_fields (T : Tables) (stm : Color) (ep0 : Option Sq) (m : Move) (moved : Piece) (r : Board) :
    (mm2 T stm ep0 m moved r).stm = r.stm ∧ (mm2 T stm ep0 m moved r).wcr = r.wcr ∧
    (mm2 T stm ep0 m moved r).bcr = r.bcr ∧
    (mm2 T stm ep0 m moved r).ep =
      if moved = .pawn ∧ m.promo = none ∧ mmDbl T m then (r.setEp T m.dst).ep else r.ep := by
  unfold mm2
  by_cases hk : moved = .knight
  · subst hk
    rw [if_pos rfl, if_neg (show ¬(Piece.knight = .pawn ∧ m.promo = none ∧ mmDbl T m) from fun h => by cases h.1)]
    exact ⟨rfl, rfl, rfl, rfl⟩
  · rw [if_neg hk]
    by_cases hp : moved = .pawn
    · rw [if_pos hp]
      cases hq : m.promo with
      | none =>
        dsimp only
        by_cases hd : mmDbl T m
        · rw [if_pos hd, if_pos (show moved = .pawn ∧ none = none ∧ mmDbl T m from ⟨hp, rfl, hd⟩)]
          exact ⟨setEp_stm T r m.dst, setEp_wcr T r m.dst, setEp_bcr T r m.dst, rfl⟩
        · rw [if_neg hd, if_neg (show ¬(moved = .pawn ∧ none = none ∧ mmDbl T m) from fun h => hd h.2.2)]
          by_cases he : some (m.dst.ubackward stm) = ep0
          · rw [if_pos he]
            exact ⟨xor_stm T .., xor_wcr T .., xor_bcr T .., xor_ep T ..⟩
          · rw [if_neg he]
            exact ⟨rfl, rfl, rfl, rfl⟩
      | some q =>
        rw [if_neg (show ¬(moved = .pawn ∧ some q = none ∧ mmDbl T m) from fun h => by cases h.2.1)]
        cases q <;> exact ⟨by simp only [withCheckers_fields, xor_stm], by simp only [withCheckers_fields, xor_wcr],
          by simp only [withCheckers_fields, xor_bcr], by simp only [withCheckers_fields, xor_ep]⟩
    · rw [if_neg hp, if_neg (show ¬(moved = .pawn ∧ m.promo = none ∧ mmDbl T m) from fun h => hp h.1)]
      by_cases hc : mmCastles T m moved = true
      · rw [if_pos hc]
        exact ⟨by simp only [xor_stm], by simp only [xor_wcr], by simp only [xor_bcr], by simp only [xor_ep]⟩
      · rw [if_neg hc]
        exact ⟨rfl, rfl, rfl, rfl⟩

theorem mmPlace_pl_congr (T : Tables) (stm : Color) (ep0 : Option Sq) (m : Move) (moved : Piece) {r r' : Board}
    (h : r.pl = r'.pl) : (mmPlace T stm ep0 m moved r).pl = (mmPlace T stm ep0 m moved r').pl := by
  unfold mmPlace
  by_cases hp : moved = .pawn
  · rw [if_pos hp, if_pos hp]
    cases hq : m.promo with
    | none =>
      dsimp only
      by_cases hd : mmDbl T m
      · rw [if_pos hd, if_pos hd, h]
      · rw [if_neg hd, if_neg hd]
        by_cases he : some (m.dst.ubackward stm) = ep0
        · rw [if_pos he, if_pos he, pl_xor, pl_xor, h]
        · rw [if_neg he, if_neg he, h]
    | some q =>
      dsimp only
      rw [pl_xor, pl_xor, pl_xor, pl_xor, h]
  · rw [if_neg hp, if_neg hp]
    by_cases hc : mmCastles T m moved = true
    · rw [if_pos hc, if_pos hc, pl_xor, pl_xor, pl_xor, pl_xor, h]
    · rw [if_neg hc, if_neg hc, h]

theorem pl_pawns (b : Board) : b.pl.pawns = b.pawns := rfl
theorem pl_colorCombined (b : Board) (d : Color) : b.pl.colorCombined d = b.colorCombined d := by cases d <;> rfl

theorem mm3_fields (T : Tables) (ksq : Sq) (r : Board) :
    (mm3 T ksq r).pl = r.pl ∧ (mm3 T ksq r).stm = r.stm.other ∧ (mm3 T ksq r).wcr = r.wcr ∧
    (mm3 T ksq r).bcr = r.bcr ∧ (mm3 T ksq r).ep = r.ep := ⟨rfl, rfl, rfl, rfl, rfl⟩

/-- the result of `make_move_new`, field by field: placement = `mmPlace` of the mover/captured toggles -/
theorem makeMoveNew_fields (T : Tables) (b : Board) (m : Move) (moved : Piece) (h : b.pieceOn m.src = some moved) :
    ∃ b', b.makeMoveNew T m = some b' ∧
      b'.pl = (mmPlace T b.stm b.ep m moved (moveBase T b moved m.src m.dst b.stm (b.pieceOn m.dst))).pl ∧
      b'.stm = b.stm.other ∧
      (∀ d, b'.castleRights d =
        (b.castleRights d).remove (squareToCastleRights d (if d = b.stm then m.src else m.dst))) ∧
      b'.ep = (if moved = .pawn ∧ m.promo = none ∧ mmDbl T m then
          (if T.adjFiles m.dst.getFile &&& T.ranks m.dst.getRank &&&
              (moveBase T b moved m.src m.dst b.stm (b.pieceOn m.dst)).pawns &&&
              (moveBase T b moved m.src m.dst b.stm (b.pieceOn m.dst)).colorCombined b.stm.other ≠ 0#64
           then some m.dst else none)
        else none) := by
  rw [makeMoveNew_eq, h]
  refine ⟨_, rfl, ?_, ?_, ?_, ?_⟩
  · rw [(mm3_fields ..).1, mm2_pl]
    exact mmPlace_pl_congr T b.stm b.ep m moved (mm1_pl T b m moved)
  · rw [(mm3_fields ..).2.1, (mm2_fields ..).1, mm1_stm]
  · intro d
    rw [castleRights_of_fields (mm3_fields ..).2.2.1 (mm3_fields ..).2.2.2.1,
      castleRights_of_fields (mm2_fields ..).2.1 (mm2_fields ..).2.2.1, mm1_castleRights]
  · rw [(mm3_fields ..).2.2.2.2, (mm2_fields ..).2.2.2, setEp_ep, mm1_ep, mm1_stm]
    have h1 : (mm1 T b m moved).pawns = (moveBase T b moved m.src m.dst b.stm (b.pieceOn m.dst)).pawns := by
      rw [← pl_pawns, mm1_pl, pl_pawns]
    have h2 : (mm1 T b m moved).colorCombined b.stm.other =
        (moveBase T b moved m.src m.dst b.stm (b.pieceOn m.dst)).colorCombined b.stm.other := by
      rw [← pl_colorCombined, mm1_pl, pl_colorCombined]
    rw [h1, h2]

end Chess
