import ChessVerif.Lemmas.TryFrom
/-!
`make_move_new` cut into its phases, and the placement / side / rights / ep fields of its result.
Purely about the model: no specification here.
-/
namespace Chess

def Board.withCheckers (b : Board) (x : BB) : Board := { b with checkers := x }
def Board.reset (b : Board) : Board := { b with ep := none, checkers := 0#64, pinned := 0#64 }
def Board.finish (b : Board) (pinned checkers : BB) : Board :=
  { b with pinned := pinned, checkers := checkers, stm := b.stm.other }

/-- the toggles of the mover (and of the captured man, if any) -/
def moveBase (T : Tables) (b : Board) (moved : Piece) (S D : Sq) (c : Color) (capt : Option Piece) : Board :=
  match capt with
  | some cap => ((b.xor T moved (BB.ofSq S) c).xor T moved (BB.ofSq D) c).xor T cap (BB.ofSq D) c.other
  | none => (b.xor T moved (BB.ofSq S) c).xor T moved (BB.ofSq D) c

/-- phase 1: the toggles of mover and captured man, and the two castle-rights updates -/
def mm1 (T : Tables) (b : Board) (m : Move) (moved : Piece) : Board :=
  let r := moveBase T b.reset moved m.src m.dst b.stm (b.pieceOn m.dst)
  let r := r.setCastleRights b.stm.other
      ((r.castleRights b.stm.other).remove (squareToCastleRights b.stm.other m.dst))
  r.setCastleRights b.stm ((r.castleRights b.stm).remove (squareToCastleRights b.stm m.src))

def mmKsq (r : Board) : Sq := (r.kings &&& r.colorCombined r.stm.other).toSq

/-- the model's double-push test -/
def mmDbl (T : Tables) (m : Move) : Prop :=
  BB.ofSq m.src &&& T.pawnSrcDouble ≠ 0#64 ∧ BB.ofSq m.dst &&& T.pawnDstDouble ≠ 0#64
instance (T : Tables) (m : Move) : Decidable (mmDbl T m) := by unfold mmDbl; infer_instance

/-- the model's castling test -/
def mmCastles (T : Tables) (m : Move) (moved : Piece) : Bool :=
  moved == .king && ((BB.ofSq m.src ^^^ BB.ofSq m.dst) &&& T.castleMoves) == (BB.ofSq m.src ^^^ BB.ofSq m.dst)

/-- phase 2: the piece-specific part (`stm`, `ep0` are the mover and the old ep mark) -/
def mm2 (T : Tables) (stm : Color) (ep0 : Option Sq) (m : Move) (moved : Piece) (result : Board) : Board :=
  let ksq := mmKsq result
  let destBB := BB.ofSq m.dst
  if moved = .knight then
    result.withCheckers (result.checkers ^^^ (T.knight ksq &&& destBB))
  else if moved = .pawn then
    match m.promo with
    | some .knight =>
      let r := (result.xor T .pawn destBB stm).xor T .knight destBB stm
      r.withCheckers (r.checkers ^^^ (T.knight ksq &&& destBB))
    | some promotion =>
      (result.xor T .pawn destBB stm).xor T promotion destBB stm
    | none =>
      if mmDbl T m then
        let r := result.setEp T m.dst
        r.withCheckers (r.checkers ^^^ Board.pawnAttacks T ksq r.stm.other destBB)
      else if some (m.dst.ubackward stm) = ep0 then
        let r := result.xor T .pawn (BB.ofSq (m.dst.ubackward stm)) stm.other
        r.withCheckers (r.checkers ^^^ Board.pawnAttacks T ksq r.stm.other destBB)
      else
        result.withCheckers (result.checkers ^^^ Board.pawnAttacks T ksq result.stm.other destBB)
  else if mmCastles T m moved then
    let start := BB.set stm.backrank (Board.castleRookStart m.dst.getFile)
    let end_ := BB.set stm.backrank (Board.castleRookEnd m.dst.getFile)
    (result.xor T .rook start stm).xor T .rook end_ stm
  else result

/-- phase 3: the slider scan and the side flip -/
def mm3 (T : Tables) (ksq : Sq) (result : Board) : Board :=
  let attackers := result.colorCombined result.stm &&&
    ((T.bishopRays ksq &&& (result.bishops ||| result.queens)) |||
     (T.rookRays ksq &&& (result.rooks ||| result.queens)))
  let pc := Board.sliderScan T result.combined ksq attackers.toList (result.pinned, result.checkers)
  result.finish pc.1 pc.2

theorem makeMoveNew_eq (T : Tables) (b : Board) (m : Move) :
    b.makeMoveNew T m = match b.pieceOn m.src with
      | none => none
      | some moved => some (mm3 T (mmKsq (mm1 T b m moved)) (mm2 T b.stm b.ep m moved (mm1 T b m moved))) := by
  unfold Board.makeMoveNew
  dsimp only
  cases b.pieceOn m.src with
  | none => rfl
  | some moved => rfl

end Chess
