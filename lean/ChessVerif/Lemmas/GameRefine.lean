import ChessVerif.Props.Compose
import ChessVerif.Props.C10
import ChessVerif.Spec.Game
/-!
# The Model game (`Chess.Game`, model of `game.rs`) refines the Spec game (`Spec.GameSt`) — part A

`Sim T g sg`: the replay of the model game `g` does not panic, the board it yields is `Good` (consistent
bitboards and hash, from-scratch caches, valid position), describes the position of the Spec state `sg`,
and both have the same log.  Everything except `declare_draw` is simulated step by step here; draw claims
(which need the history and the half-move clock of the Spec state) are in `Lemmas/GameClaim.lean`.
-/
namespace Chess
namespace GameRefine
open Chess.Game Chess.Final Chess.Props

variable {T : Tables}

/-- the simulation relation between a model game and a Spec game state -/
def Sim (T : Tables) (g : Game) (sg : Spec.GameSt) : Prop :=
  ∃ cur, g.currentPosition T = some cur ∧ cur.Good T ∧ cur.abs = sg.pos ∧ g.moves = sg.log

theorem sim_init {b0 : Board} (h0 : b0.Good T) : Sim T ⟨b0, []⟩ (Spec.GameSt.init b0.abs) :=
  ⟨b0, rfl, h0, rfl, rfl⟩

/-- the model's `result` is the Spec's `result` -/
theorem sim_result (hT : TablesOK T) {g : Game} {sg : Spec.GameSt} (h : Sim T g sg) :
    g.result T = some sg.result := by
  obtain ⟨cur, hc, hg, habs, hlog⟩ := h
  obtain ⟨h1, h2, h3⟩ := C04_status_exact hT hg
  have hstm : cur.stm = sg.pos.stm := by rw [← habs]; rfl
  rw [result_of_currentPosition hc, hlog, hstm]
  unfold Spec.GameSt.result
  rw [← habs]
  cases hs : Chess.status cur.abs with
  | ongoing => rw [h3.mpr hs]; rfl
  | stalemate => rw [h2.mpr hs]
  | checkmate => rw [h1.mpr hs]

theorem sim_sideToMove {g : Game} {sg : Spec.GameSt} (h : Sim T g sg) : g.sideToMove = sg.pos.stm := by
  obtain ⟨cur, hc, _, habs, _⟩ := h
  rw [← currentPosition_stm T g hc, ← habs]; rfl

theorem sim_position {g : Game} {sg : Spec.GameSt} (h : Sim T g sg) :
    (g.currentPosition T).map Board.abs = some sg.pos := by
  obtain ⟨cur, hc, _, habs, _⟩ := h
  rw [hc, Option.map_some, habs]

theorem sim_log {g : Game} {sg : Spec.GameSt} (h : Sim T g sg) : g.moves = sg.log := by
  obtain ⟨_, _, _, _, hl⟩ := h; exact hl

/-- appending an action that is not a move keeps the relation -/
theorem sim_snoc_other {g : Game} {sg : Spec.GameSt} (h : Sim T g sg) (a : Action) (ha : isMove a = false) :
    Sim T { g with moves := g.moves ++ [a] } { sg with log := sg.log ++ [a] } := by
  obtain ⟨cur, hc, hg, habs, hlog⟩ := h
  refine ⟨cur, ?_, hg, habs, ?_⟩
  · rw [← hc]; exact currentPosition_snoc_other T g.startPos g.moves a ha
  · simp only [hlog]

/-- appending a legal move keeps the relation; the Spec's history and clock are arbitrary here -/
theorem sim_snoc_move (hT : TablesOK T) {g : Game} {sg : Spec.GameSt} (h : Sim T g sg) (m : Move)
    (hl : legal sg.pos m = true) (H : List Pos) (k : Nat) :
    Sim T { g with moves := g.moves ++ [.makeMove m] }
      { pos := norm (apply sg.pos m), log := sg.log ++ [.makeMove m], history := H, clock := k } := by
  obtain ⟨cur, hc, hg, habs, hlog⟩ := h
  rw [← habs] at hl
  obtain ⟨b', hmk, hg', habs'⟩ := good_makeMove hT hg hl
  refine ⟨b', ?_, hg', ?_, ?_⟩
  · have := currentPosition_snoc_move T g.startPos g.moves m
    rw [show currentPosition T ⟨g.startPos, g.moves⟩ = some cur from hc] at this
    rw [this, Option.bind_some, hmk]
  · rw [habs', habs]
  · simp only [hlog]

/-- the Spec's test for `accept_draw` is the model's (when there is no result) -/
theorem acceptAllowed_iff {g : Game} {sg : Spec.GameSt} (h : Sim T g sg) :
    sg.acceptAllowed = true ↔
      ((∃ c, g.moves.getLast? = some (.offerDraw c)) ∨
       (∃ m pre, g.moves = pre ++ [.offerDraw g.sideToMove.other, .makeMove m])) := by
  rw [sim_sideToMove h, sim_log h]
  unfold Spec.GameSt.acceptAllowed Spec.GameSt.lastMover
  constructor
  · intro ha
    split at ha
    · rename_i c rest hr
      left
      refine ⟨c, ?_⟩
      have := congrArg List.reverse hr
      rw [List.reverse_reverse] at this
      rw [this]; simp
    · rename_i m c rest hr
      right
      have := congrArg List.reverse hr
      rw [List.reverse_reverse] at this
      have hc : c = sg.pos.stm.other := by simpa using ha
      subst hc
      exact ⟨m, rest.reverse, by rw [this]; simp⟩
    · cases ha
  · rintro (⟨c, hc⟩ | ⟨m, pre, hm⟩)
    · obtain ⟨ys, hys⟩ := List.getLast?_eq_some_iff.1 hc
      rw [hys]; simp
    · rw [hm]; simp

/-! ### one request -/

/-- under `Sim` no request panics -/
theorem sim_perform_isSome (hT : TablesOK T) {g : Game} {sg : Spec.GameSt} (h : Sim T g sg) (a : Action) :
    (g.perform T a).isSome = true := by
  have hr := sim_result hT h
  obtain ⟨cur, hc, _⟩ := h
  cases a with
  | makeMove m =>
    simp only [perform, makeMove, hr, hc]
    cases sg.result with
    | some r => rfl
    | none => simp only []; split <;> rfl
  | offerDraw c => simp [perform, offerDraw, hr]
  | acceptDraw => simp [perform, acceptDraw, hr]
  | resign c => simp [perform, resign, hr]
  | declareDraw =>
    simp only [perform, declareDraw, Option.isSome_map]
    cases hd : g.canDeclareDraw T with
    | some x => rfl
    | none => rw [(canDeclareDraw_eq_none_iff T g).1 hd] at hc; cases hc

/-- **one step of the simulation**: every request other than a draw claim gets the same answer from the model
and from the Spec, and the resulting states are related again -/
theorem sim_perform (hT : TablesOK T) {g g' : Game} {sg : Spec.GameSt} (h : Sim T g sg) {a : Action}
    (ha : a ≠ .declareDraw) {acc : Bool} (hp : g.perform T a = some (g', acc)) :
    acc = (sg.step a).2 ∧ Sim T g' (sg.step a).1 := by
  have hr := sim_result hT h
  cases hres : sg.result with
  | some r =>
    rw [hres] at hr
    rw [perform_of_result hr a] at hp
    simp only [Option.some.injEq, Prod.mk.injEq] at hp
    obtain ⟨rfl, rfl⟩ := hp
    simp only [Spec.GameSt.step, hres, Option.isSome_some, if_true]
    exact ⟨trivial, h⟩
  | none =>
    rw [hres] at hr
    have hstep : ∀ x, (if sg.result.isSome = true then (sg, false) else x) = x := by
      intro x; rw [hres]; rfl
    cases a with
    | declareDraw => exact absurd rfl ha
    | makeMove m =>
      obtain ⟨h1, h2, h3⟩ := makeMove_spec hp
      obtain ⟨cur, hc, hg, habs, hlog⟩ := h
      have hleg : cur.legal T m = legal sg.pos m := by rw [legal_query_eq hT hg, habs]
      simp only [Spec.GameSt.step, hstep]
      cases hl : legal sg.pos m with
      | true =>
        have hacc : acc = true := h1.mpr ⟨hr, cur, hc, by rw [hleg, hl]⟩
        subst hacc
        rw [h2 rfl]
        simp only [if_true]
        exact ⟨trivial, sim_snoc_move hT ⟨cur, hc, hg, habs, hlog⟩ m hl _ _⟩
      | false =>
        have hacc : acc = false := by
          cases acc with
          | false => rfl
          | true =>
            obtain ⟨_, cur', hc', hl'⟩ := h1.mp rfl
            rw [hc] at hc'; injection hc' with hc'; subst hc'
            rw [hleg, hl] at hl'; cases hl'
        subst hacc
        rw [h3 rfl]
        simp only [Bool.false_eq_true, if_false]
        exact ⟨trivial, ⟨cur, hc, hg, habs, hlog⟩⟩
    | offerDraw c =>
      obtain ⟨h1, h2, _⟩ := offerDraw_spec hp
      have hacc : acc = true := h1.mpr hr
      subst hacc
      rw [h2 rfl]
      simp only [Spec.GameSt.step, hstep]
      exact ⟨trivial, sim_snoc_other h _ rfl⟩
    | resign c =>
      obtain ⟨h1, h2, _⟩ := resign_spec hp
      have hacc : acc = true := h1.mpr hr
      subst hacc
      rw [h2 rfl]
      simp only [Spec.GameSt.step, hstep]
      exact ⟨trivial, sim_snoc_other h _ rfl⟩
    | acceptDraw =>
      have hiff := C10_accept_draw_iff hp
      obtain ⟨_, h2, h3⟩ := acceptDraw_spec hp
      simp only [Spec.GameSt.step, hstep]
      cases hal : sg.acceptAllowed with
      | true =>
        have hacc : acc = true := hiff.mpr ⟨hr, (acceptAllowed_iff h).mp hal⟩
        subst hacc
        rw [h2 rfl]
        simp only [if_true]
        exact ⟨trivial, sim_snoc_other h _ rfl⟩
      | false =>
        have hacc : acc = false := by
          cases acc with
          | false => rfl
          | true =>
            have := (acceptAllowed_iff h).mpr (hiff.mp rfl).2
            rw [hal] at this; cases this
        subst hacc
        rw [h3 rfl]
        simp only [Bool.false_eq_true, if_false]
        exact ⟨trivial, h⟩

/-! ### a sequence of requests -/

/-- the Spec game run on a list of requests: final state and the accepted requests, in order -/
def specRun : Spec.GameSt → List Action → Spec.GameSt × List Action
  | sg, [] => (sg, [])
  | sg, a :: rest =>
    let r := specRun (sg.step a).1 rest
    (r.1, if (sg.step a).2 then a :: r.2 else r.2)

/-- **refinement, draw claims excluded**: on every list of requests the model run does not panic, accepts
exactly the requests the Spec accepts, and ends in a state related to the Spec's final state -/
theorem sim_run (hT : TablesOK T) {g : Game} {sg : Spec.GameSt} (h : Sim T g sg) (acts : List Action)
    (hnd : ∀ a ∈ acts, a ≠ Action.declareDraw) :
    ∃ gf, run T g acts = some (gf, (specRun sg acts).2) ∧ Sim T gf (specRun sg acts).1 := by
  induction acts generalizing g sg with
  | nil => exact ⟨g, rfl, h⟩
  | cons a rest ih =>
    have hsome := sim_perform_isSome hT h a
    cases hp : g.perform T a with
    | none => rw [hp] at hsome; cases hsome
    | some r =>
      obtain ⟨g', acc⟩ := r
      obtain ⟨hacc, hs'⟩ := sim_perform hT h (hnd a (by simp)) hp
      obtain ⟨gf, hrun, hsf⟩ := ih hs' (fun x hx => hnd x (by simp [hx]))
      refine ⟨gf, ?_, hsf⟩
      simp only [run, hp, hrun, Option.map_some, specRun, hacc]

end GameRefine
end Chess
