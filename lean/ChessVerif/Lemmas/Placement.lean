import ChessVerif.Lemmas.Core
import ChessVerif.Lemmas.BitBoard
/-!
Invariant plumbing for `make_move_new`, `null_move`, `try_from`:
* `Board.pl`: the placement part of a board (the ten fields `Core` talks about), `Core`/`content`
  depend on it only;
* `Board.xor` calls commute;
* `Core.remove` / `Core.add` / `Core.move`: single-man updates phrased on `content`.
-/
namespace Chess

/-! ### the placement part -/

/-- the board with every non-placement field reset -/
def Board.pl (b : Board) : Board :=
  { b with stm := .white, wcr := .noRights, bcr := .noRights, pinned := 0#64, checkers := 0#64, ep := none }

/-- same piece boards, colour boards, `combined`, raw `hash` -/
def SamePl (b b' : Board) : Prop := b.pl = b'.pl

theorem SamePl.refl (b : Board) : SamePl b b := rfl
theorem SamePl.symm {b b' : Board} (h : SamePl b b') : SamePl b' b := Eq.symm h
theorem SamePl.trans {a b c : Board} (h : SamePl a b) (h' : SamePl b c) : SamePl a c := Eq.trans h h'

theorem samePl_iff (b b' : Board) : SamePl b b' ↔
    b.pawns = b'.pawns ∧ b.knights = b'.knights ∧ b.bishops = b'.bishops ∧ b.rooks = b'.rooks ∧
    b.queens = b'.queens ∧ b.kings = b'.kings ∧ b.white = b'.white ∧ b.black = b'.black ∧
    b.combined = b'.combined ∧ b.hash = b'.hash := by
  unfold SamePl Board.pl
  constructor
  · intro h
    injection h with h1 h2 h3 h4 h5 h6 h7 h8 h9 h10 h11 h12 h13 h14 h15 h16
    exact ⟨h1, h2, h3, h4, h5, h6, h7, h8, h9, h15⟩
  · rintro ⟨h1, h2, h3, h4, h5, h6, h7, h8, h9, h10⟩
    rw [h1, h2, h3, h4, h5, h6, h7, h8, h9, h10]

theorem Struct.pl_iff (b : Board) : Struct b ↔ Struct b.pl :=
  ⟨fun h => ⟨h.1, h.2, h.3, h.4⟩, fun h => ⟨h.1, h.2, h.3, h.4⟩⟩

theorem content_pl (b : Board) : b.pl.content = b.content := rfl

theorem placementHash_pl (T : Tables) (b : Board) : placementHash T b.pl = placementHash T b := rfl

theorem Core.pl_iff (T : Tables) (b : Board) : Core T b ↔ Core T b.pl :=
  ⟨fun h => ⟨(Struct.pl_iff b).mp h.toStruct, h.hash⟩, fun h => ⟨(Struct.pl_iff b).mpr h.toStruct, h.hash⟩⟩

theorem SamePl.struct_iff {b b' : Board} (h : SamePl b b') : Struct b ↔ Struct b' := by
  rw [Struct.pl_iff b, Struct.pl_iff b', h]

/-- `Core` is insensitive to the non-placement fields -/
theorem SamePl.core_iff {b b' : Board} (T : Tables) (h : SamePl b b') : Core T b ↔ Core T b' := by
  rw [Core.pl_iff T b, Core.pl_iff T b', h]

theorem SamePl.content_eq {b b' : Board} (h : SamePl b b') : b.content = b'.content := by
  rw [← content_pl b, ← content_pl b', h]

theorem SamePl.hash_eq {b b' : Board} (h : SamePl b b') : b.hash = b'.hash := ((samePl_iff b b').mp h).2.2.2.2.2.2.2.2.2

theorem pl_xor (T : Tables) (b : Board) (p : Piece) (bb : BB) (c : Color) :
    (b.xor T p bb c).pl = b.pl.xor T p bb c := by
  cases p <;> cases c <;> rfl

theorem SamePl.xor {b b' : Board} (T : Tables) (h : SamePl b b') (p : Piece) (bb : BB) (c : Color) :
    SamePl (b.xor T p bb c) (b'.xor T p bb c) := by
  unfold SamePl
  rw [pl_xor, pl_xor, h]

theorem pl_setCastleRights (b : Board) (c : Color) (cr : CastleRights) : (b.setCastleRights c cr).pl = b.pl := by
  cases c <;> rfl

theorem pl_setEp (T : Tables) (b : Board) (s : Sq) : (b.setEp T s).pl = b.pl := by
  unfold Board.setEp
  split <;> rfl

theorem pl_updatePinInfo (T : Tables) (b : Board) : (b.updatePinInfo T).pl = b.pl := rfl

theorem samePl_setCastleRights (b : Board) (c : Color) (cr : CastleRights) : SamePl (b.setCastleRights c cr) b :=
  pl_setCastleRights b c cr
theorem samePl_setEp (T : Tables) (b : Board) (s : Sq) : SamePl (b.setEp T s) b := pl_setEp T b s
theorem samePl_updatePinInfo (T : Tables) (b : Board) : SamePl (b.updatePinInfo T) b := rfl

/-- the record updates of the cached / non-placement fields -/
theorem samePl_with (b : Board) (stm : Color) (ep : Option Sq) (pinned checkers : BB) :
    SamePl { b with stm := stm, ep := ep, pinned := pinned, checkers := checkers } b := rfl

/-! ### the blank board -/

theorem blank_pieceOn (s : Sq) : Board.blank.pieceOn s = none := by
  rw [pieceOn_none_iff]; exact BitVec.getLsbD_zero

theorem blank_content (s : Sq) : Board.blank.content s = none := by
  unfold Board.content; rw [blank_pieceOn]

theorem foldl_xor_zero (l : List Sq) : l.foldl (fun (h : BB) (_ : Sq) => h ^^^ 0#64) 0#64 = 0#64 := by
  induction l with
  | nil => rfl
  | cons t ts ih => simpa using ih

theorem Struct.blank : Struct Board.blank where
  piece_disj := by intro i x y _ hx; cases x <;> simp [Board.pbit, Board.pieces, Board.blank] at hx
  color_disj := by intro i h; simp [Board.blank] at h
  comb_color := by intro i; simp [Board.blank]
  comb_piece := by
    intro i
    constructor
    · intro h; simp [Board.blank] at h
    · rintro ⟨p, hp⟩; cases p <;> simp [Board.pbit, Board.pieces, Board.blank] at hp

theorem Core.blank (T : Tables) : Core T Board.blank where
  toStruct := Struct.blank
  hash := by
    unfold placementHash
    have : (fun (h : BB) (s : Sq) => h ^^^ keyAt T Board.blank s) = fun h _ => h ^^^ 0#64 := by
      funext h s
      rw [keyAt_content, blank_content]
    rw [this, foldl_xor_zero]; rfl

/-! ### `Board.xor` calls commute -/

theorem Board.ext_fields {b b' : Board} (hp : ∀ q, b.pieces q = b'.pieces q)
    (hc : ∀ d, b.colorCombined d = b'.colorCombined d) (h1 : b.combined = b'.combined) (h2 : b.stm = b'.stm)
    (h3 : b.wcr = b'.wcr) (h4 : b.bcr = b'.bcr) (h5 : b.pinned = b'.pinned) (h6 : b.checkers = b'.checkers)
    (h7 : b.hash = b'.hash) (h8 : b.ep = b'.ep) : b = b' := by
  have p1 := hp .pawn; have p2 := hp .knight; have p3 := hp .bishop
  have p4 := hp .rook; have p5 := hp .queen; have p6 := hp .king
  have c1 := hc .white; have c2 := hc .black
  cases b; cases b'
  simp only [Board.pieces, Board.colorCombined] at *
  subst p1 p2 p3 p4 p5 p6 c1 c2 h1 h2 h3 h4 h5 h6 h7 h8
  rfl

theorem bv_xor_right_comm (a x y : BB) : a ^^^ x ^^^ y = a ^^^ y ^^^ x := by
  rw [BitVec.xor_assoc, BitVec.xor_comm x y, ← BitVec.xor_assoc]

/-- toggles of different (piece, square, colour) commute -/
theorem xor_xor_comm (T : Tables) (b : Board) (p1 p2 : Piece) (bb1 bb2 : BB) (c1 c2 : Color) :
    (b.xor T p1 bb1 c1).xor T p2 bb2 c2 = (b.xor T p2 bb2 c2).xor T p1 bb1 c1 := by
  apply Board.ext_fields
  · intro q
    rw [xor_pieces, xor_pieces, xor_pieces, xor_pieces]
    by_cases h1 : q = p1 <;> by_cases h2 : q = p2
    · simp only [if_pos h1, if_pos h2]; exact bv_xor_right_comm _ _ _
    · simp only [if_pos h1, if_neg h2]
    · simp only [if_neg h1, if_pos h2]
    · simp only [if_neg h1, if_neg h2]
  · intro d
    rw [xor_colorCombined, xor_colorCombined, xor_colorCombined, xor_colorCombined]
    by_cases h1 : d = c1 <;> by_cases h2 : d = c2
    · simp only [if_pos h1, if_pos h2]; exact bv_xor_right_comm _ _ _
    · simp only [if_pos h1, if_neg h2]
    · simp only [if_neg h1, if_pos h2]
    · simp only [if_neg h1, if_neg h2]
  · rw [xor_combined, xor_combined, xor_combined, xor_combined]; exact bv_xor_right_comm _ _ _
  · rw [xor_stm, xor_stm, xor_stm, xor_stm]
  · rw [xor_wcr, xor_wcr, xor_wcr, xor_wcr]
  · rw [xor_bcr, xor_bcr, xor_bcr, xor_bcr]
  · rw [xor_pinned, xor_pinned, xor_pinned, xor_pinned]
  · rw [xor_checkers, xor_checkers, xor_checkers, xor_checkers]
  · rw [xor_hash, xor_hash, xor_hash, xor_hash]; exact bv_xor_right_comm _ _ _
  · rw [xor_ep, xor_ep, xor_ep, xor_ep]

/-! ### single-man updates phrased on `content` -/

theorem Core.remove {T : Tables} {b : Board} (h : Core T b) {s : Sq} {p : Piece} {c : Color}
    (hs : b.content s = some (p, c)) :
    Core T (b.xor T p (BB.ofSq s) c) ∧
    ∀ t, (b.xor T p (BB.ofSq s) c).content t = if t = s then none else b.content t := by
  obtain ⟨hp, hc⟩ := (h.toStruct.content_some_iff s p c).mp hs
  exact ⟨h.xor_remove s p c hp hc, content_xor_remove T h.toStruct s p c hp hc⟩

theorem Core.add {T : Tables} {b : Board} (h : Core T b) {s : Sq} (p : Piece) (c : Color)
    (hs : b.content s = none) :
    Core T (b.xor T p (BB.ofSq s) c) ∧
    ∀ t, (b.xor T p (BB.ofSq s) c).content t = if t = s then some (p, c) else b.content t := by
  have he := (h.toStruct.content_none_iff s).mp hs
  exact ⟨h.xor_add s p c he, content_xor_add T h.toStruct s p c he⟩

/-- moving a man to an empty square: the two toggles `make_move_new` starts with -/
theorem Core.move_quiet {T : Tables} {b : Board} (h : Core T b) {S D : Sq} {p : Piece} {c : Color}
    (hS : b.content S = some (p, c)) (hD : b.content D = none) :
    Core T ((b.xor T p (BB.ofSq S) c).xor T p (BB.ofSq D) c) ∧
    ∀ t, ((b.xor T p (BB.ofSq S) c).xor T p (BB.ofSq D) c).content t =
      if t = D then some (p, c) else if t = S then none else b.content t := by
  have hne : D ≠ S := by intro e; rw [e, hS] at hD; cases hD
  obtain ⟨h1, c1⟩ := h.remove hS
  have hD1 : (b.xor T p (BB.ofSq S) c).content D = none := by rw [c1, if_neg hne, hD]
  obtain ⟨h2, c2⟩ := h1.add p c hD1
  refine ⟨h2, ?_⟩
  intro t
  rw [c2, c1]

/-- moving a man onto an enemy man: the three toggles of `make_move_new`, which pass through a state
with two men on the destination; reordered by commutation into remove, remove, add -/
theorem Core.move_capture {T : Tables} {b : Board} (h : Core T b) {S D : Sq} {p q : Piece} {c o : Color}
    (hS : b.content S = some (p, c)) (hD : b.content D = some (q, o)) (hne : S ≠ D) :
    Core T (((b.xor T p (BB.ofSq S) c).xor T p (BB.ofSq D) c).xor T q (BB.ofSq D) o) ∧
    ∀ t, (((b.xor T p (BB.ofSq S) c).xor T p (BB.ofSq D) c).xor T q (BB.ofSq D) o).content t =
      if t = D then some (p, c) else if t = S then none else b.content t := by
  have e : ((b.xor T p (BB.ofSq S) c).xor T p (BB.ofSq D) c).xor T q (BB.ofSq D) o =
      ((b.xor T q (BB.ofSq D) o).xor T p (BB.ofSq S) c).xor T p (BB.ofSq D) c := by
    rw [xor_xor_comm T (b.xor T p (BB.ofSq S) c) p q, xor_xor_comm T b p q]
  rw [e]
  obtain ⟨h1, c1⟩ := h.remove hD
  have hS1 : (b.xor T q (BB.ofSq D) o).content S = some (p, c) := by rw [c1, if_neg hne, hS]
  have hD1 : (b.xor T q (BB.ofSq D) o).content D = none := by rw [c1, if_pos rfl]
  obtain ⟨h2, c2⟩ := h1.move_quiet hS1 hD1
  refine ⟨h2, ?_⟩
  intro t
  rw [c2, c1]
  by_cases htD : t = D
  · rw [if_pos htD, if_pos htD]
  · rw [if_neg htD, if_neg htD, if_neg htD]

end Chess
