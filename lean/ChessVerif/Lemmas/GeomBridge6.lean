import ChessVerif.Lemmas.GeomBridge5
import ChessVerif.Model.Board
/-
Bridge library, part 6: `Geom.line` in terms of rays and betweenness; the stepping helpers of
`square.rs` (`uup`, `uforward`, …) in coordinates.
-/
namespace Chess

set_option maxRecDepth 100000

/-! ### `line` -/

theorem mem_line_aligned (a b x : Sq) : (Geom.line a b).getLsbD x.val =
    (aligned allDirs a b &&
      (x.file - a.file) * (b.rank - a.rank) == (x.rank - a.rank) * (b.file - a.file)) := by
  rw [mem_line]
  congr 1
  rw [Bool.eq_iff_iff, aligned_all_iff]
  simp only [Bool.and_eq_true, Bool.or_eq_true, bne_iff_ne, ne_eq, beq_iff_eq]
  constructor
  · rintro ⟨h, (h1 | h1) | h1⟩
    · exact ⟨h, Or.inl (by omega)⟩
    · exact ⟨h, Or.inr (Or.inl (by omega))⟩
    · exact ⟨h, Or.inr (Or.inr h1)⟩
  · rintro ⟨h, h1 | h1 | h1⟩
    · exact ⟨h, Or.inl (Or.inl (by omega))⟩
    · exact ⟨h, Or.inl (Or.inr (by omega))⟩
    · exact ⟨h, Or.inr h1⟩

/-- a square whose offset from `a` is an integer multiple `m` of the direction `u` is `a` itself, on the
ray from `a` along `u`, or on the opposite ray -/
private theorem on_line_cases (a x : Sq) (u : Dir) (m : Int)
    (h1 : x.file = a.file + m * u.df) (h2 : x.rank = a.rank + m * u.dr) :
    x = a ∨ (∃ k, onRay a u k x = true) ∨ (∃ k, onRay a u.opp k x = true) := by
  rcases Int.lt_trichotomy m 0 with h | h | h
  · right; right
    refine ⟨(-m).toNat, ?_⟩
    have e : ((-m).toNat : Int) = -m := Int.toNat_of_nonneg (by omega)
    rw [onRay_iff, Dir.opp_df, Dir.opp_dr, e, Int.neg_mul_neg, Int.neg_mul_neg]
    exact ⟨by omega, h1, h2⟩
  · subst h
    left
    apply Sq.ext_coord
    · rw [h1, Int.zero_mul, Int.add_zero]
    · rw [h2, Int.zero_mul, Int.add_zero]
  · right; left
    refine ⟨m.toNat, ?_⟩
    have e : (m.toNat : Int) = m := Int.toNat_of_nonneg (by omega)
    rw [onRay_iff, e]
    exact ⟨by omega, h1, h2⟩

private theorem cross_zero (u : Dir) (m n : Int) :
    (m * u.df) * (n * u.dr) = (m * u.dr) * (n * u.df) := by
  cases u <;> simp [Dir.df, Dir.dr, Int.mul_neg, Int.neg_mul]

set_option linter.unusedSimpArgs false in
/-- the line through `a` and `b` (`b` being `n` steps from `a` along `u`): `a`, the ray from `a`
along `u`, and the opposite ray -/
theorem mem_line_iff (a b x : Sq) : (Geom.line a b).getLsbD x.val = true ↔
    ∃ u n, onRay a u n b = true ∧
      (x = a ∨ (∃ k, onRay a u k x = true) ∨ (∃ k, onRay a u.opp k x = true)) := by
  rw [mem_line_aligned, Bool.and_eq_true, beq_iff_eq, aligned_iff]
  constructor
  · rintro ⟨⟨u, _, n, hn⟩, hx⟩
    refine ⟨u, n, hn, ?_⟩
    have hn' := (onRay_iff a u n b).mp hn
    obtain ⟨h0, hb1, hb2⟩ := hn'
    have eP : b.file - a.file = (n : Int) * u.df := by omega
    have eQ : b.rank - a.rank = (n : Int) * u.dr := by omega
    rw [eP, eQ, Int.mul_left_comm, Int.mul_left_comm (x.rank - a.rank)] at hx
    have hx' := Int.eq_of_mul_eq_mul_left (by omega : (n : Int) ≠ 0) hx
    cases u <;> simp only [Dir.df, Dir.dr] at hx' <;>
      first
      | exact on_line_cases a x _ (x.file - a.file) (by simp only [Dir.df, Dir.dr]; omega)
          (by simp only [Dir.df, Dir.dr]; omega)
      | exact on_line_cases a x _ (-(x.file - a.file)) (by simp only [Dir.df, Dir.dr]; omega)
          (by simp only [Dir.df, Dir.dr]; omega)
      | exact on_line_cases a x _ (x.rank - a.rank) (by simp only [Dir.df, Dir.dr]; omega)
          (by simp only [Dir.df, Dir.dr]; omega)
      | exact on_line_cases a x _ (-(x.rank - a.rank)) (by simp only [Dir.df, Dir.dr]; omega)
          (by simp only [Dir.df, Dir.dr]; omega)
  · rintro ⟨u, n, hn, hx⟩
    refine ⟨⟨u, mem_allDirs u, n, hn⟩, ?_⟩
    obtain ⟨h0, hb1, hb2⟩ := (onRay_iff a u n b).mp hn
    have eP : b.file - a.file = (n : Int) * u.df := by omega
    have eQ : b.rank - a.rank = (n : Int) * u.dr := by omega
    have key : ∃ m : Int, x.file - a.file = m * u.df ∧ x.rank - a.rank = m * u.dr := by
      rcases hx with rfl | ⟨k, hk⟩ | ⟨k, hk⟩
      · exact ⟨0, by omega, by omega⟩
      · obtain ⟨_, h1, h2⟩ := (onRay_iff a u k x).mp hk
        exact ⟨k, by omega, by omega⟩
      · obtain ⟨_, h1, h2⟩ := (onRay_iff a u.opp k x).mp hk
        rw [Dir.opp_df, Int.mul_neg] at h1
        rw [Dir.opp_dr, Int.mul_neg] at h2
        exact ⟨-(k : Int), by rw [Int.neg_mul]; omega, by rw [Int.neg_mul]; omega⟩
    obtain ⟨m, e1, e2⟩ := key
    rw [eP, eQ, e1, e2]
    exact cross_zero u m n

/-- the line through two aligned squares: the two squares, the squares between them, and the squares
beyond either end; empty if the squares are not aligned -/
theorem mem_line_iff_between (a b x : Sq) : (Geom.line a b).getLsbD x.val = true ↔
    aligned allDirs a b = true ∧
      (x = a ∨ x = b ∨ strictlyBetween a x b = true ∨ strictlyBetween x a b = true ∨
        strictlyBetween a b x = true) := by
  rw [mem_line_iff]
  constructor
  · rintro ⟨u, n, hn, hx⟩
    refine ⟨(aligned_iff allDirs a b).mpr ⟨u, mem_allDirs u, n, hn⟩, ?_⟩
    rcases hx with rfl | ⟨k, hk⟩ | ⟨k, hk⟩
    · exact Or.inl rfl
    · rcases Nat.lt_trichotomy k n with h | h | h
      · exact Or.inr (Or.inr (Or.inl ((strictlyBetween_iff a x b).mpr ⟨u, n, k, hn, hk, h⟩)))
      · subst h
        right; left
        have e1 := ((onRay_iff_step a u k x).mp hk).2
        have e2 := ((onRay_iff_step a u k b).mp hn).2
        rw [e1] at e2
        exact Option.some.inj e2
      · exact Or.inr (Or.inr (Or.inr (Or.inr ((strictlyBetween_iff a b x).mpr ⟨u, k, n, hk, hn, h⟩))))
    · have hxa : onRay x u k a = true := by
        have := onRay_opp hk; rwa [Dir.opp_opp] at this
      have hk0 := ((onRay_iff x u k a).mp hxa).1
      have hxb := onRay_add hxa hn
      exact Or.inr (Or.inr (Or.inr (Or.inl
        ((strictlyBetween_iff x a b).mpr ⟨u, k + n, k, hxb, hxa, by
          have := ((onRay_iff a u n b).mp hn).1; omega⟩))))
  · rintro ⟨hal, hx⟩
    obtain ⟨u, _, n, hn⟩ := (aligned_iff allDirs a b).mp hal
    rcases hx with rfl | rfl | h | h | h
    · exact ⟨u, n, hn, Or.inl rfl⟩
    · exact ⟨u, n, hn, Or.inr (Or.inl ⟨n, hn⟩)⟩
    · obtain ⟨t, _, _, ht, _⟩ := strictlyBetween_onRay h hn
      exact ⟨u, n, hn, Or.inr (Or.inl ⟨t, ht⟩)⟩
    · obtain ⟨u', n', t, h1, h2, h3⟩ := (strictlyBetween_iff x a b).mp h
      have hab := onRay_sub h2 h1 h3
      exact ⟨u', n' - t, hab, Or.inr (Or.inr ⟨t, onRay_opp h2⟩)⟩
    · obtain ⟨u', n', t, h1, h2, h3⟩ := (strictlyBetween_iff a b x).mp h
      exact ⟨u', t, h2, Or.inr (Or.inl ⟨n', h1⟩)⟩

theorem line_aligned {a b x : Sq} (h : (Geom.line a b).getLsbD x.val = true) :
    aligned allDirs a b = true := ((mem_line_iff_between a b x).mp h).1

theorem mem_line_left {a b : Sq} (h : aligned allDirs a b = true) :
    (Geom.line a b).getLsbD a.val = true :=
  (mem_line_iff_between a b a).mpr ⟨h, Or.inl rfl⟩

theorem mem_line_right {a b : Sq} (h : aligned allDirs a b = true) :
    (Geom.line a b).getLsbD b.val = true :=
  (mem_line_iff_between a b b).mpr ⟨h, Or.inr (Or.inl rfl)⟩

theorem between_subset_line {a b x : Sq} (h : (Geom.between a b).getLsbD x.val = true) :
    (Geom.line a b).getLsbD x.val = true := by
  rw [mem_between] at h
  exact (mem_line_iff_between a b x).mpr ⟨strictlyBetween_aligned h, Or.inr (Or.inr (Or.inl h))⟩

theorem line_symm (a b : Sq) : Geom.line a b = Geom.line b a := by
  apply BitVec.eq_of_getLsbD_eq
  intro i hi
  rw [Bool.eq_iff_iff]
  have h1 := mem_line_iff_between a b ⟨i, hi⟩
  have h2 := mem_line_iff_between b a ⟨i, hi⟩
  simp only at h1 h2
  rw [h1, h2, aligned_all_symm a b, strictlyBetween_symm a _ b, strictlyBetween_symm _ a b,
    strictlyBetween_symm a b _]
  constructor
  · rintro ⟨h, h' | h' | h' | h' | h'⟩
    · exact ⟨h, Or.inr (Or.inl h')⟩
    · exact ⟨h, Or.inl h'⟩
    · exact ⟨h, Or.inr (Or.inr (Or.inl h'))⟩
    · exact ⟨h, Or.inr (Or.inr (Or.inr (Or.inr h')))⟩
    · exact ⟨h, Or.inr (Or.inr (Or.inr (Or.inl h')))⟩
  · rintro ⟨h, h' | h' | h' | h' | h'⟩
    · exact ⟨h, Or.inr (Or.inl h')⟩
    · exact ⟨h, Or.inl h'⟩
    · exact ⟨h, Or.inr (Or.inr (Or.inl h'))⟩
    · exact ⟨h, Or.inr (Or.inr (Or.inr (Or.inr h')))⟩
    · exact ⟨h, Or.inr (Or.inr (Or.inr (Or.inl h')))⟩

/-! ### stepping helpers of `square.rs` -/

theorem Sq.file_mkSq (r f : Fin 8) : (mkSq r f).file = (f.val : Int) := by
  unfold mkSq Sq.file
  simp only
  omega

theorem Sq.rank_mkSq (r f : Fin 8) : (mkSq r f).rank = (r.val : Int) := by
  unfold mkSq Sq.rank
  simp only
  omega

theorem Sq.getFile_val (s : Sq) : (s.getFile.val : Int) = s.file := rfl
theorem Sq.getRank_val (s : Sq) : (s.getRank.val : Int) = s.rank := rfl

theorem Sq.uup_file (s : Sq) : s.uup.file = s.file := by
  unfold Sq.uup; rw [Sq.file_mkSq]; rfl
theorem Sq.udown_file (s : Sq) : s.udown.file = s.file := by
  unfold Sq.udown; rw [Sq.file_mkSq]; rfl
theorem Sq.uleft_rank (s : Sq) : s.uleft.rank = s.rank := by
  unfold Sq.uleft; rw [Sq.rank_mkSq]; rfl
theorem Sq.uright_rank (s : Sq) : s.uright.rank = s.rank := by
  unfold Sq.uright; rw [Sq.rank_mkSq]; rfl

/-- rank after `uup`, including the wrap-around on the last rank -/
theorem Sq.uup_rank' (s : Sq) : s.uup.rank = (s.rank + 1) % 8 := by
  have := Sq.coord_bounds s
  unfold Sq.uup; rw [Sq.rank_mkSq]
  unfold rankUp Sq.getRank Sq.rank
  simp only
  omega
theorem Sq.udown_rank' (s : Sq) : s.udown.rank = (s.rank + 7) % 8 := by
  unfold Sq.udown; rw [Sq.rank_mkSq]
  unfold rankDown Sq.getRank Sq.rank
  simp only
  omega
theorem Sq.uright_file' (s : Sq) : s.uright.file = (s.file + 1) % 8 := by
  unfold Sq.uright; rw [Sq.file_mkSq]
  unfold fileRight Sq.getFile Sq.file
  simp only
  omega
theorem Sq.uleft_file' (s : Sq) : s.uleft.file = (s.file + 7) % 8 := by
  unfold Sq.uleft; rw [Sq.file_mkSq]
  unfold fileLeft Sq.getFile Sq.file
  simp only
  omega

theorem Sq.uup_rank (s : Sq) (h : s.rank ≠ 7) : s.uup.rank = s.rank + 1 := by
  have := Sq.coord_bounds s; rw [Sq.uup_rank']; omega
theorem Sq.udown_rank (s : Sq) (h : s.rank ≠ 0) : s.udown.rank = s.rank - 1 := by
  have := Sq.coord_bounds s; rw [Sq.udown_rank']; omega
theorem Sq.uright_file (s : Sq) (h : s.file ≠ 7) : s.uright.file = s.file + 1 := by
  have := Sq.coord_bounds s; rw [Sq.uright_file']; omega
theorem Sq.uleft_file (s : Sq) (h : s.file ≠ 0) : s.uleft.file = s.file - 1 := by
  have := Sq.coord_bounds s; rw [Sq.uleft_file']; omega

theorem Sq.uforward_file (s : Sq) (c : Color) : (s.uforward c).file = s.file := by
  cases c
  · exact Sq.uup_file s
  · exact Sq.udown_file s
theorem Sq.ubackward_file (s : Sq) (c : Color) : (s.ubackward c).file = s.file := by
  cases c
  · exact Sq.udown_file s
  · exact Sq.uup_file s

/-- one rank forward, unless on the last rank (where the code wraps around) -/
theorem Sq.uforward_rank (s : Sq) (c : Color) (h : s.rank ≠ c.lastRank) :
    (s.uforward c).rank = s.rank + c.fwd := by
  cases c
  · exact Sq.uup_rank s h
  · have := Sq.udown_rank s h
    show s.udown.rank = s.rank + -1
    omega
/-- one rank backward, unless on the home rank -/
theorem Sq.ubackward_rank (s : Sq) (c : Color) (h : s.rank ≠ c.homeRank) :
    (s.ubackward c).rank = s.rank - c.fwd := by
  cases c
  · exact Sq.udown_rank s h
  · have := Sq.uup_rank s h
    show s.uup.rank = s.rank - -1
    omega

/-- the unchecked steps are the wrapping steps of `Geom` -/
theorem Sq.uforward_eq_stepWrap (s : Sq) (c : Color) : s.uforward c = Geom.stepWrap s 0 c.fwd := by
  revert s; cases c <;> decide +kernel
theorem Sq.ubackward_eq_stepWrap (s : Sq) (c : Color) : s.ubackward c = Geom.stepWrap s 0 (-c.fwd) := by
  revert s; cases c <;> decide +kernel
theorem Sq.uleft_eq_stepWrap : ∀ s : Sq, s.uleft = Geom.stepWrap s (-1) 0 := by decide +kernel
theorem Sq.uright_eq_stepWrap : ∀ s : Sq, s.uright = Geom.stepWrap s 1 0 := by decide +kernel

/-- the unchecked step is the geometric step whenever that stays on the board -/
theorem Sq.uforward_of_step {s o : Sq} {c : Color} (h : Geom.step s 0 c.fwd = some o) :
    s.uforward c = o := by
  unfold Geom.step at h
  rw [sq?_eq_some_iff] at h
  have ho := Sq.coord_bounds o
  have hs := Sq.coord_bounds s
  apply Sq.ext_coord
  · rw [Sq.uforward_file]; omega
  · rw [Sq.uforward_rank s c (by cases c <;> simp only [Color.fwd] at h <;>
      simp only [Color.lastRank, Color.other, Color.homeRank] <;> omega)]
    omega

theorem Sq.ubackward_of_step {s o : Sq} {c : Color} (h : Geom.step s 0 (-c.fwd) = some o) :
    s.ubackward c = o := by
  unfold Geom.step at h
  rw [sq?_eq_some_iff] at h
  have ho := Sq.coord_bounds o
  have hs := Sq.coord_bounds s
  apply Sq.ext_coord
  · rw [Sq.ubackward_file]; omega
  · rw [Sq.ubackward_rank s c (by cases c <;> simp only [Color.fwd] at h <;>
      simp only [Color.homeRank] <;> omega)]
    omega

/-- the checked steps are the geometric steps -/
theorem Sq.up_eq_step (s : Sq) : s.up = Geom.step s 0 1 := by
  revert s; decide +kernel
theorem Sq.down_eq_step (s : Sq) : s.down = Geom.step s 0 (-1) := by
  revert s; decide +kernel
theorem Sq.left_eq_step (s : Sq) : s.left = Geom.step s (-1) 0 := by
  revert s; decide +kernel
theorem Sq.right_eq_step (s : Sq) : s.right = Geom.step s 1 0 := by
  revert s; decide +kernel
theorem Sq.forward_eq_step (s : Sq) (c : Color) : s.forward c = Geom.step s 0 c.fwd := by
  cases c
  · exact Sq.up_eq_step s
  · exact Sq.down_eq_step s
theorem Sq.backward_eq_step (s : Sq) (c : Color) : s.backward c = Geom.step s 0 (-c.fwd) := by
  cases c
  · exact Sq.down_eq_step s
  · exact Sq.up_eq_step s

/-- `Geom.step` by a unit direction is `step?` with one step -/
theorem step_eq_step? (s : Sq) (u : Dir) : Geom.step s u.df u.dr = step? s u 1 := by
  unfold Geom.step step?
  simp

/-- the pawn-attack table in terms of the pawn's square: a `c`-pawn on `s` attacks `x` iff `x` is one
rank forward and one file aside -/
theorem mem_pawnAttacks_iff (c : Color) (s x : Sq) : (Geom.pawnAttacks c s).getLsbD x.val = true ↔
    x.rank = s.rank + c.fwd ∧ (x.file = s.file + 1 ∨ x.file = s.file - 1) := by
  rw [mem_pawnAttacks]
  simp only [Bool.and_eq_true, beq_iff_eq]
  constructor
  · rintro ⟨h1, h2⟩; exact ⟨by omega, by omega⟩
  · rintro ⟨h1, h2⟩; exact ⟨by omega, by omega⟩

end Chess
