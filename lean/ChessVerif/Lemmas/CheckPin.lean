import ChessVerif.Lemmas.GeomBridge
import ChessVerif.Lemmas.PinCheck1
import ChessVerif.Lemmas.Sane
/-
C03: `Board.updatePinInfo` (the model of `update_pin_info`) computes exactly the checkers and the
absolutely pinned men of the specification (`checkerSq`, `pinnedSq` of `Spec/Rules.lean`).

Plan: (1) single-bit boards and the king square; (2) the eight bits of a square from its content;
(3) the slider scan as a Boolean formula per square (every `^^^` toggles a bit at most once);
(4) the three contributions to `checkers` and the contribution to `pinned`, each read on the abstract
position; (5) assembly.
-/
namespace Chess
namespace CheckPin
open PinCheck

set_option maxRecDepth 100000

/-! ### single-bit boards -/

theorem popcnt_ofSq : ∀ s : Sq, (BB.ofSq s).popcnt = 1 := by decide +kernel

/-- a board with exactly one member: its bits -/
theorem bit_of_popcnt_one {x : BB} (h : x.popcnt = 1) (i : Nat) :
    x.getLsbD i = decide (i = x.toSq.val) := by
  have e := BB.ofSq_toSq x h
  have : x.getLsbD i = (BB.ofSq x.toSq).getLsbD i := by rw [e]
  rw [this, BB.getLsbD_ofSq]

theorem eq_of_popcnt_one {x : BB} (h : x.popcnt = 1) {s t : Sq} (hs : x.getLsbD s.val = true)
    (ht : x.getLsbD t.val = true) : s = t := by
  rw [bit_of_popcnt_one h, decide_eq_true_eq] at hs ht
  exact Fin.ext (hs.trans ht.symm)

/-- a board whose members are exactly `{y}` is `ofSq y` -/
theorem eq_ofSq_of_bits {x : BB} {y : Sq} (h : ∀ z : Sq, x.getLsbD z.val = decide (z = y)) : x = BB.ofSq y := by
  apply BitVec.eq_of_getLsbD_eq
  intro i hi
  have := h ⟨i, hi⟩
  simp only at this
  rw [this, BB.getLsbD_ofSq]
  by_cases he : i = y.val
  · have : (⟨i, hi⟩ : Sq) = y := Fin.ext he
    rw [decide_eq_true this, decide_eq_true he]
  · have : (⟨i, hi⟩ : Sq) ≠ y := fun hh => he (congrArg Fin.val hh)
    rw [decide_eq_false this, decide_eq_false he]

theorem mem_toList (x : BB) (s : Sq) : s ∈ x.toList ↔ x.getLsbD s.val = true := by
  rw [BB.toList_exact, List.mem_filter]
  exact ⟨fun h => h.2, fun h => ⟨mem_allSq s, h⟩⟩

theorem toList_nodup (x : BB) : x.toList.Nodup := by
  rw [BB.toList_exact]
  exact List.Pairwise.filter _ allSq_nodup

/-! ### the king square -/

/-- with exactly one king of colour `c`, `king_square(c)` is the one square in `kings & color(c)` -/
theorem kingSquare_bit {b : Board} {c : Color} (hk : (b.kings &&& b.colorCombined c).popcnt = 1) (s : Sq) :
    (b.kings &&& b.colorCombined c).getLsbD s.val = true ↔ s = b.kingSquare c := by
  rw [bit_of_popcnt_one hk, decide_eq_true_eq]
  unfold Board.kingSquare
  exact ⟨fun h => Fin.ext h, fun h => congrArg Fin.val h⟩

theorem kingAt {b : Board} (hs : Struct b) {c : Color} (hk : (b.kings &&& b.colorCombined c).popcnt = 1) :
    KingAt b.abs c (b.kingSquare c) := by
  intro s
  rw [abs_board, hs.content_some_iff, ← kingSquare_bit hk, BitVec.getLsbD_and, Bool.and_eq_true]
  exact Iff.rfl

theorem content_kingSquare {b : Board} (hs : Struct b) {c : Color}
    (hk : (b.kings &&& b.colorCombined c).popcnt = 1) : b.content (b.kingSquare c) = some (.king, c) := by
  have := (kingAt hs hk (b.kingSquare c)).mpr rfl
  rwa [abs_board] at this

theorem kingSq?_abs {b : Board} (hs : Struct b) {c : Color} (hk : (b.kings &&& b.colorCombined c).popcnt = 1) :
    kingSq? b.abs c = some (b.kingSquare c) := kingSq?_of_KingAt (kingAt hs hk)

/-! ### the bits of a square from its content -/

theorem bits_of_content_some {b : Board} (hs : Struct b) {x : Sq} {pc : Piece} {c : Color}
    (h : b.content x = some (pc, c)) :
    (∀ q, b.pbit q x.val = decide (q = pc)) ∧ (∀ d, b.cbit d x.val = decide (d = c)) ∧
      b.combined.getLsbD x.val = true := by
  obtain ⟨hp, hc⟩ := (hs.content_some_iff x pc c).mp h
  refine ⟨?_, ?_, (hs.comb_piece x.val).mpr ⟨pc, hp⟩⟩
  · intro q
    by_cases hq : q = pc
    · subst hq; rw [hp, decide_eq_true rfl]
    · rw [hs.piece_disj x.val pc q (Ne.symm hq) hp, decide_eq_false hq]
  · intro d
    by_cases hd : d = c
    · subst hd; rw [hc, decide_eq_true rfl]
    · rw [decide_eq_false hd]
      cases c <;> cases d
      · exact absurd rfl hd
      · exact hs.color_disj x.val hc
      · cases hw : b.cbit Color.white x.val with
        | false => rfl
        | true =>
          have := hs.color_disj x.val hw
          have hc' : b.black.getLsbD x.val = true := hc
          rw [hc'] at this; cases this
      · exact absurd rfl hd

theorem bits_of_content_none {b : Board} (hs : Struct b) {x : Sq} (h : b.content x = none) :
    (∀ q, b.pbit q x.val = false) ∧ (∀ d, b.cbit d x.val = false) ∧ b.combined.getLsbD x.val = false := by
  have hc := (hs.content_none_iff x).mp h
  obtain ⟨h1, h2, h3⟩ := hs.empty_bits x.val hc
  refine ⟨h1, ?_, hc⟩
  intro d; cases d
  · exact h2
  · exact h3

/-- occupancy of a square on the abstract position -/
theorem combined_bit_false_iff {b : Board} (hs : Struct b) (z : Sq) :
    b.combined.getLsbD z.val = false ↔ b.abs.empty z = true := by
  rw [empty_iff, abs_board, hs.content_none_iff]

theorem combined_bit_true_iff {b : Board} (hs : Struct b) (z : Sq) :
    b.combined.getLsbD z.val = true ↔ b.abs.empty z = false := by
  have := combined_bit_false_iff hs z
  cases h1 : b.combined.getLsbD z.val <;> cases h2 : b.abs.empty z <;> simp_all

theorem colorAt_iff_cbit {b : Board} (hs : Struct b) (s : Sq) (c : Color) :
    b.abs.colorAt s = some c ↔ b.cbit c s.val = true := by
  rw [colorAt_iff, abs_board]
  constructor
  · rintro ⟨pc, h⟩; exact ((hs.content_some_iff s pc c).mp h).2
  · intro h
    have hcomb : b.combined.getLsbD s.val = true := by
      rw [hs.comb_color]
      cases c
      · have : b.white.getLsbD s.val = true := h
        rw [this]; rfl
      · have : b.black.getLsbD s.val = true := h
        rw [this, Bool.or_true]
    obtain ⟨p, hp⟩ := (hs.comb_piece s.val).mp hcomb
    exact ⟨p, (hs.content_some_iff s p c).mpr ⟨hp, h⟩⟩

/-! ### the slider scan, bit by bit -/

theorem scan_nil (T : Tables) (comb : BB) (k : Sq) (acc : BB × BB) :
    Board.sliderScan T comb k [] acc = acc := by
  unfold Board.sliderScan; rfl

theorem scan_cons (T : Tables) (comb : BB) (k s : Sq) (rest : List Sq) (P C : BB) :
    Board.sliderScan T comb k (s :: rest) (P, C) =
      if T.between s k &&& comb = 0#64 then Board.sliderScan T comb k rest (P, C ^^^ BB.ofSq s)
      else if (T.between s k &&& comb).popcnt = 1 then
        Board.sliderScan T comb k rest (P ^^^ (T.between s k &&& comb), C)
      else Board.sliderScan T comb k rest (P, C) := by
  rw [Board.sliderScan]

/-- the `checkers` component: each scanned square with an empty `between` toggles its own bit once -/
theorem scan_checkers (T : Tables) (comb : BB) (k : Sq) : ∀ (l : List Sq) (P C : BB), l.Nodup → ∀ x : Sq,
    (Board.sliderScan T comb k l (P, C)).2.getLsbD x.val =
      (C.getLsbD x.val ^^ (decide (x ∈ l) && decide (T.between x k &&& comb = 0#64))) := by
  intro l
  induction l with
  | nil => intro P C _ x; rw [scan_nil]; simp
  | cons s rest ih =>
    intro P C hnd x
    rw [List.nodup_cons] at hnd
    obtain ⟨hs, hnd⟩ := hnd
    rw [scan_cons]
    by_cases h0 : T.between s k &&& comb = 0#64
    · rw [if_pos h0, ih _ _ hnd, getLsbD_xor_ofSq]
      by_cases hx : x = s
      · subst hx
        simp [hs, h0]
      · have hv : x.val ≠ s.val := fun hh => hx (Fin.ext hh)
        simp [hx, hv]
    · have hstep : ∀ Q, (Board.sliderScan T comb k rest (Q, C)).2.getLsbD x.val =
          (C.getLsbD x.val ^^ (decide (x ∈ s :: rest) && decide (T.between x k &&& comb = 0#64))) := by
        intro Q
        rw [ih _ _ hnd]
        by_cases hx : x = s
        · subst hx; simp [hs, h0]
        · simp [hx]
      rw [if_neg h0]
      split
      · exact hstep _
      · exact hstep _

/-- "scanning `s` toggles bit `y` of `pinned`" -/
def pinBit (T : Tables) (comb : BB) (k y s : Sq) : Bool :=
  decide ((T.between s k &&& comb).popcnt = 1) && (T.between s k &&& comb).getLsbD y.val

/-- the `pinned` component, provided no two scanned squares toggle the same bit -/
theorem scan_pinned (T : Tables) (comb : BB) (k y : Sq) : ∀ (l : List Sq) (P C : BB),
    l.Pairwise (fun s s' => ¬ (pinBit T comb k y s = true ∧ pinBit T comb k y s' = true)) →
    (Board.sliderScan T comb k l (P, C)).1.getLsbD y.val =
      (P.getLsbD y.val ^^ l.any (pinBit T comb k y)) := by
  intro l
  induction l with
  | nil => intro P C _; rw [scan_nil]; simp
  | cons s rest ih =>
    intro P C hpw
    rw [List.pairwise_cons] at hpw
    obtain ⟨hs, hpw⟩ := hpw
    rw [scan_cons, List.any_cons]
    by_cases h0 : T.between s k &&& comb = 0#64
    · have hb : pinBit T comb k y s = false := by
        unfold pinBit; rw [h0]; simp
      rw [if_pos h0, ih _ _ hpw, hb, Bool.false_or]
    · rw [if_neg h0]
      by_cases h1 : (T.between s k &&& comb).popcnt = 1
      · rw [if_pos h1, ih _ _ hpw, BitVec.getLsbD_xor]
        have hb : pinBit T comb k y s = (T.between s k &&& comb).getLsbD y.val := by
          unfold pinBit; rw [decide_eq_true h1, Bool.true_and]
        rw [hb]
        cases hy : (T.between s k &&& comb).getLsbD y.val with
        | false => simp
        | true =>
          have hrest : rest.any (pinBit T comb k y) = false := by
            rw [List.any_eq_false]
            intro s' hs' hp
            exact hs s' hs' ⟨by rw [hb, hy], hp⟩
          rw [hrest]; simp
      · have hb : pinBit T comb k y s = false := by
          unfold pinBit; rw [decide_eq_false h1, Bool.false_and]
        rw [if_neg h1, ih _ _ hpw, hb, Bool.false_or]

/-! ### `update_pin_info` unfolded -/

/-- the enemy bishops/rooks/queens on a line of their kind through `k` (the squares the scan visits) -/
def pinnersAt (T : Tables) (b : Board) (k : Sq) : BB :=
  b.colorCombined b.stm.other &&&
    ((T.bishopRays k &&& (b.bishops ||| b.queens)) ||| (T.rookRays k &&& (b.rooks ||| b.queens)))

theorem updatePinInfo_pinned (T : Tables) (b : Board) :
    (b.updatePinInfo T).pinned =
      (Board.sliderScan T b.combined (b.kingSquare b.stm) (pinnersAt T b (b.kingSquare b.stm)).toList
        (0#64, 0#64)).1 := rfl

theorem updatePinInfo_checkers (T : Tables) (b : Board) :
    (b.updatePinInfo T).checkers =
      (Board.sliderScan T b.combined (b.kingSquare b.stm) (pinnersAt T b (b.kingSquare b.stm)).toList
        (0#64, 0#64)).2 ^^^
      (T.knight (b.kingSquare b.stm) &&& b.colorCombined b.stm.other &&& b.knights) ^^^
      (T.pawnAttacks b.stm (b.kingSquare b.stm) &&& (b.colorCombined b.stm.other &&& b.pawns)) := rfl

/-- only `pinned` and `checkers` change -/
theorem updatePinInfo_eq (T : Tables) (b : Board) :
    b.updatePinInfo T = { b with pinned := (b.updatePinInfo T).pinned, checkers := (b.updatePinInfo T).checkers } := rfl

/-! ### the scanned squares -/

/-- the scan visits exactly the enemy sliders whose kind of line passes through `k` -/
theorem pinners_bit {T : Tables} (hT : TablesOK T) {b : Board} (hs : Struct b) (k x : Sq) :
    (pinnersAt T b k).getLsbD x.val = true ↔
      b.abs.colorAt x = some b.stm.other ∧ sliderAligned (b.abs.board x) x k = true := by
  unfold pinnersAt
  simp only [BitVec.getLsbD_and, BitVec.getLsbD_or, hT.bishopRays, hT.rookRays, mem_bishopRays, mem_rookRays,
    aligned_bishop_symm k x, aligned_rook_symm k x]
  rw [colorAt_iff_cbit hs, abs_board]
  cases hc : b.content x with
  | none =>
    obtain ⟨_, h2, _⟩ := bits_of_content_none hs hc
    have e : (b.colorCombined b.stm.other).getLsbD x.val = false := h2 _
    rw [e]
    simp [sliderAligned]
  | some pcc =>
    obtain ⟨pc, c⟩ := pcc
    obtain ⟨hp, _, _⟩ := bits_of_content_some hs hc
    have eB : b.bishops.getLsbD x.val = decide (Piece.bishop = pc) := hp .bishop
    have eR : b.rooks.getLsbD x.val = decide (Piece.rook = pc) := hp .rook
    have eQ : b.queens.getLsbD x.val = decide (Piece.queen = pc) := hp .queen
    rw [eB, eR, eQ]
    cases pc <;> simp [sliderAligned, aligned_allDirs, Bool.or_comm]

/-! ### the three kinds of checkers -/

theorem sliderCheck_iff {T : Tables} (hT : TablesOK T) {b : Board} (hs : Struct b) (k x : Sq) :
    ((pinnersAt T b k).getLsbD x.val && decide (T.between x k &&& b.combined = 0#64)) = true ↔
      b.abs.colorAt x = some b.stm.other ∧ sliderAligned (b.abs.board x) x k = true ∧
        ∀ z, strictlyBetween x z k = true → b.abs.empty z = true := by
  rw [Bool.and_eq_true, pinners_bit hT hs, decide_eq_true_eq, hT.between, between_and_eq_zero_iff, and_assoc]
  have : (∀ z, strictlyBetween x z k = true → b.combined.has z = false) ↔
      (∀ z, strictlyBetween x z k = true → b.abs.empty z = true) := by
    constructor
    · intro h z hz; exact (combined_bit_false_iff hs z).mp (h z hz)
    · intro h z hz; exact (combined_bit_false_iff hs z).mpr (h z hz)
  rw [this]

theorem knightCheck_iff {T : Tables} (hT : TablesOK T) {b : Board} (hs : Struct b) (k x : Sq) :
    (T.knight k &&& b.colorCombined b.stm.other &&& b.knights).getLsbD x.val = true ↔
      b.content x = some (.knight, b.stm.other) ∧ leaperAtt (b.content x) x k = true := by
  rw [BitVec.getLsbD_and, BitVec.getLsbD_and, Bool.and_eq_true, Bool.and_eq_true, hT.knight, mem_knight_symm,
    mem_knight, hs.content_some_iff]
  constructor
  · rintro ⟨⟨h1, h2⟩, h3⟩
    refine ⟨⟨h3, h2⟩, ?_⟩
    rw [(hs.content_some_iff x .knight b.stm.other).mpr ⟨h3, h2⟩]
    exact h1
  · rintro ⟨⟨h3, h2⟩, h1⟩
    rw [(hs.content_some_iff x .knight b.stm.other).mpr ⟨h3, h2⟩] at h1
    exact ⟨⟨h1, h2⟩, h3⟩

theorem pawnCheck_iff {T : Tables} (hT : TablesOK T) {b : Board} (hs : Struct b) (k x : Sq) :
    (T.pawnAttacks b.stm k &&& (b.colorCombined b.stm.other &&& b.pawns)).getLsbD x.val = true ↔
      b.content x = some (.pawn, b.stm.other) ∧ leaperAtt (b.content x) x k = true := by
  rw [BitVec.getLsbD_and, BitVec.getLsbD_and, Bool.and_eq_true, Bool.and_eq_true, hT.pawnAttacks,
    mem_pawnAttacks_symm, mem_pawnAttacks, hs.content_some_iff]
  constructor
  · rintro ⟨h1, h2, h3⟩
    refine ⟨⟨h3, h2⟩, ?_⟩
    rw [(hs.content_some_iff x .pawn b.stm.other).mpr ⟨h3, h2⟩]
    exact h1
  · rintro ⟨⟨h3, h2⟩, h1⟩
    rw [(hs.content_some_iff x .pawn b.stm.other).mpr ⟨h3, h2⟩] at h1
    exact ⟨h1, h2, h3⟩

/-! ### checkers: assembly -/

/-- the enemy king does not attack the mover's king (`is_sane` guarantees it, see
`kingsApart_of_isSane`); `update_pin_info` never reports a king as a checker, the specification's
`checkerSq` would -/
def KingsApart (b : Board) : Prop :=
  ∀ x, b.content x = some (.king, b.stm.other) → attacks b.abs x (b.kingSquare b.stm) = false

theorem xor3_eq_or {a n p : Bool} (h1 : a = true → n = false) (h2 : a = true → p = false)
    (h3 : n = true → p = false) : ((a ^^ n) ^^ p) = (a || n || p) := by
  cases a <;> cases n <;> cases p <;> simp_all

/-- bit `x` of the computed `checkers` as the three contributions -/
theorem checkers_bit (T : Tables) (b : Board) (x : Sq) :
    (b.updatePinInfo T).checkers.getLsbD x.val =
      ((((pinnersAt T b (b.kingSquare b.stm)).getLsbD x.val &&
          decide (T.between x (b.kingSquare b.stm) &&& b.combined = 0#64)) ^^
        (T.knight (b.kingSquare b.stm) &&& b.colorCombined b.stm.other &&& b.knights).getLsbD x.val) ^^
        (T.pawnAttacks b.stm (b.kingSquare b.stm) &&& (b.colorCombined b.stm.other &&& b.pawns)).getLsbD x.val) := by
  rw [updatePinInfo_checkers, BitVec.getLsbD_xor, BitVec.getLsbD_xor, scan_checkers _ _ _ _ _ _ (toList_nodup _)]
  have : decide (x ∈ (pinnersAt T b (b.kingSquare b.stm)).toList) =
      (pinnersAt T b (b.kingSquare b.stm)).getLsbD x.val := by
    rw [Bool.eq_iff_iff, decide_eq_true_eq, mem_toList]
  rw [this, BitVec.getLsbD_zero, Bool.false_xor]

theorem checkers_exact {T : Tables} (hT : TablesOK T) {b : Board} (hs : Struct b)
    (hk : (b.kings &&& b.colorCombined b.stm).popcnt = 1) (hkk : KingsApart b) (x : Sq) :
    (b.updatePinInfo T).checkers.getLsbD x.val = checkerSq b.abs x := by
  have hks : kingSq? b.abs b.abs.stm = some (b.kingSquare b.stm) := kingSq?_abs hs hk
  rw [checkers_bit, Bool.eq_iff_iff, checkerSq_iff hks]
  have hA := sliderCheck_iff hT hs (b.kingSquare b.stm) x
  have hN := knightCheck_iff hT hs (b.kingSquare b.stm) x
  have hP := pawnCheck_iff hT hs (b.kingSquare b.stm) x
  rw [xor3_eq_or, Bool.or_eq_true, Bool.or_eq_true, hA, hN, hP]
  · show _ ↔ b.abs.colorAt x = some b.stm.other ∧ _
    rw [abs_board]
    constructor
    · rintro ((⟨h1, h2, h3⟩ | ⟨h1, h2⟩) | ⟨h1, h2⟩)
      · exact ⟨h1, Or.inl ⟨h2, h3⟩⟩
      · exact ⟨colorAt_of_board (by rw [abs_board]; exact h1), Or.inr h2⟩
      · exact ⟨colorAt_of_board (by rw [abs_board]; exact h1), Or.inr h2⟩
    · rintro ⟨h1, ⟨h2, h3⟩ | h2⟩
      · exact Or.inl (Or.inl ⟨h1, h2, h3⟩)
      · obtain ⟨pc, hpc⟩ := (colorAt_iff _ _ _).mp h1
        rw [abs_board] at hpc
        cases pc with
        | knight => exact Or.inl (Or.inr ⟨hpc, h2⟩)
        | pawn => exact Or.inr ⟨hpc, h2⟩
        | king =>
          have := hkk x hpc
          rw [attacks_eq, abs_board, hpc] at this
          rw [hpc] at h2
          simp only [sliderAligned, Bool.false_and, Bool.false_or] at this
          rw [this] at h2; cases h2
        | bishop => rw [hpc] at h2; simp [leaperAtt] at h2
        | rook => rw [hpc] at h2; simp [leaperAtt] at h2
        | queen => rw [hpc] at h2; simp [leaperAtt] at h2
  · intro ha
    obtain ⟨_, h2, _⟩ := hA.mp ha
    cases hn : (T.knight (b.kingSquare b.stm) &&& b.colorCombined b.stm.other &&& b.knights).getLsbD x.val with
    | false => rfl
    | true =>
      obtain ⟨h3, _⟩ := hN.mp hn
      rw [abs_board, h3] at h2
      simp [sliderAligned] at h2
  · intro ha
    obtain ⟨_, h2, _⟩ := hA.mp ha
    cases hn : (T.pawnAttacks b.stm (b.kingSquare b.stm) &&& (b.colorCombined b.stm.other &&& b.pawns)).getLsbD x.val with
    | false => rfl
    | true =>
      obtain ⟨h3, _⟩ := hP.mp hn
      rw [abs_board, h3] at h2
      simp [sliderAligned] at h2
  · intro hn
    obtain ⟨h2, _⟩ := hN.mp hn
    cases hp : (T.pawnAttacks b.stm (b.kingSquare b.stm) &&& (b.colorCombined b.stm.other &&& b.pawns)).getLsbD x.val with
    | false => rfl
    | true =>
      obtain ⟨h3, _⟩ := hP.mp hp
      rw [h3] at h2; cases h2

/-! ### pinned men -/

/-- scanning `s` toggles bit `y` of `pinned` iff `y` holds the only man strictly between `s` and `k` -/
theorem pinBit_iff {T : Tables} (hT : TablesOK T) {b : Board} (hs : Struct b) (k y s : Sq) :
    pinBit T b.combined k y s = true ↔
      strictlyBetween s y k = true ∧ b.abs.empty y = false ∧
        ∀ z, strictlyBetween s z k = true → z = y ∨ b.abs.empty z = true := by
  unfold pinBit
  rw [Bool.and_eq_true, decide_eq_true_eq, hT.between]
  have hbit : ∀ z : Sq, (Geom.between s k &&& b.combined).getLsbD z.val =
      (strictlyBetween s z k && b.combined.getLsbD z.val) := by
    intro z; rw [BitVec.getLsbD_and, mem_between]
  constructor
  · rintro ⟨h1, hy⟩
    have hy' := hy
    rw [hbit, Bool.and_eq_true] at hy'
    refine ⟨hy'.1, (combined_bit_true_iff hs y).mp hy'.2, ?_⟩
    intro z hz
    cases hc : b.combined.getLsbD z.val with
    | false => exact Or.inr ((combined_bit_false_iff hs z).mp hc)
    | true =>
      left
      refine eq_of_popcnt_one h1 ?_ hy
      rw [hbit, hz, hc]; rfl
  · rintro ⟨h1, h2, h3⟩
    have e : Geom.between s k &&& b.combined = BB.ofSq y := by
      apply eq_ofSq_of_bits
      intro z
      rw [hbit]
      by_cases hzy : z = y
      · subst hzy
        rw [h1, (combined_bit_true_iff hs z).mpr h2, decide_eq_true rfl]; rfl
      · rw [decide_eq_false hzy]
        cases hz : strictlyBetween s z k with
        | false => rfl
        | true =>
          rcases h3 z hz with h | h
          · exact absurd h hzy
          · rw [(combined_bit_false_iff hs z).mpr h]; rfl
    rw [e]
    exact ⟨popcnt_ofSq y, BB.getLsbD_ofSq_self y⟩

/-- two different occupied squares cannot both have `y` as the only man between them and `k`:
they lie on the same ray from `k` through `y`, so the nearer one is between the farther one and `k` -/
theorem pin_unique {p : Pos} {k y s s' : Sq} (hne : s ≠ s') (ho : p.empty s = false) (ho' : p.empty s' = false)
    (h1 : strictlyBetween s y k = true) (h1z : ∀ z, strictlyBetween s z k = true → z = y ∨ p.empty z = true)
    (h2 : strictlyBetween s' y k = true) (h2z : ∀ z, strictlyBetween s' z k = true → z = y ∨ p.empty z = true) :
    False := by
  have g1 := strictlyBetween_symm' h1
  have g2 := strictlyBetween_symm' h2
  obtain ⟨u, n, t, hn, ht, htn⟩ := (strictlyBetween_iff k y s).mp g1
  obtain ⟨u', n', t', hn', ht', htn'⟩ := (strictlyBetween_iff k y s').mp g2
  obtain ⟨hu, htt⟩ := ray_dir_unique ht ht'
  subst hu htt
  rcases Nat.lt_trichotomy n n' with h | h | h
  · -- `s` is between `k` and `s'`
    have hb : strictlyBetween s' s k = true :=
      strictlyBetween_symm' ((strictlyBetween_iff k s s').mpr ⟨u, n', n, hn', hn, h⟩)
    rcases h2z s hb with e | e
    · exact strictlyBetween_ne_left h1 e.symm
    · rw [ho] at e; cases e
  · subst h
    have e1 := ((onRay_iff_step k u n s).mp hn).2
    have e2 := ((onRay_iff_step k u n s').mp hn').2
    rw [e1] at e2
    exact hne (Option.some.inj e2)
  · have hb : strictlyBetween s s' k = true :=
      strictlyBetween_symm' ((strictlyBetween_iff k s' s).mpr ⟨u, n, n', hn, hn', h⟩)
    rcases h1z s' hb with e | e
    · exact strictlyBetween_ne_left h2 e.symm
    · rw [ho'] at e; cases e

/-- bit `y` of the computed `pinned`: some scanned square has `y` as the only man between it and the king -/
theorem pinned_bit {T : Tables} (hT : TablesOK T) {b : Board} (hs : Struct b) (y : Sq) :
    (b.updatePinInfo T).pinned.getLsbD y.val =
      (pinnersAt T b (b.kingSquare b.stm)).toList.any (pinBit T b.combined (b.kingSquare b.stm) y) := by
  rw [updatePinInfo_pinned, scan_pinned, BitVec.getLsbD_zero, Bool.false_xor]
  refine List.Pairwise.imp_of_mem ?_ (toList_nodup _)
  intro s s' hm hm' hne
  rintro ⟨hp, hp'⟩
  rw [mem_toList, pinners_bit hT hs] at hm hm'
  obtain ⟨h1, _, h1z⟩ := (pinBit_iff hT hs _ _ _).mp hp
  obtain ⟨h2, _, h2z⟩ := (pinBit_iff hT hs _ _ _).mp hp'
  exact pin_unique hne (not_empty_of_colorAt hm.1) (not_empty_of_colorAt hm'.1) h1 h1z h2 h2z

theorem pinned_exact {T : Tables} (hT : TablesOK T) {b : Board} (hs : Struct b)
    (hk : (b.kings &&& b.colorCombined b.stm).popcnt = 1) (y : Sq) :
    ((b.updatePinInfo T).pinned &&& b.colorCombined b.stm).getLsbD y.val = pinnedSq b.abs y := by
  have hks : kingSq? b.abs b.abs.stm = some (b.kingSquare b.stm) := kingSq?_abs hs hk
  rw [BitVec.getLsbD_and, pinned_bit hT hs, Bool.eq_iff_iff, pinnedSq_iff hks, Bool.and_eq_true, List.any_eq_true]
  show _ ↔ b.abs.colorAt y = some b.stm ∧ _ ∧ ∃ x, b.abs.colorAt x = some b.stm.other ∧ _
  rw [colorAt_iff_cbit hs]
  constructor
  · rintro ⟨⟨s, hm, hp⟩, hc⟩
    rw [mem_toList, pinners_bit hT hs] at hm
    obtain ⟨h1, _, h1z⟩ := (pinBit_iff hT hs _ _ _).mp hp
    exact ⟨hc, strictlyBetween_ne_right h1, s, hm.1, h1, h1z, hm.2⟩
  · rintro ⟨hc, _, x, hx, h1, h1z, hal⟩
    refine ⟨⟨x, ?_, ?_⟩, hc⟩
    · rw [mem_toList, pinners_bit hT hs]; exact ⟨hx, hal⟩
    · exact (pinBit_iff hT hs _ _ _).mpr
        ⟨h1, not_empty_of_colorAt ((colorAt_iff_cbit hs y b.stm).mpr hc), h1z⟩

/-! ### the kings are not adjacent -/

/-- a king's attack on the abstract position is the king table, read either way round -/
theorem attacks_king_eq {b : Board} {x k : Sq} {c : Color} (hx : b.content x = some (.king, c)) :
    attacks b.abs x k = (Geom.king k).getLsbD x.val := by
  rw [attacks_eq, abs_board, hx]
  simp only [sliderAligned, leaperAtt, Bool.false_and, Bool.false_or]
  rw [← mem_king_spec, mem_king_symm]

/-- bit form of `KingsApart`: no king stands on a square of the king table of the mover's king -/
theorem kingsApart_of_bits {T : Tables} (hT : TablesOK T) {b : Board} (hs : Struct b)
    (h : T.king (b.kingSquare b.stm) &&& b.kings = 0#64) : KingsApart b := by
  intro x hx
  rw [attacks_king_eq hx]
  have hkb : b.kings.getLsbD x.val = true := ((hs.content_some_iff x .king _).mp hx).1
  have := (BB.eq_zero_iff _).mp h x
  rw [BitVec.getLsbD_and, hkb, Bool.and_true, hT.king] at this
  exact this

/-- `is_sane` checks the white king's neighbourhood; by symmetry of the king table this covers both sides -/
theorem kingsApart_of_sane {T : Tables} (hT : TablesOK T) {b : Board} (hs : Struct b) (hf : SaneFacts T b) :
    KingsApart b := by
  have hstm : b.stm = .white ∨ b.stm = .black := by cases b.stm <;> simp
  rcases hstm with hw | hb
  · apply kingsApart_of_bits hT hs
    rw [hw]; exact hf.kings_apart
  · intro x hx
    rw [attacks_king_eq hx]
    rw [hb] at hx ⊢
    have hxw : x = b.kingSquare .white := by
      apply (kingSquare_bit (c := .white) hf.wking x).mp
      obtain ⟨h1, h2⟩ := (hs.content_some_iff x .king .white).mp hx
      rw [BitVec.getLsbD_and, Bool.and_eq_true]; exact ⟨h1, h2⟩
    have hkb := content_kingSquare hs (c := .black) hf.bking
    have hkbit : b.kings.getLsbD (b.kingSquare .black).val = true :=
      ((hs.content_some_iff _ .king .black).mp hkb).1
    have := (BB.eq_zero_iff _).mp hf.kings_apart (b.kingSquare .black)
    rw [BitVec.getLsbD_and, hkbit, Bool.and_true, hT.king] at this
    rw [hxw, mem_king_symm]
    exact this

theorem kingsApart_of_isSane {T : Tables} (hT : TablesOK T) {b : Board} (hs : Struct b)
    (h : b.isSane T = true) : KingsApart b := kingsApart_of_sane hT hs (isSane_facts h)

/-- `is_sane`: the side to move has exactly one king -/
theorem oneKing_of_sane {T : Tables} {b : Board} (hf : SaneFacts T b) (c : Color) :
    (b.kings &&& b.colorCombined c).popcnt = 1 := by
  cases c
  · exact hf.wking
  · exact hf.bking

/-! ### occupancy queries -/

theorem colorOn_some_iff {b : Board} (hs : Struct b) (s : Sq) (c : Color) :
    b.colorOn s = some c ↔ (b.colorCombined c).getLsbD s.val = true := by
  cases hw : b.white.getLsbD s.val with
  | true =>
    have hb := hs.color_disj s.val hw
    rw [colorOn_white hw]
    cases c
    · exact ⟨fun _ => hw, fun _ => rfl⟩
    · constructor
      · intro h; cases h
      · intro h
        have h' : b.black.getLsbD s.val = true := h
        rw [hb] at h'; cases h'
  | false =>
    cases hb : b.black.getLsbD s.val with
    | true =>
      rw [colorOn_black hw hb]
      cases c
      · constructor
        · intro h; cases h
        · intro h
          have h' : b.white.getLsbD s.val = true := h
          rw [hw] at h'; cases h'
      · exact ⟨fun _ => hb, fun _ => rfl⟩
    | false =>
      rw [colorOn_none hw hb]
      constructor
      · intro h; cases h
      · intro h
        cases c
        · have h' : b.white.getLsbD s.val = true := h
          rw [hw] at h'; cases h'
        · have h' : b.black.getLsbD s.val = true := h
          rw [hb] at h'; cases h'

theorem colorOn_none_iff {b : Board} (hs : Struct b) (s : Sq) :
    b.colorOn s = none ↔ b.combined.getLsbD s.val = false := by
  rw [colorOn_bits, hs.comb_color]
  cases hw : b.white.getLsbD s.val <;> cases hb : b.black.getLsbD s.val <;> simp

theorem combined_eq_colors {b : Board} (hs : Struct b) : b.combined = b.white ||| b.black := by
  apply BitVec.eq_of_getLsbD_eq
  intro i _
  rw [hs.comb_color, BitVec.getLsbD_or]

theorem combined_eq_pieces {b : Board} (hs : Struct b) :
    b.combined = b.pawns ||| b.knights ||| b.bishops ||| b.rooks ||| b.queens ||| b.kings := by
  apply BitVec.eq_of_getLsbD_eq
  intro i _
  rw [Bool.eq_iff_iff, hs.comb_piece]
  simp only [BitVec.getLsbD_or, Bool.or_eq_true]
  constructor
  · rintro ⟨p, hp⟩
    cases p <;> simp only [Board.pbit, Board.pieces] at hp <;> simp [hp]
  · rintro (((((hp | hp) | hp) | hp) | hp) | hp)
    · exact ⟨.pawn, hp⟩
    · exact ⟨.knight, hp⟩
    · exact ⟨.bishop, hp⟩
    · exact ⟨.rook, hp⟩
    · exact ⟨.queen, hp⟩
    · exact ⟨.king, hp⟩

theorem colors_disjoint {b : Board} (hs : Struct b) : b.white &&& b.black = 0#64 := by
  apply BitVec.eq_of_getLsbD_eq
  intro i _
  rw [BitVec.getLsbD_and, BitVec.getLsbD_zero]
  cases hw : b.white.getLsbD i with
  | false => rfl
  | true => rw [hs.color_disj i hw]; rfl

theorem pieces_disjoint {b : Board} (hs : Struct b) (p q : Piece) (h : p ≠ q) :
    b.pieces p &&& b.pieces q = 0#64 := by
  apply BitVec.eq_of_getLsbD_eq
  intro i _
  rw [BitVec.getLsbD_and, BitVec.getLsbD_zero]
  cases hp : (b.pieces p).getLsbD i with
  | false => rfl
  | true =>
    have := hs.piece_disj i p q h hp
    rw [Bool.true_and]; exact this

end CheckPin

/-! ### cached check/pin fields are the from-scratch ones -/

/-- the cached `pinned`/`checkers` fields of `b` are what `update_pin_info` computes from scratch -/
def Board.PinOK (T : Tables) (b : Board) : Prop := b.updatePinInfo T = b

theorem Board.PinOK.updatePinInfo (T : Tables) (b : Board) : (b.updatePinInfo T).PinOK T :=
  updatePinInfo_idem T b

theorem Board.PinOK.tryFrom {T : Tables} {bd : Builder} {b : Board} (h : Board.tryFrom T bd = some b) :
    b.PinOK T := (tryFrom_spec T bd b h).2.2.2.2.2.2.1

theorem Board.PinOK.nullMove {T : Tables} {b b' : Board} (h : b.nullMove T = some b') : b'.PinOK T :=
  (nullMove_spec T b b' h).2.2.2.2.2

end Chess
