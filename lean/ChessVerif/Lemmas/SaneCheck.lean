import ChessVerif.Lemmas.CheckPin
/-!
The two check-detection clauses of `is_sane` read on the rules (uses `CheckPin.checkers_exact`:
`update_pin_info` computes exactly the checkers of the specification).

* soundness: on a board that passes `is_sane`, the side not to move is not in check;
* completeness: on the candidate board of a valid position both clauses hold, hence every valid
  position is accepted (`tryFrom_complete`).
-/
namespace Chess
namespace SaneCheck
open CheckPin PinCheck

/-- the board with the side to move flipped (the board `is_sane` hands to `update_pin_info`) -/
def flip (b : Board) : Board := { b with stm := b.stm.other }

theorem flip_struct {b : Board} (hs : Struct b) : Struct (flip b) := ⟨hs.1, hs.2, hs.3, hs.4⟩

/-- `inCheck` reads the placement only -/
theorem inCheck_congr (p q : Pos) (h : p.board = q.board) (c : Color) : inCheck p c = inCheck q c := by
  obtain ⟨pb, _, _, _, _⟩ := p
  obtain ⟨qb, _, _, _, _⟩ := q
  simp only at h
  subst h
  rfl

theorem attacks_king {p : Pos} {x k : Sq} {c : Color} (h : p.board x = some (.king, c)) :
    attacks p x k = (Geom.king x).getLsbD k.val := by
  rw [attacks_eq, h, mem_king_spec]
  simp [sliderAligned, leaperAtt]

/-- if the two king squares are not adjacent, no king attacks the other king -/
theorem kingsApart_of_nonadjacent {b : Board} (hs : Struct b)
    (hkw : (b.kings &&& b.colorCombined .white).popcnt = 1) (hkb : (b.kings &&& b.colorCombined .black).popcnt = 1)
    (hna : (Geom.king (b.kingSquare .white)).getLsbD (b.kingSquare .black).val = false) (c : Color) (x : Sq)
    (hx : b.content x = some (.king, c.other)) : attacks b.abs x (b.kingSquare c) = false := by
  have hx' : b.abs.board x = some (.king, c.other) := by rw [abs_board]; exact hx
  rw [attacks_king hx']
  cases c with
  | white =>
    have : x = b.kingSquare .black := (kingAt hs hkb x).mp hx'
    rw [this, mem_king_symm]; exact hna
  | black =>
    have : x = b.kingSquare .white := (kingAt hs hkw x).mp hx'
    rw [this]; exact hna

theorem kings_bit_iff {b : Board} (hs : Struct b)
    (hkw : (b.kings &&& b.colorCombined .white).popcnt = 1) (hkb : (b.kings &&& b.colorCombined .black).popcnt = 1)
    (s : Sq) : b.kings.getLsbD s.val = true ↔ s = b.kingSquare .white ∨ s = b.kingSquare .black := by
  rw [← kingSquare_bit hkw, ← kingSquare_bit hkb, BitVec.getLsbD_and, BitVec.getLsbD_and]
  constructor
  · intro h
    have hc : b.combined.getLsbD s.val = true := (hs.comb_piece s.val).mpr ⟨.king, h⟩
    rcases hs.color_of_comb s.val hc with hw | hb
    · left; rw [h]; exact hw
    · right; rw [h]; exact hb
  · rintro (h | h) <;> (rw [Bool.and_eq_true] at h; exact h.1)

/-- the last clause of `is_sane`, geometrically -/
theorem kings_apart_clause_iff {T : Tables} (hT : TablesOK T) {b : Board} (hs : Struct b)
    (hkw : (b.kings &&& b.colorCombined .white).popcnt = 1) (hkb : (b.kings &&& b.colorCombined .black).popcnt = 1) :
    T.king (b.kingSquare .white) &&& b.kings = 0#64 ↔
      (Geom.king (b.kingSquare .white)).getLsbD (b.kingSquare .black).val = false := by
  rw [hT.king]
  constructor
  · intro h
    rw [BitVec.and_comm] at h
    exact and_eq_zero_bit h _ ((kings_bit_iff hs hkw hkb _).mpr (.inr rfl))
  · intro hna
    apply BitVec.eq_of_getLsbD_eq
    intro i hi
    rw [BitVec.getLsbD_and, BitVec.getLsbD_zero]
    cases hk : b.kings.getLsbD i with
    | false => rw [Bool.and_false]
    | true =>
      rw [Bool.and_true]
      rcases (kings_bit_iff hs hkw hkb ⟨i, hi⟩).mp hk with h | h
      · have : i = (b.kingSquare .white).val := congrArg Fin.val h
        rw [this, mem_king]; simp
      · have : i = (b.kingSquare .black).val := congrArg Fin.val h
        rw [this]; exact hna

/-- on a board with consistent bitboards, one king each and non-adjacent kings: the check detection of the
code, run for the side not to move, finds no checker iff that side is not in check under the rules -/
theorem nocheck_clause_iff {T : Tables} (hT : TablesOK T) {b : Board} (hs : Struct b)
    (hkw : (b.kings &&& b.colorCombined .white).popcnt = 1) (hkb : (b.kings &&& b.colorCombined .black).popcnt = 1)
    (hna : (Geom.king (b.kingSquare .white)).getLsbD (b.kingSquare .black).val = false) :
    (Board.updatePinInfo T { b with stm := b.stm.other }).checkers = 0#64 ↔ inCheck b.abs b.stm.other = false := by
  have hs' := flip_struct hs
  have hk' : ((flip b).kings &&& (flip b).colorCombined (flip b).stm).popcnt = 1 := by
    show (b.kings &&& b.colorCombined b.stm.other).popcnt = 1
    cases b.stm
    · exact hkb
    · exact hkw
  have hkk : KingsApart (flip b) := fun x hx => kingsApart_of_nonadjacent hs hkw hkb hna b.stm.other x hx
  have hce := checkers_exact hT hs' hk' hkk
  have hks : kingSq? b.abs b.stm.other = some (b.kingSquare b.stm.other) := kingSq?_abs hs hk'
  have hchk : ∀ x, checkerSq (flip b).abs x =
      (b.abs.colorAt x == some b.stm.other.other && attacks b.abs x (b.kingSquare b.stm.other)) := by
    intro x
    have : checkerSq (flip b).abs x = (match kingSq? b.abs b.stm.other with
      | none => false
      | some k => b.abs.colorAt x == some b.stm.other.other && attacks b.abs x k) := rfl
    rw [this, hks]
  have hin : inCheck b.abs b.stm.other = attackedBy b.abs b.stm.other.other (b.kingSquare b.stm.other) := by
    unfold inCheck; rw [hks]
  rw [hin]
  show (Board.updatePinInfo T (flip b)).checkers = 0#64 ↔ _
  constructor
  · intro h0
    cases ha : attackedBy b.abs b.stm.other.other (b.kingSquare b.stm.other) with
    | false => rfl
    | true =>
      unfold attackedBy at ha
      obtain ⟨a, ha⟩ := (allSq_any _).mp ha
      have := hce a
      rw [h0, BitVec.getLsbD_zero, hchk a, ha] at this
      cases this
  · intro hna'
    apply BitVec.eq_of_getLsbD_eq
    intro i hi
    have := hce ⟨i, hi⟩
    simp only at this
    rw [this, BitVec.getLsbD_zero, hchk]
    cases hx : (b.abs.colorAt ⟨i, hi⟩ == some b.stm.other.other && attacks b.abs ⟨i, hi⟩ (b.kingSquare b.stm.other)) with
    | false => rfl
    | true =>
      have : attackedBy b.abs b.stm.other.other (b.kingSquare b.stm.other) = true := by
        unfold attackedBy
        exact (allSq_any _).mpr ⟨⟨i, hi⟩, hx⟩
      rw [hna'] at this; cases this

/-! ### soundness -/

/-- **C07 (e)**: on every board that passes `is_sane` (with consistent colour boards), the side not to
move is not in check -/
theorem nonmover_not_in_check {T : Tables} (hT : TablesOK T) {b : Board} (hs : Struct b) (hf : SaneFacts T b) :
    inCheck b.abs b.stm.other = false :=
  (nocheck_clause_iff hT hs hf.wking hf.bking
    ((kings_apart_clause_iff hT hs hf.wking hf.bking).mp hf.kings_apart)).mp hf.nocheck

/-- the hypothesis `KingsApart` of `CheckPin.checkers_exact` holds on every sane board -/
theorem kingsApart_of_facts {T : Tables} (hT : TablesOK T) {b : Board} (hs : Struct b) (hf : SaneFacts T b) :
    KingsApart b := fun x hx =>
  kingsApart_of_nonadjacent hs hf.wking hf.bking
    ((kings_apart_clause_iff hT hs hf.wking hf.bking).mp hf.kings_apart) b.stm x hx

/-! ### completeness -/

/-- a side not in check is not attacked by the enemy king: the kings are not adjacent -/
theorem nonadjacent_of_not_inCheck {b : Board} (hs : Struct b)
    (hkw : (b.kings &&& b.colorCombined .white).popcnt = 1) (hkb : (b.kings &&& b.colorCombined .black).popcnt = 1)
    (c : Color) (h : inCheck b.abs c = false) :
    (Geom.king (b.kingSquare .white)).getLsbD (b.kingSquare .black).val = false := by
  have hkc : ∀ d : Color, (b.kings &&& b.colorCombined d).popcnt = 1 := fun d => by cases d <;> assumption
  have hks : kingSq? b.abs c = some (b.kingSquare c) := kingSq?_abs hs (hkc c)
  unfold inCheck at h
  rw [hks] at h
  simp only at h
  unfold attackedBy at h
  -- the enemy king
  have hcont : b.abs.board (b.kingSquare c.other) = some (.king, c.other) := by
    rw [abs_board]; exact content_kingSquare hs (hkc c.other)
  have hnot : (b.abs.colorAt (b.kingSquare c.other) == some c.other &&
      attacks b.abs (b.kingSquare c.other) (b.kingSquare c)) = false := by
    cases hx : (b.abs.colorAt (b.kingSquare c.other) == some c.other &&
      attacks b.abs (b.kingSquare c.other) (b.kingSquare c)) with
    | false => rfl
    | true =>
      have := (allSq_any (fun a => b.abs.colorAt a == some c.other && attacks b.abs a (b.kingSquare c))).mpr
        ⟨b.kingSquare c.other, hx⟩
      rw [h] at this; cases this
  rw [colorAt_of_board hcont, attacks_king hcont] at hnot
  simp only [beq_self_eq_true, Bool.true_and] at hnot
  cases c with
  | white => rw [mem_king_symm]; exact hnot
  | black => exact hnot

/-- the candidate board of a valid position passes both check-detection clauses of `is_sane` -/
theorem checkClauses_of_valid {T : Tables} (hT : TablesOK T) {p : Pos} (hv : Valid p = true) :
    CheckClauses T (tryFromPre T p.toBuilder) := by
  obtain ⟨hcore, hcont, hstm, _⟩ := tryFromPre_spec T p.toBuilder
  have hs := hcore.toStruct
  have hcont' : (tryFromPre T p.toBuilder).content = p.board := hcont
  have hstm' : (tryFromPre T p.toBuilder).stm = p.stm := hstm
  have habs : (tryFromPre T p.toBuilder).abs.board = p.board := by rw [abs_board]; exact hcont'
  have hkw := tryFromPre_king_of_valid T hv .white
  have hkb := tryFromPre_king_of_valid T hv .black
  have hnc : inCheck (tryFromPre T p.toBuilder).abs (tryFromPre T p.toBuilder).stm.other = false := by
    rw [inCheck_congr _ p habs, hstm']
    exact Valid_not_inCheck hv
  have hna := nonadjacent_of_not_inCheck hs hkw hkb _ hnc
  exact ⟨(nocheck_clause_iff hT hs hkw hkb hna).mpr hnc, (kings_apart_clause_iff hT hs hkw hkb).mpr hna⟩

/-- **C07 completeness**: every valid position is accepted, and the accepted board describes `norm p` -/
theorem tryFrom_complete {T : Tables} (hT : TablesOK T) {p : Pos} (hv : Valid p = true) :
    ∃ b, Board.tryFrom T p.toBuilder = some b ∧
      b.abs.board = (norm p).board ∧ b.abs.stm = (norm p).stm ∧
      (∀ c, b.abs.castleK c = (norm p).castleK c) ∧ (∀ c, b.abs.castleQ c = (norm p).castleQ c) ∧
      b.abs.ep = (norm p).ep :=
  tryFrom_complete_partial hT hv (checkClauses_of_valid hT hv)

end SaneCheck
end Chess
