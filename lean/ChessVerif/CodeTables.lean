import ChessVerif.Tables
import ChessVerif.Gen.Data
import ChessVerif.Gen.Magic
import ChessVerif.Gen.Bmi
/-! The tables of the code as built from /repo's current working tree (T1). -/
namespace Chess

def codeRaw : Raw where
  kingMoves := Gen.kingMoves
  knightMoves := Gen.knightMoves
  rays := Gen.rays
  between := Gen.between
  line := Gen.line
  pawnAttacks := Gen.pawnAttacks
  pawnMoves := Gen.pawnMoves
  pawnSrcDouble := Gen.pawnSrcDouble
  pawnDstDouble := Gen.pawnDstDouble
  castleMoves := Gen.castleMoves
  ksCastle := Gen.ksCastle
  qsCastle := Gen.qsCastle
  files := Gen.files
  adjFiles := Gen.adjFiles
  ranks := Gen.ranks
  edges := Gen.edges
  magicNumbers := Gen.magicNumbers
  magicMasks := Gen.magicMasks
  magicOffsets := Gen.magicOffsets
  magicShifts := Gen.magicShifts
  movesLen := Gen.movesLen
  rookSlices := Gen.rookSlices
  bishopSlices := Gen.bishopSlices
  zSide := Gen.zSide
  zPieces := Gen.zPieces
  zCastles := Gen.zCastles
  zEp := Gen.zEp
  bmiMasksR := Gen.bmiMasksR
  bmiOffsetsR := Gen.bmiOffsetsR
  bmiSlicesR := Gen.bmiSlicesR
  bmiMasksB := Gen.bmiMasksB
  bmiOffsetsB := Gen.bmiOffsetsB
  bmiSlicesB := Gen.bmiSlicesB
  bmiLen := Gen.bmiLen

def codeTables : Tables := codeRaw.toTables

end Chess
