import ChessVerif.Tables
import ChessVerif.Spec.Rules
/-
Geometric definitions of every look-up table (what the tables *should* contain, stated from the
board geometry, not from the generator code), ray walking, and `TablesOK`.
-/
namespace Chess
namespace Geom

/-- squares reached from `s` stepping in direction `u`, nearest first, up to the board edge -/
def ray (s : Sq) (u : Dir) : List Sq := (List.range 7).filterMap fun n => step? s u (n + 1)

/-- walk a ray: every square up to and including the first occupied one -/
def walkL : List Sq → BB → BB
  | [], _ => 0#64
  | t :: ts, occ => BB.ofSq t ||| (if occ.has t then 0#64 else walkL ts occ)

/-- C15's specification: the squares reached by walking each ray from `s` up to and including the
first occupied square -/
def sliderWalk (ds : List Dir) (s : Sq) (occ : BB) : BB :=
  ds.foldl (fun acc u => acc ||| walkL (ray s u) occ) 0#64

def rookWalk : Sq → BB → BB := sliderWalk rookDirs
def bishopWalk : Sq → BB → BB := sliderWalk bishopDirs

/-- the squares whose occupancy can matter: every ray square except the last of its ray -/
def relevant (ds : List Dir) (s : Sq) : List Sq := ds.flatMap fun u => (ray s u).dropLast

def setOf (p : Sq → Bool) : BB := BB.ofList (allSq.filter p)

def rookRays (s : Sq) : BB := rookWalk s 0#64
def bishopRays (s : Sq) : BB := bishopWalk s 0#64
def between (a b : Sq) : BB := setOf fun x => strictlyBetween a x b
/-- the whole line through two distinct squares on a common rank, file or diagonal (both included);
empty otherwise: `x` is on it iff `x - a` is parallel to `b - a` -/
def line (a b : Sq) : BB := setOf fun x =>
  let dfb := b.file - a.file; let drb := b.rank - a.rank
  a != b && (dfb == 0 || drb == 0 || dfb.natAbs == drb.natAbs) &&
  (x.file - a.file) * drb == (x.rank - a.rank) * dfb
def king (s : Sq) : BB := setOf fun d =>
  d != s && (d.file - s.file).natAbs ≤ 1 && (d.rank - s.rank).natAbs ≤ 1
def knight (s : Sq) : BB := setOf fun d =>
  let adf := (d.file - s.file).natAbs; let adr := (d.rank - s.rank).natAbs
  (adf == 1 && adr == 2) || (adf == 2 && adr == 1)
def pawnAttacks (c : Color) (s : Sq) : BB := setOf fun d =>
  d.rank - s.rank == c.fwd && (d.file - s.file).natAbs == 1
/-- pushes on an empty board: one step; two steps from the pawn's start rank -/
def pawnMoves (c : Color) (s : Sq) : BB := setOf fun d =>
  d.file == s.file && (d.rank - s.rank == c.fwd || (d.rank - s.rank == 2 * c.fwd && s.rank == c.pawnRank))
def files (f : Fin 8) : BB := setOf fun s => s.fileN == f.val
def ranks (r : Fin 8) : BB := setOf fun s => s.rankN == r.val
def adjFiles (f : Fin 8) : BB := setOf fun s => ((s.file - (f.val : Int)).natAbs == 1)
def edges : BB := setOf fun s => s.fileN == 0 || s.fileN == 7 || s.rankN == 0 || s.rankN == 7
def pawnSrcDouble : BB := setOf fun s => s.rankN == 1 || s.rankN == 6
def pawnDstDouble : BB := setOf fun s => s.rankN == 3 || s.rankN == 4
def ksCastle (c : Color) : BB := setOf fun s => s.rank == c.homeRank && (s.fileN == 5 || s.fileN == 6)
def qsCastle (c : Color) : BB := setOf fun s => s.rank == c.homeRank && (s.fileN == 1 || s.fileN == 2 || s.fileN == 3)
def castleMoves : BB := setOf fun s => (s.rankN == 0 || s.rankN == 7) && (s.fileN == 2 || s.fileN == 4 || s.fileN == 6)

/-- one step from `s` by `(df, dr)`: nothing at the board edge -/
def step (s : Sq) (df dr : Int) : Option Sq := Chess.sq? (s.file + df) (s.rank + dr)
/-- the wrapping variant: coordinates modulo 8 -/
def stepWrap (s : Sq) (df dr : Int) : Sq :=
  ⟨(((s.rank + dr) % 8).toNat % 8) * 8 + (((s.file + df) % 8).toNat % 8), by omega⟩

/-- C16 on pawn pushes with blockers: single step iff the square ahead is empty, double step iff on the
start rank and both squares are empty -/
def pawnQuiets (c : Color) (s : Sq) (blockers : BB) : BB :=
  match step s 0 c.fwd with
  | none => 0#64
  | some o =>
    if blockers.has o then 0#64
    else BB.ofSq o ||| (if s.rank == c.pawnRank then
        (match step s 0 (2 * c.fwd) with
         | some t => if blockers.has t then 0#64 else BB.ofSq t
         | none => 0#64)
      else 0#64)

end Geom

/-- every table field equals its geometric definition -/
structure TablesOK (T : Tables) : Prop where
  king : ∀ s, T.king s = Geom.king s
  knight : ∀ s, T.knight s = Geom.knight s
  rookRays : ∀ s, T.rookRays s = Geom.rookRays s
  bishopRays : ∀ s, T.bishopRays s = Geom.bishopRays s
  between : ∀ a b, T.between a b = Geom.between a b
  line : ∀ a b, T.line a b = Geom.line a b
  pawnAttacks : ∀ c s, T.pawnAttacks c s = Geom.pawnAttacks c s
  pawnMoves : ∀ c s, T.pawnMoves c s = Geom.pawnMoves c s
  pawnSrcDouble : T.pawnSrcDouble = Geom.pawnSrcDouble
  pawnDstDouble : T.pawnDstDouble = Geom.pawnDstDouble
  castleMoves : T.castleMoves = Geom.castleMoves
  ksCastle : ∀ c, T.ksCastle c = Geom.ksCastle c
  qsCastle : ∀ c, T.qsCastle c = Geom.qsCastle c
  files : ∀ f, T.files f = Geom.files f
  adjFiles : ∀ f, T.adjFiles f = Geom.adjFiles f
  ranks : ∀ r, T.ranks r = Geom.ranks r
  edges : T.edges = Geom.edges
  rookMoves : ∀ s occ, T.rookMoves s occ = Geom.rookWalk s occ
  bishopMoves : ∀ s occ, T.bishopMoves s occ = Geom.bishopWalk s occ

/-- the tables defined directly by geometry (no generated data) -/
def geomTables (zSide : BB) (zPiece : Color → Piece → Sq → BB) (zCastle : Color → CastleRights → BB)
    (zEp : Color → Fin 8 → BB) : Tables where
  king := Geom.king
  knight := Geom.knight
  rookRays := Geom.rookRays
  bishopRays := Geom.bishopRays
  between := Geom.between
  line := Geom.line
  pawnAttacks := Geom.pawnAttacks
  pawnMoves := Geom.pawnMoves
  pawnSrcDouble := Geom.pawnSrcDouble
  pawnDstDouble := Geom.pawnDstDouble
  castleMoves := Geom.castleMoves
  ksCastle := Geom.ksCastle
  qsCastle := Geom.qsCastle
  files := Geom.files
  adjFiles := Geom.adjFiles
  ranks := Geom.ranks
  edges := Geom.edges
  rookMoves := Geom.rookWalk
  bishopMoves := Geom.bishopWalk
  zSide := zSide
  zPiece := zPiece
  zCastle := zCastle
  zEp := zEp

end Chess
