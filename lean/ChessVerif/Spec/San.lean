import ChessVerif.Spec.Rules
import ChessVerif.Spec.Fen
/-
Algebraic notation as the library documents it (`chess_move.rs`, FIDE Appendix C style): piece
letter (none for pawns), optional source file and/or rank, `x` on captures (including en passant),
destination square, promotion letter without `=`, optional `+` / `#`, optional ` e.p.`; castling
as `O-O` / `O-O-O` with optional `+` / `#`.  `spellings p m` is the set of admissible texts of a
legal move.
-/
namespace Chess
namespace SanSpec

inductive Disamb | none | file | rank | both
deriving DecidableEq, Repr

def pieceLetter? : Piece → Option Char
  | .pawn => Option.none | .knight => some 'N' | .bishop => some 'B' | .rook => some 'R' | .queen => some 'Q' | .king => some 'K'

def promoLetter : Piece → Char
  | .knight => 'N' | .bishop => 'B' | .rook => 'R' | .queen => 'Q' | .king => 'K' | .pawn => 'P'

def fileCh (s : Sq) : Char := Char.ofNat ('a'.toNat + s.val % 8)
def rankCh (s : Sq) : Char := Char.ofNat ('1'.toNat + s.val / 8)

def disambText (d : Disamb) (src : Sq) : List Char :=
  match d with
  | .none => [] | .file => [fileCh src] | .rank => [rankCh src] | .both => [fileCh src, rankCh src]

inductive Suffix | none | check | mate
deriving DecidableEq, Repr

def suffixText : Suffix → List Char | .none => [] | .check => ['+'] | .mate => ['#']

/-- a move of `m`'s piece kind to `m`'s destination with `m`'s promotion that agrees with `m` on the
parts of the source that the disambiguation `d` spells out -/
def agrees (p : Pos) (d : Disamb) (m m' : Move) : Bool :=
  (p.board m'.src).map (·.1) == (p.board m.src).map (·.1) && m'.dst == m.dst && m'.promo == m.promo &&
  (match d with
   | .none => true
   | .file => m'.src.file == m.src.file
   | .rank => m'.src.rank == m.src.rank
   | .both => m'.src == m.src)

/-- the disambiguation singles `m` out among the legal moves -/
def unambiguous (p : Pos) (d : Disamb) (m : Move) : Bool :=
  (legalMoves p).all fun m' => !agrees p d m m' || m' == m

def isCapture (p : Pos) (m : Move) : Bool := !(p.empty m.dst) || isEnPassant p m

/-- text of a non-castling move -/
def spell (p : Pos) (m : Move) (d : Disamb) (sfx : Suffix) (epMark : Bool) : List Char :=
  (match (p.board m.src).bind (fun pc => pieceLetter? pc.1) with | some c => [c] | Option.none => []) ++
  disambText d m.src ++
  (if isCapture p m then ['x'] else []) ++
  Fen.sqName m.dst ++
  (match m.promo with | some q => [promoLetter q] | Option.none => []) ++
  suffixText sfx ++
  (if epMark then " e.p.".toList else [])

/-- `s` is an admissible spelling of the legal move `m` in `p` -/
def IsSpelling (p : Pos) (m : Move) (s : List Char) : Prop :=
  legal p m = true ∧
  ((isCastle p m = true ∧ ∃ sfx, s = (if m.dst.file > m.src.file then "O-O".toList else "O-O-O".toList) ++ suffixText sfx) ∨
   (isCastle p m = false ∧ ∃ d sfx epMark, unambiguous p d m = true ∧ (epMark = true → isEnPassant p m = true) ∧
      -- a pawn capture names its file (`exd5`)
      (((p.board m.src).map (·.1) = some .pawn ∧ isCapture p m = true) → d = .file ∨ d = .both) ∧
      s = spell p m d sfx epMark))

end SanSpec
end Chess
