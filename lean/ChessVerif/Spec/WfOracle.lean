import ChessVerif.Model.Board
import ChessVerif.Geom
/-
The "well-formed board" oracle of C03 (what `Chess.Driver.wfFindings` tests with findings of kind 'O'),
as a specification-level Boolean predicate.  `occConsistent`, `specCheckers`, `specPinnedMine`, `mine` are
verbatim copies of the definitions of the same names in `ChessVerif/Driver/Ops.lean`, so that theorems about
them (`Props/C07Oracle.lean`) do not depend on the driver; `Props/C07Oracle.lean` checks by `rfl` that the
copies are the same functions.  The raw-hash test of `wfFindings` is a model≠implementation finding (kind
'M'), not an oracle finding, and is not part of `wfOk`.
-/
namespace Chess

/-- from-scratch occupancy consistency of a dump -/
def occConsistent (b : Board) : Bool :=
  (allPieces.all fun x => allPieces.all fun y => x == y || (b.pieces x &&& b.pieces y) == 0#64) &&
  (b.white &&& b.black) == 0#64 &&
  (b.white ||| b.black) == b.combined &&
  (allPieces.foldl (fun acc p => acc ||| b.pieces p) 0#64) == b.combined

def specCheckers (p : Pos) : BB := Geom.setOf (checkerSq p)
def specPinnedMine (p : Pos) : BB := Geom.setOf (pinnedSq p)
def mine (b : Board) : BB := b.colorCombined b.stm

/-- `wfFindings fs pre b p` pushes no finding of kind 'O' iff `wfOk b p = true`: occupancy consistent, the
cached `checkers` are the from-scratch checkers of `p`, the mover's men in the cached `pinned` are the
from-scratch pinned men of `p` -/
def wfOk (b : Board) (p : Pos) : Bool :=
  occConsistent b && b.checkers == specCheckers p && (b.pinned &&& mine b) == specPinnedMine p

end Chess
