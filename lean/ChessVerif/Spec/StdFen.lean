import ChessVerif.Spec.Fen
/-
An independent *standard* FEN writer on the specification's positions (C06: "parsing the FEN that an
independent standard writer produces for the same position gives that same position").

It differs from the library's own writer in the two points the standard leaves open / the library
decides otherwise:
* the en-passant field holds the target square after EVERY double push (the square the pawn passed
  over), whether or not an enemy pawn stands beside the pushed pawn;
* the two counters are arbitrary natural numbers, printed in decimal.

Nothing of the Model is used: the placement field is produced by its own run-length coder `rle`.
-/
namespace Chess
namespace Spec

def pieceCharStd : Piece × Color → Char
  | (.pawn, .white) => 'P' | (.knight, .white) => 'N' | (.bishop, .white) => 'B'
  | (.rook, .white) => 'R' | (.queen, .white) => 'Q' | (.king, .white) => 'K'
  | (.pawn, .black) => 'p' | (.knight, .black) => 'n' | (.bishop, .black) => 'b'
  | (.rook, .black) => 'r' | (.queen, .black) => 'q' | (.king, .black) => 'k'

/-- the pending run of `n` empty squares: nothing for `0`, else its decimal text (one digit `1..8`) -/
def flushRun (n : Nat) : List Char := if n = 0 then [] else (Nat.repr n).toList

/-- run-length coding of the squares of one rank (file a first), `n` empty squares pending -/
def rle : List (Option (Piece × Color)) → Nat → List Char
  | [], n => flushRun n
  | none :: xs, n => rle xs (n + 1)
  | some pc :: xs, n => flushRun n ++ [pieceCharStd pc] ++ rle xs 0

/-- the eight squares of rank `r` (0 = rank 1), file a first -/
def rankRow (board : Sq → Option (Piece × Color)) (r : Fin 8) : List (Option (Piece × Color)) :=
  (List.finRange 8).map fun f : Fin 8 => board ⟨r.val * 8 + f.val, by omega⟩

def joinSlash : List (List Char) → List Char
  | [] => []
  | [x] => x
  | x :: y :: xs => x ++ '/' :: joinSlash (y :: xs)

/-- placement field: rank 8 first, ranks separated by `/` -/
def placementStd (board : Sq → Option (Piece × Color)) : List Char :=
  joinSlash (([7, 6, 5, 4, 3, 2, 1, 0] : List (Fin 8)).map fun r => rle (rankRow board r) 0)

def sideStd : Color → List Char | .white => ['w'] | .black => ['b']

/-- castling field: the subset of `KQkq` in that order, `-` if empty -/
def castleStd (p : Pos) : List Char :=
  let s : List Char :=
    (if p.castleK .white then ['K'] else []) ++ (if p.castleQ .white then ['Q'] else []) ++
    (if p.castleK .black then ['k'] else []) ++ (if p.castleQ .black then ['q'] else [])
  if s.isEmpty then ['-'] else s

/-- the en-passant *target* square: `p.ep = some q` says the pusher `p.stm.other` has just landed a
double step on `q`; the target is the square behind `q` from the pusher's point of view (same file,
rank `q.rank - fwd`), the square the pawn passed over -/
def epTarget (p : Pos) : Option Sq :=
  p.ep.bind fun q => sq? q.file (q.rank - p.stm.other.fwd)

/-- en-passant field: the target square after every double push, `-` otherwise -/
def epStd (p : Pos) : List Char :=
  match epTarget p with
  | some e => Fen.sqName e
  | none => ['-']

/-- the standard FEN text of position `p` with half-move clock `half` and move number `full` -/
def stdFen (p : Pos) (half full : Nat) : List Char :=
  placementStd p.board ++ [' '] ++ sideStd p.stm ++ [' '] ++ castleStd p ++ [' '] ++ epStd p ++ [' '] ++
    (Nat.repr half).toList ++ [' '] ++ (Nat.repr full).toList

end Spec
end Chess
