import ChessVerif.Basic
/-
Small abstract specifications: the move iterator as a multiset with a mask (C14), the cache as a
partial map from slots (C19), a bitboard as a set of squares (C20).
-/
namespace Chess
namespace Spec

/-! ### C14: a generator is a list of not-yet-yielded moves and a destination mask -/

structure Iter where
  remaining : List Move
  mask : BB

namespace Iter
def under (it : Iter) : List Move := it.remaining.filter fun m => it.mask.getLsbD m.dst.val
def len (it : Iter) : Nat := it.under.length
/-- yielding `m` is allowed iff it is still to come under the mask; it is then gone -/
def yield? (it : Iter) (m : Move) : Option Iter :=
  if it.under.contains m then some { it with remaining := it.remaining.erase m } else none
def exhausted (it : Iter) : Bool := it.under.isEmpty
def setMask (it : Iter) (mask : BB) : Iter := { it with mask := mask }
def removeMove (it : Iter) (m : Move) : Iter :=
  { it with remaining := it.remaining.filter fun x => !(x.src == m.src && x.dst == m.dst) }
def removeMask (it : Iter) (mask : BB) : Iter :=
  { it with remaining := it.remaining.filter fun x => !mask.getLsbD x.dst.val }
end Iter

/-! ### C19: the cache is a map slot ↦ (hash, value), initially (0, default) everywhere -/

structure CacheSpec (α : Type) where
  size : Nat
  default : α
  slots : Nat → Option (BB × α)    -- `none` = untouched

namespace CacheSpec
variable {α : Type}
def new (size : Nat) (d : α) : CacheSpec α := ⟨size, d, fun _ => none⟩
def slotOf (c : CacheSpec α) (h : BB) : Nat := h.toNat % c.size
def cur (c : CacheSpec α) (h : BB) : BB × α := (c.slots (c.slotOf h)).getD (0#64, c.default)
def get (c : CacheSpec α) (h : BB) : Option α := if (c.cur h).1 = h then some (c.cur h).2 else none
def add (c : CacheSpec α) (h : BB) (v : α) : CacheSpec α :=
  { c with slots := fun i => if i = c.slotOf h then some (h, v) else c.slots i }
def replaceIf (c : CacheSpec α) (h : BB) (v : α) (p : α → Bool) : CacheSpec α :=
  if p (c.cur h).2 then c.add h v else c
end CacheSpec

def isPow2 (n : Nat) : Bool := n ≠ 0 && (List.range 64).any fun k => n == 2 ^ k

/-! ### C20: a bitboard is the set of squares whose bits are set -/

def members (b : BB) : List Sq := allSq.filter fun s => b.getLsbD s.val

end Spec
end Chess
