import ChessVerif.Basic
/-
The specification: FIDE movement, legality, successor position, validity and status on a mailbox
position.  No bitboards, no tables.  This file is the meaning given to "legal under the FIDE Laws",
"successor position", "valid position" and "status" in C01–C05, C17 and it is the oracle every
position-based check evaluates on the implementation's outputs (DESIGN Appendix A; validated
against published perft numbers).
-/
namespace Chess

/-- rank step of a pawn of this colour -/
def Color.fwd : Color → Int | .white => 1 | .black => -1
def Color.homeRank : Color → Int | .white => 0 | .black => 7
def Color.pawnRank (c : Color) : Int := c.homeRank + c.fwd          -- 1 / 6
def Color.lastRank (c : Color) : Int := c.other.homeRank            -- 7 / 0

/-- A position as the Laws see it. `ep = some s`: the last move was a double pawn step landing on `s`. -/
structure Pos where
  board : Sq → Option (Piece × Color)
  stm : Color
  castleK : Color → Bool
  castleQ : Color → Bool
  ep : Option Sq

namespace Pos
def empty (p : Pos) (s : Sq) : Bool := (p.board s).isNone
def has (p : Pos) (s : Sq) (pc : Piece) (c : Color) : Bool := p.board s == some (pc, c)
def colorAt (p : Pos) (s : Sq) : Option Color := (p.board s).map (·.2)
end Pos

inductive Dir | n | ne | e | se | s | sw | w | nw
deriving DecidableEq, Repr

def Dir.df : Dir → Int | .n => 0 | .ne => 1 | .e => 1 | .se => 1 | .s => 0 | .sw => -1 | .w => -1 | .nw => -1
def Dir.dr : Dir → Int | .n => 1 | .ne => 1 | .e => 0 | .se => -1 | .s => -1 | .sw => -1 | .w => 0 | .nw => 1
def rookDirs : List Dir := [.n, .e, .s, .w]
def bishopDirs : List Dir := [.ne, .se, .sw, .nw]
def allDirs : List Dir := rookDirs ++ bishopDirs

/-- the `n`-th square from `a` in direction `u`, if still on the board -/
def step? (a : Sq) (u : Dir) (n : Nat) : Option Sq := sq? (a.file + n * u.df) (a.rank + n * u.dr)
/-- `b` is reached from `a` by `n ≥ 1` steps in direction `u` -/
def onRay (a : Sq) (u : Dir) (n : Nat) (b : Sq) : Bool := 0 < n && step? a u n == some b

/-- `x` lies strictly between `a` and `b` on a common rank, file or diagonal (readable form). -/
def strictlyBetweenSpec (a x b : Sq) : Bool :=
  allDirs.any fun u => (List.range 8).any fun n => (List.range n).any fun t => onRay a u n b && onRay a u t x

/-- executable twin of `strictlyBetweenSpec` (arithmetic); `Spec/Fast.lean` proves them equal on all
64³ triples. -/
def strictlyBetween (a x b : Sq) : Bool :=
  let dfb := b.file - a.file; let drb := b.rank - a.rank
  let dfx := x.file - a.file; let drx := x.rank - a.rank
  (dfb == 0 || drb == 0 || dfb.natAbs == drb.natAbs) &&
  dfx * drb == drx * dfb &&
  0 < dfx * dfb + drx * drb &&
  dfx * dfx + drx * drx < dfb * dfb + drb * drb

/-- `b` is reached from `a` along one of the directions `ds` (any distance ≥ 1) -/
def aligned (ds : List Dir) (a b : Sq) : Bool := ds.any fun u => (List.range 8).any fun n => onRay a u n b

def pathClear (p : Pos) (a b : Sq) : Bool := allSq.all fun x => !strictlyBetween a x b || p.empty x
def slides (ds : List Dir) (p : Pos) (a b : Sq) : Bool := aligned ds a b && pathClear p a b

/-- Article 3.2–3.8: does the man standing on `a` attack square `b`? -/
def attacks (p : Pos) (a b : Sq) : Bool :=
  let adf := (b.file - a.file).natAbs; let adr := (b.rank - a.rank).natAbs
  match p.board a with
  | none => false
  | some (.knight, _) => (adf == 1 && adr == 2) || (adf == 2 && adr == 1)
  | some (.king, _)   => allDirs.any fun u => onRay a u 1 b
  | some (.pawn, c)   => b.rank - a.rank == c.fwd && adf == 1
  | some (.bishop, _) => slides bishopDirs p a b
  | some (.rook, _)   => slides rookDirs p a b
  | some (.queen, _)  => slides allDirs p a b

def attackedBy (p : Pos) (c : Color) (t : Sq) : Bool :=
  allSq.any fun a => p.colorAt a == some c && attacks p a t
def kingSq? (p : Pos) (c : Color) : Option Sq := allSq.find? fun s => p.has s .king c
def inCheck (p : Pos) (c : Color) : Bool :=
  match kingSq? p c with | some k => attackedBy p c.other k | none => false

def promoPieces : List Piece := [.queen, .rook, .bishop, .knight]

/-- Article 3 movement, without regard to the mover's king (except the castling conditions 3.8.2). -/
def pseudoLegal (p : Pos) (m : Move) : Bool :=
  let c := p.stm
  match p.board m.src with
  | none => false
  | some (pc, c') =>
    c' == c && p.colorAt m.dst != some c &&
    let df := m.dst.file - m.src.file; let dr := m.dst.rank - m.src.rank
    match pc with
    | .pawn =>
      let promoOk := if m.dst.rank == c.lastRank then (match m.promo with | some q => promoPieces.contains q | none => false)
                     else m.promo.isNone
      promoOk &&
      ( (df == 0 && dr == c.fwd && p.empty m.dst)                                           -- single step
      || (df == 0 && dr == 2 * c.fwd && m.src.rank == c.pawnRank && p.empty m.dst &&
            (match sq? m.src.file (m.src.rank + c.fwd) with | some x => p.empty x | none => false))  -- double step
      || (df.natAbs == 1 && dr == c.fwd && p.colorAt m.dst == some c.other)                  -- capture
      || (df.natAbs == 1 && dr == c.fwd && p.empty m.dst &&                                 -- en passant
            (match sq? m.dst.file m.src.rank with
             | some q => p.ep == some q && p.has q .pawn c.other
             | none => false)) )
    | .king =>
      m.promo.isNone &&
      ( attacks p m.src m.dst
      || -- castling, Article 3.8.2
        (m.src.rank == c.homeRank && m.src.file == 4 && dr == 0 && df.natAbs == 2 &&
          let kingside := df == 2
          let rookFile : Int := if kingside then 7 else 0
          (if kingside then p.castleK c else p.castleQ c) &&
          (match sq? rookFile c.homeRank, sq? (4 + df / 2) c.homeRank with
           | some r, some mid =>
              p.has r .rook c && pathClear p m.src r &&
              !attackedBy p c.other m.src && !attackedBy p c.other mid && !attackedBy p c.other m.dst
           | _, _ => false)) )
    | _ => m.promo.isNone && attacks p m.src m.dst

def isCastle (p : Pos) (m : Move) : Bool :=
  (match p.board m.src with | some (.king, _) => true | _ => false) && (m.dst.file - m.src.file).natAbs == 2
def isEnPassant (p : Pos) (m : Move) : Bool :=
  (match p.board m.src with | some (.pawn, _) => true | _ => false) && m.src.file != m.dst.file && p.empty m.dst
def isDoubleStep (p : Pos) (m : Move) : Bool :=
  (match p.board m.src with | some (.pawn, _) => true | _ => false) && (m.dst.rank - m.src.rank).natAbs == 2

def homeSq (c : Color) (f : Int) : Option Sq := sq? f c.homeRank

/-- The position after `m` (meaningful for pseudo-legal `m`). -/
def apply (p : Pos) (m : Move) : Pos :=
  let c := p.stm
  let moved : Option (Piece × Color) := match p.board m.src, m.promo with
    | some (.pawn, c'), some q => some (q, c')
    | x, _ => x
  let epVictim : Option Sq := if isEnPassant p m then sq? m.dst.file m.src.rank else none
  let rookFrom : Option Sq := if isCastle p m then homeSq c (if m.dst.file > m.src.file then 7 else 0) else none
  let rookTo   : Option Sq := if isCastle p m then homeSq c (if m.dst.file > m.src.file then 5 else 3) else none
  let at' : Sq → Option (Piece × Color) := fun s =>
    if s == m.dst then moved
    else if s == m.src then none
    else if some s == epVictim then none
    else if some s == rookFrom then none
    else if some s == rookTo then some (.rook, c)
    else p.board s
  let touched (s : Option Sq) : Bool := s == some m.src || s == some m.dst
  { board := at'
    stm := c.other
    castleK := fun d => p.castleK d && !touched (homeSq d 4) && !touched (homeSq d 7)
    castleQ := fun d => p.castleQ d && !touched (homeSq d 4) && !touched (homeSq d 0)
    ep := if isDoubleStep p m then some m.dst else none }

def legal (p : Pos) (m : Move) : Bool := pseudoLegal p m && !inCheck (apply p m) p.stm

def candidates (p : Pos) : List Move :=
  (allSq.filter fun s => p.colorAt s == some p.stm).flatMap fun s =>
    allSq.flatMap fun d => (none :: promoPieces.map some).map fun q => ⟨s, d, q⟩
def legalMoves (p : Pos) : List Move := (candidates p).filter (legal p)

inductive Status | ongoing | stalemate | checkmate
deriving DecidableEq, Repr

/-- Article 5.1 / 5.2: no legal move and in check = checkmate; no legal move and not in check =
stalemate. -/
def status (p : Pos) : Status :=
  if (candidates p).any (legal p) then .ongoing
  else if inCheck p p.stm then .checkmate else .stalemate

def count (p : Pos) (f : Piece × Color → Bool) : Nat := (allSq.filter fun s => (p.board s).any f).length

/-- The en-passant clause of `Valid`: the mark `q` is an enemy pawn on its fourth rank, the two squares
behind it are empty, and with that pawn put back on its start square the side now to move was not in
check, i.e. a valid predecessor exists ("directly after a double push"). -/
def epValid (p : Pos) : Bool :=
  match p.ep with
  | none => true
  | some q =>
    let o := p.stm.other
    p.has q .pawn o && q.rank == o.pawnRank + 2 * o.fwd &&
    (match sq? q.file (q.rank - o.fwd), sq? q.file o.pawnRank with
     | some mid, some org =>
        p.empty mid && p.empty org &&
        !inCheck { p with board := fun s => if s == org then some (.pawn, o) else if s == q then none else p.board s } p.stm
     | _, _ => false)

/-- The property's "valid position". -/
def Valid (p : Pos) : Bool :=
  [Color.white, Color.black].all (fun c =>
    count p (· == (.king, c)) == 1 && count p (·.2 == c) ≤ 16 && count p (· == (.pawn, c)) ≤ 8 &&
    (!(p.castleK c) || ((homeSq c 4).any (p.has · .king c) && (homeSq c 7).any (p.has · .rook c))) &&
    (!(p.castleQ c) || ((homeSq c 4).any (p.has · .king c) && (homeSq c 0).any (p.has · .rook c)))) &&
  allSq.all (fun s => !(p.board s).any (·.1 == .pawn) || (s.rank != 0 && s.rank != 7)) &&
  !inCheck p p.stm.other &&
  epValid p

/-- The library's recording policy for the en-passant mark (C02/C06, DESIGN §9): keep it only if an
enemy (= side to move) pawn stands beside the pushed pawn. -/
def norm (p : Pos) : Pos :=
  { p with ep := match p.ep with
      | none => none
      | some q =>
        if allSq.any (fun s => s.rank == q.rank && (s.file - q.file).natAbs == 1 && p.has s .pawn p.stm)
        then some q else none }

/-- absolutely pinned: own man `y` (not the king) such that removing it exposes the king to an enemy
slider aligned with king and `y` with nothing else between. -/
def pinnedSq (p : Pos) (y : Sq) : Bool :=
  match kingSq? p p.stm with
  | none => false
  | some k =>
    p.colorAt y == some p.stm && y != k &&
    allSq.any fun x =>
      p.colorAt x == some p.stm.other &&
      strictlyBetween x y k &&
      (allSq.all fun z => !strictlyBetween x z k || z == y || p.empty z) &&
      (match p.board x with
       | some (.bishop, _) => aligned bishopDirs x k
       | some (.rook, _) => aligned rookDirs x k
       | some (.queen, _) => aligned allDirs x k
       | _ => false)

/-- enemy men attacking the mover's king -/
def checkerSq (p : Pos) (x : Sq) : Bool :=
  match kingSq? p p.stm with
  | none => false
  | some k => p.colorAt x == some p.stm.other && attacks p x k

/-! ### Symmetries (C17) -/

def Sq.mirror (s : Sq) : Sq := ⟨s.val ^^^ 56, by
  have h := s.isLt
  have : s.val ^^^ 56 < 2 ^ 6 := Nat.xor_lt_two_pow (by omega) (by decide)
  omega⟩
def Sq.flipFile (s : Sq) : Sq := ⟨s.val ^^^ 7, by
  have h := s.isLt
  have : s.val ^^^ 7 < 2 ^ 6 := Nat.xor_lt_two_pow (by omega) (by decide)
  omega⟩

def Move.mirror (m : Move) : Move := ⟨m.src.mirror, m.dst.mirror, m.promo⟩
def Move.flipFile (m : Move) : Move := ⟨m.src.flipFile, m.dst.flipFile, m.promo⟩

/-- swap colours and flip top to bottom -/
def Pos.mirror (p : Pos) : Pos where
  board s := (p.board s.mirror).map fun (pc, c) => (pc, c.other)
  stm := p.stm.other
  castleK c := p.castleK c.other
  castleQ c := p.castleQ c.other
  ep := p.ep.map Sq.mirror

/-- flip left to right (meaningful without castling rights) -/
def Pos.flipFiles (p : Pos) : Pos where
  board s := p.board s.flipFile
  stm := p.stm
  castleK := p.castleK
  castleQ := p.castleQ
  ep := p.ep.map Sq.flipFile

end Chess
