import ChessVerif.Spec.San
/-
Executable form of `SanSpec.IsSpelling`, word for word the oracle the correspondence driver evaluates
(`Driver/Ops2.lean`: `isSpellingB`, `sanDenotes`).  Definitions only; `Props/C12Exec.lean` proves that they decide
exactly the specification.
-/
namespace Chess
namespace SanSpec

/-- executable form of `SanSpec.IsSpelling` over the list `lm` of legal moves of `p`: is `s` an admissible spelling of
`m ∈ lm`? (all 4 × 3 × 2 combinations of disambiguation, suffix and ` e.p.` mark; castling text with the three
suffixes; the text is compared first, uniqueness among `lm` last) -/
def isSpellingB (p : Pos) (lm : List Move) (m : Move) (s : List Char) : Bool :=
  if isCastle p m then
     [SanSpec.Suffix.none, .check, .mate].any fun sfx =>
       s == (if m.dst.file > m.src.file then "O-O".toList else "O-O-O".toList) ++ SanSpec.suffixText sfx
  else
     let pawnCapture := ((p.board m.src).map (·.1) == some .pawn) && SanSpec.isCapture p m
     let ep := isEnPassant p m
     [SanSpec.Disamb.none, .file, .rank, .both].any fun d =>
       (!pawnCapture || d == .file || d == .both) &&
       [SanSpec.Suffix.none, .check, .mate].any fun sfx =>
         [false, true].any fun epMark =>
           (!epMark || ep) &&
           s == SanSpec.spell p m d sfx epMark &&
           lm.all fun m' => !SanSpec.agrees p d m m' || m' == m

/-- the legal moves of which `s` is an admissible spelling (at most one, by `unambiguous`) -/
def sanDenotes (p : Pos) (s : List Char) : List Move :=
  let lm := legalMoves p
  lm.filter fun m => isSpellingB p lm m s

end SanSpec
end Chess
