import ChessVerif.Spec.Rules
import ChessVerif.Model.Game
/-
The game protocol as the property (C10, C11) states it, over mailbox positions and the FIDE rules.
It re-uses only the *types* `Action` / `GameResult` of the Model.
-/
namespace Chess
namespace Spec

/-- position identity for repetition: placement, side, rights and the (recorded) ep possibility -/
def Pos.key (p : Pos) : List (Option (Piece × Color)) × Color × List Bool × Option Sq :=
  (allSq.map p.board, p.stm, [p.castleK .white, p.castleQ .white, p.castleK .black, p.castleQ .black], p.ep)

structure GameSt where
  pos : Pos
  log : List Action              -- accepted actions, in order
  history : List Pos             -- every position that occurred, oldest first (start included)
  clock : Nat                    -- half-moves since the last pawn move or capture

namespace GameSt

def init (p : Pos) : GameSt := ⟨p, [], [p], 0⟩

/-- outcome: fixed by the position (mate / stalemate) or by the last accepted action -/
def result (g : GameSt) : Option GameResult :=
  match status g.pos with
  | .checkmate => some (if g.pos.stm = .white then .blackCheckmates else .whiteCheckmates)
  | .stalemate => some .stalemate
  | .ongoing =>
    match g.log.getLast? with
    | some .acceptDraw => some .drawAccepted
    | some .declareDraw => some .drawDeclared
    | some (.resign .white) => some .whiteResigns
    | some (.resign .black) => some .blackResigns
    | _ => none

def isCaptureOrPawn (p : Pos) (m : Move) : Bool :=
  (match p.board m.src with | some (.pawn, _) => true | _ => false) || !(p.empty m.dst)

def occurrences (g : GameSt) : Nat := (g.history.filter fun q => Pos.key q == Pos.key g.pos).length

/-- a draw may be claimed: no result yet, and threefold repetition or fifty moves -/
def claimable (g : GameSt) : Bool := g.result.isNone && (decide (3 ≤ g.occurrences) || decide (100 ≤ g.clock))

/-- who made the last move of the log, if the last action is a move -/
def lastMover (g : GameSt) : Color := g.pos.stm.other

def acceptAllowed (g : GameSt) : Bool :=
  match g.log.reverse with
  | .offerDraw _ :: _ => true
  | .makeMove _ :: .offerDraw c :: _ => c == g.lastMover
  | _ => false

/-- one requested action: the new state and whether it was accepted -/
def step (g : GameSt) (a : Action) : GameSt × Bool :=
  if g.result.isSome then (g, false) else
  match a with
  | .makeMove m =>
    if legal g.pos m then
      let p' := norm (apply g.pos m)
      ({ pos := p', log := g.log ++ [a], history := g.history ++ [p'],
         clock := if isCaptureOrPawn g.pos m then 0 else g.clock + 1 }, true)
    else (g, false)
  | .offerDraw _ => ({ g with log := g.log ++ [a] }, true)
  | .resign _ => ({ g with log := g.log ++ [a] }, true)
  | .acceptDraw => if g.acceptAllowed then ({ g with log := g.log ++ [a] }, true) else (g, false)
  | .declareDraw => if g.claimable then ({ g with log := g.log ++ [a] }, true) else (g, false)

end GameSt
end Spec
end Chess
