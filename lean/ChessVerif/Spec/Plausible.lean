import ChessVerif.Spec.Rules
/-
The candidate set on which the correspondence harness asks the library's `Board::legal`, and the bounds the
properties C02/C06 put on the recorded en-passant state, as the driver evaluates them.  Definitions only;
`Props/C01Plausible.lean` proves that every legal move is a candidate and that the library's own recording
policy `norm` lies within the bounds.
-/
namespace Chess

/-- the candidate triples on which the correspondence asks `Board::legal`: own man on the source, destination on a
common rank, file or diagonal or a knight's jump away, promotion one of none/Q/R/B/N -/
def plausible (p : Pos) (m : Move) : Bool :=
  p.colorAt m.src == some p.stm && m.src != m.dst &&
  (let df := (m.dst.file - m.src.file).natAbs; let dr := (m.dst.rank - m.src.rank).natAbs
   df == 0 || dr == 0 || df == dr || (df == 1 && dr == 2) || (df == 2 && dr == 1)) &&
  (match m.promo with | none => true | some q => promoPieces.contains q)

/-- bounds the properties C02/C06 put on the recorded en-passant state: `q` is the successor the rules give (mark after
every double push), `rec` what the library recorded; `none` = within the bounds -/
def epPolicy (q : Pos) (rec : Option Sq) : Option String :=
  match rec with
  | some s =>
    if q.ep != some s then some "en-passant recorded without a double push to that square"
    else if (norm q).ep != some s then some "en-passant recorded although no enemy pawn stands beside the pushed pawn"
    else none
  | none =>
    if q.ep.isSome ∧ (legalMoves q).any (isEnPassant q) then some "a legal en-passant capture exists but none is recorded"
    else none

end Chess
