import ChessVerif.Spec.Rules
/-
The acceptance oracle of C07 (the four "only if" conditions on a position that the library accepted),
as a specification-level definition.  Verbatim copy of `Chess.Driver.acceptedOk`
(`ChessVerif/Driver/Ops2.lean`), so that theorems about it (`Props/C07Oracle.lean`) do not depend on the
driver.  `Props/C07Oracle.lean` checks by `rfl` that the two definitions are the same function.
-/
namespace Chess

/-- the four "only if" conditions of C07 on an accepted position -/
def acceptedOk (p : Pos) : Option String :=
  if !(allColors.all fun c => count p (· == (.king, c)) == 1) then some "not exactly one king per side"
  else if inCheck p p.stm.other then some "the side not to move is in check"
  else if !(allColors.all fun c =>
      (!(p.castleK c) || ((homeSq c 4).any (p.has · .king c) && (homeSq c 7).any (p.has · .rook c))) &&
      (!(p.castleQ c) || ((homeSq c 4).any (p.has · .king c) && (homeSq c 0).any (p.has · .rook c)))) then
    some "a castling right is not backed by king and rook on their home squares"
  else match p.ep with
    | none => none
    | some q =>
      let o := p.stm.other
      if p.has q .pawn o && q.rank == o.pawnRank + 2 * o.fwd then none
      else some "recorded en-passant square does not hold an enemy pawn on its double-push rank"

end Chess
