import ChessVerif.Spec.Rules
/-
FEN as the standard defines it (six space-separated fields), as a decoder from text to a position.
Independent of the Model's scanner: it is the meaning of "well-formed FEN that describes the
position" in C06 and of "valid chess position given as text" in C07.
-/
namespace Chess
namespace Fen

def pieceOfChar? : Char → Option (Piece × Color)
  | 'P' => some (.pawn, .white) | 'N' => some (.knight, .white) | 'B' => some (.bishop, .white)
  | 'R' => some (.rook, .white) | 'Q' => some (.queen, .white) | 'K' => some (.king, .white)
  | 'p' => some (.pawn, .black) | 'n' => some (.knight, .black) | 'b' => some (.bishop, .black)
  | 'r' => some (.rook, .black) | 'q' => some (.queen, .black) | 'k' => some (.king, .black)
  | _ => none

/-- one rank: a list of exactly 8 squares, run-length coded with digits 1..8 -/
def decodeRank : List Char → List (Option (Piece × Color)) → Option (List (Option (Piece × Color)))
  | [], acc => if acc.length = 8 then some acc else none
  | c :: cs, acc =>
    if '1' ≤ c ∧ c ≤ '8' then decodeRank cs (acc ++ List.replicate (c.toNat - '0'.toNat) none)
    else match pieceOfChar? c with
      | some pc => decodeRank cs (acc ++ [some pc])
      | none => none

def splitOn (sep : Char) (s : List Char) : List (List Char) :=
  let rec go : List Char → List Char → List (List Char)
    | [], cur => [cur.reverse]
    | c :: cs, cur => if c = sep then cur.reverse :: go cs [] else go cs (c :: cur)
  go s []

/-- placement field: eight ranks from rank 8 down to rank 1, separated by `/` -/
def decodePlacement (s : List Char) : Option (Sq → Option (Piece × Color)) :=
  let ranks := splitOn '/' s
  if ranks.length ≠ 8 then none else
  match ranks.mapM (decodeRank · []) with
  | none => none
  | some rows =>   -- rows[0] is rank 8
    let arr := ((rows.reverse).flatten).toArray   -- a1..h8
    some fun sq => arr.getD sq.val none

def isNat (s : List Char) : Bool := !s.isEmpty && s.all Char.isDigit

def sqOfName? (s : List Char) : Option Sq :=
  match s with
  | [f, r] =>
    if 'a' ≤ f ∧ f ≤ 'h' ∧ '1' ≤ r ∧ r ≤ '8' then sq? (f.toNat - 'a'.toNat : Nat) (r.toNat - '1'.toNat : Nat) else none
  | _ => none

def sqName (s : Sq) : List Char := [Char.ofNat ('a'.toNat + s.val % 8), Char.ofNat ('1'.toNat + s.val / 8)]

/-- decode a standard six-field FEN.  The en-passant *target* square `e` (rank 3 / 6) is turned into
the position's "last move was a double push landing on …" mark (the square in front of `e` from the
pusher's point of view). -/
def decode (s : List Char) : Option Pos :=
  match splitOn ' ' s with
  | [pl, side, castles, ep, half, full] =>
    match decodePlacement pl with
    | none => none
    | some board =>
      let stm? : Option Color := if side = ['w'] then some .white else if side = ['b'] then some .black else none
      match stm? with
      | none => none
      | some stm =>
        let castleOk := castles = ['-'] ∨ (!castles.isEmpty ∧ castles.all (fun c => "KQkq".toList.contains c) ∧ castles.Nodup)
        if ¬ castleOk then none else
        if ¬ (isNat half ∧ isNat full) then none else
        let epMark? : Option (Option Sq) :=
          if ep = ['-'] then some none else
          match sqOfName? ep with
          | none => none
          | some e =>
            -- the target square is behind a pawn of the side that just moved
            let o := stm.other
            if e.rank == o.pawnRank + o.fwd then (sq? e.file (e.rank + o.fwd)).map some else none
        match epMark? with
        | none => none
        | some mark =>
          some { board := board, stm := stm,
                 castleK := fun c => castles.contains (match c with | .white => 'K' | .black => 'k'),
                 castleQ := fun c => castles.contains (match c with | .white => 'Q' | .black => 'q'),
                 ep := mark }
  | _ => none

end Fen
end Chess
