import ChessVerif.Model.MoveGen
import ChessVerif.Spec.Rules
/-
Abstraction from the bitboard `Board` to the mailbox `Pos`, and the from-scratch hash of a position.
-/
namespace Chess

/-- what the per-square queries of a `Board` say -/
def Board.abs (b : Board) : Pos where
  board s := match b.pieceOn s, b.colorOn s with
    | some p, some c => some (p, c)
    | _, _ => none
  stm := b.stm
  castleK c := (b.castleRights c).ks
  castleQ c := (b.castleRights c).qs
  ep := b.ep

/-- The position hash as a function of the position alone (C08): xor of the placement keys of the 64
squares, the ep-file key, both rights keys and the side key. -/
def Pos.hashOf (T : Tables) (p : Pos) : BB :=
  let placement := allSq.foldl (fun h s => match p.board s with
    | some (pc, c) => h ^^^ T.zPiece c pc s
    | none => h) 0#64
  placement
  ^^^ (match p.ep with | some q => T.zEp p.stm.other q.getFile | none => 0#64)
  ^^^ T.zCastle .white ⟨p.castleK .white, p.castleQ .white⟩
  ^^^ T.zCastle .black ⟨p.castleK .black, p.castleQ .black⟩
  ^^^ (if p.stm = .black then T.zSide else 0#64)

/-- the builder state describing a position -/
def Pos.toBuilder (p : Pos) : Builder where
  pieces := p.board
  stm := p.stm
  wcr := ⟨p.castleK .white, p.castleQ .white⟩
  bcr := ⟨p.castleK .black, p.castleQ .black⟩
  epFile := p.ep.map Sq.getFile

end Chess
