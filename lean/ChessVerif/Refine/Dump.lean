import ChessVerif.Model.Board
/-!
# The board dump of the line protocol and the private `hash` field

A board dump (PROTOCOL.md) carries the *observable* `get_hash()`; the model's private field `hash` is derived
from it by undoing the side / castle / en-passant keys (xor is an involution).  The two lemmas below say that
this is the one and only value of the field that is consistent with the observable, so the correspondence
runs the model on exactly the state the implementation holds, without looking at how `impl Hash` is written.
No Mathlib, no tactics beyond core: this file is imported by the compiled driver.
-/
namespace Chess

/-- the private `hash` field a board with these other fields must have for `get_hash()` to be `g` -/
def Board.rawOfGhash (T : Tables) (b : Board) (g : BB) : BB := g ^^^ (({ b with hash := 0#64 } : Board).getHash T)

theorem xor_cancel4 (g a b c d : BB) :
    ((((g ^^^ ((((0#64 ^^^ a) ^^^ b) ^^^ c) ^^^ d)) ^^^ a) ^^^ b) ^^^ c) ^^^ d = g := by
  ext i
  simp only [BitVec.getElem_xor, BitVec.getElem_zero]
  cases g[i] <;> cases a[i] <;> cases b[i] <;> cases c[i] <;> cases d[i] <;> rfl

theorem xor_solve4 (h g a b c d : BB) :
    ((((h ^^^ a) ^^^ b) ^^^ c) ^^^ d = g) ↔ h = g ^^^ ((((0#64 ^^^ a) ^^^ b) ^^^ c) ^^^ d) := by
  constructor
  · intro e; subst e
    ext i
    simp only [BitVec.getElem_xor, BitVec.getElem_zero]
    cases h[i] <;> cases a[i] <;> cases b[i] <;> cases c[i] <;> cases d[i] <;> rfl
  · intro e; subst e; exact xor_cancel4 g a b c d

/-- the derived field reproduces the observable -/
theorem Board.getHash_rawOfGhash (T : Tables) (b : Board) (g : BB) :
    ({ b with hash := b.rawOfGhash T g } : Board).getHash T = g := by
  simp only [Board.rawOfGhash, Board.getHash, Board.castleRights]
  exact xor_cancel4 _ _ _ _ _

/-- … and it is the only value of the field that does -/
theorem Board.getHash_eq_iff_raw (T : Tables) (b : Board) (g : BB) :
    b.getHash T = g ↔ b.hash = b.rawOfGhash T g := by
  simp only [Board.rawOfGhash, Board.getHash, Board.castleRights]
  exact xor_solve4 _ _ _ _ _ _

end Chess
