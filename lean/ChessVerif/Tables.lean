import ChessVerif.Basic
/-
`Tables`: every look-up the library performs, as functions.  The Model is parametric in a `Tables`
value; `Tables.ofRaw` builds one from the *data the code generates* (`Raw`, filled by the T1
translator) with exactly the indexing the Rust accessors of `magic.rs` / `zobrist.rs` use.
-/
namespace Chess

/-- `_pext_u64` by its documented meaning: gather the bits of `x` at the set positions of `mask`
into the low bits of the result, lowest first. -/
def pext (x mask : BB) : BB :=
  let bits := (List.range 64).filter (fun i => mask.getLsbD i)
  (bits.zipIdx.foldl (fun acc (p : Nat × Nat) => if x.getLsbD p.1 then acc ||| (1#64 <<< p.2) else acc) 0#64)

/-- `_pdep_u64` by its documented meaning: scatter the low bits of `x` to the set positions of
`mask`, lowest first. -/
def pdep (x mask : BB) : BB :=
  let bits := (List.range 64).filter (fun i => mask.getLsbD i)
  (bits.zipIdx.foldl (fun acc (p : Nat × Nat) => if x.getLsbD p.2 then acc ||| (1#64 <<< p.1) else acc) 0#64)

/-- The generated data, packed (see `word`). -/
structure Raw where
  kingMoves : Nat
  knightMoves : Nat
  rays : Nat           -- [ROOK=0|BISHOP=1][64]
  between : Nat        -- [64][64]
  line : Nat           -- [64][64]
  pawnAttacks : Nat    -- [color][64]
  pawnMoves : Nat      -- [color][64]
  pawnSrcDouble : Nat
  pawnDstDouble : Nat
  castleMoves : Nat
  ksCastle : Nat       -- [color]
  qsCastle : Nat
  files : Nat
  adjFiles : Nat
  ranks : Nat
  edges : Nat
  magicNumbers : Nat   -- [ROOK|BISHOP][64]
  magicMasks : Nat
  magicOffsets : Nat
  magicShifts : Nat
  movesLen : Nat
  rookSlices : List Nat    -- MOVES[offset .. offset + 2^(64-shift)] per square, packed
  bishopSlices : List Nat
  zSide : Nat
  zPieces : Nat        -- [color][piece][64]
  zCastles : Nat       -- [color][4]
  zEp : Nat            -- [color][8]
  -- +bmi2 build
  bmiMasksR : Nat
  bmiOffsetsR : Nat
  bmiSlicesR : List Nat    -- BMI_MOVES[offset .. offset + 2^popcnt(mask)] per square, 16-bit packed
  bmiMasksB : Nat
  bmiOffsetsB : Nat
  bmiSlicesB : List Nat
  bmiLen : Nat

structure Tables where
  king : Sq → BB
  knight : Sq → BB
  rookRays : Sq → BB
  bishopRays : Sq → BB
  between : Sq → Sq → BB
  line : Sq → Sq → BB
  pawnAttacks : Color → Sq → BB
  pawnMoves : Color → Sq → BB
  pawnSrcDouble : BB
  pawnDstDouble : BB
  castleMoves : BB
  ksCastle : Color → BB
  qsCastle : Color → BB
  files : Fin 8 → BB
  adjFiles : Fin 8 → BB
  ranks : Fin 8 → BB
  edges : BB
  rookMoves : Sq → BB → BB
  bishopMoves : Sq → BB → BB
  zSide : BB
  zPiece : Color → Piece → Sq → BB
  zCastle : Color → CastleRights → BB
  zEp : Color → Fin 8 → BB

namespace Raw

/-- `get_rook_moves` / `get_bishop_moves` of `magic.rs`:
`MOVES[offset + ((magic * (blockers & mask)) >> rightshift)] & rays`. The slice starts at `offset`. -/
def magicLookup (r : Raw) (bishop : Bool) (s : Sq) (occ : BB) : BB :=
  let i := (if bishop then 64 else 0) + s.val
  let magic := word r.magicNumbers i
  let mask := word r.magicMasks i
  let shift := (word r.magicShifts i).toNat
  let slice := (if bishop then r.bishopSlices else r.rookSlices).getD s.val 0
  let idx := ((magic * (occ &&& mask)) >>> shift).toNat
  word slice idx &&& word r.rays i

/-- 16-bit entry of a packed `BMI_MOVES` slice -/
def word16 (packed : Nat) (i : Nat) : BB := BitVec.ofNat 64 ((packed >>> (16 * i)) % 65536)

/-- `get_rook_moves_bmi` / `get_bishop_moves_bmi`:
`pdep(BMI_MOVES[offset + pext(blockers, mask)], rays)`. -/
def bmiLookup (r : Raw) (bishop : Bool) (s : Sq) (occ : BB) : BB :=
  let mask := word (if bishop then r.bmiMasksB else r.bmiMasksR) s.val
  let slice := (if bishop then r.bmiSlicesB else r.bmiSlicesR).getD s.val 0
  let idx := (pext occ mask).toNat
  pdep (word16 slice idx) (word r.rays ((if bishop then 64 else 0) + s.val))

def toTables (r : Raw) : Tables where
  king s := word r.kingMoves s.val
  knight s := word r.knightMoves s.val
  rookRays s := word r.rays s.val
  bishopRays s := word r.rays (64 + s.val)
  between a b := word r.between (a.val * 64 + b.val)
  line a b := word r.line (a.val * 64 + b.val)
  pawnAttacks c s := word r.pawnAttacks (c.toIndex * 64 + s.val)
  pawnMoves c s := word r.pawnMoves (c.toIndex * 64 + s.val)
  pawnSrcDouble := BitVec.ofNat 64 r.pawnSrcDouble
  pawnDstDouble := BitVec.ofNat 64 r.pawnDstDouble
  castleMoves := BitVec.ofNat 64 r.castleMoves
  ksCastle c := word r.ksCastle c.toIndex
  qsCastle c := word r.qsCastle c.toIndex
  files f := word r.files f.val
  adjFiles f := word r.adjFiles f.val
  ranks k := word r.ranks k.val
  edges := BitVec.ofNat 64 r.edges
  rookMoves s occ := r.magicLookup false s occ
  bishopMoves s occ := r.magicLookup true s occ
  zSide := BitVec.ofNat 64 r.zSide
  zPiece c p s := word r.zPieces ((c.toIndex * 6 + p.toIndex) * 64 + s.val)
  zCastle c cr := word r.zCastles (c.toIndex * 4 + cr.toIndex)
  zEp c f := word r.zEp (c.toIndex * 8 + f.val)

end Raw
end Chess
