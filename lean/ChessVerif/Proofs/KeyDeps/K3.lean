import ChessVerif.Lemmas.KeyDeps
/-! chunk 3 of the "no key is the xor of two other keys" check: outer keys 166 … 232, each
against all later keys (kernel evaluation). -/
namespace Chess.KeyDeps
set_option maxRecDepth 1000000
theorem chunk3 : chunkOK 166 67 = true := by decide +kernel
end Chess.KeyDeps
