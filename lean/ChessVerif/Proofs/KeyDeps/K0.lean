import ChessVerif.Lemmas.KeyDeps
/-! chunk 0 of the "no key is the xor of two other keys" check: outer keys 0 … 51, each
against all later keys (kernel evaluation). -/
namespace Chess.KeyDeps
set_option maxRecDepth 1000000
theorem chunk0 : chunkOK 0 52 = true := by decide +kernel
end Chess.KeyDeps
