import ChessVerif.Lemmas.KeyDeps
/-! chunk 2 of the "no key is the xor of two other keys" check: outer keys 107 … 165, each
against all later keys (kernel evaluation). -/
namespace Chess.KeyDeps
set_option maxRecDepth 1000000
theorem chunk2 : chunkOK 107 59 = true := by decide +kernel
end Chess.KeyDeps
