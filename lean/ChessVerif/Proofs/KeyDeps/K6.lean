import ChessVerif.Lemmas.KeyDeps
/-! chunk 6 of the "no key is the xor of two other keys" check: outer keys 397 … 512, each
against all later keys (kernel evaluation). -/
namespace Chess.KeyDeps
set_option maxRecDepth 1000000
theorem chunk6 : chunkOK 397 116 = true := by decide +kernel
end Chess.KeyDeps
