import ChessVerif.Lemmas.KeyDeps
/-! chunk 7 of the "no key is the xor of two other keys" check: outer keys 513 … 792, each
against all later keys (kernel evaluation). -/
namespace Chess.KeyDeps
set_option maxRecDepth 1000000
theorem chunk7 : chunkOK 513 280 = true := by decide +kernel
end Chess.KeyDeps
