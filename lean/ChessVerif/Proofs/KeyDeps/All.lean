import ChessVerif.Props.C09
import ChessVerif.Lemmas.KeyDeps
import ChessVerif.Proofs.KeyDeps.K0
import ChessVerif.Proofs.KeyDeps.K1
import ChessVerif.Proofs.KeyDeps.K2
import ChessVerif.Proofs.KeyDeps.K3
import ChessVerif.Proofs.KeyDeps.K4
import ChessVerif.Proofs.KeyDeps.K5
import ChessVerif.Proofs.KeyDeps.K6
import ChessVerif.Proofs.KeyDeps.K7
/-!
Glue the eight kernel-checked chunks into "for list positions `i < j`, `k_i ^^^ k_j` is not a key" on
the literal `Nat` key list, and transfer the result to the `BB` keys `Props.allKeys` used by C09.
-/
namespace Chess.KeyDeps
set_option maxRecDepth 1000000

theorem keys_length : keys.length = 793 := by decide +kernel

theorem keys_ntFrom : ntFrom bloomA bloomB keys keys 793 = true := by
  have h0 : ntFrom bloomA bloomB keys keys 52 = true := chunk0
  have h1 : ntFrom bloomA bloomB keys keys 107 = true := ntFrom_add _ _ _ keys 52 55 h0 chunk1
  have h2 : ntFrom bloomA bloomB keys keys 166 = true := ntFrom_add _ _ _ keys 107 59 h1 chunk2
  have h3 : ntFrom bloomA bloomB keys keys 233 = true := ntFrom_add _ _ _ keys 166 67 h2 chunk3
  have h4 : ntFrom bloomA bloomB keys keys 308 = true := ntFrom_add _ _ _ keys 233 75 h3 chunk4
  have h5 : ntFrom bloomA bloomB keys keys 397 = true := ntFrom_add _ _ _ keys 308 89 h4 chunk5
  have h6 : ntFrom bloomA bloomB keys keys 513 = true := ntFrom_add _ _ _ keys 397 116 h5 chunk6
  exact ntFrom_add _ _ _ keys 513 280 h6 chunk7

/-- for positions `i < j` of the literal key list, `k_i ^^^ k_j` is not in the list -/
theorem keys_pairwise : keys.Pairwise (fun a b => a ^^^ b ∉ keys) :=
  ntFrom_spec keys keys 793 (Nat.le_of_eq keys_length) keys_ntFrom

/-! ## transfer to `BB` -/

theorem keys_lt : keys.all (fun k => Nat.blt k 18446744073709551616) = true := by decide +kernel

theorem keys_map : keys.map (BitVec.ofNat 64) = Props.allKeys := by decide +kernel

theorem pairwise_ofNat (ks : List Nat) (hlt : ∀ k ∈ ks, k < 2 ^ 64)
    (hp : ks.Pairwise (fun a b => a ^^^ b ∉ ks)) :
    (ks.map (BitVec.ofNat 64)).Pairwise (fun a b => a ^^^ b ∉ ks.map (BitVec.ofNat 64)) := by
  rw [List.pairwise_map]
  refine hp.imp_of_mem ?_
  intro a b ha hb hab hmem
  rcases List.mem_map.mp hmem with ⟨z, hz, hzeq⟩
  rw [← BitVec.ofNat_xor] at hzeq
  have h2 := congrArg BitVec.toNat hzeq
  simp only [BitVec.toNat_ofNat] at h2
  rw [Nat.mod_eq_of_lt (hlt z hz), Nat.mod_eq_of_lt (Nat.xor_lt_two_pow (hlt a ha) (hlt b hb))] at h2
  exact hab (h2 ▸ hz)

/-- for positions `i < j` of `allKeys`, `k_i ^^^ k_j` is not a key -/
theorem allKeys_pairwise : Props.allKeys.Pairwise (fun a b => a ^^^ b ∉ Props.allKeys) := by
  rw [← keys_map]
  refine pairwise_ofNat keys ?_ keys_pairwise
  intro k hk
  exact Nat.le_of_ble_eq_true (List.all_eq_true.mp keys_lt k hk)

theorem allKeys_length : Props.allKeys.length = 793 := by rw [← keys_map, List.length_map, keys_length]

/-- any two different positions of `allKeys` -/
theorem allKeys_getElem_xor (i j : Nat) (hi : i < Props.allKeys.length) (hj : j < Props.allKeys.length)
    (hij : i ≠ j) : Props.allKeys[i] ^^^ Props.allKeys[j] ∉ Props.allKeys :=
  pairwise_getElem_ne (R := fun a b => a ^^^ b ∉ Props.allKeys)
    (fun a b h => by rw [BitVec.xor_comm]; exact h) allKeys_pairwise i j hi hj hij

/-! ## where the keys of the tables sit in `allKeys` -/

open Props in
theorem zPiece_getElem (c : Color) (pc : Piece) (s : Sq) :
    ∃ h : (c.toIndex * 6 + pc.toIndex) * 64 + s.val < allKeys.length,
      T.zPiece c pc s = allKeys[(c.toIndex * 6 + pc.toIndex) * 64 + s.val] := by
  have hc : c.toIndex < 2 := by cases c <;> decide
  have hp : pc.toIndex < 6 := by cases pc <;> decide
  have hs := s.isLt
  have hlt : (c.toIndex * 6 + pc.toIndex) * 64 + s.val < 768 := by omega
  refine ⟨by rw [allKeys_length]; omega, ?_⟩
  unfold allKeys
  rw [List.getElem_append_left (by simp; omega), List.getElem_append_left (by simp; omega),
    List.getElem_append_left (by simp; omega), List.getElem_map, List.getElem_range]
  rfl

open Props in
theorem zSide_mem : T.zSide ∈ allKeys := by
  unfold allKeys
  apply List.mem_append_right
  exact List.mem_singleton.mpr rfl

end Chess.KeyDeps
