import ChessVerif.Lemmas.KeyDeps
/-! chunk 4 of the "no key is the xor of two other keys" check: outer keys 233 … 307, each
against all later keys (kernel evaluation). -/
namespace Chess.KeyDeps
set_option maxRecDepth 1000000
theorem chunk4 : chunkOK 233 75 = true := by decide +kernel
end Chess.KeyDeps
