import ChessVerif.Lemmas.KeyDeps
/-! chunk 1 of the "no key is the xor of two other keys" check: outer keys 52 … 106, each
against all later keys (kernel evaluation). -/
namespace Chess.KeyDeps
set_option maxRecDepth 1000000
theorem chunk1 : chunkOK 52 55 = true := by decide +kernel
end Chess.KeyDeps
