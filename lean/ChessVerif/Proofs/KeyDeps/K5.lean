import ChessVerif.Lemmas.KeyDeps
/-! chunk 5 of the "no key is the xor of two other keys" check: outer keys 308 … 396, each
against all later keys (kernel evaluation). -/
namespace Chess.KeyDeps
set_option maxRecDepth 1000000
theorem chunk5 : chunkOK 308 89 = true := by decide +kernel
end Chess.KeyDeps
