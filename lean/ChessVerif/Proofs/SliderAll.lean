import ChessVerif.Proofs.SliderLemmas
import ChessVerif.CodeTables
import ChessVerif.Proofs.Slider.S00
import ChessVerif.Proofs.Slider.S01
import ChessVerif.Proofs.Slider.S02
import ChessVerif.Proofs.Slider.S03
import ChessVerif.Proofs.Slider.S04
import ChessVerif.Proofs.Slider.S05
import ChessVerif.Proofs.Slider.S06
import ChessVerif.Proofs.Slider.S07
import ChessVerif.Proofs.Slider.S08
import ChessVerif.Proofs.Slider.S09
import ChessVerif.Proofs.Slider.S10
import ChessVerif.Proofs.Slider.S11
import ChessVerif.Proofs.Slider.S12
import ChessVerif.Proofs.Slider.S13
import ChessVerif.Proofs.Slider.S14
import ChessVerif.Proofs.Slider.S15
import ChessVerif.Proofs.Slider.S16
import ChessVerif.Proofs.Slider.S17
import ChessVerif.Proofs.Slider.S18
import ChessVerif.Proofs.Slider.S19
import ChessVerif.Proofs.Slider.S20
import ChessVerif.Proofs.Slider.S21
import ChessVerif.Proofs.Slider.S22
import ChessVerif.Proofs.Slider.S23
import ChessVerif.Proofs.Slider.S24
import ChessVerif.Proofs.Slider.S25
import ChessVerif.Proofs.Slider.S26
import ChessVerif.Proofs.Slider.S27
import ChessVerif.Proofs.Slider.S28
import ChessVerif.Proofs.Slider.S29
import ChessVerif.Proofs.Slider.S30
import ChessVerif.Proofs.Slider.S31
import ChessVerif.Proofs.Slider.S32
import ChessVerif.Proofs.Slider.S33
import ChessVerif.Proofs.Slider.S34
import ChessVerif.Proofs.Slider.S35
import ChessVerif.Proofs.Slider.S36
import ChessVerif.Proofs.Slider.S37
import ChessVerif.Proofs.Slider.S38
import ChessVerif.Proofs.Slider.S39
import ChessVerif.Proofs.Slider.S40
import ChessVerif.Proofs.Slider.S41
import ChessVerif.Proofs.Slider.S42
import ChessVerif.Proofs.Slider.S43
import ChessVerif.Proofs.Slider.S44
import ChessVerif.Proofs.Slider.S45
import ChessVerif.Proofs.Slider.S46
import ChessVerif.Proofs.Slider.S47
import ChessVerif.Proofs.Slider.S48
import ChessVerif.Proofs.Slider.S49
import ChessVerif.Proofs.Slider.S50
import ChessVerif.Proofs.Slider.S51
import ChessVerif.Proofs.Slider.S52
import ChessVerif.Proofs.Slider.S53
import ChessVerif.Proofs.Slider.S54
import ChessVerif.Proofs.Slider.S55
import ChessVerif.Proofs.Slider.S56
import ChessVerif.Proofs.Slider.S57
import ChessVerif.Proofs.Slider.S58
import ChessVerif.Proofs.Slider.S59
import ChessVerif.Proofs.Slider.S60
import ChessVerif.Proofs.Slider.S61
import ChessVerif.Proofs.Slider.S62
import ChessVerif.Proofs.Slider.S63
/-! Assembly of the 256 per-square obligations into statements about all squares and all 2^64 occupancies (C15). -/
namespace Chess
open SliderProofs
theorem rook_ok_all : ∀ s : Sq, codeRaw.sliderOK false s = true
  | ⟨0, _⟩ => rook_ok_00
  | ⟨1, _⟩ => rook_ok_01
  | ⟨2, _⟩ => rook_ok_02
  | ⟨3, _⟩ => rook_ok_03
  | ⟨4, _⟩ => rook_ok_04
  | ⟨5, _⟩ => rook_ok_05
  | ⟨6, _⟩ => rook_ok_06
  | ⟨7, _⟩ => rook_ok_07
  | ⟨8, _⟩ => rook_ok_08
  | ⟨9, _⟩ => rook_ok_09
  | ⟨10, _⟩ => rook_ok_10
  | ⟨11, _⟩ => rook_ok_11
  | ⟨12, _⟩ => rook_ok_12
  | ⟨13, _⟩ => rook_ok_13
  | ⟨14, _⟩ => rook_ok_14
  | ⟨15, _⟩ => rook_ok_15
  | ⟨16, _⟩ => rook_ok_16
  | ⟨17, _⟩ => rook_ok_17
  | ⟨18, _⟩ => rook_ok_18
  | ⟨19, _⟩ => rook_ok_19
  | ⟨20, _⟩ => rook_ok_20
  | ⟨21, _⟩ => rook_ok_21
  | ⟨22, _⟩ => rook_ok_22
  | ⟨23, _⟩ => rook_ok_23
  | ⟨24, _⟩ => rook_ok_24
  | ⟨25, _⟩ => rook_ok_25
  | ⟨26, _⟩ => rook_ok_26
  | ⟨27, _⟩ => rook_ok_27
  | ⟨28, _⟩ => rook_ok_28
  | ⟨29, _⟩ => rook_ok_29
  | ⟨30, _⟩ => rook_ok_30
  | ⟨31, _⟩ => rook_ok_31
  | ⟨32, _⟩ => rook_ok_32
  | ⟨33, _⟩ => rook_ok_33
  | ⟨34, _⟩ => rook_ok_34
  | ⟨35, _⟩ => rook_ok_35
  | ⟨36, _⟩ => rook_ok_36
  | ⟨37, _⟩ => rook_ok_37
  | ⟨38, _⟩ => rook_ok_38
  | ⟨39, _⟩ => rook_ok_39
  | ⟨40, _⟩ => rook_ok_40
  | ⟨41, _⟩ => rook_ok_41
  | ⟨42, _⟩ => rook_ok_42
  | ⟨43, _⟩ => rook_ok_43
  | ⟨44, _⟩ => rook_ok_44
  | ⟨45, _⟩ => rook_ok_45
  | ⟨46, _⟩ => rook_ok_46
  | ⟨47, _⟩ => rook_ok_47
  | ⟨48, _⟩ => rook_ok_48
  | ⟨49, _⟩ => rook_ok_49
  | ⟨50, _⟩ => rook_ok_50
  | ⟨51, _⟩ => rook_ok_51
  | ⟨52, _⟩ => rook_ok_52
  | ⟨53, _⟩ => rook_ok_53
  | ⟨54, _⟩ => rook_ok_54
  | ⟨55, _⟩ => rook_ok_55
  | ⟨56, _⟩ => rook_ok_56
  | ⟨57, _⟩ => rook_ok_57
  | ⟨58, _⟩ => rook_ok_58
  | ⟨59, _⟩ => rook_ok_59
  | ⟨60, _⟩ => rook_ok_60
  | ⟨61, _⟩ => rook_ok_61
  | ⟨62, _⟩ => rook_ok_62
  | ⟨63, _⟩ => rook_ok_63
  | ⟨n+64, h⟩ => absurd h (by omega)

theorem bishop_ok_all : ∀ s : Sq, codeRaw.sliderOK true s = true
  | ⟨0, _⟩ => bishop_ok_00
  | ⟨1, _⟩ => bishop_ok_01
  | ⟨2, _⟩ => bishop_ok_02
  | ⟨3, _⟩ => bishop_ok_03
  | ⟨4, _⟩ => bishop_ok_04
  | ⟨5, _⟩ => bishop_ok_05
  | ⟨6, _⟩ => bishop_ok_06
  | ⟨7, _⟩ => bishop_ok_07
  | ⟨8, _⟩ => bishop_ok_08
  | ⟨9, _⟩ => bishop_ok_09
  | ⟨10, _⟩ => bishop_ok_10
  | ⟨11, _⟩ => bishop_ok_11
  | ⟨12, _⟩ => bishop_ok_12
  | ⟨13, _⟩ => bishop_ok_13
  | ⟨14, _⟩ => bishop_ok_14
  | ⟨15, _⟩ => bishop_ok_15
  | ⟨16, _⟩ => bishop_ok_16
  | ⟨17, _⟩ => bishop_ok_17
  | ⟨18, _⟩ => bishop_ok_18
  | ⟨19, _⟩ => bishop_ok_19
  | ⟨20, _⟩ => bishop_ok_20
  | ⟨21, _⟩ => bishop_ok_21
  | ⟨22, _⟩ => bishop_ok_22
  | ⟨23, _⟩ => bishop_ok_23
  | ⟨24, _⟩ => bishop_ok_24
  | ⟨25, _⟩ => bishop_ok_25
  | ⟨26, _⟩ => bishop_ok_26
  | ⟨27, _⟩ => bishop_ok_27
  | ⟨28, _⟩ => bishop_ok_28
  | ⟨29, _⟩ => bishop_ok_29
  | ⟨30, _⟩ => bishop_ok_30
  | ⟨31, _⟩ => bishop_ok_31
  | ⟨32, _⟩ => bishop_ok_32
  | ⟨33, _⟩ => bishop_ok_33
  | ⟨34, _⟩ => bishop_ok_34
  | ⟨35, _⟩ => bishop_ok_35
  | ⟨36, _⟩ => bishop_ok_36
  | ⟨37, _⟩ => bishop_ok_37
  | ⟨38, _⟩ => bishop_ok_38
  | ⟨39, _⟩ => bishop_ok_39
  | ⟨40, _⟩ => bishop_ok_40
  | ⟨41, _⟩ => bishop_ok_41
  | ⟨42, _⟩ => bishop_ok_42
  | ⟨43, _⟩ => bishop_ok_43
  | ⟨44, _⟩ => bishop_ok_44
  | ⟨45, _⟩ => bishop_ok_45
  | ⟨46, _⟩ => bishop_ok_46
  | ⟨47, _⟩ => bishop_ok_47
  | ⟨48, _⟩ => bishop_ok_48
  | ⟨49, _⟩ => bishop_ok_49
  | ⟨50, _⟩ => bishop_ok_50
  | ⟨51, _⟩ => bishop_ok_51
  | ⟨52, _⟩ => bishop_ok_52
  | ⟨53, _⟩ => bishop_ok_53
  | ⟨54, _⟩ => bishop_ok_54
  | ⟨55, _⟩ => bishop_ok_55
  | ⟨56, _⟩ => bishop_ok_56
  | ⟨57, _⟩ => bishop_ok_57
  | ⟨58, _⟩ => bishop_ok_58
  | ⟨59, _⟩ => bishop_ok_59
  | ⟨60, _⟩ => bishop_ok_60
  | ⟨61, _⟩ => bishop_ok_61
  | ⟨62, _⟩ => bishop_ok_62
  | ⟨63, _⟩ => bishop_ok_63
  | ⟨n+64, h⟩ => absurd h (by omega)

theorem bmi_rook_ok_all : ∀ s : Sq, Gen.haveBmi = false ∨ codeRaw.bmiOK false s = true
  | ⟨0, _⟩ => bmi_rook_ok_00
  | ⟨1, _⟩ => bmi_rook_ok_01
  | ⟨2, _⟩ => bmi_rook_ok_02
  | ⟨3, _⟩ => bmi_rook_ok_03
  | ⟨4, _⟩ => bmi_rook_ok_04
  | ⟨5, _⟩ => bmi_rook_ok_05
  | ⟨6, _⟩ => bmi_rook_ok_06
  | ⟨7, _⟩ => bmi_rook_ok_07
  | ⟨8, _⟩ => bmi_rook_ok_08
  | ⟨9, _⟩ => bmi_rook_ok_09
  | ⟨10, _⟩ => bmi_rook_ok_10
  | ⟨11, _⟩ => bmi_rook_ok_11
  | ⟨12, _⟩ => bmi_rook_ok_12
  | ⟨13, _⟩ => bmi_rook_ok_13
  | ⟨14, _⟩ => bmi_rook_ok_14
  | ⟨15, _⟩ => bmi_rook_ok_15
  | ⟨16, _⟩ => bmi_rook_ok_16
  | ⟨17, _⟩ => bmi_rook_ok_17
  | ⟨18, _⟩ => bmi_rook_ok_18
  | ⟨19, _⟩ => bmi_rook_ok_19
  | ⟨20, _⟩ => bmi_rook_ok_20
  | ⟨21, _⟩ => bmi_rook_ok_21
  | ⟨22, _⟩ => bmi_rook_ok_22
  | ⟨23, _⟩ => bmi_rook_ok_23
  | ⟨24, _⟩ => bmi_rook_ok_24
  | ⟨25, _⟩ => bmi_rook_ok_25
  | ⟨26, _⟩ => bmi_rook_ok_26
  | ⟨27, _⟩ => bmi_rook_ok_27
  | ⟨28, _⟩ => bmi_rook_ok_28
  | ⟨29, _⟩ => bmi_rook_ok_29
  | ⟨30, _⟩ => bmi_rook_ok_30
  | ⟨31, _⟩ => bmi_rook_ok_31
  | ⟨32, _⟩ => bmi_rook_ok_32
  | ⟨33, _⟩ => bmi_rook_ok_33
  | ⟨34, _⟩ => bmi_rook_ok_34
  | ⟨35, _⟩ => bmi_rook_ok_35
  | ⟨36, _⟩ => bmi_rook_ok_36
  | ⟨37, _⟩ => bmi_rook_ok_37
  | ⟨38, _⟩ => bmi_rook_ok_38
  | ⟨39, _⟩ => bmi_rook_ok_39
  | ⟨40, _⟩ => bmi_rook_ok_40
  | ⟨41, _⟩ => bmi_rook_ok_41
  | ⟨42, _⟩ => bmi_rook_ok_42
  | ⟨43, _⟩ => bmi_rook_ok_43
  | ⟨44, _⟩ => bmi_rook_ok_44
  | ⟨45, _⟩ => bmi_rook_ok_45
  | ⟨46, _⟩ => bmi_rook_ok_46
  | ⟨47, _⟩ => bmi_rook_ok_47
  | ⟨48, _⟩ => bmi_rook_ok_48
  | ⟨49, _⟩ => bmi_rook_ok_49
  | ⟨50, _⟩ => bmi_rook_ok_50
  | ⟨51, _⟩ => bmi_rook_ok_51
  | ⟨52, _⟩ => bmi_rook_ok_52
  | ⟨53, _⟩ => bmi_rook_ok_53
  | ⟨54, _⟩ => bmi_rook_ok_54
  | ⟨55, _⟩ => bmi_rook_ok_55
  | ⟨56, _⟩ => bmi_rook_ok_56
  | ⟨57, _⟩ => bmi_rook_ok_57
  | ⟨58, _⟩ => bmi_rook_ok_58
  | ⟨59, _⟩ => bmi_rook_ok_59
  | ⟨60, _⟩ => bmi_rook_ok_60
  | ⟨61, _⟩ => bmi_rook_ok_61
  | ⟨62, _⟩ => bmi_rook_ok_62
  | ⟨63, _⟩ => bmi_rook_ok_63
  | ⟨n+64, h⟩ => absurd h (by omega)

theorem bmi_bishop_ok_all : ∀ s : Sq, Gen.haveBmi = false ∨ codeRaw.bmiOK true s = true
  | ⟨0, _⟩ => bmi_bishop_ok_00
  | ⟨1, _⟩ => bmi_bishop_ok_01
  | ⟨2, _⟩ => bmi_bishop_ok_02
  | ⟨3, _⟩ => bmi_bishop_ok_03
  | ⟨4, _⟩ => bmi_bishop_ok_04
  | ⟨5, _⟩ => bmi_bishop_ok_05
  | ⟨6, _⟩ => bmi_bishop_ok_06
  | ⟨7, _⟩ => bmi_bishop_ok_07
  | ⟨8, _⟩ => bmi_bishop_ok_08
  | ⟨9, _⟩ => bmi_bishop_ok_09
  | ⟨10, _⟩ => bmi_bishop_ok_10
  | ⟨11, _⟩ => bmi_bishop_ok_11
  | ⟨12, _⟩ => bmi_bishop_ok_12
  | ⟨13, _⟩ => bmi_bishop_ok_13
  | ⟨14, _⟩ => bmi_bishop_ok_14
  | ⟨15, _⟩ => bmi_bishop_ok_15
  | ⟨16, _⟩ => bmi_bishop_ok_16
  | ⟨17, _⟩ => bmi_bishop_ok_17
  | ⟨18, _⟩ => bmi_bishop_ok_18
  | ⟨19, _⟩ => bmi_bishop_ok_19
  | ⟨20, _⟩ => bmi_bishop_ok_20
  | ⟨21, _⟩ => bmi_bishop_ok_21
  | ⟨22, _⟩ => bmi_bishop_ok_22
  | ⟨23, _⟩ => bmi_bishop_ok_23
  | ⟨24, _⟩ => bmi_bishop_ok_24
  | ⟨25, _⟩ => bmi_bishop_ok_25
  | ⟨26, _⟩ => bmi_bishop_ok_26
  | ⟨27, _⟩ => bmi_bishop_ok_27
  | ⟨28, _⟩ => bmi_bishop_ok_28
  | ⟨29, _⟩ => bmi_bishop_ok_29
  | ⟨30, _⟩ => bmi_bishop_ok_30
  | ⟨31, _⟩ => bmi_bishop_ok_31
  | ⟨32, _⟩ => bmi_bishop_ok_32
  | ⟨33, _⟩ => bmi_bishop_ok_33
  | ⟨34, _⟩ => bmi_bishop_ok_34
  | ⟨35, _⟩ => bmi_bishop_ok_35
  | ⟨36, _⟩ => bmi_bishop_ok_36
  | ⟨37, _⟩ => bmi_bishop_ok_37
  | ⟨38, _⟩ => bmi_bishop_ok_38
  | ⟨39, _⟩ => bmi_bishop_ok_39
  | ⟨40, _⟩ => bmi_bishop_ok_40
  | ⟨41, _⟩ => bmi_bishop_ok_41
  | ⟨42, _⟩ => bmi_bishop_ok_42
  | ⟨43, _⟩ => bmi_bishop_ok_43
  | ⟨44, _⟩ => bmi_bishop_ok_44
  | ⟨45, _⟩ => bmi_bishop_ok_45
  | ⟨46, _⟩ => bmi_bishop_ok_46
  | ⟨47, _⟩ => bmi_bishop_ok_47
  | ⟨48, _⟩ => bmi_bishop_ok_48
  | ⟨49, _⟩ => bmi_bishop_ok_49
  | ⟨50, _⟩ => bmi_bishop_ok_50
  | ⟨51, _⟩ => bmi_bishop_ok_51
  | ⟨52, _⟩ => bmi_bishop_ok_52
  | ⟨53, _⟩ => bmi_bishop_ok_53
  | ⟨54, _⟩ => bmi_bishop_ok_54
  | ⟨55, _⟩ => bmi_bishop_ok_55
  | ⟨56, _⟩ => bmi_bishop_ok_56
  | ⟨57, _⟩ => bmi_bishop_ok_57
  | ⟨58, _⟩ => bmi_bishop_ok_58
  | ⟨59, _⟩ => bmi_bishop_ok_59
  | ⟨60, _⟩ => bmi_bishop_ok_60
  | ⟨61, _⟩ => bmi_bishop_ok_61
  | ⟨62, _⟩ => bmi_bishop_ok_62
  | ⟨63, _⟩ => bmi_bishop_ok_63
  | ⟨n+64, h⟩ => absurd h (by omega)

/-- C15, default build: the magic look-ups equal ray walking for every square and every occupancy -/
theorem rookMoves_eq_walk (s : Sq) (occ : BB) : codeTables.rookMoves s occ = Geom.rookWalk s occ :=
  codeRaw.sliderOK_lift false s (rook_ok_all s) occ

theorem bishopMoves_eq_walk (s : Sq) (occ : BB) : codeTables.bishopMoves s occ = Geom.bishopWalk s occ :=
  codeRaw.sliderOK_lift true s (bishop_ok_all s) occ

/-- C15, `+bmi2` build: the pext/pdep look-ups equal ray walking … -/
theorem rookMovesBmi_eq_walk (hb : Gen.haveBmi = true) (s : Sq) (occ : BB) :
    codeRaw.bmiLookup false s occ = Geom.rookWalk s occ :=
  codeRaw.bmiOK_lift false s ((bmi_rook_ok_all s).resolve_left (by simp [hb])) occ

theorem bishopMovesBmi_eq_walk (hb : Gen.haveBmi = true) (s : Sq) (occ : BB) :
    codeRaw.bmiLookup true s occ = Geom.bishopWalk s occ :=
  codeRaw.bmiOK_lift true s ((bmi_bishop_ok_all s).resolve_left (by simp [hb])) occ

/-- … and therefore the two build configurations agree with each other -/
theorem bmi_agrees_with_magic (hb : Gen.haveBmi = true) (s : Sq) (occ : BB) :
    codeRaw.bmiLookup false s occ = codeTables.rookMoves s occ ∧
    codeRaw.bmiLookup true s occ = codeTables.bishopMoves s occ := by
  rw [rookMovesBmi_eq_walk hb, bishopMovesBmi_eq_walk hb, rookMoves_eq_walk, bishopMoves_eq_walk]
  exact ⟨rfl, rfl⟩

end Chess
