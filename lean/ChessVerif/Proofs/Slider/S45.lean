import ChessVerif.Proofs.SliderLemmas
import ChessVerif.CodeTables
/-! Kernel-checked obligations for square 45: every subset of the code's mask, magic and BMI2 tables, rook and bishop.
(static text; the data it is checked against is regenerated from /repo on every run) -/
namespace Chess.SliderProofs
set_option maxRecDepth 100000
theorem rook_ok_45 : codeRaw.sliderOK false ⟨45, by decide⟩ = true := by decide +kernel
theorem bishop_ok_45 : codeRaw.sliderOK true ⟨45, by decide⟩ = true := by decide +kernel
theorem bmi_rook_ok_45 : Gen.haveBmi = false ∨ codeRaw.bmiOK false ⟨45, by decide⟩ = true := by decide +kernel
theorem bmi_bishop_ok_45 : Gen.haveBmi = false ∨ codeRaw.bmiOK true ⟨45, by decide⟩ = true := by decide +kernel
end Chess.SliderProofs
