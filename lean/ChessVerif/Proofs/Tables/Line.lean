import ChessVerif.Geom
import ChessVerif.CodeTables
/-! Kernel-checked facts about the tables generated from /repo (re-checked whenever the data changes). -/
namespace Chess.TableProofs
set_option maxRecDepth 100000
theorem line_all : (allSq.all fun a => allSq.all fun b => codeTables.line a b == Geom.line a b) = true := by decide +kernel
end Chess.TableProofs
