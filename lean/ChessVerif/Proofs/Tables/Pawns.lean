import ChessVerif.Geom
import ChessVerif.CodeTables
/-! Kernel-checked facts about the tables generated from /repo (re-checked whenever the data changes). -/
namespace Chess.TableProofs
set_option maxRecDepth 100000
theorem pawnAttacks_all : (allColors.all fun c => allSq.all fun s => codeTables.pawnAttacks c s == Geom.pawnAttacks c s) = true := by decide +kernel
theorem pawnMoves_all : (allColors.all fun c => allSq.all fun s => codeTables.pawnMoves c s == Geom.pawnMoves c s) = true := by decide +kernel
theorem pawnSrcDouble_ok : codeTables.pawnSrcDouble = Geom.pawnSrcDouble := by decide +kernel
theorem pawnDstDouble_ok : codeTables.pawnDstDouble = Geom.pawnDstDouble := by decide +kernel
end Chess.TableProofs
