import ChessVerif.Geom
import ChessVerif.CodeTables
/-! Kernel-checked facts about the tables generated from /repo (re-checked whenever the data changes). -/
namespace Chess.TableProofs
set_option maxRecDepth 100000
theorem rookRays_all : (allSq.all fun s => codeTables.rookRays s == Geom.rookRays s) = true := by decide +kernel
theorem bishopRays_all : (allSq.all fun s => codeTables.bishopRays s == Geom.bishopRays s) = true := by decide +kernel
end Chess.TableProofs
