import ChessVerif.Geom
import ChessVerif.CodeTables
/-! Kernel-checked facts about the tables generated from /repo (re-checked whenever the data changes). -/
namespace Chess.TableProofs
set_option maxRecDepth 100000
theorem knight_all : (allSq.all fun s => codeTables.knight s == Geom.knight s) = true := by decide +kernel
end Chess.TableProofs
