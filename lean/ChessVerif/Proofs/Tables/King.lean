import ChessVerif.Geom
import ChessVerif.CodeTables
/-! Kernel-checked facts about the tables generated from /repo (re-checked whenever the data changes). -/
namespace Chess.TableProofs
set_option maxRecDepth 100000
theorem king_all : (allSq.all fun s => codeTables.king s == Geom.king s) = true := by decide +kernel
end Chess.TableProofs
