import ChessVerif.Geom
import ChessVerif.CodeTables
/-! Kernel-checked facts about the tables generated from /repo (re-checked whenever the data changes). -/
namespace Chess.TableProofs
set_option maxRecDepth 100000
theorem castleMoves_ok : codeTables.castleMoves = Geom.castleMoves := by decide +kernel
theorem ksCastle_all : (allColors.all fun c => codeTables.ksCastle c == Geom.ksCastle c) = true := by decide +kernel
theorem qsCastle_all : (allColors.all fun c => codeTables.qsCastle c == Geom.qsCastle c) = true := by decide +kernel
theorem files_all : ((List.finRange 8).all fun f => codeTables.files f == Geom.files f) = true := by decide +kernel
theorem adjFiles_all : ((List.finRange 8).all fun f => codeTables.adjFiles f == Geom.adjFiles f) = true := by decide +kernel
theorem ranks_all : ((List.finRange 8).all fun f => codeTables.ranks f == Geom.ranks f) = true := by decide +kernel
theorem edges_ok : codeTables.edges = Geom.edges := by decide +kernel
end Chess.TableProofs
