import ChessVerif.Proofs.SliderAll
import ChessVerif.Proofs.Tables.King
import ChessVerif.Proofs.Tables.Knight
import ChessVerif.Proofs.Tables.Rays
import ChessVerif.Proofs.Tables.Between
import ChessVerif.Proofs.Tables.Line
import ChessVerif.Proofs.Tables.Pawns
import ChessVerif.Proofs.Tables.Misc
/-! `TablesOK codeTables`: every table the code generates equals its geometric definition (C15, C16). -/
namespace Chess
open TableProofs

theorem forall_sq_of_all {p : Sq → Bool} (h : allSq.all p = true) (s : Sq) : p s = true :=
  List.all_eq_true.mp h s (List.mem_finRange s)

theorem forall_fin8_of_all {p : Fin 8 → Bool} (h : (List.finRange 8).all p = true) (f : Fin 8) : p f = true :=
  List.all_eq_true.mp h f (List.mem_finRange f)

theorem forall_color_of_all {p : Color → Bool} (h : allColors.all p = true) (c : Color) : p c = true :=
  List.all_eq_true.mp h c (by cases c <;> simp [allColors])

theorem codeTables_ok : TablesOK codeTables where
  king s := by simpa using forall_sq_of_all king_all s
  knight s := by simpa using forall_sq_of_all knight_all s
  rookRays s := by simpa using forall_sq_of_all rookRays_all s
  bishopRays s := by simpa using forall_sq_of_all bishopRays_all s
  between a b := by simpa using forall_sq_of_all (forall_sq_of_all between_all a) b
  line a b := by simpa using forall_sq_of_all (forall_sq_of_all line_all a) b
  pawnAttacks c s := by simpa using forall_sq_of_all (forall_color_of_all pawnAttacks_all c) s
  pawnMoves c s := by simpa using forall_sq_of_all (forall_color_of_all pawnMoves_all c) s
  pawnSrcDouble := pawnSrcDouble_ok
  pawnDstDouble := pawnDstDouble_ok
  castleMoves := castleMoves_ok
  ksCastle c := by simpa using forall_color_of_all ksCastle_all c
  qsCastle c := by simpa using forall_color_of_all qsCastle_all c
  files f := by simpa using forall_fin8_of_all files_all f
  adjFiles f := by simpa using forall_fin8_of_all adjFiles_all f
  ranks r := by simpa using forall_fin8_of_all ranks_all r
  edges := edges_ok
  rookMoves := rookMoves_eq_walk
  bishopMoves := bishopMoves_eq_walk

end Chess
