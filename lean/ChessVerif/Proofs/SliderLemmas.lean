import ChessVerif.Geom
/-
Generic lemmas that lift a finite, kernel-checked fact about one square's slice of the code's slider
tables ("for every subset of the mask the look-up equals ray walking") to every one of the 2^64
occupancies:  locality of ray walking + the look-up's own masking of the occupancy.
-/
namespace Chess

/-! ### enumeration of all subsets of a list of squares -/

def allSubsets : List Sq → BB → (BB → Bool) → Bool
  | [], acc, p => p acc
  | s :: ss, acc, p => allSubsets ss acc p && allSubsets ss (acc ||| BB.ofSq s) p

theorem BB.getLsbD_ofSq (s : Sq) (i : Nat) : (BB.ofSq s).getLsbD i = decide (i = s.val) := by
  unfold BB.ofSq
  rw [BitVec.getLsbD_shiftLeft]
  have hs := s.isLt
  by_cases h : i = s.val
  · subst h; simp [hs]
  · by_cases h2 : i < s.val
    · simp [h2]; omega
    · have : i - s.val ≠ 0 := by omega
      simp [h, h2]
      intro _
      cases hk : i - s.val with
      | zero => omega
      | succ k => simp

theorem allSubsets_spec (p : BB → Bool) :
    ∀ (l : List Sq) (acc : BB), allSubsets l acc p = true →
      ∀ q : BB, (∀ i, q.getLsbD i = true → acc.getLsbD i = true ∨ ∃ s ∈ l, s.val = i) → p (acc ||| q) = true := by
  intro l
  induction l with
  | nil =>
    intro acc h q hq
    have : acc ||| q = acc := by
      apply BitVec.eq_of_getLsbD_eq
      intro i hi
      rw [BitVec.getLsbD_or]
      cases hqi : q.getLsbD i with
      | false => simp
      | true =>
        rcases hq i hqi with h1 | ⟨s, hs, _⟩
        · simp [h1]
        · cases hs
    rw [this]; exact h
  | cons s ss ih =>
    intro acc h q hq
    simp only [allSubsets, Bool.and_eq_true] at h
    cases hqs : q.getLsbD s.val with
    | false =>
      apply ih acc h.1 q
      intro i hi
      rcases hq i hi with h1 | ⟨t, ht, hti⟩
      · exact Or.inl h1
      · rcases List.mem_cons.mp ht with rfl | ht'
        · rw [← hti] at hi; rw [hi] at hqs; cases hqs
        · exact Or.inr ⟨t, ht', hti⟩
    | true =>
      have h2 := ih (acc ||| BB.ofSq s) h.2 q (by
        intro i hi
        rcases hq i hi with h1 | ⟨t, ht, hti⟩
        · left; rw [BitVec.getLsbD_or, h1]; rfl
        · rcases List.mem_cons.mp ht with rfl | ht'
          · left; rw [BitVec.getLsbD_or, BB.getLsbD_ofSq]; simp [hti]
          · exact Or.inr ⟨t, ht', hti⟩)
      have : acc ||| BB.ofSq s ||| q = acc ||| q := by
        apply BitVec.eq_of_getLsbD_eq
        intro i hi
        simp only [BitVec.getLsbD_or, BB.getLsbD_ofSq]
        by_cases hi' : i = s.val
        · subst hi'; simp [hqs]
        · simp [hi']
      rw [this] at h2; exact h2

/-- list of the squares whose bit is set -/
def membersOf (b : BB) : List Sq := allSq.filter fun s => b.getLsbD s.val

theorem mem_membersOf (b : BB) (i : Nat) (h : b.getLsbD i = true) : ∃ s ∈ membersOf b, s.val = i := by
  have hi : i < 64 := BitVec.lt_of_getLsbD h
  refine ⟨⟨i, hi⟩, ?_, rfl⟩
  unfold membersOf
  rw [List.mem_filter]
  exact ⟨List.mem_finRange _, h⟩

/-- every subset of `mask` satisfies `p`, from the enumeration -/
theorem allSubsets_mask (p : BB → Bool) (mask : BB) (h : allSubsets (membersOf mask) 0#64 p = true)
    (q : BB) (hq : q &&& mask = q) : p q = true := by
  have := allSubsets_spec p (membersOf mask) 0#64 h q (by
    intro i hi
    right
    apply mem_membersOf
    have : (q &&& mask).getLsbD i = true := by rw [hq]; exact hi
    rw [BitVec.getLsbD_and] at this
    simp at this
    exact this.2)
  simpa using this

/-! ### locality of ray walking -/

theorem BB.has_eq (b : BB) (s : Sq) : b.has s = b.getLsbD s.val := rfl

theorem walkL_congr (l : List Sq) (o1 o2 : BB) (h : ∀ t ∈ l.dropLast, o1.has t = o2.has t) :
    Geom.walkL l o1 = Geom.walkL l o2 := by
  induction l with
  | nil => rfl
  | cons t ts ih =>
    cases ts with
    | nil => simp [Geom.walkL]
    | cons t' ts' =>
      have ht : o1.has t = o2.has t := h t (by simp [List.dropLast])
      have ih' := ih (by
        intro x hx
        apply h
        simp only [List.dropLast_cons_cons, List.mem_cons] at hx ⊢
        exact Or.inr hx)
      unfold Geom.walkL
      rw [ht, ih']

theorem foldl_or_congr (f g : Dir → BB) (ds : List Dir) (acc : BB) (h : ∀ u ∈ ds, f u = g u) :
    ds.foldl (fun a u => a ||| f u) acc = ds.foldl (fun a u => a ||| g u) acc := by
  induction ds generalizing acc with
  | nil => rfl
  | cons u us ih =>
    simp only [List.foldl_cons]
    rw [h u (by simp)]
    exact ih _ (fun v hv => h v (by simp [hv]))

theorem sliderWalk_congr (ds : List Dir) (s : Sq) (o1 o2 : BB)
    (h : ∀ t ∈ Geom.relevant ds s, o1.has t = o2.has t) :
    Geom.sliderWalk ds s o1 = Geom.sliderWalk ds s o2 := by
  unfold Geom.sliderWalk
  apply foldl_or_congr
  intro u hu
  apply walkL_congr
  intro t ht
  apply h
  unfold Geom.relevant
  rw [List.mem_flatMap]
  exact ⟨u, hu, ht⟩

/-- masking the occupancy with a superset of the relevant squares does not change the walk -/
theorem sliderWalk_mask (ds : List Dir) (s : Sq) (occ mask : BB)
    (hm : ∀ t ∈ Geom.relevant ds s, mask.has t = true) :
    Geom.sliderWalk ds s (occ &&& mask) = Geom.sliderWalk ds s occ := by
  apply sliderWalk_congr
  intro t ht
  simp only [BB.has_eq, BitVec.getLsbD_and]
  have := hm t ht
  rw [BB.has_eq] at this
  simp [this]

/-! ### the per-square obligation and its lift -/

/-- what the kernel checks for one (slider, square) of the magic tables -/
def Raw.sliderOK (r : Raw) (bishop : Bool) (s : Sq) : Bool :=
  let ds := if bishop then bishopDirs else rookDirs
  let mask := word r.magicMasks ((if bishop then 64 else 0) + s.val)
  (Geom.relevant ds s).all (fun t => mask.has t) &&
  allSubsets (membersOf mask) 0#64 (fun q => r.magicLookup bishop s q == Geom.sliderWalk ds s q)

theorem Raw.magicLookup_mask (r : Raw) (bishop : Bool) (s : Sq) (occ : BB) :
    r.magicLookup bishop s occ =
      r.magicLookup bishop s (occ &&& word r.magicMasks ((if bishop then 64 else 0) + s.val)) := by
  unfold Raw.magicLookup
  simp only [BitVec.and_assoc, BitVec.and_self]

theorem Raw.sliderOK_lift (r : Raw) (bishop : Bool) (s : Sq) (h : r.sliderOK bishop s = true) (occ : BB) :
    r.magicLookup bishop s occ = Geom.sliderWalk (if bishop then bishopDirs else rookDirs) s occ := by
  unfold Raw.sliderOK at h
  simp only [Bool.and_eq_true, List.all_eq_true] at h
  obtain ⟨hrel, hsub⟩ := h
  rw [Raw.magicLookup_mask]
  have hq := allSubsets_mask _ _ hsub (occ &&& word r.magicMasks ((if bishop then 64 else 0) + s.val))
    (by simp only [BitVec.and_assoc, BitVec.and_self])
  rw [beq_iff_eq] at hq
  rw [hq]
  exact sliderWalk_mask _ s occ _ hrel

/-! ### BMI2 tables -/

theorem foldl_congr_mem {α β : Type} (f g : β → α → β) (l : List α) (acc : β)
    (h : ∀ a ∈ l, ∀ b, f b a = g b a) : l.foldl f acc = l.foldl g acc := by
  induction l generalizing acc with
  | nil => rfl
  | cons a as ih =>
    simp only [List.foldl_cons]
    rw [h a (by simp)]
    exact ih _ (fun x hx b => h x (by simp [hx]) b)

/-- `pext` reads its first argument only at the set bits of the mask -/
theorem pext_mask (x mask : BB) : pext (x &&& mask) mask = pext x mask := by
  unfold pext
  apply foldl_congr_mem
  intro p hp acc
  have hp1 : mask.getLsbD p.1 = true := by
    have := List.mem_zipIdx_iff_getElem?.mp hp
    have hmem : p.1 ∈ (List.range 64).filter (fun i => mask.getLsbD i) := List.mem_of_getElem? this
    exact (List.mem_filter.mp hmem).2
  simp [BitVec.getLsbD_and, hp1]

/-- what the kernel checks for one (slider, square) of the BMI2 tables -/
def Raw.bmiOK (r : Raw) (bishop : Bool) (s : Sq) : Bool :=
  let ds := if bishop then bishopDirs else rookDirs
  let mask := word (if bishop then r.bmiMasksB else r.bmiMasksR) s.val
  (Geom.relevant ds s).all (fun t => mask.has t) &&
  allSubsets (membersOf mask) 0#64 (fun q => r.bmiLookup bishop s q == Geom.sliderWalk ds s q)

theorem Raw.bmiLookup_mask (r : Raw) (bishop : Bool) (s : Sq) (occ : BB) :
    r.bmiLookup bishop s occ =
      r.bmiLookup bishop s (occ &&& word (if bishop then r.bmiMasksB else r.bmiMasksR) s.val) := by
  unfold Raw.bmiLookup
  simp only [pext_mask]

theorem Raw.bmiOK_lift (r : Raw) (bishop : Bool) (s : Sq) (h : r.bmiOK bishop s = true) (occ : BB) :
    r.bmiLookup bishop s occ = Geom.sliderWalk (if bishop then bishopDirs else rookDirs) s occ := by
  unfold Raw.bmiOK at h
  simp only [Bool.and_eq_true, List.all_eq_true] at h
  obtain ⟨hrel, hsub⟩ := h
  rw [Raw.bmiLookup_mask]
  have hq := allSubsets_mask _ _ hsub (occ &&& word (if bishop then r.bmiMasksB else r.bmiMasksR) s.val)
    (by simp only [BitVec.and_assoc, BitVec.and_self])
  rw [beq_iff_eq] at hq
  rw [hq]
  exact sliderWalk_mask _ s occ _ hrel

end Chess
