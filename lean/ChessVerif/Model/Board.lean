import ChessVerif.Tables
/-
Model of `board.rs` (struct `Board`, `xor`, `piece_on`, `color_on`, `set_ep`, `update_pin_info`,
`make_move_new`, `make_move`, `null_move`, `is_sane`, `get_hash`, `try_from`) and of the helpers of
`square.rs`, `color.rs`, `castle_rights.rs` they call.  One Lean function per Rust function, same
control flow, same table look-ups, same xor toggling.
-/
namespace Chess

/-! ### `square.rs` / `file.rs` / `rank.rs` helpers (wrapping variants are `& 7` as in the code) -/

def Sq.getRank (s : Sq) : Fin 8 := ⟨s.val / 8, by omega⟩
def Sq.getFile (s : Sq) : Fin 8 := ⟨s.val % 8, by omega⟩
/-- `Rank::up`: `from_index(i + 1)`, and `from_index` masks with 7 -/
def rankUp (r : Fin 8) : Fin 8 := ⟨(r.val + 1) % 8, by omega⟩
/-- `Rank::down`: `from_index(i.wrapping_sub(1))` -/
def rankDown (r : Fin 8) : Fin 8 := ⟨(r.val + 7) % 8, by omega⟩
def fileRight (f : Fin 8) : Fin 8 := ⟨(f.val + 1) % 8, by omega⟩
def fileLeft (f : Fin 8) : Fin 8 := ⟨(f.val + 7) % 8, by omega⟩
def Sq.uup (s : Sq) : Sq := mkSq (rankUp s.getRank) s.getFile
def Sq.udown (s : Sq) : Sq := mkSq (rankDown s.getRank) s.getFile
def Sq.uleft (s : Sq) : Sq := mkSq s.getRank (fileLeft s.getFile)
def Sq.uright (s : Sq) : Sq := mkSq s.getRank (fileRight s.getFile)
def Sq.uforward (s : Sq) : Color → Sq | .white => s.uup | .black => s.udown
def Sq.ubackward (s : Sq) : Color → Sq | .white => s.udown | .black => s.uup
def Sq.up (s : Sq) : Option Sq := if s.getRank = 7 then none else some s.uup
def Sq.down (s : Sq) : Option Sq := if s.getRank = 0 then none else some s.udown
def Sq.left (s : Sq) : Option Sq := if s.getFile = 0 then none else some s.uleft
def Sq.right (s : Sq) : Option Sq := if s.getFile = 7 then none else some s.uright
def Sq.forward (s : Sq) : Color → Option Sq | .white => s.up | .black => s.down
def Sq.backward (s : Sq) : Color → Option Sq | .white => s.down | .black => s.up

def Color.backrank : Color → Fin 8 | .white => 0 | .black => 7
def Color.theirBackrank : Color → Fin 8 | .white => 7 | .black => 0
def Color.secondRank : Color → Fin 8 | .white => 1 | .black => 6
def Color.fourthRank : Color → Fin 8 | .white => 3 | .black => 4
def Color.seventhRank : Color → Fin 8 | .white => 6 | .black => 1

/-- `BitBoard::set(rank, file)` -/
def BB.set (r f : Fin 8) : BB := BB.ofSq (mkSq r f)

/-- `CASTLES_PER_SQUARE` (a hand-written constant of `castle_rights.rs`, tied by T2) and
`square_to_castle_rights`. -/
def squareToCastleRights (c : Color) (s : Sq) : CastleRights :=
  let r := c.backrank
  if s = mkSq r 0 then ⟨false, true⟩
  else if s = mkSq r 4 then ⟨true, true⟩
  else if s = mkSq r 7 then ⟨true, false⟩
  else ⟨false, false⟩

/-- `CastleRights::unmoved_rooks` -/
def CastleRights.unmovedRooks (cr : CastleRights) (c : Color) : BB :=
  match cr.ks, cr.qs with
  | false, false => 0#64
  | true, false => BB.set c.backrank 7
  | false, true => BB.set c.backrank 0
  | true, true => BB.set c.backrank 0 ^^^ BB.set c.backrank 7

/-! ### `Board` -/

structure Board where
  pawns : BB
  knights : BB
  bishops : BB
  rooks : BB
  queens : BB
  kings : BB
  white : BB
  black : BB
  combined : BB
  stm : Color
  wcr : CastleRights
  bcr : CastleRights
  pinned : BB
  checkers : BB
  hash : BB
  ep : Option Sq
deriving DecidableEq, Repr, Inhabited

namespace Board

/-- `Board::new()` -/
def blank : Board :=
  { pawns := 0, knights := 0, bishops := 0, rooks := 0, queens := 0, kings := 0, white := 0, black := 0,
    combined := 0, stm := .white, wcr := .noRights, bcr := .noRights, pinned := 0, checkers := 0,
    hash := 0, ep := none }

def pieces (b : Board) : Piece → BB
  | .pawn => b.pawns | .knight => b.knights | .bishop => b.bishops
  | .rook => b.rooks | .queen => b.queens | .king => b.kings

def colorCombined (b : Board) : Color → BB | .white => b.white | .black => b.black
def castleRights (b : Board) : Color → CastleRights | .white => b.wcr | .black => b.bcr
def setCastleRights (b : Board) (c : Color) (cr : CastleRights) : Board :=
  match c with | .white => { b with wcr := cr } | .black => { b with bcr := cr }
def myCastleRights (b : Board) : CastleRights := b.castleRights b.stm
def theirCastleRights (b : Board) : CastleRights := b.castleRights b.stm.other

def xorPieces (b : Board) (p : Piece) (bb : BB) : Board :=
  match p with
  | .pawn => { b with pawns := b.pawns ^^^ bb } | .knight => { b with knights := b.knights ^^^ bb }
  | .bishop => { b with bishops := b.bishops ^^^ bb } | .rook => { b with rooks := b.rooks ^^^ bb }
  | .queen => { b with queens := b.queens ^^^ bb } | .king => { b with kings := b.kings ^^^ bb }

def xorColor (b : Board) (c : Color) (bb : BB) : Board :=
  match c with | .white => { b with white := b.white ^^^ bb } | .black => { b with black := b.black ^^^ bb }

/-- `Board::xor`: toggles the piece board, the colour board, `combined` and the placement key of
`bb.to_square()` together. -/
def xor (T : Tables) (b : Board) (p : Piece) (bb : BB) (c : Color) : Board :=
  let b := (b.xorPieces p bb).xorColor c bb
  { b with combined := b.combined ^^^ bb, hash := b.hash ^^^ T.zPiece c p bb.toSq }

def kingSquare (b : Board) (c : Color) : Sq := (b.kings &&& b.colorCombined c).toSq

/-- `Board::piece_on` (the xor-shortcut version that exists in the code) -/
def pieceOn (b : Board) (s : Sq) : Option Piece :=
  let opp := BB.ofSq s
  if b.combined &&& opp = 0#64 then none
  else if (b.pawns ^^^ b.knights ^^^ b.bishops) &&& opp ≠ 0#64 then
    if b.pawns &&& opp ≠ 0#64 then some .pawn
    else if b.knights &&& opp ≠ 0#64 then some .knight
    else some .bishop
  else
    if b.rooks &&& opp ≠ 0#64 then some .rook
    else if b.queens &&& opp ≠ 0#64 then some .queen
    else some .king

def colorOn (b : Board) (s : Sq) : Option Color :=
  if b.white &&& BB.ofSq s ≠ 0#64 then some .white
  else if b.black &&& BB.ofSq s ≠ 0#64 then some .black
  else none

/-- `get_pawn_attacks(sq, color, blockers)` -/
def pawnAttacks (T : Tables) (s : Sq) (c : Color) (blockers : BB) : BB := T.pawnAttacks c s &&& blockers
/-- `get_pawn_quiets` -/
def pawnQuiets (T : Tables) (s : Sq) (c : Color) (blockers : BB) : BB :=
  if BB.ofSq (s.uforward c) &&& blockers ≠ 0#64 then 0#64 else T.pawnMoves c s &&& ~~~blockers
/-- `get_pawn_moves` -/
def pawnMoves (T : Tables) (s : Sq) (c : Color) (blockers : BB) : BB :=
  pawnAttacks T s c blockers ^^^ pawnQuiets T s c blockers

/-- `Board::set_ep`: record only if an enemy (= not side-to-move … note the caller's side_to_move
convention) pawn stands beside `sq`. -/
def setEp (T : Tables) (b : Board) (s : Sq) : Board :=
  if T.adjFiles s.getFile &&& T.ranks s.getRank &&& b.pawns &&& b.colorCombined b.stm.other ≠ 0#64
  then { b with ep := some s } else b

/-- the slider loop shared by `update_pin_info` and the tail of `make_move`:
`for sq in attackers { let between = between(sq, ksq) & combined; … }` -/
def sliderScan (T : Tables) (combined : BB) (ksq : Sq) : List Sq → BB × BB → BB × BB
  | [], acc => acc
  | s :: rest, (pinned, checkers) =>
    let btw := T.between s ksq &&& combined
    if btw = 0#64 then sliderScan T combined ksq rest (pinned, checkers ^^^ BB.ofSq s)
    else if btw.popcnt = 1 then sliderScan T combined ksq rest (pinned ^^^ btw, checkers)
    else sliderScan T combined ksq rest (pinned, checkers)

/-- `Board::update_pin_info` -/
def updatePinInfo (T : Tables) (b : Board) : Board :=
  let ksq := (b.kings &&& b.colorCombined b.stm).toSq
  let pinners := b.colorCombined b.stm.other &&&
    ((T.bishopRays ksq &&& (b.bishops ||| b.queens)) ||| (T.rookRays ksq &&& (b.rooks ||| b.queens)))
  let (pinned, checkers) := sliderScan T b.combined ksq pinners.toList (0#64, 0#64)
  let checkers := checkers ^^^ (T.knight ksq &&& b.colorCombined b.stm.other &&& b.knights)
  let checkers := checkers ^^^ pawnAttacks T ksq b.stm (b.colorCombined b.stm.other &&& b.pawns)
  { b with pinned := pinned, checkers := checkers }

/-- `Board::null_move` -/
def nullMove (T : Tables) (b : Board) : Option Board :=
  if b.checkers ≠ 0#64 then none
  else some (updatePinInfo T { b with stm := b.stm.other, ep := none })

/-- `Board::get_hash` -/
def getHash (T : Tables) (b : Board) : BB :=
  b.hash
  ^^^ (match b.ep with | some ep => T.zEp b.stm.other ep.getFile | none => 0#64)
  ^^^ T.zCastle b.stm (b.castleRights b.stm)
  ^^^ T.zCastle b.stm.other (b.castleRights b.stm.other)
  ^^^ (if b.stm = .black then T.zSide else 0#64)

/-- `CASTLE_ROOK_START` / `CASTLE_ROOK_END` indexed by the destination file -/
def castleRookStart (f : Fin 8) : Fin 8 := if f.val < 4 then 0 else 7
def castleRookEnd (f : Fin 8) : Fin 8 := if f.val < 4 then 3 else 5

/-- `Board::make_move_new`.  `none` models the `unwrap()` panic on an empty source square. -/
def makeMoveNew (T : Tables) (b : Board) (m : Move) : Option Board :=
  let result := { b with ep := none, checkers := 0#64, pinned := 0#64 }
  let source := m.src
  let dest := m.dst
  let sourceBB := BB.ofSq source
  let destBB := BB.ofSq dest
  let moveBB := sourceBB ^^^ destBB
  match b.pieceOn source with
  | none => none
  | some moved =>
    let result := result.xor T moved sourceBB b.stm
    let result := result.xor T moved destBB b.stm
    let result := match b.pieceOn dest with
      | some captured => result.xor T captured destBB b.stm.other
      | none => result
    -- remove_their_castle_rights(square_to_castle_rights(!stm, dest)) ; note result.stm = b.stm here
    let result := result.setCastleRights b.stm.other
      ((result.castleRights b.stm.other).remove (squareToCastleRights b.stm.other dest))
    let result := result.setCastleRights b.stm
      ((result.castleRights b.stm).remove (squareToCastleRights b.stm source))
    let oppKing := result.kings &&& result.colorCombined result.stm.other
    let castles := moved == .king && (moveBB &&& T.castleMoves) == moveBB
    let ksq := oppKing.toSq
    let result :=
      if moved = .knight then
        { result with checkers := result.checkers ^^^ (T.knight ksq &&& destBB) }
      else if moved = .pawn then
        match m.promo with
        | some .knight =>
          let r := (result.xor T .pawn destBB b.stm).xor T .knight destBB b.stm
          { r with checkers := r.checkers ^^^ (T.knight ksq &&& destBB) }
        | some promotion =>
          (result.xor T .pawn destBB b.stm).xor T promotion destBB b.stm
        | none =>
          if sourceBB &&& T.pawnSrcDouble ≠ 0#64 ∧ destBB &&& T.pawnDstDouble ≠ 0#64 then
            let r := result.setEp T dest
            { r with checkers := r.checkers ^^^ pawnAttacks T ksq r.stm.other destBB }
          else if some (dest.ubackward b.stm) = b.ep then
            let r := result.xor T .pawn (BB.ofSq (dest.ubackward b.stm)) b.stm.other
            { r with checkers := r.checkers ^^^ pawnAttacks T ksq r.stm.other destBB }
          else
            { result with checkers := result.checkers ^^^ pawnAttacks T ksq result.stm.other destBB }
      else if castles then
        let backrank := b.stm.backrank
        let start := BB.set backrank (castleRookStart dest.getFile)
        let end_ := BB.set backrank (castleRookEnd dest.getFile)
        (result.xor T .rook start b.stm).xor T .rook end_ b.stm
      else result
    let attackers := result.colorCombined result.stm &&&
      ((T.bishopRays ksq &&& (result.bishops ||| result.queens)) |||
       (T.rookRays ksq &&& (result.rooks ||| result.queens)))
    let (pinned, checkers) := sliderScan T result.combined ksq attackers.toList (result.pinned, result.checkers)
    some { result with pinned := pinned, checkers := checkers, stm := result.stm.other }

/-- `Board::make_move(&self, m, result: &mut Board)`: the first statement is `*result = *self`, after
which the body is textually the one of `make_move_new`; the prior content `prior` is dead. -/
def makeMove (T : Tables) (b : Board) (m : Move) (_prior : Board) : Option Board :=
  makeMoveNew T b m

/-- `Board::is_sane` -/
def isSane (T : Tables) (b : Board) : Bool :=
  -- no square with two piece kinds
  (allPieces.all fun x => allPieces.all fun y => x = y || (b.pieces x &&& b.pieces y) == 0#64) &&
  (b.white &&& b.black) == 0#64 &&
  (allPieces.foldl (fun cur p => cur ||| b.pieces p) 0#64) == b.combined &&
  (b.kings &&& b.white).popcnt == 1 &&
  (b.kings &&& b.black).popcnt == 1 &&
  !(decide (b.white.popcnt > 16) || decide (b.black.popcnt > 16)) &&
  (match b.ep with
   | none => true
   | some x => (b.pawns &&& b.colorCombined b.stm.other &&& BB.ofSq x) != 0#64) &&
  (updatePinInfo T { b with stm := b.stm.other }).checkers == 0#64 &&
  (allColors.all fun c =>
    let cr := b.castleRights c
    (cr.unmovedRooks c &&& b.rooks &&& b.colorCombined c) == cr.unmovedRooks c &&
    (cr == .noRights || (b.kings &&& b.colorCombined c) == (T.files 4 &&& T.ranks c.backrank))) &&
  (T.king (b.kingSquare .white) &&& b.kings) == 0#64

end Board

/-! ### `BoardBuilder` and `TryFrom<&BoardBuilder> for Board` -/

structure Builder where
  pieces : Sq → Option (Piece × Color)
  stm : Color
  wcr : CastleRights
  bcr : CastleRights
  epFile : Option (Fin 8)

namespace Builder
def castleRights (bb : Builder) : Color → CastleRights | .white => bb.wcr | .black => bb.bcr
/-- `BoardBuilder::get_en_passant`: the square of the *pawn*: `(!stm).to_fourth_rank()` and the file -/
def getEnPassant (bb : Builder) : Option Sq := bb.epFile.map fun f => mkSq bb.stm.other.fourthRank f
end Builder

/-- `Board::try_from(&BoardBuilder)`; `none` = `Err(InvalidBoard)`. -/
def Board.tryFrom (T : Tables) (bb : Builder) : Option Board :=
  let b := allSq.foldl (fun b s => match bb.pieces s with
    | some (p, c) => b.xor T p (BB.ofSq s) c
    | none => b) Board.blank
  let b := { b with stm := bb.stm }
  let b := match bb.getEnPassant with
    | some ep =>
      let b1 := { b with stm := b.stm.other }
      let b2 := b1.setEp T ep
      { b2 with stm := b2.stm.other }
    | none => b
  let b := b.setCastleRights .white ((b.castleRights .white).add bb.wcr)
  let b := b.setCastleRights .black ((b.castleRights .black).add bb.bcr)
  let b := b.updatePinInfo T
  if b.isSane T then some b else none

/-- `From<&Board> for BoardBuilder` -/
def Board.toBuilder (b : Board) : Builder where
  pieces s := match b.pieceOn s, b.colorOn s with
    | some p, some c => some (p, c)
    | _, _ => none      -- `color_on(sq).unwrap()` cannot fail when `piece_on` is `Some` on a board whose colour boards cover `combined`
  stm := b.stm
  wcr := b.wcr
  bcr := b.bcr
  epFile := b.ep.map Sq.getFile

end Chess
