import ChessVerif.Basic
/-
Model of `cache_table.rs`, generic in the entry type.  `table : List (hash × entry)` of length
`size`; the slot of `hash` is `(hash as usize) & mask` with `mask = size - 1` (64-bit `usize`).
-/
namespace Chess

/-- `usize::count_ones` by its meaning -/
def popcountNat : Nat → Nat
  | 0 => 0
  | n+1 => (n+1) % 2 + popcountNat ((n+1) / 2)

structure Cache (α : Type) where
  table : List (BB × α)
  mask : Nat

namespace Cache
variable {α : Type}

/-- `CacheTable::new`; `none` = the `panic!` for a size that is not a power of two -/
def new (size : Nat) (default : α) : Option (Cache α) :=
  if popcountNat size ≠ 1 then none
  else some ⟨List.replicate size (0#64, default), size - 1⟩

def slot (c : Cache α) (hash : BB) : Nat := hash.toNat &&& c.mask

/-- `get`; the outer `none` = the unchecked index is out of the table (undefined behaviour) -/
def get (c : Cache α) (hash : BB) : Option (Option α) :=
  match c.table[c.slot hash]? with
  | none => none
  | some (h, e) => some (if h = hash then some e else none)

/-- `add`; `none` = out-of-table write -/
def add (c : Cache α) (hash : BB) (entry : α) : Option (Cache α) :=
  if c.slot hash < c.table.length then some { c with table := c.table.set (c.slot hash) (hash, entry) } else none

/-- `replace_if` -/
def replaceIf (c : Cache α) (hash : BB) (entry : α) (replace : α → Bool) : Option (Cache α) :=
  match c.table[c.slot hash]? with
  | none => none
  | some (_, e) =>
    if replace e then some { c with table := c.table.set (c.slot hash) (hash, entry) } else some c

end Cache
end Chess
