import ChessVerif.Model.MoveGen
/-
Model of `game.rs`: `Game { start_pos, moves }`, `result`, `current_position`, `side_to_move`,
`make_move`, `offer_draw`, `accept_draw`, `resign`, `can_declare_draw`, `declare_draw`.
-/
namespace Chess

inductive Action where
  | makeMove (m : Move)
  | offerDraw (c : Color)
  | acceptDraw
  | declareDraw
  | resign (c : Color)
deriving DecidableEq, Repr

inductive GameResult
  | whiteCheckmates | whiteResigns | blackCheckmates | blackResigns | stalemate | drawAccepted | drawDeclared
deriving DecidableEq, Repr

structure Game where
  startPos : Board
  moves : List Action
deriving DecidableEq, Repr

namespace Game

def isMove : Action → Bool | .makeMove _ => true | _ => false

/-- `current_position`: replay the `MakeMove` actions; `none` = a `make_move_new` panicked -/
def currentPosition (T : Tables) (g : Game) : Option Board :=
  g.moves.foldl (fun ob a => match a with
    | .makeMove m => ob.bind fun b => b.makeMoveNew T m
    | _ => ob) (some g.startPos)

/-- `side_to_move`: parity of the number of `MakeMove` actions plus the start colour -/
def sideToMove (g : Game) : Color :=
  let n := (g.moves.filter isMove).length + (if g.startPos.stm = .white then 0 else 1)
  if n % 2 = 0 then .white else .black

/-- `result`; outer `none` = panic -/
def result (T : Tables) (g : Game) : Option (Option GameResult) :=
  match g.currentPosition T with
  | none => none
  | some cur =>
    match cur.status T with
    | .checkmate => some (some (if g.sideToMove = .white then .blackCheckmates else .whiteCheckmates))
    | .stalemate => some (some .stalemate)
    | .ongoing =>
      match g.moves.getLast? with
      | none => some none
      | some .acceptDraw => some (some .drawAccepted)
      | some .declareDraw => some (some .drawDeclared)
      | some (.resign .white) => some (some .whiteResigns)
      | some (.resign .black) => some (some .blackResigns)
      | some _ => some none

/-- state of the loop in `can_declare_draw` -/
structure DrawScan where
  board : Board
  reversible : Nat
  seen : List (BB × List Move)     -- `legal_moves_per_turn`

def drawStep (T : Tables) (st : DrawScan) (m : Move) : Option DrawScan :=
  let wcr := st.board.wcr
  let bcr := st.board.bcr
  let (rev, seen) :=
    if st.board.pieceOn m.src = some .pawn then (0, [])
    else if (st.board.pieceOn m.dst).isSome then (0, [])
    else (st.reversible + 1, st.seen)
  match st.board.makeMoveNew T m with
  | none => none
  | some b' =>
    -- castling rights changed: the repetition list is cleared, the fifty-move count goes on
    let seen := if b'.wcr ≠ wcr ∨ b'.bcr ≠ bcr then [] else seen
    some ⟨b', rev, seen ++ [(b'.getHash T, b'.legalMoves T)]⟩

def drawScan (T : Tables) (g : Game) : Option DrawScan :=
  g.moves.foldl (fun ost a => match a with
    | .makeMove m => ost.bind fun st => drawStep T st m
    | _ => ost)
    (some ⟨g.startPos, 0, [(g.startPos.getHash T, g.startPos.legalMoves T)]⟩)

/-- the pair search `for i in 1..len-1 { for j in 0..i { seen[i] == last && seen[j] == last } }` -/
def threefold (seen : List (BB × List Move)) : Bool :=
  match seen.getLast? with
  | none => false
  | some last =>
    let n := seen.length
    (List.range (n - 1)).any fun i => 1 ≤ i && (List.range i).any fun j =>
      seen[i]? == some last && seen[j]? == some last

/-- `can_declare_draw`; `none` = panic -/
def canDeclareDraw (T : Tables) (g : Game) : Option Bool :=
  match g.result T with
  | none => none
  | some (some _) => some false
  | some none =>
    match g.drawScan T with
    | none => none
    | some st => some (decide (st.reversible ≥ 100) || threefold st.seen)

/-- every mutating operation returns the new game and the `bool` the Rust method returns -/
def declareDraw (T : Tables) (g : Game) : Option (Game × Bool) :=
  (g.canDeclareDraw T).map fun ok => if ok then ({ g with moves := g.moves ++ [.declareDraw] }, true) else (g, false)

def makeMove (T : Tables) (g : Game) (m : Move) : Option (Game × Bool) :=
  match g.result T with
  | none => none
  | some (some _) => some (g, false)
  | some none =>
    match g.currentPosition T with
    | none => none
    | some cur =>
      if cur.legal T m then some ({ g with moves := g.moves ++ [.makeMove m] }, true) else some (g, false)

def offerDraw (T : Tables) (g : Game) (c : Color) : Option (Game × Bool) :=
  (g.result T).map fun r => match r with
    | some _ => (g, false)
    | none => ({ g with moves := g.moves ++ [.offerDraw c] }, true)

def resign (T : Tables) (g : Game) (c : Color) : Option (Game × Bool) :=
  (g.result T).map fun r => match r with
    | some _ => (g, false)
    | none => ({ g with moves := g.moves ++ [.resign c] }, true)

def acceptDraw (T : Tables) (g : Game) : Option (Game × Bool) :=
  (g.result T).map fun r => match r with
    | some _ => (g, false)
    | none =>
      let n := g.moves.length
      if n > 0 ∧ (g.moves[n - 1]? = some (.offerDraw .white) ∨ g.moves[n - 1]? = some (.offerDraw .black)) then
        ({ g with moves := g.moves ++ [.acceptDraw] }, true)
      else if n > 1 ∧ g.moves[n - 2]? = some (.offerDraw g.sideToMove.other) then
        ({ g with moves := g.moves ++ [.acceptDraw] }, true)
      else (g, false)

end Game
end Chess
