import ChessVerif.Model.Board
/-
Model of `movegen/piece_type.rs` (per-piece `legals`, `legal_king_move`, `legal_ep_move`) and
`movegen/movegen.rs` (`enumerate_moves`, the `MoveGen` iterator state machine, `len`,
`set_iterator_mask`, `remove_mask`, `remove_move`, `legal_quick`), plus `Board::status`,
`Board::legal`, `Board::enumerate_moves`.

`MoveList = NoDrop<ArrayVec<SquareAndBitBoard, 18>>`: a `List Entry`; `push_unchecked` beyond 18 is
undefined behaviour in the code, so the capacity obligation is the separate statement
`(enumerate T b).length ≤ 18` (C07).
-/
namespace Chess

structure Entry where
  sq : Sq
  bb : BB
  promo : Bool
deriving DecidableEq, Repr, Inhabited

namespace Gen'
end Gen'

namespace MoveGen

/-- `KingType::legal_king_move` -/
def legalKingMove (T : Tables) (b : Board) (dest : Sq) : Bool :=
  -- `board.combined() ^ (kings & mine) | from_square(dest)`: Rust precedence: `^` binds tighter than `|`
  let combined := (b.combined ^^^ (b.kings &&& b.colorCombined b.stm)) ||| BB.ofSq dest
  let them := b.colorCombined b.stm.other
  let rooks := (b.rooks ||| b.queens) &&& them
  let attackers := T.rookMoves dest combined &&& rooks
  let bishops := (b.bishops ||| b.queens) &&& them
  let attackers := attackers ||| (T.bishopMoves dest combined &&& bishops)
  let attackers := attackers ||| (T.knight dest &&& b.knights &&& them)
  let attackers := attackers ||| (T.king dest &&& b.kings &&& them)
  let attackers := attackers ||| Board.pawnAttacks T dest b.stm (b.pawns &&& them)
  attackers == 0#64

/-- `PawnType::legal_ep_move`; `none` models `board.en_passant().unwrap()` on `None`. -/
def legalEpMove (T : Tables) (b : Board) (source dest : Sq) : Option Bool :=
  match b.ep with
  | none => none
  | some ep =>
    let combined := b.combined ^^^ BB.ofSq ep ^^^ BB.ofSq source ^^^ BB.ofSq dest
    let ksq := (b.kings &&& b.colorCombined b.stm).toSq
    let them := b.colorCombined b.stm.other
    let rooks := (b.rooks ||| b.queens) &&& them
    if (T.rookRays ksq &&& rooks) ≠ 0#64 ∧ (T.rookMoves ksq combined &&& rooks) ≠ 0#64 then some false
    else
      let bishops := (b.bishops ||| b.queens) &&& them
      if (T.bishopRays ksq &&& bishops) ≠ 0#64 ∧ (T.bishopMoves ksq combined &&& bishops) ≠ 0#64 then some false
      else some true

/-- `PieceType::pseudo_legals` of the six piece types -/
def pseudoLegals (T : Tables) (p : Piece) (src : Sq) (c : Color) (combined mask : BB) : BB :=
  match p with
  | .pawn => Board.pawnMoves T src c combined &&& mask
  | .knight => T.knight src &&& mask
  | .bishop => T.bishopMoves src combined &&& mask
  | .rook => T.rookMoves src combined &&& mask
  | .queen => (T.rookMoves src combined ^^^ T.bishopMoves src combined) &&& mask
  | .king => T.king src &&& mask

def pushIf (l : List Entry) (e : Entry) : List Entry := if e.bb ≠ 0#64 then l ++ [e] else l

/-- `check_mask` of the generic `legals`: `between(checkers.to_square(), ksq) ^ checkers` in check -/
def checkMask (T : Tables) (b : Board) (inCheck : Bool) : BB :=
  if inCheck then T.between b.checkers.toSq (b.kingSquare b.stm) ^^^ b.checkers else ~~~0#64

/-- generic `PieceType::legals::<T>` (bishop, rook, queen use it unchanged) -/
def legalsGeneric (T : Tables) (p : Piece) (inCheck : Bool) (l : List Entry) (b : Board) (mask : BB) : List Entry :=
  let color := b.stm
  let ksq := b.kingSquare color
  let pcs := b.pieces p &&& b.colorCombined color
  let cm := checkMask T b inCheck
  let l := (pcs &&& ~~~b.pinned).toList.foldl (fun l src =>
      pushIf l ⟨src, pseudoLegals T p src color b.combined mask &&& cm, false⟩) l
  if !inCheck then
    (pcs &&& b.pinned).toList.foldl (fun l src =>
      pushIf l ⟨src, pseudoLegals T p src color b.combined mask &&& T.line src ksq, false⟩) l
  else l

/-- `PawnType::legals::<T>` -/
def legalsPawn (T : Tables) (inCheck : Bool) (l : List Entry) (b : Board) (mask : BB) : List Entry :=
  let color := b.stm
  let ksq := b.kingSquare color
  let pcs := b.pawns &&& b.colorCombined color
  let cm := checkMask T b inCheck
  let l := (pcs &&& ~~~b.pinned).toList.foldl (fun l src =>
      pushIf l ⟨src, pseudoLegals T .pawn src color b.combined mask &&& cm, src.getRank = color.seventhRank⟩) l
  let l := if !inCheck then
      (pcs &&& b.pinned).toList.foldl (fun l src =>
        pushIf l ⟨src, pseudoLegals T .pawn src color b.combined mask &&& T.line ksq src, src.getRank = color.seventhRank⟩) l
    else l
  match b.ep with
  | none => l
  | some epSq =>
    let rank := T.ranks epSq.getRank
    let files := T.adjFiles epSq.getFile
    (rank &&& files &&& pcs).toList.foldl (fun l src =>
      let dest := epSq.uforward color
      if legalEpMove T b src dest = some true then l ++ [⟨src, BB.ofSq dest, false⟩] else l) l

/-- `KnightType::legals::<T>` (pinned knights never move; in check the check mask joins the mask) -/
def legalsKnight (T : Tables) (inCheck : Bool) (l : List Entry) (b : Board) (mask : BB) : List Entry :=
  let color := b.stm
  let pcs := b.knights &&& b.colorCombined color
  if inCheck then
    let cm := T.between b.checkers.toSq (b.kingSquare color) ^^^ b.checkers
    (pcs &&& ~~~b.pinned).toList.foldl (fun l src =>
      pushIf l ⟨src, pseudoLegals T .knight src color b.combined (mask &&& cm), false⟩) l
  else
    (pcs &&& ~~~b.pinned).toList.foldl (fun l src =>
      pushIf l ⟨src, pseudoLegals T .knight src color b.combined mask, false⟩) l

/-- `KingType::legals::<T>` -/
def legalsKing (T : Tables) (inCheck : Bool) (l : List Entry) (b : Board) (mask : BB) : List Entry :=
  let color := b.stm
  let ksq := b.kingSquare color
  let moves := pseudoLegals T .king ksq color b.combined mask
  let moves := moves.toList.foldl (fun mv dest =>
    if !legalKingMove T b dest then mv ^^^ BB.ofSq dest else mv) moves
  let moves :=
    if !inCheck then
      let moves :=
        if b.myCastleRights.ks && (b.combined &&& T.ksCastle color) == 0#64 then
          let middle := ksq.uright
          let right := middle.uright
          if legalKingMove T b middle && legalKingMove T b right then moves ^^^ BB.ofSq right else moves
        else moves
      if b.myCastleRights.qs && (b.combined &&& T.qsCastle color) == 0#64 then
        let middle := ksq.uleft
        let left := middle.uleft
        if legalKingMove T b middle && legalKingMove T b left then moves ^^^ BB.ofSq left else moves
      else moves
    else moves
  pushIf l ⟨ksq, moves, false⟩

/-- `MoveGen::enumerate_moves` -/
def enumerate (T : Tables) (b : Board) : List Entry :=
  let mask := ~~~(b.colorCombined b.stm)
  if b.checkers = 0#64 then
    let l := legalsPawn T false [] b mask
    let l := legalsKnight T false l b mask
    let l := legalsGeneric T .bishop false l b mask
    let l := legalsGeneric T .rook false l b mask
    let l := legalsGeneric T .queen false l b mask
    legalsKing T false l b mask
  else if b.checkers.popcnt = 1 then
    let l := legalsPawn T true [] b mask
    let l := legalsKnight T true l b mask
    let l := legalsGeneric T .bishop true l b mask
    let l := legalsGeneric T .rook true l b mask
    let l := legalsGeneric T .queen true l b mask
    legalsKing T true l b mask
  else
    legalsKing T true [] b mask

end MoveGen

/-- the iterator state of `struct MoveGen` -/
structure MoveGen where
  moves : List Entry
  promoIdx : Nat
  mask : BB
  index : Nat
deriving DecidableEq, Repr

namespace MoveGen

def newLegal (T : Tables) (b : Board) : MoveGen :=
  { moves := enumerate T b, promoIdx := 0, mask := ~~~0#64, index := 0 }

def setEntryBB (l : List Entry) (i : Nat) (bb : BB) : List Entry :=
  l.modify i (fun e => { e with bb := bb })

/-- the partition loop of `set_iterator_mask`: `i` = first unused slot, `j` scans the rest. -/
def partitionLoop (mask : BB) (l : List Entry) (i : Nat) : List Nat → List Entry × Nat
  | [] => (l, i)
  | j :: js =>
    match l[j]?, l[i]? with
    | some ej, some ei =>
      if ej.bb &&& mask ≠ 0#64 then
        partitionLoop mask ((l.set i ej).set j ei) (i + 1) js
      else partitionLoop mask l i js
    | _, _ => partitionLoop mask l i js

/-- `set_iterator_mask` -/
def setIteratorMask (g : MoveGen) (mask : BB) : MoveGen :=
  let i := (g.moves.takeWhile fun e => e.bb &&& mask ≠ 0#64).length
  let (l, _) := partitionLoop mask g.moves i ((List.range g.moves.length).drop (i + 1))
  { g with mask := mask, index := 0, moves := l }

/-- `remove_mask`: clear the squares in every entry, then re-partition -/
def removeMask (g : MoveGen) (mask : BB) : MoveGen :=
  setIteratorMask { g with moves := g.moves.map fun e => { e with bb := e.bb &&& ~~~mask } } g.mask

/-- `remove_move`: clear the destination in *every* entry of that source; `true` iff one exists;
then re-partition. -/
def removeMove (g : MoveGen) (m : Move) : MoveGen × Bool :=
  let l := g.moves.map fun e => if e.sq = m.src then { e with bb := e.bb &&& ~~~(BB.ofSq m.dst) } else e
  (setIteratorMask { g with moves := l } g.mask, g.moves.any fun e => e.sq = m.src)

/-- the loop of `ExactSizeIterator::len`: stop at the first entry without a move under the mask -/
def lenFrom (mask : BB) : List Entry → Nat
  | [] => 0
  | e :: rest =>
    if e.bb &&& mask = 0#64 then 0
    else (if e.promo then (e.bb &&& mask).popcnt * 4 else (e.bb &&& mask).popcnt) + lenFrom mask rest

/-- `ExactSizeIterator::len`: from entry `index`, minus the promotions already yielded for the
current destination (`saturating_sub`). -/
def len (g : MoveGen) : Nat := lenFrom g.mask (g.moves.drop g.index) - g.promoIdx

/-- `Iterator::next` -/
def next (g : MoveGen) : Option Move × MoveGen :=
  match g.moves[g.index]? with
  | none => (none, g)
  | some e =>
    if e.bb &&& g.mask = 0#64 then (none, g)
    else if e.promo then
      let dest := (e.bb &&& g.mask).toSq
      let result : Move := ⟨e.sq, dest, promotionPieces[g.promoIdx]?⟩   -- index < 4 is an invariant
      let pi := g.promoIdx + 1
      if pi ≥ 4 then
        let bb := e.bb ^^^ BB.ofSq dest
        let g := { g with moves := setEntryBB g.moves g.index bb, promoIdx := 0 }
        (some result, if bb &&& g.mask = 0#64 then { g with index := g.index + 1 } else g)
      else (some result, { g with promoIdx := pi })
    else
      let dest := (e.bb &&& g.mask).toSq
      let bb := e.bb ^^^ BB.ofSq dest
      let g := { g with moves := setEntryBB g.moves g.index bb }
      (some ⟨e.sq, dest, none⟩, if bb &&& g.mask = 0#64 then { g with index := g.index + 1 } else g)

/-- drain by calling `next` until `None` (fuel = an upper bound on remaining moves) -/
def drainFuel : Nat → MoveGen → List Move × MoveGen
  | 0, g => ([], g)
  | n+1, g => match next g with
    | (none, g') => ([], g')
    | (some m, g') => let (ms, g'') := drainFuel n g'; (m :: ms, g'')

/-- at most 18 entries × 64 destinations × 4 promotions -/
def drain (g : MoveGen) : List Move × MoveGen := drainFuel (g.moves.length * 256 + 1) g

/-- `MoveGen::legal_quick`; `none` = panic (`unwrap`). -/
def legalQuick (T : Tables) (b : Board) (m : Move) : Option Bool :=
  match b.pieceOn m.src with
  | none => none
  | some .pawn =>
    if m.src.getFile ≠ m.dst.getFile ∧ (b.pieceOn m.dst).isNone then legalEpMove T b m.src m.dst
    else some true
  | some .king =>
    let bb := T.between m.src m.dst
    if bb.popcnt = 1 then
      if !legalKingMove T b bb.toSq then some false else some (legalKingMove T b m.dst)
    else some (legalKingMove T b m.dst)
  | some _ => some true

end MoveGen

inductive BoardStatus | ongoing | stalemate | checkmate
deriving DecidableEq, Repr

namespace Board

/-- all legal moves in generator order: `MoveGen::new_legal(b)` drained -/
def legalMoves (T : Tables) (b : Board) : List Move := (MoveGen.drain (MoveGen.newLegal T b)).1

/-- `Board::status` (uses `len()` of a fresh generator) -/
def status (T : Tables) (b : Board) : BoardStatus :=
  if (MoveGen.newLegal T b).len = 0 then
    (if b.checkers = 0#64 then .stalemate else .checkmate)
  else .ongoing

/-- `Board::legal`: `MoveGen::new_legal(self).find(|x| *x == m).is_some()` -/
def legal (T : Tables) (b : Board) (m : Move) : Bool := (legalMoves T b).contains m

end Board
end Chess
