import ChessVerif.Model.Board
/-
Model of the text layer: `impl Display/FromStr for Square` (`square.rs`), `for ChessMove`
(`chess_move.rs`), `Piece::to_string`, `CastleRights::to_string`, and `impl Display/FromStr for
BoardBuilder` (`board_builder.rs`, i.e. FEN), `Board::from_str`, `Display for Board`.

A Rust `&str` is a `List Char`; `len()` is the UTF-8 byte length; `str::get(a..b)` is `none` when
`a`/`b` is out of range or not on a char boundary (so the totality theorems are about the real
slicing behaviour); `v[i]` on a `Vec<char>` is a checked index (`panic` when out of range).
-/
namespace Chess

inductive Res (α : Type) where
  | ok (a : α)
  | err
  | panic
deriving DecidableEq, Repr

namespace Str

def len (s : List Char) : Nat := (s.map Char.utf8Size).sum

/-- drop exactly `n` bytes; `none` if `n` is past the end or inside a character -/
def dropBytes : List Char → Nat → Option (List Char)
  | s, 0 => some s
  | [], _+1 => none
  | c :: cs, n+1 => if c.utf8Size ≤ n+1 then dropBytes cs (n + 1 - c.utf8Size) else none
termination_by s _ => s.length

/-- take exactly `n` bytes; `none` if `n` is past the end or inside a character -/
def takeBytes : List Char → Nat → Option (List Char)
  | _, 0 => some []
  | [], _+1 => none
  | c :: cs, n+1 => if c.utf8Size ≤ n+1 then (takeBytes cs (n + 1 - c.utf8Size)).map (c :: ·) else none
termination_by s _ => s.length

/-- `s.get(a..b)` -/
def get (s : List Char) (a b : Nat) : Option (List Char) :=
  if a ≤ b then (dropBytes s a).bind fun r => takeBytes r (b - a) else none

/-- `s.get(a..)` -/
def getFrom (s : List Char) (a : Nat) : Option (List Char) := dropBytes s a

/-- `s.split(' ')` -/
def splitSpace (s : List Char) : List (List Char) :=
  let rec go : List Char → List Char → List (List Char)
    | [], cur => [cur.reverse]
    | c :: cs, cur => if c = ' ' then cur.reverse :: go cs [] else go cs (c :: cur)
  go s []

/-- `hay.contains(needle)` for a one-character needle -/
def containsChar (s : List Char) (c : Char) : Bool := s.contains c

end Str

/-! ### squares and moves (UCI) -/

def fileChar (f : Fin 8) : Char := Char.ofNat ('a'.toNat + f.val)
def rankChar (r : Fin 8) : Char := Char.ofNat ('1'.toNat + r.val)

/-- `Display for Square` -/
def showSquare (s : Sq) : List Char := [fileChar s.getFile, rankChar s.getRank]

def charFile? (c : Char) : Option (Fin 8) :=
  if h : 'a'.toNat ≤ c.toNat ∧ c.toNat ≤ 'h'.toNat then some ⟨c.toNat - 'a'.toNat, by
    have : 'a'.toNat = 97 := rfl
    have : 'h'.toNat = 104 := rfl
    omega⟩ else none
def charRank? (c : Char) : Option (Fin 8) :=
  if h : '1'.toNat ≤ c.toNat ∧ c.toNat ≤ '8'.toNat then some ⟨c.toNat - '1'.toNat, by
    have : '1'.toNat = 49 := rfl
    have : '8'.toNat = 56 := rfl
    omega⟩ else none

/-- `Square::from_str` -/
def parseSquare (s : List Char) : Res Sq :=
  if Str.len s < 2 then .err else
  match s with
  | [] => .panic                         -- `ch[0]`
  | c0 :: rest =>
    match charFile? c0 with
    | none => .err
    | some f =>
      match rest with
      | [] => .panic                     -- `ch[1]`
      | c1 :: _ =>
        match charRank? c1 with
        | none => .err
        | some r => .ok (mkSq r f)

/-- `Display for Piece` -/
def pieceChar : Piece → Char
  | .pawn => 'p' | .knight => 'n' | .bishop => 'b' | .rook => 'r' | .queen => 'q' | .king => 'k'

/-- `Display for ChessMove` -/
def showMove (m : Move) : List Char :=
  showSquare m.src ++ showSquare m.dst ++ (match m.promo with | none => [] | some p => [pieceChar p])

/-- `ChessMove::from_str` -/
def parseMove (s : List Char) : Res Move :=
  match Str.get s 0 2 with
  | none => .err
  | some a =>
    match parseSquare a with
    | .err => .err
    | .panic => .panic
    | .ok src =>
      match Str.get s 2 4 with
      | none => .err
      | some b =>
        match parseSquare b with
        | .err => .err
        | .panic => .panic
        | .ok dst =>
          if Str.len s = 5 then
            match s.getLast? with
            | none => .err
            | some 'q' => .ok ⟨src, dst, some .queen⟩
            | some 'r' => .ok ⟨src, dst, some .rook⟩
            | some 'n' => .ok ⟨src, dst, some .knight⟩
            | some 'b' => .ok ⟨src, dst, some .bishop⟩
            | some _ => .err
          else .ok ⟨src, dst, none⟩

/-! ### FEN -/

/-- `Piece::to_string(color)`: lower-case letter, upper-cased for White -/
def pieceLetter (p : Piece) (c : Color) : Char :=
  match c with | .white => (pieceChar p).toUpper | .black => pieceChar p

/-- `CastleRights::to_string(color)` -/
def castleString (cr : CastleRights) (c : Color) : List Char :=
  let s : List Char := match cr.ks, cr.qs with
    | false, false => [] | true, false => ['k'] | false, true => ['q'] | true, true => ['k', 'q']
  match c with | .white => s.map Char.toUpper | .black => s

def digitChar (n : Nat) : List Char := (toString n).toList

/-- one rank of the placement field: the `for file in ALL_FILES` loop with its run-length counter -/
def showRank (pieces : Sq → Option (Piece × Color)) (r : Fin 8) : List Char :=
  let rec go (files : List (Fin 8)) (count : Nat) : List Char :=
    match files with
    | [] => if count ≠ 0 then digitChar count else []
    | f :: fs =>
      match pieces (mkSq r f) with
      | some (p, c) => (if count ≠ 0 then digitChar count else []) ++ [pieceLetter p c] ++ go fs 0
      | none => go fs (count + 1)
  go (List.finRange 8) 0

/-- `Display for BoardBuilder`.  `epShown` is the square the code prints in the en-passant field. -/
def showBuilderWith (bb : Builder) (epShown : Option Sq) : List Char :=
  let ranks : List (Fin 8) := [7, 6, 5, 4, 3, 2, 1, 0]
  let placement := (ranks.map fun r => showRank bb.pieces r ++ (if r ≠ 0 then ['/'] else [])).flatten
  placement ++ [' '] ++
  (match bb.stm with | .white => ['w', ' '] | .black => ['b', ' ']) ++
  castleString bb.wcr .white ++ castleString bb.bcr .black ++
  (if bb.wcr == .noRights && bb.bcr == .noRights then ['-'] else []) ++
  [' '] ++
  (match epShown with | some s => showSquare s | none => ['-']) ++
  " 0 1".toList

/-- the square printed in the en-passant field by the code *as it is now*:
`get_en_passant()` (the pawn's square) passed through `ubackward(!side_to_move)` = the square the
pawn passed over (after the D1 repair). -/
def Builder.epShown (bb : Builder) : Option Sq :=
  bb.getEnPassant.map fun s => s.ubackward bb.stm.other

def showBuilder (bb : Builder) : List Char := showBuilderWith bb bb.epShown

/-- `Display for Board` -/
def showBoard (b : Board) : List Char := showBuilder b.toBuilder

structure FenState where
  pieces : Sq → Option (Piece × Color)
  rank : Fin 8
  file : Fin 8

def letterPiece? (c : Char) : Option (Piece × Color) :=
  match c with
  | 'r' => some (.rook, .black) | 'R' => some (.rook, .white)
  | 'n' => some (.knight, .black) | 'N' => some (.knight, .white)
  | 'b' => some (.bishop, .black) | 'B' => some (.bishop, .white)
  | 'p' => some (.pawn, .black) | 'P' => some (.pawn, .white)
  | 'q' => some (.queen, .black) | 'Q' => some (.queen, .white)
  | 'k' => some (.king, .black) | 'K' => some (.king, .white)
  | _ => none

/-- the `for x in pieces.chars()` loop of `BoardBuilder::from_str` -/
def parsePlacement : List Char → FenState → Option FenState
  | [], st => some st
  | x :: xs, st =>
    if x = '/' then parsePlacement xs { st with rank := rankDown st.rank, file := 0 }
    else if '1'.toNat ≤ x.toNat ∧ x.toNat ≤ '8'.toNat then
      parsePlacement xs { st with file := ⟨(st.file.val + (x.toNat - '0'.toNat)) % 8, by omega⟩ }
    else match letterPiece? x with
      | some pc =>
        let s := mkSq st.rank st.file
        parsePlacement xs { st with pieces := fun t => if t = s then some pc else st.pieces t,
                                    file := fileRight st.file }
      | none => none

/-- `BoardBuilder::from_str`; `.err` = `Err(InvalidFen)`. -/
def parseBuilder (value : List Char) : Res Builder :=
  let tokens := Str.splitSpace value
  match tokens with
  | pieces :: side :: castles :: ep :: _ =>
    match parsePlacement pieces ⟨fun _ => none, 7, 0⟩ with
    | none => .err
    | some st =>
      let stm? : Option Color :=
        if side = ['w'] ∨ side = ['W'] then some .white
        else if side = ['b'] ∨ side = ['B'] then some .black else none
      match stm? with
      | none => .err
      | some stm =>
        let wcr : CastleRights := ⟨castles.contains 'K', castles.contains 'Q'⟩
        let bcr : CastleRights := ⟨castles.contains 'k', castles.contains 'q'⟩
        match parseSquare ep with
        | .panic => .panic
        | .ok sq => .ok ⟨st.pieces, stm, wcr, bcr, some sq.getFile⟩
        | .err => .ok ⟨st.pieces, stm, wcr, bcr, none⟩
  | _ => .err

/-- `Board::from_str`: `.err` covers both `InvalidFen` and `InvalidBoard` (kept apart in `parseBoardKind`) -/
def parseBoard (T : Tables) (value : List Char) : Res Board :=
  match parseBuilder value with
  | .err => .err
  | .panic => .panic
  | .ok bb => match Board.tryFrom T bb with
    | some b => .ok b
    | none => .err

end Chess
