import ChessVerif.Model.Text
import ChessVerif.Model.MoveGen
/-
Model of `ChessMove::from_san` (`chess_move.rs`), statement by statement, with the byte cursor
`cur_index` and the checked slices `move_text.get(a..b)`.
-/
namespace Chess
namespace San

/-- `move_text.get(i..i+1)`: a one-byte slice is one ASCII character -/
def get1 (s : List Char) (i : Nat) : Option Char :=
  match Str.get s i (i + 1) with
  | some [c] => some c
  | _ => none

def pieceOfLetter? : Char → Option Piece
  | 'N' => some .knight | 'B' => some .bishop | 'Q' => some .queen | 'R' => some .rook | 'K' => some .king
  | _ => none

def promoOfLetter? : Char → Option Piece
  | 'N' => some .knight | 'B' => some .bishop | 'R' => some .rook | 'Q' => some .queen
  | _ => none

/-- everything the scanner extracts before the move loop -/
structure Fields where
  piece : Piece
  srcFile : Option (Fin 8)
  srcRank : Option (Fin 8)
  takes : Bool
  dest : Sq
  promo : Option Piece
  ep : Bool
deriving DecidableEq, Repr

/-- the scanning part of `from_san`; `none` = `Err(InvalidSanMove)` -/
def scan (s : List Char) : Option Fields :=
  let cur := 0
  match get1 s cur with
  | none => none
  | some c0 =>
    let (piece, cur) := match pieceOfLetter? c0 with | some p => (p, cur + 1) | none => (Piece.pawn, cur)
    match get1 s cur with
    | none => none
    | some c1 =>
      let (srcFile, cur) := match charFile? c1 with | some f => (some f, cur + 1) | none => (none, cur)
      match get1 s cur with
      | none => none
      | some c2 =>
        let (srcRank, cur) := match charRank? c2 with | some r => (some r, cur + 1) | none => (none, cur)
        let (takes, cur) := match get1 s cur with | some 'x' => (true, cur + 1) | _ => (false, cur)
        let fromSource : Option (Sq × Option (Fin 8) × Option (Fin 8) × Nat) :=
          match srcRank, srcFile with
          | some r, some f => some (mkSq r f, none, none, cur)
          | _, _ => none
        let destPart : Option (Sq × Option (Fin 8) × Option (Fin 8) × Nat) :=
          match Str.get s cur (cur + 2) with
          | some t =>
            match parseSquare t with
            | .ok q => some (q, srcFile, srcRank, cur + 2)
            | _ => fromSource
          | none => fromSource
        match destPart with
        | none => none
        | some (dest, srcFile, srcRank, cur) =>
          let (promo, cur) := match (get1 s cur).bind promoOfLetter? with
            | some p => (some p, cur + 1) | none => (none, cur)
          let cur := match get1 s cur with | some '+' => cur + 1 | some '#' => cur + 1 | _ => cur
          let ep := match Str.getFrom s cur with | some rest => rest == " e.p.".toList | none => false
          some ⟨piece, srcFile, srcRank, takes, dest, promo, ep⟩

/-- does `m` pass the filters that precede the `found_move.is_some()` test -/
def baseMatch (b : Board) (f : Fields) (m : Move) : Bool :=
  b.pieceOn m.src == some f.piece &&
  (match f.srcRank with | some r => m.src.getRank == r | none => true) &&
  (match f.srcFile with | some fl => m.src.getFile == fl | none => true) &&
  m.dst == f.dest && m.promo == f.promo

/-- the `takes` filters that follow it (`true` = `continue`) -/
def takesSkip (b : Board) (f : Fields) (m : Move) : Bool :=
  (!f.takes && (b.pieceOn m.dst).isSome) ||
  (!f.ep && f.takes &&
    (b.pieceOn m.dst).isNone && !(f.piece == .pawn && m.src.getFile != m.dst.getFile))

/-- the move loop; `none` result = `Err` returned from inside the loop -/
def loop (b : Board) (f : Fields) : List Move → Option Move → Option (Option Move)
  | [], found => some found
  | m :: ms, found =>
    if !baseMatch b f m then loop b f ms found
    else if found.isSome then none
    else if takesSkip b f m then loop b f ms found
    else loop b f ms (some m)

/-- castling text with one optional trailing `+` / `#` removed -/
def castleText (s : List Char) : List Char :=
  match s.getLast? with
  | some '+' => s.dropLast
  | some '#' => s.dropLast
  | _ => s

/-- `ChessMove::from_san` -/
def fromSan (T : Tables) (b : Board) (s : List Char) : Res Move :=
  let ct := castleText s
  if ct = "O-O".toList ∨ ct = "O-O-O".toList then
    let rank := b.stm.backrank
    let m : Move := ⟨mkSq rank 4, mkSq rank (if ct = "O-O".toList then 6 else 2), none⟩
    -- the e-file home square must hold the king (castling text denotes castling only)
    if b.pieceOn m.src == some .king && (b.legalMoves T).contains m then .ok m else .err
  else
    match scan s with
    | none => .err
    | some f =>
      match loop b f (b.legalMoves T) none with
      | some (some m) => .ok m
      | _ => .err

end San
end Chess
