import ChessVerif.Model.Board
/-
The deprecated board mutators of `board.rs` (`set_piece`, `clear_square`, `add/remove_*_castle_rights`)
and the small helpers no property needs (`rook_square_to_castle_rights`, `BitBoard::to_size`).
One Lean function per Rust function, tied by the `EDIT` / `TBL` correspondence.
-/
namespace Chess
namespace Board

/-- the tail shared by `set_piece` and `clear_square`: flip the side, recompute, refuse when the
side that would not be to move is in check, flip back, recompute -/
def editTail (T : Tables) (r : Board) : Option Board :=
  let r1 := updatePinInfo T { r with stm := r.stm.other }
  if r1.checkers ≠ 0#64 then none
  else some (updatePinInfo T { r1 with stm := r1.stm.other })

/-- remove whatever `piece_on` reports on `s` (the colour is read from the white board) -/
def removeAt (T : Tables) (b : Board) (s : Sq) : Board :=
  let sb := BB.ofSq s
  match b.pieceOn s with
  | none => b
  | some x => if b.white &&& sb = sb then b.xor T x sb .white else b.xor T x sb .black

/-- `Board::set_piece` -/
def setPiece (T : Tables) (b : Board) (p : Piece) (c : Color) (s : Sq) : Option Board :=
  editTail T ((removeAt T b s).xor T p (BB.ofSq s) c)

/-- `Board::clear_square` -/
def clearSquare (T : Tables) (b : Board) (s : Sq) : Option Board :=
  editTail T (removeAt T b s)

/-- `Board::add_castle_rights` -/
def addCastleRights (b : Board) (c : Color) (x : CastleRights) : Board :=
  b.setCastleRights c ((b.castleRights c).add x)
/-- `Board::remove_castle_rights` -/
def removeCastleRights (b : Board) (c : Color) (x : CastleRights) : Board :=
  b.setCastleRights c ((b.castleRights c).remove x)

end Board

/-- `CastleRights::rook_square_to_castle_rights` -/
def rookSquareToCastleRights (s : Sq) : CastleRights :=
  if s.getFile.val = 0 then ⟨false, true⟩ else if s.getFile.val = 7 then ⟨true, false⟩ else ⟨false, false⟩

/-- `BitBoard::to_size` -/
def BB.toSize (b : BB) (shift : Nat) : Nat := (b >>> shift).toNat

end Chess
