/-
Basic types shared by Model and Spec.  Core Lean only (no Mathlib) so that the driver links.

Encodings (DESIGN §5.2): squares are `Fin 64` with `file = s % 8`, `rank = s / 8`, exactly
`Square(u8)`; bitboards are `BitVec 64`.
-/
namespace Chess

abbrev BB := BitVec 64
abbrev Sq := Fin 64

inductive Color | white | black
deriving DecidableEq, Repr, Inhabited

inductive Piece | pawn | knight | bishop | rook | queen | king
deriving DecidableEq, Repr, Inhabited

def Color.other : Color → Color | .white => .black | .black => .white
def Color.toIndex : Color → Nat | .white => 0 | .black => 1
def Piece.toIndex : Piece → Nat
  | .pawn => 0 | .knight => 1 | .bishop => 2 | .rook => 3 | .queen => 4 | .king => 5

def allPieces : List Piece := [.pawn, .knight, .bishop, .rook, .queen, .king]
def allColors : List Color := [.white, .black]
/-- `PROMOTION_PIECES` of `piece.rs`, in the code's order. -/
def promotionPieces : List Piece := [.queen, .knight, .rook, .bishop]

@[simp] theorem Color.other_other (c : Color) : c.other.other = c := by cases c <;> rfl
theorem Color.other_ne (c : Color) : c.other ≠ c := by cases c <;> decide

structure Move where
  src : Sq
  dst : Sq
  promo : Option Piece
deriving DecidableEq, Repr, Inhabited

/-- `CastleRights` (`castle_rights.rs`): the Rust enum has discriminants
`NoRights=0, KingSide=1, QueenSide=2, Both=3`, i.e. bit 0 = king side, bit 1 = queen side. -/
structure CastleRights where
  ks : Bool
  qs : Bool
deriving DecidableEq, Repr, Inhabited

namespace CastleRights
def noRights : CastleRights := ⟨false, false⟩
def both : CastleRights := ⟨true, true⟩
def toIndex (c : CastleRights) : Nat := (if c.ks then 1 else 0) + (if c.qs then 2 else 0)
def fromIndex (i : Nat) : CastleRights := ⟨i % 2 == 1, (i / 2) % 2 == 1⟩
/-- `CastleRights::remove`: `from_index(self & !remove)` -/
def remove (a r : CastleRights) : CastleRights := ⟨a.ks && !r.ks, a.qs && !r.qs⟩
/-- `CastleRights::add`: `from_index(self | add)` -/
def add (a r : CastleRights) : CastleRights := ⟨a.ks || r.ks, a.qs || r.qs⟩
def all : List CastleRights := [⟨false,false⟩, ⟨true,false⟩, ⟨false,true⟩, ⟨true,true⟩]
end CastleRights

/-! ### Squares -/

def Sq.fileN (s : Sq) : Nat := s.val % 8
def Sq.rankN (s : Sq) : Nat := s.val / 8
def Sq.file (s : Sq) : Int := (s.val % 8 : Nat)
def Sq.rank (s : Sq) : Int := (s.val / 8 : Nat)

/-- `Square::make_square(rank, file)` = `rank << 3 ^ file` on indices already `< 8`. -/
def mkSq (rank file : Fin 8) : Sq := ⟨rank.val * 8 + file.val, by omega⟩

def sq? (f r : Int) : Option Sq :=
  if h : 0 ≤ f ∧ f < 8 ∧ 0 ≤ r ∧ r < 8 then some ⟨(r * 8 + f).toNat, by omega⟩ else none

def allSq : List Sq := List.finRange 64

/-! ### Bitboards -/

namespace BB
def empty : BB := 0#64
def ofSq (s : Sq) : BB := 1#64 <<< s.val
def has (b : BB) (s : Sq) : Bool := b.getLsbD s.val

/-- `u64::trailing_zeros` (64 for zero), by its documented meaning. -/
def tz (b : BB) : Nat := ((List.range 64).find? (fun i => b.getLsbD i)).getD 64
/-- `u64::count_ones`, by its documented meaning. -/
def popcnt (b : BB) : Nat := ((List.range 64).filter (fun i => b.getLsbD i)).length
/-- `BitBoard::to_square`: `Square::new(trailing_zeros as u8)`, and `Square::new` masks with 63. -/
def toSq (b : BB) : Sq := ⟨tz b % 64, Nat.mod_lt _ (by decide)⟩

/-- `Iterator for BitBoard`: lowest set bit, then xor it away. -/
def next (b : BB) : Option (Sq × BB) :=
  if b = 0#64 then none else
    let s := toSq b
    some (s, b ^^^ ofSq s)

def iterFuel : Nat → BB → List Sq
  | 0, _ => []
  | n+1, b => match next b with
    | none => []
    | some (s, b') => s :: iterFuel n b'

/-- all squares yielded by iterating a bitboard (`for sq in bb`). 64 steps always suffice. -/
def toList (b : BB) : List Sq := iterFuel 64 b

/-- `u64::swap_bytes` by its documented meaning: byte `i` goes to byte `7 - i`. -/
def swapBytes (b : BB) : BB :=
  (List.range 8).foldl (fun acc i => acc ||| (((b >>> (8*i)) &&& 0xFF#64) <<< (8*(7-i)))) 0#64

def ofList (l : List Sq) : BB := l.foldl (fun acc s => acc ||| ofSq s) 0#64
end BB

/-- extraction of the `i`-th 64-bit word from a packed table (T1 encoding of the generated arrays:
entry `i` occupies bits `64*i .. 64*i+63`). -/
def word (packed : Nat) (i : Nat) : BB := BitVec.ofNat 64 (packed >>> (64 * i))

end Chess
