import ChessVerif.Driver.Parse
import ChessVerif.Model.San
import ChessVerif.Model.Game
import ChessVerif.Model.Cache
import ChessVerif.Spec.Fen
import ChessVerif.Spec.Small
import ChessVerif.Spec.Game
import ChessVerif.Geom
import ChessVerif.CodeTables
import ChessVerif.Spec.Plausible
/-
The per-line work of the driver: recompute the implementation's answer with the Model
(findings of kind `M`, "model ≠ implementation") and evaluate the Spec oracle on the
implementation's answer (kind `O`, "implementation violates the specification").
Each finding carries a channel name; `check` maps channels to properties.
-/
namespace Chess.Driver
open Chess


structure Finding where
  kind : Char          -- 'M' model≠impl, 'O' oracle violated by impl, 'E' unparsable line
  chan : String
  detail : String

abbrev Findings := Array Finding

def fM (chan detail : String) : Finding := ⟨'M', chan, detail⟩
def fO (chan detail : String) : Finding := ⟨'O', chan, detail⟩

def expectEq (fs : Findings) (kind : Char) (chan : String) (impl model : String) : Findings :=
  if impl == model then fs else fs.push ⟨kind, chan, s!"impl={impl} expected={model}"⟩

def sameMoveSet (a b : List Move) : Bool := sortMoves a == sortMoves b

/-! ### position-level oracle helpers -/

/-- from-scratch occupancy consistency of a dump -/
def occConsistent (b : Board) : Bool :=
  (allPieces.all fun x => allPieces.all fun y => x == y || (b.pieces x &&& b.pieces y) == 0#64) &&
  (b.white &&& b.black) == 0#64 &&
  (b.white ||| b.black) == b.combined &&
  (allPieces.foldl (fun acc p => acc ||| b.pieces p) 0#64) == b.combined

def specCheckers (p : Pos) : BB := Geom.setOf (checkerSq p)
def specPinnedMine (p : Pos) : BB := Geom.setOf (pinnedSq p)
def mine (b : Board) : BB := b.colorCombined b.stm

def posEq (p q : Pos) : Bool :=
  allSq.all (fun s => p.board s == q.board s) && p.stm == q.stm &&
  allColors.all (fun c => p.castleK c == q.castleK c && p.castleQ c == q.castleQ c) && p.ep == q.ep

def showPos (p : Pos) : String :=
  String.ofList (allSq.map fun s => pcChar (p.board s)) ++ "," ++ showColor p.stm ++ "," ++
  String.ofList ((allColors.flatMap fun c => [p.castleK c, p.castleQ c]).map fun b => if b then '1' else '0') ++ "," ++
  (match p.ep with | none => "-" | some s => toString s.val)

/-- a spec-level statement "this dump is a well-formed board for its position": cached fields are the
from-scratch ones -/
def wfFindings (fs : Findings) (chanPrefix : String) (b : Board) (p : Pos) : Findings := Id.run do
  let mut fs := fs
  if !occConsistent b then fs := fs.push (fO (chanPrefix ++ "occ") "piece/colour/combined boards inconsistent")
  if b.checkers != specCheckers p then
    fs := fs.push (fO (chanPrefix ++ "checkers") s!"impl={showBB b.checkers} expected={showBB (specCheckers p)}")
  if (b.pinned &&& mine b) != specPinnedMine p then
    fs := fs.push (fO (chanPrefix ++ "pinned") s!"impl={showBB (b.pinned &&& mine b)} expected={showBB (specPinnedMine p)}")
  if b.hash != (allSq.foldl (fun h s => match p.board s with
      | some (pc, c) => h ^^^ T.zPiece c pc s | none => h) 0#64) then
    -- representation detail (the field behind `impl Hash`), which no property constrains by itself:
    -- a model≠implementation finding; the observable `get_hash()` is what the oracle judges (`ghash`)
    fs := fs.push (fM (chanPrefix ++ "rawhash") "raw hash field is not the xor of the placement keys (the model's invariant Core)")
  return fs

/-! ### POS -/

def sq64OfBoard (b : Board) : String :=
  String.ofList (allSq.map fun s => match b.pieceOn s, b.colorOn s with
    | some p, some c => pcChar (some (p, c))
    | none, none => '.'
    | _, _ => '?')

def opPOS (args : List String) (res : List String) : Findings := Id.run do
  let mut fs : Findings := #[]
  let some bstr := args.head? | return #[⟨'E', "parse", "POS without board"⟩]
  let some b := board? bstr | return #[⟨'E', "parse", "bad board dump"⟩]
  let p := memo b.abs
  let valid := Valid p
  -- implementation outputs
  let some movesS := field? res "moves" | return #[⟨'E', "parse", "no moves="⟩]
  let some implMoves := moveList? movesS | return #[⟨'E', "parse", "bad move list"⟩]
  let implLen := (field? res "len").getD "?"
  let implHint := (field? res "hint").getD "?"
  let implStatus := (field? res "status").getD "?"
  let implSane := (field? res "sane").getD "?"
  let implFen := (field? res "fen").getD "?"
  let implReparse := (field? res "reparse").getD "?"
  let implGhash := (field? res "ghash").getD "?"
  let implHc := (field? res "hc").getD "?"
  let implWk := (field? res "wk").getD "?"
  let implBk := (field? res "bk").getD "?"
  let implLq := (field? res "lq").getD "?"
  let implEnum := (field? res "enum").getD "?"
  let implPo := (field? res "po").getD "?"
  -- model
  let g := MoveGen.newLegal T b
  let modelMoves := (MoveGen.drain g).1
  if !sameMoveSet implMoves modelMoves then
    fs := fs.push (fM "moves" s!"impl={showMoveList (sortMoves implMoves)} model={showMoveList (sortMoves modelMoves)}")
  else if implMoves != modelMoves then
    fs := fs.push ⟨'I', "moveorder", "same set, different order"⟩
  fs := expectEq fs 'M' "len" implLen (toString g.len)
  fs := expectEq fs 'M' "hint" implHint s!"{g.len}/{g.len}"
  fs := expectEq fs 'M' "status" implStatus (showStatus (b.status T))
  fs := expectEq fs 'M' "sane" implSane (if b.isSane T then "1" else "0")
  fs := expectEq fs 'M' "fen" implFen (showText (showBoard b))
  let modelReparse := match parseBoard T (showBoard b) with
    | .ok b' => showBoardDump b' | .err => "ERR" | .panic => "PANIC"
  fs := expectEq fs 'M' "reparse" implReparse modelReparse
  fs := expectEq fs 'M' "ghash" implGhash (showBB (b.getHash T))
  fs := expectEq fs 'M' "ksq" s!"{implWk},{implBk}" s!"{(b.kingSquare .white).val},{(b.kingSquare .black).val}"
  fs := expectEq fs 'M' "po" implPo (sq64OfBoard b)
  let modelLq := modelMoves.all fun m => MoveGen.legalQuick T b m == some true
  fs := expectEq fs 'M' "lq" implLq (if modelLq then "1" else "0")
  if implEnum != "SKIP" then fs := expectEq fs 'M' "enum" implEnum (toString modelMoves.length)
  -- oracle (only inside the property's quantifier: valid positions)
  if valid then
    let specMoves := legalMoves p
    if !sameMoveSet implMoves specMoves then
      fs := fs.push (fO "moves" s!"impl={showMoveList (sortMoves implMoves)} fide={showMoveList (sortMoves specMoves)}")
    let specStatus := if specMoves.isEmpty then (if inCheck p p.stm then "c" else "s") else "o"
    fs := expectEq fs 'O' "status" implStatus specStatus
    fs := expectEq fs 'O' "len" implLen (toString specMoves.length)
    fs := expectEq fs 'O' "hint" implHint s!"{specMoves.length}/{specMoves.length}"
    if implLq != "1" then fs := fs.push (fO "lq" "legal_quick false on a generated move")
    -- the single-move legality query on every geometrically plausible triple (a superset of the legal moves):
    -- it must accept exactly the legal moves
    match field? res "lgq" with
    | none => pure ()
    | some "SAME" => pure ()      -- accepted exactly the generated moves, which are judged above
    | some "PANIC" => fs := fs.push (fO "legal" "Board::legal panicked on a plausible triple")
    | some l => match moveList? l with
      | none => fs := fs.push ⟨'E', "parse", "bad lgq list"⟩
      | some acc => if !sameMoveSet acc specMoves then
          fs := fs.push (fO "legal" s!"legal() accepts {showMoveList (sortMoves acc)} among the plausible triples, fide={showMoveList (sortMoves specMoves)}")
    if implEnum != "SKIP" ∧ implEnum != toString specMoves.length then
      fs := fs.push (fO "enum" s!"enumerate_moves gave {implEnum}")
    fs := expectEq fs 'O' "sane" implSane "1"
    fs := wfFindings fs "" b p
    -- king squares and per-square queries agree with the boards
    let kq := allColors.map fun c => (kingSq? p c).map (·.val)
    if kq != [implWk.toNat?, implBk.toNat?] then fs := fs.push (fO "ksq" s!"king_square {implWk},{implBk}")
    if implPo != String.ofList (allSq.map fun s => pcChar (p.board s)) then fs := fs.push (fO "po" "piece_on/color_on disagree with the boards")
    -- hash is a function of the position
    fs := expectEq fs 'O' "ghash" implGhash (showBB (p.hashOf T))
    if implHc != "1" then fs := fs.push (fO "hc" "Hash not consistent with ==")
    -- equal (all fields) to the same position parsed from its own FEN
    fs := expectEq fs 'O' "reparse" implReparse bstr
    -- FEN text: well-formed, describes the position, ep field standard
    match text? implFen with
    | none => fs := fs.push (fO "fen" "not text")
    | some txt =>
      match Fen.decode txt with
      | none => fs := fs.push (fO "fen" s!"not a well-formed six-field FEN: {String.ofList txt}")
      | some q => if !posEq (memo q) p then
          fs := fs.push (fO "fen" s!"FEN {String.ofList txt} describes {showPos q}, position is {showPos p}")
  return fs

/-! ### LEGAL -/

def allTriples : List Move :=
  allSq.flatMap fun s => allSq.flatMap fun d =>
    [none, some Piece.queen, some Piece.rook, some Piece.bishop, some Piece.knight].map fun q => ⟨s, d, q⟩

def opLEGAL (args res : List String) : Findings := Id.run do
  let mut fs : Findings := #[]
  let some b := args.head?.bind board? | return #[⟨'E', "parse", "bad board"⟩]
  let some impl := res.head?.bind moveList? | return #[⟨'E', "parse", "bad list"⟩]
  let p := memo b.abs
  let lm := b.legalMoves T
  let model := allTriples.filter fun m => lm.contains m
  if !sameMoveSet impl model then
    fs := fs.push (fM "legal" s!"impl={showMoveList (sortMoves impl)} model={showMoveList (sortMoves model)}")
  if Valid p then
    let spec := allTriples.filter (legal p)
    if !sameMoveSet impl spec then
      fs := fs.push (fO "legal" s!"impl={showMoveList (sortMoves impl)} fide={showMoveList (sortMoves spec)}")
  return fs

/-! ### MAKE / NULL -/

def countMen (p : Pos) (c : Color) : Nat := count p (·.2 == c)
def countPawns (p : Pos) (c : Color) : Nat := count p (· == (.pawn, c))

-- `epPolicy` (the bounds the properties put on the recorded en-passant state) is `Chess.epPolicy`, `Spec/Plausible.lean`;
-- `C02_policy_within_bounds` proves that the library's own policy `norm` is always inside them.

def opMAKE (args res : List String) : Findings := Id.run do
  let mut fs : Findings := #[]
  let some bstr := args[0]? | return #[⟨'E', "parse", "MAKE args"⟩]
  let some b := board? bstr | return #[⟨'E', "parse", "bad board"⟩]
  let some m := args[1]?.bind move? | return #[⟨'E', "parse", "bad move"⟩]
  let implB := res.headD "?"
  let implSame := (field? res "same").getD "?"
  let implSane := (field? res "sane").getD "?"
  let model := match b.makeMoveNew T m with | some b' => showBoardDump b' | none => "PANIC"
  fs := expectEq fs 'M' "make" implB model
  let p := memo b.abs
  if Valid p && legal p m then
    if implSame != "1" then fs := fs.push (fO "same" "make_move and make_move_new differ, or the source changed")
    match board? implB with
    | none => fs := fs.push (fO "make" s!"result {implB}")
    | some b' =>
      let q := memo (apply p m)
      let expected := memo (norm q)
      let p' := memo b'.abs
      -- placement, side, rights: exactly what the rules give.  The en-passant mark is judged by the bounds the
      -- property states (C02/C06, DESIGN §9), not by the library's present policy: recorded only after a double
      -- push that landed beside an enemy pawn, and always when a legal en-passant capture exists.
      if !posEq { p' with ep := none } { expected with ep := none } then
        fs := fs.push (fO "make" s!"successor is {showPos p'}, rules give {showPos expected}")
      match epPolicy q p'.ep with
      | some why => fs := fs.push (fO "ep" s!"{why}: successor is {showPos p'}, rules give {showPos q}")
      | none => pure ()
      -- the FEN text of the successor (C06): well-formed, describes the successor the rules give, and its en-passant
      -- field is '-' unless the move just made was a double push (then the square passed over, within the policy
      -- bounds) and is present whenever a legal en-passant capture exists
      match (field? res "fen") with
      | none => pure ()
      | some ftxt =>
        match text? ftxt with
        | none => fs := fs.push (fO "mfen" s!"FEN of the successor: {ftxt}")
        | some txt =>
          match Fen.decode txt with
          | none => fs := fs.push (fO "mfen" s!"not a well-formed six-field FEN: {String.ofList txt}")
          | some d =>
            let d := memo d
            if !posEq { d with ep := none } { q with ep := none } then
              fs := fs.push (fO "mfen" s!"FEN {String.ofList txt} describes {showPos d}, the rules give {showPos q}")
            else match epPolicy q d.ep with
              | some why => fs := fs.push (fO "mfen" s!"{why}: FEN {String.ofList txt}, the rules give {showPos q}")
              | none => pure ()
      fs := wfFindings fs "wf." b' p'
      -- the observable hash of the successor is the from-scratch hash of the position the rules give
      match (field? res "gh").bind bb? with
      | some gh => if gh != p'.hashOf T then fs := fs.push (fO "ghash" s!"get_hash() of the successor is {showBB gh}, from-scratch hash of that position is {showBB (p'.hashOf T)}")
      | none => pure ()
      -- closure and monotonicity
      if !Valid p' then fs := fs.push (fO "valid" s!"successor not valid: {showPos p'}")
      if implSane != "1" then fs := fs.push (fO "sane" "is_sane rejects a position reached by legal play")
      for c in allColors do
        if (p'.castleK c && !p.castleK c) || (p'.castleQ c && !p.castleQ c) then fs := fs.push (fO "mono" "castling right came back")
        if countMen p' c > countMen p c then fs := fs.push (fO "mono" "men count grew")
        if countPawns p' c > countPawns p c then fs := fs.push (fO "mono" "pawn count grew")
  else if Valid p then
    -- every MAKE line of the streams applies a move the library itself generated.  When the rules do not allow it
    -- (C01's business), closure (C05) can still be judged on what the library then does: the position reached
    -- by a generated move must again be valid
    match board? implB with
    | none => pure ()
    | some b' =>
      let p' := memo b'.abs
      if !Valid p' then fs := fs.push (fO "valid" s!"a generated move (not legal under the rules) leads to a position that is not valid: {showPos p'}")
      else if implSane != "1" then fs := fs.push (fO "sane" "is_sane rejects a position reached by a generated move")
  return fs

def opNULL (args res : List String) : Findings := Id.run do
  let mut fs : Findings := #[]
  let some b := args.head?.bind board? | return #[⟨'E', "parse", "bad board"⟩]
  let implB := res.headD "?"
  let model := match b.nullMove T with | some b' => showBoardDump b' | none => "NONE"
  fs := expectEq fs 'M' "null" implB model
  let p := memo b.abs
  if Valid p then
    let inChk := inCheck p p.stm
    if inChk then
      if implB != "NONE" then fs := fs.push (fO "null" "null move accepted while in check")
    else
      match board? implB with
      | none => fs := fs.push (fO "null" s!"null move refused/panicked out of check: {implB}")
      | some b' =>
        let expected : Pos := { p with stm := p.stm.other, ep := none }
        let p' := memo b'.abs
        if !posEq p' expected then fs := fs.push (fO "null" s!"result {showPos p'} expected {showPos expected}")
        fs := wfFindings fs "wf." b' p'
        -- hash identical to the from-scratch hash of that position
        match (field? res "gh").bind bb? with
        | some gh => if gh != expected.hashOf T then fs := fs.push (fO "null" s!"get_hash() after the null move is {showBB gh}, from-scratch hash of that position is {showBB (expected.hashOf T)}")
        | none => if b'.getHash T != expected.hashOf T then fs := fs.push (fO "null" "hash differs from the from-scratch hash")
  return fs

end Chess.Driver
