import ChessVerif.Spec.SanExec
import ChessVerif.Driver.Ops
/-
Driver work for the text, iterator, game, cache, table, bitboard and symmetry operations.
-/
namespace Chess.Driver
open Chess

/-! ### acceptance conditions (C07) -/

/-- the four "only if" conditions of C07 on an accepted position -/
def acceptedOk (p : Pos) : Option String :=
  if !(allColors.all fun c => count p (· == (.king, c)) == 1) then some "not exactly one king per side"
  else if inCheck p p.stm.other then some "the side not to move is in check"
  else if !(allColors.all fun c =>
      (!(p.castleK c) || ((homeSq c 4).any (p.has · .king c) && (homeSq c 7).any (p.has · .rook c))) &&
      (!(p.castleQ c) || ((homeSq c 4).any (p.has · .king c) && (homeSq c 0).any (p.has · .rook c)))) then
    some "a castling right is not backed by king and rook on their home squares"
  else match p.ep with
    | none => none
    | some q =>
      let o := p.stm.other
      if p.has q .pawn o && q.rank == o.pawnRank + 2 * o.fwd then none
      else some "recorded en-passant square does not hold an enemy pawn on its double-push rank"

def builderPos (bd : Builder) : Pos :=
  { board := bd.pieces, stm := bd.stm,
    castleK := fun c => (bd.castleRights c).ks, castleQ := fun c => (bd.castleRights c).qs,
    ep := bd.getEnPassant }

/-- shared by FENP and BLD: `src?` is the position the input denotes at spec level, if it denotes one -/
def acceptFindings (res : List String) (modelRes : String) (src? : Option Pos) : Findings := Id.run do
  let mut fs : Findings := #[]
  let kind := res.headD "?"
  let implShort := if kind == "OK" then s!"OK {res.getD 1 "?"}" else kind
  fs := expectEq fs 'M' "accept" implShort modelRes
  if kind == "PANIC" then fs := fs.push (fO "panic" "conversion panicked")
  if kind == "OK" then
    match (res[1]?).bind board? with
    | none => fs := fs.push ⟨'E', "parse", "bad board in result"⟩
    | some b =>
      let p := memo b.abs
      if !occConsistent b then fs := fs.push (fO "accept" "accepted board has inconsistent occupancy")
      match acceptedOk p with
      | some why => fs := fs.push (fO "accept" s!"accepted although {why}")
      | none => pure ()
      if (field? res "safe").getD "?" != "1" then fs := fs.push (fO "safe" "an accepted position panicked in movegen/status/display/make_move")
      -- capacity obligation of the 18-slot move list, on the model
      if (MoveGen.enumerate T b).length > 18 then fs := fs.push (fO "safe" "more than 18 move-list entries (push_unchecked overflow)")
  match src? with
  | some src =>
    let src := memo src
    if Valid src then
      if kind != "OK" then fs := fs.push (fO "complete" s!"a valid position was rejected: {showPos src}")
      else match (res[1]?).bind board? with
        | some b =>
          -- same placement, side and rights; the en-passant mark within the bounds the property states
          let pa := memo b.abs
          if !posEq { pa with ep := none } { src with ep := none } then
            fs := fs.push (fO "complete" s!"accepted as {showPos b.abs}, input denotes {showPos (norm src)}")
          else match epPolicy src pa.ep with
            | some why => fs := fs.push (fO "complete" s!"{why}: accepted as {showPos b.abs}, input denotes {showPos src}")
            | none => pure ()
        | none => pure ()
  | none => pure ()
  return fs

def opFENP (args res : List String) : Findings :=
  match args.head?.bind text? with
  | none => #[⟨'E', "parse", "bad text"⟩]
  | some txt =>
    let modelRes := match parseBuilder txt with
      | .panic => "PANIC"
      | .err => "ERRFEN"
      | .ok bd => match Board.tryFrom T bd with
        | some b => s!"OK {showBoardDump b}"
        | none => "ERRBOARD"
    acceptFindings res modelRes (Fen.decode txt)

def opBLD (args res : List String) : Findings :=
  match args.head?.bind builder? with
  | none => #[⟨'E', "parse", "bad builder"⟩]
  | some bd =>
    let modelRes := match Board.tryFrom T bd with
      | some b => s!"OK {showBoardDump b}"
      | none => "ERRBOARD"
    acceptFindings res modelRes (some (builderPos bd))

def builderEq (a b : Builder) : Bool :=
  allSq.all (fun s => a.pieces s == b.pieces s) && a.stm == b.stm && a.wcr == b.wcr && a.bcr == b.bcr && a.epFile == b.epFile

def opBFEN (args res : List String) : Findings := Id.run do
  let mut fs : Findings := #[]
  let some bdS := args.head? | return #[⟨'E', "parse", "args"⟩]
  let some bd := builder? bdS | return #[⟨'E', "parse", "bad builder"⟩]
  let implTxt := res.headD "?"
  let implRt := (field? res "rt").getD "?"
  let txt := showBuilder bd
  fs := expectEq fs 'M' "bfen" implTxt (showText txt)
  let modelRt := match parseBuilder txt with | .ok b => showBuilderDump b | .err => "ERR" | .panic => "PANIC"
  fs := expectEq fs 'M' "bfen.rt" implRt modelRt
  -- the unvalidated builder renders and re-parses the same way
  fs := expectEq fs 'O' "bfen.rt" implRt bdS
  -- and its text is a well-formed FEN describing it
  match text? implTxt with
  | none => fs := fs.push (fO "bfen" "not text")
  | some t =>
    match Fen.decode t with
    | none => fs := fs.push (fO "bfen" s!"not a well-formed FEN: {String.ofList t}")
    | some q =>
      let want := builderPos bd
      if !posEq (memo q) (memo want) then fs := fs.push (fO "bfen" s!"FEN {String.ofList t} does not describe the builder state")
  return fs

def opBPARSE (args res : List String) : Findings := Id.run do
  let mut fs : Findings := #[]
  let some txt := args.head?.bind text? | return #[⟨'E', "parse", "bad text"⟩]
  let impl := " ".intercalate res
  let model := match parseBuilder txt with | .ok b => s!"OK {showBuilderDump b}" | .err => "ERR" | .panic => "PANIC"
  fs := expectEq fs 'M' "bparse" impl model
  if res.headD "?" == "PANIC" then fs := fs.push (fO "panic" "BoardBuilder::from_str panicked")
  return fs

/-! ### SAN / UCI / squares -/

-- the executable form of `SanSpec.IsSpelling` used below is `SanSpec.sanDenotes` (`Spec/SanExec.lean`);
-- `C12_sanDenotes_iff`, `C12_sanDenotes_eq_singleton_iff` and `C12_isSpelling_unique` (`Props/C12Exec.lean`) prove that it
-- is exactly the specification and that a text is an admissible spelling of at most one legal move.
def opSAN (args res : List String) : Findings := Id.run do
  let mut fs : Findings := #[]
  let some b := args[0]?.bind board? | return #[⟨'E', "parse", "bad board"⟩]
  let some txt := args[1]?.bind text? | return #[⟨'E', "parse", "bad text"⟩]
  let exp := args.getD 2 "?"
  let impl := " ".intercalate res
  let model := match San.fromSan T b txt with | .ok m => s!"OK {showMv m}" | .err => "ERR" | .panic => "PANIC"
  fs := expectEq fs 'M' "san" impl model
  if impl == "PANIC" then fs := fs.push (fO "panic" s!"from_san panicked on {String.ofList txt}")
  let p := memo b.abs
  if Valid p then
    if exp == "!" then
      if impl != "ERR" then fs := fs.push (fO "san" s!"{String.ofList txt} fits no legal move or several, got {impl}")
    else if exp != "?" then
      if impl != s!"OK {exp}" then fs := fs.push (fO "san" s!"{String.ofList txt} denotes {exp}, got {impl}")
    -- completeness judged by the specification itself on every text that comes without an expectation (placement-
    -- derived texts, mutated texts, castling text) — not by the harness's writer, which only knows the moves the
    -- library generates: a text that is an admissible spelling of exactly one legal move denotes that move
    match (if exp == "?" then SanSpec.sanDenotes p txt else []) with
    | [m] => if impl != s!"OK {showMv m}" then
        fs := fs.push (fO "san" s!"{String.ofList txt} is an admissible spelling of the legal move {showMv m} (and of no other), got {impl}")
    | _ => pure ()
    -- castling text (one optional trailing + or #) denotes the castling move, or nothing
    let ct := match txt.getLast? with | some '+' => txt.dropLast | some '#' => txt.dropLast | _ => txt
    if ct == "O-O".toList ∨ ct == "O-O-O".toList then
      let r : Int := p.stm.homeRank
      match Chess.sq? 4 r, Chess.sq? (if ct == "O-O".toList then 6 else 2) r with
      | some e, some t =>
        let cm : Move := ⟨e, t, none⟩
        if legal p cm && isCastle p cm then
          if impl != s!"OK {showMv cm}" then fs := fs.push (fO "san" s!"{String.ofList txt} denotes castling {showMv cm}, got {impl}")
        else if impl != "ERR" then
          fs := fs.push (fO "san" s!"{String.ofList txt}: castling is not legal here, so the text denotes no legal move, got {impl}")
      | _, _ => pure ()
    match res with
    | ["OK", ms] =>
      match move? ms with
      | some m => if !legal p m then fs := fs.push (fO "san" s!"{String.ofList txt} returned the illegal move {ms}")
      | none => fs := fs.push ⟨'E', "parse", "bad move in result"⟩
    | _ => pure ()
  return fs

/-- spec-level rendering of squares and moves (C13) -/
def specSquareText (s : Sq) : List Char := Fen.sqName s
def specMoveText (m : Move) : List Char :=
  specSquareText m.src ++ specSquareText m.dst ++ (match m.promo with
    | none => [] | some .queen => ['q'] | some .rook => ['r'] | some .bishop => ['b'] | some .knight => ['n']
    | some .king => ['k'] | some .pawn => ['p'])

/-- if `txt` is exactly the rendering of a move value, that move -/
def promoOfChar? : Char → Option Piece
  | 'q' => some .queen | 'r' => some .rook | 'b' => some .bishop | 'n' => some .knight | _ => none

def allTriplesOfText (txt : List Char) : List Move :=
  match txt with
  | [a, b, c, d] =>
    match Fen.sqOfName? [a, b], Fen.sqOfName? [c, d] with
    | some s, some t => [⟨s, t, none⟩]
    | _, _ => []
  | [a, b, c, d, e] =>
    match Fen.sqOfName? [a, b], Fen.sqOfName? [c, d], promoOfChar? e with
    | some s, some t, some q => [⟨s, t, some q⟩]
    | _, _, _ => []
  | _ => []

def opUCI (args res : List String) : Findings := Id.run do
  let mut fs : Findings := #[]
  let some txt := args.head?.bind text? | return #[⟨'E', "parse", "bad text"⟩]
  let impl := " ".intercalate res
  let model := match parseMove txt with | .ok m => s!"OK {showMv m}" | .err => "ERR" | .panic => "PANIC"
  fs := expectEq fs 'M' "uci" impl model
  if impl == "PANIC" then fs := fs.push (fO "panic" "ChessMove::from_str panicked")
  match res with
  | ["OK", ms] =>
    -- the rendering of the result is a prefix of the input
    if !(ms.toList.isPrefixOf txt) then fs := fs.push (fO "uci" s!"result {ms} is not a prefix of the input")
  | _ => pure ()
  -- a rendering parses back to the identical move
  for m in (allTriplesOfText txt) do
    if impl != s!"OK {String.ofList (specMoveText m)}" then fs := fs.push (fO "uci" s!"rendering {String.ofList txt} did not parse back")
  return fs

def opSQ (args res : List String) : Findings := Id.run do
  let mut fs : Findings := #[]
  let some txt := args.head?.bind text? | return #[⟨'E', "parse", "bad text"⟩]
  let impl := " ".intercalate res
  let model := match parseSquare txt with | .ok s => s!"OK {s.val}" | .err => "ERR" | .panic => "PANIC"
  fs := expectEq fs 'M' "sq" impl model
  if impl == "PANIC" then fs := fs.push (fO "panic" "Square::from_str panicked")
  match res with
  | ["OK", n] =>
    match Driver.sq? n with
    | some s => if !((specSquareText s).isPrefixOf txt) then fs := fs.push (fO "sq" "result is not a prefix of the input")
    | none => fs := fs.push ⟨'E', "parse", "bad square"⟩
  | _ => pure ()
  match Fen.sqOfName? txt with
  | some s => if impl != s!"OK {s.val}" then fs := fs.push (fO "sq" "rendering did not parse back")
  | none => pure ()
  return fs

def promoOfTok? (s : String) : Option (Option Piece) :=
  match s with
  | "-" => some none | "q" => some (some .queen) | "r" => some (some .rook)
  | "b" => some (some .bishop) | "n" => some (some .knight) | _ => none

def opSHOWM (args res : List String) : Findings := Id.run do
  let mut fs : Findings := #[]
  let some s := args[0]?.bind Driver.sq? | return #[⟨'E', "parse", "src"⟩]
  let some d := args[1]?.bind Driver.sq? | return #[⟨'E', "parse", "dst"⟩]
  let some pr := args[2]?.bind promoOfTok? | return #[⟨'E', "parse", "promo"⟩]
  let m : Move := ⟨s, d, pr⟩
  let impl := res.headD "?"
  fs := expectEq fs 'M' "showm" impl (showText (showMove m))
  fs := expectEq fs 'O' "showm" impl (showText (specMoveText m))
  return fs

def opSHOWSQ (args res : List String) : Findings := Id.run do
  let mut fs : Findings := #[]
  let some s := args[0]?.bind Driver.sq? | return #[⟨'E', "parse", "sq"⟩]
  let impl := res.headD "?"
  fs := expectEq fs 'M' "showsq" impl (showText (showSquare s))
  fs := expectEq fs 'O' "showsq" impl (showText (specSquareText s))
  return fs

/-! ### GEN: move iterator programs (C14) -/

def opGEN (args res : List String) : Findings := Id.run do
  let mut fs : Findings := #[]
  let some b := args[0]?.bind board? | return #[⟨'E', "parse", "bad board"⟩]
  let prog := (args.getD 1 "").splitOn ";"
  let outs := (res.headD "").splitOn ";"
  if prog.length != outs.length then return #[⟨'E', "parse", "program/outputs length differ"⟩]
  let p := memo b.abs
  let valid := Valid p
  -- model state and spec state
  let mut g := MoveGen.newLegal T b
  let mut it : Spec.Iter := ⟨legalMoves p, ~~~0#64⟩
  let mut started := false        -- a move was yielded since the last mask change
  let mut inScope := valid        -- the oracle judges only programs inside the property's scope
  let mut segImpl : List Move := []
  let mut segModel : List Move := []
  let mut orderDiff := false
  let mut i := 0
  for (op, out) in prog.zip outs do
    i := i + 1
    let tag := op.take 1 |>.toString
    let arg := (op.drop 1).toString
    match tag with
    | "K" =>
      let some mask := bb? arg | return fs.push ⟨'E', "parse", s!"mask {arg}"⟩
      if !sameMoveSet segImpl segModel then
        fs := fs.push (fM "gen" s!"before step {i}: moves yielded under the previous mask differ: impl={showMoveList (sortMoves segImpl)} model={showMoveList (sortMoves segModel)}")
      segImpl := []; segModel := []
      g := g.setIteratorMask mask
      if inScope ∧ started ∧ !it.exhausted then inScope := false   -- mask changed before exhaustion: out of scope
      it := it.setMask mask; started := false
    | "N" =>
      let (r, g') := g.next
      g := g'
      let model := match r with | some m => showMv m | none => "-"
      -- the contract is about WHICH moves are yielded under a mask, not their order: the two yield
      -- sequences are compared as multisets when the mask changes / the program ends; here only
      -- "a move vs. nothing"
      if (out == "-") != (model == "-") then fs := fs.push (fM "gen" s!"step {i} next: impl={out} model={model}")
      else if out != model then orderDiff := true
      match r with | some m => segModel := m :: segModel | none => pure ()
      match move? out with | some m => segImpl := m :: segImpl | none => pure ()
      if inScope then
        if out == "-" then
          if !it.exhausted then fs := fs.push (fO "gen" s!"step {i}: next() gave None but {it.len} moves remain under the mask")
        else match move? out with
          | none => fs := fs.push ⟨'E', "parse", s!"move {out}"⟩
          | some m => match it.yield? m with
            | some it' => it := it'; started := true
            | none => fs := fs.push (fO "gen" s!"step {i}: yielded {out}, which is not a remaining legal move under the mask"); inScope := false
    | "L" =>
      let model := toString g.len
      if out != model then fs := fs.push (fM "gen" s!"step {i} len: impl={out} model={model}")
      if inScope ∧ out != toString it.len then fs := fs.push (fO "gen" s!"step {i}: len()={out}, {it.len} moves remain under the mask")
    | "H" =>
      let model := s!"{g.len}/{g.len}"
      if out != model then fs := fs.push (fM "gen" s!"step {i} size_hint: impl={out} model={model}")
      if inScope ∧ out != s!"{it.len}/{it.len}" then fs := fs.push (fO "gen" s!"step {i}: size_hint()={out}, {it.len} remain")
    | "D" =>
      let (ms, g') := g.drain
      g := g'
      let some implMs := moveList? out | return fs.push ⟨'E', "parse", s!"list {out}"⟩
      segModel := ms.reverse ++ segModel
      segImpl := implMs.reverse ++ segImpl
      if implMs != ms then orderDiff := true
      if inScope then
        if !sameMoveSet implMs it.under then
          fs := fs.push (fO "gen" s!"step {i}: drained {out}, remaining under the mask are {showMoveList (sortMoves it.under)}")
          inScope := false
        else
          it := { it with remaining := it.remaining.filter fun m => !it.under.contains m }
          started := true
    | "X" =>
      let some m := move? arg | return fs.push ⟨'E', "parse", s!"move {arg}"⟩
      let (g', f) := g.removeMove m
      g := g'
      if out != (if f then "1" else "0") then fs := fs.push (fM "gen" s!"step {i} remove_move: impl={out}")
      -- removals are in scope beforehand: before any move is yielded under the current mask, or once it is exhausted
      if started ∧ !it.exhausted then inScope := false
      it := it.removeMove m
    | "Y" =>
      let some mask := bb? arg | return fs.push ⟨'E', "parse", s!"mask {arg}"⟩
      g := g.removeMask mask
      if started ∧ !it.exhausted then inScope := false
      it := it.removeMask mask
    | _ => fs := fs.push ⟨'E', "parse", s!"op {op}"⟩
  if !sameMoveSet segImpl segModel then
    fs := fs.push (fM "gen" s!"moves yielded under the last mask differ: impl={showMoveList (sortMoves segImpl)} model={showMoveList (sortMoves segModel)}")
  if orderDiff then fs := fs.push ⟨'I', "moveorder", "same moves, different yield order"⟩
  return fs

/-! ### GAME (C10, C11) -/

def action? (s : String) : Option (Option Action) :=   -- inner none = the query `c`
  if s == "ow" then some (some (.offerDraw .white)) else if s == "ob" then some (some (.offerDraw .black))
  else if s == "a" then some (some .acceptDraw) else if s == "rw" then some (some (.resign .white))
  else if s == "rb" then some (some (.resign .black)) else if s == "d" then some (some .declareDraw)
  else if s == "c" then some none
  else if s.startsWith "m" then (move? (s.drop 1).toString).map fun m => some (.makeMove m)
  else none

def showResult : Option GameResult → String
  | none => "-" | some .whiteCheckmates => "WC" | some .whiteResigns => "WR" | some .blackCheckmates => "BC"
  | some .blackResigns => "BR" | some .stalemate => "SM" | some .drawAccepted => "DA" | some .drawDeclared => "DD"

def opGAME (args res : List String) : Findings := Id.run do
  let mut fs : Findings := #[]
  let some b := args[0]?.bind board? | return #[⟨'E', "parse", "bad board"⟩]
  let acts := (args.getD 1 "").splitOn ";"
  let outs := (res.headD "").splitOn ";"
  if acts.length != outs.length then return #[⟨'E', "parse", "actions/outputs length differ"⟩]
  let p0 := memo b.abs
  let valid := Valid p0
  let mut g : Game := ⟨b, []⟩
  let mut sg : Spec.GameSt := Spec.GameSt.init p0
  let mut specResult : Option GameResult := if valid then sg.result else none
  let mut i := 0
  for (a, out) in acts.zip outs do
    i := i + 1
    let some act := action? a | return fs.push ⟨'E', "parse", s!"action {a}"⟩
    -- model
    let (g', flag?) : Game × Option Bool := match act with
      | none => (g, g.canDeclareDraw T)
      | some (.makeMove m) => match g.makeMove T m with | some (g', f) => (g', some f) | none => (g, none)
      | some (.offerDraw c) => match g.offerDraw T c with | some (g', f) => (g', some f) | none => (g, none)
      | some (.resign c) => match g.resign T c with | some (g', f) => (g', some f) | none => (g, none)
      | some .acceptDraw => match g.acceptDraw T with | some (g', f) => (g', some f) | none => (g, none)
      | some .declareDraw => match g.declareDraw T with | some (g', f) => (g', some f) | none => (g, none)
    g := g'
    let model := match flag?, g.result T, g.currentPosition T with
      | some f, some r, some cur =>
        s!"{if f then 1 else 0},{showResult r},{showColor g.sideToMove},{g.moves.length},{showBB (cur.getHash T)}"
      | _, _, _ => "PANIC"
    if out != model then fs := fs.push (fM "game" s!"action {i} ({a}): impl={out} model={model}")
    -- oracle
    if valid then
      match out.splitOn "," with
      | [acc, r, stm, n, h] =>
        let accepted := acc == "1"
        let before := sg
        let beforeResult := specResult
        match act with
        | none =>
          if accepted != sg.claimable then
            fs := fs.push (fO "draw" s!"action {i}: can_declare_draw={acc}, occurrences={sg.occurrences} clock={sg.clock} result={showResult specResult}")
        | some action =>
          let (sg', specAcc) := sg.step action
          match action with
          | .makeMove _ =>
            if accepted != specAcc then fs := fs.push (fO "game" s!"action {i} ({a}): accepted={acc}, rules say {specAcc}")
            sg := sg'
          | .declareDraw =>
            if accepted != specAcc then fs := fs.push (fO "draw" s!"action {i}: declare_draw={acc}, occurrences={before.occurrences} clock={before.clock}")
            sg := sg'
          | .acceptDraw =>
            if accepted ∧ !specAcc then fs := fs.push (fO "game" s!"action {i}: draw accepted without a standing offer (or after the end)")
            if accepted then sg := { sg with log := sg.log ++ [action] }
          | _ =>
            if accepted ∧ beforeResult.isSome then fs := fs.push (fO "game" s!"action {i} ({a}) accepted after the game ended")
            if accepted then sg := { sg with log := sg.log ++ [action] }
        -- observable state = start position advanced by precisely the accepted actions
        if act.isSome ∧ accepted then specResult := sg.result
        if r != showResult specResult then fs := fs.push (fO "game" s!"action {i} ({a}): result {r}, expected {showResult specResult}")
        if stm != showColor sg.pos.stm then fs := fs.push (fO "game" s!"action {i}: side_to_move {stm}")
        if n != toString sg.log.length then fs := fs.push (fO "game" s!"action {i}: log length {n}, expected {sg.log.length}")
        if h != showBB (sg.pos.hashOf T) then fs := fs.push (fO "game" s!"action {i}: current position differs from the replay of the accepted moves")
        -- a result, once there, never changes
        if beforeResult.isSome ∧ r != showResult beforeResult then fs := fs.push (fO "game" s!"action {i}: result changed after the end")
      | _ => if out == "PANIC" then fs := fs.push (fO "game" s!"action {i} ({a}) panicked") else fs := fs.push ⟨'E', "parse", s!"out {out}"⟩
  return fs

/-! ### CACHE (C19) -/

def pred? (s : String) : Option (Nat → Bool) :=
  if s == "t" then some fun _ => true else if s == "f" then some fun _ => false
  else if s.startsWith "lt" then (s.drop 2).toString.toNat?.map fun k => fun v => decide (v < k)
  else if s.startsWith "eq" then (s.drop 2).toString.toNat?.map fun k => fun v => v == k
  else none

def opCACHE (args res : List String) : Findings := Id.run do
  let mut fs : Findings := #[]
  let some size := args[0]?.bind String.toNat? | return #[⟨'E', "parse", "size"⟩]
  let impl := res.headD "?"
  match Cache.new size (7 : Nat) with
  | none =>
    if impl != "PANIC" then fs := fs.push (fM "cache" s!"size {size}: impl={impl} model=PANIC")
    if Spec.isPow2 size then fs := fs.push (fO "cache" s!"new({size}) must not panic")
    else if impl != "PANIC" then fs := fs.push (fO "cache" s!"new({size}) must panic")
    return fs
  | some c0 =>
    if impl == "PANIC" then
      fs := fs.push (fM "cache" s!"size {size}: impl=PANIC")
      if Spec.isPow2 size then fs := fs.push (fO "cache" s!"new({size}) panicked")
      return fs
    if !Spec.isPow2 size then fs := fs.push (fO "cache" s!"new({size}) must panic")
    let prog := (args.getD 1 "").splitOn ";"
    let outs := impl.splitOn ";"
    if prog.length != outs.length then return #[⟨'E', "parse", "program/outputs length differ"⟩]
    let mut c := c0
    let mut sc : Spec.CacheSpec Nat := Spec.CacheSpec.new size 7
    let mut i := 0
    for (op, out) in prog.zip outs do
      i := i + 1
      let tag := (op.take 1).toString
      let parts := ((op.drop 1).toString).splitOn ","
      match tag, parts with
      | "A", [h, v] =>
        let some h := bb? h | return fs.push ⟨'E', "parse", op⟩
        let some v := v.toNat? | return fs.push ⟨'E', "parse", op⟩
        match c.add h v with
        | some c' => c := c'
        | none => fs := fs.push (fO "cache" s!"step {i}: write outside the table")
        sc := sc.add h v
      | "G", [h] =>
        let some h := bb? h | return fs.push ⟨'E', "parse", op⟩
        let model := match c.get h with | some (some v) => toString v | some none => "none" | none => "OOB"
        if out != model then fs := fs.push (fM "cache" s!"step {i} get: impl={out} model={model}")
        let spec := match sc.get h with | some v => toString v | none => "none"
        if out != spec then fs := fs.push (fO "cache" s!"step {i}: get returned {out}, the map holds {spec}")
      | "R", [h, v, pr] =>
        let some h := bb? h | return fs.push ⟨'E', "parse", op⟩
        let some v := v.toNat? | return fs.push ⟨'E', "parse", op⟩
        let some pr := pred? pr | return fs.push ⟨'E', "parse", op⟩
        match c.replaceIf h v pr with
        | some c' => c := c'
        | none => fs := fs.push (fO "cache" s!"step {i}: access outside the table")
        sc := sc.replaceIf h v pr
      | _, _ => fs := fs.push ⟨'E', "parse", op⟩
    return fs

end Chess.Driver
