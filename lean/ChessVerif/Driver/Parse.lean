import ChessVerif.Refine.Abs
import ChessVerif.Model.Text
import ChessVerif.CodeTables
import ChessVerif.Refine.Dump
/-
Parsing / printing of the line protocol (PROTOCOL.md).  Driver code: trusted for the correspondence
check only, never used in a theorem.
-/
namespace Chess.Driver

/-- the tables of the code (regenerated from /repo's build on every run) -/
def T : Tables := codeTables

def hexDigit? (c : Char) : Option Nat :=
  if '0' ≤ c ∧ c ≤ '9' then some (c.toNat - '0'.toNat)
  else if 'a' ≤ c ∧ c ≤ 'f' then some (c.toNat - 'a'.toNat + 10)
  else if 'A' ≤ c ∧ c ≤ 'F' then some (c.toNat - 'A'.toNat + 10)
  else none

def parseHex? (s : String) : Option Nat :=
  if s.isEmpty then none else
  s.toList.foldl (fun acc c => match acc, hexDigit? c with
    | some a, some d => some (a * 16 + d)
    | _, _ => none) (some 0)

def bb? (s : String) : Option BB := (parseHex? s).map (BitVec.ofNat 64)

def hexOfNat (n : Nat) : String := String.ofList (Nat.toDigits 16 n)
def showBB (b : BB) : String := hexOfNat b.toNat

def sq? (s : String) : Option Sq := s.toNat?.bind fun n => if h : n < 64 then some ⟨n, h⟩ else none
def fin8? (s : String) : Option (Fin 8) := s.toNat?.bind fun n => if h : n < 8 then some ⟨n, h⟩ else none
def color? (s : String) : Option Color := if s == "w" then some .white else if s == "b" then some .black else none
def showColor : Color → String | .white => "w" | .black => "b"
def cr? (s : String) : Option CastleRights := s.toNat?.bind fun n => if n < 4 then some (CastleRights.fromIndex n) else none

/-- hex-encoded UTF-8 text (`-` = empty) -/
def text? (s : String) : Option (List Char) :=
  if s == "-" then some [] else
  let cs := s.toList
  if cs.length % 2 ≠ 0 then none else
  let rec go : List Char → List UInt8 → Option (List UInt8)
    | a :: b :: rest, acc => match hexDigit? a, hexDigit? b with
      | some x, some y => go rest (UInt8.ofNat (x * 16 + y) :: acc)
      | _, _ => none
    | [], acc => some acc.reverse
    | _, _ => none
  match go cs [] with
  | none => none
  | some bytes => (String.fromUTF8? (ByteArray.mk bytes.toArray)).map String.toList

def showText (l : List Char) : String :=
  if l.isEmpty then "-" else
  let bytes := (String.ofList l).toUTF8
  String.join (bytes.toList.map fun b =>
    let n := b.toNat
    String.ofList [(Nat.toDigits 16 (n / 16)).headD '0', (Nat.toDigits 16 (n % 16)).headD '0'])

def move? (s : String) : Option Move :=
  match parseMove s.toList with
  | .ok m => if (showMove m) == s.toList then some m else none
  | _ => none

def showMv (m : Move) : String := String.ofList (showMove m)

def moveList? (s : String) : Option (List Move) :=
  if s == "-" then some [] else (s.splitOn ",").mapM move?

def showMoveList (l : List Move) : String := if l.isEmpty then "-" else ",".intercalate (l.map showMv)

/-- field 15 of a board dump is the observable `get_hash()`; the model's private `hash` field is derived
from it (`Board.rawOfGhash`, `Refine/Dump.lean`: the one value for which `b.getHash T` is the dumped value),
so `impl Hash` is not relied on. -/
def rawOfGhash (T : Tables) (b : Board) (g : BB) : BB := b.rawOfGhash T g

def board? (s : String) : Option Board :=
  match s.splitOn "," with
  | [p, n, b, r, q, k, w, bl, comb, stm, wcr, bcr, pin, chk, hash, ep] => do
    let p ← bb? p; let n ← bb? n; let b ← bb? b; let r ← bb? r; let q ← bb? q; let k ← bb? k
    let w ← bb? w; let bl ← bb? bl; let comb ← bb? comb; let stm ← color? stm
    let wcr ← cr? wcr; let bcr ← cr? bcr; let pin ← bb? pin; let chk ← bb? chk; let hash ← bb? hash
    let ep ← if ep == "-" then some none else (sq? ep).map some
    let b0 : Board :=
      { pawns := p, knights := n, bishops := b, rooks := r, queens := q, kings := k, white := w,
        black := bl, combined := comb, stm := stm, wcr := wcr, bcr := bcr, pinned := pin,
        checkers := chk, hash := 0#64, ep := ep }
    pure { b0 with hash := rawOfGhash T b0 hash }
  | _ => none

def showBoardDump (b : Board) : String :=
  ",".intercalate [showBB b.pawns, showBB b.knights, showBB b.bishops, showBB b.rooks, showBB b.queens,
    showBB b.kings, showBB b.white, showBB b.black, showBB b.combined, showColor b.stm,
    toString b.wcr.toIndex, toString b.bcr.toIndex, showBB b.pinned, showBB b.checkers, showBB (b.getHash T),
    match b.ep with | none => "-" | some s => toString s.val]

def pcChar : Option (Piece × Color) → Char
  | none => '.'
  | some (p, .white) => (pieceChar p).toUpper
  | some (p, .black) => pieceChar p

def pcOfChar? (c : Char) : Option (Option (Piece × Color)) :=
  if c == '.' then some none else (letterPiece? c).map some

def builder? (s : String) : Option Builder :=
  match s.splitOn "," with
  | [sq64, stm, wcr, bcr, ep] => do
    let cs := sq64.toList
    if cs.length ≠ 64 then none
    let arr ← cs.mapM pcOfChar?
    let a := arr.toArray
    let stm ← color? stm; let wcr ← cr? wcr; let bcr ← cr? bcr
    let ep ← if ep == "-" then some none else (fin8? ep).map some
    pure { pieces := fun s => a.getD s.val none, stm := stm, wcr := wcr, bcr := bcr, epFile := ep }
  | _ => none

def showBuilderDump (b : Builder) : String :=
  ",".intercalate [String.ofList (allSq.map fun s => pcChar (b.pieces s)), showColor b.stm,
    toString b.wcr.toIndex, toString b.bcr.toIndex,
    match b.epFile with | none => "-" | some f => toString f.val]

def showStatus : BoardStatus → String | .ongoing => "o" | .stalemate => "s" | .checkmate => "c"
def showSpecStatus : Status → String | .ongoing => "o" | .stalemate => "s" | .checkmate => "c"

/-- `key=value` fields of a result -/
def field? (toks : List String) (key : String) : Option String :=
  toks.findSome? fun t => if t.startsWith (key ++ "=") then some ((t.drop (key.length + 1)).toString) else none

/-- memoise the mailbox of a position into an array (the oracle evaluates it tens of thousands of times) -/
def memo (p : Pos) : Pos :=
  let arr := Array.ofFn (n := 64) fun i => p.board i
  { p with board := fun s => arr.getD s.val none }

def moveKey (m : Move) : Nat :=
  (m.src.val * 64 + m.dst.val) * 8 + (match m.promo with
    | none => 0 | some .queen => 1 | some .rook => 2 | some .bishop => 3 | some .knight => 4 | some .king => 5 | some .pawn => 6)

def sortMoves (l : List Move) : List Move :=
  (l.toArray.qsort fun a b => moveKey a < moveKey b).toList

end Chess.Driver
