import ChessVerif.Driver.Ops2
import ChessVerif.Model.Deprecated
/-
Driver work for tables (C15, C16), bitboards (C20), symmetry (C17), hash separation (C09).
-/
namespace Chess.Driver
open Chess

def optSq : Option Sq → String | none => "-" | some s => toString s.val

def stepSpec := Geom.step
def stepWrap := Geom.stepWrap

def crOfNat (n : Nat) : CastleRights := CastleRights.fromIndex n

/-- (model value, spec value) of a TBL line -/
def tblEval (name : String) (a : List String) : Option (String × String) := do
  let sqA (i : Nat) : Option Sq := (a[i]?).bind Driver.sq?
  let colA (i : Nat) : Option Color := (a[i]?).bind color?
  let f8A (i : Nat) : Option (Fin 8) := (a[i]?).bind fin8?
  let natA (i : Nat) : Option Nat := (a[i]?).bind String.toNat?
  let bbA (i : Nat) : Option BB := (a[i]?).bind bb?
  match name with
  | "king" => let s ← sqA 0; pure (showBB (T.king s), showBB (Geom.king s))
  | "knight" => let s ← sqA 0; pure (showBB (T.knight s), showBB (Geom.knight s))
  | "rookrays" => let s ← sqA 0; pure (showBB (T.rookRays s), showBB (Geom.rookRays s))
  | "bishoprays" => let s ← sqA 0; pure (showBB (T.bishopRays s), showBB (Geom.bishopRays s))
  | "between" => let x ← sqA 0; let y ← sqA 1; pure (showBB (T.between x y), showBB (Geom.between x y))
  | "line" => let x ← sqA 0; let y ← sqA 1; pure (showBB (T.line x y), showBB (Geom.line x y))
  | "pawnattacks" =>
    let c ← colA 0; let s ← sqA 1; let bl ← bbA 2
    pure (showBB (Board.pawnAttacks T s c bl), showBB (Geom.pawnAttacks c s &&& bl))
  | "pawnquiets" =>
    let c ← colA 0; let s ← sqA 1; let bl ← bbA 2
    -- single step iff the square ahead is empty; double step iff on the start rank and both are empty
    let one := stepSpec s 0 c.fwd
    let two := if s.rank == c.pawnRank then stepSpec s 0 (2 * c.fwd) else none
    let spec : BB := match one with
      | none => 0#64
      | some o => if bl.has o then 0#64 else BB.ofSq o ||| (match two with
          | some t => if bl.has t then 0#64 else BB.ofSq t
          | none => 0#64)
    pure (showBB (Board.pawnQuiets T s c bl), showBB spec)
  | "pawnmoves" =>
    let c ← colA 0; let s ← sqA 1; let bl ← bbA 2
    let one := stepSpec s 0 c.fwd
    let two := if s.rank == c.pawnRank then stepSpec s 0 (2 * c.fwd) else none
    let quiet : BB := match one with
      | none => 0#64
      | some o => if bl.has o then 0#64 else BB.ofSq o ||| (match two with
          | some t => if bl.has t then 0#64 else BB.ofSq t
          | none => 0#64)
    pure (showBB (Board.pawnMoves T s c bl), showBB (quiet ||| (Geom.pawnAttacks c s &&& bl)))
  | "rank" => let r ← f8A 0; pure (showBB (T.ranks r), showBB (Geom.ranks r))
  | "file" => let f ← f8A 0; pure (showBB (T.files f), showBB (Geom.files f))
  | "adjfiles" => let f ← f8A 0; pure (showBB (T.adjFiles f), showBB (Geom.adjFiles f))
  | "edges" => pure (showBB T.edges, showBB Geom.edges)
  | "up" => let s ← sqA 0; pure (optSq s.up, optSq (stepSpec s 0 1))
  | "down" => let s ← sqA 0; pure (optSq s.down, optSq (stepSpec s 0 (-1)))
  | "left" => let s ← sqA 0; pure (optSq s.left, optSq (stepSpec s (-1) 0))
  | "right" => let s ← sqA 0; pure (optSq s.right, optSq (stepSpec s 1 0))
  | "forward" => let c ← colA 0; let s ← sqA 1; pure (optSq (s.forward c), optSq (stepSpec s 0 c.fwd))
  | "backward" => let c ← colA 0; let s ← sqA 1; pure (optSq (s.backward c), optSq (stepSpec s 0 (-c.fwd)))
  | "uup" => let s ← sqA 0; pure (toString s.uup.val, toString (stepWrap s 0 1).val)
  | "udown" => let s ← sqA 0; pure (toString s.udown.val, toString (stepWrap s 0 (-1)).val)
  | "uleft" => let s ← sqA 0; pure (toString s.uleft.val, toString (stepWrap s (-1) 0).val)
  | "uright" => let s ← sqA 0; pure (toString s.uright.val, toString (stepWrap s 1 0).val)
  | "uforward" => let c ← colA 0; let s ← sqA 1; pure (toString (s.uforward c).val, toString (stepWrap s 0 c.fwd).val)
  | "ubackward" => let c ← colA 0; let s ← sqA 1; pure (toString (s.ubackward c).val, toString (stepWrap s 0 (-c.fwd)).val)
  | "mksq" => let r ← f8A 0; let f ← f8A 1; pure (toString (mkSq r f).val, toString (r.val * 8 + f.val))
  | "getrank" => let s ← sqA 0; pure (toString s.getRank.val, toString (s.val / 8))
  | "getfile" => let s ← sqA 0; pure (toString s.getFile.val, toString (s.val % 8))
  | "fileleft" => let f ← f8A 0; pure (toString (fileLeft f).val, toString ((f.val + 7) % 8))
  | "fileright" => let f ← f8A 0; pure (toString (fileRight f).val, toString ((f.val + 1) % 8))
  | "rankup" => let r ← f8A 0; pure (toString (rankUp r).val, toString ((r.val + 1) % 8))
  | "rankdown" => let r ← f8A 0; pure (toString (rankDown r).val, toString ((r.val + 7) % 8))
  | "fileidx" => let i ← natA 0; pure (toString (i % 8), toString (i % 8))
  | "rankidx" => let i ← natA 0; pure (toString (i % 8), toString (i % 8))
  | "sqnew" => let i ← natA 0; pure (toString (i % 64), toString (i % 64))
  | "sq2cr" =>
    let c ← colA 0; let s ← sqA 1
    -- the rights that depend on a man standing on `s`: king home loses both, rook homes one each
    let spec : Nat := if s.rank == c.homeRank then (if s.fileN == 4 then 3 else if s.fileN == 7 then 1 else if s.fileN == 0 then 2 else 0) else 0
    pure (toString (squareToCastleRights c s).toIndex, toString spec)
  | "unmoved" =>
    let cr ← natA 0; let c ← colA 1
    let cr := crOfNat cr
    let spec := Geom.setOf fun s => s.rank == c.homeRank && ((cr.ks && s.fileN == 7) || (cr.qs && s.fileN == 0))
    pure (showBB (cr.unmovedRooks c), showBB spec)
  | "crks" => let cr ← natA 0; pure ((if (crOfNat cr).ks then "1" else "0"), (if cr % 2 == 1 then "1" else "0"))
  | "crqs" => let cr ← natA 0; pure ((if (crOfNat cr).qs then "1" else "0"), (if cr / 2 % 2 == 1 then "1" else "0"))
  | "cradd" => let x ← natA 0; let y ← natA 1; pure (toString ((crOfNat x).add (crOfNat y)).toIndex, toString ((x ||| y) % 4))
  | "crrm" => let x ← natA 0; let y ← natA 1; pure (toString ((crOfNat x).remove (crOfNat y)).toIndex, toString ((x % 4) - ((x % 4) &&& (y % 4))))
  | "backrank" => let c ← colA 0; pure (toString c.backrank.val, toString c.homeRank)
  | "theirbackrank" => let c ← colA 0; pure (toString c.theirBackrank.val, toString c.lastRank)
  | "second" => let c ← colA 0; pure (toString c.secondRank.val, toString c.pawnRank)
  | "fourth" => let c ← colA 0; pure (toString c.fourthRank.val, toString (c.pawnRank + 2 * c.fwd))
  | "seventh" => let c ← colA 0; pure (toString c.seventhRank.val, toString (c.lastRank - c.fwd))
  | "ksq" => let c ← colA 0; pure (showBB (T.ksCastle c), showBB (Geom.ksCastle c))
  | "qsq" => let c ← colA 0; pure (showBB (T.qsCastle c), showBB (Geom.qsCastle c))
  | "crstr" =>
    let cr ← natA 0; let c ← colA 1
    let cr := crOfNat cr
    let spec : List Char := (if cr.ks then [if c == .white then 'K' else 'k'] else []) ++ (if cr.qs then [if c == .white then 'Q' else 'q'] else [])
    pure (showText (castleString cr c), showText spec)
  | "rsq2cr" =>
    let s ← sqA 0
    let spec : Nat := if s.fileN == 0 then 2 else if s.fileN == 7 then 1 else 0
    pure (toString (rookSquareToCastleRights s).toIndex, toString spec)
  | "toint" => let s ← sqA 0; pure (toString s.val, toString s.val)
  | "sqdefault" => pure ("0", "0")
  -- the exported constants: the i-th named square / listed value has index i (promotion order Q N R B)
  | "sqconst" | "allsq" | "allfiles" | "allranks" | "allpieces" | "allcolors" | "allcr" =>
    let i ← natA 0; pure (toString i, toString i)
  | "promo" =>
    let i ← natA 0
    let v ← [4, 1, 3, 2][i]?
    pure (toString v, toString v)
  | "nums" => pure ("64,8,8,6,2,4,4", "64,8,8,6,2,4,4")
  | "empty" => pure ("0", "0")
  | "tosize" =>
    let v ← bbA 0; let k ← natA 1
    pure (toString (v.toSize k), toString (v.toNat / 2 ^ k))
  | "pcstr" =>
    let pi ← natA 0; let c ← colA 1
    let p ← allPieces[pi]?
    pure (showText [pieceLetter p c], showText [pcChar (some (p, c))])
  | _ => none

def opTBL (args res : List String) : Findings := Id.run do
  let mut fs : Findings := #[]
  let some name := args.head? | return #[⟨'E', "parse", "TBL"⟩]
  let impl := res.headD "?"
  match tblEval name args.tail with
  | none => return #[⟨'E', "parse", s!"TBL {name} {args.tail}"⟩]
  | some (model, spec) =>
    -- `to_size` is a conversion helper, not geometry: its own channel
    let chan := if ["tosize", "sqconst", "allsq", "allfiles", "allranks", "allpieces", "allcolors", "allcr", "promo", "nums", "empty"].contains name then "aux" else "tbl"
    fs := expectEq fs 'M' chan impl model
    fs := expectEq fs 'O' chan impl spec
    return fs

def opSlider (bishop bmi : Bool) (args res : List String) : Findings := Id.run do
  let mut fs : Findings := #[]
  let some s := args[0]?.bind Driver.sq? | return #[⟨'E', "parse", "sq"⟩]
  let some occ := args[1]?.bind bb? | return #[⟨'E', "parse", "occ"⟩]
  let impl := res.headD "?"
  let model := if bmi then codeRaw.bmiLookup bishop s occ else (if bishop then T.bishopMoves s occ else T.rookMoves s occ)
  let spec := if bishop then Geom.bishopWalk s occ else Geom.rookWalk s occ
  fs := expectEq fs 'M' (if bmi then "bmi" else "slider") impl (showBB model)
  fs := expectEq fs 'O' (if bmi then "bmi" else "slider") impl (showBB spec)
  return fs

/-! ### BB (C20): oracle = set semantics over the members of the operands -/

def setToBB (l : List Sq) : BB := BB.ofList l

def opBB (args res : List String) : Findings := Id.run do
  let mut fs : Findings := #[]
  let some op := args[0]? | return #[⟨'E', "parse", "BB"⟩]
  let some a := args[1]?.bind bb? | return #[⟨'E', "parse", "a"⟩]
  let some b := args[2]?.bind bb? | return #[⟨'E', "parse", "b"⟩]
  let impl := res.headD "?"
  let ma := Spec.members a; let mb := Spec.members b
  let (model, spec?) : BB × Option BB := match op with
    | "and" => (a &&& b, some (setToBB (ma.filter (mb.contains ·))))
    | "or" => (a ||| b, some (setToBB (allSq.filter fun s => ma.contains s || mb.contains s)))
    | "xor" => (a ^^^ b, some (setToBB (allSq.filter fun s => ma.contains s != mb.contains s)))
    | "not" => (~~~a, some (setToBB (allSq.filter fun s => !ma.contains s)))
    | "mul" => (a * b, none)
    | _ => (0#64, none)
  fs := expectEq fs 'M' "bb" impl (showBB model)
  match spec? with
  | some sp => fs := expectEq fs 'O' "bb" impl (showBB sp)
  | none => pure ()
  return fs

def showSqList (l : List Sq) : String := if l.isEmpty then "-" else ",".intercalate (l.map fun s => toString s.val)

def opBBmisc (op : String) (args res : List String) : Findings := Id.run do
  let mut fs : Findings := #[]
  let impl := res.headD "?"
  match op with
  | "BBITER" =>
    let some a := args[0]?.bind bb? | return #[⟨'E', "parse", "a"⟩]
    fs := expectEq fs 'M' "bb" impl (showSqList a.toList)
    fs := expectEq fs 'O' "bb" impl (showSqList (Spec.members a))
  | "BBCNT" =>
    let some a := args[0]?.bind bb? | return #[⟨'E', "parse", "a"⟩]
    fs := expectEq fs 'M' "bb" impl (toString a.popcnt)
    fs := expectEq fs 'O' "bb" impl (toString (Spec.members a).length)
  | "BBTOSQ" =>
    let some a := args[0]?.bind bb? | return #[⟨'E', "parse", "a"⟩]
    fs := expectEq fs 'M' "bb" impl (toString a.toSq.val)
    match (Spec.members a).head? with
    | some s => fs := expectEq fs 'O' "bb" impl (toString s.val)   -- first square of a non-empty set is its lowest
    | none => pure ()
  | "BBFROMSQ" =>
    let some s := args[0]?.bind Driver.sq? | return #[⟨'E', "parse", "s"⟩]
    fs := expectEq fs 'M' "bb" impl (showBB (BB.ofSq s))
    fs := expectEq fs 'O' "bb" impl (showBB (setToBB [s]))
  | "BBREV" =>
    let some a := args[0]?.bind bb? | return #[⟨'E', "parse", "a"⟩]
    fs := expectEq fs 'M' "bb" impl (showBB a.swapBytes)
    fs := expectEq fs 'O' "bb" impl (showBB (setToBB ((Spec.members a).map Sq.mirror)))
  | "BBSET" =>
    let some r := args[0]?.bind fin8? | return #[⟨'E', "parse", "r"⟩]
    let some f := args[1]?.bind fin8? | return #[⟨'E', "parse", "f"⟩]
    fs := expectEq fs 'M' "bb" impl (showBB (BB.set r f))
    fs := expectEq fs 'O' "bb" impl (showBB (Geom.setOf fun s => s.rankN == r.val && s.fileN == f.val))
  | _ => fs := fs.push ⟨'E', "parse", op⟩
  return fs

/-! ### SYM (C17) -/

def boardList? (s : String) : Option (List Board) :=
  if s == "-" ∨ s == "" then some [] else (s.splitOn ";").mapM board?

/-- observable part of a successor that symmetry must preserve: position, checkers, mover's pinned men -/
def symView (b : Board) (tr : Sq → Sq) : String :=
  let p := b.abs
  let img (x : BB) : BB := BB.ofList ((Spec.members x).map tr)
  showPos p ++ "|" ++ showBB (img b.checkers) ++ "|" ++ showBB (img (b.pinned &&& mine b))

def opSYM (args res : List String) : Findings := Id.run do
  let mut fs : Findings := #[]
  let some kind := args[0]? | return #[⟨'E', "parse", "SYM"⟩]
  let some b := args[1]?.bind board? | return #[⟨'E', "parse", "bad board"⟩]
  let p := memo b.abs
  if !Valid p then return fs
  let tr : Sq → Sq := if kind == "m" then Sq.mirror else Sq.flipFile
  let trM : Move → Move := if kind == "m" then Move.mirror else Move.flipFile
  let want : Pos := memo (if kind == "m" then p.mirror else p.flipFiles)
  let implB := res.headD "?"
  -- model: the image position built from scratch
  let modelB := match Board.tryFrom T want.toBuilder with | some x => showBoardDump x | none => "ERR"
  fs := expectEq fs 'M' "sym" implB modelB
  match board? implB with
  | none => fs := fs.push (fO "sym" s!"the image of a valid position was rejected: {implB}")
  | some b2 =>
    let p2 := memo b2.abs
    if !posEq p2 want then fs := fs.push (fO "sym" s!"image board is {showPos p2}, expected {showPos want}")
    let some mv := (field? res "moves").bind moveList? | return fs.push ⟨'E', "parse", "moves"⟩
    let some mv2 := (field? res "moves2").bind moveList? | return fs.push ⟨'E', "parse", "moves2"⟩
    if !sameMoveSet (mv.map trM) mv2 then
      fs := fs.push (fO "sym" s!"moves of the image {showMoveList (sortMoves mv2)} are not the images of the moves {showMoveList (sortMoves (mv.map trM))}")
    if (field? res "st") != (field? res "st2") then fs := fs.push (fO "sym" "status differs between a position and its image")
    -- checkers / pinned of the two boards
    let idf : Sq → Sq := fun s => s
    let v1 := symView b tr; let v2 := symView b2 idf
    let img1 := (v1.splitOn "|").drop 1; let img2 := (v2.splitOn "|").drop 1
    if img1 != img2 then fs := fs.push (fO "sym" s!"check/pin sets are not mirror images: {img1} vs {img2}")
    let some sc := (field? res "succ").bind boardList? | return fs.push ⟨'E', "parse", "succ"⟩
    let some sc2 := (field? res "succ2").bind boardList? | return fs.push ⟨'E', "parse", "succ2"⟩
    if sc.length == mv.length ∧ sc2.length == mv2.length then
      for (m, s1) in mv.zip sc do
        match (mv2.zip sc2).find? (fun x => x.1 == trM m) with
        | none => pure ()
        | some (_, s2) =>
          let e : Pos := memo (if kind == "m" then (memo s1.abs).mirror else (memo s1.abs).flipFiles)
          let img (x : BB) : BB := BB.ofList ((Spec.members x).map tr)
          if !posEq (memo s2.abs) e ∨ img s1.checkers != s2.checkers ∨ img (s1.pinned &&& mine s1) != (s2.pinned &&& mine s2) then
            fs := fs.push (fO "sym" s!"successor after {showMv m} is not the mirror image of the successor after {showMv (trM m)}")
    else fs := fs.push ⟨'E', "parse", "succ lengths"⟩
  return fs

/-! ### VAR / COLL (C09) -/

def opVAR (args res : List String) : Findings := Id.run do
  let mut fs : Findings := #[]
  let some b1 := args[0]?.bind board? | return #[⟨'E', "parse", "b1"⟩]
  let some b2 := args[1]?.bind board? | return #[⟨'E', "parse", "b2"⟩]
  let h1 := res.getD 0 "?"; let h2 := res.getD 1 "?"
  fs := expectEq fs 'M' "var" s!"{h1} {h2}" s!"{showBB (b1.getHash T)} {showBB (b2.getHash T)}"
  let p := memo b1.abs; let q := memo b2.abs
  -- number of differing components: squares, side, white rights, black rights, ep file
  let dsq := (allSq.filter fun s => p.board s != q.board s).length
  let dstm := if p.stm != q.stm then 1 else 0
  let dw := if (p.castleK .white, p.castleQ .white) != (q.castleK .white, q.castleQ .white) then 1 else 0
  let db := if (p.castleK .black, p.castleQ .black) != (q.castleK .black, q.castleQ .black) then 1 else 0
  let dep := if p.ep.map Sq.getFile != q.ep.map Sq.getFile then 1 else 0
  if dsq + dstm + dw + db + dep == 1 then
    if h1 == h2 then fs := fs.push (fO "var" s!"single-component variants ({args.getD 2 "?"}) share the hash {h1}")
  return fs

def opCOLL (_args res : List String) : Findings :=
  match (field? res "collisions").bind String.toNat? with
  | some 0 => #[]
  | some k => #[fO "coll" s!"{k} hash collisions among {(field? res "distinct").getD "?"} distinct positions"]
  | none => #[⟨'E', "parse", "COLL"⟩]

/-! ### SPECPERFT: sanity test of the specification itself against published perft numbers
(labelled a test: it supports the reading of `Spec.Rules`, it proves nothing) -/

partial def specPerft (p : Pos) : Nat → Nat
  | 0 => 1
  | 1 => (legalMoves (memo p)).length
  | n+1 => ((legalMoves (memo p)).map fun m => specPerft (norm (apply (memo p) m)) n).sum

def opSPECPERFT (args _res : List String) : Findings :=
  match args[0]?.bind text?, args[1]?.bind String.toNat?, args[2]?.bind String.toNat? with
  | some fen, some depth, some expected =>
    match Fen.decode fen with
    | none => #[⟨'E', "parse", "SPECPERFT: FEN not decodable by the spec grammar"⟩]
    | some p =>
      let n := specPerft p depth
      if n == expected then #[] else #[fO "specperft" s!"spec perft({depth}) = {n}, published {expected}"]
  | _, _, _ => #[⟨'E', "parse", "SPECPERFT args"⟩]

/-! ### EDIT: the deprecated mutators.  Model correspondence on channel `edit`; when the result is a
valid position, the C03/C08 oracles (check and pin sets, occupancy, raw hash = placement xor) on
channels `ewf.*` -/

def opEDIT (args res : List String) : Findings := Id.run do
  let mut fs : Findings := #[]
  let some b := args[0]?.bind board? | return #[⟨'E', "parse", "bad board"⟩]
  let some cmd := args[1]? | return #[⟨'E', "parse", "EDIT cmd"⟩]
  let impl := res.headD "?"
  -- the crate no longer has this (deprecated) mutator: nothing to compare
  if impl == "UNAVAILABLE" then return #[]
  let cs := cmd.toList
  let tailStr (n : Nat) : String := String.ofList (cs.drop n)
  let model : Option (Option Board) :=
    match cs with
    | 'S' :: pc :: cc :: _ => do
      let p ← allPieces[pc.toNat - '0'.toNat]?
      let c ← color? (String.ofList [cc])
      let s ← Driver.sq? (tailStr 3)
      pure (b.setPiece T p c s)
    | 'C' :: _ => do
      let s ← Driver.sq? (tailStr 1)
      pure (b.clearSquare T s)
    | 'A' :: cc :: _ => do
      let c ← color? (String.ofList [cc]); let x ← cr? (tailStr 2)
      pure (some (b.addCastleRights c x))
    | 'R' :: cc :: _ => do
      let c ← color? (String.ofList [cc]); let x ← cr? (tailStr 2)
      pure (some (b.removeCastleRights c x))
    | 'a' :: _ => do let x ← cr? (tailStr 1); pure (some (b.addCastleRights b.stm x))
    | 'r' :: _ => do let x ← cr? (tailStr 1); pure (some (b.removeCastleRights b.stm x))
    | 't' :: _ => do let x ← cr? (tailStr 1); pure (some (b.addCastleRights b.stm.other x))
    | 'u' :: _ => do let x ← cr? (tailStr 1); pure (some (b.removeCastleRights b.stm.other x))
    | _ => none
  match model with
  | none => return #[⟨'E', "parse", s!"EDIT {cmd}"⟩]
  | some m =>
    fs := expectEq fs 'M' "edit" impl (match m with | some b' => showBoardDump b' | none => "NONE")
    match board? impl with
    | none => pure ()
    | some b' =>
      let p' := memo b'.abs
      if Valid p' then
        fs := wfFindings fs "ewf." b' p'
        match (field? res "gh").bind bb? with
        | some gh => if gh != p'.hashOf T then fs := fs.push (fO "ewf.ghash" s!"get_hash() of the edited position is {showBB gh}, from-scratch hash of that position is {showBB (p'.hashOf T)}")
        | none => pure ()
    return fs

/-! ### dispatch -/

def processLine (line : String) : Findings :=
  match line.splitOn " => " with
  | [lhs, rhs0] =>
    let l := (lhs.splitOn " ").filter (· != "")
    let r0 := (rhs0.splitOn " ").filter (· != "")
    -- `alt=`: agreement of the thin wrappers / alternative entry points with the primary one, which
    -- the model represents as the same function; anything but `OK` is a model≠impl finding of its own
    let altFs : Findings := match r0.find? (·.startsWith "alt=") with
      | some t => if t == "alt=OK" then #[] else 
        let body := (t.drop 4).toString
        let which := match body.splitOn ":" with | _ :: rest => ":".intercalate rest | [] => body
        #[fO ("alt." ++ which) s!"an alternative entry point of the library disagrees with the primary one (which the oracle accepts on this input): {body}"]
      | none => #[]
    let r := r0.filter (fun t => !t.startsWith "alt=")
    let rhs := " ".intercalate r
    altFs ++
    match l with
    | [] => #[]
    | op :: args =>
      -- a panic of the real crate inside an operation whose contract has no panic is a violation in itself
      let panicChan : Option String := match op with
        | "POS" => some "moves" | "LEGAL" => some "legal" | "MAKE" => some "make" | "NULL" => some "null"
        | "GEN" => some "gen" | "GAME" => some "game" | "SYM" => some "sym" | "BFEN" => some "bfen"
        | "TBL" => some "tbl" | "ROOK" | "BISHOP" => some "slider" | "ROOKBMI" | "BISHOPBMI" => some "bmi"
        | "BB" | "BBITER" | "BBCNT" | "BBTOSQ" | "BBFROMSQ" | "BBREV" | "BBSET" => some "bb"
        | "SHOWM" => some "showm" | "SHOWSQ" => some "showsq" | "VAR" => some "var"
        | _ => none
      if panicChan.isSome ∧ (rhs.splitOn "PANIC").length > 1 then
        #[fO (panicChan.getD "panic") s!"the library panicked: {rhs.take 200}"]
      else
      match op with
      | "POS" => opPOS args r
      | "LEGAL" => opLEGAL args r
      | "MAKE" => opMAKE args r
      | "NULL" => opNULL args r
      | "EDIT" => opEDIT args r
      | "FENP" => opFENP args r
      | "BLD" => opBLD args r
      | "BFEN" => opBFEN args r
      | "BPARSE" => opBPARSE args r
      | "SAN" => opSAN args r
      | "UCI" => opUCI args r
      | "SQ" => opSQ args r
      | "SHOWM" => opSHOWM args r
      | "SHOWSQ" => opSHOWSQ args r
      | "GEN" => opGEN args r
      | "GAME" => opGAME args r
      | "CACHE" => opCACHE args r
      | "TBL" => opTBL args r
      | "ROOK" => opSlider false false args r
      | "BISHOP" => opSlider true false args r
      | "ROOKBMI" => opSlider false true args r
      | "BISHOPBMI" => opSlider true true args r
      | "BB" => opBB args r
      | "BBITER" | "BBCNT" | "BBTOSQ" | "BBFROMSQ" | "BBREV" | "BBSET" => opBBmisc op args r
      | "SYM" => opSYM args r
      | "VAR" => opVAR args r
      | "COLL" => opCOLL args r
      | "SPECPERFT" => opSPECPERFT args r
      | _ => #[⟨'E', "parse", s!"unknown op {op}"⟩]
  | _ => if line.trimAscii.isEmpty then #[] else #[⟨'E', "parse", "no ' => ' separator"⟩]

end Chess.Driver
