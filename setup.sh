#!/bin/bash
# Build the framework from files on disk only (offline): harness (default + bmi2 build of /repo's
# working tree), T1 table extraction, the Lean library (model, spec, proofs) and the driver.
set -e
cd "$(dirname "$0")"
export CARGO_NET_OFFLINE=true
mkdir -p work evidence replays
( cd harness && cargo build --offline --message-format=json > ../work/cargo-default.json 2> ../work/cargo-default.err ) || { tail -30 work/cargo-default.err; exit 1; }
( cd harness && RUSTFLAGS="-C target-feature=+bmi2" cargo build --offline --message-format=json --target-dir target-bmi2 > ../work/cargo-bmi2.json 2> ../work/cargo-bmi2.err ) || echo "note: +bmi2 build failed"
OUT=$(python3 - <<'PY'
import json
def od(p):
    r=None
    try:
        for l in open(p):
            if l.startswith('{'):
                j=json.loads(l)
                if j.get('reason')=='build-script-executed' and 'chess' in j.get('package_id','') and 'harness' not in j.get('package_id',''):
                    r=j.get('out_dir')
    except Exception: pass
    return r or '-'
print(od('work/cargo-default.json'), od('work/cargo-bmi2.json'))
PY
)
python3 tools/extract_tables.py $OUT lean/ChessVerif/Gen
cd lean
PROPS=$(python3 -c "import json;print(' '.join(m for v in json.load(open('props.json')).values() for m in v['modules']))")
lake build driver $PROPS
echo "setup done"
